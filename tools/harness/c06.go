package main

// C06 — SMB wire data types: Marshal / Unmarshal of the real library, per type
//   c06.<t>.enc <value…>            -> ok <bytes> <receiver after Marshal…>
//   c06.<t>.dec <bytes>             -> ok <fields…> <n>
//   c06.<t>.rt  <value…> <suffix>   -> ok <fields of a fresh receiver after Unmarshal(Marshal(v)||suffix)…> <n> <len(Marshal(v))>
// Every input buffer handed to Unmarshal has cap == len, so that a slice expression which reads
// past the end panics exactly as it would on a buffer that ends there.

import (
	"encoding/binary"
	"fmt"
	"strconv"
	"strings"

	"github.com/TheManticoreProject/Manticore/network/smb/smb_v10/message/commands/andx"
	"github.com/TheManticoreProject/Manticore/network/smb/smb_v10/message/commands/codes"
	"github.com/TheManticoreProject/Manticore/network/smb/smb_v10/message/data"
	"github.com/TheManticoreProject/Manticore/network/smb/smb_v10/message/parameters"
	"github.com/TheManticoreProject/Manticore/network/smb/smb_v10/spnego/ntlm/version"
	"github.com/TheManticoreProject/Manticore/network/smb/smb_v10/types"
	"github.com/TheManticoreProject/Manticore/windows/ms_dtyp/common/data_structures"
)

// clip copies b into a slice whose capacity equals its length.
func clip(b []byte) []byte {
	c := make([]byte, len(b))
	copy(c, b)
	return c[:len(c):len(c)]
}

func utoa(v uint64) string { return strconv.FormatUint(v, 10) }

// a wire type of C06: how to build a receiver from value tokens, marshal it, unmarshal into a
// fresh receiver, and print a receiver's fields
type wireType struct {
	name  string
	nargs int
	enc   func(v []string) ([]byte, []string, error) // bytes, receiver after Marshal
	dec   func(b []byte) ([]string, int, error)      // fields of a fresh receiver after Unmarshal, n
}

func strFields(s *types.SMB_STRING) []string {
	return []string{utoa(uint64(s.BufferFormat)), utoa(uint64(s.Length)), hx(s.Buffer)}
}
func strFrom(v []string) types.SMB_STRING {
	return types.SMB_STRING{BufferFormat: byte(atoiU(v[0], 8)), Length: uint16(atoiU(v[1], 16)), Buffer: unhx(v[2])}
}
func dateFields(d *types.SMB_DATE) []string {
	return []string{utoa(uint64(d.Year)), utoa(uint64(d.Month)), utoa(uint64(d.Day))}
}
func dateFrom(v []string) types.SMB_DATE {
	return types.SMB_DATE{Year: uint16(atoiU(v[0], 16)), Month: uint8(atoiU(v[1], 8)), Day: uint8(atoiU(v[2], 8))}
}
func timeFields(t *data_structures.FILETIME) []string {
	return []string{utoa(uint64(t.DwLowDateTime)), utoa(uint64(t.DwHighDateTime))}
}
func timeFrom(v []string) data_structures.FILETIME {
	return data_structures.FILETIME{DwLowDateTime: uint32(atoiU(v[0], 32)), DwHighDateTime: uint32(atoiU(v[1], 32))}
}
func keyFields(k *types.SMB_RESUME_KEY) []string {
	return append(strFields(&k.SMB_STRING), utoa(uint64(k.Reserved)), hx(k.ServerState[:]), hx(k.ClientState[:]))
}
func keyFrom(v []string) types.SMB_RESUME_KEY {
	k := types.SMB_RESUME_KEY{SMB_STRING: strFrom(v[0:3]), Reserved: byte(atoiU(v[3], 8))}
	ss, cs := unhx(v[4]), unhx(v[5])
	if len(ss) != 16 || len(cs) != 4 {
		panic("harness: resume key state sizes")
	}
	copy(k.ServerState[:], ss)
	copy(k.ClientState[:], cs)
	return k
}
func dirFields(d *types.SMB_DIRECTORY_INFORMATION) []string {
	f := keyFields(&d.ResumeKey)
	f = append(f, utoa(uint64(d.FileAttributes)))
	f = append(f, timeFields(&d.LastWriteTime)...)
	f = append(f, dateFields(&d.LastWriteDate)...)
	f = append(f, utoa(uint64(d.FileSize)))
	return append(f, strFields(&d.FileName.SMB_STRING)...)
}
func wordsTok(ws []uint16) string {
	if len(ws) == 0 {
		return "."
	}
	p := make([]string, len(ws))
	for i, w := range ws {
		p[i] = utoa(uint64(w))
	}
	return strings.Join(p, ",")
}
func wordsFrom(s string) []uint16 {
	if s == "." {
		return []uint16{}
	}
	var ws []uint16
	for _, t := range strings.Split(s, ",") {
		ws = append(ws, uint16(atoiU(t, 16)))
	}
	return ws
}

// Half of the decodes (chosen by the input) go into a receiver that has already decoded other bytes, successfully or
// not: what a decoder reports must be a function of its input alone.
func c06Dirty(b []byte, prior func([]byte)) {
	if !c13Used([]string{string(b)}) {
		return
	}
	p := make([]byte, 96)
	for i := range p {
		p[i] = byte(0xA7 - 3*i)
	}
	p[0], p[1], p[2] = 0x04, 0x05, 0x00 // a plausible buffer format and a short length for the string-like types
	defer func() { recover() }()
	prior(p)
}

var c06Types = []wireType{
	{"str", 3,
		func(v []string) ([]byte, []string, error) { s := strFrom(v); b, e := s.Marshal(); return b, strFields(&s), e },
		func(b []byte) ([]string, int, error) { s := types.SMB_STRING{}; c06Dirty(b, func(p []byte) { s.Unmarshal(p) }); n, e := s.Unmarshal(b); return strFields(&s), n, e }},
	{"oem", 3,
		func(v []string) ([]byte, []string, error) {
			s := types.OEM_STRING{SMB_STRING: strFrom(v)}
			b, e := s.Marshal()
			return b, strFields(&s.SMB_STRING), e
		},
		func(b []byte) ([]string, int, error) {
			s := types.OEM_STRING{}
			c06Dirty(b, func(p []byte) { s.Unmarshal(p) })
			n, e := s.Unmarshal(b)
			return strFields(&s.SMB_STRING), n, e
		}},
	{"date", 3,
		func(v []string) ([]byte, []string, error) { d := dateFrom(v); b, e := d.Marshal(); return b, dateFields(&d), e },
		func(b []byte) ([]string, int, error) { d := types.SMB_DATE{}; c06Dirty(b, func(p []byte) { d.Unmarshal(p) }); n, e := d.Unmarshal(b); return dateFields(&d), n, e }},
	{"ftime", 2,
		func(v []string) ([]byte, []string, error) { t := timeFrom(v); b, e := t.Marshal(); return b, timeFields(&t), e },
		func(b []byte) ([]string, int, error) {
			t := data_structures.FILETIME{}
			c06Dirty(b, func(p []byte) { t.Unmarshal(p) })
			n, e := t.Unmarshal(b)
			return timeFields(&t), n, e
		}},
	{"r32", 3,
		func(v []string) ([]byte, []string, error) {
			r := types.LOCKING_ANDX_RANGE32{PID: uint16(atoiU(v[0], 16)), ByteOffset: uint32(atoiU(v[1], 32)), LengthInBytes: uint32(atoiU(v[2], 32))}
			b, e := r.Marshal()
			return b, []string{utoa(uint64(r.PID)), utoa(uint64(r.ByteOffset)), utoa(uint64(r.LengthInBytes))}, e
		},
		func(b []byte) ([]string, int, error) {
			r := types.LOCKING_ANDX_RANGE32{}
			c06Dirty(b, func(p []byte) { r.Unmarshal(p) })
			n, e := r.Unmarshal(b)
			return []string{utoa(uint64(r.PID)), utoa(uint64(r.ByteOffset)), utoa(uint64(r.LengthInBytes))}, n, e
		}},
	{"r64", 6,
		func(v []string) ([]byte, []string, error) {
			r := types.LOCKING_ANDX_RANGE64{PID: uint16(atoiU(v[0], 16)), Pad: uint16(atoiU(v[1], 16)), ByteOffsetHigh: uint32(atoiU(v[2], 32)),
				ByteOffsetLow: uint32(atoiU(v[3], 32)), LengthInBytesHigh: uint32(atoiU(v[4], 32)), LengthInBytesLow: uint32(atoiU(v[5], 32))}
			b, e := r.Marshal()
			return b, r64Fields(&r), e
		},
		func(b []byte) ([]string, int, error) {
			r := types.LOCKING_ANDX_RANGE64{}
			c06Dirty(b, func(p []byte) { r.Unmarshal(p) })
			n, e := r.Unmarshal(b)
			return r64Fields(&r), n, e
		}},
	{"pipe", 2,
		func(v []string) ([]byte, []string, error) {
			s := types.SMB_NMPIPE_STATUS{ICount: uint8(atoiU(v[0], 8)), Flags: uint8(atoiU(v[1], 8))}
			b, e := s.Marshal()
			return b, []string{utoa(uint64(s.ICount)), utoa(uint64(s.Flags))}, e
		},
		func(b []byte) ([]string, int, error) {
			s := types.SMB_NMPIPE_STATUS{}
			c06Dirty(b, func(p []byte) { s.Unmarshal(p) })
			n, e := s.Unmarshal(b)
			return []string{utoa(uint64(s.ICount)), utoa(uint64(s.Flags))}, n, e
		}},
	{"rkey", 6,
		func(v []string) ([]byte, []string, error) { k := keyFrom(v); b, e := k.Marshal(); return b, keyFields(&k), e },
		func(b []byte) ([]string, int, error) {
			k := types.SMB_RESUME_KEY{}
			c06Dirty(b, func(p []byte) { k.Unmarshal(p) })
			n, e := k.Unmarshal(b)
			return keyFields(&k), n, e
		}},
	{"dir", 16,
		func(v []string) ([]byte, []string, error) {
			d := types.SMB_DIRECTORY_INFORMATION{ResumeKey: keyFrom(v[0:6]), FileAttributes: uint8(atoiU(v[6], 8)), LastWriteTime: timeFrom(v[7:9]),
				LastWriteDate: dateFrom(v[9:12]), FileSize: uint32(atoiU(v[12], 32)), FileName: types.OEM_STRING{SMB_STRING: strFrom(v[13:16])}}
			b, e := d.Marshal()
			return b, dirFields(&d), e
		},
		func(b []byte) ([]string, int, error) {
			d := types.SMB_DIRECTORY_INFORMATION{}
			c06Dirty(b, func(p []byte) { d.Unmarshal(p) })
			n, e := d.Unmarshal(b)
			return dirFields(&d), n, e
		}},
	{"attr", 1,
		func(v []string) ([]byte, []string, error) {
			a := types.SMB_FILE_ATTRIBUTES{Attributes: uint16(atoiU(v[0], 16))}
			b, e := a.Marshal()
			return b, []string{utoa(uint64(a.Attributes))}, e
		},
		func(b []byte) ([]string, int, error) {
			a := types.SMB_FILE_ATTRIBUTES{}
			c06Dirty(b, func(p []byte) { a.Unmarshal(p) })
			n, e := a.Unmarshal(b)
			return []string{utoa(uint64(a.Attributes))}, n, e
		}},
	{"andx", 3,
		func(v []string) ([]byte, []string, error) {
			a := andx.AndX{AndXCommand: codes.CommandCode(atoiU(v[0], 8)), AndXReserved: uint8(atoiU(v[1], 8)), AndXOffset: uint16(atoiU(v[2], 16))}
			b, e := a.Marshal()
			return b, []string{utoa(uint64(a.AndXCommand)), utoa(uint64(a.AndXReserved)), utoa(uint64(a.AndXOffset))}, e
		},
		func(b []byte) ([]string, int, error) {
			a := andx.AndX{}
			c06Dirty(b, func(p []byte) { a.Unmarshal(p) })
			n, e := a.Unmarshal(b)
			return []string{utoa(uint64(a.AndXCommand)), utoa(uint64(a.AndXReserved)), utoa(uint64(a.AndXOffset))}, n, e
		}},
	{"params", 2,
		func(v []string) ([]byte, []string, error) {
			p := parameters.Parameters{WordCount: uint8(atoiU(v[0], 8)), Words: wordsFrom(v[1])}
			b, e := p.Marshal()
			return b, []string{utoa(uint64(p.WordCount)), wordsTok(p.Words)}, e
		},
		func(b []byte) ([]string, int, error) {
			p := parameters.Parameters{}
			c06Dirty(b, func(q []byte) { p.Unmarshal(q) })
			n, e := p.Unmarshal(b)
			return []string{utoa(uint64(p.WordCount)), wordsTok(p.Words)}, n, e
		}},
	{"data", 2,
		func(v []string) ([]byte, []string, error) {
			d := data.Data{ByteCount: uint16(atoiU(v[0], 16)), Bytes: unhx(v[1])}
			b, e := d.Marshal()
			return b, []string{utoa(uint64(d.ByteCount)), hx(d.Bytes)}, e
		},
		func(b []byte) ([]string, int, error) {
			d := data.Data{}
			c06Dirty(b, func(p []byte) { d.Unmarshal(p) })
			n, e := d.Unmarshal(b)
			return []string{utoa(uint64(d.ByteCount)), hx(d.Bytes)}, n, e
		}},
	{"ver", 5,
		func(v []string) ([]byte, []string, error) {
			x := version.Version{ProductMajorVersion: byte(atoiU(v[0], 8)), ProductMinorVersion: byte(atoiU(v[1], 8)), ProductBuild: uint16(atoiU(v[2], 16)), NTLMRevision: byte(atoiU(v[4], 8))}
			r := unhx(v[3])
			if len(r) != 3 {
				panic("harness: version reserved size")
			}
			copy(x.Reserved[:], r)
			b, e := x.Marshal()
			return b, verFields(&x), e
		},
		func(b []byte) ([]string, int, error) {
			x := version.Version{}
			c06Dirty(b, func(p []byte) { x.Unmarshal(p) })
			n, e := x.Unmarshal(b)
			return verFields(&x), n, e
		}},
}

func r64Fields(r *types.LOCKING_ANDX_RANGE64) []string {
	return []string{utoa(uint64(r.PID)), utoa(uint64(r.Pad)), utoa(uint64(r.ByteOffsetHigh)), utoa(uint64(r.ByteOffsetLow)),
		utoa(uint64(r.LengthInBytesHigh)), utoa(uint64(r.LengthInBytesLow))}
}
func verFields(v *version.Version) []string {
	return []string{utoa(uint64(v.ProductMajorVersion)), utoa(uint64(v.ProductMinorVersion)), utoa(uint64(v.ProductBuild)), hx(v.Reserved[:]), utoa(uint64(v.NTLMRevision))}
}

func init() {
	var ops []OpDef
	for _, wt := range c06Types {
		wt := wt
		ops = append(ops,
			OpDef{Name: "c06." + wt.name + ".enc", Impl: func(a []string) string {
				b, post, err := wt.enc(a)
				if err != nil {
					return "err"
				}
				toks := strings.Join(post, " ")
				return "ok " + hxOwn(b) + " " + toks
			}},
			OpDef{Name: "c06." + wt.name + ".dec", Impl: func(a []string) string {
				f, n, err := wt.dec(clip(unhx(a[0])))
				if err != nil {
					return "err"
				}
				return "ok " + strings.Join(f, " ") + " " + strconv.Itoa(n)
			}},
			OpDef{Name: "c06." + wt.name + ".rt", Impl: func(a []string) string {
				b, _, err := wt.enc(a[:wt.nargs])
				if err != nil {
					return "err"
				}
				in := clip(append(append([]byte{}, b...), unhx(a[wt.nargs])...))
				lb := len(b)
				hxOwn(b) // the encoding now belongs to the caller (held and watched, or written over)
				f, n, err := wt.dec(in)
				if err != nil {
					return "err"
				}
				return "ok " + strings.Join(f, " ") + " " + strconv.Itoa(n) + " " + strconv.Itoa(lb)
			}})
	}
	ops = append(ops, OpDef{Name: "c06.date.word", Impl: func(a []string) string {
		w := uint16(atoiU(a[0], 16))
		d := types.SMB_DATE{}
		if _, err := d.Unmarshal(clip(binary.LittleEndian.AppendUint16(nil, w))); err != nil {
			return "err"
		}
		b, err := d.Marshal()
		if err != nil || len(b) != 2 {
			return "err"
		}
		return "ok " + strings.Join(dateFields(&d), " ") + " " + utoa(uint64(binary.LittleEndian.Uint16(b)))
	}})
	register(&Prop{ID: "C06", Ops: ops, Gen: genC06})
}

// ---- generators -------------------------------------------------------------------------------

type c06Gen struct {
	cs   []Case
	tier string
}

func (g *c06Gen) add(op string, margs, sargs []string, tag string) {
	g.cs = append(g.cs, Case{Op: op, MArgs: margs, SArgs: sargs, Tag: tag})
}

// value: enc (tie), rt with the given suffix (tie + property)
func (g *c06Gen) value(t string, v []string, suffix []byte, tag string) {
	g.add("c06."+t+".enc", v, nil, t+".enc."+tag)
	a := append(append([]string{}, v...), hx(suffix))
	g.add("c06."+t+".rt", a, a, t+".rt."+tag)
}

// raw bytes to the decoder: tie + "no panic"
func (g *c06Gen) bytes(t string, b []byte, tag string) {
	a := []string{hx(b)}
	g.add("c06."+t+".dec", a, a, t+".dec."+tag)
}

func suffixOf(r *Rng) []byte {
	switch r.Intn(4) {
	case 0:
		return nil
	case 1:
		return r.Bytes(1)
	default:
		return r.Bytes(1 + r.Intn(24))
	}
}

// bytes without NUL
func nonNul(r *Rng, n int) []byte {
	b := r.Bytes(n)
	for i := range b {
		if b[i] == 0 {
			b[i] = byte(1 + r.Intn(255))
		}
	}
	return b
}

func u(v uint64) string { return utoa(v) }

func genC06(r *Rng, tier string) []Case {
	g := &c06Gen{tier: tier}
	thorough := tier == "thorough"
	n := 1500
	if thorough {
		n = 20000
	}
	wtByName := map[string]wireType{}
	for _, wt := range c06Types {
		wtByName[wt.name] = wt
	}
	// truncations, extensions and corruptions of a valid encoding; random bytes
	mangle := func(t string, v []string, rr *Rng) {
		b, _, err := wtByName[t].enc(v)
		if err != nil {
			return
		}
		if len(b) <= 64 {
			for k := 0; k <= len(b); k++ {
				g.bytes(t, b[:k], "truncated")
			}
		} else {
			for _, k := range []int{0, 1, 2, 3, 4, len(b) - 2, len(b) - 1, rr.Intn(len(b))} {
				g.bytes(t, b[:k], "truncated")
			}
		}
		g.bytes(t, append(append([]byte{}, b...), suffixOf(rr)...), "valid+suffix")
		if len(b) > 0 {
			c := append([]byte{}, b...)
			c[rr.Intn(len(c))] = rr.Byte()
			g.bytes(t, c, "corrupted")
		}
	}

	// ---- SMB_STRING / OEM_STRING
	rs := r.Fork("str")
	lens := []int{}
	maxGrid := 300
	if thorough {
		maxGrid = 1100
	}
	for l := 0; l <= maxGrid; l++ {
		lens = append(lens, l)
	}
	big := []int{4096, 65533, 65535}
	if thorough {
		big = []int{4095, 4096, 4097, 32767, 32768, 65532, 65533, 65534, 65535}
	}
	for _, f := range []int{1, 2, 3, 4, 5} {
		for _, l := range append(append([]int{}, lens...), big...) {
			buf := nonNul(rs, l)
			var sfx []byte
			if l%3 != 0 {
				sfx = suffixOf(rs)
			}
			g.value("str", []string{u(uint64(f)), u(uint64(l)), hx(buf)}, sfx, "len-grid")
		}
		// too long: Marshal must refuse (16-bit formats) / outside the domain (NUL-terminated)
		g.value("str", []string{u(uint64(f)), "0", hx(nonNul(rs, 65536))}, nil, "too-long")
		// Length field out of step with the buffer; embedded NUL
		g.value("str", []string{u(uint64(f)), u(uint64(rs.Intn(65536))), hx(nonNul(rs, rs.Intn(20)))}, suffixOf(rs), "length-out-of-step")
		b := nonNul(rs, 1+rs.Intn(20))
		b[rs.Intn(len(b))] = 0
		g.value("str", []string{u(uint64(f)), u(uint64(len(b))), hx(b)}, suffixOf(rs), "embedded-nul")
	}
	for f := 0; f < 256; f++ { // every format byte
		body := rs.Bytes(rs.Intn(12))
		g.bytes("str", append([]byte{byte(f)}, body...), "every-format-byte")
		g.bytes("oem", append([]byte{byte(f)}, body...), "every-format-byte")
		g.value("str", []string{u(uint64(f)), "3", "414243"}, suffixOf(rs), "every-format-byte")
		g.value("oem", []string{u(uint64(f)), "3", "414243"}, suffixOf(rs), "every-format-byte")
	}
	// the literal witnesses of the repaired defects
	g.bytes("str", []byte{5, 10, 0, 1}, "witness")
	g.bytes("str", []byte{5}, "witness")
	g.bytes("str", []byte{5, 0}, "witness")
	g.bytes("str", []byte{3, 2, 0, 0x41, 0x42}, "witness")
	g.bytes("str", []byte{3, 0, 0}, "witness")
	g.bytes("str", []byte{1, 0xff, 0xff, 1, 2, 3}, "witness")
	for i := 0; i < n; i++ {
		f := 1 + rs.Intn(5)
		l := rs.Intn(40)
		if rs.Intn(10) == 0 {
			l = rs.Pick(254, 255, 256, 257, 511, 512, 1000)
		}
		buf := nonNul(rs, l)
		v := []string{u(uint64(f)), u(uint64(l)), hx(buf)}
		g.value("str", v, suffixOf(rs), "random")
		g.value("oem", []string{"4", u(uint64(l)), hx(buf)}, suffixOf(rs), "random")
		if i%8 == 0 {
			mangle("str", v, rs)
			mangle("oem", v, rs)
		}
		if i%5 == 0 { // length field larger than the buffer / arbitrary
			b := append([]byte{byte(f)}, rs.Bytes(rs.Intn(10))...)
			g.bytes("str", b, "random-body")
			g.bytes("oem", b, "random-body")
		}
	}
	for _, l := range []int{0, 1, 12, 255, 256, 65535} {
		g.value("oem", []string{"4", u(uint64(l)), hx(nonNul(rs, l))}, suffixOf(rs), "len-grid")
		g.value("oem", []string{"0", u(uint64(l)), hx(nonNul(rs, l))}, suffixOf(rs), "format-not-yet-set")
	}

	// ---- SMB_DATE: every packed word
	rd := r.Fork("date")
	step := 4
	if thorough {
		step = 1
	}
	for w := 0; w < 65536; w++ {
		if w%step != 0 && w%512 > 40 && w%512 < 470 && w > 1024 && w < 64512 {
			continue
		}
		g.add("c06.date.word", []string{u(uint64(w))}, []string{u(uint64(w))}, "date.word")
		y, m, d := 1980+w/512, w/32%16, w%32
		var sfx []byte
		if w%2 == 1 {
			sfx = suffixOf(rd)
		}
		g.value("date", []string{u(uint64(y)), u(uint64(m)), u(uint64(d))}, sfx, "all-words")
	}
	for i := 0; i < n; i++ { // outside the domain: the property is silent, the tie is not
		g.value("date", []string{u(uint64(rd.U16Biased())), u(uint64(rd.Byte())), u(uint64(rd.Byte()))}, suffixOf(rd), "any-fields")
		g.bytes("date", rd.Bytes(rd.Intn(5)), "random")
	}

	// ---- fixed-layout types
	rf := r.Fork("fixed")
	for i := 0; i < n; i++ {
		ft := []string{u(uint64(rf.U32Biased())), u(uint64(rf.U32Biased()))}
		g.value("ftime", ft, suffixOf(rf), "random")
		r32 := []string{u(uint64(rf.U16Biased())), u(uint64(rf.U32Biased())), u(uint64(rf.U32Biased()))}
		g.value("r32", r32, suffixOf(rf), "random")
		r64 := []string{u(uint64(rf.U16Biased())), u(uint64(rf.U16Biased())), u(uint64(rf.U32Biased())), u(uint64(rf.U32Biased())), u(uint64(rf.U32Biased())), u(uint64(rf.U32Biased()))}
		g.value("r64", r64, suffixOf(rf), "random")
		at := []string{u(uint64(rf.U16Biased()))}
		g.value("attr", at, suffixOf(rf), "random")
		ax := []string{u(uint64(rf.Byte())), u(uint64(rf.Byte())), u(uint64(rf.U16Biased()))}
		g.value("andx", ax, suffixOf(rf), "random")
		ver := []string{u(uint64(rf.Byte())), u(uint64(rf.Byte())), u(uint64(rf.U16Biased())), hx(rf.Bytes(3)), u(uint64(rf.Byte()))}
		g.value("ver", ver, suffixOf(rf), "random")
		if i%16 == 0 {
			mangle("ftime", ft, rf)
			mangle("r32", r32, rf)
			mangle("r64", r64, rf)
			mangle("attr", at, rf)
			mangle("andx", ax, rf)
			mangle("ver", ver, rf)
		}
		for _, t := range []string{"ftime", "r32", "r64", "attr", "andx", "ver"} {
			if i%4 == 0 {
				g.bytes(t, rf.Bytes(rf.Intn(26)), "random")
			}
		}
	}

	// ---- SMB_NMPIPE_STATUS: every status word
	rp := r.Fork("pipe")
	for w := 0; w < 65536; w++ {
		if !thorough && w%16 != 0 && w > 600 && w < 65000 {
			continue
		}
		v := []string{u(uint64(w & 0xFF)), u(uint64(w >> 8))}
		g.value("pipe", v, nil, "all-words")
		if w%97 == 0 {
			g.value("pipe", v, rp.Bytes(1+rp.Intn(4)), "trailing")
		}
	}
	for k := 0; k <= 4; k++ {
		g.bytes("pipe", rp.Bytes(k), "length")
	}

	// ---- SMB_RESUME_KEY, SMB_DIRECTORY_INFORMATION
	rk := r.Fork("rkey")
	nameAlpha := []byte("ABCDEFGHIJKLMNOPQRSTUVWXYZ0123456789.~_- ")
	for i := 0; i < n; i++ {
		reserved, ss, cs := rk.Byte(), rk.Bytes(16), rk.Bytes(4)
		emb := []string{"5", "21", hx(append(append([]byte{reserved}, ss...), cs...))}
		tag := "in-step"
		switch rk.Intn(4) {
		case 0: // as NewSMB_RESUME_KEY leaves the embedded string
			emb = []string{"5", "0", "-"}
			tag = "fresh"
		case 1:
			emb = []string{u(uint64(rk.Intn(7))), u(uint64(rk.Intn(40))), hx(rk.Bytes(rk.Intn(30)))}
			tag = "embedded-out-of-step"
		}
		key := append(append([]string{}, emb...), u(uint64(reserved)), hx(ss), hx(cs))
		g.value("rkey", key, suffixOf(rk), tag)
		// directory entry
		nl := rk.Intn(13)
		if rk.Intn(12) == 0 {
			nl = 13 + rk.Intn(4) // too long: Marshal refuses
		}
		name := rk.BytesFrom(nl, nameAlpha)
		switch rk.Intn(6) { // OEM file names are bytes, not text: high bytes and UTF-8 sequences must survive
		case 0:
			if nl >= 2 {
				k := rk.Intn(nl - 1)
				name[k], name[k+1] = 0xC3, 0xA9
			}
		case 1:
			if nl >= 3 {
				k := rk.Intn(nl - 2)
				name[k], name[k+1], name[k+2] = 0xE2, 0x82, 0xAC
			}
		case 2:
			if nl >= 1 {
				name[rk.Intn(nl)] = byte(0x80 + rk.Intn(128))
			}
		}
		if rk.Intn(20) == 0 && nl > 0 {
			name[rk.Intn(nl)] = 0 // outside the domain
		}
		nfmt, nlen := "4", u(uint64(nl))
		if rk.Intn(4) == 0 {
			nfmt, nlen = u(uint64(rk.Intn(6))), u(uint64(rk.Intn(30)))
		}
		y, m, d := 1980+rk.Intn(128), rk.Intn(16), rk.Intn(32)
		if rk.Intn(15) == 0 {
			y = int(rk.U16Biased())
		}
		dir := append(append([]string{}, key...), u(uint64(rk.Byte())), u(uint64(rk.U32Biased())), u(uint64(rk.U32Biased())),
			u(uint64(y)), u(uint64(m)), u(uint64(d)), u(uint64(rk.U32Biased())), nfmt, nlen, hx(name))
		g.value("dir", dir, suffixOf(rk), "random")
		if i%3 == 0 { // already in the form Marshal leaves (the strict domain)
			padded := append(append([]byte{}, name...), []byte("            ")[:max(0, 12-len(name))]...)
			if len(padded) == 12 {
				dir2 := append(append([]string{"5", "21", hx(append(append([]byte{reserved}, ss...), cs...)), u(uint64(reserved)), hx(ss), hx(cs)},
					dir[6:13]...), "4", "12", hx(padded))
				g.value("dir", dir2, suffixOf(rk), "normal-form")
			}
		}
		if i%8 == 0 {
			mangle("rkey", key, rk)
			mangle("dir", dir, rk)
			// any SMB_STRING is accepted as a resume key if its buffer has 21 bytes or more
			l := rk.Pick(0, 20, 21, 22, 40)
			f := 1 + rk.Intn(5)
			sb, _, err := wtByName["str"].enc([]string{u(uint64(f)), "0", hx(nonNul(rk, l))})
			if err == nil {
				g.bytes("rkey", append(sb, suffixOf(rk)...), "other-string")
				g.bytes("dir", append(sb, rk.Bytes(rk.Intn(40))...), "other-string")
			}
			g.bytes("rkey", rk.Bytes(rk.Intn(30)), "random")
			g.bytes("dir", rk.Bytes(rk.Intn(70)), "random")
		}
	}

	// ---- Parameters, Data
	rb := r.Fork("blocks")
	for wc := 0; wc <= 255; wc++ { // every word count
		ws := make([]uint16, wc)
		for i := range ws {
			ws[i] = rb.U16Biased()
		}
		var sfx []byte
		if wc%2 == 1 {
			sfx = suffixOf(rb)
		}
		v := []string{u(uint64(wc)), wordsTok(ws)}
		g.value("params", v, sfx, "every-count")
		if wc%16 == 0 || wc == 255 {
			mangle("params", v, rb)
		}
	}
	{ // 256 words: WordCount wraps to 0
		ws := make([]uint16, 256)
		g.value("params", []string{"0", wordsTok(ws)}, nil, "256-words")
	}
	dataLens := []int{0, 1, 2, 3, 254, 255, 256, 257, 65534, 65535}
	for _, l := range dataLens {
		v := []string{u(uint64(l)), hx(rb.Bytes(l))}
		g.value("data", v, suffixOf(rb), "len-grid")
		if l < 300 {
			mangle("data", v, rb)
		}
	}
	g.value("data", []string{"0", hx(rb.Bytes(65536))}, nil, "too-long")
	g.bytes("data", []byte{1}, "witness")
	g.bytes("data", []byte{}, "witness")
	for i := 0; i < n; i++ {
		l := rb.Intn(60)
		v := []string{u(uint64(l)), hx(rb.Bytes(l))}
		g.value("data", v, suffixOf(rb), "random")
		// ByteCount / WordCount out of step: outside the domain
		g.value("data", []string{u(uint64(rb.U16Biased())), hx(rb.Bytes(rb.Intn(20)))}, suffixOf(rb), "count-out-of-step")
		ws := make([]uint16, rb.Intn(8))
		for k := range ws {
			ws[k] = rb.U16Biased()
		}
		g.value("params", []string{u(uint64(rb.Intn(10))), wordsTok(ws)}, suffixOf(rb), "count-any")
		g.bytes("params", rb.Bytes(rb.Intn(20)), "random")
		g.bytes("data", rb.Bytes(rb.Intn(20)), "random")
		if i%8 == 0 {
			mangle("data", v, rb)
		}
	}
	_ = fmt.Sprint
	return g.cs
}
