package main

// Glue of the SPNEGO client around the parts C08 checks one by one: AuthContext.CreateNegotiateToken must be the
// NegTokenInit wrapping (c08.wrapinit) of the NEGOTIATE message (c08.neg) for the context's own domain, workstation and
// charset; PrepareSessionSetupRequest hands the token on unchanged (OEM) or as the UTF-16LE of its bytes read as text.
// Registered from its own file (after c08.go's init).

import (
	"bytes"
	"unicode/utf16"

	"github.com/TheManticoreProject/Manticore/network/smb/smb_v10/spnego"
	"github.com/TheManticoreProject/Manticore/network/smb/smb_v10/spnego/ntlm"
)

// <domain> <workstation> <unicode 0|1>
func c08NegToken(a []string) string {
	dom, ws, uni := string(unhx(a[0])), string(unhx(a[1])), a[2] == "1"
	ctx := spnego.NewAuthContext(spnego.AuthTypeNTLM, dom, "user", "password", ws, uni)
	tok, err := ctx.CreateNegotiateToken()
	msg, err1 := ntlm.CreateNegotiateMessage(dom, ws, uni)
	var want []byte
	var err2 error
	if err1 == nil {
		want, err2 = spnego.CreateNegTokenInit(msg)
	}
	if (err != nil) != (err1 != nil || err2 != nil) {
		return "ok differs-from-its-parts(error)"
	}
	if err == nil && !bytes.Equal(tok, want) {
		return "ok differs-from-its-parts " + hx(tok) + " " + hx(want)
	}
	// the session-setup helper
	if err == nil {
		if got := spnego.PrepareSessionSetupRequest(tok, false); !bytes.Equal(got, tok) {
			return "ok session-setup-token-changed"
		}
		u := utf16.Encode([]rune(string(tok)))
		wide := make([]byte, 0, 2*len(u))
		for _, x := range u {
			wide = append(wide, byte(x), byte(x>>8))
		}
		if got := spnego.PrepareSessionSetupRequest(tok, true); !bytes.Equal(got, wide) {
			return "ok session-setup-unicode-differs"
		}
	}
	return "ok same"
}

func init() {
	p := props["C08"]
	p.Ops = append(p.Ops, OpDef{Name: "c08.negtoken", Impl: c08NegToken})
	inner := p.Gen
	p.Gen = func(r *Rng, tier string) []Case {
		cs := inner(r, tier)
		rn := r.Fork("c08.negtoken")
		n := 150
		if tier == "thorough" {
			n = 3000
		}
		for i := 0; i < n; i++ {
			u := "0"
			if i%2 == 0 {
				u = "1"
			}
			a := []string{hx([]byte(c08Name(rn))), hx([]byte(c08Name(rn))), u}
			cs = append(cs, Case{Op: "c08.negtoken", MArgs: a, SArgs: a, NoM: true, Tag: "glue.negotiate-token"})
		}
		return cs
	}
}
