package main

// C10 — NetBIOS first-level name encoding (RFC 1001 §14.1) and NBNS packets (RFC 1002 §4.2).
// Implementation side: network/netbios/nbtns (NetBIOSName.FirstLevelEncode, FirstLevelDecode,
// NBTNSPacket.Marshal / Unmarshal).  Independent side: a nibble-map encoder written here, the
// Lean RFC 1035/1002 codec (Spec/DNS.lean) and github.com/miekg/dns as third codec.
//
// Line syntax of a packet: `<hdr> <qd> <an> <ns> <ar>`; hdr = `id:flags:qd:an:ns:ar`; a question =
// `namehex,scopehex:type:class`; a record = `namehex,scopehex:type:class:ttl:rdlength:rdatahex`.

import (
	"encoding/binary"
	"fmt"
	"strings"

	"github.com/TheManticoreProject/Manticore/network/netbios/nbtns"
	"github.com/miekg/dns"
)

func init() {
	register(&Prop{
		ID: "C10",
		Ops: []OpDef{
			{Name: "c10.l1enc", Impl: isolate("c10.l1enc", c10L1Enc), Oracle: c10L1EncOracle},
			{Name: "c10.l1dec", Impl: isolate("c10.l1dec", c10L1Dec)},
			{Name: "c10.roundtrip", Impl: isolate("c10.roundtrip", c10Roundtrip), Oracle: c10RoundtripOracle},
			{Name: "c10.unmarshal", Impl: isolate("c10.unmarshal", c10Unmarshal), Oracle: c10UnmarshalOracle},
		},
		Gen:   genC10,
		Extra: c10Extra,
	})
}

type c10Name struct{ Name, Scope string }
type c10Q struct {
	N           c10Name
	Type, Class uint16
}
type c10R struct {
	N           c10Name
	Type, Class uint16
	TTL         uint32
	RDLength    uint16
	RData       []byte
}
type c10Pkt struct {
	ID, Flags, QD, AN, NS, AR uint16
	Q                         []c10Q
	An, Ns, Ar                []c10R
}

func (n c10Name) tok() string { return hx([]byte(n.Name)) + "," + hx([]byte(n.Scope)) }

func c10ShowQ(qs []c10Q) string {
	if len(qs) == 0 {
		return "."
	}
	p := make([]string, len(qs))
	for i, q := range qs {
		p[i] = fmt.Sprintf("%s:%d:%d", q.N.tok(), q.Type, q.Class)
	}
	return strings.Join(p, ";")
}
func c10ShowR(rs []c10R) string {
	if len(rs) == 0 {
		return "."
	}
	p := make([]string, len(rs))
	for i, r := range rs {
		p[i] = fmt.Sprintf("%s:%d:%d:%d:%d:%s", r.N.tok(), r.Type, r.Class, r.TTL, r.RDLength, hx(r.RData))
	}
	return strings.Join(p, ";")
}
func (p *c10Pkt) tokens() []string {
	return []string{fmt.Sprintf("%d:%d:%d:%d:%d:%d", p.ID, p.Flags, p.QD, p.AN, p.NS, p.AR),
		c10ShowQ(p.Q), c10ShowR(p.An), c10ShowR(p.Ns), c10ShowR(p.Ar)}
}

func c10ParseName(s string) c10Name {
	f := strings.Split(s, ",")
	return c10Name{string(unhx(f[0])), string(unhx(f[1]))}
}

func c10ParsePkt(a []string) *c10Pkt {
	if len(a) != 5 {
		panic("harness: c10 packet needs 5 tokens")
	}
	h := strings.Split(a[0], ":")
	p := &c10Pkt{ID: uint16(c09Num(h[0], 16)), Flags: uint16(c09Num(h[1], 16)), QD: uint16(c09Num(h[2], 16)),
		AN: uint16(c09Num(h[3], 16)), NS: uint16(c09Num(h[4], 16)), AR: uint16(c09Num(h[5], 16))}
	if a[1] != "." {
		for _, e := range strings.Split(a[1], ";") {
			f := strings.Split(e, ":")
			p.Q = append(p.Q, c10Q{c10ParseName(f[0]), uint16(c09Num(f[1], 16)), uint16(c09Num(f[2], 16))})
		}
	}
	rr := func(s string) []c10R {
		var out []c10R
		if s == "." {
			return nil
		}
		for _, e := range strings.Split(s, ";") {
			f := strings.Split(e, ":")
			out = append(out, c10R{c10ParseName(f[0]), uint16(c09Num(f[1], 16)), uint16(c09Num(f[2], 16)),
				uint32(c09Num(f[3], 32)), uint16(c09Num(f[4], 16)), unhx(f[5])})
		}
		return out
	}
	p.An, p.Ns, p.Ar = rr(a[2]), rr(a[3]), rr(a[4])
	return p
}

func (p *c10Pkt) toLib() *nbtns.NBTNSPacket {
	lp := &nbtns.NBTNSPacket{Header: nbtns.NBTNSHeader{TransactionID: p.ID, Flags: p.Flags, Questions: p.QD, Answers: p.AN, Authority: p.NS, Additional: p.AR}}
	for _, q := range p.Q {
		lp.Questions = append(lp.Questions, nbtns.NBTNSQuestion{Name: &nbtns.NetBIOSName{Name: q.N.Name, ScopeID: q.N.Scope}, Type: q.Type, Class: q.Class})
	}
	conv := func(rs []c10R) []nbtns.NBTNSResourceRecord {
		var out []nbtns.NBTNSResourceRecord
		for _, r := range rs {
			out = append(out, nbtns.NBTNSResourceRecord{Name: &nbtns.NetBIOSName{Name: r.N.Name, ScopeID: r.N.Scope}, Type: r.Type, Class: r.Class, TTL: r.TTL, RDLength: r.RDLength, RData: r.RData})
		}
		return out
	}
	lp.Answers, lp.Authority, lp.Additional = conv(p.An), conv(p.Ns), conv(p.Ar)
	return lp
}

func c10FromLib(lp *nbtns.NBTNSPacket) *c10Pkt {
	p := &c10Pkt{ID: lp.Header.TransactionID, Flags: lp.Header.Flags, QD: lp.Header.Questions, AN: lp.Header.Answers, NS: lp.Header.Authority, AR: lp.Header.Additional}
	for _, q := range lp.Questions {
		p.Q = append(p.Q, c10Q{c10Name{q.Name.Name, q.Name.ScopeID}, q.Type, q.Class})
	}
	conv := func(rs []nbtns.NBTNSResourceRecord) []c10R {
		var out []c10R
		for _, r := range rs {
			out = append(out, c10R{c10Name{r.Name.Name, r.Name.ScopeID}, r.Type, r.Class, r.TTL, r.RDLength, r.RData})
		}
		return out
	}
	p.An, p.Ns, p.Ar = conv(lp.Answers), conv(lp.Authority), conv(lp.Additional)
	return p
}

// ---- the real library ----------------------------------------------------------------------

func c10L1Enc(a []string) string {
	n := &nbtns.NetBIOSName{Name: string(unhx(a[0])), ScopeID: string(unhx(a[1]))}
	s, err := n.FirstLevelEncode()
	if err != nil {
		return "err"
	}
	return okStr(s)
}

func c10L1Dec(a []string) string {
	n, err := nbtns.FirstLevelDecode(string(unhx(a[0])))
	if err != nil {
		return "err"
	}
	return "ok " + hx([]byte(n.Name)) + " " + hx([]byte(n.ScopeID))
}

// a packet with one entry in each section: what a reused receiver may still hold
var c10EarlierPkt = func() []byte {
	name := append([]byte{0x20}, []byte(c10HalfASCII("EARLIER"))...)
	name = append(name, 0)
	b := []byte{0xAB, 0xCD, 0x85, 0x00, 0, 1, 0, 1, 0, 1, 0, 1}
	b = append(append(b, name...), 0, 0x20, 0, 1)
	for i := 0; i < 3; i++ {
		b = append(append(b, name...), 0, 0x20, 0, 1, 0, 0, 0, 60, 0, 6, 0x80, 0, 10, 1, 2, 3)
	}
	return b
}()

func c10Roundtrip(a []string) string {
	lp := c10ParsePkt(a).toLib()
	w, err := lp.Marshal()
	if err != nil {
		return "err"
	}
	var back nbtns.NBTNSPacket
	if c13Used(a) {
		back.Unmarshal(append([]byte{}, c10EarlierPkt...))
	}
	n, err := back.Unmarshal(w)
	if err != nil {
		return "ok " + hxOwn(w) + " decode-err"
	}
	toks := strings.Join(c10FromLib(&back).tokens(), " ")
	return fmt.Sprintf("ok %s %d %s", hxOwn(w), n, toks)
}

func c10Unmarshal(a []string) string {
	var p nbtns.NBTNSPacket
	if c13Used(a) {
		p.Unmarshal(append([]byte{}, c10EarlierPkt...))
	}
	n, err := p.Unmarshal(unhx(a[0]))
	if err != nil {
		return "err"
	}
	return fmt.Sprintf("ok %d %s", n, strings.Join(c10FromLib(&p).tokens(), " "))
}

// ---- independent side --------------------------------------------------------------------------

// RFC 1001 §14.1 written on numbers: pad to 16 with spaces, each byte -> 'A'+high nibble, 'A'+low nibble
func c10HalfASCII(name string) string {
	b := []byte(name)
	for len(b) < 16 {
		b = append(b, ' ')
	}
	out := make([]byte, 0, 32)
	for _, c := range b[:16] {
		out = append(out, byte('A'+int(c)/16), byte('A'+int(c)%16))
	}
	return string(out)
}

func c10ScopeValid(s string) bool {
	if s == "" {
		return true
	}
	for _, l := range strings.Split(s, ".") {
		if len(l) < 1 || len(l) > 63 || l[0] == '-' || l[len(l)-1] == '-' {
			return false
		}
		for i := 0; i < len(l); i++ {
			c := l[i]
			if !(c >= 'a' && c <= 'z' || c >= 'A' && c <= 'Z' || c >= '0' && c <= '9' || c == '-') {
				return false
			}
		}
	}
	return true
}

func (n c10Name) valid() bool { return len(n.Name) <= 16 && c10ScopeValid(n.Scope) }

// the dotted text whose labels are the RFC 1002 labels of the name
func (n c10Name) encoded() string {
	if n.Scope == "" {
		return c10HalfASCII(n.Name)
	}
	return c10HalfASCII(n.Name) + "." + n.Scope
}

// fits the 255-octet limit of a name on the wire
func (n c10Name) fits() bool { return len(n.encoded())+2 <= 255 }

func (n c10Name) trimmed() c10Name { return c10Name{strings.TrimRight(n.Name, " "), n.Scope} }

func (p *c10Pkt) wellFormed() bool {
	if int(p.QD) != len(p.Q) || int(p.AN) != len(p.An) || int(p.NS) != len(p.Ns) || int(p.AR) != len(p.Ar) {
		return false
	}
	for _, q := range p.Q {
		if !q.N.valid() || !q.N.fits() {
			return false
		}
	}
	for _, rs := range [][]c10R{p.An, p.Ns, p.Ar} {
		for _, r := range rs {
			if !r.N.valid() || !r.N.fits() || int(r.RDLength) != len(r.RData) {
				return false
			}
		}
	}
	return true
}

// the same content as a DNS message (names = dotted text of the RFC 1002 labels)
func (p *c10Pkt) asDNS() *c09Msg {
	m := &c09Msg{ID: p.ID, Flags: p.Flags, QD: p.QD, AN: p.AN, NS: p.NS, AR: p.AR}
	for _, q := range p.Q {
		m.Q = append(m.Q, c09Q{q.N.encoded(), q.Type, q.Class})
	}
	conv := func(rs []c10R) []c09R {
		var out []c09R
		for _, r := range rs {
			out = append(out, c09R{r.N.encoded(), r.Type, r.Class, r.TTL, r.RDLength, r.RData})
		}
		return out
	}
	m.An, m.Ns, m.Ar = conv(p.An), conv(p.Ns), conv(p.Ar)
	return m
}

// what Unmarshal must return for the bytes Marshal produced: names lose their space padding
func (p *c10Pkt) canonical() *c10Pkt {
	c := &c10Pkt{ID: p.ID, Flags: p.Flags, QD: p.QD, AN: p.AN, NS: p.NS, AR: p.AR}
	for _, q := range p.Q {
		c.Q = append(c.Q, c10Q{q.N.trimmed(), q.Type, q.Class})
	}
	conv := func(rs []c10R) []c10R {
		var out []c10R
		for _, r := range rs {
			out = append(out, c10R{r.N.trimmed(), r.Type, r.Class, r.TTL, r.RDLength, r.RData})
		}
		return out
	}
	c.An, c.Ns, c.Ar = conv(p.An), conv(p.Ns), conv(p.Ar)
	return c
}

func c10L1EncOracle(a []string) string {
	n := c10Name{string(unhx(a[0])), string(unhx(a[1]))}
	if len(n.Name) > 16 {
		return "err"
	}
	if !c10ScopeValid(n.Scope) {
		return "*"
	}
	return okStr(n.encoded())
}

// miekg/dns packs the same content (uncompressed): the bytes must be what the Lean spec says
func c10RoundtripOracle(a []string) string {
	p := c10ParsePkt(a)
	if !p.wellFormed() {
		return "*"
	}
	w, err := p.asDNS().toMiekg(false).Pack()
	if err != nil {
		return "*"
	}
	return fmt.Sprintf("ok %s %d %s", hx(w), len(w), strings.Join(p.canonical().tokens(), " "))
}

func c10UnmarshalOracle(a []string) string {
	if len(a) != 6 {
		return "*"
	}
	return fmt.Sprintf("ok %d %s", len(unhx(a[0])), strings.Join(a[1:], " "))
}

// independent RFC 1002 serializer (no compression)
func (p *c10Pkt) wire() []byte {
	var b []byte
	for _, v := range []uint16{p.ID, p.Flags, p.QD, p.AN, p.NS, p.AR} {
		b = binary.BigEndian.AppendUint16(b, v)
	}
	name := func(n c10Name) {
		for _, l := range strings.Split(n.encoded(), ".") {
			b = append(b, byte(len(l)))
			b = append(b, l...)
		}
		b = append(b, 0)
	}
	for _, q := range p.Q {
		name(q.N)
		b = binary.BigEndian.AppendUint16(b, q.Type)
		b = binary.BigEndian.AppendUint16(b, q.Class)
	}
	for _, rs := range [][]c10R{p.An, p.Ns, p.Ar} {
		for _, r := range rs {
			name(r.N)
			b = binary.BigEndian.AppendUint16(b, r.Type)
			b = binary.BigEndian.AppendUint16(b, r.Class)
			b = binary.BigEndian.AppendUint32(b, r.TTL)
			b = binary.BigEndian.AppendUint16(b, r.RDLength)
			b = append(b, r.RData...)
		}
	}
	return b
}

// ---- generators -------------------------------------------------------------------------------

func c10GenScope(r *Rng) string {
	const ldh = "abcdefghijklmnopqrstuvwxyzABCDEFGHIJKLMNOPQRSTUVWXYZ0123456789-"
	label := func(n int) string {
		b := r.BytesFrom(n, []byte(ldh))
		if b[0] == '-' {
			b[0] = 'x'
		}
		if b[n-1] == '-' {
			b[n-1] = '0'
		}
		return string(b)
	}
	switch r.Intn(14) {
	case 0, 1, 2, 3, 4:
		return ""
	case 5:
		return label(63)
	case 6: // right at the 255-octet limit of the wire name: 34 + scope + 1 (+1 root) <= 255  ->  scope <= 219/220
		n := 216 + r.Intn(8)
		var ls []string
		for n > 0 {
			k := 63
			if n < 64 {
				k = n
			}
			ls = append(ls, label(k))
			n -= k + 1
		}
		return strings.Join(ls, ".")
	case 7: // invalid scopes
		return []string{".", "a..b", "-a", "a-", "a_b", "a.", ".a", "caf\xc3\xa9", strings.Repeat("a", 64), "a b", "*"}[r.Intn(11)]
	default:
		var ls []string
		for i, n := 0, 1+r.Intn(4); i < n; i++ {
			ls = append(ls, label(1+r.Intn(12)))
		}
		return strings.Join(ls, ".")
	}
}

func c10GenNameBytes(r *Rng) string {
	switch r.Intn(16) {
	case 0:
		return ""
	case 1:
		return "*" + strings.Repeat("\x00", 15)
	case 2:
		return string(r.Bytes(16))
	case 3:
		return string(r.Bytes(17 + r.Intn(4)))
	case 4:
		return "WORKGROUP      \x1d"
	case 5:
		return "FILESRV        \x20" // 16th byte (suffix 0x20) is a space: trimmed on decode
	case 6:
		return strings.Repeat(" ", r.Intn(17))
	case 7:
		return "AB" + strings.Repeat(" ", r.Intn(14))
	case 8:
		return " lead"
	case 9:
		return string(r.Bytes(r.Intn(17)))
	default:
		return string(r.BytesFrom(1+r.Intn(15), []byte("ABCDEFGHIJKLMNOPQRSTUVWXYZ0123456789-_$ ")))
	}
}

func c10GenName(r *Rng) c10Name { return c10Name{c10GenNameBytes(r), c10GenScope(r)} }

func c10GenPkt(r *Rng, tier string, wf bool) *c10Pkt {
	p := &c10Pkt{ID: r.U16Biased(), Flags: r.U16Biased()}
	nm := func() c10Name {
		for {
			n := c10GenName(r)
			if !wf || (n.valid() && n.fits()) {
				return n
			}
		}
	}
	count := func() int {
		switch r.Intn(12) {
		case 0:
			return 3 + r.Intn(6)
		case 1:
			if tier == "thorough" && r.Intn(12) == 0 {
				return 10 + r.Intn(200) // rare: the list-based Lean model is quadratic in the packet size
			}
			return 10 + r.Intn(20)
		default:
			return r.Intn(3)
		}
	}
	for i, n := 0, count(); i < n; i++ {
		p.Q = append(p.Q, c10Q{nm(), r.U16Biased(), r.U16Biased()})
	}
	big := r.Intn(25) == 0
	budget := 140000 // total RDATA bytes per packet
	sec := func() []c10R {
		var out []c10R
		for i, n := 0, count(); i < n; i++ {
			rd := c09GenRData(r, tier, big)
			if len(rd) > 65535 {
				rd = rd[:65535]
			}
			if len(rd) > budget && len(rd) > 6 {
				rd = rd[:6]
			}
			budget -= len(rd)
			rr := c10R{nm(), r.U16Biased(), r.U16Biased(), r.U32Biased(), uint16(len(rd)), rd}
			if !wf && r.Intn(6) == 0 {
				rr.RDLength = r.U16Biased()
			}
			out = append(out, rr)
		}
		return out
	}
	p.An, p.Ns, p.Ar = sec(), sec(), sec()
	p.QD, p.AN, p.NS, p.AR = uint16(len(p.Q)), uint16(len(p.An)), uint16(len(p.Ns)), uint16(len(p.Ar))
	if !wf && r.Intn(3) == 0 {
		switch r.Intn(4) {
		case 0:
			p.QD = r.U16Biased()
		case 1:
			p.AN = r.U16Biased()
		case 2:
			p.NS = r.U16Biased()
		default:
			p.AR = r.U16Biased()
		}
	}
	return p
}

func genC10(r *Rng, tier string) []Case {
	var cs []Case
	scale := 1
	if tier == "thorough" {
		scale = 12
	}
	l1enc := func(n c10Name, tag string) {
		a := []string{hx([]byte(n.Name)), hx([]byte(n.Scope))}
		cs = append(cs, Case{Op: "c10.l1enc", MArgs: a, SArgs: a, Tag: tag})
	}
	l1dec := func(s string, tag string) {
		a := []string{hx([]byte(s))}
		cs = append(cs, Case{Op: "c10.l1dec", MArgs: a, SArgs: a, Tag: tag})
	}
	unm := func(w []byte, expect *c10Pkt, tag string) {
		sa := []string{hx(w)}
		if expect != nil {
			sa = append(sa, expect.tokens()...)
		}
		cs = append(cs, Case{Op: "c10.unmarshal", MArgs: []string{hx(w)}, SArgs: sa, Tag: tag})
	}

	// ---- first-level encoding: every byte value at every position (exhaustive per position)
	re := r.Fork("l1")
	for pos := 0; pos < 16; pos++ {
		for v := 0; v < 256; v++ {
			b := re.BytesFrom(16, []byte("ABCXYZ019 "))
			b[pos] = byte(v)
			n := c10Name{string(b), ""}
			l1enc(n, "l1.every-byte-every-position")
			l1dec(n.encoded(), "l1dec.every-byte-every-position")
		}
	}
	// every length 0..20, with and without scope
	for k := 0; k <= 20; k++ {
		l1enc(c10Name{strings.Repeat("N", k), ""}, "l1.length-grid")
		l1enc(c10Name{strings.Repeat("N", k), "scope.example"}, "l1.length-grid")
	}
	for i := 0; i < 1500*scale; i++ {
		n := c10GenName(re)
		tag := "l1.valid"
		if !n.valid() {
			tag = "l1.invalid"
		}
		l1enc(n, tag)
		if n.valid() {
			l1dec(n.encoded(), "l1dec.of-encoding")
		}
	}
	// decoding: malformed encodings
	for i := 0; i < 1500*scale; i++ {
		e := []byte(c10GenName(re).encoded())
		switch re.Intn(8) {
		case 0:
			e[re.Intn(32)] = re.Byte()
			l1dec(string(e), "l1dec.mutated-char")
		case 1:
			e[re.Intn(32)] = "@Qq`ap. "[re.Intn(8)]
			l1dec(string(e), "l1dec.boundary-char")
		case 2:
			l1dec(string(e[:re.Intn(len(e)+1)]), "l1dec.truncated")
		case 3:
			k := re.Intn(33)
			l1dec(string(e[:k])+"A"+string(e[k:]), "l1dec.too-long")
		case 4:
			l1dec(string(e)+"."+c10GenScope(re), "l1dec.extra-scope")
		case 5:
			l1dec(string(re.Bytes(re.Intn(40))), "l1dec.random")
		case 6:
			l1dec(string(e[:32])+".", "l1dec.trailing-dot")
		default:
			l1dec(string(e), "l1dec.of-encoding")
		}
	}

	// ---- packets through Marshal / Unmarshal
	rp := r.Fork("pkts")
	var valid [][]byte
	for i := 0; i < 1500*scale; i++ {
		p := c10GenPkt(rp, tier, rp.Intn(4) != 0)
		tag := "roundtrip.well-formed"
		if !p.wellFormed() {
			tag = "roundtrip.counts-or-names-off"
		}
		cs = append(cs, Case{Op: "c10.roundtrip", MArgs: p.tokens(), SArgs: p.tokens(), Tag: tag})
	}
	for _, w := range []uint16{0, 1, 0x8000, 0x7800, 0x0010, 0xFFFF, 0x00FF, 0xFF00, 0x2910, 0x8500} {
		p := &c10Pkt{ID: w, Flags: ^w, QD: 1, Q: []c10Q{{c10Name{"*" + strings.Repeat("\x00", 15), ""}, 0x21, 1}}}
		cs = append(cs, Case{Op: "c10.roundtrip", MArgs: p.tokens(), SArgs: p.tokens(), Tag: "roundtrip.header-grid"})
	}
	for q := 0; q <= 2; q++ {
		for a := 0; a <= 2; a++ {
			for n := 0; n <= 2; n++ {
				for x := 0; x <= 2; x++ {
					p := &c10Pkt{ID: uint16(q*27 + a*9 + n*3 + x), QD: uint16(q), AN: uint16(a), NS: uint16(n), AR: uint16(x)}
					for i := 0; i < q; i++ {
						p.Q = append(p.Q, c10Q{c10Name{"HOST", ""}, 0x20, 1})
					}
					mk := func(k int, nm c10Name) []c10R {
						var out []c10R
						for i := 0; i < k; i++ {
							out = append(out, c10R{nm, 0x20, 1, 300, 6, []byte{0, 0, 10, 0, 0, byte(i)}})
						}
						return out
					}
					p.An, p.Ns, p.Ar = mk(a, c10Name{"HOST", ""}), mk(n, c10Name{"WINS", "corp.example"}), mk(x, c10Name{"HOST           \x20", "a"})
					cs = append(cs, Case{Op: "c10.roundtrip", MArgs: p.tokens(), SArgs: p.tokens(), Tag: "roundtrip.section-grid"})
				}
			}
		}
	}

	// ---- Unmarshal on packets written by the independent serializer, and on malformed input
	ru := r.Fork("unmarshal")
	for i := 0; i < 1200*scale; i++ {
		p := c10GenPkt(ru, tier, true)
		w := p.wire()
		if len(w) > 40000 && ru.Intn(4) != 0 {
			continue
		}
		unm(w, p.canonical(), "unmarshal.independent-serializer")
		if len(w) < 2000 {
			valid = append(valid, w)
		}
		if i%4 == 0 {
			if mw, err := p.asDNS().toMiekg(false).Pack(); err == nil {
				unm(mw, p.canonical(), "unmarshal.miekg-packed")
			}
		}
	}
	for i := 0; i < 2500*scale && len(valid) > 0; i++ {
		w := valid[ru.Intn(len(valid))]
		switch ru.Intn(7) {
		case 0:
			unm(w[:ru.Intn(len(w))], nil, "unmarshal.truncated")
		case 1:
			c := append([]byte{}, w...)
			for n := 1 + ru.Intn(3); n > 0; n-- {
				c[ru.Intn(len(c))] = ru.Byte()
			}
			unm(c, nil, "unmarshal.mutated")
		case 2: // a label string pointer where a name is expected (RFC 1002 §4.2.1.3): not supported, must be an error, never a panic
			if len(w) > 14 {
				c := append([]byte{}, w...)
				c[12], c[13] = 0xC0, 0x0C
				unm(c, nil, "unmarshal.pointer")
			}
		case 3: // length octet of the first label changed
			if len(w) > 12 {
				c := append([]byte{}, w...)
				c[12] = []byte{0, 31, 33, 63, 64, 0x80, 0xBF, 0xFF}[ru.Intn(8)]
				unm(c, nil, "unmarshal.first-label-length")
			}
		case 4: // trailing bytes
			unm(append(append([]byte{}, w...), ru.Bytes(1+ru.Intn(8))...), nil, "unmarshal.trailing")
		case 5: // count fields raised
			c := append([]byte{}, w...)
			k := 4 + 2*ru.Intn(4)
			c[k+1]++
			unm(c, nil, "unmarshal.count+1")
		default:
			unm(ru.Bytes(ru.Intn(80)), nil, "unmarshal.random")
		}
	}
	for i := 0; i < 6*scale && i < len(valid); i++ {
		w := valid[i]
		if len(w) > 300 {
			continue
		}
		for n := 0; n <= len(w); n++ {
			unm(w[:n], nil, "unmarshal.every-prefix")
		}
	}
	// the pre-repair wire form (one length octet + "ENCODED.scope", no root label) must not be accepted as if it were well formed
	old := []byte{0, 1, 0, 0, 0, 1, 0, 0, 0, 0, 0, 0, 36}
	old = append(old, []byte(c10Name{"AB", "a.b"}.encoded())...)
	old = append(old, 0, 0x20, 0, 1)
	unm(old, nil, "unmarshal.pre-repair-form")
	// spread the expensive cases (large RDATA) evenly over the driver processes, which each take a
	// contiguous slice of the case list: deterministic Fisher-Yates shuffle from the seed
	rsh := r.Fork("shuffle")
	for i := len(cs) - 1; i > 0; i-- {
		k := rsh.Intn(i + 1)
		cs[i], cs[k] = cs[k], cs[i]
	}
	return cs
}

// ---- miekg/dns parses what the library marshals ------------------------------------------------

func c10Extra(ctx *Ctx) {
	r := ctx.Rng.Fork("miekg-parses-nbns")
	n := 400
	if ctx.Tier == "thorough" {
		n = 4000
	}
	checked, bad := 0, 0
	for i := 0; i < n; i++ {
		p := c10GenPkt(r, "quick", true)
		for _, rs := range [][]c10R{p.An, p.Ns, p.Ar} {
			for k := range rs {
				rs[k].Type = 300 + uint16(r.Intn(30000))
				if len(rs[k].RData) > 2000 {
					rs[k].RData = rs[k].RData[:2000]
					rs[k].RDLength = 2000
				}
			}
		}
		res := runImpl(func(a []string) string { return workerCall("c10.roundtrip", a) }, p.tokens(), 2*workerOpTimeout)
		if !strings.HasPrefix(res.out, "ok ") {
			continue
		}
		w := unhx(strings.SplitN(res.out, " ", 3)[1])
		d := new(dns.Msg)
		mk := func(spec string) {
			bad++
			ctx.AddMismatch(Mismatch{Kind: "spec", Case: Case{Op: "c10.roundtrip", MArgs: p.tokens(), SArgs: p.tokens(), Tag: "miekg-unpack"},
				Impl: res.out, Spec: spec, Size: 1 << 20})
		}
		if err := d.Unpack(w); err != nil && err != dns.ErrTruncated {
			mk("miekg/dns Unpack of the marshalled packet: " + err.Error())
			continue
		}
		got := c09FromMiekg(d)
		want := p.asDNS().canonical()
		if strings.Join(got.tokens(), " ") != strings.Join(want.tokens(), " ") {
			mk("miekg/dns reads: " + strings.Join(got.tokens(), " "))
		}
		checked++
	}
	ctx.SetExtra("miekg_unpacks_library_output", map[string]int{"packets": checked, "disagreements": bad})
	workerMu.Lock()
	ctx.SetExtra("worker_deaths", workerDeaths)
	workerMu.Unlock()
}
