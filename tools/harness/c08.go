package main

import (
	"bytes"
	"encoding/asn1"
	"encoding/binary"
	"fmt"
	"sort"
	"strconv"
	"strings"

	"github.com/TheManticoreProject/Manticore/network/smb/smb_v10/spnego"
	"github.com/TheManticoreProject/Manticore/network/smb/smb_v10/spnego/ntlm"
)

// ---- text: strings.ToUpper / UTF-16LE as finite tables for the Lean side -------------------------


// textTables renders ToUpper and UTF-16LE on the given strings (and UTF-16LE on their upper-cased forms).
func textTables(strs ...string) (upper, u16 string) {
	seenU, seen16 := map[string]bool{}, map[string]bool{}
	var us, ss []string
	add16 := func(s string) {
		if !seen16[s] {
			seen16[s] = true
			ss = append(ss, hx([]byte(s))+":"+hx(stdUTF16LE(s)))
		}
	}
	for _, s := range strs {
		if !seenU[s] {
			seenU[s] = true
			us = append(us, hx([]byte(s))+":"+hx([]byte(strings.ToUpper(s))))
		}
		add16(s)
		add16(strings.ToUpper(s))
	}
	return strings.Join(us, ";"), strings.Join(ss, ";")
}

func b01(b bool) string {
	if b {
		return "1"
	}
	return "0"
}

func okPayload(out string) ([]byte, bool) {
	if !strings.HasPrefix(out, "ok ") {
		return nil, false
	}
	f := strings.Fields(out)
	if len(f) != 2 {
		return nil, false
	}
	return unhx(f[1]), true
}

func cut(b []byte, lo, hi int) []byte {
	if lo < 0 || hi < lo || hi > len(b) {
		return nil
	}
	return b[lo:hi]
}

const (
	fUnicode = 0x1
	fOEM     = 0x2
	fESS     = 0x80000
	fVersion = 0x2000000
)

// length of the NT response CreateAuthenticateMessage computes for these flags
func ntRespLen(flags uint32, tiLen int) int {
	if flags&fESS != 0 {
		return 16 + 28 + tiLen + 4
	}
	return 24
}

func arcsStr(o []int) string {
	if len(o) == 0 {
		return "."
	}
	p := make([]string, len(o))
	for i, x := range o {
		p[i] = strconv.Itoa(x)
	}
	return strings.Join(p, ".")
}
func parseArcsGo(s string) asn1.ObjectIdentifier {
	if s == "." {
		return nil
	}
	var o asn1.ObjectIdentifier
	for _, p := range strings.Split(s, ".") {
		n, _ := strconv.Atoi(p)
		o = append(o, n)
	}
	return o
}

// token argument: "nil" is a nil slice, "-" an empty non-nil one
func tokArg(s string) []byte {
	if s == "nil" {
		return nil
	}
	return unhx(s)
}

func outBytes(b []byte, err error) string {
	if err != nil {
		return "err"
	}
	return okHex(b)
}

func init() {
	register(&Prop{
		ID: "C08",
		Ops: []OpDef{
			{Name: "c08.neg",
				Impl: func(a []string) string {
					return outBytes(ntlm.CreateNegotiateMessage(string(unhx(a[0])), string(unhx(a[1])), a[2] == "1"))
				},
				ReadBack: func(a []string, out string) (m, s []string) {
					if _, ok := okPayload(out); ok {
						return nil, []string{strings.Fields(out)[1]}
					}
					return nil, []string{"none"}
				}},
			{Name: "c08.auth",
				Impl: func(a []string) string {
					fl, _ := strconv.ParseUint(a[0], 10, 32)
					ch := &ntlm.ChallengeMessage{NegotiateFlags: uint32(fl), TargetInfo: unhx(a[2])}
					copy(ch.ServerChallenge[:], unhx(a[1]))
					return outBytes(ntlm.CreateAuthenticateMessage(ch, string(unhx(a[3])), string(unhx(a[4])), string(unhx(a[5])), string(unhx(a[6]))))
				},
				ReadBack: func(a []string, out string) (m, s []string) {
					fl, _ := strconv.ParseUint(a[0], 10, 32)
					msg, ok := okPayload(out)
					if !ok {
						// no message: the model and the specification decide "refused" from the field lengths alone, so
						// they get responses of the lengths CreateAuthenticateMessage computes (24, and 24 or 48 + target info)
						lm0, nt0 := hx(make([]byte, 24)), hx(make([]byte, ntRespLen(uint32(fl), len(unhx(a[2])))))
						return []string{lm0, nt0}, []string{lm0, nt0, "none"}
					}
					lm := cut(msg, 88, 112)
					nt := cut(msg, 112, 112+ntRespLen(uint32(fl), len(unhx(a[2]))))
					return []string{hx(lm), hx(nt)}, []string{hx(lm), hx(nt), hx(msg)}
				}},
			{Name: "c08.chal", Impl: func(a []string) string {
				if c13Used(a) { // what an earlier parse of the same bytes handed out is scribbled on first
					if c0, err := ntlm.ParseChallengeMessage(unhx(a[0])); err == nil {
						scribble(c0)
					}
				}
				c, err := ntlm.ParseChallengeMessage(unhx(a[0]))
				if err != nil {
					return "err"
				}
				// the fields of the parsed version, laid out by the harness (not by the library's own encoder: a decoder and
				// an encoder that are wrong in the same way would hide each other)
				ver := c.Version
				v := []byte{ver.ProductMajorVersion, ver.ProductMinorVersion, byte(ver.ProductBuild), byte(ver.ProductBuild >> 8),
					ver.Reserved[0], ver.Reserved[1], ver.Reserved[2], ver.NTLMRevision}
				return fmt.Sprintf("ok %d %s %s %s %s %s", c.NegotiateFlags, hx(c.ServerChallenge[:]), hx(c.Reserved[:]), hx(c.TargetName), hx(c.TargetInfo), hx(v))
			}},
			{Name: "c08.ti", Impl: func(a []string) string {
				if c13Used(a) {
					if m0, err := ntlm.ParseTargetInfo(unhx(a[0])); err == nil {
						scribble(m0)
					}
				}
				m, err := ntlm.ParseTargetInfo(unhx(a[0]))
				if err != nil {
					return "err"
				}
				keys := make([]int, 0, len(m))
				for k := range m {
					keys = append(keys, int(k))
				}
				sort.Ints(keys)
				if len(keys) == 0 {
					return "ok ."
				}
				p := make([]string, len(keys))
				for i, k := range keys {
					p[i] = strconv.Itoa(k) + ":" + hx(m[uint16(k)])
				}
				return "ok " + strings.Join(p, ";")
			}},
			{Name: "c08.wrapinit", Impl: func(a []string) string { return outBytes(spnego.CreateNegTokenInit(tokArg(a[0]))) }},
			{Name: "c08.wrapresp", Impl: func(a []string) string {
				st, _ := strconv.Atoi(a[0])
				return outBytes(spnego.CreateNegTokenResp(asn1.Enumerated(st), parseArcsGo(a[1]), tokArg(a[2])))
			}},
			{Name: "c08.extract", Impl: func(a []string) string { return outBytes(spnego.ExtractNTLMToken(unhx(a[0]))) }},
			{Name: "c08.parseresp", Impl: func(a []string) string {
				if c13Used(a) {
					if r0, err := spnego.ParseNegTokenResp(unhx(a[0])); err == nil {
						scribble(r0)
					}
				}
				r, err := spnego.ParseNegTokenResp(unhx(a[0]))
				if err != nil {
					return "err"
				}
				return fmt.Sprintf("ok %d %s %s %s", int(r.NegState), arcsStr(r.SupportedMech), hx(r.ResponseToken), hx(r.MechListMIC))
			}},
			{Name: "c08.roundtrip", Impl: func(a []string) string {
				w, err := spnego.CreateNegTokenInit(tokArg(a[0]))
				if err != nil {
					return "err"
				}
				return outBytes(spnego.ExtractNTLMToken(w))
			}},
			{Name: "c08.roundtripresp", Impl: func(a []string) string {
				st, _ := strconv.Atoi(a[0])
				w, err := spnego.CreateNegTokenResp(asn1.Enumerated(st), parseArcsGo(a[1]), tokArg(a[2]))
				if err != nil {
					return "err"
				}
				return outBytes(spnego.ExtractNTLMToken(w))
			}},
			{Name: "c08.process",
				Impl: func(a []string) string {
					ctx := spnego.NewAuthContext(spnego.AuthTypeNTLM, string(unhx(a[3])), string(unhx(a[1])), string(unhx(a[2])), string(unhx(a[4])), true)
					// history: in half of the cases (fixed by the arguments) the context has already answered another
					// CHALLENGE; what it parses and answers now is a function of this token alone
					if c13Used(a) {
						ctx.ProcessChallengeToken(c08EarlierChallengeToken())
					}
					tok := unhx(a[0])
					snap := string(tok)
					res, err := ctx.ProcessChallengeToken(tok)
					if string(tok) != snap {
						return "token-modified"
					}
					// what the context keeps of the CHALLENGE is what a fresh parse of the same token gives, also after the
					// AUTHENTICATE has been built from it
					if err == nil && ctx.NTLMChallenge != nil {
						if inner, e1 := spnego.ExtractNTLMToken([]byte(snap)); e1 == nil {
							if c2, e2 := ntlm.ParseChallengeMessage(inner); e2 == nil {
								k := ctx.NTLMChallenge
								if k.NegotiateFlags != c2.NegotiateFlags || k.ServerChallenge != c2.ServerChallenge || !bytes.Equal(k.TargetName, c2.TargetName) || !bytes.Equal(k.TargetInfo, c2.TargetInfo) {
									return "ok stored-challenge-differs-from-a-fresh-parse name=" + hx(k.TargetName) + "/" + hx(c2.TargetName) + " info=" + hx(k.TargetInfo) + "/" + hx(c2.TargetInfo)
								}
							}
						}
					}
					return outBytes(res, err)
				},
				ReadBack: func(a []string, out string) (m, s []string) {
					if strings.HasPrefix(out, "ok stored-challenge-differs") || out == "token-modified" {
						return []string{"-", "-"}, []string{"-", "-", "stored-differs", "none"}
					}
					tok, ok := okPayload(out)
					if !ok {
						return []string{"-", "-"}, []string{"-", "-", "none", "none"}
					}
					fl, _ := strconv.ParseUint(a[7], 10, 32)
					tiLen, _ := strconv.Atoi(a[8])
					user, dom, ws := string(unhx(a[1])), string(unhx(a[3])), strings.ToUpper(string(unhx(a[4])))
					names := len(user) + len(dom) + len(ws)
					if fl&fUnicode != 0 {
						names = len(stdUTF16LE(user)) + len(stdUTF16LE(dom)) + len(stdUTF16LE(ws))
					}
					ntLen := ntRespLen(uint32(fl), tiLen)
					authLen := 88 + 24 + ntLen + names
					auth := cut(tok, len(tok)-authLen, len(tok))
					lm, nt := hx(cut(auth, 88, 112)), hx(cut(auth, 112, 112+ntLen))
					return []string{lm, nt}, []string{lm, nt, hx(auth), hx(tok)}
				}},
		},
		Gen: genC08,
	})
}

// ---- generators ------------------------------------------------------------------------------------

var c08Names = []string{"", "a", "WORKGROUP", "corp", "Corp.Example", "lab-01", "straße", "école", "домен",
	"東京", "pc\U0001F600x", "\xff\xfeab", "a\x00b", "ıstanbul", "ǆ", "MiXeD cAsE 123", "a%sb", "100%"}

func c08Name(r *Rng) string {
	if r.Intn(5) == 0 {
		n := r.Intn(20)
		alpha := []rune("abcXYZ019-.% éßд東\U0001F600")
		s := make([]rune, n)
		for i := range s {
			s[i] = alpha[r.Intn(len(alpha))]
		}
		return string(s)
	}
	return c08Names[r.Intn(len(c08Names))]
}

// a well-formed SPNEGO response carrying an OEM CHALLENGE without extended session security, with its own server
// challenge, target name and target information: the token a context may have seen before the one under test
func c08EarlierChallengeToken() []byte {
	ti, _ := mkAv([]avPair{{2, stdUTF16LE("OLDDOM")}, {1, stdUTF16LE("OLDSRV")}})
	ch := mkChallenge(0x00000206, []byte{0xA1, 0xA2, 0xA3, 0xA4, 0xA5, 0xA6, 0xA7, 0xA8}, make([]byte, 8), []byte("OLDTARGET"), ti, make([]byte, 8), nil, nil, nil)
	tok, _ := spnego.CreateNegTokenResp(asn1.Enumerated(1), spnego.NtlmOID, ch)
	return tok
}

// the same message with the two payloads in the other order (target information first, target name behind it): the
// descriptors say where a payload is, MS-NLMP fixes no order
func mkChallengeTiFirst(flags uint32, sc, res, tn, ti, ver []byte) []byte {
	b := []byte("NTLMSSP\x00")
	b = binary.LittleEndian.AppendUint32(b, 2)
	tiOff := 56
	tnOff := tiOff + len(ti)
	b = binary.LittleEndian.AppendUint16(b, uint16(len(tn)))
	b = binary.LittleEndian.AppendUint16(b, uint16(len(tn)))
	b = binary.LittleEndian.AppendUint32(b, uint32(tnOff))
	b = binary.LittleEndian.AppendUint32(b, flags)
	b = append(b, sc...)
	b = append(b, res...)
	b = binary.LittleEndian.AppendUint16(b, uint16(len(ti)))
	b = binary.LittleEndian.AppendUint16(b, uint16(len(ti)))
	b = binary.LittleEndian.AppendUint32(b, uint32(tiOff))
	b = append(b, ver...)
	b = append(b, ti...)
	b = append(b, tn...)
	return b
}

func mkChallenge(flags uint32, sc, res, tn, ti, ver, g0, g1, g2 []byte) []byte {
	b := []byte("NTLMSSP\x00")
	b = binary.LittleEndian.AppendUint32(b, 2)
	tnOff := 56 + len(g0)
	tiOff := tnOff + len(tn) + len(g1)
	b = binary.LittleEndian.AppendUint16(b, uint16(len(tn)))
	b = binary.LittleEndian.AppendUint16(b, uint16(len(tn)))
	b = binary.LittleEndian.AppendUint32(b, uint32(tnOff))
	b = binary.LittleEndian.AppendUint32(b, flags)
	b = append(b, sc...)
	b = append(b, res...)
	b = binary.LittleEndian.AppendUint16(b, uint16(len(ti)))
	b = binary.LittleEndian.AppendUint16(b, uint16(len(ti)))
	b = binary.LittleEndian.AppendUint32(b, uint32(tiOff))
	b = append(b, ver...)
	b = append(b, g0...)
	b = append(b, tn...)
	b = append(b, g1...)
	b = append(b, ti...)
	b = append(b, g2...)
	return b
}

type avPair struct {
	id  uint16
	val []byte
}

func mkAv(pairs []avPair) ([]byte, string) {
	var b []byte
	var sp []string
	for _, p := range pairs {
		b = binary.LittleEndian.AppendUint16(b, p.id)
		b = binary.LittleEndian.AppendUint16(b, uint16(len(p.val)))
		b = append(b, p.val...)
		sp = append(sp, strconv.Itoa(int(p.id))+":"+hx(p.val))
	}
	b = append(b, 0, 0, 0, 0)
	if len(sp) == 0 {
		return b, "."
	}
	return b, strings.Join(sp, ";")
}

func genAvPairs(r *Rng) []avPair {
	n := r.Intn(7)
	ps := make([]avPair, n)
	for i := range ps {
		id := uint16(1 + r.Intn(10))
		switch r.Intn(8) {
		case 0:
			id = r.U16Biased()
		case 1:
			if i > 0 {
				id = ps[r.Intn(i)].id // duplicate
			}
		}
		l := r.Intn(12)
		if r.Intn(10) == 0 {
			l = 0
		}
		ps[i] = avPair{id, r.Bytes(l)}
	}
	return ps
}

func c08Flags(r *Rng) uint32 {
	f := r.U32Biased()
	switch r.Intn(4) {
	case 0:
		f = 0xE2898215 // what a Windows server typically answers
	case 1:
		f = uint32(r.Intn(2))*fUnicode | uint32(r.Intn(2))*fOEM | uint32(r.Intn(2))*fESS | uint32(r.Intn(2))*fVersion | uint32(r.Intn(2))*0x4 | uint32(r.Intn(2))*0x800000
	}
	return f
}

func genC08(r *Rng, tier string) []Case {
	var cs []Case
	thorough := tier == "thorough"
	scale := 1
	if thorough {
		scale = 12
	}

	// ---- NEGOTIATE
	neg := func(d, w string, uni bool, tag string) {
		tu, t16 := textTables(d, w)
		a := []string{hx([]byte(d)), hx([]byte(w)), b01(uni), tu, t16}
		cs = append(cs, Case{Op: "c08.neg", MArgs: a, SArgs: a, Tag: tag})
	}
	for _, d := range c08Names {
		for _, w := range []string{"", "ws1", c08Names[(len(d)*7+3)%len(c08Names)]} {
			neg(d, w, true, "neg.unicode")
			neg(d, w, false, "neg.oem")
		}
	}
	rn := r.Fork("neg")
	for i := 0; i < 150*scale; i++ {
		neg(c08Name(rn), c08Name(rn), rn.Bool(), "neg.random")
	}
	// descriptor width: 32767/32768 UTF-16 units, 65535/65536 OEM bytes
	neg(strings.Repeat("d", 32767), "w", true, "neg.len-65534")
	neg(strings.Repeat("d", 32768), "w", true, "neg.len-65536")
	neg("d", strings.Repeat("w", 65535), false, "neg.len-65535")
	neg("d", strings.Repeat("w", 65536), false, "neg.len-65536")
	neg(strings.Repeat("d", 65535), strings.Repeat("w", 3), false, "neg.len-65535")

	// ---- AUTHENTICATE
	auth := func(fl uint32, sc, ti []byte, user, pw, d, w, tag string) {
		tu, t16 := textTables(user, d, w)
		a := []string{strconv.FormatUint(uint64(fl), 10), hx(sc), hx(ti), hx([]byte(user)), hx([]byte(pw)), hx([]byte(d)), hx([]byte(w)), tu, t16}
		cs = append(cs, Case{Op: "c08.auth", MArgs: a, SArgs: a, Tag: tag})
	}
	ra := r.Fork("auth")
	for _, uni := range []uint32{fUnicode, fOEM, 0, fUnicode | fOEM} {
		for _, ess := range []uint32{0, fESS} {
			for _, ver := range []uint32{0, fVersion} {
				for k := 0; k < 4; k++ {
					ti, _ := mkAv(genAvPairs(ra))
					if k == 0 {
						ti = nil
					}
					auth(uni|ess|ver|(ra.U32Biased()&^(fUnicode|fOEM|fESS|fVersion)), ra.Bytes(8), ti, c08Name(ra), "Passw0rd!", c08Name(ra), c08Name(ra), "auth.flag-grid")
				}
			}
		}
	}
	for i := 0; i < 200*scale; i++ {
		ti, _ := mkAv(genAvPairs(ra))
		auth(c08Flags(ra), ra.Bytes(8), ti, c08Name(ra), c08Name(ra), c08Name(ra), c08Name(ra), "auth.random")
	}
	auth(fUnicode|fESS, ra.Bytes(8), nil, strings.Repeat("u", 32767), "pw", "D", "W", "auth.len-65534")
	auth(fUnicode|fESS, ra.Bytes(8), nil, strings.Repeat("u", 32768), "pw", "D", "W", "auth.len-65536")
	auth(fOEM, ra.Bytes(8), nil, "u", "pw", strings.Repeat("d", 65536), "W", "auth.len-65536")
	auth(fOEM|fESS, ra.Bytes(8), make([]byte, 65536-48), "u", "pw", "d", "W", "auth.len-65536")
	auth(fOEM|fESS, ra.Bytes(8), make([]byte, 65535-48), "u", "pw", "d", "W", "auth.len-65535")
	auth(fOEM, ra.Bytes(8), nil, "u", "pw", "d", strings.Repeat("w", 65536), "auth.len-65536")
	auth(fOEM, ra.Bytes(8), nil, strings.Repeat("u", 65535), "pw", strings.Repeat("d", 65535), strings.Repeat("w", 65535), "auth.len-65535")

	// ---- CHALLENGE: well-formed, built by the generator, checked against Spec.buildChallenge
	rc := r.Fork("chal")
	var validChal [][]byte
	chal := func(fl uint32, tn, ti, ver, g0, g1, g2 []byte, tag string) {
		sc, res := rc.Bytes(8), rc.Bytes(8)
		if rc.Intn(2) == 0 {
			res = make([]byte, 8)
		}
		b := mkChallenge(fl, sc, res, tn, ti, ver, g0, g1, g2)
		validChal = append(validChal, b)
		sargs := []string{hx(b), strconv.FormatUint(uint64(fl), 10), hx(sc), hx(res), hx(tn), hx(ti), hx(ver), hx(g0), hx(g1), hx(g2)}
		if rc.Intn(3) == 0 {
			// the two MaxLen fields "MUST be ignored on receipt" (MS-NLMP 2.2.1.2): a sender may put anything there
			b = append([]byte{}, b...)
			tnMax, tiMax := uint16(randIntBits(rc, 16, true)), uint16(randIntBits(rc, 16, false))
			binary.LittleEndian.PutUint16(b[14:], tnMax)
			binary.LittleEndian.PutUint16(b[42:], tiMax)
			// the offset of an EMPTY field means nothing either (a server may leave the whole descriptor zeroed)
			tnOff, tiOff := "-", "-"
			if len(tn) == 0 && rc.Intn(2) == 0 {
				o := uint32(rc.Pick(0, 0, 8, 48, 55))
				binary.LittleEndian.PutUint32(b[16:], o)
				tnOff = strconv.Itoa(int(o))
			}
			if len(ti) == 0 && rc.Intn(2) == 0 {
				o := uint32(rc.Pick(0, 0, 8, 48, 55))
				binary.LittleEndian.PutUint32(b[44:], o)
				tiOff = strconv.Itoa(int(o))
			}
			sargs[0] = hx(b)
			sargs = append(sargs, strconv.Itoa(int(tnMax)), strconv.Itoa(int(tiMax)), tnOff, tiOff)
			tag += ".maxlen"
		}
		cs = append(cs, Case{Op: "c08.chal", MArgs: []string{hx(b)}, Tag: tag, SArgs: sargs})
	}
	for i := 0; i < 400*scale; i++ {
		fl := c08Flags(rc)
		ver := make([]byte, 8)
		if fl&fVersion != 0 || rc.Intn(8) == 0 { // a non-zero version without the flag: the spec is silent
			ver = rc.Bytes(8)
		}
		var tn, ti []byte
		if rc.Intn(5) != 0 {
			tn = stdUTF16LE(c08Name(rc))
			if fl&fUnicode == 0 {
				tn = []byte(strings.ToUpper(c08Name(rc)))
			}
		}
		if rc.Intn(5) != 0 {
			ti, _ = mkAv(genAvPairs(rc))
		}
		var g0, g1, g2 []byte
		if rc.Intn(3) == 0 {
			g0, g1, g2 = rc.Bytes(rc.Intn(4)), rc.Bytes(rc.Intn(4)), rc.Bytes(rc.Intn(6))
		}
		chal(fl, tn, ti, ver, g0, g1, g2, "chal.wellformed")
	}
	chal(fUnicode|fVersion, make([]byte, 65535), []byte{0, 0, 0, 0}, rc.Bytes(8), nil, nil, nil, "chal.len-65535")
	chal(fUnicode, []byte("T"), make([]byte, 65535), make([]byte, 8), nil, []byte{9}, nil, "chal.len-65535")
	// malformed: model/implementation tie + "never panics"
	mal := func(b []byte, tag string) {
		cs = append(cs, Case{Op: "c08.chal", MArgs: []string{hx(b)}, SArgs: []string{hx(b)}, Tag: tag})
	}
	for k := 0; k < 3*scale && k < len(validChal); k++ {
		v := validChal[rc.Intn(len(validChal))]
		for n := 0; n <= len(v) && n < 140; n++ {
			mal(v[:n], "chal.truncated")
		}
	}
	offs := func(n int) []uint32 {
		return []uint32{0, 1, 8, 55, 56, 57, uint32(n - 1), uint32(n), uint32(n + 1), 0x7fffffff, 0x80000000, 0xfffffffe, 0xffffffff, 0xffff0000, 0xffff0001}
	}
	lens := []uint16{0, 1, 2, 8, 0x7fff, 0x8000, 0xfffe, 0xffff}
	for k := 0; k < 2*scale; k++ {
		v := validChal[rc.Intn(len(validChal))]
		for _, pos := range []int{12, 40} {
			for _, l := range lens {
				for _, o := range offs(len(v)) {
					w := append([]byte{}, v...)
					binary.LittleEndian.PutUint16(w[pos:], l)
					binary.LittleEndian.PutUint32(w[pos+4:], o)
					mal(w, "chal.descriptor-extremes")
					// offset + len wraps around 2^32 and lands inside the message
					w2 := append([]byte{}, w...)
					binary.LittleEndian.PutUint32(w2[pos+4:], uint32(0)-uint32(l)+uint32(rc.Intn(len(v)+2)))
					mal(w2, "chal.descriptor-wrap")
				}
			}
		}
	}
	for i := 0; i < 300*scale; i++ {
		v := append([]byte{}, validChal[rc.Intn(len(validChal))]...)
		switch rc.Intn(4) {
		case 0:
			v[rc.Intn(12)] ^= byte(1 + rc.Intn(255)) // signature / type
			mal(v, "chal.bad-signature-or-type")
		case 1:
			v[12+rc.Intn(44)] = rc.Byte()
			mal(v, "chal.header-byte")
		case 2:
			for k := 0; k < 3; k++ {
				v[rc.Intn(len(v))] = []byte{0, 1, 0x7f, 0x80, 0xfe, 0xff}[rc.Intn(6)]
			}
			mal(v, "chal.random-bytes")
		default:
			mal(rc.Bytes(rc.Intn(80)), "chal.random")
		}
	}

	// ---- target info
	rt := r.Fork("ti")
	for i := 0; i < 400*scale; i++ {
		ps := genAvPairs(rt)
		b, sp := mkAv(ps)
		cs = append(cs, Case{Op: "c08.ti", MArgs: []string{hx(b)}, SArgs: []string{hx(b), sp}, Tag: "ti.wellformed"})
		switch rt.Intn(4) {
		case 0:
			t := b[:rt.Intn(len(b)+1)]
			cs = append(cs, Case{Op: "c08.ti", MArgs: []string{hx(t)}, SArgs: []string{hx(t)}, Tag: "ti.truncated"})
		case 1:
			t := append(append([]byte{}, b...), rt.Bytes(rt.Intn(6))...)
			cs = append(cs, Case{Op: "c08.ti", MArgs: []string{hx(t)}, SArgs: []string{hx(t)}, Tag: "ti.trailing"})
		case 2:
			t := append([]byte{}, b...)
			t[rt.Intn(len(t))] = []byte{0, 1, 0x7f, 0x80, 0xff}[rt.Intn(5)]
			cs = append(cs, Case{Op: "c08.ti", MArgs: []string{hx(t)}, SArgs: []string{hx(t)}, Tag: "ti.corrupted"})
		}
	}
	{
		b, sp := mkAv([]avPair{{2, make([]byte, 65535)}})
		cs = append(cs, Case{Op: "c08.ti", MArgs: []string{hx(b)}, SArgs: []string{hx(b), sp}, Tag: "ti.len-65535"})
	}

	// ---- SPNEGO: token lengths across every DER boundary of every nesting level
	rs := r.Fork("spnego")
	var tokLens []int
	for n := 0; n <= 140; n++ {
		tokLens = append(tokLens, n)
	}
	for n := 200; n <= 270; n++ {
		tokLens = append(tokLens, n)
	}
	step := 4
	if thorough {
		step = 1
	}
	for n := 65480; n <= 65545; n += step {
		tokLens = append(tokLens, n)
	}
	tokLens = append(tokLens, 127, 128, 255, 256, 65535, 65536, 65537, 70001, 131072)
	if thorough {
		tokLens = append(tokLens, 1<<18, 300000)
	}
	var validTok [][]byte
	for _, a := range [][]string{{"nil"}, {"-"}} {
		cs = append(cs, Case{Op: "c08.roundtrip", MArgs: a, SArgs: a, Tag: "spnego.roundtrip-init"})
		cs = append(cs, Case{Op: "c08.wrapinit", MArgs: a, SArgs: a, Tag: "spnego.wrapinit"})
		for _, st := range []string{"0", "1"} {
			b := []string{st, "1.3.6.1.4.1.311.2.2.10", a[0]}
			cs = append(cs, Case{Op: "c08.wrapresp", MArgs: b, Tag: "spnego.wrapresp"})
			cs = append(cs, Case{Op: "c08.roundtripresp", MArgs: b, SArgs: b, Tag: "spnego.roundtrip-resp"})
		}
	}
	for _, n := range tokLens {
		t := rs.Bytes(n)
		a := []string{hx(t)}
		cs = append(cs, Case{Op: "c08.roundtrip", MArgs: a, SArgs: a, Tag: "spnego.roundtrip-init"})
		if n <= 70001 {
			cs = append(cs, Case{Op: "c08.wrapinit", MArgs: a, SArgs: a, Tag: "spnego.wrapinit"})
		}
		if n < 300 {
			if w, err := spnego.CreateNegTokenInit(t); err == nil {
				validTok = append(validTok, w)
			}
		}
	}
	mechs := []string{".", "1.3.6.1.4.1.311.2.2.10", "1.3.6.1.5.5.2", "1.2.840.113554.1.2.2", "2.999.3", "0.39", "2.100000.2147483647", "1.40", "3.1", "1", "2.16.840.1.101.3.4.2.1"}
	states := []int{0, 1, 2, 3, 127, 128, 255, 256, 32767, 32768, 65535, 8388607, 8388608, 2147483647}
	for i := 0; i < 250*scale; i++ {
		st := states[rs.Intn(len(states))]
		if rs.Intn(2) == 0 {
			st = rs.Intn(4)
		}
		m := mechs[rs.Intn(len(mechs))]
		if rs.Intn(2) == 0 {
			m = mechs[1]
		}
		n := tokLens[rs.Intn(len(tokLens))]
		if n > 70001 || rs.Intn(3) != 0 {
			n = rs.Intn(300)
		}
		t := rs.Bytes(n)
		a := []string{strconv.Itoa(st), m, hx(t)}
		cs = append(cs, Case{Op: "c08.wrapresp", MArgs: a, Tag: "spnego.wrapresp"})
		if _, err := spnego.CreateNegTokenResp(asn1.Enumerated(st), parseArcsGo(m), t); err == nil {
			cs = append(cs, Case{Op: "c08.roundtripresp", MArgs: a, SArgs: a, Tag: "spnego.roundtrip-resp"})
		}
		if n < 300 {
			if w, err := spnego.CreateNegTokenResp(asn1.Enumerated(st), parseArcsGo(m), t); err == nil {
				validTok = append(validTok, w)
				cs = append(cs, Case{Op: "c08.parseresp", MArgs: []string{hx(w)}, SArgs: []string{hx(w)}, Tag: "spnego.parseresp-valid"})
			}
		}
	}
	// malformed SPNEGO: headers, truncations, single-byte corruptions of valid tokens
	both := func(b []byte, tag string) {
		a := []string{hx(b)}
		cs = append(cs, Case{Op: "c08.extract", MArgs: a, SArgs: a, Tag: tag})
		cs = append(cs, Case{Op: "c08.parseresp", MArgs: a, SArgs: a, Tag: tag})
	}
	for _, h := range []string{"-", "60", "60ff", "6081", "6080", "60fe", "6000", "6100", "0000", "6082", "608206", "60840000", "6001", "600606", "60062b0601050502", "60082b0601050502",
		"6006062b0601050502", "6008060600000000", "600806062b0601050502", "600a06062b06010505023000", "600b06062b0601050502308000", "600c06062b060105050230820000"} {
		both(unhx(h), "spnego.short-header")
	}
	for b1 := 0; b1 < 256; b1++ {
		both([]byte{0x60, byte(b1)}, "spnego.two-bytes")
		both(append([]byte{0x60, byte(b1)}, validTok[len(validTok)/2][2:]...), "spnego.length-octet")
	}
	for k := 0; k < 4*scale; k++ {
		v := validTok[rs.Intn(len(validTok))]
		for n := 0; n <= len(v) && n < 80; n++ {
			both(v[:n], "spnego.truncated")
		}
	}
	for i := 0; i < 600*scale; i++ {
		v := append([]byte{}, validTok[rs.Intn(len(validTok))]...)
		lim := len(v)
		if lim > 48 {
			lim = 48
		}
		p := rs.Intn(lim)
		switch rs.Intn(3) {
		case 0:
			v[p] = []byte{0, 1, 0x7f, 0x80, 0x81, 0xfe, 0xff, 0x30, 0xa0, 0xa1, 0xa2, 0xa3, 0x04, 0x06, 0x0a, 0x03}[rs.Intn(16)]
		case 1:
			v[p] ^= 1 << uint(rs.Intn(8))
		default:
			v[p] += byte(rs.Intn(5)) - 2
		}
		both(v, "spnego.corrupted-header-byte")
	}

	// ---- ProcessChallengeToken
	rp := r.Fork("process")
	for i := 0; i < 120*scale; i++ {
		fl := c08Flags(rp) | fUnicode
		if rp.Intn(6) == 0 {
			fl &^= fUnicode
		}
		ti, _ := mkAv(genAvPairs(rp))
		if rp.Intn(4) == 0 {
			ti = nil
		}
		ver := make([]byte, 8)
		if fl&fVersion != 0 {
			ver = rp.Bytes(8)
		}
		ch := mkChallenge(fl, rp.Bytes(8), make([]byte, 8), stdUTF16LE(c08Name(rp)), ti, ver, nil, nil, nil)
		if i%3 == 2 {
			ch = mkChallengeTiFirst(fl|fESS, rp.Bytes(8), make([]byte, 8), stdUTF16LE("TARGET"+c08Name(rp)), ti, ver)
			fl |= fESS
		}
		st := []int{1, 1, 1, 0, 2, 3}[rp.Intn(6)]
		tok, err := spnego.CreateNegTokenResp(asn1.Enumerated(st), spnego.NtlmOID, ch)
		if err != nil {
			continue
		}
		tag := "process.valid"
		if rp.Intn(8) == 0 {
			tok = tok[:rp.Intn(len(tok))]
			tag = "process.truncated"
		}
		user, pw, d, w := c08Name(rp), c08Name(rp), c08Name(rp), c08Name(rp)
		tu, t16 := textTables(user, d, w)
		a := []string{hx(tok), hx([]byte(user)), hx([]byte(pw)), hx([]byte(d)), hx([]byte(w)), tu, t16, strconv.FormatUint(uint64(fl), 10), strconv.Itoa(len(ti))}
		cs = append(cs, Case{Op: "c08.process", MArgs: a, SArgs: a, Tag: tag})
	}
	return cs
}
