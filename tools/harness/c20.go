package main

import (
	"fmt"
	"net/netip"
	"regexp"
	"strconv"
	"strings"

	"github.com/TheManticoreProject/Manticore/network/ip"
	"github.com/TheManticoreProject/Manticore/windows/credentials"
)

func init() {
	register(&Prop{
		ID: "C20",
		Ops: []OpDef{
			{Name: "c20.v4.print", Impl: func(a []string) string {
				i := c20v4(a)
				if i.String() != i.CIDRAddress() {
					panic("String() and CIDRAddress() differ")
				}
				return okStr(i.String())
			}},
			{Name: "c20.v4.cidrmask", Impl: func(a []string) string { return okStr(c20v4(a).CIDRMask()) },
				Oracle: func(a []string) string {
					n := c20ints(a)
					p, err := netip.AddrFrom4([4]byte{byte(n[0]), byte(n[1]), byte(n[2]), byte(n[3])}).Prefix(n[4])
					if err != nil {
						return "*"
					}
					return okStr(p.String())
				}},
			{Name: "c20.v4.parse", Impl: func(a []string) string {
				if c13Used(a) { // what an earlier parse of the same text handed out is scribbled on first
					scribble(ip.NewIPv4FromString(string(unhx(a[0]))))
				}
				i := ip.NewIPv4FromString(string(unhx(a[0])))
				if i == nil {
					return "ok nil"
				}
				return fmt.Sprintf("ok %d,%d,%d,%d,%d", i.A, i.B, i.C, i.D, i.MaskBits)
			}, Oracle: func(a []string) string {
				p, err := netip.ParsePrefix(string(unhx(a[0])))
				if err != nil || !p.Addr().Is4() {
					return "ok nil"
				}
				b := p.Addr().As4()
				return fmt.Sprintf("ok %d,%d,%d,%d,%d", b[0], b[1], b[2], b[3], p.Bits())
			}},
			{Name: "c20.v4.subnet", Impl: func(a []string) string {
				return okBool(c20v4(a[:5]).IsInSubnet(c20v4(a[5:])))
			}, Oracle: func(a []string) string {
				n := c20ints(a)
				pfx := netip.PrefixFrom(netip.AddrFrom4([4]byte{byte(n[5]), byte(n[6]), byte(n[7]), byte(n[8])}), n[9])
				if !pfx.IsValid() {
					return "*"
				}
				return okBool(pfx.Contains(netip.AddrFrom4([4]byte{byte(n[0]), byte(n[1]), byte(n[2]), byte(n[3])})))
			}},
			{Name: "c20.v4.range", Impl: func(a []string) string {
				i, s, e := c20v4(a[:5]), c20v4(a[5:10]), c20v4(a[10:])
				r := i.IsInRange(s, e)
				rg := &ip.IPv4Range{Start: s, End: e}
				if c13Used(a) { // history: the range object has answered with other bounds before (replaced, or edited in place)
					rg = &ip.IPv4Range{Start: ip.NewIPv4(10, 0, 0, 0, 32), End: ip.NewIPv4(10, 0, 0, 255, 32)}
					rg.Contains(i)
					if i.D&1 == 0 {
						rg.Start, rg.End = s, e
					} else {
						*rg.Start, *rg.End = *s, *e
					}
				}
				if rg.Contains(i) != r {
					panic("IPv4Range.Contains and IsInRange differ")
				}
				return okBool(r)
			}, Oracle: func(a []string) string {
				n := c20ints(a)
				ad := func(k int) netip.Addr {
					return netip.AddrFrom4([4]byte{byte(n[k]), byte(n[k+1]), byte(n[k+2]), byte(n[k+3])})
				}
				return okBool(ad(5).Compare(ad(0)) <= 0 && ad(0).Compare(ad(10)) <= 0)
			}},
			{Name: "c20.v6.print", Impl: func(a []string) string { return okStr(c20v6(a).String()) }},
			{Name: "c20.v6.parse", Impl: func(a []string) string {
				if c13Used(a) {
					scribble(ip.NewIPv6FromString(string(unhx(a[0]))))
				}
				i := ip.NewIPv6FromString(string(unhx(a[0])))
				if i == nil {
					return "ok nil"
				}
				return fmt.Sprintf("ok %d,%d,%d,%d,%d,%d,%d,%d", i.A, i.B, i.C, i.D, i.E, i.F, i.G, i.H)
			}, Oracle: func(a []string) string {
				ad, err := netip.ParseAddr(string(unhx(a[0])))
				if err != nil || !ad.Is6() {
					return "ok nil"
				}
				b := ad.As16()
				g := make([]string, 8)
				for k := range g {
					g[k] = strconv.Itoa(int(b[2*k])<<8 | int(b[2*k+1]))
				}
				return "ok " + strings.Join(g, ",")
			}},
			{Name: "c20.v6.subnet", Impl: func(a []string) string {
				return okBool(c20v6(a[:8]).IsInSubnet(c20v6(a[8:])))
			}, Oracle: func(a []string) string { return okBool(c20addr6(a[:8]) == c20addr6(a[8:])) }},
			{Name: "c20.v6.range", Impl: func(a []string) string {
				i, s, e := c20v6(a[:8]), c20v6(a[8:16]), c20v6(a[16:])
				r := i.IsInRange(s, e)
				rg := &ip.IPv6Range{Start: s, End: e}
				if c13Used(a) { // history, as for IPv4
					rg = &ip.IPv6Range{Start: ip.NewIPv6(0xfe80, 0, 0, 0, 0, 0, 0, 1), End: ip.NewIPv6(0xfe80, 0, 0, 0, 0, 0, 0, 0xffff)}
					rg.Contains(i)
					if i.H&1 == 0 {
						rg.Start, rg.End = s, e
					} else {
						*rg.Start, *rg.End = *s, *e
					}
				}
				if rg.Contains(i) != r {
					panic("IPv6Range.Contains and IsInRange differ")
				}
				return okBool(r)
			}, Oracle: func(a []string) string {
				i, s, e := c20addr6(a[:8]), c20addr6(a[8:16]), c20addr6(a[16:])
				return okBool(s.Compare(i) <= 0 && i.Compare(e) <= 0)
			}},
			{Name: "c20.port.print", Impl: func(a []string) string {
				n := c20ints(a)
				return okStr(ip.NewTCPPortRange(uint16(n[0]), uint16(n[1])).String())
			}},
			{Name: "c20.port.parse", Impl: func(a []string) string {
				if c13Used(a) {
					if r0, err := ip.NewTCPPortRangeFromString(string(unhx(a[0]))); err == nil {
						scribble(r0)
					}
				}
				r, err := ip.NewTCPPortRangeFromString(string(unhx(a[0])))
				if err != nil {
					return "err"
				}
				return fmt.Sprintf("ok %d,%d", r.Start, r.End)
			}, Oracle: func(a []string) string {
				m := c20portRe.FindStringSubmatch(string(unhx(a[0])))
				if m == nil {
					return "*"
				}
				x, e1 := strconv.ParseUint(m[1], 10, 64)
				y, e2 := strconv.ParseUint(m[2], 10, 64)
				if e1 != nil || e2 != nil || strconv.FormatUint(x, 10) != m[1] || strconv.FormatUint(y, 10) != m[2] {
					return "*"
				}
				if x > 65535 || y > 65535 {
					return "err"
				}
				return fmt.Sprintf("ok %d,%d", x, y)
			}},
			{Name: "c20.lmnt", Impl: func(a []string) string { return c20lmnt(string(unhx(a[0])), false) },
				Oracle: func(a []string) string { return c20lmntOracle(string(unhx(a[0])), false) }},
			{Name: "c20.lmnt.ci", Impl: func(a []string) string { return c20lmnt(string(unhx(a[0])), true) },
				Oracle: func(a []string) string { return c20lmntOracle(string(unhx(a[0])), true) }},
		},
		Gen: genC20,
	})
}

var c20portRe = regexp.MustCompile(`^[\t\n\f\r ]*([0-9]+)[\t\n\f\r ]*-[\t\n\f\r ]*([0-9]+)[\t\n\f\r ]*$`)
var c20lmntRe = regexp.MustCompile(`^(?:([0-9a-fA-F]{32}):([0-9a-fA-F]{32})|:?([0-9a-fA-F]{32})|)$`)

func okBool(b bool) string {
	if b {
		return "ok true"
	}
	return "ok false"
}

func c20ints(a []string) []int {
	out := make([]int, len(a))
	for i, s := range a {
		n, err := strconv.Atoi(s)
		if err != nil {
			panic("harness: bad int " + s)
		}
		out[i] = n
	}
	return out
}
func c20v4(a []string) *ip.IPv4 {
	n := c20ints(a)
	return ip.NewIPv4(uint8(n[0]), uint8(n[1]), uint8(n[2]), uint8(n[3]), uint8(n[4]))
}
func c20v6(a []string) *ip.IPv6 {
	n := c20ints(a)
	return ip.NewIPv6(uint16(n[0]), uint16(n[1]), uint16(n[2]), uint16(n[3]), uint16(n[4]), uint16(n[5]), uint16(n[6]), uint16(n[7]))
}
func c20addr6(a []string) netip.Addr {
	n := c20ints(a)
	var b [16]byte
	for k := 0; k < 8; k++ {
		b[2*k], b[2*k+1] = byte(n[k]>>8), byte(n[k])
	}
	return netip.AddrFrom16(b)
}

func c20lmnt(s string, lower bool) string {
	lm, nt, err := credentials.ParseLMNTHashes(s)
	c, err2 := credentials.NewCredentials("d", "u", "p", s)
	if (err == nil) != (err2 == nil) || (err == nil && (c.LMHash != lm || c.NTHash != nt)) {
		panic("NewCredentials and ParseLMNTHashes differ")
	}
	if err != nil {
		return "err"
	}
	if lower {
		lm, nt = c20lower(lm), c20lower(nt)
	}
	return "ok " + hx([]byte(lm)) + " " + hx([]byte(nt))
}

// ASCII lower-casing only (bytes, not runes)
func c20lower(s string) string {
	b := []byte(s)
	for i, c := range b {
		if c >= 'A' && c <= 'Z' {
			b[i] = c + 32
		}
	}
	return string(b)
}

func c20lmntOracle(s string, lower bool) string {
	m := c20lmntRe.FindStringSubmatch(strings.TrimSpace(s))
	if m == nil {
		return "err"
	}
	lm, nt := m[1], m[2]
	if m[3] != "" {
		nt = m[3]
	}
	if lower {
		lm, nt = c20lower(lm), c20lower(nt)
	}
	return "ok " + hx([]byte(lm)) + " " + hx([]byte(nt))
}

// ---- generators ------------------------------------------------------------------------------

func itoas(ns ...int) []string {
	out := make([]string, len(ns))
	for i, n := range ns {
		out[i] = strconv.Itoa(n)
	}
	return out
}
func v4args(v uint32, m int) []string {
	return itoas(int(v>>24), int(v>>16&0xFF), int(v>>8&0xFF), int(v&0xFF), m)
}
func v4str(v uint32, m int) string {
	return fmt.Sprintf("%d.%d.%d.%d/%d", v>>24, v>>16&0xFF, v>>8&0xFF, v&0xFF, m)
}

// every Unicode white-space rune Go's TrimSpace removes, as bytes
var c20spaces = []string{"\t", "\n", "\v", "\f", "\r", " ", "\u0085", "\u00a0", "\u1680", "\u2000", "\u2001", "\u2002",
	"\u2003", "\u2004", "\u2005", "\u2006", "\u2007", "\u2008", "\u2009", "\u200a", "\u2028", "\u2029", "\u202f", "\u205f", "\u3000"}

// byte strings that look like white space but are not
var c20nearSpaces = []string{"\x1f", "\x1c", "\u200b", "\u2060", "\ufeff", "\u180e", "\u0084", "\u00a1", "\xc2", "\xe2\x80", "\x85", "\xa0",
	"\xe2\x80\x8b", "\xe2\x80\xaa", "\xe1\x9a\x81", "\xe3\x80\x81", "\x80"}

func genWs(r *Rng) string {
	n := r.Pick(0, 0, 1, 1, 2, 3, 5)
	var sb strings.Builder
	for i := 0; i < n; i++ {
		if r.Intn(3) == 0 {
			sb.WriteString(c20spaces[r.Intn(len(c20spaces))])
		} else {
			sb.WriteString(c20spaces[r.Intn(6)])
		}
	}
	return sb.String()
}

func genHash(r *Rng, mode int) string {
	var alpha []byte
	switch mode {
	case 0:
		alpha = []byte("0123456789abcdef")
	case 1:
		alpha = []byte("0123456789ABCDEF")
	default:
		alpha = []byte("0123456789abcdefABCDEF")
	}
	return string(r.BytesFrom(32, alpha))
}

func genC20(r *Rng, tier string) []Case {
	var cs []Case
	n := 1500
	if tier == "thorough" {
		n = 40000
	}
	add := func(op string, margs, sargs []string, tag string) {
		cs = append(cs, Case{Op: op, MArgs: margs, SArgs: sargs, Tag: tag})
	}
	both := func(op string, args []string, tag string) { add(op, args, args, tag) }
	parse4 := func(s string, tag string) { both("c20.v4.parse", []string{hx([]byte(s))}, tag) }
	parse6 := func(s string, tag string) { both("c20.v6.parse", []string{hx([]byte(s))}, tag) }
	port := func(s string, tag string) { both("c20.port.parse", []string{hx([]byte(s))}, tag) }

	// ---- IPv4: every prefix length 0..32 (and a few invalid ones) x addresses at the subnet boundaries
	r4 := r.Fork("v4")
	reps := 2
	if tier == "thorough" {
		reps = 40
	}
	for rep := 0; rep < reps; rep++ {
		for p := 0; p <= 35; p++ {
			pl := p
			if p > 32 {
				pl = []int{33, 64, 255}[p-33]
			}
			base := uint32(r4.U64())
			if rep == 0 {
				base = 0xC0A80111 // 192.168.1.17
			}
			var mask uint32
			if pl >= 1 && pl <= 32 {
				mask = ^uint32(0) << uint(32-pl)
			}
			netw := base & mask
			last := netw | ^mask
			cands := []uint32{netw, last, netw - 1, last + 1, base, netw + 1, last - 1, uint32(r4.U64()), netw | (uint32(r4.U64()) &^ mask),
				0, 0xFFFFFFFF, ^base, base ^ (1 << uint(r4.Intn(32)))}
			if pl >= 1 && pl <= 32 {
				cands = append(cands, base^(1<<uint(32-pl)))       // flips the last network bit
				cands = append(cands, base^(1<<uint((32-pl+31)%32))) // flips the first host bit (or bit 31 for /32)
			}
			for _, subnetAddr := range []uint32{netw, base, last} { // the subnet argument need not be a network address
				for _, c := range cands {
					both("c20.v4.subnet", append(v4args(c, r4.Intn(33)), v4args(subnetAddr, pl)...), "v4.subnet.grid")
				}
			}
			both("c20.v4.cidrmask", v4args(base, pl), "v4.cidrmask.grid")
			both("c20.v4.cidrmask", v4args(0xFFFFFFFF, pl), "v4.cidrmask.grid")
			both("c20.v4.print", v4args(base, pl), "v4.print")
			parse4(v4str(base, pl), "v4.parse.printed")
			parse4(v4str(netw, pl), "v4.parse.printed")
		}
	}
	// print/parse over boundary octets
	oct := []int{0, 1, 9, 10, 99, 100, 199, 200, 249, 250, 255}
	for _, a := range oct {
		for _, b := range oct {
			v := uint32(a)<<24 | uint32(b)<<16 | uint32(oct[r4.Intn(len(oct))])<<8 | uint32(oct[r4.Intn(len(oct))])
			m := r4.Intn(33)
			both("c20.v4.print", v4args(v, m), "v4.print")
			parse4(v4str(v, m), "v4.parse.printed")
		}
	}
	for _, s := range []string{"", "/", "1/2", "1.2/3", "1.2.3/4", "1.2.3.4", "1.2.3.4/", "/8", "1.2.3.4.5/6", "1.2.3.4/5/6", "256.1.1.1/8",
		"1.256.1.1/8", "1.1.256.1/8", "1.1.1.256/8", "1.1.1.1/33", "1.1.1.1/255", "1.1.1.1/256", "01.1.1.1/8", "1.1.1.1/08", "+1.1.1.1/8",
		"-1.1.1.1/8", "1.1.1.1/+8", " 1.1.1.1/8", "1.1.1.1/8 ", "1.1.1.1/8\n", "1. 1.1.1/8", "1..1.1/8", ".1.1.1/8", "1.1.1./8", "1.1.1.1//8",
		"0x1.1.1.1/8", "1_0.1.1.1/8", "\uff11.1.1.1/8", "1.1.1.1/\u0663", "000000000000000000000000001.1.1.1/8", "99999999999999999999999.1.1.1/8",
		"1.1.1.1/99999999999999999999999", "1.1.1.1/0", "0.0.0.0/0", "255.255.255.255/32", "1.1.1.1/32", "1,1,1,1/8", "a.b.c.d/e", "1.1.1.1\\8",
		"192.168.1.0/24", "10.0.0.0/8"} {
		parse4(s, "v4.parse.special")
	}
	for i := 0; i < n; i++ {
		v, m := uint32(r4.U64()), r4.Intn(33)
		if r4.Intn(4) == 0 {
			v = uint32(oct[r4.Intn(len(oct))])<<24 | uint32(oct[r4.Intn(len(oct))])<<16 | uint32(oct[r4.Intn(len(oct))])<<8 | uint32(oct[r4.Intn(len(oct))])
		}
		s := v4str(v, m)
		switch r4.Intn(5) {
		case 0:
			parse4(s, "v4.parse.printed")
		case 1:
			parse4(mutate(r4, s, "0123456789./ :-+_xa\n"), "v4.parse.mutated")
		case 2:
			both("c20.v4.print", v4args(v, r4.Pick(m, m, 33, 128, 255)), "v4.print")
		case 3:
			a, b := uint32(r4.U64()), uint32(r4.U64())
			if r4.Bool() {
				a, b = v-uint32(r4.Intn(3)), v+uint32(r4.Intn(3))
			}
			if r4.Intn(8) == 0 {
				a, b = b, a
			}
			both("c20.v4.range", append(append(v4args(v, m), v4args(a, r4.Intn(33))...), v4args(b, r4.Intn(33))...), "v4.range")
		default:
			p := r4.Intn(33)
			w := v
			if r4.Bool() {
				w = v ^ (1 << uint(r4.Intn(32)))
			} else if r4.Bool() {
				w = uint32(r4.U64())
			}
			both("c20.v4.subnet", append(v4args(w, r4.Intn(33)), v4args(v, p)...), "v4.subnet.random")
		}
	}
	for _, t := range [][3]uint32{{5, 5, 5}, {5, 5, 6}, {5, 4, 5}, {4, 5, 6}, {7, 5, 6}, {0, 0, 0xFFFFFFFF}, {0xFFFFFFFF, 0, 0xFFFFFFFF}, {5, 6, 4},
		{0x01000000, 0x00FFFFFF, 0x01000001}, {0x00FFFFFF, 0x01000000, 0x02000000}, {0x80000000, 0x7FFFFFFF, 0x80000001}, {0x7FFFFFFF, 0x80000000, 0xFFFFFFFF}} {
		both("c20.v4.range", append(append(v4args(t[0], 0), v4args(t[1], 0)...), v4args(t[2], 0)...), "v4.range.boundary")
	}

	// ---- IPv6
	r6 := r.Fork("v6")
	gv := []int{0, 1, 9, 10, 15, 16, 255, 256, 4095, 4096, 0x7FFF, 0x8000, 0xFFFE, 0xFFFF, 0xabcd}
	g6 := func() []int {
		g := make([]int, 8)
		for k := range g {
			if r6.Intn(3) == 0 {
				g[k] = int(r6.U64() & 0xFFFF)
			} else {
				g[k] = gv[r6.Intn(len(gv))]
			}
		}
		return g
	}
	s6 := func(g []int) string {
		p := make([]string, len(g))
		for k, x := range g {
			p[k] = strconv.FormatInt(int64(x), 16)
		}
		return strings.Join(p, ":")
	}
	near := func(g []int) []int { // a neighbour in the 128-bit order, or a copy
		h := append([]int(nil), g...)
		switch r6.Intn(6) {
		case 0: // +1 with carry
			for k := 7; k >= 0; k-- {
				h[k] = (h[k] + 1) & 0xFFFF
				if h[k] != 0 {
					break
				}
			}
		case 1: // -1 with borrow
			for k := 7; k >= 0; k-- {
				h[k] = (h[k] - 1) & 0xFFFF
				if h[k] != 0xFFFF {
					break
				}
			}
		case 2:
			k := r6.Intn(8)
			h[k] = gv[r6.Intn(len(gv))]
		case 3: // higher half up, lower half down (lexicographic trap)
			h[r6.Intn(4)] = (h[r6.Intn(4)] + 1) & 0xFFFF
			h[4+r6.Intn(4)] = 0
		case 4:
			h[r6.Intn(4)] = (h[r6.Intn(4)] - 1) & 0xFFFF
			h[4+r6.Intn(4)] = 0xFFFF
		}
		return h
	}
	for i := 0; i < n; i++ {
		g := g6()
		switch r6.Intn(5) {
		case 0:
			both("c20.v6.print", itoas(g...), "v6.print")
			parse6(s6(g), "v6.parse.printed")
		case 1:
			parse6(mutate(r6, s6(g), "0123456789abcdefABCDEF:g.x/ "), "v6.parse.mutated")
		case 2:
			h := g
			if r6.Bool() {
				h = near(g)
			}
			both("c20.v6.subnet", itoas(append(append([]int(nil), g...), h...)...), "v6.subnet")
		default:
			s, e := near(g), near(g)
			if r6.Intn(4) == 0 {
				s = g6()
			}
			if r6.Intn(4) == 0 {
				e = g6()
			}
			both("c20.v6.range", itoas(append(append(append([]int(nil), g...), s...), e...)...), "v6.range")
		}
	}
	for _, s := range []string{"", ":", "::", "::1", "1:2:3:4:5:6:7", "1:2:3:4:5:6:7:8", "1:2:3:4:5:6:7:8:9", "0:0:0:0:0:0:0:0",
		"ffff:ffff:ffff:ffff:ffff:ffff:ffff:ffff", "FFFF:0:0:0:0:0:0:1", "10000:0:0:0:0:0:0:1", "0001:0:0:0:0:0:0:1", "1:2:3:4:5:6:7:",
		":2:3:4:5:6:7:8", "1:2:3::5:6:7:8", "0x1:2:3:4:5:6:7:8", "1:2:3:4:5:6:7:8 ", "+1:2:3:4:5:6:7:8", "g:2:3:4:5:6:7:8", "1:2:3:4:5:6:1.2.3.4",
		"1_0:2:3:4:5:6:7:8", "00000000000000001:2:3:4:5:6:7:8", "fffffffffffffffffffffffff:2:3:4:5:6:7:8", "2001:db8:0:0:0:ff00:42:8329"} {
		parse6(s, "v6.parse.special")
	}

	// ---- ports: boundary grid, then random
	rp := r.Fork("port")
	pv := []int{0, 1, 9, 10, 99, 100, 999, 1000, 9999, 10000, 19999, 59999, 60000, 64999, 65000, 65499, 65500, 65529, 65530, 65534, 65535}
	for _, a := range pv {
		for _, b := range pv {
			both("c20.port.print", itoas(a, b), "port.print.grid")
			port(fmt.Sprintf("%d-%d", a, b), "port.parse.grid")
		}
	}
	reWs := []string{" ", "\t", "\n", "\f", "\r"}
	pad := func() string {
		var sb strings.Builder
		for k := rp.Pick(0, 0, 1, 2); k > 0; k-- {
			sb.WriteString(reWs[rp.Intn(len(reWs))])
		}
		return sb.String()
	}
	for i := 0; i < n; i++ {
		a, b := int(rp.U16Biased()), int(rp.U16Biased())
		if rp.Intn(3) == 0 {
			a, b = pv[rp.Intn(len(pv))], pv[rp.Intn(len(pv))]
		}
		switch rp.Intn(4) {
		case 0:
			both("c20.port.print", itoas(a, b), "port.print")
			port(fmt.Sprintf("%d-%d", a, b), "port.parse.printed")
		case 1:
			port(pad()+strconv.Itoa(a)+pad()+"-"+pad()+strconv.Itoa(b)+pad(), "port.parse.padded")
		case 2:
			// numbers around and above the 16-bit limit
			x, y := a, b
			if rp.Bool() {
				x = 65530 + rp.Intn(20)
			} else {
				y = 65530 + rp.Intn(20)
			}
			if rp.Intn(6) == 0 {
				x = 99990 + rp.Intn(20)
			}
			port(fmt.Sprintf("%d-%d", x, y), "port.parse.limit")
		default:
			port(mutate(rp, fmt.Sprintf("%d-%d", a, b), "0123456789- \t\v+_."), "port.parse.mutated")
		}
	}
	for _, s := range []string{"", "-", "1-", "-1", "1", "1--2", "1-2-3", "01-2", "1-02", "00-1", "0-0", "65535-65535", "65536-1", "1-65536",
		"70000-1", "80-70000", "100000-1", "1 2-3", "1-2 3", "\uff11-2", "1\v-2", "\v1-2", "1-2\v", "1\u00a0-2", "1-2\u0085", " 1 - 2 ", "\n1\t-\f2\r",
		"+1-2", "1-+2", "1_0-2", "0x10-2", "1.0-2", "invalid", "80-8080", "1024-2048", "1\u20142", "65535-0"} {
		port(s, "port.parse.special")
	}

	// ---- LM:NT hash specifications
	rh := r.Fork("lmnt")
	lmnt := func(ws1, core, ws2 string, tag string) {
		in := ws1 + core + ws2
		add("c20.lmnt", []string{hx([]byte(in))}, []string{hx([]byte(in)), hx([]byte(ws1)), hx([]byte(core)), hx([]byte(ws2))}, tag)
		lc := c20lower(core)
		add("c20.lmnt.ci", []string{hx([]byte(in))}, []string{hx([]byte(in)), hx([]byte(ws1)), hx([]byte(lc)), hx([]byte(ws2))}, tag+".ci")
	}
	mkCore := func(form int) string {
		mode := rh.Intn(3)
		switch form {
		case 0:
			return genHash(rh, mode) + ":" + genHash(rh, rh.Intn(3))
		case 1:
			return genHash(rh, mode)
		case 2:
			return ":" + genHash(rh, mode)
		default:
			return ""
		}
	}
	// every white-space rune on each side of every form
	for form := 0; form < 4; form++ {
		for _, w := range c20spaces {
			core := mkCore(form)
			lmnt(w, core, "", "lmnt.pad.grid")
			lmnt("", core, w, "lmnt.pad.grid")
			lmnt(w, core, w+w, "lmnt.pad.grid")
		}
		for _, w := range c20nearSpaces {
			core := mkCore(form)
			// not white space: part of the core, which is then not a hash specification
			lmnt("", w+core, "", "lmnt.nearspace")
			lmnt("", core+w, "", "lmnt.nearspace")
			lmnt(" ", core+w, " ", "lmnt.nearspace")
			lmnt(" ", w+core, "\n", "lmnt.nearspace")
		}
		lmnt("", mkCore(form), "", "lmnt.plain")
	}
	for i := 0; i < n; i++ {
		core := mkCore(rh.Pick(0, 0, 0, 1, 1, 2, 3))
		switch rh.Intn(6) {
		case 0:
			lmnt("", core, "", "lmnt.plain")
		case 1, 2:
			lmnt(genWs(rh), core, genWs(rh), "lmnt.padded")
		case 3:
			bad := mutate(rh, core, "0123456789abcdefABCDEFg: \t")
			if strings.TrimSpace(bad) != bad { // keep the decomposition honest: padding belongs to ws1/ws2
				bad = "x" + bad + "x"
			}
			lmnt(genWs(rh), bad, genWs(rh), "lmnt.mutated")
		case 4:
			// wrong lengths
			h := genHash(rh, 2)
			k := rh.Pick(0, 1, 16, 31, 33, 64)
			long := strings.Repeat(h, 3)[:k]
			var c string
			switch rh.Intn(4) {
			case 0:
				c = long + ":" + h
			case 1:
				c = h + ":" + long
			case 2:
				c = long
			default:
				c = h + ":" + h + ":" + long
			}
			lmnt(genWs(rh), c, genWs(rh), "lmnt.wrong-length")
		default:
			raw := string(rh.BytesFrom(rh.Intn(70), []byte("0123456789abcdef:: \n\xc2\xa0\x85")))
			core := strings.TrimSpace(raw)
			k := strings.Index(raw, core)
			if core == "" {
				k = len(raw)
			}
			lmnt(raw[:k], core, raw[k+len(core):], "lmnt.raw")
		}
	}
	for _, c := range []string{"aad3b435b51404eeaad3b435b51404ee:", "aad3b435b51404eeaad3b435b51404ee::31d6cfe0d16ae931b73c59d7e0c089c0", ":", "::",
		"aad3b435b51404eeaad3b435b51404ee :31d6cfe0d16ae931b73c59d7e0c089c0", "aad3b435b51404eeaad3b435b51404ee: 31d6cfe0d16ae931b73c59d7e0c089c0",
		"aad3b435b51404eeaad3b435b51404eg", "invalidhash", "aad3b435b51404eeaad3b435b51404ee:31d6cfe0d16ae931b73c59d7e0c089c0",
		"AAD3B435B51404EEAAD3B435B51404EE:31D6CFE0D16AE931B73C59D7E0C089C0", "31d6cfe0d16ae931b73c59d7e0c089c0",
		"aad3b435b51404eeaad3b435b51404ee\n:31d6cfe0d16ae931b73c59d7e0c089c0", strings.Repeat("\u017f", 32), "KKKKKKKKKKKKKKKKKKKKKKKKKKKKKKKK"} {
		lmnt("", c, "", "lmnt.special")
		lmnt(" ", c, "\r\n", "lmnt.special")
	}
	return cs
}

// mutate applies one or two small edits (delete, insert, replace, duplicate, truncate) to s.
func mutate(r *Rng, s string, alphabet string) string {
	b := []byte(s)
	for k := 1 + r.Intn(2); k > 0; k-- {
		switch r.Intn(5) {
		case 0:
			if len(b) > 0 {
				i := r.Intn(len(b))
				b = append(b[:i:i], b[i+1:]...)
			}
		case 1:
			i := r.Intn(len(b) + 1)
			b = append(b[:i:i], append([]byte{alphabet[r.Intn(len(alphabet))]}, b[i:]...)...)
		case 2:
			if len(b) > 0 {
				b[r.Intn(len(b))] = alphabet[r.Intn(len(alphabet))]
			}
		case 3:
			if len(b) > 0 {
				i := r.Intn(len(b))
				b = append(b[:i+1:i+1], b[i:]...)
			}
		default:
			b = b[:r.Intn(len(b)+1)]
		}
	}
	return string(b)
}
