package main

// C03 — SMB1 message envelope: header, framing, type dispatch, repeatable Marshal.
// Every Impl below calls the real library (header, securityfeatures, parameters, data, commands
// factories, message).  Commands enter Message.Marshal in two ways: a handful of real concrete
// commands whose fields are filled from the two raw contents (`builders`), and `rawCmd`, a command
// defined here that follows the library's Marshal template verbatim with arbitrary raw contents
// (the only way to reach odd-length parameter streams and the 255-word / 65535-byte limits through
// the real Message/Parameters/Data code: no concrete command produces them).

import (
	"bytes"
	"encoding/binary"
	"fmt"
	"reflect"
	"strconv"
	"strings"

	"github.com/TheManticoreProject/Manticore/network/smb/smb_v10/message"
	"github.com/TheManticoreProject/Manticore/network/smb/smb_v10/message/commands"
	"github.com/TheManticoreProject/Manticore/network/smb/smb_v10/message/commands/andx"
	"github.com/TheManticoreProject/Manticore/network/smb/smb_v10/message/commands/codes"
	"github.com/TheManticoreProject/Manticore/network/smb/smb_v10/message/commands/command_interface"
	"github.com/TheManticoreProject/Manticore/network/smb/smb_v10/message/data"
	"github.com/TheManticoreProject/Manticore/network/smb/smb_v10/message/header"
	"github.com/TheManticoreProject/Manticore/network/smb/smb_v10/message/header/flags"
	"github.com/TheManticoreProject/Manticore/network/smb/smb_v10/message/header/flags2"
	"github.com/TheManticoreProject/Manticore/network/smb/smb_v10/message/parameters"
	"github.com/TheManticoreProject/Manticore/network/smb/smb_v10/message/securityfeatures"
	"github.com/TheManticoreProject/Manticore/network/smb/smb_v10/types"
)

func init() {
	register(&Prop{
		ID: "C03",
		Ops: []OpDef{
			{Name: "c03.hdr.marshal", Impl: c03HdrMarshal},
			{Name: "c03.hdr.unmarshal", Impl: c03HdrUnmarshal},
			{Name: "c03.hdr.roundtrip", Impl: c03HdrRoundtrip},
			{Name: "c03.pid", Impl: c03Pid},
			{Name: "c03.params", Impl: c03Params},
			{Name: "c03.params.unmarshal", Impl: c03ParamsUnmarshal},
			{Name: "c03.data", Impl: c03Data},
			{Name: "c03.data.unmarshal", Impl: c03DataUnmarshal},
			{Name: "c03.dispatch", Impl: c03Dispatch},
			{Name: "c03.msg.marshal", Impl: c03MsgMarshal},
			{Name: "c03.msg.unmarshal", Impl: c03MsgUnmarshal},
			{Name: "c03.msg.remarshal", Impl: c03MsgRemarshal},
		},
		Gen: genC03,
	})
}

// exact returns a copy whose capacity equals its length: Go slice expressions are checked against
// the capacity, the model's against the length.


// ---- header tokens -------------------------------------------------------------------------

type hdrVal struct {
	proto                                                [4]byte
	cmd                                                  uint8
	status                                               uint32
	flags, flags2, pidHigh, reserved, tid, pidLow, uid, mid uint16
	sec                                                  string // token
}

func (v hdrVal) tokens() []string {
	u := func(x uint64) string { return strconv.FormatUint(x, 10) }
	return []string{hx(v.proto[:]), u(uint64(v.cmd)), u(uint64(v.status)), u(uint64(v.flags)), u(uint64(v.flags2)), u(uint64(v.pidHigh)),
		v.sec, u(uint64(v.reserved)), u(uint64(v.tid)), u(uint64(v.pidLow)), u(uint64(v.uid)), u(uint64(v.mid))}
}

func secFromToken(t string) securityfeatures.SecurityFeatures {
	p := strings.Split(t, ":")
	switch p[0] {
	case "r":
		s := securityfeatures.NewSecurityFeaturesReserved()
		copy(s.Reserved[:], unhx(p[1]))
		return s
	case "s":
		s := securityfeatures.NewSecurityFeaturesSecuritySignature()
		var sig [8]byte
		copy(sig[:], unhx(p[1]))
		s.SetSecuritySignature(sig)
		return s
	case "c":
		s := securityfeatures.NewSecurityFeaturesConnectionlessTransport()
		s.Key = uint32(atoiU(p[1], 32))
		s.CID = uint16(atoiU(p[2], 16))
		s.SequenceNumber = uint16(atoiU(p[3], 16))
		return s
	}
	panic("harness: bad security features token " + t)
}

func secToken(s securityfeatures.SecurityFeatures) string {
	switch v := s.(type) {
	case *securityfeatures.SecurityFeaturesReserved:
		return "r:" + hx(v.Reserved[:])
	case *securityfeatures.SecurityFeaturesSecuritySignature:
		sig := v.GetSecuritySignature()
		return "s:" + hx(sig[:])
	case *securityfeatures.SecurityFeaturesConnectionlessTransport:
		return fmt.Sprintf("c:%d:%d:%d", v.Key, v.CID, v.SequenceNumber)
	}
	return "?"
}

// headerFromTokens fills a library Header from the 12 tokens (fields are set directly, as a caller can).
func headerFromTokens(a []string) *header.Header {
	h := header.NewHeader()
	copy(h.Protocol[:], unhx(a[0]))
	h.Command = codes.CommandCode(atoiU(a[1], 8))
	h.Status = types.ULONG(atoiU(a[2], 32))
	h.Flags = flags.Flags(atoiU(a[3], 16))
	h.Flags2 = flags2.Flags2(atoiU(a[4], 16))
	h.PIDHigh = types.USHORT(atoiU(a[5], 16))
	h.SecurityFeatures = secFromToken(a[6])
	h.Reserved = types.USHORT(atoiU(a[7], 16))
	h.TID = types.USHORT(atoiU(a[8], 16))
	h.PIDLow = types.USHORT(atoiU(a[9], 16))
	h.UID = types.USHORT(atoiU(a[10], 16))
	h.MID = types.USHORT(atoiU(a[11], 16))
	return h
}

func showHeader(h *header.Header) string {
	return fmt.Sprintf("%s %d %d %d %d %d %s %d %d %d %d %d", hx(h.Protocol[:]), uint8(h.Command), uint32(h.Status), uint16(h.Flags),
		uint16(h.Flags2), h.PIDHigh, secToken(h.SecurityFeatures), h.Reserved, h.TID, h.PIDLow, h.UID, h.MID)
}

// ---- header ops ----------------------------------------------------------------------------

func c03HdrMarshal(a []string) string {
	b, err := headerFromTokens(a).Marshal()
	if err != nil {
		return "err"
	}
	return okHex(b)
}

func c03HdrUnmarshal(a []string) string {
	h := header.NewHeader()
	n, err := h.Unmarshal(exact(unhx(a[0])))
	if err != nil {
		return "err"
	}
	return "ok " + showHeader(h) + " " + strconv.Itoa(n)
}

func c03HdrRoundtrip(a []string) string {
	b, err := headerFromTokens(a).Marshal()
	if err != nil {
		return "err"
	}
	h := header.NewHeader()
	n, err := h.Unmarshal(exact(b))
	if err != nil {
		return "err"
	}
	return "ok " + showHeader(h) + " " + strconv.Itoa(n)
}

func c03Pid(a []string) string {
	h := header.NewHeader()
	h.PIDHigh = types.USHORT(atoiU(a[0], 16))
	h.PIDLow = types.USHORT(atoiU(a[1], 16))
	g0 := h.GetPID()
	h.SetPID(types.ULONG(atoiU(a[2], 32)))
	return fmt.Sprintf("ok %d %d %d %d", g0, h.PIDHigh, h.PIDLow, h.GetPID())
}

// ---- parameters / data ops -----------------------------------------------------------------

func c03Params(a []string) string {
	p := parameters.NewParameters()
	for _, t := range a {
		switch {
		case strings.HasPrefix(t, "w:"):
			p.AddWord(uint16(atoiU(t[2:], 16)))
		case strings.HasPrefix(t, "s:"):
			p.AddWordsFromBytesStream(exact(unhx(t[2:])))
		default:
			panic("harness: bad params token " + t)
		}
	}
	m := "err"
	if b, err := p.Marshal(); err == nil {
		m = hx(b)
	}
	return fmt.Sprintf("ok %d %s %s", p.WordCount, hx(p.GetBytesStream()), m)
}

func c03ParamsUnmarshal(a []string) string {
	p := parameters.NewParameters()
	n, err := p.Unmarshal(exact(unhx(a[0])))
	if err != nil {
		return "err"
	}
	return fmt.Sprintf("ok %d %s %d", p.WordCount, hx(p.GetBytesStream()), n)
}

func c03Data(a []string) string {
	d := data.NewData()
	for _, t := range a {
		switch {
		case strings.HasPrefix(t, "a:"):
			d.Add(exact(unhx(t[2:])))
		case strings.HasPrefix(t, "S:"):
			d.SetData(exact(unhx(t[2:])))
		default:
			panic("harness: bad data token " + t)
		}
	}
	m := "err"
	if b, err := d.Marshal(); err == nil {
		m = hx(b)
	}
	return fmt.Sprintf("ok %d %s", d.ByteCount, m)
}

func c03DataUnmarshal(a []string) string {
	d := data.NewData()
	n, err := d.Unmarshal(exact(unhx(a[0])))
	if err != nil {
		return "err"
	}
	return fmt.Sprintf("ok %d %s %d", d.ByteCount, hx(d.Bytes), n)
}

// ---- dispatch ------------------------------------------------------------------------------

func kindLine(c command_interface.CommandInterface) string {
	ax := 0
	if c.IsAndX() {
		ax = 1
	}
	return fmt.Sprintf("%s %d %d", hx([]byte(reflect.TypeOf(c).Elem().Name())), uint8(c.GetCommandCode()), ax)
}

func c03Dispatch(a []string) string {
	code := codes.CommandCode(atoiU(a[1], 8))
	var c command_interface.CommandInterface
	var err error
	if a[0] == "1" {
		c, err = commands.CreateResponseCommand(code)
	} else {
		c, err = commands.CreateRequestCommand(code)
	}
	if err != nil {
		return "err"
	}
	return "ok " + kindLine(c)
}

// ---- commands for Message.Marshal ----------------------------------------------------------

// rawCmd follows the Marshal/Unmarshal template of every concrete command (e.g. commands/CloseRequest.go)
// line by line; its command-specific part is "the raw contents are given".
type rawCmd struct {
	command_interface.Command
	isAndX bool
	rawP   []byte
	rawD   []byte
}

func (c *rawCmd) IsAndX() bool { return c.isAndX }

func (c *rawCmd) Marshal() ([]byte, error) {
	marshalledCommand := []byte{}
	if c.GetParameters() == nil {
		c.SetParameters(parameters.NewParameters())
	}
	if c.GetData() == nil {
		c.SetData(data.NewData())
	}
	if c.IsAndX() {
		if c.GetAndX() == nil {
			c.SetAndX(andx.NewAndX())
			c.GetAndX().AndXCommand = codes.SMB_COM_NO_ANDX_COMMAND
		}
		for _, parameter := range c.GetAndX().GetParameters() {
			c.GetParameters().AddWord(parameter)
		}
	}
	rawDataContent := append([]byte{}, c.rawD...)
	rawParametersContent := append([]byte{}, c.rawP...)
	c.GetParameters().AddWordsFromBytesStream(rawParametersContent)
	marshalledParameters, err := c.GetParameters().Marshal()
	if err != nil {
		return nil, err
	}
	marshalledCommand = append(marshalledCommand, marshalledParameters...)
	c.GetData().Add(rawDataContent)
	marshalledData, err := c.GetData().Marshal()
	if err != nil {
		return nil, err
	}
	marshalledCommand = append(marshalledCommand, marshalledData...)
	return marshalledCommand, nil
}

func (c *rawCmd) Unmarshal(d []byte) (int, error) {
	bytesRead, err := c.GetParameters().Unmarshal(d)
	if err != nil {
		return 0, err
	}
	_, err = c.GetData().Unmarshal(d[bytesRead:])
	if err != nil {
		return 0, err
	}
	return 0, nil
}

// builders fill a real concrete command so that its own Marshal computes exactly the given raw contents
// (nil: the contents do not have the command's shape).
var c03Builders = map[string]func(rawP, rawD []byte) command_interface.CommandInterface{
	"CloseRequest": func(p, d []byte) command_interface.CommandInterface {
		if len(p) != 10 || len(d) != 0 {
			return nil
		}
		c := commands.NewCloseRequest()
		c.FID = types.USHORT(binary.LittleEndian.Uint16(p[0:2]))
		c.LastTimeModified.DwLowDateTime = binary.LittleEndian.Uint32(p[2:6])
		c.LastTimeModified.DwHighDateTime = binary.LittleEndian.Uint32(p[6:10])
		return c
	},
	"CloseResponse": func(p, d []byte) command_interface.CommandInterface {
		if len(p) != 0 || len(d) != 0 {
			return nil
		}
		return commands.NewCloseResponse()
	},
	"EchoRequest": func(p, d []byte) command_interface.CommandInterface {
		if len(p) != 2 {
			return nil
		}
		c := commands.NewEchoRequest()
		c.EchoCount = types.USHORT(binary.LittleEndian.Uint16(p))
		c.Data = append([]types.UCHAR{}, d...)
		return c
	},
	"EchoResponse": func(p, d []byte) command_interface.CommandInterface {
		if len(p) != 2 {
			return nil
		}
		c := commands.NewEchoResponse()
		c.SequenceNumber = types.USHORT(binary.LittleEndian.Uint16(p))
		c.Data = append([]types.UCHAR{}, d...)
		return c
	},
	"LogoffAndxRequest": func(p, d []byte) command_interface.CommandInterface {
		if len(p) != 0 || len(d) != 0 {
			return nil
		}
		return commands.NewLogoffAndxRequest()
	},
	"NtTransactRequest": func(p, d []byte) command_interface.CommandInterface {
		if len(p) != 38 {
			return nil
		}
		c := commands.NewNtTransactRequest()
		c.MaxSetupCount = p[0]
		c.Reserved1 = types.USHORT(binary.LittleEndian.Uint16(p[1:3]))
		c.TotalParameterCount = binary.LittleEndian.Uint32(p[3:7])
		c.TotalDataCount = binary.LittleEndian.Uint32(p[7:11])
		c.MaxParameterCount = binary.LittleEndian.Uint32(p[11:15])
		c.MaxDataCount = binary.LittleEndian.Uint32(p[15:19])
		c.ParameterCount = binary.LittleEndian.Uint32(p[19:23])
		c.ParameterOffset = binary.LittleEndian.Uint32(p[23:27])
		c.DataCount = binary.LittleEndian.Uint32(p[27:31])
		c.DataOffset = binary.LittleEndian.Uint32(p[31:35])
		c.SetupCount = p[35]
		c.Function = types.USHORT(binary.LittleEndian.Uint16(p[36:38]))
		// the data block is Pad1 ‖ NT_Trans_Parameters ‖ Pad2 ‖ NT_Trans_Data: split it in two
		k := len(d) / 3
		c.NT_Trans_Parameters = append([]types.UCHAR{}, d[:k]...)
		c.NT_Trans_Data = append([]types.UCHAR{}, d[k:]...)
		return c
	},
	"TransactionRequest": func(p, d []byte) command_interface.CommandInterface {
		// 28 fixed parameter bytes, then the Setup words; data: Name as NUL-terminated ASCII string
		// (buffer format 0x04) with an empty buffer = `04 00`, then Trans_Data
		if len(p) < 28 || len(p)%2 != 0 || len(d) < 2 || d[0] != 0x04 || d[1] != 0x00 {
			return nil
		}
		c := commands.NewTransactionRequest()
		u16 := func(i int) types.USHORT { return types.USHORT(binary.LittleEndian.Uint16(p[i : i+2])) }
		c.TotalParameterCount, c.TotalDataCount, c.MaxParameterCount, c.MaxDataCount = u16(0), u16(2), u16(4), u16(6)
		c.MaxSetupCount, c.Reserved1 = p[8], p[9]
		c.Flags = u16(10)
		c.Timeout = binary.LittleEndian.Uint32(p[12:16])
		c.Reserved2, c.ParameterCount, c.ParameterOffset, c.DataCount, c.DataOffset = u16(16), u16(18), u16(20), u16(22), u16(24)
		c.SetupCount, c.Reserved3 = p[26], p[27]
		for i := 28; i < len(p); i += 2 {
			c.Setup = append(c.Setup, u16(i))
		}
		c.Name.SetBufferFormat(types.SMB_STRING_BUFFER_FORMAT_NULL_TERMINATED_ASCII_STRING)
		c.Trans_Data = append([]types.UCHAR{}, d[2:]...)
		return c
	},
}

// <12 header tokens> <kind> <code> <isAndX> <andx> <rawP> <rawD> <k>
func c03MsgMarshal(a []string) string {
	h := headerFromTokens(a[:12])
	kind, code, isAndX := a[12], codes.CommandCode(atoiU(a[13], 8)), a[14] == "1"
	rawP, rawD := unhx(a[16]), unhx(a[17])
	k := int(atoiU(a[18], 16))
	var cmd command_interface.CommandInterface
	if kind == "raw" {
		c := &rawCmd{isAndX: isAndX, rawP: rawP, rawD: rawD}
		c.SetCommandCode(code)
		cmd = c
	} else if b, ok := c03Builders[kind]; ok {
		cmd = b(rawP, rawD)
	}
	if cmd == nil || reflect.ValueOf(cmd).IsNil() || cmd.GetCommandCode() != code || cmd.IsAndX() != isAndX {
		return "harness-inconsistent-case"
	}
	if a[15] != "-" {
		p := strings.Split(a[15], ":")
		cmd.SetAndX(&andx.AndX{AndXCommand: codes.CommandCode(atoiU(p[0], 8)), AndXReserved: uint8(atoiU(p[1], 8)), AndXOffset: uint16(atoiU(p[2], 16))})
	}
	m := message.NewMessage()
	m.Header = h
	m.AddCommand(cmd)
	outs := make([]string, k)
	for i := 0; i < k; i++ {
		b, err := m.Marshal()
		if err != nil {
			outs[i] = "err"
		} else {
			outs[i] = hx(b)
		}
	}
	return "ok " + strings.Join(outs, " ")
}

// <bytes> <specific>   (the second token is for the model only)
func c03MsgUnmarshal(a []string) string {
	m := message.NewMessage()
	if len(a) >= 3 {
		// what happened to this Message object before: "u:<hex>" = an earlier Unmarshal,
		// "m:<reply>:<code>" = a command of that kind was added and the message marshalled
		func() {
			defer func() { recover() }()
			h := strings.SplitN(a[2], ":", 3)
			switch h[0] {
			case "u":
				_ = m.Unmarshal(exact(unhx(h[1])))
			case "m":
				code, _ := strconv.Atoi(h[2])
				var c command_interface.CommandInterface
				var err error
				if h[1] == "1" {
					c, err = commands.CreateResponseCommand(codes.CommandCode(code))
				} else {
					c, err = commands.CreateRequestCommand(codes.CommandCode(code))
				}
				if err == nil {
					c.Init()
					m.AddCommand(c)
					_, _ = m.Marshal()
				}
			}
		}()
	}
	if err := m.Unmarshal(exact(unhx(a[0]))); err != nil {
		return "err"
	}
	p, d := m.Command.GetParameters(), m.Command.GetData()
	return fmt.Sprintf("ok %s %s %d %s %d %s", showHeader(m.Header), kindLine(m.Command), p.WordCount, hx(p.GetBytesStream()), d.ByteCount, hx(d.Bytes))
}

// <bytes> <k>: decode into a Message, then Marshal it k times: "encoding the same message again yields identical
// bytes" also for a message that came off the wire (a decode error, or a command whose own Marshal refuses, leaves
// nothing to compare: "ok same")
func c03MsgRemarshal(a []string) string {
	m := message.NewMessage()
	if err := m.Unmarshal(exact(unhx(a[0]))); err != nil {
		return "ok same"
	}
	k, _ := strconv.Atoi(a[1])
	var first []byte
	firstErr := false
	for i := 0; i < k; i++ {
		b, err := m.Marshal()
		if i == 0 {
			first, firstErr = b, err != nil
			continue
		}
		if (err != nil) != firstErr || (err == nil && string(b) != string(first)) {
			return fmt.Sprintf("ok differ call-1=%d-bytes call-%d=%d-bytes", len(first), i+1, len(b))
		}
	}
	return "ok same"
}

// c03Specific runs the command-specific part of Message.Unmarshal in isolation: when the header, the
// factory and the two block decoders (all real code) accept the message, the outcome class of the concrete
// command's Unmarshal is that of its own field reading.  Otherwise "ok" (the model never looks at it).
func c03Specific(b []byte) (out string) {
	out = "ok"
	if len(b) < 32 {
		return
	}
	h := header.NewHeader()
	if _, err := h.Unmarshal(exact(b[:32])); err != nil {
		return
	}
	var c command_interface.CommandInterface
	var err error
	if h.IsResponse() {
		c, err = commands.CreateResponseCommand(h.Command)
	} else {
		c, err = commands.CreateRequestCommand(h.Command)
	}
	if err != nil {
		return
	}
	rest := exact(b[32:])
	blocksOK := func() (ok bool) {
		defer func() {
			if recover() != nil {
				ok = false
			}
		}()
		n, err := parameters.NewParameters().Unmarshal(rest)
		if err != nil {
			return false
		}
		_, err = data.NewData().Unmarshal(exact(rest[n:]))
		return err == nil
	}()
	if !blocksOK {
		return
	}
	defer func() {
		if recover() != nil {
			out = "panic"
		}
	}()
	c.Init()
	if _, err := c.Unmarshal(rest); err != nil {
		return "err"
	}
	return "ok"
}

// ---- generators ----------------------------------------------------------------------------

var c03U16Grid = []uint16{0, 1, 0x7F, 0x80, 0xFF, 0x100, 0x7FFF, 0x8000, 0xFFFE, 0xFFFF}

func c03RandSec(r *Rng) string {
	switch r.Intn(3) {
	case 0:
		return "r:" + hx(r.Bytes(8))
	case 1:
		return "s:" + hx(r.Bytes(8))
	default:
		return fmt.Sprintf("c:%d:%d:%d", r.U32Biased(), r.U16Biased(), r.U16Biased())
	}
}

func c03RandHeader(r *Rng, wideFlags bool) hdrVal {
	v := hdrVal{proto: [4]byte{0xFF, 'S', 'M', 'B'}, cmd: r.Byte(), status: r.U32Biased(), flags: uint16(r.Byte()), flags2: r.U16Biased(),
		pidHigh: r.U16Biased(), reserved: r.U16Biased(), tid: r.U16Biased(), pidLow: r.U16Biased(), uid: r.U16Biased(), mid: r.U16Biased(),
		sec: c03RandSec(r)}
	if r.Intn(4) == 0 {
		copy(v.proto[:], r.Bytes(4))
	}
	if r.Intn(3) == 0 {
		v.reserved = 0
	}
	if wideFlags {
		v.flags = 0x100 + r.U16Biased()%0xFF00
	}
	return v
}

// header bytes written by the harness itself (for decoder inputs only; never compared with anything)
func c03HeaderBytes(r *Rng, cmd uint8, reply bool) []byte {
	b := r.Bytes(32)
	copy(b, []byte{0xFF, 'S', 'M', 'B'})
	b[4] = cmd
	if reply {
		b[9] |= 0x80
	} else {
		b[9] &^= 0x80
	}
	return b
}

func c03Blocks(words, bytes []byte) []byte {
	b := []byte{byte(len(words) / 2)}
	b = append(b, words...)
	b = append(b, byte(len(bytes)), byte(len(bytes)>>8))
	return append(b, bytes...)
}

func genC03(r *Rng, tier string) []Case {
	var cs []Case
	thorough := tier == "thorough"
	scale := func(quick, thoroughN int) int {
		if thorough {
			return thoroughN
		}
		return quick
	}
	both := func(op string, args []string, tag string) {
		cs = append(cs, Case{Op: op, MArgs: args, SArgs: args, Tag: tag})
	}

	// ---- header: boundary grid per field, then random; marshal, round trip ---------------------
	rh := r.Fork("hdr")
	hdr := func(v hdrVal, tag string) {
		both("c03.hdr.marshal", v.tokens(), tag)
		both("c03.hdr.roundtrip", v.tokens(), tag)
	}
	for f := 0; f < 9; f++ {
		for _, g := range c03U16Grid {
			v := c03RandHeader(rh, false)
			switch f {
			case 0:
				v.cmd = uint8(g)
			case 1:
				v.flags = g // includes values above 0xFF: truncation, the spec is silent
			case 2:
				v.flags2 = g
			case 3:
				v.pidHigh = g
			case 4:
				v.reserved = g
			case 5:
				v.tid = g
			case 6:
				v.pidLow = g
			case 7:
				v.uid = g
			case 8:
				v.mid = g
			}
			hdr(v, "hdr.grid")
		}
	}
	for _, st := range []uint32{0, 1, 0xFF, 0x100, 0xFFFF, 0x10000, 0xC0000022, 0x7FFFFFFF, 0x80000000, 0xFFFFFFFF} {
		v := c03RandHeader(rh, false)
		v.status = st
		hdr(v, "hdr.grid")
	}
	for _, sec := range []string{"r:0000000000000000", "r:ffffffffffffffff", "s:0102030405060708", "c:0:0:0", "c:4294967295:65535:65535", "c:1:256:2", "c:16909060:1286:1800"} {
		v := c03RandHeader(rh, false)
		v.sec = sec
		hdr(v, "hdr.grid")
	}
	for i := 0; i < scale(1500, 40000); i++ {
		hdr(c03RandHeader(rh, false), "hdr.random")
	}
	for i := 0; i < scale(60, 2000); i++ {
		hdr(c03RandHeader(rh, true), "hdr.flags>0xff")
	}
	// Header.Unmarshal: exact, longer, truncated at every length, random
	for i := 0; i < scale(800, 20000); i++ {
		b := rh.Bytes(32 + rh.Pick(0, 0, 0, 1, 5, 40))
		if rh.Intn(2) == 0 {
			copy(b, []byte{0xFF, 'S', 'M', 'B'})
		}
		both("c03.hdr.unmarshal", []string{hx(b)}, "hdr.decode")
	}
	for n := 0; n < 32; n++ {
		both("c03.hdr.unmarshal", []string{hx(rh.Bytes(n))}, "hdr.truncated")
	}
	// PID
	rp := r.Fork("pid")
	for _, hi := range c03U16Grid {
		for _, lo := range []uint16{0, 1, 0xFF, 0x8000, 0xFFFF} {
			both("c03.pid", []string{fmt.Sprint(hi), fmt.Sprint(lo), fmt.Sprint(rp.U32Biased())}, "pid.grid")
		}
	}
	for _, pid := range []uint32{0, 1, 0xFFFF, 0x10000, 0x12345678, 0x7FFFFFFF, 0x80000000, 0xFFFF0000, 0xFFFFFFFF} {
		both("c03.pid", []string{"0", "0", fmt.Sprint(pid)}, "pid.grid")
	}
	for i := 0; i < scale(300, 20000); i++ {
		both("c03.pid", []string{fmt.Sprint(rp.U16Biased()), fmt.Sprint(rp.U16Biased()), fmt.Sprint(rp.U32Biased())}, "pid.random")
	}

	// ---- Parameters ----------------------------------------------------------------------------
	rq := r.Fork("params")
	for _, nbytes := range []int{0, 1, 2, 3, 4, 5, 254, 255, 507, 508, 509, 510, 511, 512, 513, 514, 515, 600} {
		both("c03.params", []string{"s:" + hx(rq.Bytes(nbytes))}, "params.stream-size")
	}
	for i := 0; i < scale(1000, 20000); i++ {
		var toks []string
		n := rq.Intn(5)
		for j := 0; j < n; j++ {
			if rq.Intn(6) == 0 {
				toks = append(toks, fmt.Sprintf("w:%d", rq.U16Biased()))
			} else {
				toks = append(toks, "s:"+hx(rq.Bytes(rq.Pick(0, 1, 2, 3, 4, 7, 8, 9, 20, 21, 100, 255))))
			}
		}
		tag := "params.script"
		for _, t := range toks {
			if t[0] == 'w' {
				tag = "params.script+AddWord"
			}
		}
		both("c03.params", toks, tag)
	}
	for _, n := range []int{1, 2, 127, 128, 255, 256, 257} { // AddWord only: WordCount = 2*len
		toks := make([]string, n)
		for j := range toks {
			toks[j] = fmt.Sprintf("w:%d", rq.U16Biased())
		}
		both("c03.params", toks, "params.AddWord-only")
	}
	for i := 0; i < scale(1000, 20000); i++ {
		wc := rq.Pick(0, 0, 1, 2, 3, 5, 10, 100, 254, 255)
		b := append([]byte{byte(wc)}, rq.Bytes(2*wc)...)
		switch rq.Intn(6) {
		case 0:
			b = b[:rq.Intn(len(b)+1)]
			both("c03.params.unmarshal", []string{hx(b)}, "params.decode-truncated")
		case 1:
			b = append(b, rq.Bytes(1+rq.Intn(6))...)
			both("c03.params.unmarshal", []string{hx(b)}, "params.decode-trailing")
		case 2:
			both("c03.params.unmarshal", []string{hx(rq.Bytes(rq.Intn(12)))}, "params.decode-random")
		default:
			both("c03.params.unmarshal", []string{hx(b)}, "params.decode-valid")
		}
	}

	// ---- Data ----------------------------------------------------------------------------------
	rd := r.Fork("data")
	big := []int{65534, 65535, 65536, 65537}
	if thorough {
		big = append(big, 70000, 131071, 131072)
	}
	for _, n := range append([]int{0, 1, 2, 255, 256, 257, 4096}, big...) {
		both("c03.data", []string{"a:" + hx(rd.Bytes(n))}, "data.size")
	}
	both("c03.data", []string{"a:" + hx(rd.Bytes(40000)), "a:" + hx(rd.Bytes(25535))}, "data.size")
	both("c03.data", []string{"a:" + hx(rd.Bytes(40000)), "a:" + hx(rd.Bytes(25536))}, "data.size")
	for i := 0; i < scale(800, 15000); i++ {
		var toks []string
		n := rd.Intn(5)
		for j := 0; j < n; j++ {
			pre := "a:"
			if rd.Intn(5) == 0 {
				pre = "S:"
			}
			toks = append(toks, pre+hx(rd.Bytes(rd.Pick(0, 1, 2, 3, 16, 100, 300))))
		}
		both("c03.data", toks, "data.script")
	}
	for n := 0; n <= 3; n++ {
		for _, fill := range []byte{0x00, 0x01, 0x05, 0xFF} {
			b := make([]byte, n)
			for i := range b {
				b[i] = fill
			}
			both("c03.data.unmarshal", []string{hx(b)}, "data.decode-short")
		}
	}
	for i := 0; i < scale(1000, 20000); i++ {
		bc := rd.Pick(0, 0, 1, 2, 3, 10, 255, 256, 1000)
		b := append([]byte{byte(bc), byte(bc >> 8)}, rd.Bytes(bc)...)
		switch rd.Intn(6) {
		case 0:
			b = b[:rd.Intn(len(b)+1)]
			both("c03.data.unmarshal", []string{hx(b)}, "data.decode-truncated")
		case 1:
			b = append(b, rd.Bytes(1+rd.Intn(6))...)
			both("c03.data.unmarshal", []string{hx(b)}, "data.decode-trailing")
		case 2:
			both("c03.data.unmarshal", []string{hx(rd.Bytes(rd.Intn(12)))}, "data.decode-random")
		default:
			both("c03.data.unmarshal", []string{hx(b)}, "data.decode-valid")
		}
	}
	for _, n := range []int{65534, 65535} {
		b := append([]byte{byte(n), byte(n >> 8)}, rd.Bytes(n)...)
		both("c03.data.unmarshal", []string{hx(b)}, "data.decode-valid")
		both("c03.data.unmarshal", []string{hx(b[:len(b)-1])}, "data.decode-truncated")
	}

	// ---- dispatch: all 256 codes x reply flag, through the factories and through Message.Unmarshal ----
	rx := r.Fork("dispatch")
	unm := func(b []byte, tag string) {
		sp := c03Specific(b)
		c := Case{Op: "c03.msg.unmarshal", MArgs: []string{hx(b), sp}, Tag: tag}
		if sp != "panic" { // a panic inside a command's own field reading belongs to property C07
			c.SArgs = c.MArgs
		} else {
			c.Tag = tag + "(command-specific panic: tie only)"
		}
		cs = append(cs, c)
	}
	// the same bytes decoded into a Message object with a history (an earlier Unmarshal of the opposite
	// kind, or a command of the opposite kind added and marshalled): the result depends on the bytes only
	for code := 0; code < 256; code++ {
		for reply := 0; reply < 2; reply++ {
			if !thorough && code%2 == 1 {
				continue
			}
			b := append(c03HeaderBytes(rx, uint8(code), reply == 1), 0, 0, 0)
			sp := c03Specific(b)
			if sp == "panic" {
				continue
			}
			pre := append(c03HeaderBytes(rx, uint8(code), reply == 0), 0, 0, 0)
			for _, hist := range []string{"u:" + hx(pre), fmt.Sprintf("m:%d:%d", 1-reply, code)} {
				cs = append(cs, Case{Op: "c03.msg.unmarshal", MArgs: []string{hx(b), sp, hist}, SArgs: []string{hx(b), sp, hist}, Tag: "dispatch.reused-message"})
			}
		}
	}
	for code := 0; code < 256; code++ {
		for reply := 0; reply < 2; reply++ {
			both("c03.dispatch", []string{fmt.Sprint(reply), fmt.Sprint(code)}, "dispatch.factory")
			unm(append(c03HeaderBytes(rx, uint8(code), reply == 1), 0, 0, 0), "dispatch.unmarshal-empty-blocks")
			// the other header fields have no say in the dispatch: all of them at their extremes (all-ones: TID, PID,
			// UID, MID = 0xFFFF, every flag set; all-zero), with only the reply bit as the case asks
			for _, fill := range []byte{0xFF, 0x00} {
				hb := bytes.Repeat([]byte{fill}, 32)
				copy(hb, []byte{0xFF, 'S', 'M', 'B'})
				hb[4] = uint8(code)
				if reply == 1 {
					hb[9] |= 0x80
				} else {
					hb[9] &^= 0x80
				}
				unm(append(hb, 0, 0, 0), "dispatch.unmarshal-extreme-header")
			}
			if thorough || code%4 == 0 {
				w := rx.Bytes(2 * rx.Intn(6))
				rb := append(c03HeaderBytes(rx, uint8(code), reply == 1), c03Blocks(w, rx.Bytes(rx.Intn(12)))...)
				unm(rb, "dispatch.unmarshal-random-blocks")
				if c03Specific(rb) != "panic" {
					ra := []string{hx(rb), "3"}
					cs = append(cs, Case{Op: "c03.msg.remarshal", MArgs: ra, SArgs: ra, NoM: true, Tag: "repeat.decoded-message"})
				}
			}
		}
	}

	// the decoding side at the block limits: an Echo request (one parameter word) with a data block up to 65535 octets is
	// 32 + 1 + 2 + 2 + 65535 octets long and decodes like any other
	for _, n := range []int{65498, 65499, 65500, 65533, 65535} {
		rb := append(c03HeaderBytes(rx, 0x2B, false), c03Blocks(rx.Bytes(2), rx.Bytes(n))...)
		unm(rb, "dispatch.unmarshal-block-limit")
		if c03Specific(rb) != "panic" {
			ra := []string{hx(rb), "2"}
			cs = append(cs, Case{Op: "c03.msg.remarshal", MArgs: ra, SArgs: ra, NoM: true, Tag: "repeat.decoded-message-block-limit"})
		}
	}

	// ---- Message.Marshal -------------------------------------------------------------------------
	rm := r.Fork("msg")
	type cmdSpec struct {
		kind   string
		code   uint8
		isAndX bool
		rawP   func() []byte
		rawD   func() []byte
	}
	fixed := func(n int) func() []byte { return func() []byte { return rm.Bytes(n) } }
	dataSizes := func() []byte { return rm.Bytes(rm.Pick(0, 1, 2, 3, 17, 255, 256, 1000)) }
	specs := []cmdSpec{
		{"CloseRequest", 0x04, false, fixed(10), fixed(0)},
		{"CloseResponse", 0x04, false, fixed(0), fixed(0)},
		{"EchoRequest", 0x2B, false, fixed(2), dataSizes},
		{"EchoResponse", 0x2B, false, fixed(2), dataSizes},
		{"LogoffAndxRequest", 0x74, true, fixed(0), fixed(0)},
		{"NtTransactRequest", 0xA0, false, fixed(38), dataSizes},
		{"TransactionRequest", 0x25, false, func() []byte { return rm.Bytes(28 + 2*rm.Pick(0, 1, 2, 5, 50, 200, 240, 241)) },
			func() []byte { return append([]byte{0x04, 0x00}, dataSizes()...) }},
	}
	msg := func(h hdrVal, s cmdSpec, ax string, p, d []byte, k int, tag string) {
		ia := "0"
		if s.isAndX {
			ia = "1"
		}
		args := append(h.tokens(), s.kind, fmt.Sprint(s.code), ia, ax, hx(p), hx(d), fmt.Sprint(k))
		both("c03.msg.marshal", args, tag)
	}
	for i := 0; i < scale(100, 1500); i++ {
		for _, s := range specs {
			ax := "-"
			if s.isAndX && rm.Intn(2) == 0 {
				ax = fmt.Sprintf("%d:%d:%d", rm.Byte(), rm.Byte(), rm.U16Biased())
			}
			msg(c03RandHeader(rm, rm.Intn(12) == 0), s, ax, s.rawP(), s.rawD(), 1+i%4, "msg.marshal-concrete:"+s.kind)
		}
	}
	// limits with real commands: 255 / 256 / 257 parameter words (TransactionRequest Setup), 65535 / 65536 data bytes (Echo)
	for _, setup := range []int{240, 241, 242, 243, 300} {
		s := specs[6]
		msg(c03RandHeader(rm, false), s, "-", rm.Bytes(28+2*setup), []byte{0x04, 0x00}, 2, "msg.marshal-limit:TransactionRequest")
	}
	for _, n := range []int{65533, 65535, 65536, 65537} {
		msg(c03RandHeader(rm, false), specs[2], "-", rm.Bytes(2), rm.Bytes(n), 2, "msg.marshal-limit:EchoRequest")
		msg(c03RandHeader(rm, false), specs[6], "-", rm.Bytes(28), append([]byte{0x04, 0x00}, rm.Bytes(n-2)...), 1, "msg.marshal-limit:TransactionRequest")
	}
	// the template with arbitrary raw contents: odd lengths, AndX on/off, set AndX, sizes around the limits
	for i := 0; i < scale(1200, 20000); i++ {
		s := cmdSpec{kind: "raw", code: rm.Byte(), isAndX: rm.Intn(3) == 0}
		ax := "-"
		if rm.Intn(3) == 0 {
			ax = fmt.Sprintf("%d:%d:%d", rm.Byte(), rm.Byte(), rm.U16Biased())
		}
		p := rm.Bytes(rm.Pick(0, 1, 2, 3, 4, 5, 9, 10, 33, 100, 101))
		d := rm.Bytes(rm.Pick(0, 1, 2, 3, 50, 255, 256))
		msg(c03RandHeader(rm, rm.Intn(12) == 0), s, ax, p, d, 1+i%4, "msg.marshal-template")
	}
	for _, np := range []int{505, 506, 507, 508, 509, 510, 511, 512, 513, 514, 515} {
		for _, isAndX := range []bool{false, true} {
			s := cmdSpec{kind: "raw", code: rm.Byte(), isAndX: isAndX}
			msg(c03RandHeader(rm, false), s, "-", rm.Bytes(np), rm.Bytes(rm.Intn(4)), 2, "msg.marshal-template-limit")
		}
	}
	for _, nd := range big {
		s := cmdSpec{kind: "raw", code: rm.Byte(), isAndX: false}
		msg(c03RandHeader(rm, false), s, "-", rm.Bytes(rm.Intn(6)), rm.Bytes(nd), 3, "msg.marshal-template-limit")
	}

	// ---- Message.Unmarshal: well-formed, every truncation, trailing bytes, inconsistent counts, random ----
	ru := r.Fork("unmarshal")
	// end to end on the concrete commands: what the real Marshal produced (bytes obtained here from the
	// library, then used as decoder input), intact, with trailing bytes, and cut short
	for i := 0; i < scale(60, 1500); i++ {
		s := specs[i%len(specs)]
		h := c03RandHeader(ru, false)
		if i%2 == 1 { // direction of the header = direction of the command type
			h.flags |= 0x80
		} else {
			h.flags &^= 0x80
		}
		ia := "0"
		if s.isAndX {
			ia = "1"
		}
		out := c03MsgMarshal(append(h.tokens(), s.kind, fmt.Sprint(s.code), ia, "-", hx(s.rawP()), hx(s.rawD()), "1"))
		if !strings.HasPrefix(out, "ok ") || strings.Contains(out, "err") {
			continue
		}
		b := unhx(out[3:])
		unm(b, "msg.unmarshal-of-marshalled:"+s.kind)
		if i%3 == 0 {
			unm(append(b, ru.Bytes(1+ru.Intn(5))...), "msg.unmarshal-of-marshalled+trailing")
		}
		if i%3 == 1 && len(b) > 32 {
			unm(b[:32+ru.Intn(len(b)-32)], "msg.unmarshal-of-marshalled-truncated")
		}
	}
	known := []uint8{0x04, 0x2B, 0x74, 0xA0, 0x25, 0x72, 0x73, 0x2E, 0x00, 0x1D, 0x71}
	mk := func() []byte {
		code := known[ru.Intn(len(known))]
		if ru.Intn(5) == 0 {
			code = ru.Byte()
		}
		w := ru.Bytes(2 * ru.Pick(0, 0, 1, 2, 5, 12, 17, 255))
		return append(c03HeaderBytes(ru, code, ru.Bool()), c03Blocks(w, ru.Bytes(ru.Pick(0, 0, 1, 2, 9, 40, 300)))...)
	}
	for i := 0; i < scale(2000, 50000); i++ {
		b := mk()
		switch ru.Intn(8) {
		case 0:
			unm(b[:ru.Intn(len(b)+1)], "msg.unmarshal-truncated")
		case 1:
			unm(append(b, ru.Bytes(1+ru.Intn(8))...), "msg.unmarshal-trailing")
		case 2:
			b[32] = ru.Byte() // word count no longer matches
			unm(b, "msg.unmarshal-wordcount-corrupt")
		case 3:
			unm(ru.Bytes(ru.Intn(80)), "msg.unmarshal-random")
		default:
			unm(b, "msg.unmarshal-wellformed")
		}
	}
	for i := 0; i < scale(8, 80); i++ { // every prefix of a message, including the cut inside ByteCount
		b := append(c03HeaderBytes(ru, known[i%len(known)], i%2 == 1), c03Blocks(ru.Bytes(2*ru.Intn(4)), ru.Bytes(ru.Intn(5)))...)
		for n := 0; n <= len(b); n++ {
			unm(b[:n], "msg.unmarshal-every-prefix")
		}
	}
	return cs
}
