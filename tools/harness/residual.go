package main

// Residual expressions (DESIGN.md §2 (ii)): a Lean model or spec that uses a primitive which is not
// re-implemented in Lean (MD5, SHA-1/256, HMAC, PBKDF2) prints `res <expr>`; the harness evaluates the
// expression with the Go standard library / x/crypto and turns the line into `ok <hex>` before any
// comparison.  Grammar (no spaces):  expr := HEX | "-" | "#" INT | name "(" expr {"," expr} ")".

import (
	"crypto/hmac"
	"crypto/md5"
	"crypto/sha1"
	"crypto/sha256"
	"encoding/hex"
	"fmt"
	"hash"
	"strconv"
	"strings"
	"sync"

	"golang.org/x/crypto/pbkdf2"
)

type resVal struct {
	b     []byte
	i     int64
	isInt bool
}

type resParser struct {
	s   string
	pos int
}

func (p *resParser) token() string {
	start := p.pos
	for p.pos < len(p.s) && !strings.ContainsRune(",()", rune(p.s[p.pos])) {
		p.pos++
	}
	return p.s[start:p.pos]
}

func (p *resParser) expr() (resVal, error) {
	tok := p.token()
	if p.pos < len(p.s) && p.s[p.pos] == '(' {
		p.pos++
		var args []resVal
		for {
			a, err := p.expr()
			if err != nil {
				return resVal{}, err
			}
			args = append(args, a)
			if p.pos >= len(p.s) {
				return resVal{}, fmt.Errorf("residual: unterminated call of %s", tok)
			}
			c := p.s[p.pos]
			p.pos++
			if c == ')' {
				break
			}
			if c != ',' {
				return resVal{}, fmt.Errorf("residual: unexpected %q", c)
			}
		}
		return resApply(tok, args)
	}
	switch {
	case tok == "-":
		return resVal{b: []byte{}}, nil
	case strings.HasPrefix(tok, "#"):
		n, err := strconv.ParseInt(tok[1:], 10, 64)
		if err != nil {
			return resVal{}, fmt.Errorf("residual: bad integer %q", tok)
		}
		return resVal{i: n, isInt: true}, nil
	default:
		b, err := hex.DecodeString(tok)
		if err != nil || tok == "" {
			return resVal{}, fmt.Errorf("residual: bad hex token %q", tok)
		}
		return resVal{b: b}, nil
	}
}

func resApply(name string, a []resVal) (resVal, error) {
	bytesArgs := func(n int) error {
		if len(a) != n {
			return fmt.Errorf("residual: %s expects %d arguments, got %d", name, n, len(a))
		}
		for _, x := range a {
			if x.isInt {
				return fmt.Errorf("residual: %s expects byte strings", name)
			}
		}
		return nil
	}
	hashes := map[string]func() hash.Hash{"md5": md5.New, "sha1": sha1.New, "sha256": sha256.New}
	switch {
	case name == "cat":
		var out []byte
		for _, x := range a {
			if x.isInt {
				return resVal{}, fmt.Errorf("residual: cat expects byte strings")
			}
			out = append(out, x.b...)
		}
		return resVal{b: out}, nil
	case name == "hex":
		if err := bytesArgs(1); err != nil {
			return resVal{}, err
		}
		return resVal{b: []byte(hex.EncodeToString(a[0].b))}, nil
	case hashes[name] != nil:
		if err := bytesArgs(1); err != nil {
			return resVal{}, err
		}
		h := hashes[name]()
		h.Write(a[0].b)
		return resVal{b: h.Sum(nil)}, nil
	case strings.HasPrefix(name, "hmac-") && hashes[name[5:]] != nil: // hmac-md5(key, message)
		if err := bytesArgs(2); err != nil {
			return resVal{}, err
		}
		h := hmac.New(hashes[name[5:]], a[0].b)
		h.Write(a[1].b)
		return resVal{b: h.Sum(nil)}, nil
	case strings.HasPrefix(name, "pbkdf2-hmac-") && hashes[name[12:]] != nil: // (key, salt, #iter, #len)
		if len(a) != 4 || a[0].isInt || a[1].isInt || !a[2].isInt || !a[3].isInt {
			return resVal{}, fmt.Errorf("residual: %s expects (bytes, bytes, #iter, #len)", name)
		}
		if a[3].i < 0 || a[3].i > 1<<20 || a[2].i > 1<<24 {
			return resVal{}, fmt.Errorf("residual: %s parameters out of the range the harness evaluates", name)
		}
		return resVal{b: pbkdf2.Key(a[0].b, a[1].b, int(a[2].i), int(a[3].i), hashes[name[12:]])}, nil
	}
	return resVal{}, fmt.Errorf("residual: unknown primitive %q", name)
}

var resCache sync.Map

// resolveResidual turns a driver line `res <expr>` into `ok <hex>`; other lines pass through.
// An expression the harness cannot evaluate becomes `bad-op` (reported as a machinery error).
func resolveResidual(line string) string {
	if !strings.HasPrefix(line, "res ") {
		return line
	}
	if v, ok := resCache.Load(line); ok {
		return v.(string)
	}
	p := &resParser{s: strings.TrimSpace(line[4:])}
	v, err := p.expr()
	out := "bad-op"
	if err == nil && p.pos == len(p.s) && !v.isInt {
		out = okHex(v.b)
	}
	resCache.Store(line, out)
	return out
}
