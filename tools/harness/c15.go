package main

import (
	"encoding/binary"
	"fmt"
	"math/big"
	"regexp"
	"strconv"
	"time"

	"github.com/TheManticoreProject/Manticore/crypto/uuid/uuid_v1"
	"github.com/TheManticoreProject/Manticore/crypto/uuid/uuid_v2"
	"github.com/TheManticoreProject/Manticore/network/ldap"
	"github.com/TheManticoreProject/Manticore/windows/keycredential/key"
	kcutils "github.com/TheManticoreProject/Manticore/windows/keycredential/utils"
	ds "github.com/TheManticoreProject/Manticore/windows/ms_dtyp/common/data_structures"
)

func init() {
	register(&Prop{
		ID: "C15",
		Ops: []OpDef{
			// ---- FILETIME
			{Name: "c15.ft.fromtime", Impl: func(a []string) string {
				ft := ds.NewFILETIMEFromTime(c15time(a))
				return fmt.Sprintf("ok %d %d %d", ft.ToInt64(), ft.DwLowDateTime, ft.DwHighDateTime)
			}, Oracle: func(a []string) string {
				k := bigTicksOfTime(11644473600, a)
				if !k.IsInt64() {
					return "*"
				}
				u := uint64(k.Int64())
				return fmt.Sprintf("ok %d %d %d", k.Int64(), uint32(u), uint32(u>>32))
			}},
			{Name: "c15.ft.toint64", Impl: func(a []string) string {
				return fmt.Sprintf("ok %d", c15ft(a).ToInt64())
			}, Oracle: func(a []string) string {
				return fmt.Sprintf("ok %d", int64(uint64(c15u(a[1]))<<32|uint64(c15u(a[0]))))
			}},
			{Name: "c15.ft.gettime", Impl: func(a []string) string {
				ft := c15ft(a)
				t := ft.GetTime()
				return fmt.Sprintf("ok %d %d %d", t.Unix(), t.Nanosecond(), ft.GetUnixTimestamp())
			}, Oracle: func(a []string) string {
				k := big.NewInt(int64(uint64(c15u(a[1]))<<32 | uint64(c15u(a[0]))))
				s, n := bigTimeOfTicks(11644473600, k)
				return fmt.Sprintf("ok %s %s %s", s, n, s)
			}},
			{Name: "c15.ft.roundtrip", Impl: func(a []string) string {
				ft := ds.NewFILETIMEFromTime(c15time(a))
				// through the wire form as well
				raw, _ := ft.Marshal()
				ft2 := &ds.FILETIME{}
				if _, err := ft2.Unmarshal(raw); err != nil {
					return "err"
				}
				t := ft2.GetTime()
				return fmt.Sprintf("ok %d %d", t.Unix(), t.Nanosecond())
			}},
			// ---- LDAP
			{Name: "c15.ldap.ts2unix", Impl: func(a []string) string {
				return fmt.Sprintf("ok %d", ldap.ConvertLDAPTimeStampToUnixTimeStamp(string(unhx(a[0]))))
			}, Oracle: func(a []string) string {
				s := string(unhx(a[0]))
				if s == "" {
					return "ok 0"
				}
				if !c15decRe.MatchString(s) {
					return "*"
				}
				v, _ := new(big.Int).SetString(s, 10)
				if !v.IsInt64() {
					return "ok 0"
				}
				e := big.NewInt(116444736000000000)
				if v.Cmp(e) < 0 {
					return "ok 0"
				}
				q := new(big.Int).Div(new(big.Int).Sub(v, e), big.NewInt(10000000))
				return "ok " + q.String()
			}},
			{Name: "c15.ldap.unix2ts", Impl: func(a []string) string {
				return fmt.Sprintf("ok %d", ldap.ConvertUnixTimeStampToLDAPTimeStamp(c15time(a)))
			}, Oracle: func(a []string) string {
				k := bigTicksOfTime(11644473600, []string{a[0], "0"})
				if !k.IsInt64() {
					return "*"
				}
				return "ok " + k.String()
			}},
			{Name: "c15.ldap.dur2sec", Impl: func(a []string) string {
				return fmt.Sprintf("ok %d", ldap.ConvertLDAPDurationToSeconds(string(unhx(a[0]))))
			}, Oracle: func(a []string) string {
				s := string(unhx(a[0]))
				if s == "" {
					return "ok 0"
				}
				if !c15decRe.MatchString(s) {
					return "*"
				}
				v, _ := new(big.Int).SetString(s, 10)
				if !v.IsInt64() {
					return "ok 0"
				}
				return "ok " + new(big.Int).Div(v.Abs(v), big.NewInt(10000000)).String()
			}},
			{Name: "c15.ldap.sec2dur", Impl: func(a []string) string {
				return okStr(ldap.ConvertSecondsToLDAPDuration(c15i(a[0])))
			}, Oracle: func(a []string) string {
				return okStr(new(big.Int).Mul(big.NewInt(c15i(a[0])), big.NewInt(10000000)).String())
			}},
			{Name: "c15.ldap.ts.roundtrip", Impl: func(a []string) string {
				k := ldap.ConvertUnixTimeStampToLDAPTimeStamp(time.Unix(c15i(a[0]), 0))
				return fmt.Sprintf("ok %d", ldap.ConvertLDAPTimeStampToUnixTimeStamp(strconv.FormatInt(k, 10)))
			}},
			{Name: "c15.ldap.dur.roundtrip", Impl: func(a []string) string {
				return fmt.Sprintf("ok %d", ldap.ConvertLDAPDurationToSeconds(ldap.ConvertSecondsToLDAPDuration(c15i(a[0]))))
			}},
			// ---- key credentials
			{Name: "c15.kc.new", Impl: func(a []string) string {
				k := c15u64(a[0])
				before := time.Now()
				dt := kcutils.NewDateTime(k)
				return c15kc(dt, k, before, true)
			}, Oracle: func(a []string) string {
				k := c15u64(a[0])
				s, n := bigTimeOfTicks(11644473600, new(big.Int).SetUint64(k))
				return fmt.Sprintf("ok %d %s %s %s", k, s, n, hx(binary.LittleEndian.AppendUint64(nil, k)))
			}},
			{Name: "c15.kc.frombin", Impl: func(a []string) string {
				raw := unhx(a[0])
				before := time.Now()
				var out string
				for i, sv := range c15combos {
					dt := kcutils.ConvertFromBinaryTime(raw, sv.src, key.KeyCredentialVersion{Value: sv.ver})
					var k uint64 // fewer than 8 bytes: the library reads tick 0 (and must not go through "now")
					if len(raw) >= 8 {
						k = binary.LittleEndian.Uint64(raw)
					} else {
						k = 1 // never "now"
					}
					r := c15kc(dt, k, before, false)
					if i > 0 && r != out {
						panic("ConvertFromBinaryTime depends on source/version")
					}
					out = r
				}
				return out
			}},
			{Name: "c15.kc.tobin", Impl: func(a []string) string {
				t := c15time(a)
				var out string
				for i, sv := range c15combos {
					r := okHex(kcutils.ConvertToBinaryTime(t, sv.src, key.KeyCredentialVersion{Value: sv.ver}))
					if i > 0 && r != out {
						panic("ConvertToBinaryTime depends on source/version")
					}
					out = r
				}
				return out
			}, Oracle: func(a []string) string {
				k := bigTicksOfTime(11644473600, a)
				if !k.IsUint64() {
					return "*"
				}
				return okHex(binary.LittleEndian.AppendUint64(nil, k.Uint64()))
			}},
			{Name: "c15.kc.roundtrip", Impl: func(a []string) string {
				raw := kcutils.ConvertToBinaryTime(c15time(a), key.KeySource_AD, key.KeyCredentialVersion{Value: key.KeyCredentialVersion_2})
				before := time.Now()
				dt := kcutils.ConvertFromBinaryTime(raw, key.KeySource_AD, key.KeyCredentialVersion{Value: key.KeyCredentialVersion_2})
				return c15kc(dt, binary.LittleEndian.Uint64(raw), before, false)
			}},
			// ---- UUID v1 / v2
			{Name: "c15.uuid1.gettime", Impl: func(a []string) string {
				u := &uuid_v1.UUIDv1{}
				u.Time = c15u64(a[0])
				t := u.GetTime()
				return fmt.Sprintf("ok %d %d", t.Unix(), t.Nanosecond())
			}, Oracle: c15uuidGetOracle},
			{Name: "c15.uuid2.gettime", Impl: func(a []string) string {
				u := &uuid_v2.UUIDv2{}
				u.Time = c15u64(a[0])
				t := u.GetTime()
				return fmt.Sprintf("ok %d %d", t.Unix(), t.Nanosecond())
			}, Oracle: c15uuidGetOracle},
			{Name: "c15.uuid1.settime", Impl: func(a []string) string {
				u := &uuid_v1.UUIDv1{}
				if c13Used(a) { // history: the value has held a later time before (parsed, or set earlier)
					u.Time = 0x0FFFFFFFFFFFFFFF
				}
				u.SetTime(c15time(a))
				return fmt.Sprintf("ok %d", u.Time)
			}, Oracle: c15uuidSetOracle},
			{Name: "c15.uuid2.settime", Impl: func(a []string) string {
				u := &uuid_v2.UUIDv2{}
				if c13Used(a) { // history: the value has held a later time before (parsed, or set earlier)
					u.Time = 0x0FFFFFFFFFFFFFFF
				}
				u.SetTime(c15time(a))
				return fmt.Sprintf("ok %d", u.Time)
			}, Oracle: c15uuidSetOracle},
			{Name: "c15.uuid1.roundtrip", Impl: func(a []string) string {
				u := &uuid_v1.UUIDv1{}
				if c13Used(a) {
					u.SetTime(time.Unix(32503680000, 0)) // the year 3000 first
				}
				u.SetTime(c15time(a))
				t := u.GetTime()
				return fmt.Sprintf("ok %d %d", t.Unix(), t.Nanosecond())
			}},
			{Name: "c15.uuid2.roundtrip", Impl: func(a []string) string {
				u := &uuid_v2.UUIDv2{}
				if c13Used(a) {
					u.SetTime(time.Unix(32503680000, 0)) // the year 3000 first
				}
				u.SetTime(c15time(a))
				t := u.GetTime()
				return fmt.Sprintf("ok %d %d", t.Unix(), t.Nanosecond())
			}},
		},
		Gen: genC15,
	})
}

var c15decRe = regexp.MustCompile(`^[+-]?[0-9]+$`)

var c15combos = []struct {
	src key.KeySource
	ver uint32
}{
	{key.KeySource_AD, key.KeyCredentialVersion_0}, {key.KeySource_AD, key.KeyCredentialVersion_1}, {key.KeySource_AD, key.KeyCredentialVersion_2},
	{key.KeySource_AzureAD, key.KeyCredentialVersion_2}, {key.KeySource_AD, 0x300}, {key.KeySource_AzureAD, 0x300},
}

func c15i(s string) int64 {
	n, err := strconv.ParseInt(s, 10, 64)
	if err != nil {
		panic("harness: bad int " + s)
	}
	return n
}
func c15u64(s string) uint64 {
	n, err := strconv.ParseUint(s, 10, 64)
	if err != nil {
		panic("harness: bad uint " + s)
	}
	return n
}
func c15u(s string) uint32 { return uint32(c15u64(s)) }
func c15time(a []string) time.Time { return time.Unix(c15i(a[0]), c15i(a[1])) }
func c15ft(a []string) *ds.FILETIME {
	return &ds.FILETIME{DwLowDateTime: c15u(a[0]), DwHighDateTime: c15u(a[1])}
}

// canonical line of a DateTime: "now" when the tick count was 0 and the value is the current time
func c15kc(dt kcutils.DateTime, k uint64, before time.Time, withBytes bool) string {
	if dt.ToTicks() != dt.Ticks {
		panic("ToTicks != Ticks")
	}
	if k == 0 && !dt.Time.Before(before.Add(-time.Second)) && !dt.Time.After(time.Now().Add(time.Second)) {
		return "ok now"
	}
	if withBytes {
		return fmt.Sprintf("ok %d %d %d %s", dt.Ticks, dt.Time.Unix(), dt.Time.Nanosecond(), hx(dt.ToBytes()))
	}
	return fmt.Sprintf("ok %d %d %d", dt.Ticks, dt.Time.Unix(), dt.Time.Nanosecond())
}

// arbitrary-precision references (math/big; Div/Mod are Euclidean, i.e. floor for a positive divisor)
func bigTicksOfTime(epochSec int64, a []string) *big.Int {
	sec, _ := new(big.Int).SetString(a[0], 10)
	nsec, _ := new(big.Int).SetString(a[1], 10)
	k := new(big.Int).Add(sec, big.NewInt(epochSec))
	k.Mul(k, big.NewInt(10000000))
	return k.Add(k, new(big.Int).Div(nsec, big.NewInt(100)))
}
func bigTimeOfTicks(epochSec int64, k *big.Int) (string, string) {
	q, m := new(big.Int).DivMod(k, big.NewInt(10000000), new(big.Int))
	q.Sub(q, big.NewInt(epochSec))
	m.Mul(m, big.NewInt(100))
	return q.String(), m.String()
}
func c15uuidGetOracle(a []string) string {
	s, n := bigTimeOfTicks(12219292800, new(big.Int).SetUint64(c15u64(a[0])))
	return "ok " + s + " " + n
}
func c15uuidSetOracle(a []string) string {
	k := bigTicksOfTime(12219292800, a)
	if !k.IsUint64() {
		return "*"
	}
	return "ok " + k.String()
}

// ---- generators ------------------------------------------------------------------------------

const (
	c15E       = int64(116444736000000000) // ticks 1601 -> 1970
	c15E1582   = int64(122192928000000000)
	c15Sec1601 = int64(-11644473600)
	c15Sec1582 = int64(-12219292800)
	c15SecMin  = int64(-9223372037) // 1677-09-21T00:12:43.145224192Z = MinInt64 ns
	c15NsMin   = int64(145224192)
	c15SecMax  = int64(9223372036) // 2262-04-11T23:47:16.854775807Z = MaxInt64 ns
	c15NsMax   = int64(854775807)
	c15Sec30828 = int64(910692730085) // tick 0x7FFFFFFFFFFFFFFF = 30828-09-14T02:48:05.4775807Z
	c15Ns30828  = int64(477580700)
)

func genC15(r *Rng, tier string) []Case {
	var cs []Case
	n := 1500
	if tier == "thorough" {
		n = 100000
	}
	both := func(op string, args []string, tag string) {
		cs = append(cs, Case{Op: op, MArgs: args, SArgs: args, Tag: tag})
	}
	i64s := func(xs ...int64) []string {
		out := make([]string, len(xs))
		for i, x := range xs {
			out[i] = strconv.FormatInt(x, 10)
		}
		return out
	}
	u64s := func(x uint64) []string { return []string{strconv.FormatUint(x, 10)} }
	str := func(s string) []string { return []string{hx([]byte(s))} }

	// ---- boundary times: epochs 1582/1601/1970, int64-nanosecond limits (1677/2262), tick limits
	secB := []int64{c15Sec1582, c15Sec1601, 0, c15SecMin, c15SecMax, c15Sec30828,
		13569465600,   // 2400-01-01
		-6857222400,   // 1752-09-14
		4102444800,    // 2100-01-01
		103072857660,  // 5236-03-31: UUID 60-bit timestamp limit (2^60 ticks since 1582)
		1833029933770, // 60056: uint64 tick limit since 1601
		253402300799,  // 9999-12-31T23:59:59Z
		-62135596800,  // 0001-01-01
	}
	nsB := []int64{0, 1, 99, 100, 101, 199, 999999899, 999999900, 999999999, c15NsMin, c15NsMax, c15Ns30828, c15Ns30828 + 100, c15Ns30828 - 100}
	timeOps := []string{"c15.ft.fromtime", "c15.ft.roundtrip", "c15.ldap.unix2ts", "c15.kc.tobin", "c15.kc.roundtrip",
		"c15.uuid1.settime", "c15.uuid2.settime", "c15.uuid1.roundtrip", "c15.uuid2.roundtrip"}
	for _, s := range secB {
		for _, d := range []int64{-2, -1, 0, 1, 2} {
			for _, ns := range nsB {
				for _, op := range timeOps {
					both(op, i64s(s+d, ns), "time.boundary")
				}
			}
			both("c15.ldap.ts.roundtrip", i64s(s+d), "time.boundary")
		}
	}
	// ---- boundary tick counts
	tickB := []uint64{0, 1, 2, 99, 100, 9999999, 10000000, 10000001,
		uint64(c15E), uint64(c15E1582), uint64(c15E) - 92233720368547758, uint64(c15E) + 92233720368547758, // 1677 / 2262 via 1601
		uint64(c15E1582) - 92233720368547758, uint64(c15E1582) + 92233720368547758, // 1677 / 2262 via 1582
		184467440737095516,                                                    // ticks*100 wraps uint64
		1 << 60, 1 << 62, 1 << 63, 0x7FFFFFFFFFFFFFFF, 0x8000000000000000, 0xFFFFFFFFFFFFFFFF,
		252139392000000000, 257887584000000000, 220000000000000000, 132537600000000000}
	for _, k := range tickB {
		for _, d := range []int64{-2, -1, 0, 1, 2} {
			v := k + uint64(d)
			both("c15.ft.gettime", []string{strconv.FormatUint(v&0xFFFFFFFF, 10), strconv.FormatUint(v>>32, 10)}, "ticks.boundary")
			both("c15.ft.toint64", []string{strconv.FormatUint(v&0xFFFFFFFF, 10), strconv.FormatUint(v>>32, 10)}, "ticks.boundary")
			both("c15.kc.new", u64s(v), "ticks.boundary")
			both("c15.kc.frombin", []string{hx(binary.LittleEndian.AppendUint64(nil, v))}, "ticks.boundary")
			both("c15.uuid1.gettime", u64s(v), "ticks.boundary")
			both("c15.uuid2.gettime", u64s(v), "ticks.boundary")
			both("c15.ldap.ts2unix", str(strconv.FormatInt(int64(v), 10)), "ticks.boundary")
			both("c15.ldap.ts2unix", str(strconv.FormatUint(v, 10)), "ticks.boundary")
			both("c15.ldap.dur2sec", str(strconv.FormatInt(int64(v), 10)), "ticks.boundary")
			both("c15.ldap.dur2sec", str(strconv.FormatInt(-int64(v), 10)), "ticks.boundary")
		}
	}
	// ---- durations in seconds: the int64 limits of value*1e7
	for _, s := range []int64{0, 1, 60, 3600, 86400, 922337203685, 922337203686, 1000000000000, 0x7FFFFFFFFFFFFFFF, 1 << 62, 1844674407371, 1844674407370} {
		for _, d := range []int64{-1, 0, 1} {
			for _, sg := range []int64{1, -1} {
				v := sg * (s + d)
				both("c15.ldap.sec2dur", i64s(v), "seconds.boundary")
				both("c15.ldap.dur.roundtrip", i64s(v), "seconds.boundary")
			}
		}
	}
	both("c15.ldap.sec2dur", i64s(-0x8000000000000000), "seconds.boundary")
	both("c15.ldap.dur.roundtrip", i64s(-0x8000000000000000), "seconds.boundary")
	// ---- decimal strings: sentinels and malformed input
	for _, s := range []string{"", "0", "-0", "+0", "1", "-1", "+1", "9223372036854775807", "-9223372036854775808", "9223372036854775808",
		"-9223372036854775809", "18446744073709551615", "18446744073709551616", "99999999999999999999999999", "-99999999999999999999999999",
		"000000000000000000000000132537600000000000", "+132537600000000000", "-864000000000", "864000000000", "+", "-", "--1", "+-1", "1-", "abc",
		"12a", " 12", "12 ", "1_000", "0x10", "1e7", "1.0", "\uff11\uff12", "\u0661", "116444736000000000", "116444735999999999", "116444736009999999",
		"116444736010000000", "-116444736000000000", "-10000000", "-9999999", "-10000001", "10000000", "9999999"} {
		both("c15.ldap.ts2unix", str(s), "string.special")
		both("c15.ldap.dur2sec", str(s), "string.special")
	}
	// ---- random: biased towards the interesting windows
	rt := r.Fork("c15")
	randSec := func() int64 {
		switch rt.Intn(8) {
		case 0:
			return secB[rt.Intn(len(secB))] + int64(rt.Intn(7)) - 3
		case 1: // 1601 .. 30828
			return c15Sec1601 + int64(rt.U64()%uint64(c15Sec30828-c15Sec1601+1))
		case 2: // 1677 .. 2262
			return c15SecMin + int64(rt.U64()%uint64(c15SecMax-c15SecMin+1))
		case 3: // 1582 .. 5236
			return c15Sec1582 + int64(rt.U64()%uint64(103072857660-c15Sec1582))
		case 4: // present day
			return 1500000000 + int64(rt.Intn(500000000))
		case 5: // before the epochs and far future: outside the stated range, the property is silent
			return int64(rt.U64()%4000000000000) - 2000000000000
		default:
			return c15Sec1601 + int64(rt.U64()%uint64(c15Sec30828-c15Sec1601+1))
		}
	}
	randNs := func() int64 {
		switch rt.Intn(4) {
		case 0:
			return nsB[rt.Intn(len(nsB))]
		case 1:
			return int64(rt.Intn(10000000)) * 100
		default:
			return int64(rt.Intn(1000000000))
		}
	}
	randTicks := func() uint64 {
		switch rt.Intn(6) {
		case 0:
			return tickB[rt.Intn(len(tickB))] + uint64(rt.Intn(7)) - 3
		case 1: // 1601 .. 30828
			return rt.U64() >> 1
		case 2: // around 1677..2262
			return uint64(c15E) - 92233720368547758 + rt.U64()%(2*92233720368547758)
		case 3:
			return rt.U64Biased()
		case 4: // whole seconds +- a few ticks
			return (rt.U64()>>1)/10000000*10000000 + uint64(rt.Intn(5)) - 2
		default:
			return rt.U64()
		}
	}
	for i := 0; i < n; i++ {
		s, ns := randSec(), randNs()
		both(timeOps[rt.Intn(len(timeOps))], i64s(s, ns), "time.random")
		if i%4 == 0 {
			both("c15.ldap.ts.roundtrip", i64s(s), "time.random")
		}
		k := randTicks()
		switch rt.Intn(8) {
		case 0:
			both("c15.ft.gettime", []string{strconv.FormatUint(k&0xFFFFFFFF, 10), strconv.FormatUint(k>>32, 10)}, "ticks.random")
		case 1:
			both("c15.ft.toint64", []string{strconv.FormatUint(uint64(rt.U32Biased()), 10), strconv.FormatUint(uint64(rt.U32Biased()), 10)}, "ticks.random")
		case 2:
			both("c15.kc.new", u64s(k), "ticks.random")
		case 3:
			raw := binary.LittleEndian.AppendUint64(nil, k)
			if rt.Intn(4) == 0 {
				raw = append(raw, rt.Bytes(1+rt.Intn(4))...) // trailing bytes are ignored
			}
			both("c15.kc.frombin", []string{hx(raw)}, "ticks.random")
		case 4:
			both("c15.uuid1.gettime", u64s(k&0x0FFFFFFFFFFFFFFF), "ticks.random")
			both("c15.uuid2.gettime", u64s(k), "ticks.random")
		case 5:
			both("c15.ldap.ts2unix", str(strconv.FormatInt(int64(k), 10)), "ticks.random")
		case 6:
			both("c15.ldap.dur2sec", str(strconv.FormatInt(-int64(k>>1), 10)), "ticks.random")
			both("c15.ldap.dur2sec", str(strconv.FormatInt(int64(k), 10)), "ticks.random")
		default:
			v := int64(rt.U64Biased())
			if rt.Bool() {
				v = int64(rt.U64()%2000000000000) - 1000000000000
			}
			both("c15.ldap.sec2dur", i64s(v), "seconds.random")
			both("c15.ldap.dur.roundtrip", i64s(v), "seconds.random")
		}
		if i%16 == 0 {
			s := mutate(rt, strconv.FormatInt(int64(k), 10), "0123456789+-_ax. ")
			both("c15.ldap.ts2unix", str(s), "string.mutated")
			both("c15.ldap.dur2sec", str(s), "string.mutated")
		}
	}
	return cs
}
