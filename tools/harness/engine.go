package main

import (
	"sync/atomic"
	"unsafe"
	"reflect"
	"runtime"
	"bufio"
	"bytes"
	"encoding/hex"
	"encoding/json"
	"fmt"
	"os"
	"os/exec"
	"runtime/debug"
	"sort"
	"strconv"
	"strings"
	"sync"
	"time"
)

// A Case is pure data: the op, the argument tokens of its model line (these are also the
// implementation's input), the argument tokens of its spec line, and a distribution tag.
type Case struct {
	Op    string   `json:"op"`
	MArgs []string `json:"margs"`           // nil: no model line
	SArgs []string `json:"sargs,omitempty"` // nil: no spec line
	Tag   string   `json:"tag"`
	NoM   bool     `json:"no_m,omitempty"` // implementation is compared with the spec only
	// NoPanic: "never panic, never hang" is part of the property for this case even though it has no
	// spec line: an implementation `panic` / `timeout` is reported as a property violation (kind "spec",
	// keyed panic@<innermost repo function>), besides the tie with the model (C07's campaign).
	NoPanic bool `json:"no_panic,omitempty"`
}

// ImplFunc runs the real library on the M arguments and renders the canonical output line.
type ImplFunc func(args []string) string

// OracleFunc: an implementation independent of /repo (stdlib, x/crypto, ...) evaluated on the S
// arguments; compared with the Lean spec to validate the spec itself.
type OracleFunc func(args []string) string

type OpDef struct {
	Name   string
	Impl   ImplFunc
	Oracle OracleFunc
	// ReadBack (optional): values the implementation took from the clock or from crypto/rand (or, for a
	// validator-style spec, its whole output), read back out of the implementation's output line.
	// The returned tokens are appended to the argument list of the model line (m) and of the spec
	// line (s) of the same case (DESIGN §1.3: `now`, `clientChallenge` as explicit arguments).
	ReadBack func(args []string, implOut string) (m, s []string)
	// Eval (optional): evaluates the residual expressions (DESIGN §2: `lit | cat | prim name args`) in
	// a model or spec output line with the Go standard library before it is compared.
	Eval func(out string) string
}

type Prop struct {
	ID  string
	Ops []OpDef
	Gen func(r *Rng, tier string) []Case
	// Extra runs checks that do not fit the line protocol (sockets, goroutines); optional.
	Extra func(ctx *Ctx)
	// LateOps (optional) is called once by main after every init has run: ops borrowed from other
	// properties' registrations (C07 runs the decoders of all of them).
	LateOps func() []OpDef
}

var props = map[string]*Prop{}

func register(p *Prop) { props[p.ID] = p }

// ---- helpers for ops -------------------------------------------------------------------

func hx(b []byte) string {
	if len(b) == 0 {
		return "-"
	}
	return hex.EncodeToString(b)
}
// exactCap: hand the implementation slices whose capacity equals their length (hex.DecodeString leaves
// spare capacity, inside which an out-of-range slice expression `b[lo:hi]` does not panic).  Set for a
// whole run (and inherited by the worker processes through the environment) by properties whose
// subject is exactly those bounds checks (C07).
var exactCap = os.Getenv("VERIF_EXACT_CAP") != ""

func setExactCap() {
	exactCap = true
	os.Setenv("VERIF_EXACT_CAP", "1")
}

func unhx(s string) []byte {
	if s == "-" {
		return []byte{}
	}
	b, err := hex.DecodeString(s)
	if err != nil {
		panic("harness: bad hex token " + s)
	}
	if exactCap {
		// C07 runs: capacity = length, so an out-of-range slice expression panics as on an exact buffer
		c := make([]byte, len(b))
		copy(c, b)
		return c[:len(c):len(c)]
	}
	// hand the bytes over as a sub-slice of a larger buffer whose spare capacity holds junk: code that
	// re-slices past len(), or appends into the caller's array and trusts what it finds there, shows up
	c := make([]byte, len(b)+24)
	copy(c, b)
	for i := len(b); i < len(c); i++ {
		c[i] = 0xA5
	}
	return c[:len(b)]
}
// hxOwn prints a byte slice the library returned and takes ownership of it (ownResult); the caller of hxOwn must have
// finished reading everything that may share memory with b.
func hxOwn(b []byte) string {
	h := hx(b)
	ownResult(b, h)
	return h
}

func okHex(b []byte) string {
	h := hx(b)
	ownResult(b, h)
	return "ok " + h
}

// ownResult: what the library returned now belongs to the caller.  Three results in four are written over at once (a
// caller that wipes a hash or reuses a buffer): if the library keeps a reference to what it handed out (a package-level
// constant returned by reference, a memoised result), a later call answers with the junk.  The fourth is held unchanged
// and watched (holdOutput): there the library must not write.
var ownCounter atomic.Uint64

func ownResult(b []byte, hexv string) {
	if len(b) == 0 {
		return
	}
	if ownCounter.Add(1)%4 == 0 {
		holdOutput(b, hexv)
		return
	}
	for i := range b {
		b[i] ^= 0x5A
	}
}

// ---- results stay what they were ----------------------------------------------------------------------------
//
// Byte slices the library returned (everything printed through okHex) are kept — the slices themselves, not copies —
// while later ops run; when one of them no longer reads as it did when it was returned, a later call has written into
// memory the library had already handed out (a pooled or cached buffer).  The case is found again by its output.
type heldOut struct {
	b    []byte
	sum  uint64
	hexv string
}

var (
	heldMu      sync.Mutex
	held        [16]heldOut
	heldNext    int
	aliasEvents []heldOut // hexv = what was returned; b = what the same memory holds now
)

func fnv64(b []byte) uint64 {
	h := uint64(14695981039346656037)
	for _, c := range b {
		h = (h ^ uint64(c)) * 1099511628211
	}
	return h
}

func sweepHeld() {
	for i := range held {
		if held[i].b != nil && fnv64(held[i].b) != held[i].sum {
			aliasEvents = append(aliasEvents, heldOut{b: append([]byte{}, held[i].b...), hexv: held[i].hexv})
			held[i] = heldOut{}
		}
	}
}

func holdOutput(b []byte, hexv string) {
	if len(b) < 8 || len(b) > 1<<16 {
		return
	}
	heldMu.Lock()
	defer heldMu.Unlock()
	sweepHeld()
	held[heldNext%len(held)] = heldOut{b: b, sum: fnv64(b), hexv: hexv}
	heldNext++
}
// A returned string is held the same way, through a read-only view of its bytes: Go's strings are immutable only as
// long as nobody builds them over a buffer that is written again (unsafe.String over pooled memory).
func okStr(s string) string {
	h := hx([]byte(s))
	if len(s) >= 8 {
		holdOutput(unsafe.Slice(unsafe.StringData(s), len(s)), h)
	}
	return "ok " + h
}
func hxList(bs [][]byte, sep string) string {
	if len(bs) == 0 {
		return "."
	}
	parts := make([]string, len(bs))
	for i, b := range bs {
		parts[i] = hx(b)
	}
	return strings.Join(parts, sep)
}

func atoiU(s string, bits int) uint64 {
	v, err := strconv.ParseUint(s, 10, bits)
	if err != nil {
		panic("harness: bad integer token " + s)
	}
	return v
}

// ---- running the implementation ---------------------------------------------------------

type implResult struct {
	out   string
	stack string
}

func runImpl(f ImplFunc, args []string, timeout time.Duration) implResult {
	ch := make(chan implResult, 1)
	go func() {
		defer func() {
			if r := recover(); r != nil {
				// a failure of the harness itself (bad token, argument-format assumption) is never a
				// verdict about the library: it is reported as a machinery error
				if s, ok := r.(string); ok && strings.HasPrefix(s, "harness:") {
					ch <- implResult{out: "harness-error", stack: s}
					return
				}
				ch <- implResult{out: "panic", stack: fmt.Sprintf("%v\n%s", r, debug.Stack())}
			}
		}()
		ch <- implResult{out: f(args)}
	}()
	select {
	case r := <-ch:
		return r
	case <-time.After(timeout):
		return implResult{out: "timeout"}
	}
}

// innermost /repo function on a recovered stack (key of totality findings)
func innermostRepoFunc(stack string) string {
	lines := strings.Split(stack, "\n")
	for i := 0; i+1 < len(lines); i++ {
		if strings.Contains(lines[i+1], "/repo/") && strings.HasPrefix(lines[i], "github.com/TheManticoreProject/Manticore/") {
			fn := lines[i]
			if k := strings.LastIndex(fn, "("); k > 0 {
				fn = fn[:k]
			}
			fn = strings.TrimPrefix(fn, "github.com/TheManticoreProject/Manticore/")
			return fn
		}
	}
	return "?"
}

// ---- running the Lean driver -------------------------------------------------------------

func runDriver(driver string, lines []string, par int) ([]string, error) {
	if len(lines) == 0 {
		return nil, nil
	}
	if par < 1 {
		par = 1
	}
	if par > len(lines) {
		par = len(lines)
	}
	out := make([]string, len(lines))
	chunk := (len(lines) + par - 1) / par
	var wg sync.WaitGroup
	errs := make([]error, par)
	for p := 0; p < par; p++ {
		lo, hi := p*chunk, (p+1)*chunk
		if lo >= len(lines) {
			break
		}
		if hi > len(lines) {
			hi = len(lines)
		}
		wg.Add(1)
		go func(p, lo, hi int) {
			defer wg.Done()
			cmd := exec.Command(driver)
			cmd.Stdin = strings.NewReader(strings.Join(lines[lo:hi], "\n") + "\n")
			var ob, eb bytes.Buffer
			cmd.Stdout = &ob
			cmd.Stderr = &eb
			if err := cmd.Run(); err != nil {
				errs[p] = fmt.Errorf("driver: %v: %s", err, eb.String())
				return
			}
			sc := bufio.NewScanner(&ob)
			sc.Buffer(make([]byte, 1<<20), 1<<28)
			i := lo
			for sc.Scan() {
				if i >= hi {
					errs[p] = fmt.Errorf("driver printed too many lines")
					return
				}
				out[i] = sc.Text()
				i++
			}
			if i != hi {
				errs[p] = fmt.Errorf("driver printed %d lines for %d ops (stderr: %s)", i-lo, hi-lo, eb.String())
			}
		}(p, lo, hi)
	}
	wg.Wait()
	for _, e := range errs {
		if e != nil {
			return nil, e
		}
	}
	return out, nil
}

// ---- the comparison ----------------------------------------------------------------------

type Mismatch struct {
	Kind     string `json:"kind"` // "spec" (implementation violates the property), "tie" (model != implementation), "oracle" (spec != independent oracle)
	Case     Case   `json:"case"`
	Impl     string `json:"impl"`
	Model    string `json:"model,omitempty"`
	Spec     string `json:"spec,omitempty"`
	Oracle   string `json:"oracle,omitempty"`
	Key      string `json:"key,omitempty"`   // known-finding key accepted by the Lean predicate (or panic site)
	Stack    string `json:"stack,omitempty"` // Go panic stack
	PanicFn  string `json:"panic_fn,omitempty"`
	Size     int    `json:"size"`
}

type Result struct {
	Property    string         `json:"property"`
	Tier        string         `json:"tier"`
	Seed        uint64         `json:"seed"`
	Evaluations int            `json:"evaluations"`
	Distinct    int            `json:"distinct_nontrivial"`
	ByTag       map[string]int `json:"by_tag"`
	ByOutcome   map[string]int `json:"by_impl_outcome"`
	ModelLines  int            `json:"model_lines"`
	SpecLines   int            `json:"spec_lines"`
	SpecSilent  int            `json:"spec_silent"`
	OracleLines int            `json:"oracle_lines"`
	Samples     []any          `json:"samples"`
	Mismatches  []Mismatch     `json:"mismatches"`
	Extra       map[string]any `json:"extra,omitempty"`
	Errors      []string       `json:"errors,omitempty"`
	WallS       float64        `json:"wall_s"`
}

type Ctx struct {
	Prop   *Prop
	Tier   string
	Seed   uint64
	Rng    *Rng
	Res    *Result
	Driver string
	mu     sync.Mutex
}

func (c *Ctx) AddMismatch(m Mismatch) {
	c.mu.Lock()
	defer c.mu.Unlock()
	c.Res.Mismatches = append(c.Res.Mismatches, m)
}
func (c *Ctx) SetExtra(k string, v any) {
	c.mu.Lock()
	defer c.mu.Unlock()
	if c.Res.Extra == nil {
		c.Res.Extra = map[string]any{}
	}
	c.Res.Extra[k] = v
}

func caseSize(c Case) int {
	n := 0
	for _, a := range c.MArgs {
		n += len(a)
	}
	for _, a := range c.SArgs {
		n += len(a)
	}
	return n
}

func splitKey(s string) (string, string) {
	// spec output may end with "\t#<key>": the Lean known-finding predicate accepted this input
	if i := strings.Index(s, " #"); i >= 0 {
		return s[:i], s[i+2:]
	}
	return s, ""
}

func runCases(ctx *Ctx, cases []Case, par int) {
	p := ctx.Prop
	ops := map[string]OpDef{}
	for _, o := range p.Ops {
		ops[o.Name] = o
	}
	res := ctx.Res
	// 1. implementation
	impl := make([]implResult, len(cases))
	var wg sync.WaitGroup
	sem := make(chan struct{}, par)
	for i := range cases {
		od, ok := ops[cases[i].Op]
		if !ok {
			res.Errors = append(res.Errors, "unknown op "+cases[i].Op)
			continue
		}
		wg.Add(1)
		sem <- struct{}{}
		go func(i int, od OpDef) {
			defer wg.Done()
			defer func() { <-sem }()
			impl[i] = runImpl(od.Impl, cases[i].MArgs, 20*time.Second)
		}(i, od)
	}
	wg.Wait()
	heldMu.Lock()
	sweepHeld()
	for _, ev := range aliasEvents {
		c := Case{Op: "(unknown)", Tag: "aliasing"}
		for i := range cases {
			if impl[i].out == "ok "+ev.hexv || strings.HasPrefix(impl[i].out, "ok "+ev.hexv+" ") {
				c = cases[i]
				break
			}
		}
		ctx.AddMismatch(Mismatch{Kind: "spec", Case: c, Spec: "ok " + truncS(ev.hexv), Size: caseSize(c),
			Impl: "the bytes returned by this call were overwritten by a later call; the same memory now reads " + truncS(hx(ev.b))})
	}
	aliasEvents = nil
	heldMu.Unlock()
	// ops that ran in worker processes report what they allocated themselves (zz_worker.go)
	workerMu.Lock()
	for _, ev := range workerAllocEvents {
		for i := range cases {
			if cases[i].NoPanic && cases[i].Op == ev.op && strings.Join(cases[i].MArgs, " ") == ev.args {
				c := cases[i]
				ctx.AddMismatch(Mismatch{Kind: "spec", Case: c, Spec: "*", Size: caseSize(c),
					Impl: fmt.Sprintf("allocated %d bytes for %d bytes of input (allowance %d; measured in the worker process)", ev.bytes, caseInputBytes(c), allocAllowance(caseInputBytes(c)))})
				break
			}
		}
	}
	workerAllocEvents = nil
	workerMu.Unlock()
	allocAudit(ctx, cases, ops, impl)
	orderCheck(ctx, cases, ops, impl)
	// 2. driver lines
	var lines []string
	type ref struct{ idx int; kind byte }
	var refs []ref
	for i, c := range cases {
		var mx, sx []string
		if od, ok := ops[c.Op]; ok && od.ReadBack != nil {
			mx, sx = od.ReadBack(c.MArgs, impl[i].out)
		}
		if c.MArgs != nil && !c.NoM {
			lines = append(lines, "M "+c.Op+" "+strings.Join(append(append([]string{}, c.MArgs...), mx...), " "))
			refs = append(refs, ref{i, 'M'})
		}
		if c.SArgs != nil {
			lines = append(lines, "S "+c.Op+" "+strings.Join(append(append([]string{}, c.SArgs...), sx...), " "))
			refs = append(refs, ref{i, 'S'})
		}
	}
	outs, err := runDriver(ctx.Driver, lines, par)
	if err != nil {
		res.Errors = append(res.Errors, err.Error())
		return
	}
	model := make([]string, len(cases))
	spec := make([]string, len(cases))
	for k, r := range refs {
		o := resolveResidual(outs[k]) // `res <expr>`: evaluate stdlib primitives left residual by Lean (residual.go)
		if od, ok := ops[cases[r.idx].Op]; ok && od.Eval != nil {
			body, key := splitKey(o)
			o = od.Eval(body)
			if key != "" {
				o += " #" + key
			}
		}
		if r.kind == 'M' {
			model[r.idx] = o
			res.ModelLines++
		} else {
			spec[r.idx] = o
			res.SpecLines++
		}
	}
	// 3. compare
	seen := map[string]bool{}
	for i, c := range cases {
		res.Evaluations++
		res.ByTag[c.Tag]++
		io := impl[i].out
		cls := io
		if j := strings.Index(cls, " "); j > 0 {
			cls = cls[:j]
		}
		res.ByOutcome[c.Op+":"+cls]++
		line := c.Op + " " + strings.Join(c.MArgs, " ")
		if !seen[line] {
			seen[line] = true
			if io != "err" && io != "ok -" && io != "ok" {
				res.Distinct++
			}
		}
		if len(res.Samples) < 12 && (i%(len(cases)/12+1) == 0) {
			res.Samples = append(res.Samples, map[string]any{"op": c.Op, "margs": trunc(c.MArgs), "tag": c.Tag, "impl": truncS(io), "model": truncS(model[i]), "spec": truncS(spec[i])})
		}
		if io == "harness-error" || strings.HasPrefix(io, "infra-error") && c.NoPanic {
			res.Errors = append(res.Errors, fmt.Sprintf("harness failure on case %s %v: %s", c.Op, trunc(c.MArgs), truncS(impl[i].stack+io)))
			continue
		}
		if model[i] == "bad-op" || spec[i] == "bad-op" || spec[i] == "bad-format" {
			res.Errors = append(res.Errors, fmt.Sprintf("driver rejected a line of case %s %v / %v: model=%q spec=%q", c.Op, trunc(c.MArgs), trunc(c.SArgs), model[i], spec[i]))
			continue
		}
		if c.MArgs != nil && !c.NoM && model[i] != io {
			ctx.AddMismatch(Mismatch{Kind: "tie", Case: c, Impl: io, Model: model[i], Spec: spec[i], Stack: impl[i].stack, Size: caseSize(c)})
		}
		if c.NoPanic && c.SArgs == nil && (io == "panic" || io == "timeout") {
			ctx.AddMismatch(Mismatch{Kind: "spec", Case: c, Impl: io, Model: model[i], Spec: "*", Stack: impl[i].stack, PanicFn: innermostRepoFunc(impl[i].stack), Size: caseSize(c)})
		}
		if c.SArgs != nil {
			so, key := splitKey(spec[i])
			if so == "*" {
				res.SpecSilent++
				// the property is silent on the value, but "panic"/"timeout" is never acceptable
				if io == "panic" || io == "timeout" {
					ctx.AddMismatch(Mismatch{Kind: "spec", Case: c, Impl: io, Model: model[i], Spec: spec[i], Key: key, Stack: impl[i].stack, PanicFn: innermostRepoFunc(impl[i].stack), Size: caseSize(c)})
				}
			} else if so != io {
				ctx.AddMismatch(Mismatch{Kind: "spec", Case: c, Impl: io, Model: model[i], Spec: so, Key: key, Stack: impl[i].stack, PanicFn: innermostRepoFunc(impl[i].stack), Size: caseSize(c)})
			}
			if od := ops[c.Op]; od.Oracle != nil && so != "*" {
				r := runImpl(ImplFunc(od.Oracle), c.SArgs, 20*time.Second)
				res.OracleLines++
				if r.out != so && r.out != "*" {
					ctx.AddMismatch(Mismatch{Kind: "oracle", Case: c, Impl: io, Spec: so, Oracle: r.out, Size: caseSize(c)})
				}
			}
		}
	}
}

// ---- order independence ----------------------------------------------------------------------------------------
//
// After the parallel pass every deterministic case is run once more, on one goroutine and in REVERSE order: what an op
// answers must not depend on which other calls came before it (result caches with ambiguous keys, pooled buffers that keep
// bytes of an earlier call, package-level instances).  Excluded: ops that read the clock or a random source (those have a
// ReadBack), properties whose ops talk over sockets or record schedules (noOrderCheck), panics and time-outs.
var noOrderCheck = map[string]bool{"C11": true, "C17": true, "C18": true}

func orderCheck(ctx *Ctx, cases []Case, ops map[string]OpDef, impl []implResult) {
	if noOrderCheck[ctx.Prop.ID] {
		return
	}
	checked, differ := 0, 0
	for i := len(cases) - 1; i >= 0; i-- {
		od, ok := ops[cases[i].Op]
		if !ok || od.ReadBack != nil || impl[i].out == "panic" || impl[i].out == "timeout" || impl[i].out == "harness-error" {
			continue
		}
		if strings.HasPrefix(cases[i].Op, "c11.") || strings.HasPrefix(cases[i].Op, "c17.") || strings.HasPrefix(cases[i].Op, "c18.") {
			continue
		}
		r := runImpl(od.Impl, cases[i].MArgs, 20*time.Second)
		checked++
		if r.out != impl[i].out && differ < 50 {
			differ++
			c := cases[i]
			ctx.AddMismatch(Mismatch{Kind: "spec", Case: c, Spec: truncS(impl[i].out), Size: caseSize(c), Stack: r.stack,
				Impl: "the same call answered differently when the cases ran in reverse order: " + truncS(r.out) + "   (first pass: " + truncS(impl[i].out) + ")"})
		}
	}
	if ctx.Res.Extra == nil {
		ctx.Res.Extra = map[string]any{}
	}
	ctx.Res.Extra["order_check"] = map[string]any{"cases_rerun_in_reverse_order": checked, "answers_that_differed": differ}
}

// ---- allocation audit ("without allocating memory out of proportion to the input") ---------------------------
//
// Run after the parallel pass, on one goroutine with nothing else going on, over the cases that carry NoPanic (the
// decoding campaign): the bytes allocated while an op runs (runtime.MemStats.TotalAlloc: cumulative, so garbage collection
// does not hide anything) must stay within allocBase + allocPerByte x (bytes of input).  The harness's own work per op
// (hex decoding, formatting the result) is linear in the input with a small factor and is inside the allowance.
// Measured per chunk; a chunk over its summed allowance is bisected down to the single case.
const (
	allocBase    = 256 << 10
	allocPerByte = 1024
)

// 1 KiB per input byte absorbs fixed per-field costs on short inputs; on long inputs (above 16 KiB) the same decoders
// stay below 16 bytes per input byte (evidence: alloc_bytes_per_input_byte_on_long_inputs), so 64 per byte is what
// "in proportion" means there — a result built by repeated concatenation is far outside it
func allocAllowance(n uint64) uint64 {
	if n > 16<<10 {
		return allocBase + 64*n
	}
	return allocBase + allocPerByte*n
}

func caseInputBytes(c Case) uint64 {
	n := 0
	for _, a := range c.MArgs {
		n += len(a)
	}
	return uint64(n/2 + 1)
}

func allocAudit(ctx *Ctx, cases []Case, ops map[string]OpDef, impl []implResult) {
	var ids []int
	for i, c := range cases {
		if c.NoPanic && impl[i].out != "panic" && impl[i].out != "timeout" && impl[i].out != "harness-error" {
			if _, ok := ops[c.Op]; ok {
				ids = append(ids, i)
			}
		}
	}
	if len(ids) == 0 {
		return
	}
	var ms runtime.MemStats
	measure := func(sub []int) (uint64, uint64) {
		var allow uint64
		runtime.ReadMemStats(&ms)
		before := ms.TotalAlloc
		for _, i := range sub {
			allow += allocAllowance(caseInputBytes(cases[i]))
			runImpl(ops[cases[i].Op].Impl, cases[i].MArgs, 20*time.Second)
		}
		runtime.ReadMemStats(&ms)
		return ms.TotalAlloc - before, allow
	}
	audited, worst := 0, 0.0
	var hunt func(sub []int)
	hunt = func(sub []int) {
		got, allow := measure(sub)
		if r := float64(got) / float64(allow); r > worst {
			worst = r
		}
		if got <= allow {
			return
		}
		if len(sub) == 1 {
			c := cases[sub[0]]
			ctx.AddMismatch(Mismatch{Kind: "spec", Case: c, Spec: "*", Size: caseSize(c),
				Impl: fmt.Sprintf("allocated %d bytes for %d bytes of input (allowance %d)", got, caseInputBytes(c), allocAllowance(caseInputBytes(c)))})
			return
		}
		hunt(sub[:len(sub)/2])
		hunt(sub[len(sub)/2:])
	}
	// long inputs are judged one by one (the slack of 63 short neighbours would hide them), the rest in chunks
	var short []int
	allIDs := ids
	for _, i := range ids {
		if caseInputBytes(cases[i]) > 16<<10 {
			hunt([]int{i})
			audited++
		} else {
			short = append(short, i)
		}
	}
	ids = short
	const chunk = 64
	for lo := 0; lo < len(ids); lo += chunk {
		hi := lo + chunk
		if hi > len(ids) {
			hi = len(ids)
		}
		hunt(ids[lo:hi])
		audited += hi - lo
	}
	// long inputs one by one: bytes allocated per input byte, per op (what "linear" looks like on this code)
	long := map[string]float64{}
	for _, i := range allIDs {
		if strings.HasSuffix(cases[i].Tag, "text.long") {
			got, _ := measure([]int{i})
			if r := float64(got) / float64(caseInputBytes(cases[i])); r > long[cases[i].Op] {
				long[cases[i].Op] = r
			}
		}
	}
	if ctx.Res.Extra == nil {
		ctx.Res.Extra = map[string]any{}
	}
	if len(long) > 0 {
		ctx.Res.Extra["alloc_bytes_per_input_byte_on_long_inputs"] = long
	}
	ctx.Res.Extra["alloc_audit"] = map[string]any{"cases": audited, "allowance": fmt.Sprintf("%d + %d x input bytes (inputs above 16 KiB: %d + 64 x input bytes)", allocBase, allocPerByte, allocBase), "largest_used_fraction_of_a_chunks_allowance": worst}
}

// scribble overwrites everything reachable from a value an earlier call handed out (fields, slice elements, map
// entries) with junk: a later call must not be affected by what a caller does to an earlier result (memoised results
// returned by pointer, shared backing arrays).
func scribble(v any) {
	defer func() { recover() }()
	scribbleValue(reflect.ValueOf(v), 0)
}

func scribbleValue(v reflect.Value, depth int) {
	if depth > 6 || !v.IsValid() {
		return
	}
	switch v.Kind() {
	case reflect.Ptr, reflect.Interface:
		if !v.IsNil() {
			scribbleValue(v.Elem(), depth+1)
		}
	case reflect.Struct:
		for i := 0; i < v.NumField(); i++ {
			if f := v.Field(i); f.CanSet() || f.Kind() == reflect.Ptr || f.Kind() == reflect.Slice || f.Kind() == reflect.Map {
				scribbleValue(f, depth+1)
			}
		}
	case reflect.Slice, reflect.Array:
		for i := 0; i < v.Len() && i < 4096; i++ {
			scribbleValue(v.Index(i), depth+1)
		}
	case reflect.Map:
		for _, k := range v.MapKeys() {
			e := v.MapIndex(k)
			if e.Kind() == reflect.Slice || e.Kind() == reflect.Ptr {
				scribbleValue(e, depth+1)
			}
		}
		if v.Len() > 0 && v.Type().Key().Kind() == reflect.Uint16 && v.Type().Elem().Kind() == reflect.Slice {
			v.SetMapIndex(reflect.ValueOf(uint16(0x7B7B)), reflect.ValueOf([]byte("scribble")))
		}
	case reflect.Uint8, reflect.Uint16, reflect.Uint32, reflect.Uint64, reflect.Uint:
		if v.CanSet() {
			v.SetUint(v.Uint() ^ 0xA5A5A5A5A5A5A5A5)
		}
	case reflect.Int8, reflect.Int16, reflect.Int32, reflect.Int64, reflect.Int:
		if v.CanSet() {
			v.SetInt(v.Int() ^ 0x5A5A5A5A)
		}
	case reflect.String:
		if v.CanSet() {
			v.SetString("scribble-" + v.String())
		}
	case reflect.Bool:
		if v.CanSet() {
			v.SetBool(!v.Bool())
		}
	}
}

func trunc(a []string) []string {
	out := make([]string, len(a))
	for i, s := range a {
		out[i] = truncS(s)
	}
	return out
}
func truncS(s string) string {
	if len(s) > 160 {
		return s[:150] + fmt.Sprintf("…(%d chars)", len(s))
	}
	return s
}

func writeJSON(path string, v any) {
	b, _ := json.MarshalIndent(v, "", " ")
	if err := os.WriteFile(path, b, 0o644); err != nil {
		fmt.Fprintln(os.Stderr, "harness: cannot write", path, err)
		os.Exit(2)
	}
}

func sortMismatches(ms []Mismatch) {
	sort.SliceStable(ms, func(i, j int) bool { return ms[i].Size < ms[j].Size })
}
