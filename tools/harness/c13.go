package main

import (
	"encoding/binary"
	"fmt"
	"strconv"
	"strings"

	muuid "github.com/TheManticoreProject/Manticore/crypto/uuid"
	"github.com/TheManticoreProject/Manticore/crypto/uuid/uuid_v1"
	"github.com/TheManticoreProject/Manticore/crypto/uuid/uuid_v2"
	"github.com/TheManticoreProject/Manticore/crypto/uuid/uuid_v8"
	"github.com/TheManticoreProject/Manticore/windows/guid"
	"github.com/TheManticoreProject/Manticore/windows/ms_dtyp/common/data_structures"
	guuid "github.com/google/uuid"
)

// C13 — UUID / GUID text and binary forms.  Impl functions call the real library; the Oracle
// functions are independent of /repo (github.com/google/uuid, encoding/binary, fmt).

func init() {
	register(&Prop{
		ID: "C13",
		Ops: []OpDef{
			{Name: "c13.uuid.unmarshal", Impl: c13UUIDUnmarshal, Oracle: c13OraUUIDBytes},
			{Name: "c13.uuid.marshal", Impl: c13UUIDMarshal},
			{Name: "c13.uuid.parse", Impl: c13UUIDParse, Oracle: c13OraUUIDText},
			{Name: "c13.v1.unmarshal", Impl: c13V1Unmarshal, Oracle: c13OraV1Bytes},
			{Name: "c13.v1.clockseq", Impl: c13V1ClockSeq, Oracle: c13OraV1ClockSeq},
			{Name: "c13.v1.marshal", Impl: c13V1Marshal, Oracle: c13OraV1Marshal},
			{Name: "c13.v1.parse", Impl: c13V1Parse, Oracle: c13OraV1Text},
			{Name: "c13.v2.unmarshal", Impl: c13V2Unmarshal},
			{Name: "c13.v2.marshal", Impl: c13V2Marshal},
			{Name: "c13.v2.parse", Impl: c13V2Parse},
			{Name: "c13.v8.unmarshal", Impl: c13V8Unmarshal},
			{Name: "c13.v8.marshal", Impl: c13V8Marshal},
			{Name: "c13.v8.parse", Impl: c13V8Parse},
			{Name: "c13.guid.fromraw", Impl: c13GuidFromRaw, Oracle: c13OraGuidFromRaw},
			{Name: "c13.guid.tobytes", Impl: c13GuidToBytes, Oracle: c13OraGuidToBytes},
			{Name: "c13.guid.format", Impl: c13GuidFormat, Oracle: c13OraGuidFormat},
			{Name: "c13.guid.parse", Impl: c13GuidParse, Oracle: c13OraGuidParse},
			{Name: "c13.guid.fromstring", Impl: c13GuidFromString, Oracle: c13OraGuidFromString},
		},
		Gen: genC13,
	})
}

func okL(xs ...string) string { return "ok " + strings.Join(xs, " ") }
func hxs(s string) string     { return hx([]byte(s)) }
func txt(a string) string     { return string(unhx(a)) }
func u64s(x uint64) string    { return strconv.FormatUint(x, 10) }
func argU(a string, bits int) uint64 {
	v, err := strconv.ParseUint(a, 10, bits)
	if err != nil {
		panic("harness: bad number " + a)
	}
	return v
}

// ---- implementation side ----------------------------------------------------------------------

// Half of the decoding cases (chosen by the arguments, so a case always runs the same way) hand the decoder a receiver
// that has already decoded something else: the result must depend on the input alone.
func c13Used(a []string) bool {
	h := uint32(2166136261)
	for _, s := range a {
		for i := 0; i < len(s); i++ {
			h = (h ^ uint32(s[i])) * 16777619
		}
	}
	return h&1 == 0
}

var c13Earlier = []byte{0xFE, 0xDC, 0xBA, 0x98, 0x76, 0x54, 0x1F, 0xED, 0xBC, 0xBA, 0x98, 0x76, 0x54, 0x32, 0x1F, 0xFF}

const c13EarlierText = "fedcba98-7654-1fed-bcba-98765432ffff"


// text and binary form of one object must agree at any moment: String() is asked BEFORE Marshal() on an object that
// (in the used-receiver half of the cases) held another value first and was then given its fields
func c13Text(m []byte) string {
	h := hx(m)
	if len(m) != 16 {
		return h
	}
	return h[0:8] + "-" + h[8:12] + "-" + h[12:16] + "-" + h[16:20] + "-" + h[20:32]
}

func c13Agree(text string, m []byte) bool { return strings.ToLower(text) == c13Text(m) }

func c13UUIDUnmarshal(a []string) string {
	var u muuid.UUID
	if c13Used(a) {
		u.Unmarshal(c13Earlier)
	}
	if _, err := u.Unmarshal(unhx(a[0])); err != nil {
		return "err"
	}
	m, err := u.Marshal()
	if err != nil {
		return "err"
	}
	return okL(u64s(uint64(u.Version)), u64s(uint64(u.Variant)), hx(u.Data[:]), hx(m), hxs(u.String()))
}

func c13UUIDMarshal(a []string) string {
	var u muuid.UUID
	u.Version = uint8(argU(a[0], 8))
	u.Variant = uint8(argU(a[1], 8))
	copy(u.Data[:], unhx(a[2]))
	text := u.String()
	m, err := u.Marshal()
	if err != nil {
		return "err"
	}
	if !c13Agree(text, m) {
		return "ok text-and-binary-forms-disagree " + hxs(text) + " " + hx(m)
	}
	var w muuid.UUID
	if c13Used(a) {
		w.FromString("fedcba98-7654-1fed-bcba-98765432ffff")
	}
	if _, err := w.Unmarshal(m); err != nil {
		return "err"
	}
	return okL(hx(m), u64s(uint64(w.Version)), u64s(uint64(w.Variant)), hx(w.Data[:]))
}

func c13UUIDParse(a []string) string {
	var u muuid.UUID
	if c13Used(a) {
		u.FromString(c13EarlierText)
	}
	if err := u.FromString(txt(a[0])); err != nil {
		return "err"
	}
	return okL(u64s(uint64(u.Version)), u64s(uint64(u.Variant)), hx(u.Data[:]), hxs(u.String()))
}

func v1Show(u *uuid_v1.UUIDv1) []string {
	return []string{u64s(uint64(u.UUID.Variant)), u64s(u.Time), hx(u.GetNodeID())}
}

func c13V1Unmarshal(a []string) string {
	var u uuid_v1.UUIDv1
	if c13Used(a) {
		u.Unmarshal(c13Earlier)
	}
	if _, err := u.Unmarshal(unhx(a[0])); err != nil {
		return "err"
	}
	f := v1Show(&u)
	m, err := u.Marshal()
	if err != nil {
		return "err"
	}
	return okL(append(f, hx(m), hxs(u.String()))...)
}

func c13V1ClockSeq(a []string) string {
	var u uuid_v1.UUIDv1
	if c13Used(a) {
		u.FromBytes(c13Earlier)
	}
	if err := u.FromBytes(unhx(a[0])); err != nil {
		return "err"
	}
	return okL(u64s(uint64(u.GetClockSequence())))
}

func c13V1Marshal(a []string) string {
	var u uuid_v1.UUIDv1
	if c13Used(a) {
		u.FromString("fedcba98-7654-1fed-bcba-98765432ffff")
	}
	u.UUID.Variant = uint8(argU(a[0], 8))
	u.Time = argU(a[1], 64)
	u.SetClockSequence(uint16(argU(a[2], 16)))
	if err := u.SetNodeID(unhx(a[3])); err != nil {
		return "err"
	}
	text := u.String()
	m, err := u.Marshal()
	if err != nil {
		return "err"
	}
	if !c13Agree(text, m) {
		return "ok text-and-binary-forms-disagree " + hxs(text) + " " + hx(m)
	}
	var w uuid_v1.UUIDv1
	if c13Used(a) {
		w.FromString("fedcba98-7654-1fed-bcba-98765432ffff")
	}
	if _, err := w.Unmarshal(m); err != nil {
		return "err"
	}
	return okL(hx(m), u64s(uint64(w.UUID.Variant)), u64s(w.Time), u64s(uint64(w.GetClockSequence())), hx(w.GetNodeID()))
}

func c13V1Parse(a []string) string {
	var u uuid_v1.UUIDv1
	if c13Used(a) {
		u.FromString(c13EarlierText)
	}
	if err := u.FromString(txt(a[0])); err != nil {
		return "err"
	}
	return okL(append(v1Show(&u), hxs(u.String()))...)
}

func v2Show(u *uuid_v2.UUIDv2) []string {
	return []string{u64s(uint64(u.UUID.Variant)), u64s(uint64(u.GetLocalDomainNumber())), u64s(u.Time),
		u64s(uint64(u.GetClock())), u64s(uint64(u.GetLocalDomain())), hx(u.GetNodeID())}
}

func c13V2Unmarshal(a []string) string {
	var u uuid_v2.UUIDv2
	if c13Used(a) {
		u.Unmarshal(append([]byte{}, 0xFE, 0xDC, 0xBA, 0x98, 0x76, 0x54, 0x2F, 0xED, 0xBC, 0xBA, 0x98, 0x76, 0x54, 0x32, 0x1F, 0xFF))
	}
	if _, err := u.Unmarshal(unhx(a[0])); err != nil {
		return "err"
	}
	f := v2Show(&u)
	m, err := u.Marshal()
	if err != nil {
		return "err"
	}
	return okL(append(f, hx(m), hxs(u.String()))...)
}

func c13V2Marshal(a []string) string {
	var u uuid_v2.UUIDv2
	if c13Used(a) {
		u.FromString("fedcba98-7654-2fed-bcba-98765432ffff")
	}
	u.UUID.Variant = uint8(argU(a[0], 8))
	u.SetLocalDomainNumber(uint32(argU(a[1], 32)))
	u.Time = argU(a[2], 64)
	u.SetClock(uint8(argU(a[3], 8)))
	u.SetLocalDomain(uint8(argU(a[4], 8)))
	if err := u.SetNodeID(unhx(a[5])); err != nil {
		return "err"
	}
	text := u.String()
	m, err := u.Marshal()
	if err != nil {
		return "err"
	}
	if !c13Agree(text, m) {
		return "ok text-and-binary-forms-disagree " + hxs(text) + " " + hx(m)
	}
	var w uuid_v2.UUIDv2
	if c13Used(a) {
		w.FromString("fedcba98-7654-2fed-bcba-98765432ffff")
	}
	if _, err := w.Unmarshal(m); err != nil {
		return "err"
	}
	return okL(append([]string{hx(m)}, v2Show(&w)...)...)
}

func c13V2Parse(a []string) string {
	var u uuid_v2.UUIDv2
	if c13Used(a) {
		u.FromString("fedcba98-7654-2fed-bcba-98765432ffff")
	}
	if err := u.FromString(txt(a[0])); err != nil {
		return "err"
	}
	return okL(append(v2Show(&u), hxs(u.String()))...)
}

func c13V8Unmarshal(a []string) string {
	var u uuid_v8.UUIDv8
	if c13Used(a) {
		u.Unmarshal(append([]byte{}, 0xFE, 0xDC, 0xBA, 0x98, 0x76, 0x54, 0x8F, 0xED, 0xBC, 0xBA, 0x98, 0x76, 0x54, 0x32, 0x1F, 0xFF))
	}
	if _, err := u.Unmarshal(unhx(a[0])); err != nil {
		return "err"
	}
	f := []string{u64s(uint64(u.UUID.Variant)), hx(u.GetData())}
	m, err := u.Marshal()
	if err != nil {
		return "err"
	}
	return okL(append(f, hx(m), hxs(u.String()))...)
}

func c13V8Marshal(a []string) string {
	var u uuid_v8.UUIDv8
	if c13Used(a) {
		u.FromString("fedcba98-7654-8fed-bcba-98765432ffff")
	}
	u.UUID.Variant = uint8(argU(a[0], 8))
	u.SetData(unhx(a[1]))
	text := u.String()
	m, err := u.Marshal()
	if err != nil {
		return "err"
	}
	if !c13Agree(text, m) {
		return "ok text-and-binary-forms-disagree " + hxs(text) + " " + hx(m)
	}
	var w uuid_v8.UUIDv8
	if c13Used(a) {
		w.FromString("fedcba98-7654-8fed-bcba-98765432ffff")
	}
	if _, err := w.Unmarshal(m); err != nil {
		return "err"
	}
	return okL(hx(m), u64s(uint64(w.UUID.Variant)), hx(w.GetData()))
}

func c13V8Parse(a []string) string {
	var u uuid_v8.UUIDv8
	if c13Used(a) {
		u.FromString("fedcba98-7654-8fed-bcba-98765432ffff")
	}
	if err := u.FromString(txt(a[0])); err != nil {
		return "err"
	}
	return okL(u64s(uint64(u.UUID.Variant)), hx(u.GetData()), hxs(u.String()))
}

func gShow(g *guid.GUID) []string {
	return []string{u64s(uint64(g.A)), u64s(uint64(g.B)), u64s(uint64(g.C)), u64s(uint64(g.D)), u64s(g.E)}
}

func argG(a []string) *guid.GUID {
	return &guid.GUID{A: uint32(argU(a[0], 32)), B: uint16(argU(a[1], 16)), C: uint16(argU(a[2], 16)), D: uint16(argU(a[3], 16)), E: argU(a[4], 64)}
}

// through the MS-DTYP alias type
func c13GuidFromRaw(a []string) string {
	var g data_structures.GUID
	if c13Used(a) {
		g.FromRawBytes(c13Earlier)
	}
	g.FromRawBytes(unhx(a[0]))
	return okL(append(gShow(&g), hx(g.ToBytes()))...)
}

func c13GuidToBytes(a []string) string {
	g := argG(a)
	m := g.ToBytes()
	var w guid.GUID
	if c13Used(a) {
		w.FromRawBytes(c13Earlier)
	}
	w.FromRawBytes(m)
	return okL(append([]string{hx(m)}, gShow(&w)...)...)
}

func c13GuidFormat(a []string) string {
	g := argG(a)
	return okL(hxs(g.ToFormatN()), hxs(g.ToFormatD()), hxs(g.ToFormatB()), hxs(g.ToFormatP()), hxs(g.ToFormatX()))
}

func c13GuidParse(a []string) string {
	var g *guid.GUID
	var err error
	var out string
	s := txt(a[1])
	if c13Used(a) { // as in c13GuidFromString: an earlier result of the same text is scribbled on first
		var g0 *guid.GUID
		var e0 error
		switch a[0] {
		case "N":
			g0, e0 = guid.FromFormatN(s)
		case "D":
			g0, e0 = guid.FromFormatD(s)
		case "B":
			g0, e0 = guid.FromFormatB(s)
		case "P":
			g0, e0 = guid.FromFormatP(s)
		case "X":
			g0, e0 = guid.FromFormatX(s)
		}
		if e0 == nil && g0 != nil {
			g0.FromRawBytes(c13Earlier)
		}
	}
	switch a[0] {
	case "N":
		if g, err = guid.FromFormatN(s); err == nil {
			out = g.ToFormatN()
		}
	case "D":
		if g, err = guid.FromFormatD(s); err == nil {
			out = g.ToFormatD()
		}
	case "B":
		if g, err = guid.FromFormatB(s); err == nil {
			out = g.ToFormatB()
		}
	case "P":
		if g, err = guid.FromFormatP(s); err == nil {
			out = g.ToFormatP()
		}
	case "X":
		if g, err = guid.FromFormatX(s); err == nil {
			out = g.ToFormatX()
		}
	default:
		panic("harness: bad format " + a[0])
	}
	if err != nil {
		return "err"
	}
	return okL(append(gShow(g), hxs(out))...)
}

func c13GuidFromString(a []string) string {
	if c13Used(a) {
		// what an earlier call handed out belongs to its caller: it is scribbled on before the same text is parsed again
		if g0, err := guid.FromString(txt(a[0])); err == nil && g0 != nil {
			g0.FromRawBytes(c13Earlier)
		}
	}
	g, err := guid.FromString(txt(a[0]))
	if err != nil {
		return "err"
	}
	return okL(gShow(g)...)
}

// ---- oracles (independent of /repo) -----------------------------------------------------------

func c13OraUUIDBytes(a []string) string {
	b := unhx(a[0])
	if len(b) < 16 {
		return "err"
	}
	if len(b) > 16 {
		return "*"
	}
	return oraUUID(b, strings.ToLower(mustG(b).String()), true)
}

func mustG(b []byte) guuid.UUID {
	g, err := guuid.FromBytes(b)
	if err != nil {
		panic(err)
	}
	return g
}

// version nibble from google/uuid, the remaining nibbles repacked with plain shifts
func oraUUID(b []byte, text string, withBytes bool) string {
	g := mustG(b)
	var nib []byte
	for _, x := range b {
		nib = append(nib, x>>4, x&15)
	}
	rest := append(append(append([]byte{}, nib[:12]...), nib[13:16]...), nib[17:]...)
	data := make([]byte, 15)
	for i := range data {
		data[i] = rest[2*i]<<4 | rest[2*i+1]
	}
	out := []string{u64s(uint64(g.Version())), u64s(uint64(nib[16])), hx(data)}
	if withBytes {
		out = append(out, hx(b))
	}
	return okL(append(out, hxs(text))...)
}

// canonical 36-character text only (google/uuid also accepts urn:, braces and 32 digits)
func oraText(s string) (guuid.UUID, bool) {
	if len(s) != 36 {
		return guuid.UUID{}, false
	}
	g, err := guuid.Parse(s)
	return g, err == nil
}

func c13OraUUIDText(a []string) string {
	s := txt(a[0])
	g, ok := oraText(s)
	if !ok {
		return "err"
	}
	return oraUUID(g[:], strings.ToLower(s), false)
}

func oraV1(g guuid.UUID) []string {
	return []string{u64s(uint64(g[8] >> 4)), u64s(uint64(g.Time())), hx(g.NodeID())}
}

func c13OraV1Bytes(a []string) string {
	b := unhx(a[0])
	if len(b) < 16 {
		return "err"
	}
	if len(b) > 16 {
		return "*"
	}
	g := mustG(b)
	if g.Version() != 1 {
		return "err"
	}
	return okL(append(oraV1(g), hx(b), hxs(g.String()))...)
}

func c13OraV1ClockSeq(a []string) string {
	b := unhx(a[0])
	if len(b) != 16 {
		return "*"
	}
	g := mustG(b)
	if g.Version() != 1 {
		return "*"
	}
	return okL(u64s(uint64(g.ClockSequence())))
}

func c13OraV1Text(a []string) string {
	s := txt(a[0])
	g, ok := oraText(s)
	if !ok || g.Version() != 1 {
		return "err"
	}
	return okL(append(oraV1(g), hxs(strings.ToLower(s)))...)
}

// RFC 4122 §4.1.2 layout written with encoding/binary, then read back through google/uuid
func c13OraV1Marshal(a []string) string {
	va, ti, cs, node := argU(a[0], 8), argU(a[1], 64), argU(a[2], 16), unhx(a[3])
	if va >= 16 || ti >= 1<<60 || cs >= 1<<14 || (cs >= 1<<12 && va%4 != 0) {
		return "*"
	}
	b := make([]byte, 16)
	binary.BigEndian.PutUint32(b[0:], uint32(ti))
	binary.BigEndian.PutUint16(b[4:], uint16(ti>>32))
	binary.BigEndian.PutUint16(b[6:], 0x1000|uint16(ti>>48))
	binary.BigEndian.PutUint16(b[8:], uint16(va)<<12|uint16(cs))
	copy(b[10:], node)
	g := mustG(b)
	if g.Version() != 1 || uint64(g.Time()) != ti || uint64(g.ClockSequence()) != (va%4)<<12|cs || string(g.NodeID()) != string(node) {
		return "oracle-inconsistent"
	}
	return okL(hx(b), u64s(va), u64s(ti), u64s(cs), hx(node))
}

func oraGuidOfRFC(b []byte) []string {
	return []string{u64s(uint64(binary.BigEndian.Uint32(b[0:]))), u64s(uint64(binary.BigEndian.Uint16(b[4:]))),
		u64s(uint64(binary.BigEndian.Uint16(b[6:]))), u64s(uint64(binary.BigEndian.Uint16(b[8:]))),
		u64s(uint64(binary.BigEndian.Uint16(b[10:]))<<32 | uint64(binary.BigEndian.Uint32(b[12:])))}
}

func c13OraGuidFromRaw(a []string) string {
	b := unhx(a[0])
	if len(b) != 16 {
		return "*"
	}
	f := []string{u64s(uint64(binary.LittleEndian.Uint32(b[0:]))), u64s(uint64(binary.LittleEndian.Uint16(b[4:]))),
		u64s(uint64(binary.LittleEndian.Uint16(b[6:]))), u64s(uint64(binary.BigEndian.Uint16(b[8:]))),
		u64s(uint64(binary.BigEndian.Uint16(b[10:]))<<32 | uint64(binary.BigEndian.Uint32(b[12:])))}
	return okL(append(f, hx(b))...)
}

func c13OraGuidToBytes(a []string) string {
	A, B, C, D, E := argU(a[0], 32), argU(a[1], 16), argU(a[2], 16), argU(a[3], 16), argU(a[4], 64)
	if E >= 1<<48 {
		return "*"
	}
	b := binary.LittleEndian.AppendUint32(nil, uint32(A))
	b = binary.LittleEndian.AppendUint16(b, uint16(B))
	b = binary.LittleEndian.AppendUint16(b, uint16(C))
	b = binary.BigEndian.AppendUint16(b, uint16(D))
	b = binary.BigEndian.AppendUint16(b, uint16(E>>32))
	b = binary.BigEndian.AppendUint32(b, uint32(E))
	return okL(hx(b), u64s(A), u64s(B), u64s(C), u64s(D), u64s(E))
}

func c13OraGuidFormat(a []string) string {
	A, B, C, D, E := argU(a[0], 32), argU(a[1], 16), argU(a[2], 16), argU(a[3], 16), argU(a[4], 64)
	if E >= 1<<48 {
		return "*"
	}
	// the RFC (big-endian) bytes of the same five numbers print as the D form in google/uuid
	b := binary.BigEndian.AppendUint32(nil, uint32(A))
	b = binary.BigEndian.AppendUint16(b, uint16(B))
	b = binary.BigEndian.AppendUint16(b, uint16(C))
	b = binary.BigEndian.AppendUint16(b, uint16(D))
	b = binary.BigEndian.AppendUint16(b, uint16(E>>32))
	b = binary.BigEndian.AppendUint32(b, uint32(E))
	d := mustG(b).String()
	x := fmt.Sprintf("{0x%s,0x%s,0x%s,{0x%02x,0x%02x,0x%02x,0x%02x,0x%02x,0x%02x,0x%02x,0x%02x}}", d[0:8], d[9:13], d[14:18],
		b[8], b[9], b[10], b[11], b[12], b[13], b[14], b[15])
	return okL(hxs(strings.ReplaceAll(d, "-", "")), hxs(d), hxs("{"+d+"}"), hxs("("+d+")"), hxs(x))
}

// N, D, B, P through google/uuid's parser on the 32/36 characters; X: no independent parser at hand
func oraGuidText(f string, s string) (string, bool) {
	t := strings.ToLower(strings.TrimSpace(s))
	var inner string
	switch f {
	case "N":
		if len(t) != 32 {
			return "err", true
		}
		inner = t
	case "D":
		if len(t) != 36 {
			return "err", true
		}
		inner = t
	case "B":
		if len(t) != 38 || t[0] != '{' || t[37] != '}' {
			return "err", true
		}
		inner = t[1:37]
	case "P":
		if len(t) != 38 || t[0] != '(' || t[37] != ')' {
			return "err", true
		}
		inner = t[1:37]
	default:
		return "*", false
	}
	g, err := guuid.Parse(inner)
	if err != nil {
		return "err", true
	}
	return okL(oraGuidOfRFC(g[:])...), true
}

func c13OraGuidParse(a []string) string {
	s := txt(a[1])
	r, ok := oraGuidText(a[0], s)
	if !ok || r == "err" {
		return r
	}
	return r + " " + hxs(strings.ToLower(strings.TrimSpace(s)))
}

func c13OraGuidFromString(a []string) string {
	s := txt(a[0])
	t := strings.ToLower(strings.TrimSpace(s))
	f := "X"
	switch {
	case len(t) == 32:
		f = "N"
	case len(t) == 36:
		f = "D"
	case len(t) == 38 && t[0] == '{':
		f = "B"
	case len(t) == 38 && t[0] == '(':
		f = "P"
	case len(t) == 68:
		return "*"
	default:
		return "err"
	}
	r, _ := oraGuidText(f, s)
	return r
}

// ---- generators --------------------------------------------------------------------------------

type c13gen struct {
	cs []Case
}

func (g *c13gen) add(op string, tag string, spec bool, args ...string) {
	c := Case{Op: op, MArgs: args, Tag: tag}
	if spec {
		c.SArgs = args
	}
	g.cs = append(g.cs, c)
}

func canon(b []byte) string {
	return fmt.Sprintf("%x-%x-%x-%x-%x", b[0:4], b[4:6], b[6:8], b[8:10], b[10:16])
}

// letter-case variants of a text: as is, upper, random mix
func caseVariants(r *Rng, s string) []string {
	mix := []byte(s)
	for i, c := range mix {
		if c >= 'a' && c <= 'z' && r.Bool() {
			mix[i] = c - 32
		}
	}
	return []string{s, strings.ToUpper(s), string(mix)}
}

var c13spaces = []string{" ", "\t", "\n", "\r", "\v", "\f", "  ", " \t\r\n"}

// one 16-byte value through every binary and text entry point
func (g *c13gen) value(r *Rng, b []byte, tag string) {
	g.add("c13.uuid.unmarshal", tag, true, hx(b))
	g.add("c13.guid.fromraw", tag, true, hx(b))
	for _, ver := range []byte{1, 2, 8} {
		v := append([]byte{}, b...)
		v[6] = v[6]&0x0F | ver<<4
		op := map[byte]string{1: "c13.v1", 2: "c13.v2", 8: "c13.v8"}[ver]
		g.add(op+".unmarshal", tag, true, hx(v))
		g.add(op+".unmarshal", tag+".anyversion", true, hx(b))
		g.add(op+".parse", tag, true, hxs(canon(v)))
		if ver == 1 {
			g.add("c13.v1.clockseq", tag, true, hx(v))
		}
	}
	for _, t := range caseVariants(r, canon(b)) {
		g.add("c13.uuid.parse", tag+".text", true, hxs(t))
	}
	// the GUID whose raw bytes these are, in every text format and letter case
	var gg guid.GUID
	gg.A = binary.LittleEndian.Uint32(b[0:])
	gg.B = binary.LittleEndian.Uint16(b[4:])
	gg.C = binary.LittleEndian.Uint16(b[6:])
	gg.D = binary.BigEndian.Uint16(b[8:])
	gg.E = uint64(binary.BigEndian.Uint16(b[10:]))<<32 | uint64(binary.BigEndian.Uint32(b[12:]))
	g.guidFields(r, gg, tag)
}

func guidTexts(gg guid.GUID) map[string]string {
	d := fmt.Sprintf("%08x-%04x-%04x-%04x-%012x", gg.A, gg.B, gg.C, gg.D, gg.E)
	x := fmt.Sprintf("{0x%08x,0x%04x,0x%04x,{0x%02x,0x%02x,0x%02x,0x%02x,0x%02x,0x%02x,0x%02x,0x%02x}}", gg.A, gg.B, gg.C,
		byte(gg.D>>8), byte(gg.D), byte(gg.E>>40), byte(gg.E>>32), byte(gg.E>>24), byte(gg.E>>16), byte(gg.E>>8), byte(gg.E))
	return map[string]string{"N": strings.ReplaceAll(d, "-", ""), "D": d, "B": "{" + d + "}", "P": "(" + d + ")", "X": x}
}

var c13fmts = []string{"N", "D", "B", "P", "X"}

func (g *c13gen) guidFields(r *Rng, gg guid.GUID, tag string) {
	args := []string{u64s(uint64(gg.A)), u64s(uint64(gg.B)), u64s(uint64(gg.C)), u64s(uint64(gg.D)), u64s(gg.E)}
	g.add("c13.guid.tobytes", tag, true, args...)
	g.add("c13.guid.format", tag, true, args...)
	if gg.E >= 1<<48 {
		return
	}
	texts := guidTexts(gg)
	for _, f := range c13fmts {
		for i, t := range caseVariants(r, texts[f]) {
			if i == 2 && r.Intn(2) == 0 {
				t = c13spaces[r.Intn(len(c13spaces))] + t + c13spaces[r.Intn(len(c13spaces))]
			}
			g.add("c13.guid.parse", tag+".text."+f, true, f, hxs(t))
			g.add("c13.guid.fromstring", tag+".text."+f, true, hxs(t))
			// the same text offered to the four other format parsers
			if i == 0 {
				for _, f2 := range c13fmts {
					if f2 != f {
						g.add("c13.guid.parse", tag+".crossformat", true, f2, hxs(t))
					}
				}
			}
		}
	}
}

var c13alphabet = []byte("0123456789abcdefABCDEFgGxX-{}(), \t\n+_")

func mutateText(r *Rng, s string) string {
	b := []byte(s)
	for k := 1 + r.Intn(2); k > 0; k-- {
		switch r.Intn(7) {
		case 0: // delete
			if len(b) > 0 {
				i := r.Intn(len(b))
				b = append(b[:i:i], b[i+1:]...)
			}
		case 1: // insert
			i := r.Intn(len(b) + 1)
			b = append(b[:i:i], append([]byte{c13alphabet[r.Intn(len(c13alphabet))]}, b[i:]...)...)
		case 2: // replace
			if len(b) > 0 {
				b[r.Intn(len(b))] = c13alphabet[r.Intn(len(c13alphabet))]
			}
		case 3: // swap neighbours
			if len(b) > 1 {
				i := r.Intn(len(b) - 1)
				b[i], b[i+1] = b[i+1], b[i]
			}
		case 4: // truncate
			b = b[:r.Intn(len(b)+1)]
		case 5: // move a separator
			if i := strings.IndexAny(string(b), "-,"); i >= 0 && len(b) > 1 {
				c := b[i]
				b = append(b[:i:i], b[i+1:]...)
				j := r.Intn(len(b) + 1)
				b = append(b[:j:j], append([]byte{c}, b[j:]...)...)
			}
		default: // duplicate a character
			if len(b) > 0 {
				i := r.Intn(len(b))
				b = append(b[:i:i], append([]byte{b[i]}, b[i:]...)...)
			}
		}
	}
	return string(b)
}

func (g *c13gen) textEverywhere(t string, tag string) {
	h := hxs(t)
	for _, op := range []string{"c13.uuid.parse", "c13.v1.parse", "c13.v2.parse", "c13.v8.parse", "c13.guid.fromstring"} {
		g.add(op, tag, true, h)
	}
	for _, f := range c13fmts {
		g.add("c13.guid.parse", tag, true, f, h)
	}
}

func randHexGroup(r *Rng, n int) string {
	return string(r.BytesFrom(n, []byte("0123456789abcdef")))
}

func genC13(r *Rng, tier string) []Case {
	g := &c13gen{}
	n := 600
	if tier == "thorough" {
		n = 20000
	}

	// witnesses of the known finding and of the repaired defects, always first
	g.add("c13.v1.clockseq", "corpus", true, "19c55c02340611f0b3c80242ac120002")
	g.add("c13.v1.marshal", "corpus", true, "0", "139668789255298050", "4096", "0242ac120002")
	for _, t := range []string{"1-2-3-4-5", "{1-2-3-4-5}", "(1-2-3-4-5)", "0-0-0-0-ffffffffffffffff", "000000001-0002-0003-0004-000000000005",
		"", " ", "{", "{}", "()", "0123456789abcdef0123456789abcdef", "-0-123456789abcdef0123456789abcdef----",
		"01234567-89ab-cdef-0123-456789abcdef", "{0x12345678,0x1234,0x5678,{0x9a,0xbc,0xde,0xf0,0x12,0x34,0x56,0x78}}",
		"{01234567-89ab-cdef-0123-456789abcdef)", "(01234567-89ab-cdef-0123-456789abcdef}", "urn:uuid:01234567-89ab-cdef-0123-456789abcdef",
		"01234567-89ab-cdef-0123-456789abcdef\n", "+1234567-89ab-cdef-0123-456789abcdef", "0x234567-89ab-cdef-0123-456789abcdef",
		"0123_567-89ab-cdef-0123-456789abcdef", "01234567-89ab-cdef-0123-456789abcde", "01234567-89ab-cdef-0123-456789abcdeff"} {
		g.textEverywhere(t, "corpus.text")
	}

	// every single-bit pattern of the 128 bits, and its complement
	rb := r.Fork("bits")
	for i := 0; i < 128; i++ {
		b := make([]byte, 16)
		b[i/8] = 0x80 >> uint(i%8)
		g.value(rb, b, "bit.one")
		c := make([]byte, 16)
		for k := range c {
			c[k] = ^b[k]
		}
		g.value(rb, c, "bit.allbutone")
	}
	g.value(rb, make([]byte, 16), "bit.zero")
	g.value(rb, []byte{255, 255, 255, 255, 255, 255, 255, 255, 255, 255, 255, 255, 255, 255, 255, 255}, "bit.ones")

	// every single-bit pattern of every field (also bits outside the field widths)
	one := func(bit, lo, w int) uint64 {
		if bit >= lo && bit < lo+w {
			return 1 << uint(bit-lo)
		}
		return 0
	}
	for bit := 0; bit < 136; bit++ { // version 8, variant 8, data 120
		d := make([]byte, 15)
		if bit >= 16 {
			d[(bit-16)/8] = 0x80 >> uint((bit-16)%8)
		}
		g.add("c13.uuid.marshal", "field.bit", true, u64s(one(bit, 0, 8)), u64s(one(bit, 8, 8)), hx(d))
		g.add("c13.v8.marshal", "field.bit", true, u64s(one(bit, 8, 8)), hx(d))
	}
	for bit := 0; bit < 136; bit++ { // variant 8, time 64, clockseq 16, node 48
		nd := make([]byte, 6)
		if bit >= 88 {
			nd[(bit-88)/8] = 0x80 >> uint((bit-88)%8)
		}
		g.add("c13.v1.marshal", "field.bit", true, u64s(one(bit, 0, 8)), u64s(one(bit, 8, 64)), u64s(one(bit, 72, 16)), hx(nd))
	}
	for bit := 0; bit < 168; bit++ { // variant 8, ldn 32, time 64, clock 8, domain 8, node 48
		nd := make([]byte, 6)
		if bit >= 120 {
			nd[(bit-120)/8] = 0x80 >> uint((bit-120)%8)
		}
		g.add("c13.v2.marshal", "field.bit", true, u64s(one(bit, 0, 8)), u64s(one(bit, 8, 32)), u64s(one(bit, 40, 64)),
			u64s(one(bit, 104, 8)), u64s(one(bit, 112, 8)), hx(nd))
	}
	for bit := 0; bit < 144; bit++ { // A 32, B 16, C 16, D 16, E 64
		gg := guid.GUID{A: uint32(one(bit, 0, 32)), B: uint16(one(bit, 32, 16)), C: uint16(one(bit, 48, 16)), D: uint16(one(bit, 64, 16)), E: one(bit, 80, 64)}
		g.guidFields(rb, gg, "field.bit")
		inv := guid.GUID{A: ^gg.A, B: ^gg.B, C: ^gg.C, D: ^gg.D, E: ^gg.E & 0xFFFFFFFFFFFF}
		g.guidFields(rb, inv, "field.allbutone")
	}

	// random values
	rv := r.Fork("values")
	for i := 0; i < n; i++ {
		b := rv.Bytes(16)
		if rv.Intn(4) == 0 { // sparse / dense
			for k := range b {
				if rv.Bool() {
					b[k] = byte(0 - rv.Intn(2))
				}
			}
		}
		g.value(rv, b, "random")
	}
	// random field assignments, inside and outside the widths
	rf := r.Fork("fields")
	for i := 0; i < n; i++ {
		wide := rf.Intn(5) == 0
		nib := func() uint64 {
			if wide {
				return uint64(rf.Byte())
			}
			return uint64(rf.Intn(16))
		}
		t60 := func() uint64 {
			t := rf.U64Biased()
			if !wide {
				t &= 1<<60 - 1
			}
			return t
		}
		cs := uint64(rf.U16Biased())
		switch rf.Intn(3) {
		case 0:
			cs &= 0xFFF
		case 1:
			cs &= 0x3FFF
		}
		g.add("c13.uuid.marshal", "random.fields", true, u64s(nib()), u64s(nib()), hx(rf.Bytes(15)))
		g.add("c13.v8.marshal", "random.fields", true, u64s(nib()), hx(rf.Bytes(15)))
		g.add("c13.v1.marshal", "random.fields", true, u64s(nib()), u64s(t60()), u64s(cs), hx(rf.Bytes(6)))
		t2 := t60()
		if !wide {
			t2 &^= 0xFFFFFFFF
		}
		g.add("c13.v2.marshal", "random.fields", true, u64s(nib()), u64s(uint64(rf.U32Biased())), u64s(t2), u64s(nib()), u64s(uint64(rf.Byte())), hx(rf.Bytes(6)))
		e := rf.U64Biased()
		if !wide {
			e &= 1<<48 - 1
		}
		g.guidFields(rf, guid.GUID{A: rf.U32Biased(), B: rf.U16Biased(), C: rf.U16Biased(), D: rf.U16Biased(), E: e}, "random.fields")
	}

	// binary inputs of other lengths
	rl := r.Fork("lengths")
	for l := 0; l <= 24; l++ {
		if l == 16 {
			continue
		}
		for k := 0; k < 3; k++ {
			b := rl.Bytes(l)
			if l > 6 {
				b[6] = b[6]&0x0F | []byte{1, 2, 8, byte(rl.Intn(16))}[rl.Intn(4)]<<4
			}
			for _, op := range []string{"c13.uuid.unmarshal", "c13.v1.unmarshal", "c13.v2.unmarshal", "c13.v8.unmarshal", "c13.v1.clockseq"} {
				g.add(op, "length", true, hx(b))
			}
			// FromRawBytes has no error result: below 16 bytes it panics, which is C07's subject
			// (decoder totality); here only the model/implementation tie is checked for those lengths
			g.add("c13.guid.fromraw", "length", l > 16, hx(b))
		}
	}

	// one group one digit too short / too long, and one hyphen one place off, systematically
	rg := r.Fork("groupwidth")
	reps := 12
	if tier == "thorough" {
		reps = 300
	}
	for i := 0; i < reps; i++ {
		gg := guid.GUID{A: rg.U32Biased(), B: rg.U16Biased(), C: rg.U16Biased()&0x0FFF | []uint16{1, 2, 8, uint16(rg.Intn(16))}[rg.Intn(4)]<<12,
			D: rg.U16Biased(), E: rg.U64Biased() & (1<<48 - 1)}
		d := guidTexts(gg)["D"]
		five := strings.Split(d, "-")
		eleven := []string{five[0], five[1], five[2], five[3][0:2], five[3][2:4], five[4][0:2], five[4][2:4], five[4][4:6], five[4][6:8], five[4][8:10], five[4][10:12]}
		build := func(f string, gs []string) string {
			switch f {
			case "N":
				return strings.Join(gs, "")
			case "D":
				return strings.Join(gs, "-")
			case "B":
				return "{" + strings.Join(gs, "-") + "}"
			case "P":
				return "(" + strings.Join(gs, "-") + ")"
			}
			return "{0x" + gs[0] + ",0x" + gs[1] + ",0x" + gs[2] + ",{0x" + strings.Join(gs[3:], ",0x") + "}}"
		}
		for _, f := range c13fmts {
			base := five
			if f == "X" {
				base = eleven
			}
			for k := range base {
				for _, longer := range []bool{false, true} {
					gs := append([]string{}, base...)
					if longer {
						gs[k] += randHexGroup(rg, 1)
					} else {
						gs[k] = gs[k][:len(gs[k])-1]
					}
					t := build(f, gs)
					if rg.Intn(3) == 0 {
						t = strings.ToUpper(t)
					}
					g.add("c13.guid.parse", "malformed.groupwidth", true, f, hxs(t))
					g.add("c13.guid.fromstring", "malformed.groupwidth", true, hxs(t))
					if f == "D" {
						for _, op := range []string{"c13.uuid.parse", "c13.v1.parse", "c13.v2.parse", "c13.v8.parse"} {
							g.add(op, "malformed.groupwidth", true, hxs(t))
						}
					}
				}
			}
		}
		// hyphens: each of the four moved left / right by one, dropped, or doubled
		for _, pos := range []int{8, 13, 18, 23} {
			b := []byte(d)
			l := append([]byte{}, b...)
			l[pos], l[pos-1] = l[pos-1], l[pos]
			rr := append([]byte{}, b...)
			rr[pos], rr[pos+1] = rr[pos+1], rr[pos]
			drop := string(b[:pos]) + string(b[pos+1:])
			dbl := string(b[:pos]) + "-" + string(b[pos:])
			moved := drop[:rg.Intn(len(drop)+1)]
			moved = moved + "-" + drop[len(moved):]
			for _, t := range []string{string(l), string(rr), drop, dbl, moved} {
				g.textEverywhere(t, "malformed.hyphen")
			}
		}
	}

	// malformed text
	rm := r.Fork("malformed")
	for i := 0; i < n; i++ {
		gg := guid.GUID{A: rm.U32Biased(), B: rm.U16Biased(), C: rm.U16Biased(), D: rm.U16Biased(), E: rm.U64Biased() & (1<<48 - 1)}
		if rm.Intn(3) == 0 { // a version the uuid_vN parsers accept
			gg.C = gg.C&0x0FFF | []uint16{1, 2, 8}[rm.Intn(3)]<<12
		}
		texts := guidTexts(gg)
		f := c13fmts[rm.Intn(5)]
		t := caseVariants(rm, texts[f])[rm.Intn(3)]
		switch rm.Intn(6) {
		case 0: // groups of other widths
			w := func(k int) string { return randHexGroup(rm, rm.Pick(0, 1, k-1, k, k, k+1, 2*k)) }
			t = w(8) + "-" + w(4) + "-" + w(4) + "-" + w(4) + "-" + w(12)
			if rm.Bool() {
				t = []string{"{", "(", "{{", ""}[rm.Intn(4)] + t + []string{"}", ")", "}}", ""}[rm.Intn(4)]
			}
		case 1: // X with groups of other widths
			w := func(k int) string { return "0x" + randHexGroup(rm, rm.Pick(k-1, k, k, k, k+1)) }
			t = "{" + w(8) + "," + w(4) + "," + w(4) + ",{" + w(2) + "," + w(2) + "," + w(2) + "," + w(2) + "," + w(2) + "," + w(2) + "," + w(2) + "," + w(2) + "}}"
		case 2: // inner white space
			i := rm.Intn(len(t) + 1)
			t = t[:i] + c13spaces[rm.Intn(len(c13spaces))] + t[i:]
		default:
			t = mutateText(rm, t)
		}
		g.textEverywhere(t, "malformed")
	}
	return g.cs
}
