package main

// C12 — RC4, CMAC, PKCS#7, GPP-AES.
//
// Block ciphers are never re-implemented on the Lean side: a case carries a table of TRUE
// (input, output) pairs of the block function, computed here with Go's crypto/aes / crypto/des
// (or a toy function) by tracing every block-cipher call of (a) the real library and (b) an
// independent reference written from the standard.  Extra true pairs are harmless; a missing
// pair makes the Lean side print `miss`, which is reported as a disagreement.

import (
	"bytes"
	"crypto/aes"
	"crypto/cipher"
	"crypto/des"
	stdrc4 "crypto/rc4"
	"crypto/sha256"
	"encoding/base64"
	"hash"
	"strconv"
	"strings"
	"unicode/utf16"

	"github.com/TheManticoreProject/Manticore/crypto/cmac"
	"github.com/TheManticoreProject/Manticore/crypto/gppp"
	"github.com/TheManticoreProject/Manticore/crypto/pkcs7"
	"github.com/TheManticoreProject/Manticore/crypto/rc4"
	mutf16 "github.com/TheManticoreProject/Manticore/utils/encoding/utf16"
)

func init() {
	register(&Prop{
		ID: "C12",
		Ops: []OpDef{
			{Name: "c12.rc4", Impl: implRC4, Oracle: oracleRC4},
			{Name: "c12.cmac", Impl: implCMAC, Oracle: oracleCMAC},
			{Name: "c12.pad", Impl: implPad},
			{Name: "c12.unpad", Impl: implUnpad},
			{Name: "c12.padrt", Impl: implPadRT},
			{Name: "c12.gpp.enc", Impl: implGppEnc, Oracle: oracleGppEnc},
			{Name: "c12.gpp.decb", Impl: implGppDecB},
			{Name: "c12.gpp.dec64", Impl: implGppDec64},
			{Name: "c12.gpp.rt", Impl: implGppRT},
			{Name: "c12.prim.b64d", Impl: func(a []string) string {
				b, err := base64.StdEncoding.DecodeString(string(unhx(a[0])))
				if err != nil {
					return "err"
				}
				return okHex(b)
			}},
			{Name: "c12.prim.b64e", Impl: func(a []string) string { return okStr(base64.StdEncoding.EncodeToString(unhx(a[0]))) }},
			{Name: "c12.prim.runes", Impl: func(a []string) string { return okRunes([]rune(string(unhx(a[0])))) }},
			{Name: "c12.prim.string", Impl: func(a []string) string { return okStr(string(parseRunes(a[0]))) }},
			{Name: "c12.prim.u16e", Impl: func(a []string) string {
				us := utf16.Encode(parseRunes(a[0]))
				rs := make([]rune, len(us))
				for i, u := range us {
					rs[i] = rune(u)
				}
				return okRunes(rs)
			}},
			{Name: "c12.prim.u16d", Impl: func(a []string) string {
				rs := parseRunes(a[0])
				us := make([]uint16, len(rs))
				for i, r := range rs {
					us[i] = uint16(r)
				}
				return okRunes(utf16.Decode(us))
			}},
			{Name: "c12.utf16le.enc", Impl: func(a []string) string { return okHex(mutf16.EncodeUTF16LE(string(unhx(a[0])))) }},
			{Name: "c12.utf16le.dec", Impl: func(a []string) string { return okStr(mutf16.DecodeUTF16LE(unhx(a[0]))) }},
		},
		Gen: genC12,
	})
}

func okRunes(rs []rune) string {
	if len(rs) == 0 {
		return "ok ."
	}
	p := make([]string, len(rs))
	for i, r := range rs {
		p[i] = strconv.Itoa(int(r))
	}
	return "ok " + strings.Join(p, ",")
}
func parseRunes(s string) []rune {
	if s == "." {
		return nil
	}
	var rs []rune
	for _, t := range strings.Split(s, ",") {
		n, err := strconv.Atoi(t)
		if err != nil {
			panic("harness: bad rune token " + t)
		}
		rs = append(rs, rune(n))
	}
	return rs
}
func joinTok(p []string) string {
	if len(p) == 0 {
		return "."
	}
	return strings.Join(p, ",")
}

// ------------------------------------------------------------------------------------------
// RC4

type rc4Call struct {
	reset  bool
	src    []byte
	dstLen int
	rel    string // "x" = separate allocations, otherwise the decimal offset &dst[0]-&src[0]
}

func (c rc4Call) tok() string {
	if c.reset {
		return "R"
	}
	return hx(c.src) + "/" + strconv.Itoa(c.dstLen) + "/" + c.rel
}
func parseRC4Ops(s string) []rc4Call {
	if s == "." {
		return nil
	}
	var out []rc4Call
	for _, t := range strings.Split(s, ",") {
		if t == "R" {
			out = append(out, rc4Call{reset: true})
			continue
		}
		// the hex token may be "-" (empty) and the offset may be negative: split from the right
		i2 := strings.LastIndex(t, "/")
		i1 := strings.LastIndex(t[:i2], "/")
		dl, err := strconv.Atoi(t[i1+1 : i2])
		if err != nil {
			panic("harness: bad rc4 op " + t)
		}
		out = append(out, rc4Call{src: unhx(t[:i1]), dstLen: dl, rel: t[i2+1:]})
	}
	return out
}
func rc4OpsTok(cs []rc4Call) string {
	p := make([]string, len(cs))
	for i, c := range cs {
		p[i] = c.tok()
	}
	return joinTok(p)
}

// buffers realising (src, dstLen, rel): slices of one array, or two allocations
func rc4Buffers(c rc4Call) (dst, src []byte) {
	if c.rel == "x" {
		return make([]byte, c.dstLen), append([]byte{}, c.src...)
	}
	d, err := strconv.Atoi(c.rel)
	if err != nil {
		panic("harness: bad rel " + c.rel)
	}
	a := 0
	if d < 0 {
		a = -d
	}
	size := a + len(c.src)
	if a+d+c.dstLen > size {
		size = a + d + c.dstLen
	}
	arr := make([]byte, size+1)
	src = arr[a : a+len(c.src)]
	copy(src, c.src)
	dst = arr[a+d : a+d+c.dstLen]
	return dst, src
}

func implRC4(a []string) string {
	key := unhx(a[0])
	c, err := rc4.NewRC4WithKey(key)
	if err != nil {
		return "err"
	}
	var outs []string
	for _, op := range parseRC4Ops(a[1]) {
		if op.reset {
			c.Reset()
			continue
		}
		dst, src := rc4Buffers(op)
		n := len(src)
		func() {
			defer func() {
				if r := recover(); r != nil {
					outs = append(outs, "!")
				}
			}()
			c.XORKeyStream(dst, src)
			outs = append(outs, hx(dst[:n]))
		}()
	}
	return "ok " + joinTok(outs)
}

// independent reading of the documented contract, on Go's own crypto/rc4
func rc4Legal(c rc4Call) bool {
	n := len(c.src)
	if c.dstLen < n {
		return false
	}
	if n == 0 || c.rel == "x" {
		return true
	}
	d, _ := strconv.Atoi(c.rel)
	return d == 0 || d >= n || d+c.dstLen <= 0
}
func oracleRC4(a []string) string {
	key := unhx(a[0])
	c, err := stdrc4.NewCipher(key)
	if err != nil {
		return "err"
	}
	var outs []string
	for _, op := range parseRC4Ops(a[1]) {
		if op.reset {
			return "*"
		}
		if !rc4Legal(op) {
			outs = append(outs, "!")
			continue
		}
		dst := make([]byte, len(op.src))
		c.XORKeyStream(dst, op.src)
		outs = append(outs, hx(dst))
	}
	return "ok " + joinTok(outs)
}

// ------------------------------------------------------------------------------------------
// block ciphers, tracing, tables

type pairSet struct {
	m    map[string]string
	keys []string
}

func newPairSet() *pairSet { return &pairSet{m: map[string]string{}} }
func (p *pairSet) add(in, out []byte) {
	k := string(in)
	if _, ok := p.m[k]; !ok {
		p.m[k] = string(out)
		p.keys = append(p.keys, k)
	}
}
func (p *pairSet) tok() string {
	if len(p.keys) == 0 {
		return "."
	}
	parts := make([]string, len(p.keys))
	for i, k := range p.keys {
		parts[i] = hx([]byte(k)) + ":" + hx([]byte(p.m[k]))
	}
	return strings.Join(parts, ";")
}

type traceBlock struct {
	b   cipher.Block
	enc *pairSet
	dec *pairSet
}

func (t *traceBlock) BlockSize() int { return t.b.BlockSize() }
func (t *traceBlock) Encrypt(dst, src []byte) {
	n := t.b.BlockSize()
	in := append([]byte{}, src[:n]...)
	t.b.Encrypt(dst, src)
	if t.enc != nil {
		t.enc.add(in, append([]byte{}, dst[:n]...))
	}
}
func (t *traceBlock) Decrypt(dst, src []byte) {
	n := t.b.BlockSize()
	in := append([]byte{}, src[:n]...)
	t.b.Decrypt(dst, src)
	if t.dec != nil {
		t.dec.add(in, append([]byte{}, dst[:n]...))
	}
}

// toy block function: not a permutation, any block size (CMAC is proved for an arbitrary function)
type toyBlock struct {
	n    int
	seed []byte
}

func (t toyBlock) BlockSize() int { return t.n }
func (t toyBlock) Encrypt(dst, src []byte) {
	h := sha256.New()
	h.Write(t.seed)
	h.Write(src[:t.n])
	sum := h.Sum(nil)
	for len(sum) < t.n {
		sum = append(sum, sum...)
	}
	copy(dst[:t.n], sum[:t.n])
}
func (t toyBlock) Decrypt(dst, src []byte) { panic("toy block function has no inverse") }

// "aes:<key>", "des:<key>", "3des:<key>", "toy:<n>:<seed>"
func cipherFromSpec(s string) cipher.Block {
	p := strings.Split(s, ":")
	var b cipher.Block
	var err error
	switch p[0] {
	case "aes":
		b, err = aes.NewCipher(unhx(p[1]))
	case "des":
		b, err = des.NewCipher(unhx(p[1]))
	case "3des":
		b, err = des.NewTripleDESCipher(unhx(p[1]))
	case "toy":
		n, _ := strconv.Atoi(p[1])
		b = toyBlock{n: n, seed: unhx(p[2])}
	default:
		panic("harness: unknown cipher " + s)
	}
	if err != nil {
		panic("harness: " + err.Error())
	}
	return b
}

// ------------------------------------------------------------------------------------------
// CMAC

type cmacOp struct {
	kind byte // 'W', 'S', 'R'
	data []byte
}

func cmacOpsTok(ops []cmacOp) string {
	p := make([]string, len(ops))
	for i, o := range ops {
		if o.kind == 'R' {
			p[i] = "R"
		} else {
			p[i] = string(o.kind) + hx(o.data)
		}
	}
	return joinTok(p)
}
func parseCmacOps(s string) []cmacOp {
	if s == "." {
		return nil
	}
	var ops []cmacOp
	for _, t := range strings.Split(s, ",") {
		if t == "R" {
			ops = append(ops, cmacOp{kind: 'R'})
		} else {
			ops = append(ops, cmacOp{kind: t[0], data: unhx(t[1:])})
		}
	}
	return ops
}

// the real library on a history; args: n, table (unused here), ops, cipher
func runCMACImpl(b cipher.Block, ops []cmacOp) string {
	var h hash.Hash = cmac.New(b)
	var outs []string
	for _, o := range ops {
		switch o.kind {
		case 'W':
			n, err := h.Write(o.data)
			if n != len(o.data) || err != nil {
				outs = append(outs, "badwrite")
			}
		case 'S':
			var in []byte
			if len(o.data) > 0 {
				in = append([]byte{}, o.data...)
			}
			outs = append(outs, hx(h.Sum(in)))
		case 'R':
			h.Reset()
		}
	}
	return "ok " + joinTok(outs)
}
func implCMAC(a []string) string {
	return runCMACImpl(cipherFromSpec(a[3]), parseCmacOps(a[2]))
}

// Reference CMAC written from SP 800-38B / RFC 4493 (bit strings as big integers are avoided on
// purpose: this one works on bytes, MSB first, the Lean spec works on numbers).
func refCMAC(b cipher.Block, msg []byte) []byte {
	n := b.BlockSize()
	rb := byte(0x87)
	if n == 8 {
		rb = 0x1b
	}
	dbl := func(in []byte) []byte {
		out := make([]byte, n)
		for i := 0; i < n; i++ {
			out[i] = in[i] << 1
			if i+1 < n {
				out[i] |= in[i+1] >> 7
			}
		}
		if in[0]&0x80 != 0 {
			out[n-1] ^= rb
		}
		return out
	}
	l := make([]byte, n)
	b.Encrypt(l, l)
	k1 := dbl(l)
	k2 := dbl(k1)
	nblocks := (len(msg) + n - 1) / n
	complete := nblocks > 0 && len(msg)%n == 0
	if nblocks == 0 {
		nblocks = 1
	}
	last := make([]byte, n)
	tail := msg[(nblocks-1)*n:]
	copy(last, tail)
	if complete {
		for i := range last {
			last[i] ^= k1[i]
		}
	} else {
		last[len(tail)] = 0x80
		for i := range last {
			last[i] ^= k2[i]
		}
	}
	x := make([]byte, n)
	for i := 0; i < nblocks-1; i++ {
		for j := 0; j < n; j++ {
			x[j] ^= msg[i*n+j]
		}
		b.Encrypt(x, x)
	}
	for j := 0; j < n; j++ {
		x[j] ^= last[j]
	}
	b.Encrypt(x, x)
	return x
}
func refCMACHistory(b cipher.Block, ops []cmacOp) string {
	var written []byte
	var outs []string
	for _, o := range ops {
		switch o.kind {
		case 'W':
			written = append(written, o.data...)
		case 'S':
			outs = append(outs, hx(append(append([]byte{}, o.data...), refCMAC(b, written)...)))
		case 'R':
			written = nil
		}
	}
	return "ok " + joinTok(outs)
}
func oracleCMAC(a []string) string {
	b := cipherFromSpec(a[3])
	if n := b.BlockSize(); n != 8 && n != 16 {
		return "*"
	}
	return refCMACHistory(b, parseCmacOps(a[2]))
}

// one CMAC case: trace the real code and the reference to collect the block-function pairs
func cmacCase(spec string, ops []cmacOp, tag string) Case {
	b := cipherFromSpec(spec)
	n := b.BlockSize()
	ps := newPairSet()
	tb := &traceBlock{b: b, enc: ps}
	valid := n == 8 || n == 16
	if valid {
		refCMACHistory(tb, ops)
	}
	func() {
		defer func() { recover() }()
		runCMACImpl(tb, ops)
	}()
	args := []string{strconv.Itoa(n), ps.tok(), cmacOpsTok(ops), spec}
	c := Case{Op: "c12.cmac", MArgs: args, Tag: tag}
	if valid {
		c.SArgs = args
	}
	return c
}

// ------------------------------------------------------------------------------------------
// PKCS#7

func implPad(a []string) string {
	b, _ := strconv.Atoi(a[1])
	m := unhx(a[0])
	out, err := pkcs7.Pad(m[:len(m):len(m)], uint8(b))
	if err != nil {
		return "err"
	}
	return okHex(out)
}
func implUnpad(a []string) string {
	out, err := pkcs7.Unpad(unhx(a[0]))
	if err != nil {
		return "err"
	}
	return okHex(out)
}
func implPadRT(a []string) string {
	b, _ := strconv.Atoi(a[1])
	m := unhx(a[0])
	p, err := pkcs7.Pad(m[:len(m):len(m)], uint8(b))
	if err != nil {
		return "err"
	}
	out, err := pkcs7.Unpad(p)
	if err != nil {
		return "err"
	}
	return okHex(out)
}

// ------------------------------------------------------------------------------------------
// GPP

// MS-GPPREF 2.2.1.1.4, transcribed from the specification (NOT read from the repo)
var msGPPKey = []byte{
	0x4e, 0x99, 0x06, 0xe8, 0xfc, 0xb6, 0x6c, 0xc9, 0xfa, 0xf4, 0x93, 0x10, 0x62, 0x0f, 0xfe, 0xe8,
	0xf4, 0x96, 0xe8, 0x06, 0xcc, 0x05, 0x79, 0x90, 0x20, 0x9b, 0x09, 0xa4, 0x33, 0xb6, 0x6c, 0x1b,
}

func implGppEnc(a []string) string {
	s, err := gppp.GPPPEncrypt(string(unhx(a[0])))
	if err != nil {
		return "err"
	}
	return okStr(s)
}
func implGppDecB(a []string) string {
	s, err := gppp.GPPPDecryptBytes(unhx(a[0]))
	if err != nil {
		return "err"
	}
	return okStr(s)
}
func implGppDec64(a []string) string {
	s, err := gppp.GPPPDecryptBase64(string(unhx(a[0])))
	if err != nil {
		return "err"
	}
	return okStr(s)
}
func implGppRT(a []string) string {
	e, err := gppp.GPPPEncrypt(string(unhx(a[0])))
	if err != nil {
		return "err"
	}
	s, err := gppp.GPPPDecryptBase64(e)
	if err != nil {
		return "err"
	}
	return okStr(s)
}

// reference: AES-256-CBC, zero IV, PKCS#7, UTF-16LE — all with the Go standard library
func refGppCipher(key []byte, plain16 []byte) []byte {
	b, err := aes.NewCipher(key)
	if err != nil {
		panic(err)
	}
	k := 16 - len(plain16)%16
	p := append(append([]byte{}, plain16...), bytes.Repeat([]byte{byte(k)}, k)...)
	out := make([]byte, len(p))
	cipher.NewCBCEncrypter(b, make([]byte, 16)).CryptBlocks(out, p)
	return out
}
func stdUTF16LE(s string) []byte {
	us := utf16.Encode([]rune(s))
	out := make([]byte, 0, 2*len(us))
	for _, u := range us {
		out = append(out, byte(u), byte(u>>8))
	}
	return out
}
func oracleGppEnc(a []string) string {
	pw := unhx(a[0])
	if string([]rune(string(pw))) != string(pw) {
		return "*"
	}
	return okStr(base64.StdEncoding.EncodeToString(refGppCipher(msGPPKey, stdUTF16LE(string(pw)))))
}

// true AES pairs for every whole block of a ciphertext: (D(C_i), C_i) for the encrypt direction,
// (C_i, D(C_i)) for the decrypt direction
func aesPairs(key []byte, ct []byte, e, d *pairSet) {
	b, err := aes.NewCipher(key)
	if err != nil {
		panic(err)
	}
	for i := 0; i+16 <= len(ct); i += 16 {
		c := ct[i : i+16]
		p := make([]byte, 16)
		b.Decrypt(p, c)
		if e != nil {
			e.add(p, c)
		}
		if d != nil {
			d.add(c, p)
		}
	}
}

// every byte string some reading of `s` as base64 could denote (stdlib only; no repo logic)
func b64Candidates(s string) [][]byte {
	var out [][]byte
	try := func(t string) {
		if b, err := base64.StdEncoding.DecodeString(t); err == nil {
			out = append(out, b)
		}
	}
	try(s)
	try(s + "=")
	try(s + "==")
	if len(s) > 0 {
		try(s[:len(s)-1])
	}
	stripped := strings.TrimRight(s, "=")
	if b, err := base64.RawStdEncoding.DecodeString(stripped); err == nil {
		out = append(out, b)
	}
	// non-canonical trailing bits: decode leniently by padding and retrying
	for _, padn := range []string{"", "=", "=="} {
		try(stripped + padn)
	}
	return out
}

func gppEncCase(pw []byte, tag string) Case {
	em, es := newPairSet(), newPairSet()
	// pairs the model needs: from the real output (under the repo's key)
	if s, err := gppp.GPPPEncrypt(string(pw)); err == nil {
		if ct, err := base64.StdEncoding.DecodeString(s); err == nil {
			aesPairs(gppp.GPPP_AES_KEY, ct, em, nil)
		}
	}
	ref := refGppCipher(msGPPKey, stdUTF16LE(string(pw)))
	aesPairs(msGPPKey, ref, es, nil)
	if bytes.Equal(gppp.GPPP_AES_KEY, msGPPKey) {
		aesPairs(msGPPKey, ref, em, nil)
	}
	return Case{Op: "c12.gpp.enc", MArgs: []string{hx(pw), em.tok()}, SArgs: []string{hx(pw), es.tok(), hx(msGPPKey)}, Tag: tag}
}
func gppDecBCase(ct []byte, tag string) Case {
	dm, ds := newPairSet(), newPairSet()
	aesPairs(gppp.GPPP_AES_KEY, ct, nil, dm)
	aesPairs(msGPPKey, ct, nil, ds)
	return Case{Op: "c12.gpp.decb", MArgs: []string{hx(ct), dm.tok()}, SArgs: []string{hx(ct), ds.tok(), hx(msGPPKey)}, Tag: tag}
}
func gppDec64Case(s []byte, tag string) Case {
	dm, ds := newPairSet(), newPairSet()
	for _, ct := range b64Candidates(string(s)) {
		aesPairs(gppp.GPPP_AES_KEY, ct, nil, dm)
		aesPairs(msGPPKey, ct, nil, ds)
	}
	return Case{Op: "c12.gpp.dec64", MArgs: []string{hx(s), dm.tok()}, SArgs: []string{hx(s), ds.tok(), hx(msGPPKey)}, Tag: tag}
}
func gppRTCase(pw []byte, tag string) Case {
	e, d := newPairSet(), newPairSet()
	if s, err := gppp.GPPPEncrypt(string(pw)); err == nil {
		if ct, err := base64.StdEncoding.DecodeString(s); err == nil {
			aesPairs(gppp.GPPP_AES_KEY, ct, e, d)
		}
	}
	ref := refGppCipher(gppp.GPPP_AES_KEY, stdUTF16LE(string(pw)))
	aesPairs(gppp.GPPP_AES_KEY, ref, e, d)
	args := []string{hx(pw), e.tok(), d.tok()}
	return Case{Op: "c12.gpp.rt", MArgs: args, SArgs: args, Tag: tag}
}

// ------------------------------------------------------------------------------------------
// generators

// split data at random points; empty chunks included
func randChunks(r *Rng, data []byte) [][]byte {
	var out [][]byte
	mode := r.Intn(5)
	switch mode {
	case 0: // one call
		return [][]byte{data}
	case 1: // byte at a time
		for i := range data {
			out = append(out, data[i:i+1])
		}
		return out
	}
	i := 0
	for i < len(data) {
		if r.Intn(5) == 0 {
			out = append(out, nil)
			continue
		}
		var k int
		switch r.Intn(4) {
		case 0:
			k = 1
		case 1:
			k = r.Pick(7, 8, 9, 15, 16, 17, 31, 32, 33)
		default:
			k = 1 + r.Intn(len(data)-i)
		}
		if i+k > len(data) {
			k = len(data) - i
		}
		out = append(out, data[i:i+k])
		i += k
	}
	if r.Intn(3) == 0 {
		out = append(out, nil)
	}
	return out
}

var (
	rfc4493Key = "2b7e151628aed2a6abf7158809cf4f3c"
	rfc4493Msg = "6bc1bee22e409f96e93d7e117393172aae2d8a571e03ac9c9eb76fac45af8e5130c81c46a35ce411e5fbc1191a0a52eff69f2445df4f9b17ad2b417be66c3710"
	rfc4493    = []struct {
		n   int
		mac string
	}{{0, "bb1d6929e95937287fa37d129b756746"}, {16, "070a16b46b4d4144f79bdd9dd04a287c"}, {40, "dfa66747de9ae63030ca32611497c827"}, {64, "51f0bebf7e3b9d92fc49741779363cfe"}}
)

func unicodePassword(r *Rng, n int) []byte {
	var rs []rune
	for i := 0; i < n; i++ {
		switch r.Intn(8) {
		case 0, 1, 2:
			rs = append(rs, rune(0x20+r.Intn(0x5f)))
		case 3:
			rs = append(rs, rune(0xa0+r.Intn(0x700)))
		case 4:
			rs = append(rs, rune(0x4e00+r.Intn(0x5000)))
		case 5:
			rs = append(rs, rune(0x1f300+r.Intn(0x400))) // astral
		case 6:
			rs = append(rs, rune(r.Pick(0, 0x7f, 0x80, 0x7ff, 0x800, 0xd7ff, 0xe000, 0xfffd, 0xffff, 0x10000, 0x10ffff)))
		default:
			c := rune(r.Intn(0x110000))
			if c >= 0xd800 && c < 0xe000 {
				c = 0xe000
			}
			rs = append(rs, c)
		}
	}
	return []byte(string(rs))
}

func genC12(r *Rng, tier string) []Case {
	thorough := tier == "thorough"
	var cs []Case
	scale := 3
	if thorough {
		scale = 40
	}

	// ---- RC4 ------------------------------------------------------------------------------
	// the oracle itself against RFC 6229 (key 0102030405, first 16 keystream bytes)
	{
		c, _ := stdrc4.NewCipher([]byte{1, 2, 3, 4, 5})
		ks := make([]byte, 16)
		c.XORKeyStream(ks, ks)
		if hx(ks) != "b2396305f03dc027ccc3524a0a1118a8" {
			panic("harness: crypto/rc4 does not reproduce RFC 6229")
		}
	}
	rr := r.Fork("rc4")
	rc4Case := func(key []byte, ops []rc4Call, tag string) {
		args := []string{hx(key), rc4OpsTok(ops)}
		c := Case{Op: "c12.rc4", MArgs: args, SArgs: args, Tag: tag}
		for _, o := range ops {
			if o.reset {
				c.SArgs = nil // the property has no clause about Reset: model/implementation tie only
			}
		}
		cs = append(cs, c)
	}
	plainCalls := func(rg *Rng, chunks [][]byte) []rc4Call {
		var ops []rc4Call
		for _, ch := range chunks {
			rel := "x"
			if rg.Bool() {
				rel = "0" // in place
			}
			ops = append(ops, rc4Call{src: ch, dstLen: len(ch) + rg.Pick(0, 0, 0, 1, 7), rel: rel})
		}
		return ops
	}
	for rep := 0; rep < scale; rep++ {
		for k := 1; k <= 256; k++ { // every key length
			n := rr.Pick(0, 1, 15, 16, 17, 31, 32, 33, 255, 256, 257, 300, 513, 700)
			if rr.Intn(3) == 0 {
				n = rr.Intn(1200)
			}
			data := rr.Bytes(n)
			rc4Case(rr.Bytes(k), plainCalls(rr, randChunks(rr, data)), "rc4.keylen-grid")
		}
	}
	for _, k := range []int{0, 257, 258, 300, 1000} { // invalid key sizes
		rc4Case(rr.Bytes(k), plainCalls(rr, [][]byte{rr.Bytes(5)}), "rc4.bad-key-size")
	}
	// RFC 6229 keys, long keystreams (offsets up to 4112 are tabulated there)
	for _, kh := range []string{"0102030405", "01020304050607", "0102030405060708", "0102030405060708090a", "0102030405060708090a0b0c0d0e0f10",
		"0102030405060708090a0b0c0d0e0f101112131415161718", "0102030405060708090a0b0c0d0e0f101112131415161718191a1b1c1d1e1f20",
		"833222772a", "1910833222772a", "641910833222772a", "8b37641910833222772a", "ebb46227c6cc8b37641910833222772a"} {
		rc4Case(unhx(kh), plainCalls(rr, randChunks(rr, make([]byte, 4112+16))), "rc4.rfc6229-keys")
	}
	// aliasing / short destination
	for i := 0; i < 400*scale; i++ {
		key := rr.Bytes(1 + rr.Intn(32))
		var ops []rc4Call
		for j := 0; j < 1+rr.Intn(5); j++ {
			n := rr.Pick(0, 1, 2, 5, 16, 40)
			dl := n + rr.Pick(-1, 0, 0, 0, 1, 3, -n)
			if dl < 0 {
				dl = 0
			}
			rel := "x"
			switch rr.Intn(4) {
			case 0:
				rel = "0"
			case 1, 2:
				rel = strconv.Itoa(rr.Pick(1, -1, n-1, n, n+1, -n, -n+1, -n-1, -dl, -dl+1, -dl-1, 2, -2, rr.Intn(50)-25))
			}
			ops = append(ops, rc4Call{src: rr.Bytes(n), dstLen: dl, rel: rel})
		}
		rc4Case(key, ops, "rc4.aliasing")
	}
	// Reset inside a history (tie only)
	for i := 0; i < 60*scale; i++ {
		key := rr.Bytes(1 + rr.Intn(40))
		var ops []rc4Call
		for j := 0; j < 1+rr.Intn(6); j++ {
			if rr.Intn(3) == 0 {
				ops = append(ops, rc4Call{reset: true})
			} else {
				n := rr.Intn(40)
				ops = append(ops, rc4Call{src: rr.Bytes(n), dstLen: n, rel: "x"})
			}
		}
		rc4Case(key, ops, "rc4.reset")
	}

	// ---- CMAC -----------------------------------------------------------------------------
	rc := r.Fork("cmac")
	// the reference against RFC 4493
	{
		b := cipherFromSpec("aes:" + rfc4493Key)
		msg := unhx(rfc4493Msg)
		for _, v := range rfc4493 {
			if hx(refCMAC(b, msg[:v.n])) != v.mac {
				panic("harness: reference CMAC does not reproduce RFC 4493")
			}
			cs = append(cs, cmacCase("aes:"+rfc4493Key, []cmacOp{{'W', msg[:v.n]}, {'S', nil}}, "cmac.rfc4493"))
		}
		// SP 800-38B three-key TDES examples
		tk := "8aa83bf8cbda10620bc1bf19fbb6cd58bc313d4a371ca8b5"
		for _, v := range []struct {
			n   int
			mac string
		}{{0, "b7a688e122ffaf95"}, {8, "8e8f293136283797"}, {20, "743ddbe0ce2dc2ed"}, {32, "33e6b1092400eae5"}} {
			if hx(refCMAC(cipherFromSpec("3des:"+tk), msg[:v.n])) != v.mac {
				panic("harness: reference CMAC does not reproduce the SP 800-38B TDES example " + strconv.Itoa(v.n))
			}
			cs = append(cs, cmacCase("3des:"+tk, []cmacOp{{'W', msg[:v.n]}, {'S', nil}}, "cmac.sp800-38b-tdes"))
		}
	}
	randCipher := func(rg *Rng) string {
		switch rg.Intn(8) {
		case 0:
			return "aes:" + hx(rg.Bytes(16))
		case 1:
			return "aes:" + hx(rg.Bytes(24))
		case 2:
			return "aes:" + hx(rg.Bytes(32))
		case 3:
			return "des:" + hx(rg.Bytes(8))
		case 4:
			return "3des:" + hx(rg.Bytes(24))
		case 5:
			return "toy:8:" + hx(rg.Bytes(4))
		case 6:
			return "toy:16:" + hx(rg.Bytes(4))
		default:
			return "aes:" + hx(rg.Bytes(16))
		}
	}
	bsOf := func(spec string) int { return cipherFromSpec(spec).BlockSize() }
	// message lengths around block boundaries x chunkings
	for rep := 0; rep < 3*scale; rep++ {
		for _, blocks := range []int{0, 1, 2, 3, 4, 9} {
			for _, delta := range []int{-1, 0, 1} {
				spec := randCipher(rc)
				n := bsOf(spec)
				l := blocks*n + delta
				if l < 0 {
					continue
				}
				msg := rc.Bytes(l)
				var ops []cmacOp
				for _, ch := range randChunks(rc, msg) {
					ops = append(ops, cmacOp{'W', ch})
				}
				ops = append(ops, cmacOp{'S', nil})
				cs = append(cs, cmacCase(spec, ops, "cmac.boundary-chunked"))
			}
		}
	}
	// every split into two writes, all lengths 0..3n+1 (one cipher per block size)
	for _, spec := range []string{"aes:" + hx(rc.Bytes(16)), "des:" + hx(rc.Bytes(8))} {
		n := bsOf(spec)
		maxl := 2*n + 1
		if thorough {
			maxl = 3*n + 1
		}
		for l := 0; l <= maxl; l++ {
			msg := rc.Bytes(l)
			for cut := 0; cut <= l; cut++ {
				cs = append(cs, cmacCase(spec, []cmacOp{{'W', msg[:cut]}, {'W', msg[cut:]}, {'S', nil}}, "cmac.all-two-splits"))
			}
		}
	}
	// Write / Sum / Reset interleavings
	for i := 0; i < 500*scale; i++ {
		spec := randCipher(rc)
		n := bsOf(spec)
		var ops []cmacOp
		for j := 0; j < 1+rc.Intn(10); j++ {
			switch rc.Intn(7) {
			case 0:
				ops = append(ops, cmacOp{kind: 'R'})
			case 1, 2:
				var pfx []byte
				if rc.Intn(3) == 0 {
					pfx = rc.Bytes(1 + rc.Intn(5))
				}
				ops = append(ops, cmacOp{'S', pfx})
			default:
				l := rc.Pick(0, 1, n-1, n, n+1, 2*n-1, 2*n, 2*n+1, rc.Intn(4*n))
				ops = append(ops, cmacOp{'W', rc.Bytes(l)})
			}
		}
		ops = append(ops, cmacOp{'S', nil})
		if rc.Intn(4) == 0 {
			ops = append(ops, cmacOp{'S', nil})
		}
		cs = append(cs, cmacCase(spec, ops, "cmac.sum-reset-interleaved"))
	}
	// long messages
	for i := 0; i < 10*scale; i++ {
		spec := randCipher(rc)
		var ops []cmacOp
		for _, ch := range randChunks(rc, rc.Bytes(200+rc.Intn(800))) {
			ops = append(ops, cmacOp{'W', ch})
		}
		ops = append(ops, cmacOp{'S', nil})
		cs = append(cs, cmacCase(spec, ops, "cmac.long"))
	}
	// block sizes SP 800-38B does not define: New panics (tie only)
	for _, n := range []int{0, 1, 4, 12, 24, 32} {
		cs = append(cs, cmacCase("toy:"+strconv.Itoa(n)+":"+hx(rc.Bytes(2)), []cmacOp{{'W', rc.Bytes(3)}, {'S', nil}}, "cmac.bad-block-size"))
	}

	// ---- PKCS#7 ---------------------------------------------------------------------------
	rp := r.Fork("pkcs7")
	padCase := func(m []byte, b int, tag string) {
		args := []string{hx(m), strconv.Itoa(b)}
		cs = append(cs, Case{Op: "c12.pad", MArgs: args, SArgs: args, Tag: tag})
		cs = append(cs, Case{Op: "c12.padrt", MArgs: args, SArgs: args, Tag: tag + ".roundtrip"})
	}
	unpadCase := func(m []byte, tag string) {
		args := []string{hx(m)}
		cs = append(cs, Case{Op: "c12.unpad", MArgs: args, SArgs: args, Tag: tag})
	}
	for b := 0; b <= 255; b++ { // every block size (0 = error) x message lengths around multiples
		lens := []int{0, 1, b - 1, b, b + 1, 2*b - 1, 2 * b, 2*b + 1}
		if thorough {
			lens = nil
			for l := 0; l <= 2*b+1; l++ {
				lens = append(lens, l)
			}
		}
		for _, l := range lens {
			if l < 0 {
				continue
			}
			padCase(rp.Bytes(l), b, "pkcs7.pad-grid")
		}
	}
	// every buffer up to length L over a small alphabet
	exhaust := func(alpha []byte, maxLen int, tag string) {
		var rec func(prefix []byte)
		rec = func(prefix []byte) {
			unpadCase(append([]byte{}, prefix...), tag)
			if len(prefix) == maxLen {
				return
			}
			for _, a := range alpha {
				rec(append(prefix, a))
			}
		}
		rec(nil)
	}
	if thorough {
		exhaust([]byte{0, 1, 2, 3}, 8, "pkcs7.unpad-exhaustive-0123")
		exhaust([]byte{0, 1, 2, 4, 5, 255}, 5, "pkcs7.unpad-exhaustive-wide")
	} else {
		exhaust([]byte{0, 1, 2, 3}, 6, "pkcs7.unpad-exhaustive-0123")
		exhaust([]byte{0, 2, 5, 255}, 5, "pkcs7.unpad-exhaustive-wide")
	}
	// long buffers: valid paddings of every length, then one byte damaged
	for p := 1; p <= 255; p++ {
		body := rp.Bytes(rp.Pick(0, 1, 3, 300))
		buf := append(append([]byte{}, body...), bytes.Repeat([]byte{byte(p)}, p)...)
		unpadCase(buf, "pkcs7.unpad-valid")
		bad := append([]byte{}, buf...)
		bad[len(bad)-1-rp.Intn(p)] ^= byte(1 + rp.Intn(255))
		unpadCase(bad, "pkcs7.unpad-damaged")
		// the padding byte farthest from the end (loop index p-1), with and without a body in front
		first := append([]byte{}, buf...)
		first[len(first)-p] ^= byte(1 + rp.Intn(255))
		unpadCase(first, "pkcs7.unpad-damaged-first-pad-byte")
		bare := bytes.Repeat([]byte{byte(p)}, p)
		bare[0] ^= byte(1 + rp.Intn(255))
		unpadCase(bare, "pkcs7.unpad-damaged-first-pad-byte")
		if p > 1 { // padding longer than the buffer
			unpadCase(bytes.Repeat([]byte{byte(p)}, p-1), "pkcs7.unpad-short")
		}
	}
	for i := 0; i < 300*scale; i++ {
		unpadCase(rp.Bytes(rp.Pick(1, 2, 16, 255, 256, 257, 600)), "pkcs7.unpad-random")
	}
	unpadCase(bytes.Repeat([]byte{0}, 300), "pkcs7.unpad-zero")
	unpadCase(bytes.Repeat([]byte{255}, 254), "pkcs7.unpad-short")
	unpadCase(bytes.Repeat([]byte{255}, 255), "pkcs7.unpad-valid")
	unpadCase(bytes.Repeat([]byte{255}, 256), "pkcs7.unpad-valid")

	// ---- GPP ------------------------------------------------------------------------------
	rg := r.Fork("gpp")
	var pws [][]byte
	for _, s := range []string{"", "a", "Password1", "Local*P4ssword!", "pässwörd", "пароль", "密码密码密码密码", "😀", "a😀b𝄞c", "1234567", "12345678", "123456789", "\U0010ffff\U00010000"} {
		pws = append(pws, []byte(s))
	}
	for i := 0; i < 150*scale; i++ {
		pws = append(pws, unicodePassword(rg, rg.Pick(0, 1, 2, 7, 8, 9, 15, 16, 17, rg.Intn(40))))
	}
	for _, pw := range pws {
		cs = append(cs, gppEncCase(pw, "gpp.encrypt-unicode"))
		cs = append(cs, gppRTCase(pw, "gpp.roundtrip-unicode"))
		ct := refGppCipher(msGPPKey, stdUTF16LE(string(pw)))
		cs = append(cs, gppDecBCase(ct, "gpp.decrypt-bytes-valid"))
		enc := base64.StdEncoding.EncodeToString(ct)
		cs = append(cs, gppDec64Case([]byte(enc), "gpp.decrypt-b64-padded"))
		cs = append(cs, gppDec64Case([]byte(strings.TrimRight(enc, "=")), "gpp.decrypt-b64-unpadded"))
		if strings.HasSuffix(enc, "==") {
			cs = append(cs, gppDec64Case([]byte(enc[:len(enc)-1]), "gpp.decrypt-b64-partial-pad"))
		}
	}
	// invalid UTF-8 passwords (the property speaks about Unicode strings: spec silent)
	for i := 0; i < 40*scale; i++ {
		pw := rg.BytesFrom(1+rg.Intn(12), []byte{'a', 0x80, 0xbf, 0xc0, 0xc3, 0xe0, 0xed, 0xa0, 0xf0, 0x90, 0xf4, 0xff, 0xe2, 0x82, 0xac})
		cs = append(cs, gppEncCase(pw, "gpp.encrypt-invalid-utf8"))
		cs = append(cs, gppRTCase(pw, "gpp.roundtrip-invalid-utf8"))
	}
	// arbitrary plaintexts under every padding length: odd lengths, lone surrogates, bad padding
	for i := 0; i < 300*scale; i++ {
		var plain []byte
		switch rg.Intn(4) {
		case 0:
			plain = rg.Bytes(rg.Intn(40))
		case 1: // UTF-16 with surrogates in random order
			for j := 0; j < rg.Intn(12); j++ {
				u := uint16(rg.Pick(0x41, 0xd800, 0xdbff, 0xdc00, 0xdfff, 0xe000, 0xfffd, 0xd83d, 0xde00, rg.Intn(0x10000)))
				plain = append(plain, byte(u), byte(u>>8))
			}
		default:
			plain = stdUTF16LE(string(unicodePassword(rg, rg.Intn(12))))
			if rg.Intn(3) == 0 && len(plain) > 0 {
				plain = plain[:len(plain)-1] // odd length
			}
		}
		ct := refGppCipher(msGPPKey, plain)
		tag := "gpp.decrypt-arbitrary-plaintext"
		switch rg.Intn(6) {
		case 0: // damage the last block (padding almost surely invalid)
			ct[len(ct)-1-rg.Intn(16)] ^= byte(1 + rg.Intn(255))
			tag = "gpp.decrypt-damaged"
		case 1: // not a whole number of blocks
			ct = ct[:len(ct)-1-rg.Intn(15)]
			tag = "gpp.decrypt-partial-block"
		}
		cs = append(cs, gppDecBCase(ct, tag))
		enc := base64.StdEncoding.EncodeToString(ct)
		switch rg.Intn(8) {
		case 0:
			enc = strings.TrimRight(enc, "=")
		case 1:
			enc = enc + "="
		case 2:
			enc = enc[:len(enc)/2] + "\n" + enc[len(enc)/2:]
		case 3:
			enc = enc[:rg.Intn(len(enc)+1)]
		case 4:
			k := rg.Intn(len(enc))
			enc = enc[:k] + string(rg.BytesFrom(1, []byte("=!-_ \r\n*"))) + enc[k:]
		case 5:
			enc = strings.TrimRight(enc, "=") + "===="
		}
		cs = append(cs, gppDec64Case([]byte(enc), "gpp.decrypt-b64-variants"))
	}
	cs = append(cs, gppDecBCase(nil, "gpp.decrypt-empty"))
	cs = append(cs, gppDec64Case(nil, "gpp.decrypt-empty"))
	for i := 0; i < 60*scale; i++ {
		cs = append(cs, gppDecBCase(rg.Bytes(16*(1+rg.Intn(3))), "gpp.decrypt-random-blocks"))
		cs = append(cs, gppDec64Case(rg.BytesFrom(rg.Intn(50), []byte("ABCDwxyz0189+/=\n")), "gpp.decrypt-b64-random"))
	}

	// ---- standard-library primitives against Go itself ----------------------------------------
	rq := r.Fork("prim")
	for i := 0; i < 400*scale; i++ {
		b := rq.Bytes(rq.Intn(40))
		cs = append(cs, Case{Op: "c12.prim.b64e", MArgs: []string{hx(b)}, Tag: "prim.base64"})
		enc := base64.StdEncoding.EncodeToString(b)
		switch rq.Intn(6) {
		case 0:
			enc = strings.TrimRight(enc, "=")
		case 1:
			k := rq.Intn(len(enc) + 1)
			enc = enc[:k] + string(rq.BytesFrom(1, []byte("=\r\n A-"))) + enc[k:]
		case 2:
			enc = string(rq.BytesFrom(rq.Intn(14), []byte("AQgw=\n\r/+z")))
		case 3:
			enc = enc + string(rq.BytesFrom(rq.Intn(3), []byte("=\n\rA")))
		}
		cs = append(cs, Case{Op: "c12.prim.b64d", MArgs: []string{hx([]byte(enc))}, Tag: "prim.base64"})
		s := rq.BytesFrom(rq.Intn(12), []byte{'a', 0x7f, 0x80, 0x8f, 0x90, 0x9f, 0xa0, 0xbf, 0xc0, 0xc1, 0xc2, 0xdf, 0xe0, 0xe1, 0xec, 0xed, 0xee, 0xef, 0xf0, 0xf1, 0xf3, 0xf4, 0xf5, 0xff})
		if rq.Bool() {
			s = unicodePassword(rq, rq.Intn(8))
			if rq.Intn(3) == 0 && len(s) > 0 {
				s = s[:len(s)-1]
			}
		}
		cs = append(cs, Case{Op: "c12.prim.runes", MArgs: []string{hx(s)}, Tag: "prim.utf8"})
		cs = append(cs, Case{Op: "c12.utf16le.enc", MArgs: []string{hx(s)}, Tag: "repo.utf16le"})
		var rs, us []string
		for j := 0; j < rq.Intn(8); j++ {
			rs = append(rs, strconv.Itoa(rq.Pick(0, 0x41, 0x7f, 0x80, 0x7ff, 0x800, 0xd7ff, 0xd800, 0xdbff, 0xdc00, 0xdfff, 0xe000, 0xffff, 0x10000, 0x10ffff, 0x110000, 0x7fffffff, rq.Intn(0x110000))))
			us = append(us, strconv.Itoa(rq.Pick(0x41, 0xd7ff, 0xd800, 0xdbff, 0xdc00, 0xdfff, 0xe000, 0xffff, 0xd83d, 0xde00, rq.Intn(0x10000))))
		}
		cs = append(cs, Case{Op: "c12.prim.string", MArgs: []string{joinTok(rs)}, Tag: "prim.utf8"})
		cs = append(cs, Case{Op: "c12.prim.u16e", MArgs: []string{joinTok(rs)}, Tag: "prim.utf16"})
		cs = append(cs, Case{Op: "c12.prim.u16d", MArgs: []string{joinTok(us)}, Tag: "prim.utf16"})
		// DecodeUTF16LE on even lengths (odd lengths panic: that is C07's subject, see KNOWN_FINDINGS)
		var ub []byte
		for _, u := range us {
			n, _ := strconv.Atoi(u)
			ub = append(ub, byte(n), byte(n>>8))
		}
		cs = append(cs, Case{Op: "c12.utf16le.dec", MArgs: []string{hx(ub)}, Tag: "repo.utf16le"})
		if i%16 == 0 { // odd length: DecodeUTF16LE indexes out of range (tie only; totality is C07's subject)
			cs = append(cs, Case{Op: "c12.utf16le.dec", MArgs: []string{hx(append(ub, 0x41))}, Tag: "repo.utf16le-odd"})
		}
	}
	return cs
}
