package main

// C09 — LLMNR codec vs RFC 1035.  Implementation side: network/llmnr (EncodeDomainName,
// DecodeDomainName, ValidateDomainName, Message.Encode, DecodeMessage).  Third, external codec:
// github.com/miekg/dns v1.0.14 (packs the same content with and without compression).
//
// Line syntax of a message (see lean/Driver/C09.lean): `<hdr> <qd> <an> <ns> <ar>`.

import (
	"encoding/binary"
	"encoding/hex"
	"fmt"
	"strconv"
	"strings"

	"github.com/TheManticoreProject/Manticore/network/llmnr"
	"github.com/miekg/dns"
)

func init() {
	register(&Prop{
		ID: "C09",
		Ops: []OpDef{
			{Name: "c09.encname", Impl: isolate("c09.encname", c09EncName), Oracle: c09EncNameOracle},
			{Name: "c09.decname", Impl: isolate("c09.decname", c09DecName)},
			{Name: "c09.validate", Impl: isolate("c09.validate", c09Validate)},
			{Name: "c09.roundtrip", Impl: isolate("c09.roundtrip", c09Roundtrip), Oracle: c09RoundtripOracle},
			{Name: "c09.decmsg", Impl: isolate("c09.decmsg", c09DecMsg), Oracle: c09DecMsgOracle},
		},
		Gen:   genC09,
		Extra: c09Extra,
	})
}

// ---- message values and their line syntax -------------------------------------------------

type c09Q struct {
	Name        string
	Type, Class uint16
}
type c09R struct {
	Name        string
	Type, Class uint16
	TTL         uint32
	RDLength    uint16
	RData       []byte
}
type c09Msg struct {
	ID, Flags, QD, AN, NS, AR uint16
	Q                         []c09Q
	An, Ns, Ar                []c09R
}

func c09ShowQ(qs []c09Q) string {
	if len(qs) == 0 {
		return "."
	}
	p := make([]string, len(qs))
	for i, q := range qs {
		p[i] = fmt.Sprintf("%s:%d:%d", hx([]byte(q.Name)), q.Type, q.Class)
	}
	return strings.Join(p, ";")
}
func c09ShowR(rs []c09R) string {
	if len(rs) == 0 {
		return "."
	}
	p := make([]string, len(rs))
	for i, r := range rs {
		p[i] = fmt.Sprintf("%s:%d:%d:%d:%d:%s", hx([]byte(r.Name)), r.Type, r.Class, r.TTL, r.RDLength, hx(r.RData))
	}
	return strings.Join(p, ";")
}
func (m *c09Msg) tokens() []string {
	return []string{fmt.Sprintf("%d:%d:%d:%d:%d:%d", m.ID, m.Flags, m.QD, m.AN, m.NS, m.AR),
		c09ShowQ(m.Q), c09ShowR(m.An), c09ShowR(m.Ns), c09ShowR(m.Ar)}
}

func c09Num(s string, bits int) uint64 {
	v, err := strconv.ParseUint(s, 10, bits)
	if err != nil {
		panic("harness: bad number " + s)
	}
	return v
}

func c09ParseMsg(a []string) *c09Msg {
	if len(a) != 5 {
		panic("harness: c09 message needs 5 tokens")
	}
	h := strings.Split(a[0], ":")
	m := &c09Msg{ID: uint16(c09Num(h[0], 16)), Flags: uint16(c09Num(h[1], 16)), QD: uint16(c09Num(h[2], 16)),
		AN: uint16(c09Num(h[3], 16)), NS: uint16(c09Num(h[4], 16)), AR: uint16(c09Num(h[5], 16))}
	if a[1] != "." {
		for _, e := range strings.Split(a[1], ";") {
			f := strings.Split(e, ":")
			m.Q = append(m.Q, c09Q{string(unhx(f[0])), uint16(c09Num(f[1], 16)), uint16(c09Num(f[2], 16))})
		}
	}
	rr := func(s string) []c09R {
		var out []c09R
		if s == "." {
			return nil
		}
		for _, e := range strings.Split(s, ";") {
			f := strings.Split(e, ":")
			out = append(out, c09R{string(unhx(f[0])), uint16(c09Num(f[1], 16)), uint16(c09Num(f[2], 16)),
				uint32(c09Num(f[3], 32)), uint16(c09Num(f[4], 16)), unhx(f[5])})
		}
		return out
	}
	m.An, m.Ns, m.Ar = rr(a[2]), rr(a[3]), rr(a[4])
	return m
}

func (m *c09Msg) toLib() *llmnr.Message {
	lm := &llmnr.Message{Header: llmnr.Header{ID: m.ID, Flags: m.Flags, QDCount: m.QD, ANCount: m.AN, NSCount: m.NS, ARCount: m.AR}}
	for _, q := range m.Q {
		lm.Questions = append(lm.Questions, llmnr.Question{Name: q.Name, Type: q.Type, Class: q.Class})
	}
	conv := func(rs []c09R) []llmnr.ResourceRecord {
		var out []llmnr.ResourceRecord
		for _, r := range rs {
			out = append(out, llmnr.ResourceRecord{Name: r.Name, Type: r.Type, Class: r.Class, TTL: r.TTL, RDLength: r.RDLength, RData: r.RData})
		}
		return out
	}
	lm.Answers, lm.Authority, lm.Additional = conv(m.An), conv(m.Ns), conv(m.Ar)
	return lm
}

func c09FromLib(lm *llmnr.Message) *c09Msg {
	m := &c09Msg{ID: lm.ID, Flags: lm.Flags, QD: lm.QDCount, AN: lm.ANCount, NS: lm.NSCount, AR: lm.ARCount}
	for _, q := range lm.Questions {
		m.Q = append(m.Q, c09Q{q.Name, q.Type, q.Class})
	}
	conv := func(rs []llmnr.ResourceRecord) []c09R {
		var out []c09R
		for _, r := range rs {
			out = append(out, c09R{r.Name, r.Type, r.Class, r.TTL, r.RDLength, r.RData})
		}
		return out
	}
	m.An, m.Ns, m.Ar = conv(lm.Answers), conv(lm.Authority), conv(lm.Additional)
	return m
}

// ---- the real library ----------------------------------------------------------------------

func c09EncName(a []string) string {
	b, err := llmnr.EncodeDomainName(string(unhx(a[0])))
	if err != nil {
		return "err"
	}
	return okHex(b)
}

func c09DecName(a []string) string {
	off, _ := strconv.Atoi(a[1])
	name, next, err := llmnr.DecodeDomainName(unhx(a[0]), off)
	if err != nil {
		return "err"
	}
	return fmt.Sprintf("ok %s %d", hx([]byte(name)), next)
}

func c09Validate(a []string) string {
	if llmnr.ValidateDomainName(string(unhx(a[0]))) != nil {
		return "err"
	}
	return "ok 1"
}

func c09Roundtrip(a []string) string {
	lm := c09ParseMsg(a).toLib()
	w, err := lm.Encode()
	if err != nil {
		return "err"
	}
	d, err := llmnr.DecodeMessage(w)
	if err != nil {
		return "ok " + hxOwn(w) + " decode-err"
	}
	toks := strings.Join(c09FromLib(d).tokens(), " ")
	return "ok " + hxOwn(w) + " " + toks
}

func c09DecMsg(a []string) string {
	if c13Used(a) { // what an earlier decoding of the same bytes handed out is scribbled on first
		if d0, err := llmnr.DecodeMessage(unhx(a[0])); err == nil {
			scribble(d0)
		}
	}
	d, err := llmnr.DecodeMessage(unhx(a[0]))
	if err != nil {
		return "err"
	}
	return "ok " + strings.Join(c09FromLib(d).tokens(), " ")
}

// ---- independent side: label lists, a compressing serializer, miekg/dns ----------------------

// labels of a Go-string name as the property reads it ("" and "." are the root)
func c09Labels(s string) [][]byte {
	if s == "" || s == "." {
		return nil
	}
	var out [][]byte
	for _, p := range strings.Split(s, ".") {
		out = append(out, []byte(p))
	}
	return out
}

func c09ValidLabels(ls [][]byte) bool {
	n := 1
	for _, l := range ls {
		if len(l) < 1 || len(l) > 63 {
			return false
		}
		n += 1 + len(l)
	}
	return n <= 255
}

func c09Text(ls [][]byte) string {
	if len(ls) == 0 {
		return "."
	}
	p := make([]string, len(ls))
	for i, l := range ls {
		p[i] = string(l)
	}
	return strings.Join(p, ".")
}

// canonical content: what a decoder must return for the message (counts and RDLength recomputed)
func (m *c09Msg) canonical() *c09Msg {
	c := &c09Msg{ID: m.ID, Flags: m.Flags, QD: uint16(len(m.Q)), AN: uint16(len(m.An)), NS: uint16(len(m.Ns)), AR: uint16(len(m.Ar))}
	for _, q := range m.Q {
		c.Q = append(c.Q, c09Q{c09Text(c09Labels(q.Name)), q.Type, q.Class})
	}
	conv := func(rs []c09R) []c09R {
		var out []c09R
		for _, r := range rs {
			out = append(out, c09R{c09Text(c09Labels(r.Name)), r.Type, r.Class, r.TTL, uint16(len(r.RData)), r.RData})
		}
		return out
	}
	c.An, c.Ns, c.Ar = conv(m.An), conv(m.Ns), conv(m.Ar)
	return c
}

func (m *c09Msg) representable() bool {
	for _, q := range m.Q {
		if !c09ValidLabels(c09Labels(q.Name)) {
			return false
		}
	}
	for _, rs := range [][]c09R{m.An, m.Ns, m.Ar} {
		if len(rs) > 65535 {
			return false
		}
		for _, r := range rs {
			if !c09ValidLabels(c09Labels(r.Name)) || len(r.RData) > 65535 {
				return false
			}
		}
	}
	return len(m.Q) <= 65535
}

// presentation format of miekg/dns: every byte that is not a plain letter or digit is written \DDD
func c09Presentation(ls [][]byte) string {
	if len(ls) == 0 {
		return "."
	}
	var sb strings.Builder
	for _, l := range ls {
		for _, c := range l {
			if c >= 'a' && c <= 'z' || c >= 'A' && c <= 'Z' || c >= '0' && c <= '9' {
				sb.WriteByte(c)
			} else {
				fmt.Fprintf(&sb, "\\%03d", c)
			}
		}
		sb.WriteByte('.')
	}
	return sb.String()
}

func (m *c09Msg) toMiekg(compress bool) *dns.Msg {
	d := new(dns.Msg)
	d.Id = m.ID
	f := m.Flags
	d.Response = f&0x8000 != 0
	d.Opcode = int(f>>11) & 0xF
	d.Authoritative = f&0x0400 != 0
	d.Truncated = f&0x0200 != 0
	d.RecursionDesired = f&0x0100 != 0
	d.RecursionAvailable = f&0x0080 != 0
	d.Zero = f&0x0040 != 0
	d.AuthenticatedData = f&0x0020 != 0
	d.CheckingDisabled = f&0x0010 != 0
	d.Rcode = int(f & 0xF)
	d.Compress = compress
	for _, q := range m.Q {
		d.Question = append(d.Question, dns.Question{Name: c09Presentation(c09Labels(q.Name)), Qtype: q.Type, Qclass: q.Class})
	}
	conv := func(rs []c09R) []dns.RR {
		var out []dns.RR
		for _, r := range rs {
			out = append(out, &dns.RFC3597{Hdr: dns.RR_Header{Name: c09Presentation(c09Labels(r.Name)), Rrtype: r.Type, Class: r.Class, Ttl: r.TTL},
				Rdata: hex.EncodeToString(r.RData)})
		}
		return out
	}
	d.Answer, d.Ns, d.Extra = conv(m.An), conv(m.Ns), conv(m.Ar)
	return d
}

// oracle of c09.encname: miekg's PackDomainName on the presentation form of the labels
func c09EncNameOracle(a []string) string {
	ls := c09Labels(string(unhx(a[0])))
	if !c09ValidLabels(ls) {
		return "err"
	}
	buf := make([]byte, 300)
	off, err := dns.PackDomainName(c09Presentation(ls), buf, 0, nil, false)
	if err != nil {
		return "*"
	}
	return okHex(buf[:off])
}

// oracle of c09.roundtrip: the uncompressed packing of the same content by miekg/dns, and the content itself
func c09RoundtripOracle(a []string) string {
	m := c09ParseMsg(a)
	if !m.representable() {
		return "*"
	}
	w, err := m.toMiekg(false).Pack()
	if err != nil {
		return "*"
	}
	return "ok " + hx(w) + " " + strings.Join(m.canonical().tokens(), " ")
}

// oracle of c09.decmsg: when the generator serialized a known message, its content
func c09DecMsgOracle(a []string) string {
	if len(a) != 6 {
		return "*"
	}
	return "ok " + strings.Join(a[1:], " ")
}

// an independent RFC 1035 serializer with compression: every label boundary of every name emitted
// (literal label starts, pointer positions, root octets) is a candidate target for later names.
type c09Occ struct {
	off    int
	suffix [][]byte
	kind   string // "label" | "pointer" | "root"
}

type c09Ser struct {
	buf  []byte
	occ  []c09Occ
	tags map[string]bool
}

func c09SameLabels(a, b [][]byte) bool {
	if len(a) != len(b) {
		return false
	}
	for i := range a {
		if string(a[i]) != string(b[i]) {
			return false
		}
	}
	return true
}

// putName appends a name; mode 0 = never compress, 1 = compress greedily (longest suffix, earliest
// occurrence), 2 = random admissible choice (including pointers to pointers and to root octets)
func (s *c09Ser) putName(ls [][]byte, mode int, r *Rng) {
	start := len(s.buf)
	k, target, kind := len(ls), -1, ""
	if mode != 0 {
		type cand struct {
			k int
			o c09Occ
		}
		var cands []cand
		for i := 0; i <= len(ls); i++ {
			for _, o := range s.occ {
				if o.off < 16384 && o.off < start && c09SameLabels(o.suffix, ls[i:]) {
					if i == len(ls) && mode == 1 {
						continue // a greedy compressor never points at a root octet
					}
					cands = append(cands, cand{i, o})
				}
			}
			if mode == 1 && len(cands) > 0 {
				break
			}
		}
		if len(cands) > 0 && (mode == 1 || r.Intn(4) != 0) {
			c := cands[0]
			if mode == 2 {
				c = cands[r.Intn(len(cands))]
			}
			k, target, kind = c.k, c.o.off, c.o.kind
		}
	}
	for i := 0; i < k; i++ {
		s.occ = append(s.occ, c09Occ{len(s.buf), ls[i:], "label"})
		s.buf = append(s.buf, byte(len(ls[i])))
		s.buf = append(s.buf, ls[i]...)
	}
	if target >= 0 {
		s.occ = append(s.occ, c09Occ{len(s.buf), ls[k:], "pointer"})
		s.buf = append(s.buf, 0xC0|byte(target>>8), byte(target))
		s.tags["ptr.backward"] = true
		if kind == "pointer" {
			s.tags["ptr.chained"] = true
		}
		if kind == "root" {
			s.tags["ptr.to-root"] = true
		}
		if k == 0 {
			s.tags["ptr.whole-name"] = true
		} else {
			s.tags["ptr.after-labels"] = true
		}
	} else {
		s.occ = append(s.occ, c09Occ{len(s.buf), nil, "root"})
		s.buf = append(s.buf, 0)
	}
}

// serialize returns the wire form and the offsets at which names start
func (m *c09Msg) serialize(mode int, r *Rng) ([]byte, []int, map[string]bool) {
	s := &c09Ser{tags: map[string]bool{}}
	var nameOffs []int
	s.buf = binary.BigEndian.AppendUint16(s.buf, m.ID)
	s.buf = binary.BigEndian.AppendUint16(s.buf, m.Flags)
	s.buf = binary.BigEndian.AppendUint16(s.buf, uint16(len(m.Q)))
	s.buf = binary.BigEndian.AppendUint16(s.buf, uint16(len(m.An)))
	s.buf = binary.BigEndian.AppendUint16(s.buf, uint16(len(m.Ns)))
	s.buf = binary.BigEndian.AppendUint16(s.buf, uint16(len(m.Ar)))
	for _, q := range m.Q {
		nameOffs = append(nameOffs, len(s.buf))
		s.putName(c09Labels(q.Name), mode, r)
		s.buf = binary.BigEndian.AppendUint16(s.buf, q.Type)
		s.buf = binary.BigEndian.AppendUint16(s.buf, q.Class)
	}
	for _, rs := range [][]c09R{m.An, m.Ns, m.Ar} {
		for _, rr := range rs {
			nameOffs = append(nameOffs, len(s.buf))
			s.putName(c09Labels(rr.Name), mode, r)
			s.buf = binary.BigEndian.AppendUint16(s.buf, rr.Type)
			s.buf = binary.BigEndian.AppendUint16(s.buf, rr.Class)
			s.buf = binary.BigEndian.AppendUint32(s.buf, rr.TTL)
			s.buf = binary.BigEndian.AppendUint16(s.buf, uint16(len(rr.RData)))
			s.buf = append(s.buf, rr.RData...)
		}
	}
	return s.buf, nameOffs, s.tags
}

// ---- generators -------------------------------------------------------------------------------

var c09LabelPool = []string{"a", "b", "wpad", "local", "example", "com", "host-1", "_tcp", "xn--caf-dma", "A", "\x00", "\xff\xfe", "c0", " "}

func c09GenLabel(r *Rng) []byte {
	var n int
	switch r.Intn(12) {
	case 0:
		n = 63
	case 1:
		n = 62
	case 2:
		n = 1 + r.Intn(63)
	case 3, 4, 5, 6:
		return []byte(c09LabelPool[r.Intn(len(c09LabelPool))])
	default:
		n = 1 + r.Intn(8)
	}
	b := make([]byte, n)
	arbitrary := r.Intn(3) == 0
	for i := range b {
		if arbitrary {
			b[i] = r.Byte()
		} else {
			b[i] = "abcdefghijklmnopqrstuvwxyz0123456789-_"[r.Intn(38)]
		}
		if b[i] == '.' {
			b[i] = 0xC0 // a dot cannot occur inside a label of the text form
		}
	}
	return b
}

// a valid name as label list (wire length <= 255); sometimes right at the length boundary
func c09GenValidLabels(r *Rng) [][]byte {
	var ls [][]byte
	switch r.Intn(16) {
	case 0:
		return nil // root
	case 1: // wire length exactly 255 or 254: 3 x 63 + one of 61/60 -> 1+64*3+62 = 255
		for i := 0; i < 3; i++ {
			ls = append(ls, r.BytesFrom(63, []byte("abcxyz019-")))
		}
		ls = append(ls, r.BytesFrom(61-r.Intn(2), []byte("abcxyz019-")))
		return ls
	case 2: // many one-byte labels: 127 labels -> 1 + 2*127 = 255
		n := 120 + r.Intn(8)
		for i := 0; i < n; i++ {
			ls = append(ls, r.BytesFrom(1, []byte("abc")))
		}
		return ls
	}
	n := 1 + r.Intn(4)
	if r.Intn(8) == 0 {
		n = 1 + r.Intn(10)
	}
	total := 1
	for i := 0; i < n; i++ {
		l := c09GenLabel(r)
		if total+1+len(l) > 255 {
			break
		}
		total += 1 + len(l)
		ls = append(ls, l)
	}
	return ls
}

// a Go string that is not a valid name (or only just)
func c09GenOddName(r *Rng) string {
	switch r.Intn(10) {
	case 0:
		return ""
	case 1:
		return "."
	case 2:
		return "a."
	case 3:
		return ".a"
	case 4:
		return "a..b"
	case 5:
		return ".."
	case 6: // label of 64 (or 63)
		return string(r.BytesFrom(63+r.Intn(2), []byte("ab"))) + ".x"
	case 7: // wire length 256, 257 (string 254, 255) and beyond
		ls := [][]byte{r.BytesFrom(63, []byte("ab")), r.BytesFrom(63, []byte("ab")), r.BytesFrom(63, []byte("ab")), r.BytesFrom(62+r.Intn(4), []byte("ab"))}
		if len(ls[3]) > 63 {
			ls[3] = ls[3][:63]
			ls = append(ls, []byte("c"))
		}
		return c09Text(ls)
	case 8:
		return strings.Repeat("ab.", 90+r.Intn(40)) + "c"
	default:
		return c09Text(c09GenValidLabels(r)) + "."
	}
}

// RDATA of one record.  `big` is decided once per message (about one message in 25), so that the
// hex lines of the protocol stay small on average; only big messages carry 4 KB..64 KB records.
func c09GenRData(r *Rng, tier string, big bool) []byte {
	if big {
		switch r.Intn(6) {
		case 0:
			return r.Bytes(65535)
		case 1:
			return r.Bytes(65536 + r.Intn(3)) // outside the property: uint16(len) wraps
		case 2:
			return r.Bytes(4096 + r.Intn(3))
		case 3:
			return r.Bytes(65534)
		}
	}
	switch r.Intn(20) {
	case 0:
		return nil
	case 1:
		return r.Bytes(16)
	case 2:
		return r.Bytes(255 + r.Intn(3))
	case 3:
		return r.Bytes(300 + r.Intn(300))
	case 4, 5, 6:
		return r.Bytes(r.Intn(40))
	default:
		return r.Bytes(4)
	}
}

func c09GenMsg(r *Rng, tier string, validOnly bool) *c09Msg {
	m := &c09Msg{ID: r.U16Biased(), Flags: r.U16Biased(), QD: r.U16Biased(), AN: r.U16Biased(), NS: r.U16Biased(), AR: r.U16Biased()}
	// a small pool of names so that suffixes repeat (compression has something to point at)
	var pool [][][]byte
	for i := 0; i < 1+r.Intn(4); i++ {
		ls := c09GenValidLabels(r)
		pool = append(pool, ls)
		if len(ls) > 1 && r.Bool() {
			pool = append(pool, ls[1+r.Intn(len(ls)-1):]) // a proper suffix as a name of its own
		}
		if r.Bool() {
			ext := append([][]byte{c09GenLabel(r)}, ls...)
			if c09ValidLabels(ext) {
				pool = append(pool, ext)
			}
		}
	}
	name := func() string {
		if !validOnly && r.Intn(25) == 0 {
			return c09GenOddName(r)
		}
		if r.Intn(5) == 0 {
			return c09Text(c09GenValidLabels(r))
		}
		nm := c09Text(pool[r.Intn(len(pool))])
		if r.Intn(6) == 0 {
			// the same name in another letter case: equal for a DNS comparison, not the same octets — an encoder that
			// points a record's name at "the same" name written earlier must compare octets
			b := []byte(nm)
			for i, c := range b {
				switch {
				case c >= 'a' && c <= 'z':
					b[i] = c - 32
				case c >= 'A' && c <= 'Z':
					b[i] = c + 32
				}
			}
			nm = string(b)
		}
		return nm
	}
	count := func() int {
		switch r.Intn(12) {
		case 0:
			return 3 + r.Intn(6)
		case 1:
			if tier == "thorough" && r.Intn(12) == 0 {
				return 10 + r.Intn(300) // rare: the list-based Lean model is quadratic in the message size
			}
			return 10 + r.Intn(30)
		default:
			return r.Intn(3)
		}
	}
	for i, n := 0, count(); i < n; i++ {
		m.Q = append(m.Q, c09Q{name(), r.U16Biased(), r.U16Biased()})
	}
	big := r.Intn(25) == 0
	budget := 140000 // total RDATA bytes per message
	sec := func() []c09R {
		var out []c09R
		for i, n := 0, count(); i < n; i++ {
			rd := c09GenRData(r, tier, big)
			if validOnly && len(rd) > 65535 {
				rd = rd[:65535]
			}
			if len(rd) > budget && len(rd) > 4 {
				rd = rd[:4]
			}
			budget -= len(rd)
			out = append(out, c09R{name(), r.U16Biased(), r.U16Biased(), r.U32Biased(), r.U16Biased(), rd})
		}
		return out
	}
	m.An, m.Ns, m.Ar = sec(), sec(), sec()
	return m
}

func c09TagSet(prefix string, tags map[string]bool) string {
	var ks []string
	for _, k := range []string{"ptr.backward", "ptr.chained", "ptr.to-root", "ptr.whole-name", "ptr.after-labels"} {
		if tags[k] {
			ks = append(ks, strings.TrimPrefix(k, "ptr."))
		}
	}
	if len(ks) == 0 {
		return prefix + ".no-pointer"
	}
	return prefix + ".ptr:" + strings.Join(ks, "+")
}

func genC09(r *Rng, tier string) []Case {
	var cs []Case
	scale := 1
	if tier == "thorough" {
		scale = 12
	}
	encname := func(s string, tag string) {
		cs = append(cs, Case{Op: "c09.encname", MArgs: []string{hx([]byte(s))}, SArgs: []string{hx([]byte(s))}, Tag: tag})
		cs = append(cs, Case{Op: "c09.validate", MArgs: []string{hx([]byte(s))}, Tag: "validate"})
	}
	decname := func(data []byte, off int, tag string) {
		a := []string{hx(data), strconv.Itoa(off)}
		cs = append(cs, Case{Op: "c09.decname", MArgs: a, SArgs: a, Tag: tag})
	}
	decmsg := func(w []byte, expect *c09Msg, tag string) {
		sa := []string{hx(w)}
		if expect != nil {
			sa = append(sa, expect.tokens()...)
		}
		cs = append(cs, Case{Op: "c09.decmsg", MArgs: []string{hx(w)}, SArgs: sa, Tag: tag})
	}

	// ---- names: fixed grid first
	for _, s := range []string{"", ".", "a", "a.b", "a.", ".a", "a..b", "..", "...", "example.local", "wpad",
		strings.Repeat("a", 63), strings.Repeat("a", 64), strings.Repeat("a", 63) + "." + strings.Repeat("b", 63) + "." + strings.Repeat("c", 63) + "." + strings.Repeat("d", 61),
		strings.Repeat("a", 63) + "." + strings.Repeat("b", 63) + "." + strings.Repeat("c", 63) + "." + strings.Repeat("d", 62),
		strings.Repeat("a", 63) + "." + strings.Repeat("b", 63) + "." + strings.Repeat("c", 63) + "." + strings.Repeat("d", 63),
		strings.Repeat("a.", 126) + "a", strings.Repeat("a.", 127) + "a", strings.Repeat("a.", 128) + "a"} {
		encname(s, "name.grid")
	}
	rn := r.Fork("names")
	for i := 0; i < 1500*scale; i++ {
		if rn.Intn(4) == 0 {
			encname(c09GenOddName(rn), "name.odd")
		} else {
			encname(c09Text(c09GenValidLabels(rn)), "name.valid")
		}
	}

	// ---- round trips through Encode / DecodeMessage
	rm := r.Fork("msgs")
	for i := 0; i < 1200*scale; i++ {
		m := c09GenMsg(rm, tier, rm.Intn(3) != 0)
		tag := "roundtrip.valid"
		if !m.representable() {
			tag = "roundtrip.unrepresentable"
		} else if len(m.Ns)+len(m.Ar) > 0 {
			tag = "roundtrip.valid+authority/additional"
		}
		cs = append(cs, Case{Op: "c09.roundtrip", MArgs: m.tokens(), SArgs: m.tokens(), Tag: tag})
	}
	// header grid and section-size grid
	for _, w := range []uint16{0, 1, 0x8000, 0x7800, 0x0400, 0xFFFF, 0x00FF, 0xFF00} {
		m := &c09Msg{ID: w, Flags: ^w, Q: []c09Q{{"wpad", 1, 1}}}
		cs = append(cs, Case{Op: "c09.roundtrip", MArgs: m.tokens(), SArgs: m.tokens(), Tag: "roundtrip.header-grid"})
	}
	for q := 0; q <= 2; q++ {
		for a := 0; a <= 2; a++ {
			for n := 0; n <= 2; n++ {
				for x := 0; x <= 2; x++ {
					m := &c09Msg{ID: uint16(q*27 + a*9 + n*3 + x)}
					for i := 0; i < q; i++ {
						m.Q = append(m.Q, c09Q{"q.local", 1, 1})
					}
					mk := func(k int, nm string) []c09R {
						var out []c09R
						for i := 0; i < k; i++ {
							out = append(out, c09R{nm, 1, 1, 30, 0, []byte{10, 0, 0, byte(i)}})
						}
						return out
					}
					m.An, m.Ns, m.Ar = mk(a, "q.local"), mk(n, "ns.local"), mk(x, "")
					cs = append(cs, Case{Op: "c09.roundtrip", MArgs: m.tokens(), SArgs: m.tokens(), Tag: "roundtrip.section-grid"})
				}
			}
		}
	}

	// smallest messages: every section size 0..2 with names taken from {root, one-octet label} and RDATA empty or one octet,
	// i.e. the entries with the fewest octets the wire format allows (5 per question, 11 per record)
	for k := 0; k < 81; k++ {
		q, a, n, x := k%3, k/3%3, k/9%3, k/27
		for v := 0; v < 5; v++ {
			qn, rn, rd := "", "", []byte(nil)
			switch v {
			case 1:
				qn, rn = "a", "a"
			case 2:
				qn = "a"
			case 3:
				rn = "a"
			case 4:
				rd = []byte{7}
			}
			m := &c09Msg{ID: uint16(k), Flags: uint16(v)}
			for i := 0; i < q; i++ {
				m.Q = append(m.Q, c09Q{qn, 1, 1})
			}
			mk := func(c int, nm string) []c09R {
				var out []c09R
				for i := 0; i < c; i++ {
					out = append(out, c09R{nm, 6, 1, 0, 0, rd})
				}
				return out
			}
			m.An, m.Ns, m.Ar = mk(a, rn), mk(n, ""), mk(x, rn)
			cs = append(cs, Case{Op: "c09.roundtrip", MArgs: m.tokens(), SArgs: m.tokens(), Tag: "roundtrip.smallest-entries"})
			w, _, _ := m.serialize(1, r.Fork("smallest"))
			decmsg(w, m.canonical(), "ser.smallest-entries")
		}
	}

	// ---- decoding what other serializers produce: own compressor (every admissible placement
	// class) and miekg/dns with and without compression
	rc := r.Fork("compress")
	var valid [][]byte // a stock of valid wires for the malformed stream
	var validOffs [][]int
	for i := 0; i < 1500*scale; i++ {
		m := c09GenMsg(rc, tier, true)
		exp := m.canonical()
		mode := 1 + rc.Intn(2)
		w, offs, tags := m.serialize(mode, rc)
		if len(w) > 40000 && rc.Intn(4) != 0 {
			continue
		}
		decmsg(w, exp, c09TagSet([]string{"", "ser.greedy", "ser.random"}[mode], tags))
		if len(w) < 3000 {
			valid = append(valid, w)
			validOffs = append(validOffs, offs)
		}
		for _, o := range offs {
			if rc.Intn(3) == 0 && len(w) < 3000 {
				decname(w, o, "decname.in-message")
			}
		}
		if i%3 == 0 {
			for _, compress := range []bool{false, true} {
				mw, err := m.toMiekg(compress).Pack()
				if err == nil {
					tag := "miekg.plain"
					if compress {
						tag = "miekg.compressed"
					}
					decmsg(mw, exp, tag)
				}
			}
		}
	}

	// ---- deep chains: question k is one label followed by a pointer to question k-1 (every pointer strictly backwards,
	// every name within 255 octets as long as the depth stays below 127); decoding is linear in the depth
	for _, depth := range []int{8, 24, 40, 64, 100, 126} {
		m := &c09Msg{ID: uint16(depth), Flags: 0}
		w := binary.BigEndian.AppendUint16(nil, m.ID)
		w = binary.BigEndian.AppendUint16(w, 0)
		w = binary.BigEndian.AppendUint16(w, uint16(depth))
		w = append(w, 0, 0, 0, 0, 0, 0)
		name := ""
		prev := 0
		for k := 0; k < depth; k++ {
			at := len(w)
			w = append(w, 1, 'a'+byte(k%26))
			if k == 0 {
				w = append(w, 0)
				name = string(rune('a' + k%26))
			} else {
				w = append(w, 0xC0|byte(prev>>8), byte(prev))
				name = string(rune('a'+k%26)) + "." + name
			}
			w = append(w, 0, 1, 0, 1)
			prev = at
			m.Q = append(m.Q, c09Q{name, 1, 1})
		}
		decmsg(w, m.canonical(), "ptr.deep-chain")
		decname(w, prev, "ptr.deep-chain")
	}

	// ---- pointers that do not point strictly backwards, and other malformed input
	rp := r.Fork("pointers")
	put := func(w []byte, at, target int) []byte {
		c := append([]byte{}, w...)
		if at+1 < len(c) {
			c[at], c[at+1] = 0xC0|byte(target>>8), byte(target)
		}
		return c
	}
	for i := 0; i < 2000*scale && len(valid) > 0; i++ {
		k := rp.Intn(len(valid))
		w, offs := valid[k], validOffs[k]
		if len(offs) == 0 {
			continue
		}
		j := rp.Intn(len(offs))
		o := offs[j]
		switch rp.Intn(9) {
		case 0: // self: the name is a pointer to itself
			decmsg(put(w, o, o), nil, "ptr.self")
			decname(put(w, o, o), o, "ptr.self")
		case 1: // forward
			t := o + 1 + rp.Intn(len(w)-o)
			if t > 0x3FFF {
				t = 0x3FFF
			}
			decmsg(put(w, o, t), nil, "ptr.forward")
			decname(put(w, o, t), o, "ptr.forward")
		case 2: // after one literal label, back to the start of the same name (loop a.a.a...)
			if int(w[o]) > 0 && int(w[o]) < 64 {
				at := o + 1 + int(w[o])
				decmsg(put(w, at, o), nil, "ptr.own-name")
				decname(put(w, at, o), o, "ptr.own-name")
				decmsg(put(w, at, at), nil, "ptr.self-after-label")
			}
		case 3: // mutual: two names pointing at each other
			if len(offs) > 1 {
				o2 := offs[(j+1)%len(offs)]
				decmsg(put(put(w, o, o2), o2, o), nil, "ptr.mutual")
			}
		case 4: // backward to an arbitrary earlier offset (may or may not hit a label boundary)
			if o > 0 {
				t := rp.Intn(o)
				decmsg(put(w, o, t), nil, "ptr.backward-arbitrary")
				decname(put(w, o, t), o, "ptr.backward-arbitrary")
			}
		case 5: // reserved label types 0x40..0xBF
			c := append([]byte{}, w...)
			c[o] = 0x40 + byte(rp.Intn(0x80))
			decmsg(c, nil, "label.reserved-bits")
		case 6: // truncation
			decmsg(w[:rp.Intn(len(w))], nil, "truncated")
		case 7: // byte flips
			c := append([]byte{}, w...)
			for n := 1 + rp.Intn(3); n > 0; n-- {
				c[rp.Intn(len(c))] = rp.Byte()
			}
			decmsg(c, nil, "mutated")
		default: // chain of pointers built by hand in front of the question name: each hop strictly backwards
			hops := 1 + rp.Intn(6)
			c := append([]byte{}, w[:12]...)
			c = append(c, 1, 'z', 0) // target name at 12
			prev := 12
			for h := 0; h < hops; h++ {
				at := len(c)
				c = append(c, 0xC0|byte(prev>>8), byte(prev))
				prev = at
			}
			decname(c, prev, "ptr.hand-chain")
			// and a chain whose last hop is not backwards
			c2 := append([]byte{}, c...)
			c2 = put(c2, 15, prev)
			decname(c2, prev, "ptr.hand-chain-loop")
		}
	}
	// every prefix of a few valid messages (truncation at every position), every single-byte offset as decname
	for i := 0; i < 6*scale && i < len(valid); i++ {
		w := valid[i]
		if len(w) > 400 {
			continue
		}
		for n := 0; n <= len(w); n++ {
			decmsg(w[:n], nil, "truncated.every-prefix")
			decname(w, n, "decname.every-offset")
		}
	}
	// random bytes with a plausible header
	rg := r.Fork("garbage")
	for i := 0; i < 800*scale; i++ {
		b := rg.Bytes(rg.Intn(80))
		if len(b) >= 12 && rg.Intn(3) != 0 {
			for k := 4; k < 12; k += 2 {
				b[k], b[k+1] = 0, byte(rg.Intn(3))
			}
		}
		decmsg(b, nil, "random")
		if len(b) > 0 {
			decname(b, rg.Intn(len(b)+2), "decname.random")
		}
	}
	// dense pointer soup: bytes drawn from {0, small lengths, 0xC0, small offsets}
	for i := 0; i < 1500*scale; i++ {
		b := rg.BytesFrom(2+rg.Intn(40), []byte{0, 1, 2, 3, 0xC0, 0xC0, 0xC0, 'a', 5, 0x0c, 0x0d, 0x0e, 0x10, 63, 64, 0xBF, 0xFF})
		decname(b, rg.Intn(len(b)), "decname.pointer-soup")
	}
	// spread the expensive cases (large RDATA) evenly over the driver processes, which each take a
	// contiguous slice of the case list: deterministic Fisher-Yates shuffle from the seed
	rsh := r.Fork("shuffle")
	for i := len(cs) - 1; i > 0; i-- {
		k := rsh.Intn(i + 1)
		cs[i], cs[k] = cs[k], cs[i]
	}
	return cs
}

// ---- miekg/dns parses what the library encodes ------------------------------------------------

// c09Extra: the library's Encode output is unpacked by miekg/dns and compared field by field.
// Record types are drawn from a range miekg has no typed decoder for, so RDATA stays opaque.
func c09Extra(ctx *Ctx) {
	r := ctx.Rng.Fork("miekg-parses-ours")
	n := 400
	if ctx.Tier == "thorough" {
		n = 4000
	}
	checked, bad := 0, 0
	for i := 0; i < n; i++ {
		m := c09GenMsg(r, "quick", true)
		for _, rs := range [][]c09R{m.An, m.Ns, m.Ar} {
			for k := range rs {
				rs[k].Type = 300 + uint16(r.Intn(30000))
				if len(rs[k].RData) > 2000 {
					rs[k].RData = rs[k].RData[:2000]
				}
			}
		}
		res := runImpl(func(a []string) string { return workerCall("c09.roundtrip", a) }, m.tokens(), 2*workerOpTimeout)
		if !strings.HasPrefix(res.out, "ok ") {
			continue
		}
		w := unhx(strings.SplitN(res.out, " ", 3)[1])
		d := new(dns.Msg)
		// miekg returns ErrTruncated (after unpacking everything) whenever the TC flag bit is set
		if err := d.Unpack(w); err != nil && err != dns.ErrTruncated {
			bad++
			ctx.AddMismatch(Mismatch{Kind: "spec", Case: Case{Op: "c09.roundtrip", MArgs: m.tokens(), SArgs: m.tokens(), Tag: "miekg-unpack"},
				Impl: res.out, Spec: "miekg/dns Unpack of the encoded message: " + err.Error(), Size: 1 << 20})
			continue
		}
		got := c09FromMiekg(d)
		want := m.canonical()
		if strings.Join(got.tokens(), " ") != strings.Join(want.tokens(), " ") {
			bad++
			ctx.AddMismatch(Mismatch{Kind: "spec", Case: Case{Op: "c09.roundtrip", MArgs: m.tokens(), SArgs: m.tokens(), Tag: "miekg-unpack"},
				Impl: res.out, Spec: "miekg/dns reads: " + strings.Join(got.tokens(), " "), Size: 1 << 20})
		}
		checked++
	}
	ctx.SetExtra("miekg_unpacks_library_output", map[string]int{"messages": checked, "disagreements": bad})
	workerMu.Lock()
	ctx.SetExtra("worker_deaths", workerDeaths)
	workerMu.Unlock()
}

// labels of a miekg presentation name
func c09FromPresentation(s string) string {
	if s == "." {
		return "."
	}
	var ls [][]byte
	var cur []byte
	for i := 0; i < len(s); i++ {
		switch {
		case s[i] == '\\' && i+3 < len(s) && s[i+1] >= '0' && s[i+1] <= '9':
			v, _ := strconv.Atoi(s[i+1 : i+4])
			cur = append(cur, byte(v))
			i += 3
		case s[i] == '\\' && i+1 < len(s):
			cur = append(cur, s[i+1])
			i++
		case s[i] == '.':
			ls = append(ls, cur)
			cur = nil
		default:
			cur = append(cur, s[i])
		}
	}
	return c09Text(ls)
}

func c09FromMiekg(d *dns.Msg) *c09Msg {
	var f uint16
	if d.Response {
		f |= 0x8000
	}
	f |= uint16(d.Opcode&0xF) << 11
	if d.Authoritative {
		f |= 0x0400
	}
	if d.Truncated {
		f |= 0x0200
	}
	if d.RecursionDesired {
		f |= 0x0100
	}
	if d.RecursionAvailable {
		f |= 0x0080
	}
	if d.Zero {
		f |= 0x0040
	}
	if d.AuthenticatedData {
		f |= 0x0020
	}
	if d.CheckingDisabled {
		f |= 0x0010
	}
	f |= uint16(d.Rcode & 0xF)
	m := &c09Msg{ID: d.Id, Flags: f, QD: uint16(len(d.Question)), AN: uint16(len(d.Answer)), NS: uint16(len(d.Ns)), AR: uint16(len(d.Extra))}
	for _, q := range d.Question {
		m.Q = append(m.Q, c09Q{c09FromPresentation(q.Name), q.Qtype, q.Qclass})
	}
	conv := func(rs []dns.RR) []c09R {
		var out []c09R
		for _, rr := range rs {
			h := rr.Header()
			var rd []byte
			if u, ok := rr.(*dns.RFC3597); ok {
				rd, _ = hex.DecodeString(u.Rdata)
			}
			out = append(out, c09R{c09FromPresentation(h.Name), h.Rrtype, h.Class, h.Ttl, uint16(len(rd)), rd})
		}
		return out
	}
	m.An, m.Ns, m.Ar = conv(d.Answer), conv(d.Ns), conv(d.Extra)
	return m
}
