package main

// The Dialects list of NEGOTIATE as a value of its own (C04): Marshal, Unmarshal into a fresh value, compare.
// NegotiateRequest.Unmarshal did not reach the dialect decoder before fixes/C04-negotiate-request-wordcount.diff; the
// command round trip (smb.rt) covers it now, this op stays for the list on its own (used values, exact capacity).
// Registered from its own file (after smbgen.go's init) to keep the SMB files untouched.

import (
	"fmt"

	"github.com/TheManticoreProject/Manticore/network/smb/smb_v10/dialects"
)

func smbDialectsRt(a []string) string {
	d := dialects.NewDialects()
	for _, n := range parseByteLists(a[0]) {
		d.Dialects = append(d.Dialects, string(n))
	}
	b, err := d.Marshal()
	if err != nil {
		return "err"
	}
	e := dialects.NewDialects()
	if c13Used(a) { // a value that has decoded another list before
		e.Unmarshal([]byte{2, 'O', 'L', 'D', 0})
	}
	n, err := e.Unmarshal(exact(b))
	if err != nil {
		return "ok " + hx(b) + " decode-err"
	}
	var back [][]byte
	for _, s := range e.Dialects {
		back = append(back, []byte(s))
	}
	return fmt.Sprintf("ok %s %d %s", hx(b), n, showByteLists(back))
}

func init() {
	for _, id := range []string{"C04", "C05"} {
		p := props[id]
		p.Ops = append(p.Ops, OpDef{Name: "smb.dialects", Impl: smbDialectsRt})
	}
	p := props["C04"]
	inner := p.Gen
	p.Gen = func(r *Rng, tier string) []Case {
		cs := inner(r, tier)
		rd := r.Fork("c04.dialects")
		n := 150
		if tier == "thorough" {
			n = 4000
		}
		for i := 0; i < n; i++ {
			tok := randTup(rd, "Dialects", 0, i%2 == 0)
			a := []string{tok[2:]} // ".|<lists>" -> "<lists>"
			cs = append(cs, Case{Op: "smb.dialects", MArgs: a, SArgs: a, Tag: "rt.dialects"})
		}
		return cs
	}
}
