package main

// Shared machinery for the SMB command properties (C04, C05, C07): running the real
// Marshal/Unmarshal of every command structure reachable from the factories on field values
// exchanged in the `env` token syntax of lean/Driver/Smb.lean, and generating field assignments
// from the extracted IR (.build/gen_SmbCommands.json).

import (
	"sync"
	"encoding/json"
	"fmt"
	"os"
	"path/filepath"
	"reflect"
	"sort"
	"strconv"
	"strings"

	"github.com/TheManticoreProject/Manticore/network/smb/smb_v10/message/commands"
	"github.com/TheManticoreProject/Manticore/network/smb/smb_v10/message/commands/andx"
	"github.com/TheManticoreProject/Manticore/network/smb/smb_v10/message/commands/codes"
	"github.com/TheManticoreProject/Manticore/network/smb/smb_v10/message/commands/command_interface"
	"github.com/TheManticoreProject/Manticore/network/smb/smb_v10/message/header"
	"github.com/TheManticoreProject/Manticore/network/smb/smb_v10/message/securityfeatures"
	"github.com/TheManticoreProject/Manticore/network/smb/smb_v10/types"
)

type gExpr struct {
	K string `json:"k"`
	N int    `json:"n"`
	F string `json:"f"`
	I int    `json:"i"`
	A *gExpr `json:"a"`
	B *gExpr `json:"b"`
}
type gStmt struct {
	Op      string  `json:"op"`
	Blk     string  `json:"blk"`
	W       int     `json:"w"`
	End     string  `json:"end"`
	F       string  `json:"f"`
	G       string  `json:"g"`
	Typ     string  `json:"typ"`
	K       int     `json:"k"`
	E       *gExpr  `json:"e"`
	Win     int     `json:"win"`
	Whole   bool    `json:"whole"`
	Checked bool    `json:"checked"`
	Body    []gStmt `json:"body"`
}
type gField struct {
	Name string `json:"name"`
	Type string `json:"type"`
}
type gCmd struct {
	Name      string   `json:"name"`
	Code      string   `json:"code"`
	IsAndX    bool     `json:"isAndX"`
	Fields    []gField `json:"fields"`
	Marshal   []gStmt  `json:"marshal"`
	Unmarshal []gStmt  `json:"unmarshal"`
}

var genCmds map[string]*gCmd
var genOrder []string

func genDir() string {
	if d := os.Getenv("VERIF_GEN_DIR"); d != "" {
		return d
	}
	return "/verif/.build"
}

var genCmdsOnce, factoriesOnce sync.Once

// loaded once, by whichever op needs them first (in a replay no generator has run before the parallel ops)
func loadGenCmds() { genCmdsOnce.Do(loadGenCmdsNow) }

func loadGenCmdsNow() {
	b, err := os.ReadFile(filepath.Join(genDir(), "gen_SmbCommands.json"))
	if err != nil {
		panic("harness: " + err.Error())
	}
	var obj struct {
		Commands []gCmd `json:"commands"`
	}
	if err := json.Unmarshal(b, &obj); err != nil {
		panic("harness: " + err.Error())
	}
	genCmds = map[string]*gCmd{}
	for i := range obj.Commands {
		c := &obj.Commands[i]
		genCmds[c.Name] = c
	}
}

// every command structure reachable from the two factories, by type name
var factoryCmds map[string]func() command_interface.CommandInterface

func loadFactories() { factoriesOnce.Do(loadFactoriesNow) }

func loadFactoriesNow() {
	factoryCmds = map[string]func() command_interface.CommandInterface{}
	for code := 0; code < 256; code++ {
		cc := codes.CommandCode(code)
		if c, err := commands.CreateRequestCommand(cc); err == nil && c != nil {
			name := reflect.TypeOf(c).Elem().Name()
			factoryCmds[name] = func() command_interface.CommandInterface {
				x, _ := commands.CreateRequestCommand(cc)
				return x
			}
		}
		if c, err := commands.CreateResponseCommand(cc); err == nil && c != nil {
			name := reflect.TypeOf(c).Elem().Name()
			factoryCmds[name] = func() command_interface.CommandInterface {
				x, _ := commands.CreateResponseCommand(cc)
				return x
			}
		}
	}
	for n := range factoryCmds {
		genOrder = append(genOrder, n)
	}
	sort.Strings(genOrder)
}

func newCmd(name string) command_interface.CommandInterface {
	loadFactories()
	f, ok := factoryCmds[name]
	if !ok {
		panic("harness: command not reachable from the factories: " + name)
	}
	c := f()
	c.Init()
	return c
}

// ---- values <-> tokens -------------------------------------------------------------------

func isIntKind(k reflect.Kind) bool {
	switch k {
	case reflect.Uint8, reflect.Uint16, reflect.Uint32, reflect.Uint64, reflect.Int8, reflect.Int16, reflect.Int32, reflect.Int64, reflect.Int, reflect.Uint:
		return true
	}
	return false
}

func intOf(v reflect.Value) uint64 {
	switch v.Kind() {
	case reflect.Int8, reflect.Int16, reflect.Int32, reflect.Int64, reflect.Int:
		// two's complement in the width of the type (the wire sees the bits)
		bits := v.Type().Bits()
		return uint64(v.Int()) & (^uint64(0) >> uint(64-bits))
	}
	return v.Uint()
}

func setInt(v reflect.Value, x uint64) {
	switch v.Kind() {
	case reflect.Int8, reflect.Int16, reflect.Int32, reflect.Int64, reflect.Int:
		bits := v.Type().Bits()
		shift := uint(64 - bits)
		v.SetInt(int64(x<<shift) >> shift)
	default:
		v.SetUint(x)
	}
}

func bytesOf(v reflect.Value) []byte {
	n := v.Len()
	b := make([]byte, n)
	for i := 0; i < n; i++ {
		b[i] = byte(v.Index(i).Uint())
	}
	return b
}

// flatten a nested struct: numbers and byte strings in declaration order
func flatten(v reflect.Value, ns *[]uint64, bs *[][]byte) {
	t := v.Type()
	switch {
	case isIntKind(t.Kind()):
		*ns = append(*ns, intOf(v))
	case t.Kind() == reflect.String:
		*bs = append(*bs, []byte(v.String()))
	case (t.Kind() == reflect.Slice || t.Kind() == reflect.Array) && t.Elem().Kind() == reflect.Uint8:
		*bs = append(*bs, bytesOf(v))
	case t.Kind() == reflect.Slice || t.Kind() == reflect.Array:
		for i := 0; i < v.Len(); i++ {
			flatten(v.Index(i), ns, bs)
		}
	case t.Kind() == reflect.Struct:
		for i := 0; i < v.NumField(); i++ {
			flatten(v.Field(i), ns, bs)
		}
	default:
		panic("harness: cannot flatten " + t.String())
	}
}

func unflatten(v reflect.Value, ns *[]uint64, bs *[][]byte) {
	t := v.Type()
	switch {
	case isIntKind(t.Kind()):
		if len(*ns) == 0 {
			panic("harness: tuple has too few numbers for " + t.String())
		}
		setInt(v, (*ns)[0])
		*ns = (*ns)[1:]
	case t.Kind() == reflect.String:
		v.SetString(string((*bs)[0]))
		*bs = (*bs)[1:]
	case t.Kind() == reflect.Slice && t.Elem().Kind() == reflect.Uint8:
		b := (*bs)[0]
		*bs = (*bs)[1:]
		s := reflect.MakeSlice(t, len(b), len(b))
		for i := range b {
			s.Index(i).SetUint(uint64(b[i]))
		}
		v.Set(s)
	case t.Kind() == reflect.Array && t.Elem().Kind() == reflect.Uint8:
		b := (*bs)[0]
		*bs = (*bs)[1:]
		for i := 0; i < v.Len() && i < len(b); i++ {
			v.Index(i).SetUint(uint64(b[i]))
		}
	case t.Kind() == reflect.Slice && t.Elem().Kind() == reflect.String:
		// takes all remaining byte strings (Dialects)
		s := reflect.MakeSlice(t, len(*bs), len(*bs))
		for i, b := range *bs {
			s.Index(i).SetString(string(b))
		}
		*bs = nil
		v.Set(s)
	case t.Kind() == reflect.Array:
		for i := 0; i < v.Len(); i++ {
			unflatten(v.Index(i), ns, bs)
		}
	case t.Kind() == reflect.Struct:
		for i := 0; i < v.NumField(); i++ {
			unflatten(v.Field(i), ns, bs)
		}
	default:
		panic("harness: cannot unflatten " + t.String())
	}
}

func showNums(ns []uint64) string {
	if len(ns) == 0 {
		return "."
	}
	p := make([]string, len(ns))
	for i, n := range ns {
		p[i] = strconv.FormatUint(n, 10)
	}
	return strings.Join(p, ",")
}
func showByteLists(bs [][]byte) string {
	if len(bs) == 0 {
		return "."
	}
	p := make([]string, len(bs))
	for i, b := range bs {
		p[i] = hx(b)
	}
	return strings.Join(p, ",")
}
func showTup(v reflect.Value) string {
	var ns []uint64
	var bs [][]byte
	flatten(v, &ns, &bs)
	return showNums(ns) + "|" + showByteLists(bs)
}

func showVal(v reflect.Value) string {
	t := v.Type()
	switch {
	case isIntKind(t.Kind()):
		return "n:" + strconv.FormatUint(intOf(v), 10)
	case t.Name() == "LARGE_INTEGER":
		return "n:" + strconv.FormatUint(v.FieldByName("QuadPart").Uint(), 10)
	case (t.Kind() == reflect.Slice || t.Kind() == reflect.Array) && t.Elem().Kind() == reflect.Uint8:
		return "b:" + hx(bytesOf(v))
	case (t.Kind() == reflect.Slice || t.Kind() == reflect.Array) && isIntKind(t.Elem().Kind()):
		ns := make([]uint64, v.Len())
		for i := range ns {
			ns[i] = intOf(v.Index(i))
		}
		return "l:" + showNums(ns)
	case t.Kind() == reflect.Slice && t.Elem().Kind() == reflect.Struct:
		if v.Len() == 0 {
			return "L:."
		}
		p := make([]string, v.Len())
		for i := range p {
			p[i] = showTup(v.Index(i))
		}
		return "L:" + strings.Join(p, "/")
	case t.Kind() == reflect.Struct:
		return "t:" + showTup(v)
	}
	panic("harness: cannot show " + t.String())
}

func cmdStruct(c command_interface.CommandInterface) reflect.Value { return reflect.ValueOf(c).Elem() }

// the AndX block of a command (Command.AndX, nil until Marshal or Unmarshal of an AndX command creates it), under
// the pseudo-field name the Lean model uses (SmbIR.andxField): `AndX=l:command,reserved,offset`
const andxFieldName = "AndX"

func andxToken(c command_interface.CommandInterface) string {
	a := c.GetAndX()
	if a == nil {
		return ""
	}
	return fmt.Sprintf("l:%d,%d,%d", uint8(a.AndXCommand), a.AndXReserved, a.AndXOffset)
}

func setAndX(c command_interface.CommandInterface, tok string) {
	kv := strings.SplitN(tok, ":", 2)
	if len(kv) != 2 || kv[0] != "l" {
		panic("harness: bad AndX token " + tok)
	}
	ns := parseNums(kv[1])
	if len(ns) != 3 {
		panic("harness: bad AndX token " + tok)
	}
	c.SetAndX(&andx.AndX{AndXCommand: codes.CommandCode(ns[0]), AndXReserved: uint8(ns[1]), AndXOffset: uint16(ns[2])})
}

func dumpEnv(c command_interface.CommandInterface, g *gCmd) string {
	sv := cmdStruct(c)
	var parts []string
	for _, f := range g.Fields {
		fv := sv.FieldByName(f.Name)
		if !fv.IsValid() {
			panic("harness: field " + f.Name + " of " + g.Name + " not found by reflection")
		}
		parts = append(parts, f.Name+"="+showVal(fv))
	}
	if t := andxToken(c); t != "" {
		parts = append(parts, andxFieldName+"="+t)
	}
	if len(parts) == 0 {
		return "."
	}
	return strings.Join(parts, ";")
}

func parseNums(s string) []uint64 {
	if s == "." {
		return nil
	}
	var out []uint64
	for _, p := range strings.Split(s, ",") {
		n, err := strconv.ParseUint(p, 10, 64)
		if err != nil {
			panic("harness: bad number " + p)
		}
		out = append(out, n)
	}
	return out
}
func parseByteLists(s string) [][]byte {
	if s == "." {
		return nil
	}
	var out [][]byte
	for _, p := range strings.Split(s, ",") {
		out = append(out, unhx(p))
	}
	return out
}
func setTup(v reflect.Value, s string) {
	ab := strings.SplitN(s, "|", 2)
	ns := parseNums(ab[0])
	bs := parseByteLists(ab[1])
	unflatten(v, &ns, &bs)
}

func setVal(v reflect.Value, tok string) {
	kv := strings.SplitN(tok, ":", 2)
	t := v.Type()
	switch kv[0] {
	case "n":
		n, _ := strconv.ParseUint(kv[1], 10, 64)
		if t.Name() == "LARGE_INTEGER" {
			v.FieldByName("QuadPart").SetUint(n)
		} else {
			setInt(v, n)
		}
	case "b":
		b := unhx(kv[1])
		if t.Kind() == reflect.Array {
			for i := 0; i < v.Len() && i < len(b); i++ {
				v.Index(i).SetUint(uint64(b[i]))
			}
		} else {
			s := reflect.MakeSlice(t, len(b), len(b))
			for i := range b {
				s.Index(i).SetUint(uint64(b[i]))
			}
			v.Set(s)
		}
	case "l":
		ns := parseNums(kv[1])
		if t.Kind() == reflect.Array {
			for i := 0; i < v.Len() && i < len(ns); i++ {
				setInt(v.Index(i), ns[i])
			}
		} else {
			s := reflect.MakeSlice(t, len(ns), len(ns))
			for i := range ns {
				setInt(s.Index(i), ns[i])
			}
			v.Set(s)
		}
	case "t":
		setTup(v, kv[1])
	case "L":
		if kv[1] == "." {
			v.Set(reflect.MakeSlice(t, 0, 0))
			return
		}
		parts := strings.Split(kv[1], "/")
		s := reflect.MakeSlice(t, len(parts), len(parts))
		for i, p := range parts {
			setTup(s.Index(i), p)
		}
		v.Set(s)
	default:
		panic("harness: bad value token " + tok)
	}
}

func setEnv(c command_interface.CommandInterface, env string) {
	if env == "." {
		return
	}
	sv := cmdStruct(c)
	for _, p := range strings.Split(env, ";") {
		kv := strings.SplitN(p, "=", 2)
		if kv[0] == andxFieldName {
			setAndX(c, kv[1])
			continue
		}
		fv := sv.FieldByName(kv[0])
		if !fv.IsValid() {
			panic("harness: no field " + kv[0])
		}
		setVal(fv, kv[1])
	}
}

// ---- the ops --------------------------------------------------------------------------------

// Another object of the same type is marshalled first and what it then holds (its AndX block, its parameter and data
// blocks) is scribbled on: a fresh object must not be affected (package-level instances shared between objects).
func smbDecoy(name string) {
	defer func() { recover() }()
	d := newCmd(name)
	if _, err := d.Marshal(); err != nil {
		return
	}
	if x := d.GetAndX(); x != nil {
		x.AndXCommand, x.AndXReserved, x.AndXOffset = 0x2E, 0x5A, 0x7B3C
	}
	if p := d.GetParameters(); p != nil {
		for i := range p.Words {
			p.Words[i] ^= 0xA5A5
		}
	}
	if dt := d.GetData(); dt != nil {
		for i := range dt.Bytes {
			dt.Bytes[i] ^= 0xA5
		}
	}
}

// The byte-string fields of a structure as consecutive windows of ONE backing array, each with the capacity that is
// left behind it — the way Unmarshal hands them out of a received buffer.  An encoder that appends to a field instead
// of to its own buffer then writes over its neighbours.
func shareBacking(c command_interface.CommandInterface) {
	sv := cmdStruct(c)
	// byte-string fields of the structure itself and of the string / buffer structures nested in it (SMB_STRING.Buffer,
	// OEM_STRING.Buffer, ...), in declaration order
	var fields []reflect.Value
	var walk func(v reflect.Value, depth int)
	walk = func(v reflect.Value, depth int) {
		for i := 0; i < v.NumField(); i++ {
			f := v.Field(i)
			switch {
			case f.Kind() == reflect.Slice && f.Type().Elem().Kind() == reflect.Uint8 && f.CanSet():
				fields = append(fields, f)
			case f.Kind() == reflect.Struct && depth < 3 && v.Type().Field(i).Name != "Command":
				walk(f, depth+1)
			}
		}
	}
	walk(sv, 0)
	byType := map[reflect.Type][]int{}
	for i, f := range fields {
		byType[f.Type()] = append(byType[f.Type()], i)
	}
	for t, idx := range byType {
		total := 0
		for _, i := range idx {
			total += fields[i].Len()
		}
		big := reflect.MakeSlice(t, total+16, total+16)
		for k := total; k < total+16; k++ {
			big.Index(k).SetUint(0xA5)
		}
		// the first field first, the others behind it in reverse order: whatever is appended to the first field's
		// window lands on storage that holds something else
		order := append([]int{idx[0]}, idx[1:]...)
		for l, r := 1, len(order)-1; l < r; l, r = l+1, r-1 {
			order[l], order[r] = order[r], order[l]
		}
		off := 0
		for _, i := range order {
			f := fields[i]
			n := f.Len()
			reflect.Copy(big.Slice(off, off+n), f)
			f.Set(big.Slice3(off, off+n, total+16))
			off += n
		}
	}
}

func smbShared(a []string) bool { return c13Used(append([]string{"shared-backing"}, a...)) }

func smbEnc(a []string) string {
	loadGenCmds()
	if c13Used(a) {
		smbDecoy(a[0])
	}
	c := newCmd(a[0])
	setEnv(c, a[1])
	if smbShared(a) {
		shareBacking(c)
	}
	b, err := c.Marshal()
	if err != nil {
		return "err"
	}
	return okHex(b)
}

func smbDec(a []string) string {
	loadGenCmds()
	g := genCmds[a[0]]
	c := newCmd(a[0])
	if got := dumpEnv(c, g); got != a[1] {
		return "env0-mismatch " + got
	}
	_, err := c.Unmarshal(unhx(a[2]))
	if err != nil {
		return "err"
	}
	return "ok " + dumpEnv(c, g)
}

// the declared fields, then (AndX commands) the AndX block
func fieldTokens(c command_interface.CommandInterface, g *gCmd) []string {
	sv := cmdStruct(c)
	out := make([]string, len(g.Fields))
	for i, f := range g.Fields {
		out[i] = showVal(sv.FieldByName(f.Name))
	}
	if g.IsAndX {
		out = append(out, andxToken(c))
	}
	return out
}

func fieldTokenName(g *gCmd, i int) string {
	if i < len(g.Fields) {
		return g.Fields[i].Name
	}
	return andxFieldName
}

// marshal, unmarshal into a fresh command, compare fields, marshal again, compare bytes
func smbRt(a []string) string {
	loadGenCmds()
	g := genCmds[a[0]]
	c := newCmd(a[0])
	setEnv(c, a[2])
	if smbShared(a) {
		shareBacking(c)
	}
	b, err := c.Marshal()
	if err != nil {
		return "err"
	}
	after := fieldTokens(c, g)
	d := newCmd(a[0])
	if a[1] != env0Of(a[0]) {
		// a receiver that is not fresh: it holds the field values (and AndX block) of an earlier message
		setEnv(d, a[1])
	}
	if _, err := d.Unmarshal(b); err != nil {
		return "err-decode"
	}
	if c13Used(a) { // a command object that is decoded into a second time must show the second message only
		if _, err := d.Unmarshal(append([]byte{}, b...)); err != nil {
			return "err-decode"
		}
	}
	dec := fieldTokens(d, g)
	fd := "eq"
	for i := range after {
		if after[i] != dec[i] {
			fd = "diff:" + fieldTokenName(g, i)
			break
		}
	}
	// re-encode what was decoded (fresh blocks: Marshal appends to the ones Unmarshal filled)
	e := newCmd(a[0])
	setEnv(e, dumpEnv(d, g))
	re := "same"
	b2, err := e.Marshal()
	if err != nil {
		re = "reenc-err"
	} else if string(b2) != string(b) {
		re = "reenc-diff"
	}
	return "ok " + fd + " " + re
}

// complement one fixed-width field and report which bytes of the encoding change
func smbSlot(a []string) string {
	loadGenCmds()
	g := genCmds[a[0]]
	c := newCmd(a[0])
	setEnv(c, a[1])
	b1, err := c.Marshal()
	if err != nil {
		return "err"
	}
	c2 := newCmd(a[0])
	setEnv(c2, a[1])
	fv := cmdStruct(c2).FieldByName(a[2])
	bits := 0
	for _, f := range g.Fields {
		if f.Name == a[2] {
			bits = typeBits(f.Type)
		}
	}
	if bits == 0 {
		return "bad-field"
	}
	mask := ^uint64(0) >> uint(64-bits)
	if fv.Type().Name() == "LARGE_INTEGER" {
		q := fv.FieldByName("QuadPart")
		q.SetUint(^q.Uint())
	} else {
		setInt(fv, (^intOf(fv))&mask)
	}
	b2, err := c2.Marshal()
	if err != nil {
		return "err"
	}
	if len(b1) != len(b2) {
		return "ok length-changed"
	}
	lo, hi, n := -1, -1, 0
	for i := range b1 {
		if b1[i] != b2[i] {
			if lo < 0 {
				lo = i
			}
			hi = i
			n++
		}
	}
	if lo < 0 {
		return "ok none"
	}
	return fmt.Sprintf("ok %d %d %d", lo, hi+1, n)
}

// Header.Marshal on explicit field values (security features as 8 reserved bytes)
func smbHdr(a []string) string {
	h := header.NewHeader()
	copy(h.Protocol[:], unhx(a[0]))
	h.Command = codes.CommandCode(atoiU(a[1], 8))
	h.Status = types.ULONG(atoiU(a[2], 32))
	h.SetFlags(uint8(atoiU(a[3], 8)))
	h.SetFlags2(uint16(atoiU(a[4], 16)))
	h.PIDHigh = types.USHORT(atoiU(a[5], 16))
	sf := securityfeatures.NewSecurityFeaturesReserved()
	copy(sf.Reserved[:], unhx(a[6]))
	h.SecurityFeatures = sf
	h.Reserved = types.USHORT(atoiU(a[7], 16))
	h.TID = types.USHORT(atoiU(a[8], 16))
	h.PIDLow = types.USHORT(atoiU(a[9], 16))
	h.UID = types.USHORT(atoiU(a[10], 16))
	h.MID = types.USHORT(atoiU(a[11], 16))
	b, err := h.Marshal()
	if err != nil {
		return "err"
	}
	return okHex(b)
}

func smbOps() []OpDef {
	return []OpDef{
		{Name: "smb.hdr", Impl: smbHdr},
		{Name: "smb.enc", Impl: smbEnc},
		{Name: "smb.dec", Impl: smbDec},
		{Name: "smb.rt", Impl: smbRt},
		{Name: "smb.slot", Impl: smbSlot},
	}
}

func env0Of(name string) string {
	loadGenCmds()
	return dumpEnv(newCmd(name), genCmds[name])
}

// ---- generation of field assignments ------------------------------------------------------------

type fieldVals map[string]string // field -> value token

func typeBits(t string) int {
	switch t {
	case "types.UCHAR", "securitymode.SecurityMode":
		return 8
	case "types.USHORT", "types.SHORT":
		return 16
	case "types.ULONG", "types.LONG", "capabilities.Capabilities", "types.SMB_EXT_FILE_ATTR":
		return 32
	case "types.LARGE_INTEGER":
		return 64
	}
	return 0
}

func randIntBits(r *Rng, bits int, distinctBytes bool) uint64 {
	if distinctBytes {
		// bytes pairwise distinct, so that byte order is observable
		perm := []uint64{0x11, 0x22, 0x33, 0x44, 0x55, 0x66, 0x77, 0x88}
		off := uint64(r.Intn(8))
		var v uint64
		for i := 0; i < bits/8; i++ {
			v |= ((perm[i] + off) & 0xFF) << (8 * uint(i))
		}
		return v
	}
	v := r.U64Biased()
	if bits < 64 {
		switch r.Intn(4) {
		case 0:
			v = (uint64(1) << uint(bits)) - 1 - uint64(r.Intn(2))
		case 1:
			v = uint64(r.Intn(3))
		}
		v &= (uint64(1) << uint(bits)) - 1
	}
	return v
}

// set around a genEnv call to fix the number of dialects generated (-1: random)
var forceDialectCount = -1

func randTup(r *Rng, typ string, format int, distinct bool) string {
	switch typ {
	case "FILETIME", "SMB_TIME":
		return fmt.Sprintf("%d,%d|.", randIntBits(r, 32, distinct), randIntBits(r, 32, distinct))
	case "SMB_DATE":
		return fmt.Sprintf("%d,%d,%d|.", 1980+r.Intn(128), r.Intn(16), r.Intn(32))
	case "SMB_FILE_ATTRIBUTES":
		return fmt.Sprintf("%d|.", randIntBits(r, 16, distinct))
	case "SMB_NMPIPE_STATUS":
		return fmt.Sprintf("%d,%d|.", r.Intn(256), r.Intn(256))
	case "LOCKING_ANDX_RANGE64":
		return fmt.Sprintf("%d,%d,%d,%d,%d,%d|.", randIntBits(r, 16, distinct), randIntBits(r, 16, distinct), randIntBits(r, 32, distinct), randIntBits(r, 32, distinct), randIntBits(r, 32, distinct), randIntBits(r, 32, distinct))
	case "SMB_STRING", "OEM_STRING":
		n := r.Pick(0, 1, 2, 5, 12, 40)
		b := r.BytesFrom(n, []byte("abcXYZ\\._-$ 09"))
		if n >= 2 && r.Intn(4) == 0 { // strings are bytes: high bytes and UTF-8 sequences must survive
			k := r.Intn(n - 1)
			b[k], b[k+1] = 0xC3, 0xA9
		} else if n >= 1 && r.Intn(6) == 0 {
			b[r.Intn(n)] = byte(0x80 + r.Intn(128))
		}
		return fmt.Sprintf("%d,%d|%s", format, len(b), hx(b))
	case "SMB_RESUME_KEY":
		rsv := r.Intn(256)
		ss, cs := r.Bytes(16), r.Bytes(4)
		buf := append(append([]byte{byte(rsv)}, ss...), cs...)
		return fmt.Sprintf("5,21,%d|%s,%s,%s", rsv, hx(buf), hx(ss), hx(cs))
	case "SMB_DIRECTORY_INFORMATION":
		rsv := r.Intn(256)
		ss, cs := r.Bytes(16), r.Bytes(4)
		buf := append(append([]byte{byte(rsv)}, ss...), cs...)
		name := r.BytesFrom(r.Intn(13), []byte("ABCDEFGH.TXT~1"))
		for len(name) < 12 {
			name = append(name, ' ')
		}
		return fmt.Sprintf("5,21,%d,%d,%d,%d,%d,%d,%d,%d,4,12|%s,%s,%s,%s", rsv, r.Intn(256), randIntBits(r, 32, distinct), randIntBits(r, 32, distinct),
			1980+r.Intn(128), r.Intn(16), r.Intn(32), randIntBits(r, 32, distinct), hx(buf), hx(ss), hx(cs), hx(name))
	case "Dialects":
		k := r.Intn(5)
		if forceDialectCount >= 0 {
			k = forceDialectCount
		}
		var bs [][]byte
		for i := 0; i < k; i++ {
			d := r.BytesFrom(1+r.Intn(12), []byte("NT LM0.12PCWORKdos"))
			if r.Intn(4) == 0 { // dialect identifiers are OEM byte strings: high bytes and UTF-8 sequences must survive
				if len(d) >= 2 && r.Intn(2) == 0 {
					d[0], d[1] = 0xC3, 0xA9
				} else {
					d[r.Intn(len(d))] = byte(0x80 + r.Intn(128))
				}
			}
			bs = append(bs, d)
		}
		return ".|" + showByteLists(bs)
	}
	return ""
}
