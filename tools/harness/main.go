// harness: runs the real Manticore code and the Lean driver on the same operations.
//
//	harness -prop C16 -tier quick -seed 1 -driver /verif/lean/.lake/build/bin/driver -out result.json
//	harness -prop C16 -replay file.json -driver ... -out result.json
package main

import (
	"encoding/json"
	"flag"
	"fmt"
	"os"
	"runtime"
	"time"
)

func main() {
	prop := flag.String("prop", "", "property id")
	tier := flag.String("tier", "quick", "quick|thorough")
	seed := flag.Uint64("seed", 1, "seed")
	driver := flag.String("driver", "", "path of the Lean driver executable")
	out := flag.String("out", "", "result file")
	replay := flag.String("replay", "", "replay file (a JSON list of cases, or an object with a 'cases' list)")
	flag.Parse()
	p, ok := props[*prop]
	if !ok {
		fmt.Fprintln(os.Stderr, "harness: unknown property", *prop)
		os.Exit(2)
	}
	if p.LateOps != nil {
		p.Ops = append(p.Ops, p.LateOps()...)
	}
	t0 := time.Now()
	res := &Result{Property: p.ID, Tier: *tier, Seed: *seed, ByTag: map[string]int{}, ByOutcome: map[string]int{}, Mismatches: []Mismatch{}}
	ctx := &Ctx{Prop: p, Tier: *tier, Seed: *seed, Rng: NewRng(*seed), Res: res, Driver: *driver}
	par := runtime.NumCPU()
	var cases []Case
	if *replay != "" {
		b, err := os.ReadFile(*replay)
		if err != nil {
			fmt.Fprintln(os.Stderr, err)
			os.Exit(2)
		}
		var obj struct {
			Cases []Case `json:"cases"`
		}
		if json.Unmarshal(b, &obj) != nil || obj.Cases == nil {
			if err := json.Unmarshal(b, &cases); err != nil {
				fmt.Fprintln(os.Stderr, "harness: replay file has no cases:", err)
				os.Exit(2)
			}
		} else {
			cases = obj.Cases
		}
	} else {
		if p.Gen != nil {
			cases = p.Gen(ctx.Rng, *tier)
		}
	}
	runCases(ctx, cases, par)
	if *replay == "" && p.Extra != nil {
		p.Extra(ctx)
	}
	sortMismatches(res.Mismatches)
	res.WallS = time.Since(t0).Seconds()
	writeJSON(*out, res)
}
