package main

import (
	"encoding/binary"
	"strings"

	"github.com/TheManticoreProject/Manticore/network/ldap"
)

func init() {
	register(&Prop{
		ID: "C16",
		Ops: []OpDef{
			{Name: "c16.sid", Impl: func(a []string) string { return okStr(ldap.ParseSIDFromBytes(unhx(a[0]))) }},
			{Name: "c16.dn", Impl: func(a []string) string { return okStr(ldap.GetDomainFromDistinguishedName(string(unhx(a[0])))) }},
		},
		Gen: genC16,
	})
}

func mkSID(auth uint64, subs []uint32) []byte {
	b := []byte{1, byte(len(subs)), byte(auth >> 40), byte(auth >> 32), byte(auth >> 24), byte(auth >> 16), byte(auth >> 8), byte(auth)}
	for _, s := range subs {
		b = binary.LittleEndian.AppendUint32(b, s)
	}
	return b
}

var adSpecial = []byte(",\\#+<>;\"=")

func adEscape(v []byte) []byte {
	var out []byte
	for _, c := range v {
		if strings.IndexByte(string(adSpecial), c) >= 0 {
			out = append(out, '\\')
		}
		out = append(out, c)
	}
	return out
}

func genC16(r *Rng, tier string) []Case {
	var cs []Case
	n := 3000
	if tier == "thorough" {
		n = 60000
	}
	sid := func(b []byte, tag string) {
		cs = append(cs, Case{Op: "c16.sid", MArgs: []string{hx(b)}, SArgs: []string{hx(b)}, Tag: tag})
	}
	// every count 0..15 with boundary authorities, exhaustively
	for c := 0; c <= 15; c++ {
		for _, auth := range []uint64{0, 1, 5, 0xFFFFFFFF, 0x100000000, 0xFFFFFFFFFFFF} {
			subs := make([]uint32, c)
			for i := range subs {
				subs[i] = r.U32Biased()
			}
			sid(mkSID(auth, subs), "sid.count-grid")
			sid(append(mkSID(auth, subs), r.Bytes(1+r.Intn(5))...), "sid.trailing")
		}
	}
	rs := r.Fork("sid")
	for i := 0; i < n; i++ {
		c := rs.Intn(16)
		if rs.Intn(20) == 0 {
			c = rs.Intn(256)
		}
		subs := make([]uint32, c)
		for k := range subs {
			subs[k] = rs.U32Biased()
		}
		b := mkSID(rs.U64Biased()&0xFFFFFFFFFFFF, subs)
		switch rs.Intn(8) {
		case 0: // truncated
			sid(b[:rs.Intn(len(b)+1)], "sid.truncated")
		case 1: // count larger than the buffer
			b[1] = byte(c + 1 + rs.Intn(5))
			sid(b, "sid.count-too-large")
		case 2:
			b[0] = rs.Byte()
			sid(b, "sid.revision")
		case 3:
			sid(rs.Bytes(rs.Intn(40)), "sid.random")
		case 4:
			sid(append(b, rs.Bytes(rs.Intn(9))...), "sid.trailing")
		default:
			sid(b, "sid.wellformed")
		}
	}
	// distinguished names
	rd := r.Fork("dn")
	types := []string{"CN", "OU", "DC", "DC", "DC", "O", "L", "dc", "DCX", "D", "C", "UID"}
	valAlpha := []byte("abcDC=,\\+#;\"<> .xyz0-")
	wideAlpha := []byte("aöıü%漢ſɐ\u212a\u0130DC=,\\ .") // bytes of multi-byte characters (a slice of runes is not a slice of bytes), format verbs
	dnsAlpha := []byte("abcdefxyzDCdcN0123-_") // labels may begin with the letters of an attribute type ("DC=dc01", "DC=CDC")
	for i := 0; i < n; i++ {
		k := rd.Intn(7)
		var parts, spec []string
		for j := 0; j < k; j++ {
			t := types[rd.Intn(len(types))]
			var v []byte
			if t == "DC" {
				v = rd.BytesFrom(rd.Intn(8), dnsAlpha)
				if rd.Intn(5) == 0 { // any value text: the specification decides which of these it speaks about
					v = rd.BytesFrom(rd.Intn(10), valAlpha)
				}
			} else {
				v = rd.BytesFrom(rd.Intn(10), valAlpha)
				if rd.Intn(3) == 0 {
					v = nil // whole characters: a multi-byte one is one rune and several bytes
					wr := []rune(string(wideAlpha))
					for k := rd.Intn(8); k > 0; k-- {
						v = append(v, []byte(string(wr[rd.Intn(len(wr))]))...)
					}
				}
				if rd.Intn(4) == 0 {
					v = append(v, []byte(",DC=evil")...)
				}
			}
			parts = append(parts, t+"="+string(adEscape(v)))
			spec = append(spec, hx([]byte(t))+":"+hx(v))
		}
		dn := strings.Join(parts, ",")
		sp := "."
		if len(spec) > 0 {
			sp = strings.Join(spec, ";")
		}
		cs = append(cs, Case{Op: "c16.dn", MArgs: []string{hx([]byte(dn))}, SArgs: []string{hx([]byte(dn)), sp}, Tag: "dn.ad-form"})
		if i%4 == 0 { // arbitrary text: model/implementation tie only
			raw := rd.BytesFrom(rd.Intn(30), []byte("DC=,\\ab."))
			cs = append(cs, Case{Op: "c16.dn", MArgs: []string{hx(raw)}, Tag: "dn.raw"})
		}
	}
	return cs
}
