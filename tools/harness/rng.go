package main

// SplitMix64: every random choice of a run derives from VERIF_SEED through this one stream.
type Rng struct{ s uint64 }

func NewRng(seed uint64) *Rng { return &Rng{s: seed*0x9E3779B97F4A7C15 + 0x1234567} }

func (r *Rng) U64() uint64 {
	r.s += 0x9E3779B97F4A7C15
	z := r.s
	z = (z ^ (z >> 30)) * 0xBF58476D1CE4E5B9
	z = (z ^ (z >> 27)) * 0x94D049BB133111EB
	return z ^ (z >> 31)
}
func (r *Rng) Intn(n int) int {
	if n <= 0 {
		return 0
	}
	return int(r.U64() % uint64(n))
}
func (r *Rng) Bool() bool { return r.U64()&1 == 1 }
func (r *Rng) Byte() byte { return byte(r.U64()) }
func (r *Rng) Bytes(n int) []byte {
	b := make([]byte, n)
	for i := range b {
		b[i] = r.Byte()
	}
	return b
}

// BytesFrom draws n bytes from the given alphabet.
func (r *Rng) BytesFrom(n int, alphabet []byte) []byte {
	b := make([]byte, n)
	for i := range b {
		b[i] = alphabet[r.Intn(len(alphabet))]
	}
	return b
}

// Pick returns one of the given ints.
func (r *Rng) Pick(xs ...int) int { return xs[r.Intn(len(xs))] }

// Boundary-biased 64-bit value: small, near powers of two, extremes, or uniform.
func (r *Rng) U64Biased() uint64 {
	switch r.Intn(6) {
	case 0:
		return uint64(r.Intn(4))
	case 1:
		return (uint64(1) << uint(r.Intn(64))) + uint64(r.Intn(3)) - 1
	case 2:
		return ^uint64(0) - uint64(r.Intn(3))
	case 3:
		return r.U64() >> uint(r.Intn(64))
	default:
		return r.U64()
	}
}
func (r *Rng) U32Biased() uint32 {
	switch r.Intn(5) {
	case 0:
		return uint32(r.Intn(4))
	case 1:
		return (uint32(1) << uint(r.Intn(32))) + uint32(r.Intn(3)) - 1
	case 2:
		return ^uint32(0) - uint32(r.Intn(3))
	default:
		return uint32(r.U64())
	}
}
func (r *Rng) U16Biased() uint16 {
	switch r.Intn(5) {
	case 0:
		return uint16(r.Intn(4))
	case 1:
		return (uint16(1) << uint(r.Intn(16))) + uint16(r.Intn(3)) - 1
	case 2:
		return ^uint16(0) - uint16(r.Intn(3))
	default:
		return uint16(r.U64())
	}
}

// Fork derives an independent stream (so that adding cases to one generator does not shift another).
func (r *Rng) Fork(label string) *Rng {
	h := uint64(1469598103934665603)
	for i := 0; i < len(label); i++ {
		h = (h ^ uint64(label[i])) * 1099511628211
	}
	return &Rng{s: r.s ^ h}
}
