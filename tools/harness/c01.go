package main

// C01 — password-hash primitives: MD4 (streaming, every chunking, reads interleaved with writes),
// UTF-16LE, NT, LM, DCC, DCC2.  Impl calls the real library; the oracles are independent of /repo:
// golang.org/x/crypto/md4, unicode/utf16, crypto/des with a textbook str_to_key, x/crypto/pbkdf2.

import (
	"bytes"
	"crypto/des"
	"crypto/sha1"
	"encoding/hex"
	"fmt"
	"strconv"
	"strings"
	"unicode/utf16"
	"unicode/utf8"

	"github.com/TheManticoreProject/Manticore/crypto/dcc"
	"github.com/TheManticoreProject/Manticore/crypto/dcc2"
	"github.com/TheManticoreProject/Manticore/crypto/lm"
	rmd4 "github.com/TheManticoreProject/Manticore/crypto/md4"
	"github.com/TheManticoreProject/Manticore/crypto/nt"
	rutf16 "github.com/TheManticoreProject/Manticore/utils/encoding/utf16"
	xmd4 "golang.org/x/crypto/md4"
	"golang.org/x/crypto/pbkdf2"
)

func okList(parts ...[]byte) string {
	if len(parts) == 0 {
		return "ok ."
	}
	s := make([]string, len(parts))
	for i, p := range parts {
		s[i] = hx(p)
	}
	for i, p := range parts {
		ownResult(p, s[i])
	}
	return "ok " + strings.Join(s, ",")
}

func nt16(a string) [16]byte {
	var n [16]byte
	copy(n[:], unhx(a))
	return n
}

func atoi(s string) int {
	n, err := strconv.Atoi(s)
	if err != nil {
		panic("harness: bad integer " + s)
	}
	return n
}

// ---- independent oracles ------------------------------------------------------------------

func oMD4(b []byte) []byte {
	h := xmd4.New()
	h.Write(b)
	return h.Sum(nil)
}

func parseCpsArg(s string) ([]rune, bool) {
	if s == "!" {
		return nil, false
	}
	if s == "." {
		return []rune{}, true
	}
	var rs []rune
	for _, t := range strings.Split(s, ",") {
		rs = append(rs, rune(atoi(t)))
	}
	return rs, true
}

func oUTF16LE(rs []rune) []byte {
	var out []byte
	for _, u := range utf16.Encode(rs) {
		out = append(out, byte(u), byte(u>>8))
	}
	return out
}

func hexBytes(b []byte) []byte { return []byte(hex.EncodeToString(b)) }

func isASCIIRunes(rs []rune) bool {
	for _, r := range rs {
		if r >= 128 {
			return false
		}
	}
	return true
}

// the lower-cased user name the spec line uses: own ASCII map for ASCII names, the given list otherwise
func oLower(user, given []rune) []rune {
	if !isASCIIRunes(user) {
		return given
	}
	out := make([]rune, len(user))
	for i, r := range user {
		if 'A' <= r && r <= 'Z' {
			r += 32
		}
		out[i] = r
	}
	return out
}

// textbook str_to_key with odd parity set (DES ignores it; the Lean spec leaves it zero)
func oStrToKey(s []byte) []byte {
	k := []byte{s[0] >> 1, (s[0]&1)<<6 | s[1]>>2, (s[1]&3)<<5 | s[2]>>3, (s[2]&7)<<4 | s[3]>>4,
		(s[3]&15)<<3 | s[4]>>5, (s[4]&31)<<2 | s[5]>>6, (s[5]&63)<<1 | s[6]>>7, s[6] & 127}
	for i := range k {
		k[i] <<= 1
		p := byte(0)
		for b := k[i]; b != 0; b &= b - 1 {
			p ^= 1
		}
		k[i] |= p ^ 1
	}
	return k
}

func oLM(pw []byte) []byte {
	p := make([]byte, 14)
	for i := 0; i < 14 && i < len(pw); i++ {
		c := pw[i]
		if 'a' <= c && c <= 'z' {
			c -= 32
		}
		p[i] = c
	}
	out := make([]byte, 16)
	for h := 0; h < 2; h++ {
		c, err := des.NewCipher(oStrToKey(p[7*h : 7*h+7]))
		if err != nil {
			panic(err)
		}
		c.Encrypt(out[8*h:], []byte("KGS!@#$%"))
	}
	return out
}

func oDCC1(ntHash []byte, lowerUser []rune) []byte {
	return oMD4(append(append([]byte{}, ntHash...), oUTF16LE(lowerUser)...))
}

func oracleHist(a []string) string {
	h := xmd4.New()
	var outs [][]byte
	if a[0] != "." {
		for _, t := range strings.Split(a[0], ",") {
			switch t {
			case "s":
				outs = append(outs, h.Sum(nil))
			case "x":
				outs = append(outs, hexBytes(h.Sum(nil)))
			default:
				h.Write(unhx(t))
			}
		}
	}
	return okList(outs...)
}

// ---- the real library -----------------------------------------------------------------------

func implHist(a []string) string {
	h := rmd4.New()
	var outs [][]byte
	if a[0] != "." {
		for _, t := range strings.Split(a[0], ",") {
			switch t {
			case "s":
				d := h.Sum()
				outs = append(outs, d[:])
			case "x":
				outs = append(outs, []byte(h.HexSum()))
			default:
				n, err := h.Write(unhx(t))
				if err != nil || n != len(unhx(t)) {
					return "err"
				}
			}
		}
	}
	return okList(outs...)
}

func init() {
	register(&Prop{
		ID: "C01",
		Ops: []OpDef{
			{Name: "c01.md4", Impl: implHist, Oracle: oracleHist},
			{Name: "c01.md4sum",
				Impl:   func(a []string) string { d := rmd4.Sum(unhx(a[0])); return okHex(d[:]) },
				Oracle: func(a []string) string { return okHex(oMD4(unhx(a[0]))) }},
			// `c01.md4big <n>`: n octets streamed in 1 MiB writes into the library's MD4 and into x/crypto/md4; the message is far
			// too long for a protocol line or the Lean driver (the bit count passes 2^32 at 2^29 octets), so the reference
			// implementation is the only judge here
			{Name: "c01.md4big", Impl: func(a []string) string {
				n := atoi(a[0])
				lib, ref := rmd4.New(), xmd4.New()
				chunk := make([]byte, 1<<20)
				for k := 0; n > 0; k++ {
					for i := range chunk {
						chunk[i] = byte(i*31 + k*7 + 1)
					}
					w := chunk
					if n < len(w) {
						w = w[:n]
					}
					lib.Write(w)
					ref.Write(w)
					n -= len(w)
				}
				l, r := lib.Sum(), ref.Sum(nil)
				if !bytes.Equal(l[:], r) {
					return "ok differ library=" + hx(l[:]) + " reference=" + hx(r)
				}
				return "ok same"
			}},
			{Name: "c01.utf16",
				Impl: func(a []string) string { return okHex(rutf16.EncodeUTF16LE(string(unhx(a[0])))) },
				Oracle: func(a []string) string {
					rs, ok := parseCpsArg(a[1])
					if !ok {
						return "*"
					}
					return okHex(oUTF16LE(rs))
				}},
			{Name: "c01.nt",
				Impl: func(a []string) string {
					pw := string(unhx(a[0]))
					d := nt.NTHash(pw)
					return okList(d[:], []byte(nt.NTHashHex(pw)))
				},
				Oracle: func(a []string) string {
					rs, ok := parseCpsArg(a[1])
					if !ok {
						return "*"
					}
					d := oMD4(oUTF16LE(rs))
					return okList(d, hexBytes(d))
				}},
			{Name: "c01.lm",
				Impl: func(a []string) string {
					pw := string(unhx(a[0]))
					return okList(lm.LMHash(pw), []byte(lm.LMHashToHex(pw)))
				},
				Oracle: func(a []string) string {
					pw := unhx(a[0])
					for _, c := range pw {
						if c >= 0x80 {
							return "*"
						}
					}
					d := oLM(pw)
					return okList(d, hexBytes(d))
				}},
			{Name: "c01.dcc",
				Impl: func(a []string) string {
					pw, user := string(unhx(a[0])), string(unhx(a[1]))
					d := dcc.DCCHashFromPassword(pw, user)
					return okList(d[:], []byte(dcc.DCCHashFromPasswordToHex(pw, user)), []byte(dcc.DCCHashFromPasswordToHashcatString(pw, user)))
				},
				Oracle: func(a []string) string { // pw pwcps user usercps lowercps
					pcs, ok1 := parseCpsArg(a[1])
					ucs, ok2 := parseCpsArg(a[3])
					lcs, ok3 := parseCpsArg(a[4])
					if !ok1 || !ok2 || !ok3 {
						return "*"
					}
					lw := oLower(ucs, lcs)
					d := oDCC1(oMD4(oUTF16LE(pcs)), lw)
					return okList(d, hexBytes(d), []byte(hex.EncodeToString(d)+":"+string(lw)))
				}},
			{Name: "c01.dccnt",
				Impl: func(a []string) string {
					n, user := nt16(a[0]), string(unhx(a[1]))
					d := dcc.DCCHashFromNTHash(n, user)
					return okList(d[:], []byte(dcc.DCCHashFromNTHashToHex(n, user)), []byte(dcc.DCCHashFromNTHashToHashcatString(n, user)))
				},
				Oracle: func(a []string) string { // nt user usercps lowercps
					ucs, ok2 := parseCpsArg(a[2])
					lcs, ok3 := parseCpsArg(a[3])
					if !ok2 || !ok3 {
						return "*"
					}
					lw := oLower(ucs, lcs)
					d := oDCC1(unhx(a[0]), lw)
					return okList(d, hexBytes(d), []byte(hex.EncodeToString(d)+":"+string(lw)))
				}},
			{Name: "c01.dcc2",
				Impl: func(a []string) string { // user lowerUser pw rounds
					user, pw, rounds := string(unhx(a[0])), string(unhx(a[2])), atoi(a[3])
					s := dcc2.DCC2Hash(user, pw, rounds)
					if s2 := dcc2.DCC2HashWithPassword(user, pw, rounds); s2 != s {
						return "ok " + hx([]byte(s)) + "," + hx([]byte(s2)) // the two entry points must agree
					}
					return okStr(s)
				},
				Oracle: func(a []string) string { // user usercps lowercps pw pwcps rounds
					ucs, ok1 := parseCpsArg(a[1])
					lcs, ok2 := parseCpsArg(a[2])
					pcs, ok3 := parseCpsArg(a[4])
					rounds := atoi(a[5])
					if !ok1 || !ok2 || !ok3 || rounds < 1 {
						return "*"
					}
					lw := oLower(ucs, lcs)
					k := pbkdf2.Key(oDCC1(oMD4(oUTF16LE(pcs)), lw), oUTF16LE(lw), rounds, 16, sha1.New)
					return okStr(fmt.Sprintf("$DCC2$%d#%s#%s", rounds, string(unhx(a[0])), hex.EncodeToString(k)))
				}},
			{Name: "c01.dcc2nt",
				Impl: func(a []string) string { // user lowerUser nt rounds
					return okStr(dcc2.DCC2HashWithNTHash(string(unhx(a[0])), nt16(a[2]), atoi(a[3])))
				},
				Oracle: func(a []string) string { // user usercps lowercps nt rounds
					ucs, ok1 := parseCpsArg(a[1])
					lcs, ok2 := parseCpsArg(a[2])
					rounds := atoi(a[4])
					if !ok1 || !ok2 || rounds < 1 {
						return "*"
					}
					lw := oLower(ucs, lcs)
					k := pbkdf2.Key(oDCC1(unhx(a[3]), lw), oUTF16LE(lw), rounds, 16, sha1.New)
					return okStr(fmt.Sprintf("$DCC2$%d#%s#%s", rounds, string(unhx(a[0])), hex.EncodeToString(k)))
				}},
			{Name: "c01.des", // validation of the Lean DES primitive (Prims/DES.lean) against crypto/des
				Impl:   implDES,
				Oracle: implDES},
		},
		Gen: genC01,
	})
}

func implDES(a []string) string {
	c, err := des.NewCipher(unhx(a[0]))
	if err != nil {
		return "err"
	}
	out := make([]byte, 8)
	c.Encrypt(out, unhx(a[1]))
	return okHex(out)
}

// ---- generators ------------------------------------------------------------------------------

func cpsToken(b []byte) string {
	if !utf8.Valid(b) {
		return "!"
	}
	rs := []rune(string(b))
	if len(rs) == 0 {
		return "."
	}
	parts := make([]string, len(rs))
	for i, r := range rs {
		parts[i] = strconv.Itoa(int(r))
	}
	return strings.Join(parts, ",")
}

var (
	poolASCII  = []rune("abcdefghijklmnopqrstuvwxyzABCDEFGHIJKLMNOPQRSTUVWXYZ0123456789 !#$%&*+-./:;<=>?@[]^_{|}~\\\"'`(),")
	poolBMP    = []rune("éÉßàÀçÇñÑüÜøØåÅæÆαΑβΒωΩσΣςжЖяЯёЁіІ€£¥©®±µ¿漢字日本語한글אבגدجحกขคÿĀ߿ࠀ퟿�￿İıẞΩK")
	poolAstral = []rune{0x10000, 0x10001, 0x1F600, 0x1F4A9, 0x1D518, 0x1D538, 0x10400, 0x10428, 0x2F800, 0xFFFFF, 0x100000, 0x10FFFF, 0x1F468, 0x1F9D1}
)

// text draws a string of n code points from the pools selected by `kind`
// (0 ASCII, 1 BMP, 2 astral, 3 mixed) and returns its UTF-8 bytes.
func text(r *Rng, n, kind int) []byte {
	var rs []rune
	for i := 0; i < n; i++ {
		k := kind
		if kind == 3 {
			k = r.Intn(3)
		}
		switch k {
		case 0:
			rs = append(rs, poolASCII[r.Intn(len(poolASCII))])
		case 1:
			rs = append(rs, poolBMP[r.Intn(len(poolBMP))])
		default:
			rs = append(rs, poolAstral[r.Intn(len(poolAstral))])
		}
	}
	return []byte(string(rs))
}

var kindName = []string{"ascii", "bmp", "astral", "mixed"}

// ill-formed UTF-8 (tie only; the property speaks about valid UTF-8)
func badText(r *Rng) []byte {
	frags := [][]byte{{0xff}, {0xc0, 0x80}, {0xe2, 0x82}, {0xed, 0xa0, 0x80}, {0xf4, 0x90, 0x80, 0x80}, {0x80}, {0xf0, 0x9f, 0x98},
		{0xc3}, {0xe0, 0x80, 0x80}, {0xf8, 0x88, 0x80, 0x80, 0x80}, []byte("ab"), []byte("é"), []byte("😀"), {0xc1, 0xbf}, {0xef, 0xbf}}
	var out []byte
	for i, n := 0, 1+r.Intn(5); i < n; i++ {
		out = append(out, frags[r.Intn(len(frags))]...)
	}
	if utf8.Valid(out) {
		out = append(out, 0xfe)
	}
	return out
}

// history builds one c01.md4 line: `parts` are written in order; `mode` decides where digests are read:
// 0 only at the end, 1 Sum after every write, 2 HexSum after every write, 3 random reads (also before the
// first write and twice in a row).  Every history ends with a Sum and a HexSum.
func history(r *Rng, parts [][]byte, mode int) string {
	var toks []string
	if mode == 3 && r.Intn(3) == 0 {
		toks = append(toks, "s")
	}
	for _, p := range parts {
		toks = append(toks, hx(p))
		switch mode {
		case 1:
			toks = append(toks, "s")
		case 2:
			toks = append(toks, "x")
		case 3:
			for k := r.Intn(3); k > 0; k-- {
				toks = append(toks, []string{"s", "x"}[r.Intn(2)])
			}
		}
	}
	toks = append(toks, "s", "x")
	return strings.Join(toks, ",")
}

// message bytes: mostly random, sometimes a constant fill that looks like padding (0x00, 0x80, 0xff)
func msgBytes(r *Rng, n int) []byte {
	b := r.Bytes(n)
	if k := r.Intn(8); k < 3 {
		fill := []byte{0x00, 0x80, 0xff}[k]
		for i := range b {
			b[i] = fill
		}
	}
	return b
}

func cutAt(msg []byte, cuts []int) [][]byte {
	var parts [][]byte
	prev := 0
	for _, c := range cuts {
		parts = append(parts, msg[prev:c])
		prev = c
	}
	return append(parts, msg[prev:])
}

func sortedCuts(r *Rng, n, k int) []int {
	cuts := make([]int, k)
	for i := range cuts {
		cuts[i] = r.Intn(n + 1)
	}
	for i := range cuts { // insertion sort (k is tiny)
		for j := i; j > 0 && cuts[j] < cuts[j-1]; j-- {
			cuts[j], cuts[j-1] = cuts[j-1], cuts[j]
		}
	}
	return cuts
}

func genC01(r *Rng, tier string) []Case {
	var cs []Case
	// messages whose bit count no longer fits 32 bits (streamed; judged by the reference implementation only)
	bigs := []int{1<<29 + 100}
	if tier == "thorough" {
		bigs = []int{1<<29 - 1, 1 << 29, 1<<29 + 100}
	}
	for _, n := range bigs {
		a := []string{strconv.Itoa(n)}
		cs = append(cs, Case{Op: "c01.md4big", SArgs: a, MArgs: a, NoM: true, Tag: "md4.bit-count-beyond-32-bits"})
	}
	thorough := tier == "thorough"
	hist := func(line, tag string) {
		cs = append(cs, Case{Op: "c01.md4", MArgs: []string{line}, SArgs: []string{line}, Tag: tag})
	}

	// ---- MD4: lengths 0..200 x cuts -------------------------------------------------------
	rm := r.Fork("md4")
	boundary := map[int]bool{}
	for _, l := range []int{54, 55, 56, 57, 62, 63, 64, 65, 118, 119, 120, 121, 127, 128, 129} {
		boundary[l] = true
	}
	mode := 0
	passes := 1
	if thorough {
		passes = 4 // fresh random messages and a different read pattern per cut in every pass
	}
	for pass := 0; pass < passes; pass++ {
		for l := 0; l <= 200; l++ {
			msg := msgBytes(rm, l)
			cs = append(cs, Case{Op: "c01.md4sum", MArgs: []string{hx(msg)}, SArgs: []string{hx(msg)}, Tag: "md4.oneshot-0..200"})
			for c := 0; c <= l; c++ { // every 2-cut
				tag := "md4.len0..200-all-2cuts"
				if boundary[l] {
					tag = "md4.boundary-all-2cuts"
				}
				hist(history(rm, cutAt(msg, []int{c}), mode%4), tag)
				mode++
			}
			mode++ // so that a cut position does not keep the same read pattern across lengths
		}
	}
	// ---- MD4: 3-5 random cuts, messages up to 4 KiB, reads at every cut ---------------------
	nMulti := 400
	if thorough {
		nMulti = 6000
	}
	for i := 0; i < nMulti; i++ {
		var l int
		switch rm.Intn(4) {
		case 0:
			l = rm.Intn(130)
		case 1:
			l = 64*rm.Intn(9) + rm.Pick(-9, -8, -1, 0, 1, 55, 56, 63)
			if l < 0 {
				l = 0
			}
		default:
			l = rm.Intn(4097)
		}
		msg := msgBytes(rm, l)
		parts := cutAt(msg, sortedCuts(rm, l, 3+rm.Intn(3)))
		hist(history(rm, parts, i%4), "md4.multi-cut-4KiB")
		if i%8 == 0 {
			cs = append(cs, Case{Op: "c01.md4sum", MArgs: []string{hx(msg)}, SArgs: []string{hx(msg)}, Tag: "md4.oneshot-4KiB"})
		}
	}
	hist(".", "md4.empty-history")
	hist("s,s,x,-,s,-,-,x", "md4.empty-writes")

	// ---- strings -----------------------------------------------------------------------------
	rs := r.Fork("strings")
	nStr := 250
	if thorough {
		nStr = 4000
	}
	strLen := func() int {
		switch rs.Intn(5) {
		case 0:
			return rs.Intn(3)
		case 1:
			return rs.Pick(6, 7, 8, 13, 14, 15, 16, 27, 28, 31, 32, 33)
		default:
			return rs.Intn(24)
		}
	}
	for i := 0; i < nStr; i++ {
		kind := i % 4
		pw := text(rs, strLen(), kind)
		cs = append(cs, Case{Op: "c01.utf16", MArgs: []string{hx(pw)}, SArgs: []string{hx(pw), cpsToken(pw)}, Tag: "utf16." + kindName[kind]})
		cs = append(cs, Case{Op: "c01.nt", MArgs: []string{hx(pw)}, SArgs: []string{hx(pw), cpsToken(pw)}, Tag: "nt." + kindName[kind]})
		if i%5 == 0 {
			bad := badText(rs)
			cs = append(cs, Case{Op: "c01.utf16", MArgs: []string{hx(bad)}, SArgs: []string{hx(bad), "!"}, Tag: "utf16.ill-formed"})
			cs = append(cs, Case{Op: "c01.nt", MArgs: []string{hx(bad)}, SArgs: []string{hx(bad), "!"}, Tag: "nt.ill-formed"})
		}
	}
	// every scalar-value boundary as a one-character password
	for _, c := range []rune{0, 1, 0x7f, 0x80, 0x7ff, 0x800, 0xd7ff, 0xe000, 0xfffd, 0xffff, 0x10000, 0x10ffff} {
		pw := []byte(string(c))
		cs = append(cs, Case{Op: "c01.utf16", MArgs: []string{hx(pw)}, SArgs: []string{hx(pw), cpsToken(pw)}, Tag: "utf16.boundary"})
		cs = append(cs, Case{Op: "c01.nt", MArgs: []string{hx(pw)}, SArgs: []string{hx(pw), cpsToken(pw)}, Tag: "nt.boundary"})
	}

	// ---- LM ------------------------------------------------------------------------------------
	rl := r.Fork("lm")
	lmCase := func(pw []byte, tag string) {
		cs = append(cs, Case{Op: "c01.lm", MArgs: []string{hx(pw), hx([]byte(strings.ToUpper(string(pw))))}, SArgs: []string{hx(pw)}, Tag: tag})
	}
	for c := 0; c < 128; c++ { // every 7-bit character, alone and at position 7 (second half)
		lmCase([]byte{byte(c)}, "lm.every-7bit-char")
		lmCase(append([]byte("PASSWOR"), byte(c)), "lm.every-7bit-char")
	}
	nLM := 600
	if thorough {
		nLM = 8000
	}
	for i := 0; i < nLM; i++ {
		n := rl.Intn(20)
		if i%3 == 0 {
			n = rl.Pick(0, 1, 6, 7, 8, 13, 14, 15, 16, 30)
		}
		var pw []byte
		switch rl.Intn(4) {
		case 0: // any 7-bit bytes, control characters included
			pw = rl.Bytes(n)
			for k := range pw {
				pw[k] &= 0x7f
			}
		default:
			pw = text(rl, n, 0)
		}
		lmCase(pw, "lm.7bit")
		if i%6 == 0 { // outside the statement: the spec is silent, model and code must still agree
			lmCase(text(rl, 1+rl.Intn(10), 1+rl.Intn(3)), "lm.non-ascii")
		}
		if i%40 == 0 {
			lmCase(badText(rl), "lm.ill-formed")
		}
	}

	// ---- DCC / DCC2 -----------------------------------------------------------------------------
	rd := r.Fork("dcc")
	nD := 300
	if thorough {
		nD = 4000
	}
	roundsPool := []int{1, 1, 2, 3, 7, 10, 100, 1000, 10240}
	for i := 0; i < nD; i++ {
		ukind, pkind := i%4, (i/4)%4
		user := text(rd, 1+rd.Intn(12), ukind)
		if i%16 == 0 {
			user = []byte{}
		}
		if i%7 == 0 { // domain\user and characters of the line syntax
			user = append([]byte("Dom#A:in\\"), user...)
		}
		pw := text(rd, rd.Intn(16), pkind)
		if i%25 == 0 {
			pw = badText(rd)
		}
		if i%19 == 5 {
			// passwords that look like something else: 32 hex digits (the text of an NT hash), an LM:NT pair, a hashcat line
			pw = []byte([]string{"00000000000000000000000000000000", "31d6cfe0d16ae931b73c59d7e0c089c0", "31D6CFE0D16AE931B73C59D7E0C089C0",
				"aad3b435b51404eeaad3b435b51404ee:31d6cfe0d16ae931b73c59d7e0c089c0", "$DCC2$10240#user#0123456789abcdef0123456789abcdef", "0123456789abcdef0123456789abcde"}[(i/19)%6])
		}
		if i%30 == 1 {
			user = badText(rd)
		}
		lower := []byte(strings.ToLower(string(user)))
		ntH := rd.Bytes(16)
		rounds := roundsPool[rd.Intn(len(roundsPool))]
		if i%20 == 3 {
			rounds = rd.Pick(0, -1, -10240)
		}
		ut := "user-" + kindName[ukind]
		cs = append(cs, Case{Op: "c01.dcc", MArgs: []string{hx(pw), hx(user), hx(lower)},
			SArgs: []string{hx(pw), cpsToken(pw), hx(user), cpsToken(user), cpsToken(lower)}, Tag: "dcc." + ut})
		cs = append(cs, Case{Op: "c01.dccnt", MArgs: []string{hx(ntH), hx(user), hx(lower)},
			SArgs: []string{hx(ntH), hx(user), cpsToken(user), cpsToken(lower)}, Tag: "dccnt." + ut})
		rt := strconv.Itoa(rounds)
		cs = append(cs, Case{Op: "c01.dcc2", MArgs: []string{hx(user), hx(lower), hx(pw), rt},
			SArgs: []string{hx(user), cpsToken(user), cpsToken(lower), hx(pw), cpsToken(pw), rt}, Tag: "dcc2." + ut})
		cs = append(cs, Case{Op: "c01.dcc2nt", MArgs: []string{hx(user), hx(lower), hx(ntH), rt},
			SArgs: []string{hx(user), cpsToken(user), cpsToken(lower), hx(ntH), rt}, Tag: "dcc2nt." + ut})
		if i%10 == 5 && rounds > 0 && rounds < 100000 {
			// calls whose arguments coincide when written one after the other ("1024"+"0adm" / "10240"+"adm",
			// "pw"+"user" split elsewhere): every call is answered for its own arguments, whatever was asked before
			d := rd.Intn(10)
			u1 := append([]byte{byte('0' + d)}, lower...)
			for _, c := range []struct {
				u []byte
				r int
			}{{u1, rounds}, {lower, rounds*10 + d}, {u1, rounds}} {
				cs = append(cs, Case{Op: "c01.dcc2", MArgs: []string{hx(c.u), hx(c.u), hx(pw), strconv.Itoa(c.r)},
					SArgs: []string{hx(c.u), cpsToken(c.u), cpsToken(c.u), hx(pw), cpsToken(pw), strconv.Itoa(c.r)}, Tag: "dcc2.adjacent-arguments"})
				cs = append(cs, Case{Op: "c01.dcc2nt", MArgs: []string{hx(c.u), hx(c.u), hx(ntH), strconv.Itoa(c.r)},
					SArgs: []string{hx(c.u), cpsToken(c.u), cpsToken(c.u), hx(ntH), strconv.Itoa(c.r)}, Tag: "dcc2nt.adjacent-arguments"})
			}
			if len(pw) > 1 && utf8.Valid(pw) && utf8.Valid(lower) {
				k := 1
				for k < len(pw) && !utf8.RuneStart(pw[k]) {
					k++
				}
				p1, u2 := pw[:k], append(append([]byte{}, pw[k:]...), lower...)
				u2 = []byte(strings.ToLower(string(u2)))
				for _, c := range []struct{ p, u []byte }{{pw, lower}, {p1, u2}, {pw, lower}} {
					cs = append(cs, Case{Op: "c01.dcc", MArgs: []string{hx(c.p), hx(c.u), hx(c.u)},
						SArgs: []string{hx(c.p), cpsToken(c.p), hx(c.u), cpsToken(c.u), cpsToken(c.u)}, Tag: "dcc.adjacent-arguments"})
				}
			}
		}
	}

	// ---- DES primitive ------------------------------------------------------------------------------
	rk := r.Fork("des")
	nDES := 400
	if thorough {
		nDES = 5000
	}
	desCase := func(k, b []byte, tag string) {
		cs = append(cs, Case{Op: "c01.des", MArgs: []string{hx(k), hx(b)}, SArgs: []string{hx(k), hx(b)}, NoM: true, Tag: tag})
	}
	for i := 0; i < nDES; i++ {
		k, b := rk.Bytes(8), rk.Bytes(8)
		desCase(k, b, "des.random")
		if i%4 == 0 { // same key with flipped parity bits
			k2 := append([]byte{}, k...)
			for j := range k2 {
				k2[j] ^= byte(rk.Intn(2))
			}
			desCase(k2, b, "des.parity-variant")
		}
	}
	for bit := 0; bit < 64; bit++ { // single-bit keys and blocks
		k, b := make([]byte, 8), make([]byte, 8)
		k[bit/8] = 0x80 >> uint(bit%8)
		desCase(k, b, "des.single-bit")
		b[bit/8] = 0x80 >> uint(bit%8)
		desCase(make([]byte, 8), b, "des.single-bit")
	}
	return cs
}
