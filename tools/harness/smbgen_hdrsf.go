package main

// The three interpretations of the header's SecurityFeatures field (MS-CIFS 2.2.3.1): reserved bytes, the 8-byte
// security signature, and the connectionless-transport triple Key (ULONG) / CID (USHORT) / SequenceNumber (USHORT).
// Registered from its own file for C05 (after smbgen.go's init).

import (
	"fmt"
	"strings"

	"github.com/TheManticoreProject/Manticore/network/smb/smb_v10/message/header"
	"github.com/TheManticoreProject/Manticore/network/smb/smb_v10/message/securityfeatures"
	"github.com/TheManticoreProject/Manticore/network/smb/smb_v10/types"
)

// <kind> <sec> <pidHigh> <tid> <mid>     kind r|s: <sec> = 8 bytes hex; kind c: <sec> = key:cid:seq (decimal)
func smbHdrSf(a []string) string {
	var h *header.Header
	switch a[0] {
	case "r":
		h = header.NewHeader()
		copy(h.SecurityFeatures.(*securityfeatures.SecurityFeaturesReserved).Reserved[:], unhx(a[1]))
	case "s":
		h = header.NewHeaderWithSecurityFeaturesSecuritySignature()
		copy(h.SecurityFeatures.(*securityfeatures.SecurityFeaturesSecuritySignature).SecuritySignature[:], unhx(a[1]))
	case "c":
		h = header.NewHeaderWithSecurityFeaturesConnectionLess()
		p := strings.Split(a[1], ":")
		sf := h.SecurityFeatures.(*securityfeatures.SecurityFeaturesConnectionlessTransport)
		sf.Key, sf.CID, sf.SequenceNumber = uint32(atoiU(p[0], 32)), uint16(atoiU(p[1], 16)), uint16(atoiU(p[2], 16))
	default:
		panic("harness: bad security-features kind " + a[0])
	}
	h.PIDHigh = types.USHORT(atoiU(a[2], 16))
	h.TID = types.USHORT(atoiU(a[3], 16))
	h.MID = types.USHORT(atoiU(a[4], 16))
	b, err := h.Marshal()
	if err != nil {
		return "err"
	}
	if len(b) != 32 {
		return fmt.Sprintf("ok wrong-length-%d", len(b))
	}
	return "ok " + hx(b[12:24]) + " " + hx(b[24:26]) + " " + hx(b[30:32])
}

func init() {
	p := props["C05"]
	p.Ops = append(p.Ops, OpDef{Name: "smb.hdrsf", Impl: smbHdrSf})
	inner := p.Gen
	p.Gen = func(r *Rng, tier string) []Case {
		cs := inner(r, tier)
		rh := r.Fork("c05.hdrsf")
		n := 90
		if tier == "thorough" {
			n = 3000
		}
		for i := 0; i < n; i++ {
			d := i%2 == 0
			u := func(bits int) string { return fmt.Sprint(randIntBits(rh, bits, d)) }
			kind := []string{"r", "s", "c"}[i%3]
			sec := hx(rh.Bytes(8))
			if kind == "c" {
				sec = u(32) + ":" + u(16) + ":" + u(16)
			}
			a := []string{kind, sec, u(16), u(16), u(16)}
			cs = append(cs, Case{Op: "smb.hdrsf", MArgs: a, SArgs: a, NoM: true, Tag: "hdr.security-features-" + kind})
		}
		return cs
	}
}
