package main

// C11 — NBT session transport over a real loopback TCP pair (net.Listen on 127.0.0.1:0).
//
//   c11.send <payload>                  the real Send writes to a peer that reads until EOF:
//                                       ok <bytes the peer got> <n returned by Send> | err | err-wrote <bytes>
//   c11.recv <stream> <segmentation>    a scripted peer writes <stream> in the given segments
//                                       (sizes; "p" = pause after the write) and closes; the real
//                                       Receive is called until it fails: ok <messages>
//   c11.e2e <payloads> <relay seed>     transport A Sends every payload, a relay re-segments the
//                                       byte stream at random, transport B Receives until the end:
//                                       ok <messages> <indices refused by Send>
//
// Nothing here depends on timing for its verdict: pauses only influence how the kernel segments
// the stream; every wait is bounded by a generous timeout and infrastructure failures (listen /
// connect / accept) are retried, then reported as "infra-error" (never as a verdict of the code).

import (
	"bytes"
	"fmt"
	"io"
	"net"
	"strconv"
	"strings"
	"sync"
	"time"

	"github.com/TheManticoreProject/Manticore/network/netbios/nbt"
	"github.com/TheManticoreProject/Manticore/network/smb/smb_v10/transport"
)

const c11Wait = 30 * time.Second

func msgsTok(ms [][]byte) string { return hxList(ms, ",") }

func msgsFrom(s string) [][]byte {
	if s == "." {
		return nil
	}
	var out [][]byte
	for _, t := range strings.Split(s, ",") {
		out = append(out, unhx(t))
	}
	return out
}

// A fixed pool of loopback listeners (net.Listen on 127.0.0.1:0), each used by one case at a
// time.  One listener per case would leave tens of thousands of listen ports in TIME_WAIT in the
// thorough tier and exhaust the ephemeral range ("address already in use").
var (
	c11Pool     chan net.Listener
	c11PoolOnce sync.Once
)

const c11PoolSize = 64

func newLoopbackListener() (net.Listener, error) { return net.Listen("tcp4", "127.0.0.1:0") }

func listenLoopback() (net.Listener, int, error) {
	c11PoolOnce.Do(func() {
		c11Pool = make(chan net.Listener, c11PoolSize)
		for i := 0; i < c11PoolSize; i++ {
			if ln, err := newLoopbackListener(); err == nil {
				c11Pool <- ln
			}
		}
	})
	select {
	case ln := <-c11Pool:
		return ln, ln.Addr().(*net.TCPAddr).Port, nil
	case <-time.After(c11Wait):
		return nil, 0, fmt.Errorf("no loopback listener available")
	}
}

// release returns a listener to the pool; after a failed case it is replaced by a fresh one
// (closing it also unblocks an Accept that never got its connection).
func release(ln net.Listener, failed *bool) {
	if !*failed {
		c11Pool <- ln
		return
	}
	ln.Close()
	for i := 0; i < 20; i++ {
		if n, err := newLoopbackListener(); err == nil {
			c11Pool <- n
			return
		}
		time.Sleep(100 * time.Millisecond)
	}
}

// the transport is obtained the way the SMB client obtains it
func newNBT() transport.Transport { return transport.NewTransport("nbt") }

var loopback = net.IPv4(127, 0, 0, 1)

type segment struct {
	n     int
	pause bool
	long  bool
}

func parseSegs(s string) []segment {
	if s == "." {
		return nil
	}
	var out []segment
	for _, t := range strings.Split(s, ",") {
		long := strings.HasSuffix(t, "P") // a pause of seconds: longer than any I/O timeout a transport might set itself
		t = strings.TrimSuffix(t, "P")
		p := strings.HasSuffix(t, "p")
		n, err := strconv.Atoi(strings.TrimSuffix(t, "p"))
		if err != nil || n < 0 {
			panic("harness: bad segmentation token " + t)
		}
		out = append(out, segment{n, p, long})
	}
	return out
}

func retryInfra(f func() (string, error)) string {
	var last error
	for i := 0; i < 5; i++ {
		out, err := f()
		if err == nil {
			return out
		}
		last = err
		time.Sleep(time.Duration(100*(i+1)) * time.Millisecond)
	}
	return "infra-error " + strings.ReplaceAll(fmt.Sprint(last), " ", "_")
}

func c11Recv(a []string) string {
	stream := unhx(a[0])
	segs := parseSegs(a[1])
	return retryInfra(func() (out string, ferr error) {
		ln, port, err := listenLoopback()
		if err != nil {
			return "", err
		}
		failed := false
		defer func() { failed = ferr != nil; release(ln, &failed) }()
		peerDone := make(chan error, 1)
		go func() {
			conn, err := ln.Accept()
			if err != nil {
				peerDone <- err
				return
			}
			defer conn.Close()
			if tc, ok := conn.(*net.TCPConn); ok {
				tc.SetNoDelay(true)
			}
			conn.SetWriteDeadline(time.Now().Add(c11Wait))
			rest := stream
			for _, sg := range segs {
				if len(rest) == 0 {
					break
				}
				k := sg.n
				if k > len(rest) {
					k = len(rest)
				}
				if k > 0 {
					if _, err := conn.Write(rest[:k]); err != nil {
						peerDone <- err
						return
					}
					rest = rest[k:]
				}
				if sg.pause {
					time.Sleep(300 * time.Microsecond)
				}
				if sg.long {
					time.Sleep(6500 * time.Millisecond)
				}
			}
			if len(rest) > 0 {
				if _, err := conn.Write(rest); err != nil {
					peerDone <- err
					return
				}
			}
			peerDone <- nil
		}()
		t := newNBT()
		// history: in half of the cases (fixed by the arguments) the same transport object has already carried another
		// session, whose peer sent two frames back to back of which only the first was received before the close.
		// What this connection delivers is a function of the bytes of this connection alone.
		if c13Used(a) {
			if err := c11EarlierSession(t); err != nil {
				return "", err
			}
		}
		if err := t.Connect(loopback, port); err != nil {
			return "", err
		}
		defer t.Close()
		var msgs [][]byte
		for i := 0; i <= len(stream)/4+1; i++ { // more successful calls than frames can exist would be fabrication
			m, err := t.Receive()
			if err != nil {
				break
			}
			msgs = append(msgs, m)
		}
		select {
		case err := <-peerDone:
			if err != nil {
				return "", err
			}
		case <-time.After(c11Wait):
			return "", fmt.Errorf("scripted peer did not finish")
		}
		return "ok " + msgsTok(msgs), nil
	})
}

// c11EarlierSession runs one complete earlier session on t: connect, the peer writes two frames in one write, one
// Receive, Close.  An infrastructure failure is returned as an error (the case is retried); what the transport
// answers in that session is judged by the dedicated cases, not here.
func c11EarlierSession(t transport.Transport) error {
	ln, err := newLoopbackListener()
	if err != nil {
		return err
	}
	defer ln.Close()
	wrote := make(chan error, 1)
	closed := make(chan struct{})
	go func() {
		conn, err := ln.Accept()
		if err != nil {
			wrote <- err
			return
		}
		defer conn.Close()
		conn.SetWriteDeadline(time.Now().Add(c11Wait))
		_, err = conn.Write(append(rfcFrame([]byte("earlier-1")), rfcFrame([]byte("earlier-2"))...))
		wrote <- err
		<-closed
	}()
	defer close(closed)
	if err := t.Connect(loopback, ln.Addr().(*net.TCPAddr).Port); err != nil {
		return err
	}
	select {
	case err := <-wrote:
		if err != nil {
			t.Close()
			return err
		}
	case <-time.After(c11Wait):
		t.Close()
		return fmt.Errorf("earlier peer did not write")
	}
	time.Sleep(200 * time.Microsecond)
	t.Receive()
	t.Close()
	return nil
}

func c11Send(a []string) string { return c11SendBytes(unhx(a[0])) }

// `c11.sendlen <n> <fill>`: a payload of n octets of one value, for lengths whose hex form would not fit a line (the
// widths at which a length can be narrowed by mistake: 2^24 and beyond)
func c11SendLen(a []string) string {
	n, _ := strconv.Atoi(a[0])
	fill, _ := strconv.Atoi(a[1])
	out := c11SendBytes(bytes.Repeat([]byte{byte(fill)}, n))
	if len(out) > 1<<20 { // whatever went out for such a length, it is not printed in full
		return out[:64] + "...(" + strconv.Itoa(len(out)) + " characters)"
	}
	return out
}

func c11SendBytes(payload []byte) string {
	return retryInfra(func() (out string, ferr error) {
		ln, port, err := listenLoopback()
		if err != nil {
			return "", err
		}
		failed := false
		defer func() { failed = ferr != nil; release(ln, &failed) }()
		type got struct {
			b   []byte
			err error
		}
		ch := make(chan got, 1)
		go func() {
			conn, err := ln.Accept()
			if err != nil {
				ch <- got{nil, err}
				return
			}
			defer conn.Close()
			conn.SetReadDeadline(time.Now().Add(c11Wait))
			b, err := io.ReadAll(conn)
			ch <- got{b, err}
		}()
		t := nbt.NewNBTTransport() // the concrete type; recv and e2e go through transport.NewTransport
		if err := t.Connect(loopback, port); err != nil {
			return "", err
		}
		n, sendErr := t.Send(payload)
		t.Close()
		var g got
		select {
		case g = <-ch:
		case <-time.After(c11Wait):
			return "", fmt.Errorf("peer did not see the end of the stream")
		}
		if g.err != nil {
			return "", g.err
		}
		if sendErr != nil {
			if len(g.b) > 0 {
				return "err-wrote " + hx(g.b), nil
			}
			return "err", nil
		}
		return "ok " + hx(g.b) + " " + strconv.Itoa(n), nil
	})
}

func c11E2E(a []string) string {
	payloads := msgsFrom(a[0])
	seed, err := strconv.ParseUint(a[1], 10, 64)
	if err != nil {
		panic("harness: bad relay seed")
	}
	return retryInfra(func() (out string, ferr error) {
		failed := false
		lnA, portA, err := listenLoopback()
		if err != nil {
			return "", err
		}
		defer func() { failed = ferr != nil; release(lnA, &failed) }()
		lnB, portB, err := listenLoopback()
		if err != nil {
			return "", err
		}
		defer func() { failed = ferr != nil; release(lnB, &failed) }()
		relayDone := make(chan error, 1)
		go func() {
			ca, err := lnA.Accept()
			if err != nil {
				relayDone <- err
				return
			}
			defer ca.Close()
			cb, err := lnB.Accept()
			if err != nil {
				relayDone <- err
				return
			}
			defer cb.Close()
			if tc, ok := cb.(*net.TCPConn); ok {
				tc.SetNoDelay(true)
			}
			dl := time.Now().Add(c11Wait)
			ca.SetReadDeadline(dl)
			cb.SetWriteDeadline(dl)
			r := NewRng(seed)
			buf := make([]byte, 70000)
			pauses := 0
			for {
				want := 1 + r.Intn(len(buf))
				if r.Intn(3) == 0 {
					want = 1 + r.Intn(9)
				}
				k, err := ca.Read(buf[:want])
				for off := 0; off < k; {
					w := 1 + r.Intn(k-off)
					if _, werr := cb.Write(buf[off : off+w]); werr != nil {
						relayDone <- werr
						return
					}
					off += w
					if pauses < 12 && r.Intn(4) == 0 {
						pauses++
						time.Sleep(200 * time.Microsecond)
					}
				}
				if err == io.EOF {
					relayDone <- nil
					return
				}
				if err != nil {
					relayDone <- err
					return
				}
			}
		}()
		ta, tb := newNBT(), newNBT()
		if c13Used(a) { // both ends have carried an earlier session (see c11EarlierSession)
			if err := c11EarlierSession(ta); err != nil {
				return "", err
			}
			if err := c11EarlierSession(tb); err != nil {
				return "", err
			}
		}
		if err := ta.Connect(loopback, portA); err != nil {
			return "", err
		}
		if err := tb.Connect(loopback, portB); err != nil {
			ta.Close()
			return "", err
		}
		defer tb.Close()
		var refused []string
		sendDone := make(chan struct{})
		go func() {
			defer close(sendDone)
			for i, p := range payloads {
				if _, err := ta.Send(p); err != nil {
					refused = append(refused, strconv.Itoa(i))
				}
			}
			ta.Close()
		}()
		var msgs [][]byte
		for i := 0; i <= len(payloads)+1; i++ {
			m, err := tb.Receive()
			if err != nil {
				break
			}
			msgs = append(msgs, m)
		}
		select {
		case <-sendDone:
		case <-time.After(c11Wait):
			return "", fmt.Errorf("sender did not finish")
		}
		select {
		case err := <-relayDone:
			if err != nil {
				return "", err
			}
		case <-time.After(c11Wait):
			return "", fmt.Errorf("relay did not finish")
		}
		rf := "."
		if len(refused) > 0 {
			rf = strings.Join(refused, ",")
		}
		return "ok " + msgsTok(msgs) + " " + rf, nil
	})
}

func init() {
	register(&Prop{
		ID: "C11",
		Ops: []OpDef{
			{Name: "c11.send", Impl: c11Send},
			{Name: "c11.sendlen", Impl: c11SendLen},
			{Name: "c11.recv", Impl: c11Recv},
			{Name: "c11.e2e", Impl: c11E2E},
		},
		Gen: genC11,
	})
}

// ---- generators -------------------------------------------------------------------------------

// the RFC 1002 frame, written here independently of the library (the Lean spec checks it again)
func rfcFrame(p []byte) []byte {
	n := len(p)
	return append([]byte{0x00, byte(n >> 16), byte(n >> 8), byte(n)}, p...)
}

func randSegs(r *Rng, total int) string {
	switch r.Intn(5) {
	case 0:
		return "." // one write
	case 1: // byte by byte at the start, then the rest
		k := 1 + r.Intn(12)
		parts := make([]string, k)
		for i := range parts {
			parts[i] = "1"
			if r.Intn(2) == 0 {
				parts[i] = "1p"
			}
		}
		return strings.Join(parts, ",")
	}
	var parts []string
	left := total
	pauses := 0
	for left > 0 && len(parts) < 24 {
		k := 1 + r.Intn(left)
		switch r.Intn(3) {
		case 0:
			k = 1 + r.Intn(5)
		case 1:
			k = r.Pick(3, 4, 5, 1460, 65535, 65536)
		}
		if k > left {
			k = left
		}
		t := strconv.Itoa(k)
		if pauses < 8 && r.Intn(2) == 0 {
			t += "p"
			pauses++
		}
		parts = append(parts, t)
		left -= k
	}
	if len(parts) == 0 {
		return "."
	}
	return strings.Join(parts, ",")
}

func genC11(r *Rng, tier string) []Case {
	var cs []Case
	thorough := tier == "thorough"
	boundary := []int{0, 1, 2, 3, 4, 5, 255, 256, 0xFFFF, 0x10000, 0x10001, 0x1FFFE, 0x1FFFF, 0x20000, 0x20001, 0x2FFFF, 0x30000}
	payloadOf := func(rr *Rng, n int) []byte {
		b := rr.Bytes(n)
		for i := range b { // no zero bytes: a zero-filled or short buffer cannot pass for the payload
			if b[i] == 0 {
				b[i] = 0xA5
			}
		}
		return b
	}

	// ---- Send: the bytes on the wire
	rs := r.Fork("send")
	send := func(p []byte, tag string) {
		a := []string{hx(p)}
		cs = append(cs, Case{Op: "c11.send", MArgs: a, SArgs: a, Tag: tag})
	}
	for _, n := range boundary {
		send(payloadOf(rs, n), "send.boundary")
	}
	for _, n := range []int{0x1FFFF, 0x20000, 0xFFFFFF, 0x1000000, 0x1000005, 0x101FFFF, 0x2010000} {
		a := []string{strconv.Itoa(n), "165"}
		cs = append(cs, Case{Op: "c11.sendlen", MArgs: a, SArgs: a, Tag: "send.beyond-24-bits"})
	}
	ns := 400
	if thorough {
		ns = 3000
	}
	for i := 0; i < ns; i++ {
		n := rs.Intn(300)
		switch rs.Intn(12) {
		case 0:
			n = rs.Intn(0x20000)
		case 1:
			n = 0x10000 + rs.Intn(64) - 32
		case 2:
			if i%4 == 0 {
				n = 0x20000 + rs.Intn(0x8000) - 16
			}
		}
		send(payloadOf(rs, n), "send.random")
	}

	// ---- Receive: frames written by a scripted peer, cut after every byte offset
	rr := r.Fork("recv")
	recv := func(stream []byte, payloads [][]byte, cut int, tag string) {
		seg := randSegs(rr, len(stream))
		m := []string{hx(stream), seg}
		var s []string
		if payloads != nil {
			s = []string{hx(stream), seg, msgsTok(payloads), strconv.Itoa(cut)}
		} else {
			s = []string{hx(stream), seg, "?", "0"}
		}
		cs = append(cs, Case{Op: "c11.recv", MArgs: m, SArgs: s, Tag: tag})
	}
	// a stream that stalls for seconds in the middle of a frame (a slow or congested peer) is still the same stream:
	// the frame arrives whole, and what follows it is framed as before
	{
		inner := append(append(bytesRepeat('A', 20), 0, 0, 0, 3, 'a', 'b', 'c'), bytesRepeat('Z', 13)...)
		ps := [][]byte{inner, []byte("after")}
		var stream []byte
		for _, p := range ps {
			stream = append(stream, rfcFrame(p)...)
		}
		for _, at := range []int{24, 2} { // inside the body, inside the header
			if !thorough && at == 2 {
				continue
			}
			seg := strconv.Itoa(at) + "P"
			cs = append(cs, Case{Op: "c11.recv", MArgs: []string{hx(stream), seg}, SArgs: []string{hx(stream), seg, msgsTok(ps), strconv.Itoa(len(stream))}, Tag: "recv.stalled-mid-frame"})
		}
	}
	concat := func(ps [][]byte) []byte {
		var b []byte
		for _, p := range ps {
			b = append(b, rfcFrame(p)...)
		}
		return b
	}
	nseq := 80
	if thorough {
		nseq = 600
	}
	for i := 0; i < nseq; i++ {
		k := 1 + rr.Intn(4)
		ps := make([][]byte, k)
		for j := range ps {
			ps[j] = payloadOf(rr, rr.Intn(14))
		}
		full := concat(ps)
		for cut := 0; cut <= len(full); cut++ { // the connection ends after every byte offset
			recv(full[:cut], ps, cut, "recv.cut-every-offset")
		}
	}
	bigLens := []int{0xFFFF, 0x10000, 0x1FFFF}
	for _, n := range bigLens {
		ps := [][]byte{payloadOf(rr, rr.Intn(5)), payloadOf(rr, n), payloadOf(rr, 1+rr.Intn(5))}
		full := concat(ps)
		first := 4 + len(ps[0])
		cuts := []int{len(full), first, first + 1, first + 3, first + 4, first + 5, first + 4 + n/2, first + 4 + n - 1, first + 4 + n, first + 4 + n + 2, len(full) - 1,
			first + 4 + 0xFFFF, first + 4 + 0x10000}
		for _, cut := range cuts {
			if cut >= 0 && cut <= len(full) {
				recv(full[:cut], ps, cut, "recv.big")
			}
		}
		if thorough {
			for k := 0; k < 40; k++ {
				cut := rr.Intn(len(full) + 1)
				recv(full[:cut], ps, cut, "recv.big")
			}
		}
	}
	// many frames in one stream
	{
		k := 40
		ps := make([][]byte, k)
		for j := range ps {
			ps[j] = payloadOf(rr, rr.Pick(0, 1, 2, 300, 1460, 5000))
		}
		full := concat(ps)
		recv(full, ps, len(full), "recv.many")
		recv(full[:len(full)-1], ps, len(full)-1, "recv.many")
	}
	// not session messages / reserved flag bits / garbage: tie and no-panic only
	nm := 400
	if thorough {
		nm = 3000
	}
	for i := 0; i < nm; i++ {
		var b []byte
		switch rr.Intn(4) {
		case 0: // another message type
			b = append([]byte{byte(rr.Pick(0x81, 0x82, 0x83, 0x84, 0x85, 0x01, 0xFF)), 0, 0, byte(rr.Intn(4))}, rr.Bytes(rr.Intn(8))...)
		case 1: // reserved flag bits set
			p := payloadOf(rr, rr.Intn(10))
			b = rfcFrame(p)
			b[1] |= byte(rr.Intn(128)) << 1
			b = append(b, rfcFrame(payloadOf(rr, rr.Intn(4)))...)
		case 2: // length larger than what follows
			b = append([]byte{0, byte(rr.Intn(2)), byte(rr.Intn(256)), byte(rr.Intn(256))}, rr.Bytes(rr.Intn(40))...)
		default:
			b = rr.Bytes(rr.Intn(30))
		}
		recv(b, nil, 0, "recv.malformed")
	}

	// ---- end to end through a re-segmenting relay
	re := r.Fork("e2e")
	ne := 60
	if thorough {
		ne = 500
	}
	e2e := func(ps [][]byte, tag string) {
		a := []string{msgsTok(ps), strconv.FormatUint(re.U64()>>1, 10)}
		cs = append(cs, Case{Op: "c11.e2e", MArgs: a, SArgs: a, Tag: tag})
	}
	for _, n := range []int{0, 1, 0xFFFF, 0x10000, 0x1FFFF, 0x20000} {
		e2e([][]byte{payloadOf(re, 3), payloadOf(re, n), payloadOf(re, 2)}, "e2e.boundary")
	}
	for i := 0; i < ne; i++ {
		k := 1 + re.Intn(6)
		ps := make([][]byte, k)
		for j := range ps {
			n := re.Intn(40)
			switch re.Intn(10) {
			case 0:
				n = re.Pick(0xFFFF, 0x10000, 0x1FFFF, 0x20000)
			case 1:
				n = re.Intn(70000)
			}
			ps[j] = payloadOf(re, n)
		}
		e2e(ps, "e2e.random")
	}
	return cs
}
