package main

// C17 — NBNS name table: sequential histories against the Lean heap model (tie) and the atomic-map
// spec (property); concurrent histories recorded under the race detector and checked for
// linearizability by the Lean `linz` op (Wing–Gong search over the proved sequential model).

import (
	"bufio"
	"bytes"
	"encoding/json"
	"fmt"
	"net"
	"os"
	"runtime"
	"sort"
	"strconv"
	"strings"
	"sync"
	"sync/atomic"
	"time"

	"github.com/TheManticoreProject/Manticore/network/netbios/nbtns"
)

func init() {
	if os.Getenv("VERIF_CHILD") == "c17" {
		c17ChildMain()
		os.Exit(0)
	}
	register(&Prop{
		ID: "C17",
		Ops: []OpDef{
			{Name: "c17.hist", Impl: func(a []string) string { return c17RunHistory(a[0], false) }},
			{Name: "c17.histset", Impl: func(a []string) string { return c17RunHistory(a[0], true) }},
			// a recorded concurrent history is what the implementation did; the claim is "linearizable"
			{Name: "c17.linz", Impl: func(a []string) string { return "ok lin" }},
			// replay of a concurrent job: run it again (many repetitions) in the race child
			{Name: "c17.conc", Impl: c17ConcImpl},
		},
		Gen:   genC17,
		Extra: extraC17,
	})
}

// ---- the alphabet ---------------------------------------------------------------------------

type c17Op struct {
	kind byte // R Q L F C X
	name int
	typ  byte // u g
	addr int
	past bool
}

func (o c17Op) String() string {
	switch o.kind {
	case 'R':
		p := "0"
		if o.past {
			p = "1"
		}
		return fmt.Sprintf("R%d.%c.%d.%s", o.name, o.typ, o.addr, p)
	case 'Q':
		return fmt.Sprintf("Q%d", o.name)
	case 'L':
		return fmt.Sprintf("L%d.%d", o.name, o.addr)
	case 'F':
		return fmt.Sprintf("F%d.%d", o.name, o.addr)
	case 'C':
		return fmt.Sprintf("C%d", o.name)
	}
	return "X"
}

func c17ParseOp(tok string) c17Op {
	bad := func() { panic("harness: bad C17 op token " + tok) }
	if tok == "X" {
		return c17Op{kind: 'X'}
	}
	if len(tok) < 2 {
		bad()
	}
	f := strings.Split(tok[1:], ".")
	n, err := strconv.Atoi(f[0])
	if err != nil {
		bad()
	}
	o := c17Op{kind: tok[0], name: n}
	switch tok[0] {
	case 'R':
		if len(f) != 4 || (f[1] != "u" && f[1] != "g") {
			bad()
		}
		o.typ = f[1][0]
		o.addr, _ = strconv.Atoi(f[2])
		o.past = f[3] == "1"
	case 'L', 'F':
		if len(f) != 2 {
			bad()
		}
		o.addr, _ = strconv.Atoi(f[1])
	case 'Q', 'C':
		if len(f) != 1 {
			bad()
		}
	default:
		bad()
	}
	return o
}

func c17ParseOps(s string) []c17Op {
	if s == "-" || s == "" {
		return nil
	}
	toks := strings.Split(s, ",")
	ops := make([]c17Op, len(toks))
	for i, t := range toks {
		ops[i] = c17ParseOp(t)
	}
	return ops
}

func c17Name(i int) string { return fmt.Sprintf("NAME%d", i) }

// address i in one of its two net.IP forms (4-byte / 16-byte); both are the same address for net.IP.Equal
func c17Addr(i int, form int) net.IP {
	if i%4 == 3 {
		// every fourth owner is what the packet handlers make of a record whose RDATA is not 4 or 16 octets long
		// (net.IP(rr.RData)): the table treats an owner as an opaque byte string
		return net.IP{10, 0, byte(i >> 8), byte(i + 1), 0xEE, 0xEE}
	}
	if form%2 == 0 {
		return net.IP{10, 0, byte(i >> 8), byte(i + 1)}
	}
	return net.IPv4(10, 0, byte(i>>8), byte(i+1))
}

func c17AddrIndex(ip net.IP) int {
	if len(ip) == 6 && ip[0] == 10 && ip[1] == 0 && ip[4] == 0xEE && ip[5] == 0xEE {
		return int(ip[2])<<8 + int(ip[3]) - 1
	}
	v4 := ip.To4()
	if v4 == nil || v4[0] != 10 || v4[1] != 0 {
		return -1
	}
	return int(v4[2])<<8 + int(v4[3]) - 1
}

// ---- one call on the real table --------------------------------------------------------------

type c17Answer struct {
	tok    string   // result token
	owners []net.IP // the slice QueryName returned (kept to re-read it later)
	snap   [][]byte // deep copy taken at return time
}

func c17Call(srv *nbtns.NetBIOSNameServer, o c17Op, form int, sorted bool) (ans c17Answer) {
	defer func() {
		if r := recover(); r != nil {
			ans = c17Answer{tok: "p"}
		}
	}()
	errTok := func(err error) string {
		if err != nil {
			return "e"
		}
		return "k"
	}
	switch o.kind {
	case 'R':
		t := nbtns.Unique
		if o.typ == 'g' {
			t = nbtns.Group
		}
		ttl := time.Hour
		if o.past {
			ttl = -time.Hour
		}
		return c17Answer{tok: errTok(srv.RegisterName(c17Name(o.name), t, c17Addr(o.addr, form), ttl))}
	case 'Q':
		owners, t, err := srv.QueryName(c17Name(o.name))
		if err != nil {
			return c17Answer{tok: "e"}
		}
		idx := make([]int, len(owners))
		snap := make([][]byte, len(owners))
		for i, ip := range owners {
			idx[i] = c17AddrIndex(ip)
			snap[i] = append([]byte(nil), ip...)
		}
		if sorted {
			sort.Ints(idx)
		}
		parts := make([]string, len(idx))
		for i, v := range idx {
			parts[i] = strconv.Itoa(v)
		}
		tt := "u"
		if t == nbtns.Group {
			tt = "g"
		} else if t != nbtns.Unique {
			tt = "?"
		}
		l := strings.Join(parts, ".")
		if len(parts) == 0 {
			l = "-"
		}
		return c17Answer{tok: "o" + tt + ":" + l, owners: owners, snap: snap}
	case 'L':
		return c17Answer{tok: errTok(srv.ReleaseName(c17Name(o.name), c17Addr(o.addr, form)))}
	case 'F':
		return c17Answer{tok: errTok(srv.RefreshName(c17Name(o.name), c17Addr(o.addr, form)))}
	case 'C':
		return c17Answer{tok: errTok(srv.MarkNameConflict(c17Name(o.name)))}
	case 'X':
		srv.CleanExpiredNames()
		return c17Answer{tok: "k"}
	}
	panic("harness: bad op kind")
}

func (a c17Answer) stable() bool {
	if len(a.owners) != len(a.snap) {
		return false
	}
	for i := range a.owners {
		if !bytes.Equal(a.owners[i], a.snap[i]) {
			return false
		}
	}
	return true
}

// a whole sequential history on a fresh table: all results, then the stability flag of every answered query
func c17RunHistory(hist string, sorted bool) string {
	// the constructor's flag has no say in what the table answers: half of the histories (fixed by the history) run on
	// a table built with the other value
	srv := nbtns.NewNetBIOSNameServer(!c13Used([]string{"secured", hist}))
	ops := c17ParseOps(hist)
	toks := make([]string, len(ops))
	var answered []c17Answer
	for i, o := range ops {
		a := c17Call(srv, o, i, sorted)
		toks[i] = a.tok
		if a.owners != nil || strings.HasPrefix(a.tok, "o") {
			answered = append(answered, a)
		}
	}
	var flags strings.Builder
	for _, a := range answered {
		if a.stable() {
			flags.WriteByte('s')
		} else {
			flags.WriteByte('c')
		}
	}
	return "ok " + strings.Join(toks, ",") + "|" + flags.String()
}

// ---- sequential cases --------------------------------------------------------------------------

// two cases per history: results in slice order against the heap model (tie), and results as sets
// (+ "result unchanged" flags) against both the model and the atomic-map spec
func c17HistCases(hist string, naddr int, tag string) []Case {
	return []Case{
		{Op: "c17.hist", MArgs: []string{hist}, Tag: tag},
		c17SetCase(hist, naddr, tag),
	}
}

func c17SetCase(hist string, naddr int, tag string) Case {
	return Case{Op: "c17.histset", MArgs: []string{hist}, SArgs: []string{hist, strconv.Itoa(naddr)}, Tag: tag}
}

func c17RandomOp(r *Rng, names, addrs int) c17Op {
	n, a := r.Intn(names), r.Intn(addrs)
	switch r.Intn(12) {
	case 0, 1, 2, 3:
		t := byte('u')
		if r.Intn(3) > 0 {
			t = 'g'
		}
		return c17Op{kind: 'R', name: n, typ: t, addr: a, past: r.Intn(5) == 0}
	case 4, 5:
		return c17Op{kind: 'Q', name: n}
	case 6, 7, 8:
		return c17Op{kind: 'L', name: n, addr: a}
	case 9:
		return c17Op{kind: 'F', name: n, addr: a}
	case 10:
		return c17Op{kind: 'C', name: n}
	}
	return c17Op{kind: 'X'}
}

func c17Join(ops []c17Op) string {
	if len(ops) == 0 {
		return "-"
	}
	p := make([]string, len(ops))
	for i, o := range ops {
		p[i] = o.String()
	}
	return strings.Join(p, ",")
}

func genC17(r *Rng, tier string) []Case {
	var cs []Case
	// ordering-dependent scenarios named by the property
	for _, h := range []string{
		"-",
		"R0.u.0.0,F0.0,L0.1,Q0,L0.0,Q0", // release by a non-owner after a refresh
		"R0.u.0.0,C0,Q0,R0.u.1.0,R0.u.0.0,L0.0,R0.u.1.0,Q0", // re-registration after conflict
		"R0.g.0.0,R0.g.1.0,L0.0,Q0,L0.1,Q0,R0.u.2.0,Q0",     // last group member leaving, then the name is free
		"R0.g.0.0,R0.g.0.0,R0.g.1.0,Q0,L0.0,L0.0,Q0",        // duplicate registration / double release
		"R0.g.0.0,R0.g.1.0,R0.g.2.0,Q0,L0.1,Q0,R0.g.1.0,Q0,L0.0,L0.2,Q0,L0.1,Q0",
		"R0.u.0.1,Q0,X,Q0,R0.u.1.0,Q0",              // expired unique name is swept, then free
		"R0.g.0.1,R0.g.1.0,X,Q0,F0.0,X,Q0",          // group append renews the TTL; refresh uses the first interval
		"R0.u.0.0,R0.g.1.0,R1.g.0.0,R1.u.1.0,Q0,Q1", // unique/group conflict matrix
		"Q0,L0.0,F0.0,C0,X",                         // everything on an empty table
	} {
		cs = append(cs, c17HistCases(h, 3, "scenario")...)
	}
	n := 1500
	if tier == "thorough" {
		n = 30000
	}
	rr := r.Fork("c17.random")
	for i := 0; i < n; i++ {
		names, addrs := 2, 3
		if rr.Intn(4) == 0 {
			names, addrs = 1+rr.Intn(4), 1+rr.Intn(5)
		}
		length := 1 + rr.Intn(30)
		if rr.Intn(5) == 0 {
			length = 1 + rr.Intn(200)
		}
		ops := make([]c17Op, length)
		for k := range ops {
			ops[k] = c17RandomOp(rr, names, addrs)
		}
		cs = append(cs, c17HistCases(c17Join(ops), addrs, fmt.Sprintf("random.len<=%d", ((length+49)/50)*50))...)
	}
	return cs
}

// exhaustive enumeration up to symmetry: names and addresses are introduced in order of first use
// (the table treats names and addresses uniformly, so every history is a renaming of one of these)
func c17Exhaustive(depth int, pasts []bool, emit func(hist string) bool) {
	ops := make([]c17Op, 0, depth)
	stopped := false
	var rec func(kn, ka int)
	rec = func(kn, ka int) {
		if stopped {
			return
		}
		if len(ops) == depth {
			if !emit(c17Join(ops)) {
				stopped = true
			}
			return
		}
		nn, na := kn+1, ka+1
		if nn > 2 {
			nn = 2
		}
		if na > 3 {
			na = 3
		}
		push := func(o c17Op, kn2, ka2 int) {
			ops = append(ops, o)
			rec(kn2, ka2)
			ops = ops[:len(ops)-1]
		}
		for n := 0; n < nn; n++ {
			kn2 := kn
			if n+1 > kn2 {
				kn2 = n + 1
			}
			for a := 0; a < na; a++ {
				ka2 := ka
				if a+1 > ka2 {
					ka2 = a + 1
				}
				for _, t := range []byte{'u', 'g'} {
					for _, p := range pasts {
						push(c17Op{kind: 'R', name: n, typ: t, addr: a, past: p}, kn2, ka2)
					}
				}
				push(c17Op{kind: 'L', name: n, addr: a}, kn2, ka2)
				push(c17Op{kind: 'F', name: n, addr: a}, kn2, ka2)
			}
			push(c17Op{kind: 'Q', name: n}, kn2, ka)
			push(c17Op{kind: 'C', name: n}, kn2, ka)
		}
		push(c17Op{kind: 'X'}, kn, ka)
	}
	rec(0, 0)
}

// ---- concurrent histories --------------------------------------------------------------------

type c17Job struct {
	Progs [][]string `json:"progs"` // one op list per goroutine
	Reps  int        `json:"reps"`
	Seed  uint64     `json:"seed"`
}

type c17ChildLine struct {
	Start  *int   `json:"start,omitempty"` // job about to run (for attributing a crash)
	Job    int    `json:"job"`
	Rep    int    `json:"rep"`
	Events string `json:"events,omitempty"`
	Race   string `json:"race,omitempty"` // race report text that appeared during this job
	Done   bool   `json:"done,omitempty"`
}

func c17ChildMain() {
	var jobs []c17Job
	if err := json.NewDecoder(os.Stdin).Decode(&jobs); err != nil {
		fmt.Fprintln(os.Stderr, "c17 child: bad input:", err)
		os.Exit(2)
	}
	w := bufio.NewWriter(os.Stdout)
	enc := json.NewEncoder(w)
	for ji, job := range jobs {
		j := ji
		enc.Encode(c17ChildLine{Start: &j, Job: ji})
		w.Flush()
		before := childRaceLogSize()
		rng := NewRng(job.Seed)
		for rep := 0; rep < job.Reps; rep++ {
			enc.Encode(c17ChildLine{Job: ji, Rep: rep, Events: c17RunConcurrent(job.Progs, rng)})
		}
		if txt := childRaceLogFrom(before); txt != "" {
			enc.Encode(c17ChildLine{Job: ji, Race: txt})
		}
		w.Flush()
	}
	enc.Encode(c17ChildLine{Done: true})
	w.Flush()
}

// run the goroutines' programs against one fresh table; record invocation / response order
func c17RunConcurrent(progs [][]string, rng *Rng) string {
	srv := nbtns.NewNetBIOSNameServer(true)
	var clock atomic.Int64
	type ev struct {
		op       string
		inv, res int64
		out      string
	}
	evs := make([][]ev, len(progs))
	yields := make([][]int, len(progs))
	for g, p := range progs {
		yields[g] = make([]int, len(p))
		for i := range p {
			yields[g][i] = rng.Intn(4)
		}
	}
	var wg sync.WaitGroup
	start := make(chan struct{})
	for g, p := range progs {
		wg.Add(1)
		go func(g int, p []string) {
			defer wg.Done()
			<-start
			for i, tok := range p {
				for y := 0; y < yields[g][i]; y++ {
					runtime.Gosched()
				}
				o := c17ParseOp(tok)
				inv := clock.Add(1)
				a := c17Call(srv, o, g+i, false)
				res := clock.Add(1)
				evs[g] = append(evs[g], ev{tok, inv, res, a.tok})
			}
		}(g, p)
	}
	close(start)
	wg.Wait()
	var parts []string
	for _, l := range evs {
		for _, e := range l {
			parts = append(parts, fmt.Sprintf("%s@%d-%d=%s", e.op, e.inv, e.res, e.out))
		}
	}
	return strings.Join(parts, ",")
}

func c17GenJobs(r *Rng, n, reps int) []c17Job {
	jobs := make([]c17Job, n)
	for i := range jobs {
		threads := 2 + r.Intn(3)
		per := 12 / threads // total ≤ 12 calls: the linearizability search stays small
		progs := make([][]string, threads)
		for g := range progs {
			k := 1 + r.Intn(per)
			for j := 0; j < k; j++ {
				names := 1
				if r.Intn(4) == 0 {
					names = 2
				}
				progs[g] = append(progs[g], c17RandomOp(r, names, 3).String())
			}
		}
		jobs[i] = c17Job{Progs: progs, Reps: reps, Seed: r.U64()}
	}
	return jobs
}

type c17ConcOutcome struct {
	histories [][]string // per job
	race      []string   // per job: race report ("" = none)
	fatal     string     // child crashed: message
	fatalJob  int
	raceOn    bool
}

func c17RunJobs(jobs []c17Job) c17ConcOutcome {
	in, _ := json.Marshal(jobs)
	res := runChild("c17", in, 20*time.Minute)
	out := c17ConcOutcome{histories: make([][]string, len(jobs)), race: make([]string, len(jobs)), fatalJob: -1, raceOn: res.Race}
	last, done := -1, false
	sc := bufio.NewScanner(bytes.NewReader(res.Stdout))
	sc.Buffer(make([]byte, 1<<20), 1<<28)
	for sc.Scan() {
		var l c17ChildLine
		if json.Unmarshal(sc.Bytes(), &l) != nil {
			continue
		}
		switch {
		case l.Done:
			done = true
		case l.Start != nil:
			last = *l.Start
		case l.Race != "":
			out.race[l.Job] = l.Race
		case l.Events != "":
			out.histories[l.Job] = append(out.histories[l.Job], l.Events)
		}
	}
	if !done {
		out.fatalJob = last
		out.fatal = fatalLine(res.Stderr)
		if out.fatal == "" {
			out.fatal = fmt.Sprintf("child did not finish: %v: %s", res.Err, truncS(res.Stderr))
		}
	}
	return out
}

func c17JobArg(j c17Job) string {
	p := make([]string, len(j.Progs))
	for i, g := range j.Progs {
		p[i] = strings.Join(g, ",")
	}
	return strings.Join(p, ";")
}

// `c17.conc <prog;prog;…> <reps> <seed>`: run the job in the (race) child and check every recorded
// history with the Lean `linz` op.  Used when a concurrent finding is replayed.
func c17ConcImpl(a []string) string {
	var job c17Job
	for _, g := range strings.Split(a[0], ";") {
		job.Progs = append(job.Progs, strings.Split(g, ","))
	}
	job.Reps, _ = strconv.Atoi(a[1])
	job.Seed, _ = strconv.ParseUint(a[2], 10, 64)
	o := c17RunJobs([]c17Job{job})
	if o.fatal != "" {
		return "fatal " + o.fatal
	}
	if o.race[0] != "" {
		return "race " + raceSite(o.race[0])
	}
	lines := make([]string, len(o.histories[0]))
	for i, h := range o.histories[0] {
		lines[i] = "S c17.linz " + h
	}
	outs, err := runDriver(driverPath(), lines, runtime.NumCPU())
	if err != nil {
		return "driver-error " + err.Error()
	}
	for i, l := range outs {
		if l != "ok lin" {
			return "nonlin " + o.histories[0][i]
		}
	}
	return "ok"
}

func extraC17(ctx *Ctx) {
	par := runtime.NumCPU()
	// 1. exhaustive sequential histories (chunked: the engine keeps a chunk in memory at a time)
	type plan struct {
		depth int
		pasts []bool
		tag   string
	}
	plans := []plan{{4, []bool{false, true}, "exhaustive.depth4"}}
	if ctx.Tier == "thorough" {
		plans = append(plans, plan{5, []bool{false, true}, "exhaustive.depth5"}, plan{6, []bool{false}, "exhaustive.depth6.ttl>0"})
	}
	exh := map[string]int{}
	for _, p := range plans {
		var chunk []Case
		flush := func() {
			if len(chunk) > 0 {
				runCases(ctx, chunk, par)
				chunk = chunk[:0]
			}
		}
		c17Exhaustive(p.depth, p.pasts, func(h string) bool {
			exh[p.tag]++
			if p.depth <= 4 {
				chunk = append(chunk, c17HistCases(h, 3, p.tag)...) // slice order too
			} else {
				chunk = append(chunk, c17SetCase(h, 3, p.tag))
			}
			if len(chunk) >= 400000 {
				flush()
				// enough failing inputs in hand: do not enumerate (and keep in memory) millions more
				if len(ctx.Res.Mismatches) > 2000 {
					exh[p.tag+".stopped-after-mismatches"] = len(ctx.Res.Mismatches)
					return false
				}
			}
			return true
		})
		flush()
		if len(ctx.Res.Mismatches) > 2000 {
			break
		}
	}
	ctx.SetExtra("exhaustive_histories", exh)

	// 2. concurrent histories under the race detector
	njobs, reps := 20, 30
	if ctx.Tier == "thorough" {
		njobs, reps = 500, 40
	}
	_, race, note := raceHarness()
	jobs := c17GenJobs(ctx.Rng.Fork("c17.conc"), njobs, reps)
	o := c17RunJobs(jobs)
	info := map[string]any{"jobs": njobs, "reps_per_job": reps, "race_detector": race, "race_build": note}
	var cases []Case
	nh, races := 0, 0
	for ji, hs := range o.histories {
		for _, h := range hs {
			nh++
			cases = append(cases, Case{Op: "c17.linz", MArgs: []string{h}, SArgs: []string{h}, Tag: fmt.Sprintf("concurrent.%dgoroutines", len(jobs[ji].Progs)), NoM: true})
		}
	}
	runCases(ctx, cases, par)
	concCase := func(j c17Job) Case {
		args := []string{c17JobArg(j), strconv.Itoa(j.Reps * 10), strconv.FormatUint(j.Seed, 10)}
		return Case{Op: "c17.conc", MArgs: args, SArgs: args, Tag: "concurrent.job", NoM: true}
	}
	for ji, r := range o.race {
		if r != "" {
			races++
			c := concCase(jobs[ji])
			ctx.AddMismatch(Mismatch{Kind: "spec", Case: c, Impl: "race " + raceSite(r), Spec: "ok", Stack: truncRace(r), Size: caseSize(c)})
		}
	}
	if o.fatal != "" {
		j := c17Job{}
		if o.fatalJob >= 0 {
			j = jobs[o.fatalJob]
		}
		c := concCase(j)
		ctx.AddMismatch(Mismatch{Kind: "spec", Case: c, Impl: "fatal " + o.fatal, Spec: "ok", Size: caseSize(c)})
	}
	info["histories"], info["race_reports"], info["fatal"] = nh, races, o.fatal
	ctx.SetExtra("concurrent", info)
}

func truncRace(s string) string {
	if len(s) > 6000 {
		return s[:6000] + "…"
	}
	return s
}
