package main

// C07 — every decoder is total: the cross-cutting malformed-input campaign.
//
// For every decoding entry point of the library that some property has an op for (M op in the Lean
// driver of that property + Impl on the real code in its harness file), C07 takes valid inputs —
// the owning property's own generator, filtered by op name, and the value builders of this file —
// and derives from each: every truncation, every position x {00,01,7f,80,fe,ff}, 16/32-bit windows
// driven to extremes (length / count / offset fields), splices, chunk deletion/duplication, empty
// input, constant and random bytes; for text parsers: truncations, doubled / missing separators,
// over-long digit runs, non-ASCII bytes, NULs.  Every case is checked three ways by the engine:
// implementation vs model (tie), and "never panic", "never time out" (Case.NoPanic).  The other
// properties' S lines are NOT sent (value specifications and known-finding keys are theirs).
//
// A mutated argument always stays a well-formed token of its op (the bytes inside a hex token are
// mutated, the arity is kept, dependent arguments — AES tables, SHA-256 tables, offsets — are
// rebuilt).  Where the *model's* op rejects a format by design (`bad-op`: the C13 text ops model
// ASCII only; decimal offsets are naturals) the case runs without a model line (NoM) and is still
// held to "no panic, no timeout".  A `bad-op` anywhere else is a machinery error (exit 2).
//
// Entry points that have no Gen-free Lean model (SMB Message/Header/Parameters/Data.Unmarshal: the
// C03 model imports the regenerated dispatch table; the 28 TRANS2 information levels, the three
// SecurityFeatures blocks, the fixed-width key-credential readers, LLMNR DecodeQuestion /
// DecodeResourceRecord, UUIDv1/2/8.FromBytes) are covered by the campaign only (NoM).

import (
	"crypto/aes"
	"crypto/cipher"
	"encoding/binary"
	"fmt"
	"sort"
	"strconv"
	"strings"

	"github.com/TheManticoreProject/Manticore/crypto/gppp"
	"github.com/TheManticoreProject/Manticore/crypto/uuid/uuid_v1"
	"github.com/TheManticoreProject/Manticore/crypto/uuid/uuid_v2"
	"github.com/TheManticoreProject/Manticore/crypto/uuid/uuid_v8"
	"github.com/TheManticoreProject/Manticore/network/llmnr"
	il "github.com/TheManticoreProject/Manticore/network/smb/smb_v10/informationlevels"
	"github.com/TheManticoreProject/Manticore/network/smb/smb_v10/message/securityfeatures"
	kcrypto "github.com/TheManticoreProject/Manticore/windows/keycredential/crypto"
	"github.com/TheManticoreProject/Manticore/windows/keycredential/key"
)

// ---- which ops ----------------------------------------------------------------------------------

type c07Desc struct {
	prop string // owning property (its registration supplies the Impl)
	op   string
	arg  int  // index of the argument token that carries the input (a hex token)
	text bool // the input is text (a Go string / ASCII syntax)
	// asciiModel: the model's op accepts ASCII text only (non-ASCII mutants run without a model line)
	asciiModel bool
	// noModel: no Gen-free Lean model of this entry point: campaign only
	noModel bool
	// rebuild (optional): the full argument list for a mutated input (dependent arguments recomputed)
	rebuild func(seed []string, b []byte) []string
	// extra (optional): additional seeds (argument lists) built here
	extra func(r *Rng, thorough bool) [][]string
	// from (optional): the generator whose cases are filtered for seeds
	from   func(r *Rng, tier string) []Case
	budget int  // cases per op in the quick tier (0 = default)
	trim   bool // the source generator's cases carry further arguments the op does not read: keep the first
}

func c07Descs() []c07Desc {
	var ds []c07Desc
	add := func(d c07Desc) { ds = append(ds, d) }
	// C06: the fourteen wire types
	for _, t := range []string{"str", "oem", "date", "ftime", "r32", "r64", "pipe", "rkey", "dir", "attr", "andx", "params", "data", "ver"} {
		add(c07Desc{prop: "C06", op: "c06." + t + ".dec", from: genC06, budget: 900})
	}
	// C08: NTLMSSP / SPNEGO
	for _, o := range []string{"c08.chal", "c08.ti", "c08.extract", "c08.parseresp"} {
		add(c07Desc{prop: "C08", op: o, from: genC08, trim: true})
	}
	// AuthContext.ProcessChallengeToken: campaign only here (the model line needs flags and lengths read
	// back from the token, which a mutated token no longer determines)
	add(c07Desc{prop: "C08", op: "c08.process", from: genC08, noModel: true, budget: 1500})
	// C09: LLMNR
	add(c07Desc{prop: "C09", op: "c09.decmsg", from: genC09, rebuild: func(_ []string, b []byte) []string { return []string{hx(b)} }})
	add(c07Desc{prop: "C09", op: "c09.decname", from: genC09, rebuild: c07DecNameArgs})
	add(c07Desc{prop: "C09", op: "c09.validate", from: genC09, text: true})
	// C10: NBNS
	add(c07Desc{prop: "C10", op: "c10.unmarshal", from: genC10, rebuild: func(_ []string, b []byte) []string { return []string{hx(b)} }})
	add(c07Desc{prop: "C10", op: "c10.l1dec", from: genC10, text: true})
	// C11: NBT session framing (TCP loopback per case: small budget)
	add(c07Desc{prop: "C11", op: "c11.recv", extra: c07NbtSeeds, rebuild: func(seed []string, b []byte) []string { return []string{hx(b), seed[1]} }, budget: 260})
	// C12: PKCS#7, GPP, UTF-16
	add(c07Desc{prop: "C12", op: "c12.unpad", from: genC12})
	add(c07Desc{prop: "C12", op: "c12.utf16le.dec", from: genC12, extra: c07Utf16Seeds})
	add(c07Desc{prop: "C12", op: "c12.gpp.decb", extra: c07GppSeeds(false), rebuild: func(_ []string, b []byte) []string { return gppDecBCase(b, "").MArgs }, budget: 1500})
	add(c07Desc{prop: "C12", op: "c12.gpp.dec64", text: true, extra: c07GppSeeds(true), rebuild: func(_ []string, b []byte) []string { return gppDec64Case(b, "").MArgs }, budget: 1500})
	// C13: UUID / GUID
	for _, o := range []string{"c13.uuid.unmarshal", "c13.v1.unmarshal", "c13.v1.clockseq", "c13.v2.unmarshal", "c13.v8.unmarshal", "c13.guid.fromraw"} {
		add(c07Desc{prop: "C13", op: o, from: genC13, budget: 1200})
	}
	for _, o := range []string{"c13.uuid.parse", "c13.v1.parse", "c13.v2.parse", "c13.v8.parse", "c13.guid.fromstring"} {
		add(c07Desc{prop: "C13", op: o, from: genC13, text: true, asciiModel: true})
	}
	add(c07Desc{prop: "C13", op: "c13.guid.parse", arg: 1, from: genC13, text: true, asciiModel: true, budget: 4000})
	// C14: key credentials
	add(c07Desc{prop: "C14", op: "c14.parse", extra: c07CredSeeds, rebuild: func(_ []string, b []byte) []string { return []string{hx(b), "."} }, budget: 4000})
	add(c07Desc{prop: "C14", op: "c14.rsa.frombytes", extra: c07RsaSeeds})
	add(c07Desc{prop: "C14", op: "c14.cki.frombytes", extra: c07CkiSeeds, budget: 1200})
	add(c07Desc{prop: "C14", op: "c14.ver", extra: func(r *Rng, _ bool) [][]string {
		return [][]string{{hx([]byte{0, 2, 0, 0})}, {hx(r.Bytes(4))}, {hx(r.Bytes(8))}}
	}, budget: 300})
	add(c07Desc{prop: "C14", op: "c14.dn.parse", text: true, extra: c07DnSeeds})
	add(c07Desc{prop: "C14", op: "c14.id.tobin", arg: 1, text: true, extra: c07IdSeeds})
	// C15: time values
	add(c07Desc{prop: "C15", op: "c15.kc.frombin", from: genC15, budget: 600})
	add(c07Desc{prop: "C15", op: "c15.ldap.ts2unix", from: genC15, text: true})
	add(c07Desc{prop: "C15", op: "c15.ldap.dur2sec", from: genC15, text: true})
	// C16: SIDs and DNs
	add(c07Desc{prop: "C16", op: "c16.sid", from: genC16})
	add(c07Desc{prop: "C16", op: "c16.dn", from: genC16, text: true})
	// C20: addresses, port ranges, LM:NT
	for _, o := range []string{"c20.v4.parse", "c20.v6.parse", "c20.port.parse", "c20.lmnt"} {
		add(c07Desc{prop: "C20", op: o, from: genC20, text: true})
	}
	// ---- campaign only (no Gen-free model) ----
	for _, o := range []string{"c03.msg.unmarshal", "c03.hdr.unmarshal", "c03.params.unmarshal", "c03.data.unmarshal"} {
		add(c07Desc{prop: "C03", op: o, from: genC03, noModel: true, trim: true, budget: 1500})
	}
	for _, name := range c07InfoLevelNames() {
		add(c07Desc{prop: "C07", op: "c07.il." + name, noModel: true, extra: c07InfoLevelSeeds(name), budget: 60})
	}
	for _, o := range []string{"c07.secfeat.connectionless", "c07.secfeat.reserved", "c07.secfeat.signature"} {
		add(c07Desc{prop: "C07", op: o, noModel: true, extra: c07RandomSeeds(8), budget: 200})
	}
	for _, o := range []string{"c07.kc.strength", "c07.kc.source", "c07.kc.secrettype"} {
		add(c07Desc{prop: "C07", op: o, noModel: true, extra: c07RandomSeeds(4), budget: 120})
	}
	for i, o := range []string{"c07.uuid.v1.frombytes", "c07.uuid.v2.frombytes", "c07.uuid.v8.frombytes"} {
		ver := []byte{1, 2, 8}[i]
		add(c07Desc{prop: "C07", op: o, noModel: true, extra: func(r *Rng, _ bool) [][]string {
			var out [][]string
			for k := 0; k < 3; k++ {
				b := r.Bytes(16 + 4*k)
				b[6] = ver<<4 | b[6]&0x0f
				out = append(out, []string{hx(b)})
			}
			return out
		}, budget: 400})
	}
	add(c07Desc{prop: "C07", op: "c07.llmnr.question", noModel: true, extra: c07LlmnrPartSeeds(false), rebuild: c07DecNameArgs, budget: 1500})
	add(c07Desc{prop: "C07", op: "c07.llmnr.rr", noModel: true, extra: c07LlmnrPartSeeds(true), rebuild: c07DecNameArgs, budget: 1500})
	return ds
}

// ---- campaign-only ops: the real code, outcome class only ------------------------------------------

type c07Unmarshaler interface {
	Unmarshal([]byte) (int, error)
}
type c07Marshaler interface {
	Marshal() ([]byte, error)
}

var c07InfoLevels = map[string]func() c07Unmarshaler{
	"SMB_FIND_FILE_BOTH_DIRECTORY_INFO": func() c07Unmarshaler { return &il.SMB_FIND_FILE_BOTH_DIRECTORY_INFO{} },
	"SMB_FIND_FILE_DIRECTORY_INFO":      func() c07Unmarshaler { return &il.SMB_FIND_FILE_DIRECTORY_INFO{} },
	"SMB_FIND_FILE_FULL_DIRECTORY_INFO": func() c07Unmarshaler { return &il.SMB_FIND_FILE_FULL_DIRECTORY_INFO{} },
	"SMB_FIND_FILE_NAMES_INFO":          func() c07Unmarshaler { return &il.SMB_FIND_FILE_NAMES_INFO{} },
	"SMB_INFO_ALLOCATION":               func() c07Unmarshaler { return &il.SMB_INFO_ALLOCATION{} },
	"SMB_INFO_IS_NAME_VALID":            func() c07Unmarshaler { return &il.SMB_INFO_IS_NAME_VALID{} },
	"SMB_INFO_QUERY_ALL_EAS":            func() c07Unmarshaler { return &il.SMB_INFO_QUERY_ALL_EAS{} },
	"SMB_INFO_QUERY_EAS_FROM_LIST":      func() c07Unmarshaler { return &il.SMB_INFO_QUERY_EAS_FROM_LIST{} },
	"SMB_INFO_QUERY_EA_SIZE":            func() c07Unmarshaler { return &il.SMB_INFO_QUERY_EA_SIZE{} },
	"SMB_INFO_SET_EAS":                  func() c07Unmarshaler { return &il.SMB_INFO_SET_EAS{} },
	"SMB_INFO_STANDARD":                 func() c07Unmarshaler { return &il.SMB_INFO_STANDARD{} },
	"SMB_INFO_VOLUME":                   func() c07Unmarshaler { return &il.SMB_INFO_VOLUME{} },
	"SMB_QUERY_FILE_ALL_INFO":           func() c07Unmarshaler { return &il.SMB_QUERY_FILE_ALL_INFO{} },
	"SMB_QUERY_FILE_ALT_NAME_INFO":      func() c07Unmarshaler { return &il.SMB_QUERY_FILE_ALT_NAME_INFO{} },
	"SMB_QUERY_FILE_BASIC_INFO":         func() c07Unmarshaler { return &il.SMB_QUERY_FILE_BASIC_INFO{} },
	"SMB_QUERY_FILE_COMRESSION_INFO":    func() c07Unmarshaler { return &il.SMB_QUERY_FILE_COMRESSION_INFO{} },
	"SMB_QUERY_FILE_EA_INFO":            func() c07Unmarshaler { return &il.SMB_QUERY_FILE_EA_INFO{} },
	"SMB_QUERY_FILE_NAME_INFO":          func() c07Unmarshaler { return &il.SMB_QUERY_FILE_NAME_INFO{} },
	"SMB_QUERY_FILE_STANDARD_INFO":      func() c07Unmarshaler { return &il.SMB_QUERY_FILE_STANDARD_INFO{} },
	"SMB_QUERY_FILE_STREAM_INFO":        func() c07Unmarshaler { return &il.SMB_QUERY_FILE_STREAM_INFO{} },
	"SMB_QUERY_FS_ATTRIBUTE_INFO":       func() c07Unmarshaler { return &il.SMB_QUERY_FS_ATTRIBUTE_INFO{} },
	"SMB_QUERY_FS_DEVICE_INFO":          func() c07Unmarshaler { return &il.SMB_QUERY_FS_DEVICE_INFO{} },
	"SMB_QUERY_FS_SIZE_INFO":            func() c07Unmarshaler { return &il.SMB_QUERY_FS_SIZE_INFO{} },
	"SMB_QUERY_FS_VOLUME_INFO":          func() c07Unmarshaler { return &il.SMB_QUERY_FS_VOLUME_INFO{} },
	"SMB_SET_FILE_ALLOCATION_INFO":      func() c07Unmarshaler { return &il.SMB_SET_FILE_ALLOCATION_INFO{} },
	"SMB_SET_FILE_BASIC_INFO":           func() c07Unmarshaler { return &il.SMB_SET_FILE_BASIC_INFO{} },
	"SMB_SET_FILE_DISPOSITION_INFO":     func() c07Unmarshaler { return &il.SMB_SET_FILE_DISPOSITION_INFO{} },
	"SMB_SET_FILE_END_OF_FILE_INFO":     func() c07Unmarshaler { return &il.SMB_SET_FILE_END_OF_FILE_INFO{} },
}

func c07InfoLevelNames() []string {
	var ns []string
	for n := range c07InfoLevels {
		ns = append(ns, n)
	}
	sort.Strings(ns)
	return ns
}

// outcome class of an Unmarshal-shaped call: `ok <n>` (with the sanity bound 0 <= n <= len) / `err`
func c07Class(n int, err error, inLen int) string {
	if err != nil {
		return "err"
	}
	return "ok " + strconv.Itoa(n)
}

func c07OwnOps() []OpDef {
	var ops []OpDef
	for _, name := range c07InfoLevelNames() {
		mk := c07InfoLevels[name]
		ops = append(ops, OpDef{Name: "c07.il." + name, Impl: func(a []string) string {
			b := unhx(a[0])
			n, err := mk().Unmarshal(b)
			return c07Class(n, err, len(b))
		}})
	}
	un := func(name string, mk func() c07Unmarshaler) {
		ops = append(ops, OpDef{Name: name, Impl: func(a []string) string {
			b := unhx(a[0])
			n, err := mk().Unmarshal(b)
			return c07Class(n, err, len(b))
		}})
	}
	un("c07.secfeat.connectionless", func() c07Unmarshaler { return securityfeatures.NewSecurityFeaturesConnectionlessTransport() })
	un("c07.secfeat.reserved", func() c07Unmarshaler { return securityfeatures.NewSecurityFeaturesReserved() })
	un("c07.secfeat.signature", func() c07Unmarshaler { return securityfeatures.NewSecurityFeaturesSecuritySignature() })
	ops = append(ops,
		OpDef{Name: "c07.kc.strength", Impl: func(a []string) string {
			ks := &key.KeyStrength{}
			ks.FromBytes(unhx(a[0]))
			return "ok " + strconv.FormatUint(uint64(ks.Value), 10)
		}},
		OpDef{Name: "c07.kc.source", Impl: func(a []string) string {
			return "ok " + strconv.Itoa(int(key.KeySource_AD.FromBytes(unhx(a[0]))))
		}},
		OpDef{Name: "c07.kc.secrettype", Impl: func(a []string) string {
			s := &kcrypto.SecretEncryptionType{}
			s.FromBytes(unhx(a[0]))
			return "ok " + strconv.Itoa(s.Value)
		}},
		OpDef{Name: "c07.uuid.v1.frombytes", Impl: func(a []string) string {
			if (&uuid_v1.UUIDv1{}).FromBytes(unhx(a[0])) != nil {
				return "err"
			}
			return "ok"
		}},
		OpDef{Name: "c07.uuid.v2.frombytes", Impl: func(a []string) string {
			if (&uuid_v2.UUIDv2{}).FromBytes(unhx(a[0])) != nil {
				return "err"
			}
			return "ok"
		}},
		OpDef{Name: "c07.uuid.v8.frombytes", Impl: func(a []string) string {
			if (&uuid_v8.UUIDv8{}).FromBytes(unhx(a[0])) != nil {
				return "err"
			}
			return "ok"
		}},
		OpDef{Name: "c07.llmnr.question", Impl: isolate("c07.llmnr.question", func(a []string) string {
			off, _ := strconv.Atoi(a[1])
			_, n, err := llmnr.DecodeQuestion(unhx(a[0]), off)
			return c07Class(n, err, 0)
		})},
		OpDef{Name: "c07.llmnr.rr", Impl: isolate("c07.llmnr.rr", func(a []string) string {
			off, _ := strconv.Atoi(a[1])
			_, n, err := llmnr.DecodeResourceRecord(unhx(a[0]), off)
			return c07Class(n, err, 0)
		})},
	)
	return ops
}

// ---- seeds built here ---------------------------------------------------------------------------------

func c07RandomSeeds(n int) func(r *Rng, thorough bool) [][]string {
	return func(r *Rng, _ bool) [][]string {
		return [][]string{{hx(r.Bytes(n))}, {hx(make([]byte, n))}, {hx(r.Bytes(2 * n))}}
	}
}

func c07InfoLevelSeeds(name string) func(r *Rng, thorough bool) [][]string {
	return func(r *Rng, _ bool) [][]string {
		var out [][]string
		if m, ok := c07InfoLevels[name]().(c07Marshaler); ok {
			func() {
				defer func() { recover() }()
				if b, err := m.Marshal(); err == nil {
					out = append(out, []string{hx(b)})
				}
			}()
		}
		for _, n := range []int{8, 24, 40, 72, 110} {
			b := r.Bytes(n)
			// small length fields make the variable parts fit
			for i := 0; i+4 <= len(b); i += 4 {
				if r.Intn(2) == 0 {
					binary.LittleEndian.PutUint32(b[i:], uint32(r.Intn(12)))
				}
			}
			out = append(out, []string{hx(b)})
		}
		return out
	}
}

// c09.decname / LLMNR parts: `<bytes> <offset>`; the offset follows the mutated buffer
func c07DecNameArgs(seed []string, b []byte) []string {
	off := "0"
	if len(seed) > 1 {
		off = seed[1]
	}
	return []string{hx(b), off}
}

func c07LlmnrPartSeeds(rr bool) func(r *Rng, thorough bool) [][]string {
	return func(r *Rng, thorough bool) [][]string {
		var out [][]string
		n := 10
		if thorough {
			n = 60
		}
		for i := 0; i < n; i++ {
			m := c09GenMsg(r, "quick", true)
			lm := m.toLib()
			w, err := lm.Encode()
			if err != nil || len(w) < 12 {
				continue
			}
			out = append(out, []string{hx(w), "12"})
			// a compressed variant: a pointer to the first name
			var tail []byte
			tail = append(tail, 0xC0, 12, 0, 1, 0, 1)
			if rr {
				tail = append(tail, 0, 0, 0, 30, 0, 4, 1, 2, 3, 4)
			}
			out = append(out, []string{hx(append(append([]byte{}, w...), tail...)), strconv.Itoa(len(w))})
		}
		return out
	}
}

func c07NbtSeeds(r *Rng, thorough bool) [][]string {
	var out [][]string
	for i := 0; i < 6; i++ {
		var s []byte
		for k := 0; k < 1+r.Intn(3); k++ {
			s = append(s, rfcFrame(r.Bytes(r.Pick(0, 1, 5, 17, 40)))...)
		}
		out = append(out, []string{hx(s), randSegs(r, len(s))})
	}
	return out
}

func c07Utf16Seeds(r *Rng, _ bool) [][]string {
	var out [][]string
	for _, s := range []string{"", "a", "hello", "Pässwörd€", "\U0001F600x", "a\x00b"} {
		out = append(out, []string{hx(stdUTF16LE(s))})
	}
	out = append(out, []string{hx([]byte{0x00, 0xd8})}, []string{hx([]byte{0x00, 0xdc, 0x00, 0xd8})}, []string{hx([]byte{0x41})})
	return out
}

// a ciphertext under the library's key for an arbitrary (already padded, or deliberately mis-padded) plaintext
func c07GppEncryptRaw(padded []byte) []byte {
	blk, err := aes.NewCipher(gppp.GPPP_AES_KEY)
	if err != nil {
		panic("harness: " + err.Error())
	}
	out := make([]byte, len(padded))
	cipher.NewCBCEncrypter(blk, make([]byte, 16)).CryptBlocks(out, padded)
	return out
}

func c07GppSeeds(b64 bool) func(r *Rng, thorough bool) [][]string {
	return func(r *Rng, thorough bool) [][]string {
		var cts [][]byte
		// every plaintext length 0..34 (odd lengths after unpadding included), valid padding
		for n := 0; n <= 34; n++ {
			cts = append(cts, refGppCipher(gppp.GPPP_AES_KEY, r.Bytes(n)))
		}
		for _, pw := range []string{"", "a", "Passw0rd!", "Pässwörd€", strings.Repeat("x", 40)} {
			cts = append(cts, refGppCipher(gppp.GPPP_AES_KEY, stdUTF16LE(pw)))
		}
		// invalid paddings: 0, > 16, inconsistent, whole-block
		for _, pad := range [][]byte{{0}, {17}, {0xff}, {2, 3}, {3, 3}, {1, 2}} {
			p := r.Bytes(16 - len(pad))
			cts = append(cts, c07GppEncryptRaw(append(p, pad...)))
		}
		cts = append(cts, c07GppEncryptRaw(bytesRepeat(16, 16)), c07GppEncryptRaw(append(r.Bytes(16), bytesRepeat(16, 16)...)))
		var out [][]string
		for _, ct := range cts {
			if b64 {
				enc := b64Std(ct)
				out = append(out, gppDec64Case([]byte(enc), "").MArgs)
				out = append(out, gppDec64Case([]byte(strings.TrimRight(enc, "=")), "").MArgs)
			} else {
				out = append(out, gppDecBCase(ct, "").MArgs)
			}
		}
		return out
	}
}

func bytesRepeat(v byte, n int) []byte {
	b := make([]byte, n)
	for i := range b {
		b[i] = v
	}
	return b
}

func c07CredSeeds(r *Rng, thorough bool) [][]string {
	var out [][]string
	n := 10
	if thorough {
		n = 60
	}
	for i := 0; i < n; i++ {
		c := c14randCred(r, []int{1, 2, 4, 8, 16, 33}[i%6], i%2 == 1)
		c.v = []uint32{0, 0x100, 0x200}[i%3]
		c.setID(r)
		if b := c.blob(); b != nil {
			out = append(out, []string{hx(b), "."})
		}
	}
	// synthetic entry sequences: every entry type 0..11 with short / exact / long values
	for t := 0; t <= 11; t++ {
		for _, n := range []int{0, 1, 4, 7, 8, 15, 16, 17, 24, 28} {
			b := binary.LittleEndian.AppendUint32(nil, 0x200)
			b = append(b, c14entry(byte(t), r.Bytes(n))...)
			if t == 3 && n >= 4 {
				copy(b[7:], "RSA1")
			}
			b = append(b, c14entry(2, r.Bytes(32))...)
			out = append(out, []string{hx(b), "."})
		}
	}
	return out
}

func c07RsaSeeds(r *Rng, thorough bool) [][]string {
	var out [][]string
	for _, ml := range []int{0, 1, 4, 16, 64} {
		for pr := 0; pr < 3; pr++ {
			rk := kcrypto.RSAKeyMaterial{KeySize: uint32(ml * 8), Exponent: 65537, Modulus: r.Bytes(ml)}
			if pr >= 1 {
				rk.Prime1 = r.Bytes((ml + 1) / 2)
			}
			if pr == 2 {
				rk.Prime2 = r.Bytes(ml / 2)
			}
			out = append(out, []string{hx(rk.ToBytes())})
		}
	}
	return out
}

func c07CkiSeeds(r *Rng, _ bool) [][]string {
	var out [][]string
	for _, n := range []int{2, 3, 4, 5, 9, 19, 26} {
		b := r.Bytes(n)
		b[0] = 1
		out = append(out, []string{hx(b)})
	}
	return out
}

func c07DnSeeds(r *Rng, _ bool) [][]string {
	var out [][]string
	for _, n := range []int{0, 1, 5, 16} {
		bin := r.Bytes(n)
		for _, dn := range []string{"", "CN=a,DC=x", "CN=svc:a:b,OU=a=b,DC=corp,DC=example"} {
			out = append(out, []string{hx([]byte(fmt.Sprintf("B:%d:%x:%s", 2*n, bin, dn)))})
		}
	}
	return out
}

func c07IdSeeds(r *Rng, _ bool) [][]string {
	var out [][]string
	for _, v := range []uint32{0, 0x100, 0x200, 0x300} {
		for _, n := range []int{0, 1, 2, 3, 16, 32} {
			b := r.Bytes(n)
			s := fmt.Sprintf("%x", b)
			if v >= 0x200 {
				s = b64Std(b)
			}
			out = append(out, []string{strconv.FormatUint(uint64(v), 10), hx([]byte(s))})
		}
	}
	return out
}

// ---- mutations --------------------------------------------------------------------------------------

var c07Ext16 = []uint16{0, 1, 2, 0x7f, 0x80, 0xff, 0x100, 0x7fff, 0x8000, 0xfffe, 0xffff}
var c07Ext32 = []uint32{0, 1, 0xff, 0x100, 0xffff, 0x10000, 0x7fffffff, 0x80000000, 0xfffffffe, 0xffffffff}

type c07Mutant struct {
	b   []byte
	tag string
}

// c07Sample materialises at most n of the total mutants `at(0..total-1)` (all of them when they fit,
// a random subset without replacement otherwise); `at` may decline (no-op mutation).
func c07Sample(r *Rng, total, n int, at func(i int) (c07Mutant, bool)) []c07Mutant {
	var out []c07Mutant
	if total <= n {
		for i := 0; i < total; i++ {
			if m, ok := at(i); ok {
				out = append(out, m)
			}
		}
		return out
	}
	seen := map[int]bool{}
	for tries := 0; len(out) < n && tries < 4*n; tries++ {
		i := r.Intn(total)
		if seen[i] {
			continue
		}
		seen[i] = true
		if m, ok := at(i); ok {
			out = append(out, m)
		}
	}
	return out
}

// byteMutants: the systematic part (all of it when small, a random subset otherwise) followed by the
// random part; at most `budget` mutants.
func c07ByteMutants(r *Rng, b []byte, others [][]byte, budget int) []c07Mutant {
	cp := func() []byte { return append([]byte{}, b...) }
	L := len(b)
	nc := len(corruptionBytes)
	// every truncation, every position x boundary byte
	out := c07Sample(r, L+L*nc, budget*45/100, func(i int) (c07Mutant, bool) {
		if i < L {
			return c07Mutant{append([]byte{}, b[:i]...), "truncated"}, true
		}
		i -= L
		pos, v := i/nc, corruptionBytes[i%nc]
		if b[pos] == v {
			return c07Mutant{}, false
		}
		m := cp()
		m[pos] = v
		return c07Mutant{m, "corrupt1"}, true
	})
	// 16- and 32-bit windows driven to extremes, both byte orders (length / count / offset fields)
	n16, n32 := len(c07Ext16)+4, len(c07Ext32)+4
	w16, w32 := 0, 0
	if L >= 2 {
		w16 = (L - 1) * n16 * 2
	}
	if L >= 4 {
		w32 = (L - 3) * n32 * 2
	}
	out = append(out, c07Sample(r, w16+w32, budget*35/100, func(i int) (c07Mutant, bool) {
		m := cp()
		if i < w16 {
			be := i%2 == 1
			i /= 2
			pos, k := i/n16, i%n16
			vals := append(append([]uint16{}, c07Ext16...), uint16(L), uint16(L-pos), uint16(L-pos-2), uint16(L-pos-1))
			if be {
				binary.BigEndian.PutUint16(m[pos:], vals[k])
			} else {
				binary.LittleEndian.PutUint16(m[pos:], vals[k])
			}
			return c07Mutant{m, "field16"}, true
		}
		i -= w16
		be := i%2 == 1
		i /= 2
		pos, k := i/n32, i%n32
		vals := append(append([]uint32{}, c07Ext32...), uint32(L), uint32(L-pos), uint32(L-pos-4), uint32(L-pos-3))
		if be {
			binary.BigEndian.PutUint32(m[pos:], vals[k])
		} else {
			binary.LittleEndian.PutUint32(m[pos:], vals[k])
		}
		return c07Mutant{m, "field32"}, true
	})...)
	// length octets in the long forms of ASN.1 DER (0x80|k followed by k octets) with k up to and beyond the width of a
	// machine word, put in place of one octet among the first few: a length accumulated in a signed integer goes
	// negative at k = 8, one accumulated in 32 bits wraps at k = 4
	if L >= 2 {
		longs := [][]byte{{0x84, 0xFF, 0xFF, 0xFF, 0xFF}, {0x84, 0x80, 0, 0, 0}, {0x88, 0xFF, 0xFF, 0xFF, 0xFF, 0xFF, 0xFF, 0xFF, 0xFF}, {0x88, 0x80, 0, 0, 0, 0, 0, 0, 0},
			{0x88, 0xFF, 0xFF, 0xFF, 0xFF, 0xFF, 0xFF, 0xFF, 0xFE}, {0x89, 1, 0, 0, 0, 0, 0, 0, 0, 0}, {0x8F, 0xFF, 0xFF, 0xFF, 0xFF, 0xFF, 0xFF, 0xFF, 0xFF, 0xFF, 0xFF, 0xFF, 0xFF, 0xFF, 0xFF, 0xFF}, {0x80}, {0xFF}}
		for pos := 1; pos < L && pos <= 6; pos++ {
			for _, lf := range longs {
				if r.Intn(3) == 0 || pos == 1 {
					m := append(append(append([]byte{}, b[:pos]...), lf...), b[pos+1:]...)
					out = append(out, c07Mutant{m, "der-long-length"})
				}
			}
		}
	}
	// random part: splices, chunk deletion / duplication / insertion, multi-byte corruption
	for len(out) < budget+9 {
		m := cp()
		tag := "splice"
		switch r.Intn(7) {
		case 0: // prefix of this, suffix of another valid input
			if len(others) > 0 {
				o := others[r.Intn(len(others))]
				m = append(append([]byte{}, m[:r.Intn(len(m)+1)]...), o[r.Intn(len(o)+1):]...)
			}
		case 1: // delete a chunk
			if len(m) > 0 {
				i := r.Intn(len(m))
				j := i + 1 + r.Intn(min(8, len(m)-i))
				m = append(m[:i:i], m[j:]...)
				tag = "chunk-deleted"
			}
		case 2: // duplicate a chunk
			if len(m) > 0 {
				i := r.Intn(len(m))
				j := i + 1 + r.Intn(min(8, len(m)-i))
				m = append(m[:j:j], append(append([]byte{}, m[i:j]...), m[j:]...)...)
				tag = "chunk-duplicated"
			}
		case 3: // insert random bytes
			i := r.Intn(len(m) + 1)
			m = append(m[:i:i], append(r.Bytes(1+r.Intn(6)), m[i:]...)...)
			tag = "inserted"
		case 4: // several boundary bytes, maybe cut, maybe trailing garbage
			for t := 0; t < 1+r.Intn(3) && len(m) > 0; t++ {
				m[r.Intn(len(m))] = corruptionBytes[r.Intn(len(corruptionBytes))]
			}
			if r.Bool() && len(m) > 2 {
				m = m[:r.Intn(len(m))]
			}
			m = append(m, r.Bytes(r.Intn(4))...)
		case 5: // a 16-bit extreme and a truncation
			if len(m) >= 2 {
				binary.LittleEndian.PutUint16(m[r.Intn(len(m)-1):], c07Ext16[r.Intn(len(c07Ext16))])
				m = m[:r.Intn(len(m)+1)]
				tag = "field16+truncated"
			}
		default: // trailing bytes
			m = append(m, r.Bytes(1+r.Intn(20))...)
			tag = "trailing"
		}
		out = append(out, c07Mutant{m, tag})
	}
	return out
}

var c07Seps = []byte(".:-/,{}()= \t\n;\\x")

func c07TextMutants(r *Rng, b []byte, others [][]byte, budget int) []c07Mutant {
	// the systematic mutants as thunks (positions captured), materialised only when sampled
	var sys []func() c07Mutant
	cp := func() []byte { return append([]byte{}, b...) }
	ins := func(i int, x ...byte) []byte {
		m := append([]byte{}, b[:i]...)
		m = append(m, x...)
		return append(m, b[i:]...)
	}
	for n := 0; n < len(b); n++ {
		n := n
		sys = append(sys, func() c07Mutant { return c07Mutant{append([]byte{}, b[:n]...), "text.truncated"} })
	}
	isSep := func(c byte) bool { return strings.IndexByte(string(c07Seps), c) >= 0 }
	isDigit := func(c byte) bool { return c >= '0' && c <= '9' }
	for i := 0; i < len(b); i++ {
		i := i
		if isSep(b[i]) {
			sys = append(sys, func() c07Mutant { return c07Mutant{ins(i, b[i]), "text.sep-doubled"} })
			sys = append(sys, func() c07Mutant {
				return c07Mutant{append(append([]byte{}, b[:i]...), b[i+1:]...), "text.sep-missing"}
			})
			for _, s := range c07Seps {
				s := s
				if s != b[i] {
					sys = append(sys, func() c07Mutant {
						m := cp()
						m[i] = s
						return c07Mutant{m, "text.sep-replaced"}
					})
				}
			}
		}
		if isDigit(b[i]) && (i == 0 || !isDigit(b[i-1])) {
			// the digit run that starts here: over-long runs in its place and in front of it
			j := i
			for j < len(b) && isDigit(b[j]) {
				j++
			}
			for _, run := range []string{"99999999999999999999999", "00000000000000000000001", "18446744073709551616", "9223372036854775808", "9223372036854775806", "4294967296", "1073741824", "268435456", "16777216", "65536", "256", "-1", "+1", ""} {
				run := run
				sys = append(sys, func() c07Mutant {
					m := append(append([]byte{}, b[:i]...), run...)
					return c07Mutant{append(m, b[j:]...), "text.digits"}
				})
			}
			sys = append(sys, func() c07Mutant { return c07Mutant{ins(i, []byte(strings.Repeat("0", 300))...), "text.digits"} })
		}
	}
	for i := 0; i <= len(b); i++ {
		i := i
		sys = append(sys, func() c07Mutant { return c07Mutant{ins(i, 0), "text.nul"} })
		sys = append(sys, func() c07Mutant { return c07Mutant{ins(i, 0x80), "text.non-ascii"} })
		sys = append(sys, func() c07Mutant { return c07Mutant{ins(i, 0xc3, 0xa9), "text.non-ascii"} })
		sys = append(sys, func() c07Mutant { return c07Mutant{ins(i, 0xe2, 0x80, 0x83), "text.non-ascii"} }) // U+2003 EM SPACE
	}
	for pos := 0; pos < len(b); pos++ {
		pos := pos
		for _, v := range []byte{0x00, 0x20, 0x2f, 0x3a, 0x7f, 0x80, 0xff} {
			v := v
			if b[pos] != v {
				sys = append(sys, func() c07Mutant {
					m := cp()
					m[pos] = v
					return c07Mutant{m, "text.corrupt1"}
				})
			}
		}
	}
	out := c07Sample(r, len(sys), budget*75/100, func(i int) (c07Mutant, bool) { return sys[i](), true })
	// letters whose upper- or lower-case form has another UTF-8 length (K for KELVIN SIGN, i for I WITH DOT ABOVE, ...) put
	// in place of as many bytes as they occupy, so that the text keeps its length: a parser that measures the text before
	// folding its case and cuts it afterwards (or the other way round) reads outside what it measured
	if len(b) >= 3 {
		folds := []string{"\u212a", "\u212b", "\u2126", "\u1e9e", "\u0130", "\u0131", "\u017f", "\u023a", "\u023e", "\u0250"}
		for n := budget/8 + 6; n > 0; n-- {
			f := folds[r.Intn(len(folds))]
			var i int
			switch r.Intn(3) {
			case 0:
				i = len(b) - len(f) - r.Intn(len(b)-len(f)+1)/3 // towards the end
			default:
				i = r.Intn(len(b) - len(f) + 1)
			}
			m := cp()
			copy(m[i:], f)
			out = append(out, c07Mutant{m, "text.case-length"})
		}
	}
	alphabet := []byte("0123456789abcdefABCDEFxX{}()-.:/, \t=+%")
	for len(out) < budget {
		m := cp()
		tag := "text.random-edit"
		switch r.Intn(6) {
		case 0:
			if len(others) > 0 {
				o := others[r.Intn(len(others))]
				m = append(append([]byte{}, m[:r.Intn(len(m)+1)]...), o[r.Intn(len(o)+1):]...)
				tag = "text.splice"
			}
		case 1:
			if len(m) > 0 {
				i := r.Intn(len(m))
				m = append(m[:i:i], m[i+1:]...)
			}
		case 2:
			i := r.Intn(len(m) + 1)
			m = append(m[:i:i], append([]byte{alphabet[r.Intn(len(alphabet))]}, m[i:]...)...)
		case 3:
			if len(m) > 1 {
				i := r.Intn(len(m) - 1)
				m[i], m[i+1] = m[i+1], m[i]
			}
		case 4: // repeated whole
			m = append(m, m...)
			tag = "text.doubled"
		default:
			for t := 0; t < 1+r.Intn(3) && len(m) > 0; t++ {
				m[r.Intn(len(m))] = alphabet[r.Intn(len(alphabet))]
			}
		}
		out = append(out, c07Mutant{m, tag})
	}
	return out
}

func c07IsASCII(b []byte) bool {
	for _, c := range b {
		if c >= 0x80 {
			return false
		}
	}
	return true
}

// ---- the generator ------------------------------------------------------------------------------------

func c07ImplClass(od OpDef, args []string) string {
	r := runImpl(od.Impl, args, workerOpTimeout)
	if i := strings.IndexByte(r.out, ' '); i > 0 {
		return r.out[:i]
	}
	return r.out
}

func genC07(r *Rng, tier string) []Case {
	thorough := tier == "thorough"
	cs := genC07Smb(r.Fork("smb"), tier)
	for i := range cs { // the SMB command decoders keep their spec line (`*`), and get the flag too
		cs[i].NoPanic = true
	}
	ops := map[string]OpDef{}
	for _, o := range props["C07"].Ops {
		ops[o.Name] = o
	}
	// one run of each source generator (quick tier: it is a seed supply, not the campaign)
	genCache := map[string][]Case{}
	perProp := map[string]int{}
	for _, d := range c07Descs() {
		od, ok := ops[d.op]
		if !ok {
			panic("harness: C07 has no implementation for op " + d.op)
		}
		rr := r.Fork("c07." + d.op)
		// 1. seeds
		var seeds [][]string
		seen := map[string]bool{}
		addSeed := func(a []string) {
			k := strings.Join(a, " ")
			if !seen[k] && len(a) > d.arg {
				seen[k] = true
				seeds = append(seeds, a)
			}
		}
		if d.extra != nil {
			for _, a := range d.extra(rr.Fork("extra"), thorough) {
				addSeed(a)
			}
		}
		if d.from != nil {
			key := fmt.Sprintf("%p", d.from)
			if _, ok := genCache[key]; !ok {
				genCache[key] = d.from(r.Fork("seedgen."+d.prop), "quick")
			}
			for _, c := range genCache[key] {
				if c.Op == d.op && c.MArgs != nil {
					a := c.MArgs
					if d.trim && len(a) > 1 {
						a = a[:1]
					}
					addSeed(append([]string{}, a...))
				}
			}
		}
		if len(seeds) == 0 {
			panic("harness: C07 found no seed for op " + d.op)
		}
		// 2. choose: valid inputs first (the implementation accepts them), a few rejected ones, spread over sizes
		nSeeds := 10
		budget := d.budget
		if budget == 0 {
			budget = 2500
		}
		if thorough {
			nSeeds, budget = 24, budget*4
		}
		sort.SliceStable(seeds, func(i, j int) bool { return len(seeds[i][d.arg]) < len(seeds[j][d.arg]) })
		var okSeeds, errSeeds [][]string
		stride := len(seeds)/(6*nSeeds) + 1
		for i := 0; i < len(seeds); i += stride {
			a := seeds[i]
			if maxLen := map[bool]int{false: 1500, true: 6000}[thorough]; len(a[d.arg]) > 2*maxLen {
				continue // inputs up to 1500 bytes (quick) / 6000 bytes (thorough)
			}
			if c07ImplClass(od, a) == "ok" {
				okSeeds = append(okSeeds, a)
			} else {
				errSeeds = append(errSeeds, a)
			}
		}
		pick := func(l [][]string, n int) [][]string {
			if len(l) <= n {
				return l
			}
			var out [][]string
			for i := 0; i < n; i++ {
				out = append(out, l[i*len(l)/n])
			}
			return out
		}
		chosen := pick(okSeeds, nSeeds*3/4+1)
		chosen = append(chosen, pick(errSeeds, nSeeds-len(chosen)+2)...)
		var bodies [][]byte
		for _, a := range chosen {
			bodies = append(bodies, unhx(a[d.arg]))
		}
		// 3. cases
		lines := map[string]bool{}
		forceNoM := false
		emit := func(seed []string, b []byte, tag string) {
			var a []string
			if d.rebuild != nil {
				a = d.rebuild(seed, b)
			} else {
				a = append([]string{}, seed...)
				a[d.arg] = hx(b)
			}
			k := strings.Join(a, " ")
			if lines[k] {
				return
			}
			lines[k] = true
			c := Case{Op: d.op, MArgs: a, Tag: d.op + "." + tag, NoPanic: true}
			if d.noModel || forceNoM || (d.asciiModel && !c07IsASCII(b)) {
				c.NoM = true
			}
			cs = append(cs, c)
			perProp[d.prop]++
		}
		per := budget / (len(chosen) + 1)
		longDone := 0
		for _, a := range chosen {
			b := unhx(a[d.arg])
			emit(a, b, "seed")
			var ms []c07Mutant
			if d.text {
				ms = c07TextMutants(rr, b, bodies, per*2/3)
				ms = append(ms, c07ByteMutants(rr, b, bodies, per/3)...)
			} else {
				ms = c07ByteMutants(rr, b, bodies, per)
			}
			for _, m := range ms {
				emit(a, m.b, m.tag)
			}
			if d.text && len(b) > 0 && longDone < 4 {
				longDone++
				// one long input per text op (the first seed, repeated behind a separator up to ~40 000 bytes): run on the
				// implementation only — no panic, no time-out, and the allocation audit's linear allowance (a decoder that
				// builds its result by repeated concatenation allocates quadratically and is far outside it here)
				for _, sep := range []string{",", ""} {
					long := make([]byte, 0, 41000)
					for len(long) < 40000 {
						long = append(append(long, b...), sep...)
					}
					forceNoM = true
					emit(a, long, "text.long")
					forceNoM = false
				}
			}
			// offsets of the two-argument LLMNR ops: extremes beside the buffer
			if len(a) == 2 && (d.op == "c09.decname" || strings.HasPrefix(d.op, "c07.llmnr.")) {
				for _, off := range []int{0, 1, len(b) - 1, len(b), len(b) + 1, 12, 0xffff, 1 << 31, 1<<62 - 1} {
					if off >= 0 {
						emit([]string{a[0], strconv.Itoa(off)}, b, "offset")
					}
				}
				// negative offsets: outside the model (its offsets are naturals), inside "any input"
				forceNoM = true
				for _, off := range []int{-1, -2, -len(b), -len(b) - 1, -1 << 31, -1 << 62} {
					emit([]string{a[0], strconv.Itoa(off)}, b, "offset-negative")
				}
				forceNoM = false
			}
		}
		// 4. no structure at all: empty, constant, random
		base := chosen[0]
		emit(base, nil, "empty")
		for _, n := range []int{1, 2, 3, 4, 7, 8, 15, 16, 17, 31, 32, 33, 64, 100} {
			emit(base, make([]byte, n), "zeros")
			emit(base, bytesRepeat(0xff, n), "ones")
		}
		for i := 0; i < per/2+20; i++ {
			if d.text {
				emit(base, rr.BytesFrom(rr.Intn(48), []byte("0123456789abcdefABCDEF{}()-.:/, x\x00\xff\xc3\xa9")), "random-text")
			} else {
				emit(base, rr.Bytes(rr.Intn(64)), "random")
			}
		}
	}
	// the SHA-256 tables of the key-credential parser lines
	var kc []int
	for i := range cs {
		if cs[i].Op == "c14.parse" {
			kc = append(kc, i)
		}
	}
	sub := make([]Case, len(kc))
	for k, i := range kc {
		sub[k] = cs[i]
	}
	c14Resolve(sub)
	for k, i := range kc {
		cs[i] = sub[k]
	}
	return cs
}

func b64Std(b []byte) string {
	const al = "ABCDEFGHIJKLMNOPQRSTUVWXYZabcdefghijklmnopqrstuvwxyz0123456789+/"
	var sb strings.Builder
	for i := 0; i < len(b); i += 3 {
		var v uint32
		n := 0
		for j := 0; j < 3; j++ {
			v <<= 8
			if i+j < len(b) {
				v |= uint32(b[i+j])
				n++
			}
		}
		sb.WriteByte(al[v>>18&63])
		sb.WriteByte(al[v>>12&63])
		if n > 1 {
			sb.WriteByte(al[v>>6&63])
		} else {
			sb.WriteByte('=')
		}
		if n > 2 {
			sb.WriteByte(al[v&63])
		} else {
			sb.WriteByte('=')
		}
	}
	return sb.String()
}

// the ops of the properties whose decoders C07 runs (resolved after every init has registered)
func c07LateOps() []OpDef {
	setExactCap()
	need := map[string]bool{}
	for _, d := range c07Descs() {
		if d.prop != "C07" {
			need[d.prop+" "+d.op] = true
		}
	}
	var out []OpDef
	for pid, p := range props {
		for _, o := range p.Ops {
			if need[pid+" "+o.Name] {
				out = append(out, o)
				delete(need, pid+" "+o.Name)
			}
		}
	}
	if len(need) > 0 {
		panic(fmt.Sprintf("harness: C07 ops not registered by their properties: %v", need))
	}
	sort.Slice(out, func(i, j int) bool { return out[i].Name < out[j].Name })
	return out
}

func init() {
	register(&Prop{ID: "C07", Ops: append(smbOps(), c07OwnOps()...), Gen: genC07, LateOps: c07LateOps})
}
