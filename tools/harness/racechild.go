package main

// Child processes for the concurrent parts of C17 / C18.
//
// The harness binary built by ./check has no race detector.  For the parts of a property that are about
// schedules, the harness builds itself a second time with `-race` (once per run; the Go build cache makes
// later builds cheap) and runs that binary as a child in "child mode": the environment variable
// VERIF_CHILD names the child program (each property's init() checks it and never returns), the job comes
// on stdin as JSON and the observations go to stdout as JSON lines.  Race reports are collected from the
// runtime's log file (GORACE=log_path=...), attributed to the job during which they appeared.
//
// If the race build is impossible (no cgo/gcc) the same child mode runs in the plain binary and the
// result says so; nothing is silently skipped.

import (
	"bytes"
	"context"
	"flag"
	"fmt"
	"os"
	"os/exec"
	"path/filepath"
	"regexp"
	"strings"
	"sync"
	"time"
)

var raceBuild struct {
	once sync.Once
	exe  string
	race bool
	note string
}

// binDir: where ./check keeps its binaries (the directory of the -out result file).
func harnessBinDir() string {
	if f := flag.Lookup("out"); f != nil && f.Value.String() != "" {
		return filepath.Dir(f.Value.String())
	}
	return os.TempDir()
}

func driverPath() string {
	if f := flag.Lookup("driver"); f != nil {
		return f.Value.String()
	}
	return ""
}

// raceHarness returns the executable to use for child mode and whether it has the race detector.
func raceHarness() (exe string, race bool, note string) {
	raceBuild.once.Do(func() {
		self, _ := os.Executable()
		raceBuild.exe, raceBuild.race = self, false
		if os.Getenv("VERIF_NO_RACE") != "" {
			raceBuild.note = "race detector disabled by VERIF_NO_RACE"
			return
		}
		wd, _ := os.Getwd()
		if _, err := os.Stat(filepath.Join(wd, "harness", "main.go")); err != nil {
			raceBuild.note = "race build skipped: harness sources not found from " + wd
			return
		}
		out := filepath.Join(harnessBinDir(), "harness_race")
		ctx, cancel := context.WithTimeout(context.Background(), 15*time.Minute)
		defer cancel()
		cmd := exec.CommandContext(ctx, "go", "build", "-race", "-tags", "verif", "-o", out, "./harness")
		cmd.Dir = wd
		cmd.Env = append(os.Environ(), "CGO_ENABLED=1")
		b, err := cmd.CombinedOutput()
		if err != nil {
			raceBuild.note = "race build failed (running the concurrent part without -race): " + truncS(strings.TrimSpace(string(b)))
			return
		}
		raceBuild.exe, raceBuild.race, raceBuild.note = out, true, "built with -race"
	})
	return raceBuild.exe, raceBuild.race, raceBuild.note
}

type childResult struct {
	Stdout  []byte
	Stderr  string
	RaceLog string // everything the race runtime wrote (empty without -race)
	Err     error  // non-zero exit, fatal error, timeout
	Race    bool   // the child had the race detector
}

// runChild runs child program `name` with `input` on stdin.
func runChild(name string, input []byte, timeout time.Duration) childResult {
	exe, race, _ := raceHarness()
	logBase := filepath.Join(harnessBinDir(), fmt.Sprintf("racelog_%s_%d_%d", name, os.Getpid(), time.Now().UnixNano()))
	ctx, cancel := context.WithTimeout(context.Background(), timeout)
	defer cancel()
	cmd := exec.CommandContext(ctx, exe)
	cmd.Env = append(os.Environ(), "VERIF_CHILD="+name, "VERIF_RACELOG="+logBase,
		"GORACE=log_path="+logBase+" halt_on_error=0 exitcode=0 history_size=3")
	cmd.Stdin = bytes.NewReader(input)
	var ob, eb bytes.Buffer
	cmd.Stdout, cmd.Stderr = &ob, &eb
	err := cmd.Run()
	if ctx.Err() != nil {
		err = fmt.Errorf("child timed out after %v", timeout)
	}
	res := childResult{Stdout: ob.Bytes(), Stderr: eb.String(), Err: err, Race: race}
	if matches, _ := filepath.Glob(logBase + ".*"); len(matches) > 0 {
		for _, m := range matches {
			b, _ := os.ReadFile(m)
			res.RaceLog += string(b)
			os.Remove(m)
		}
	}
	return res
}

// in the child: size of the race log written so far by this process
func childRaceLogSize() int64 {
	base := os.Getenv("VERIF_RACELOG")
	if base == "" {
		return 0
	}
	st, err := os.Stat(fmt.Sprintf("%s.%d", base, os.Getpid()))
	if err != nil {
		return 0
	}
	return st.Size()
}

// in the child: the race log text from offset `from`
func childRaceLogFrom(from int64) string {
	base := os.Getenv("VERIF_RACELOG")
	if base == "" {
		return ""
	}
	b, err := os.ReadFile(fmt.Sprintf("%s.%d", base, os.Getpid()))
	if err != nil || int64(len(b)) <= from {
		return ""
	}
	return string(b[from:])
}

var raceFrameRe = regexp.MustCompile(`(?m)^\s+(github\.com/TheManticoreProject/Manticore/[^\s(]+)\(`)

// first /repo function named in a race report (the key of the report)
func raceSite(report string) string {
	ms := raceFrameRe.FindAllStringSubmatch(report, -1)
	seen := map[string]bool{}
	var out []string
	for _, m := range ms {
		fn := strings.TrimPrefix(m[1], "github.com/TheManticoreProject/Manticore/")
		if !seen[fn] {
			seen[fn] = true
			out = append(out, fn)
		}
		if len(out) == 2 {
			break
		}
	}
	if len(out) == 0 {
		return "?"
	}
	return strings.Join(out, "+")
}

// first line of a Go fatal error / panic in a child's stderr
func fatalLine(stderr string) string {
	for _, l := range strings.Split(stderr, "\n") {
		if strings.HasPrefix(l, "fatal error:") || strings.HasPrefix(l, "panic:") {
			return strings.TrimSpace(l)
		}
	}
	return ""
}
