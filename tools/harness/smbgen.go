package main

import (
	_ "embed"
	"encoding/json"
	"fmt"
	"strings"
)

// pinned expectations: which field sizes which buffer / counts which list, per command
// (twin of lean/Manticore/Spec/SmbRelations.lean; NOT regenerated from the code under test)
//
//go:embed smb_relations.json
var smbRelationsJSON []byte

var smbRelations map[string]map[string]*gExpr

func pinnedRel(cmd, field string, dflt *gExpr) *gExpr {
	if smbRelations == nil {
		if err := json.Unmarshal(smbRelationsJSON, &smbRelations); err != nil {
			panic("harness: smb_relations.json: " + err.Error())
		}
	}
	if e, ok := smbRelations[cmd][field]; ok {
		return e
	}
	return dflt
}

// evalG evaluates an IR expression over the generated field values
func evalG(e *gExpr, ints map[string]uint64, lens map[string]int, pad int) int {
	switch e.K {
	case "lit":
		return e.N
	case "fint":
		return int(ints[e.F])
	case "flen":
		return lens[e.F]
	case "pad":
		return pad
	case "mul":
		return e.N * evalG(e.A, ints, lens, pad)
	case "add":
		return evalG(e.A, ints, lens, pad) + evalG(e.B, ints, lens, pad)
	}
	return 0
}

// genEnv draws a field assignment for command g.  When consistent is true, length/count fields are
// made to agree with the buffers they describe (following the unmarshal program: a buffer read with
// length int(c.G) gets exactly that many bytes; counted lists get exactly c.G entries).
func genEnv(r *Rng, g *gCmd, consistent bool, distinct bool, small bool) string {
	ints := map[string]uint64{}
	lens := map[string]int{}
	vals := fieldVals{}
	fixed := map[string]bool{}
	ftype := map[string]string{}
	for _, f := range g.Fields {
		ftype[f.Name] = f.Type
	}
	// formats set by Marshal (SetBufferFormat) per field
	format := map[string]int{}
	for _, s := range g.Marshal {
		if s.Op == "setFmt" {
			format[s.F] = s.K
		}
	}
	// 1. integers
	for _, f := range g.Fields {
		if b := typeBits(f.Type); b > 0 {
			ints[f.Name] = randIntBits(r, b, distinct)
		}
	}
	pick := func(max int) int {
		if small {
			return r.Intn(4)
		}
		return r.Pick(0, 1, 2, 3, 7, 16, 33, max)
	}
	// 2. walk the unmarshal program to fix lengths
	pad := 0
	var walk func(ss []gStmt)
	walk = func(ss []gStmt) {
		for _, s := range ss {
			switch s.Op {
			case "readBytes":
				if consistent {
					s.E = pinnedRel(g.Name, s.F, s.E) // size the buffer by the documented field, whatever the decoder does
				}
				if s.E.K == "fint" && consistent {
					g0 := s.E.F
					if !fixed[g0] {
						n := pick(60)
						ints[g0] = uint64(n)
						fixed[g0] = true
					}
					lens[s.F] = int(ints[g0])
				} else if s.E.K == "pad" && consistent {
					lens[s.F] = pad
				} else if s.E.K == "lit" {
					lens[s.F] = s.E.N
				} else {
					lens[s.F] = pick(40)
				}
			case "readRest":
				lens[s.F] = pick(80)
			case "setPad":
				if consistent {
					s.E = pinnedRel(g.Name, "padLen", s.E) // the documented starting point of the padding length
				}
				pad = evalG(s.E, ints, lens, pad)
			case "padRoundUp":
				if pad%2 == 1 {
					pad++
				}
			case "padIfPOdd":
				// alignment of what follows the parameter block: (len(own parameter bytes)+3)%2, known when
				// every parameter slot has a fixed width
				if n, ok := fixedParamLen(g); ok && (n+3)%2 == 1 {
					pad = 1
				}
			case "forCountInt", "forCountSub":
				if consistent {
					if e := pinnedRel(g.Name, s.F, nil); e != nil && e.K == "fint" {
						s.G = e.F
					}
					if !fixed[s.G] {
						ints[s.G] = uint64(pick(5) % 6)
						if s.Op == "forCountInt" && !small && r.Intn(5) == 0 {
							// long integer lists: the counts at which arithmetic done in the count field's own 8 bits wraps,
							// and the longest a 255-word parameter block has room for behind fourteen fixed words
							ints[s.G] = uint64(r.Pick(127, 128, 129, 200, 241))
						}
						fixed[s.G] = true
					}
					lens[s.F] = int(ints[s.G])
				} else {
					lens[s.F] = pick(5) % 6
				}
			case "whileFitsSub":
				lens[s.F] = pick(3) % 4
			case "cstrUnicode":
				lens[s.F] = 2 * (pick(9) % 10)
			case "ifWordCount":
				walk(s.Body)
			}
		}
	}
	walk(g.Unmarshal)
	// 3. tokens
	var parts []string
	for _, f := range g.Fields {
		t := f.Type
		switch {
		case typeBits(t) > 0:
			vals[f.Name] = fmt.Sprintf("n:%d", ints[f.Name])
		case t == "[]types.UCHAR":
			n, ok := lens[f.Name]
			if !ok {
				n = pick(20)
			}
			var b []byte
			if isCstr(g, f.Name) {
				for i := 0; i < n/2; i++ { // UTF-16 units other than 0x0000, often with one zero byte
					lo, hi := byte(0x41+r.Intn(26)), byte(r.Intn(2))
					switch r.Intn(4) {
					case 0:
						lo, hi = 0, byte(1+r.Intn(255))
					case 1:
						lo, hi = r.Byte(), r.Byte()
						if lo == 0 && hi == 0 {
							lo = 1
						}
					}
					b = append(b, lo, hi)
				}
			} else {
				b = r.Bytes(n)
			}
			vals[f.Name] = "b:" + hx(b)
		case strings.HasPrefix(t, "[") && strings.HasSuffix(t, "types.UCHAR"):
			var n int
			fmt.Sscanf(t, "[%d]", &n)
			vals[f.Name] = "b:" + hx(r.Bytes(n))
		case strings.HasPrefix(t, "[") && (strings.HasSuffix(t, "types.USHORT") || strings.HasSuffix(t, "types.ULONG")):
			bits := 16
			if strings.HasSuffix(t, "ULONG") {
				bits = 32
			}
			n := 0
			if strings.HasPrefix(t, "[]") {
				n = lens[f.Name]
			} else {
				fmt.Sscanf(t, "[%d]", &n)
			}
			ns := make([]uint64, n)
			for i := range ns {
				ns[i] = randIntBits(r, bits, distinct)
			}
			vals[f.Name] = "l:" + showNums(ns)
		case strings.HasPrefix(t, "[]types."):
			typ := strings.TrimPrefix(t, "[]types.")
			n := lens[f.Name]
			var ps []string
			for i := 0; i < n; i++ {
				ps = append(ps, randTup(r, typ, 0, distinct))
			}
			if n == 0 {
				vals[f.Name] = "L:."
			} else {
				vals[f.Name] = "L:" + strings.Join(ps, "/")
			}
		default:
			typ := t
			if i := strings.LastIndex(typ, "."); i >= 0 {
				typ = typ[i+1:]
			}
			fm, ok := format[f.Name]
			if !ok && (typ == "SMB_STRING") {
				fm = 1 + r.Intn(5) // Marshal does not set a format: any of the five may be in the field
			}
			tup := randTup(r, typ, fm, distinct)
			if tup == "" {
				return "" // a nested type this generator does not know yet
			}
			vals[f.Name] = "t:" + tup
		}
		parts = append(parts, f.Name+"="+vals[f.Name])
	}
	// 4. the AndX block of an AndX command, set through SetAndX in two cases out of three (otherwise Marshal
	// creates the default one): any command byte, reserved mostly 0, offsets with equal and with different bytes
	if g.IsAndX && r.Intn(3) != 0 {
		cmd := r.Pick(0xFF, 0x04, 0x2e, 0x75, r.Intn(256))
		rsv := 0
		if r.Intn(4) == 0 {
			rsv = r.Intn(256)
		}
		var off uint64
		switch r.Intn(4) {
		case 0:
			b := uint64(r.Intn(256))
			off = b<<8 | b // both bytes equal: byte order is invisible
		case 1:
			off = uint64(r.Pick(0, 1, 0x00ff, 0x0100, 0xff00, 0xffff))
		default:
			off = randIntBits(r, 16, distinct)
		}
		parts = append(parts, fmt.Sprintf("%s=l:%d,%d,%d", andxFieldName, cmd, rsv, off))
	}
	if len(parts) == 0 {
		return "."
	}
	return strings.Join(parts, ";")
}

// length of the parameter bytes a command's own fields occupy, when every parameter slot has a fixed width
func fixedParamLen(g *gCmd) (int, bool) {
	n := 0
	for _, s := range g.Marshal {
		if s.Blk != "P" {
			if len(s.Body) > 0 {
				return 0, false
			}
			continue
		}
		switch s.Op {
		case "int", "quad":
			n += s.W
		case "u8":
			n++
		default:
			return 0, false
		}
	}
	return n, true
}

func isCstr(g *gCmd, f string) bool {
	for _, s := range g.Unmarshal {
		if s.Op == "cstrUnicode" && s.F == f {
			return true
		}
	}
	return false
}

// validEncoding marshals the real command for a generated assignment (used to derive malformed inputs)
func validEncoding(name, env string) []byte {
	defer func() { recover() }()
	c := newCmd(name)
	setEnv(c, env)
	b, err := c.Marshal()
	if err != nil {
		return nil
	}
	return b
}

func fixedWidthFields(g *gCmd) []string {
	var out []string
	for _, f := range g.Fields {
		if typeBits(f.Type) > 0 {
			out = append(out, f.Name)
		}
	}
	return out
}

// C04: round trips and slot locality over every command reachable from the factories
func genC04(r *Rng, tier string) []Case {
	loadGenCmds()
	loadFactories()
	per := 12
	if tier == "thorough" {
		per = 400
	}
	var cs []Case
	for _, name := range genOrder {
		g := genCmds[name]
		e0 := env0Of(name)
		rr := r.Fork("c04." + name)
		for k := 0; k < per; k++ {
			env := genEnv(rr, g, true, k%3 == 1, k%4 == 0)
			if env == "" {
				continue
			}
			cs = append(cs, Case{Op: "smb.rt", MArgs: []string{name, e0, env}, SArgs: []string{name, e0, env}, Tag: "rt.consistent"})
			if k%4 == 2 {
				// the same message decoded into a receiver that holds the field values of another message: nothing of the
				// earlier one may survive (an optional field absent from this message, a list that is appended to)
				if used := genEnv(rr, g, true, false, k%8 == 2); used != "" {
					cs = append(cs, Case{Op: "smb.rt", MArgs: []string{name, used, env}, SArgs: []string{name, used, env}, Tag: "rt.used-receiver"})
				}
			}
			if k%4 == 3 { // inconsistent assignments: tie only (the property is silent)
				bad := genEnv(rr, g, false, false, false)
				cs = append(cs, Case{Op: "smb.rt", MArgs: []string{name, e0, bad}, SArgs: []string{name, e0, bad}, Tag: "rt.unconstrained"})
			}
			if fw := fixedWidthFields(g); len(fw) > 0 && k%2 == 0 {
				f := fw[rr.Intn(len(fw))]
				cs = append(cs, Case{Op: "smb.slot", MArgs: []string{name, env, f}, SArgs: []string{name, env, f}, Tag: "slot"})
			}
		}
	}
	return cs
}

// C05: the emitted bytes against the MS-CIFS encoder, on values whose bytes are pairwise distinct
func genC05(r *Rng, tier string) []Case {
	loadGenCmds()
	loadFactories()
	per := 10
	if tier == "thorough" {
		per = 300
	}
	var cs []Case
	// every header field, with pairwise distinct bytes and boundary values
	rh := r.Fork("c05.hdr")
	nh := 200
	if tier == "thorough" {
		nh = 5000
	}
	for i := 0; i < nh; i++ {
		d := i%2 == 0
		u := func(bits int) string { return fmt.Sprint(randIntBits(rh, bits, d)) }
		args := []string{hx([]byte{0xFF, 'S', 'M', 'B'}), u(8), u(32), u(8), u(16), u(16), hx(rh.Bytes(8)), u(16), u(16), u(16), u(16), u(16)}
		if i%10 == 9 {
			args[0] = hx(rh.Bytes(4))
		}
		cs = append(cs, Case{Op: "smb.hdr", MArgs: args, SArgs: args, NoM: true, Tag: "hdr"})
	}
	for _, name := range genOrder {
		g := genCmds[name]
		rr := r.Fork("c05." + name)
		for k := 0; k < per; k++ {
			env := genEnv(rr, g, true, k%2 == 0, k%3 == 0)
			if env == "" {
				continue
			}
			tag := "enc.random"
			if k%2 == 0 {
				tag = "enc.distinct-bytes"
			}
			cs = append(cs, Case{Op: "smb.enc", MArgs: []string{name, env}, SArgs: []string{name, env}, Tag: tag})
		}
		// "every number (0..N) of negotiated dialects": each count once per run, not left to chance
		hasDialects := false
		for _, f := range g.Fields {
			if f.Type == "dialects.Dialects" {
				hasDialects = true
			}
		}
		if hasDialects {
			for n := 0; n <= 8; n++ {
				forceDialectCount = n
				env := genEnv(rr, g, true, n%2 == 0, false)
				forceDialectCount = -1
				if env != "" {
					cs = append(cs, Case{Op: "smb.enc", MArgs: []string{name, env}, SArgs: []string{name, env}, Tag: fmt.Sprintf("enc.dialects-%d", n)})
				}
			}
		}
	}
	return cs
}

var corruptionBytes = []byte{0x00, 0x01, 0x7f, 0x80, 0xfe, 0xff}

// C07 (SMB part): every truncation and every single-byte boundary-value corruption of valid encodings
func genC07Smb(r *Rng, tier string) []Case {
	loadGenCmds()
	loadFactories()
	per := 2
	if tier == "thorough" {
		per = 25
	}
	var cs []Case
	for _, name := range genOrder {
		g := genCmds[name]
		e0 := env0Of(name)
		rr := r.Fork("c07." + name)
		dec := func(b []byte, tag string) {
			cs = append(cs, Case{Op: "smb.dec", MArgs: []string{name, e0, hx(b)}, SArgs: []string{name, e0, hx(b)}, Tag: tag})
		}
		for k := 0; k < per; k++ {
			env := genEnv(rr, g, true, false, true)
			if env == "" {
				continue
			}
			b := validEncoding(name, env)
			if b == nil {
				continue
			}
			dec(b, "dec.valid")
			for n := 0; n < len(b); n++ {
				dec(b[:n], "dec.truncated")
			}
			for pos := 0; pos < len(b); pos++ {
				for _, v := range corruptionBytes {
					if b[pos] == v {
						continue
					}
					m := append([]byte{}, b...)
					m[pos] = v
					dec(m, "dec.corrupt1")
				}
			}
			for j := 0; j < 8; j++ { // splices
				m := append([]byte{}, b...)
				for t := 0; t < 1+rr.Intn(3) && len(m) > 0; t++ {
					m[rr.Intn(len(m))] = corruptionBytes[rr.Intn(len(corruptionBytes))]
				}
				if rr.Bool() && len(m) > 2 {
					m = m[:rr.Intn(len(m))]
				}
				dec(append(m, rr.Bytes(rr.Intn(4))...), "dec.splice")
			}
		}
		dec(rr.Bytes(rr.Intn(40)), "dec.random")
	}
	return cs
}

func init() {
	register(&Prop{ID: "C04", Ops: smbOps(), Gen: genC04})
	register(&Prop{ID: "C05", Ops: smbOps(), Gen: genC05})
	register(&Prop{ID: "SMBDEV", Ops: smbOps(), Gen: func(r *Rng, tier string) []Case {
		loadGenCmds()
		loadFactories()
		var cs []Case
		for _, name := range genOrder {
			g := genCmds[name]
			e0 := env0Of(name)
			cs = append(cs, Case{Op: "smb.enc", MArgs: []string{name, e0}, Tag: "enc.zero"})
			for k := 0; k < 5; k++ {
				env := genEnv(r, g, true, false, false)
				if env == "" {
					continue
				}
				cs = append(cs, Case{Op: "smb.enc", MArgs: []string{name, env}, Tag: "enc.consistent"})
				cs = append(cs, Case{Op: "smb.rt", MArgs: []string{name, e0, env}, Tag: "rt.consistent"})
			}
		}
		return cs
	}})
}
