package main

// C18 — name-service servers / clients on loopback sockets.
//
//   c18.dispatch : one request with a given flags word to a fresh NBNS server of a given kind; the observable
//                  outcome (response header, answers, table afterwards) against the Lean model of
//                  handlePacket/handleMessage (tie, Gen constants) and against the RFC 1002 routing (property).
//   c18.sock     : a whole socket scenario, run in a child process built with the race detector:
//                  isolation  (N concurrent clients, distinct ids/questions, every response must belong to one
//                              outstanding request of the client that receives it),
//                  routing    (LLMNR client: responses are handed to the query with the matching id),
//                  stop       (Stop/Close at random moments under traffic: returns, can be repeated, no goroutine
//                              left behind).  Timing is never a verdict: lost datagrams are counted, not reported;
//                              the only time bounds are 60 s watchdogs on Stop/Serve returning and 30 s for goroutines to end.

import (
	"context"
	"encoding/binary"
	"encoding/json"
	"fmt"
	"io"
	"log"
	"net"
	"os"
	"regexp"
	"runtime"
	"sort"
	"strconv"
	"strings"
	"sync"
	"sync/atomic"
	"time"

	"github.com/TheManticoreProject/Manticore/network/llmnr"
	"github.com/TheManticoreProject/Manticore/network/netbios/nbtns"
)

func init() {
	if os.Getenv("VERIF_CHILD") == "c18" {
		c18ChildMain()
		os.Exit(0)
	}
	register(&Prop{
		ID: "C18",
		Ops: []OpDef{
			{Name: "c18.dispatch", Impl: c18DispatchImpl},
			{Name: "c18.sock", Impl: c18SockImpl},
		},
		Gen:   genC18,
		Extra: extraC18,
	})
}

var c18Quiet sync.Once

// the servers log through the standard logger ("listening on …", "use of closed network connection")
func c18Silence() { c18Quiet.Do(func() { log.SetOutput(io.Discard) }) }

// ---- NBNS wire helpers -----------------------------------------------------------------------

var c18Kinds = []string{"server", "tcp", "udp"} // index = index of the dispatch site in Gen.NbnsDispatch.sites

type nbServer struct {
	kind string
	addr string
	tbl  *nbtns.NetBIOSNameServer // nil for the standalone Server (its table is private)
	stop func()
}

func startNB(kind string) (*nbServer, error) {
	c18Silence()
	var lastErr error
	for attempt := 0; attempt < 5; attempt++ { // port 0 cannot clash, but be patient with a loaded machine
		switch kind {
		case "server":
			s, err := nbtns.NewServer("127.0.0.1:0", false)
			if err == nil {
				err = s.Start()
			}
			if err == nil {
				return &nbServer{kind: kind, addr: s.VerifBoundAddr().String(), stop: s.Stop}, nil
			}
			lastErr = err
		case "udp":
			tbl := nbtns.NewNetBIOSNameServer(false)
			s, err := nbtns.NewUDPServer("127.0.0.1:0", tbl)
			if err == nil {
				err = s.Start()
			}
			if err == nil {
				return &nbServer{kind: kind, addr: s.VerifBoundAddr().String(), tbl: tbl, stop: s.Stop}, nil
			}
			lastErr = err
		case "tcp":
			tbl := nbtns.NewNetBIOSNameServer(false)
			s, err := nbtns.NewTCPServer("127.0.0.1:0", tbl)
			if err == nil {
				err = s.Start()
			}
			if err == nil {
				return &nbServer{kind: kind, addr: s.VerifBoundAddr().String(), tbl: tbl, stop: s.Stop}, nil
			}
			lastErr = err
		default:
			return nil, fmt.Errorf("unknown server kind %q", kind)
		}
		time.Sleep(50 * time.Millisecond)
	}
	return nil, lastErr
}

type nbConn struct {
	tcp  bool
	conn net.Conn
}

func dialNB(s *nbServer) (*nbConn, error) {
	network := "udp4"
	if s.kind == "tcp" {
		network = "tcp4"
	}
	c, err := net.DialTimeout(network, s.addr, 10*time.Second)
	if err != nil {
		return nil, err
	}
	return &nbConn{tcp: s.kind == "tcp", conn: c}, nil
}

func (c *nbConn) send(b []byte) error {
	c.conn.SetWriteDeadline(time.Now().Add(10 * time.Second))
	if c.tcp {
		f := make([]byte, 2+len(b))
		binary.BigEndian.PutUint16(f, uint16(len(b)))
		copy(f[2:], b)
		_, err := c.conn.Write(f)
		return err
	}
	_, err := c.conn.Write(b)
	return err
}

func (c *nbConn) recv(timeout time.Duration) ([]byte, error) {
	c.conn.SetReadDeadline(time.Now().Add(timeout))
	if c.tcp {
		var l [2]byte
		if _, err := io.ReadFull(c.conn, l[:]); err != nil {
			return nil, err
		}
		b := make([]byte, binary.BigEndian.Uint16(l[:]))
		_, err := io.ReadFull(c.conn, b)
		return b, err
	}
	b := make([]byte, 2048)
	n, err := c.conn.Read(b)
	return b[:n], err
}

func nbRequest(id, flags uint16, qname string, qtype, qclass uint16, rrname string, ttl uint32, ip net.IP) []byte {
	p := &nbtns.NBTNSPacket{Header: nbtns.NBTNSHeader{TransactionID: id, Flags: flags}}
	if qname != "" {
		p.Header.Questions = 1
		p.Questions = []nbtns.NBTNSQuestion{{Name: &nbtns.NetBIOSName{Name: qname}, Type: qtype, Class: qclass}}
	}
	if rrname != "" {
		p.Header.Answers = 1
		p.Answers = []nbtns.NBTNSResourceRecord{{Name: &nbtns.NetBIOSName{Name: rrname}, Type: 0x20, Class: 1, TTL: ttl, RDLength: uint16(len(ip)), RData: ip}}
	}
	b, err := p.Marshal()
	if err != nil {
		panic("harness: cannot marshal NBNS request: " + err.Error())
	}
	return b
}

type nbAnswer struct {
	name       string
	typ, class uint16
	rdata      []byte
}
type nbResponse struct {
	id, flags, qd, an uint16
	answers           []nbAnswer
}

// minimal, independent reader of an NBNS response: header, then the answer records
func parseNBResponse(b []byte) (nbResponse, error) {
	var r nbResponse
	if len(b) < 12 {
		return r, fmt.Errorf("short response (%d bytes)", len(b))
	}
	r.id, r.flags = binary.BigEndian.Uint16(b[0:]), binary.BigEndian.Uint16(b[2:])
	r.qd, r.an = binary.BigEndian.Uint16(b[4:]), binary.BigEndian.Uint16(b[6:])
	off := 12
	for i := 0; i < int(r.an); i++ {
		if off >= len(b) {
			return r, fmt.Errorf("answer %d: truncated", i)
		}
		l := int(b[off])
		off++
		if l != 32 || off+l+1+10 > len(b) {
			return r, fmt.Errorf("answer %d: bad name length %d", i, l)
		}
		raw := make([]byte, 16)
		for k := 0; k < 16; k++ {
			hi, lo := b[off+2*k]-'A', b[off+2*k+1]-'A'
			if hi > 15 || lo > 15 {
				return r, fmt.Errorf("answer %d: bad name encoding", i)
			}
			raw[k] = hi<<4 | lo
		}
		off += l
		// RFC 1002 wire form: the scope labels follow, closed by the root label
		for {
			if off >= len(b) {
				return r, fmt.Errorf("answer %d: unterminated name", i)
			}
			ll := int(b[off])
			off++
			if ll == 0 {
				break
			}
			if ll > 63 || off+ll > len(b) {
				return r, fmt.Errorf("answer %d: bad scope label", i)
			}
			off += ll
		}
		if off+10 > len(b) {
			return r, fmt.Errorf("answer %d: truncated", i)
		}
		a := nbAnswer{name: strings.TrimRight(string(raw), " "), typ: binary.BigEndian.Uint16(b[off:]), class: binary.BigEndian.Uint16(b[off+2:])}
		rdl := int(binary.BigEndian.Uint16(b[off+8:]))
		off += 10
		if off+rdl > len(b) {
			return r, fmt.Errorf("answer %d: truncated rdata", i)
		}
		a.rdata = append([]byte(nil), b[off:off+rdl]...)
		off += rdl
		r.answers = append(r.answers, a)
	}
	if off != len(b) {
		return r, fmt.Errorf("%d trailing bytes", len(b)-off)
	}
	return r, nil
}

// ---- c18.dispatch --------------------------------------------------------------------------------

func c18NameIndex(n string) int {
	if strings.HasPrefix(n, "NAME") {
		if i, err := strconv.Atoi(n[4:]); err == nil {
			return i
		}
	}
	return -1
}

func c18DispatchImpl(a []string) string {
	site, _ := strconv.Atoi(a[0])
	flags, _ := strconv.Atoi(a[1])
	id, _ := strconv.Atoi(a[3])
	srv, err := startNB(c18Kinds[site])
	if err != nil {
		panic("harness: cannot start NBNS server: " + err.Error())
	}
	defer srv.stop()
	conn, err := dialNB(srv)
	if err != nil {
		panic("harness: cannot reach NBNS server: " + err.Error())
	}
	defer conn.conn.Close()
	exchange := func(req []byte) (nbResponse, bool) {
		if err := conn.send(req); err != nil {
			return nbResponse{}, false
		}
		b, err := conn.recv(10 * time.Second)
		if err != nil {
			return nbResponse{}, false
		}
		r, err := parseNBResponse(b)
		if err != nil {
			return r, false
		}
		return r, true
	}
	// table before the request
	for _, o := range c17ParseOps(a[2]) {
		if o.kind != 'R' {
			panic("harness: c18.dispatch setup may only register")
		}
		if srv.tbl != nil {
			t := nbtns.Unique
			if o.typ == 'g' {
				t = nbtns.Group
			}
			if err := srv.tbl.RegisterName(c17Name(o.name), t, c17Addr(o.addr, 0), time.Hour); err != nil {
				panic("harness: setup registration failed")
			}
		} else {
			f := uint16(0x2800)
			if o.typ == 'g' {
				f |= 0x0080
			}
			r, ok := exchange(nbRequest(1, f, "", 0, 0, c17Name(o.name), 3600, c17Addr(o.addr, 0)))
			if !ok || r.flags&0x000F != 0 {
				return "setup-failed" // registration over the wire does not work on this server
			}
		}
	}
	// the request
	qname, rrname := "", ""
	var qtype, qclass uint16
	var ttl uint32
	var ip net.IP
	if a[4] != "-" {
		f := strings.Split(a[4], ".")
		n, _ := strconv.Atoi(f[0])
		t, _ := strconv.Atoi(f[1])
		c, _ := strconv.Atoi(f[2])
		qname, qtype, qclass = c17Name(n), uint16(t), uint16(c)
	}
	if a[5] != "-" {
		f := strings.Split(a[5], ".")
		n, _ := strconv.Atoi(f[0])
		t, _ := strconv.Atoi(f[1])
		ad, _ := strconv.Atoi(f[2])
		rrname, ttl, ip = c17Name(n), uint32(t), c17Addr(ad, 0)
	}
	r, ok := exchange(nbRequest(uint16(id), uint16(flags), qname, qtype, qclass, rrname, ttl, ip))
	if !ok {
		return "no-response"
	}
	var ans []string
	for _, x := range r.answers {
		ans = append(ans, fmt.Sprintf("%d:%d:%d:%d", c18NameIndex(x.name), x.typ, x.class, c17AddrIndex(net.IP(x.rdata))))
	}
	as := "-"
	if len(ans) > 0 {
		as = strings.Join(ans, ";")
	}
	// the table afterwards
	after := make([]string, 2)
	for n := 0; n < 2; n++ {
		if srv.tbl != nil {
			after[n] = c17Call(srv.tbl, c17Op{kind: 'Q', name: n}, 0, false).tok
		} else {
			q, ok := exchange(nbRequest(2, 0, c17Name(n), 0x20, 1, "", 0, nil))
			switch {
			case !ok:
				after[n] = "?"
			case q.flags&0x000F != 0:
				after[n] = "e"
			default:
				t := "u"
				if q.flags&0x0080 != 0 {
					t = "g"
				}
				var l []string
				for _, x := range q.answers {
					l = append(l, strconv.Itoa(c17AddrIndex(net.IP(x.rdata))))
				}
				after[n] = "o" + t + ":" + strings.Join(l, ".")
			}
		}
	}
	return fmt.Sprintf("ok %d %04x %d %s %s", r.id, r.flags, r.qd, as, strings.Join(after, ","))
}

func genC18(r *Rng, tier string) []Case {
	var cs []Case
	setups := []string{"R0.u.0.0,R1.g.2.0", "R0.u.0.0", "R0.g.0.0,R0.g.1.0,R1.u.2.0"}
	variants := 20
	if tier == "thorough" {
		variants = 120
	}
	rr := r.Fork("c18.dispatch")
	for site := 0; site < 3; site++ {
		for op := 0; op < 16; op++ {
			for v := 0; v < variants; v++ {
				var other uint16
				switch v {
				case 0:
					other = 0
				case 1:
					other = 0x8000 // R
				case 2:
					other = 0x0080 // group
				case 3:
					other = 0x0010 // broadcast
				case 4:
					other = 0x87FF // everything but the opcode
				default:
					other = uint16(rr.U64()) &^ 0x7800
				}
				flags := uint16(op)<<11 | other
				setup := setups[(v+op)%len(setups)]
				if v < 2 { // both discriminating tables for the plain words
					setup = setups[v]
				}
				q, rec := "0.32.1", "1.3600.2"
				switch rr.Intn(8) {
				case 0:
					q = "-"
				case 1:
					rec = "-"
				case 2:
					q = "1.33.1"
				case 3:
					rec = "1.3600.0"
				}
				args := []string{strconv.Itoa(site), strconv.Itoa(int(flags)), setup, strconv.Itoa(rr.Intn(65536)), q, rec}
				cs = append(cs, Case{Op: "c18.dispatch", MArgs: args, SArgs: args, Tag: fmt.Sprintf("dispatch.%s.opcode%d", c18Kinds[site], op)})
			}
		}
	}
	return cs
}

// ---- socket scenarios (child process, race detector) ------------------------------------------------

type c18Scenario struct {
	Name  string `json:"name"` // isolation | stop | routing
	Kind  string `json:"kind"` // server | udp | tcp | llmnr | llmnr-client
	Seed  uint64 `json:"seed"`
	Scale int    `json:"scale"` // 0 quick, 1 thorough
	// BudgetMs: the scenario winds down (no new requests / stop points) after this long; 0 = none
	BudgetMs int `json:"budget_ms"`
}

func (sc c18Scenario) deadline() time.Time {
	if sc.BudgetMs <= 0 {
		return time.Now().Add(24 * time.Hour)
	}
	return time.Now().Add(time.Duration(sc.BudgetMs) * time.Millisecond)
}

type c18Report struct {
	Violations []string       `json:"violations"`
	Stats      map[string]int `json:"stats"`
	Notes      []string       `json:"notes,omitempty"`
	Done       bool           `json:"done"`
}

func (r *c18Report) violate(format string, a ...any) {
	if len(r.Violations) < 20 {
		r.Violations = append(r.Violations, fmt.Sprintf(format, a...))
	}
}

func c18ChildMain() {
	c18Silence()
	// the library logs with fmt.Printf: keep the report channel clean
	report := os.Stdout
	if devnull, err := os.OpenFile(os.DevNull, os.O_WRONLY, 0); err == nil {
		os.Stdout = devnull
	}
	var sc c18Scenario
	if err := json.NewDecoder(os.Stdin).Decode(&sc); err != nil {
		fmt.Fprintln(os.Stderr, "c18 child: bad input:", err)
		os.Exit(2)
	}
	rep := &c18Report{Stats: map[string]int{}}
	rng := NewRng(sc.Seed)
	switch sc.Name {
	case "isolation":
		if sc.Kind == "llmnr" {
			c18IsolationLLMNR(sc, rng, rep)
		} else {
			c18IsolationNB(sc, rng, rep)
		}
	case "routing":
		c18ClientRouting(sc, rng, rep)
	case "stop":
		c18StopScenario(sc, rng, rep)
	default:
		fmt.Fprintln(os.Stderr, "c18 child: unknown scenario", sc.Name)
		os.Exit(2)
	}
	rep.Done = true
	json.NewEncoder(report).Encode(rep)
}

type repMu struct {
	mu  sync.Mutex
	rep *c18Report
}

func (m *repMu) violate(format string, a ...any) {
	m.mu.Lock()
	defer m.mu.Unlock()
	m.rep.violate(format, a...)
}
func (m *repMu) failed() bool {
	m.mu.Lock()
	defer m.mu.Unlock()
	return len(m.rep.Violations) >= 5
}
func (m *repMu) add(k string, n int) {
	m.mu.Lock()
	defer m.mu.Unlock()
	m.rep.Stats[k] += n
}

func c18Sizes(scale int) (clients, perClient int) {
	if scale > 0 {
		return 32, 2000
	}
	return 4, 50
}

func c18ClientName(c, j int) string { return fmt.Sprintf("C%dN%d", c, j) }
func c18ClientIP(c, j int) net.IP   { return net.IP{10, byte(c + 1), byte(j >> 8), byte(j)} }

// N concurrent clients query their own names with their own ids; every response a client receives must
// carry the id of one of that client's outstanding requests and the answer for exactly that request.
func c18IsolationNB(sc c18Scenario, rng *Rng, rep *c18Report) {
	clients, per := c18Sizes(sc.Scale)
	const namesPer = 16
	srv, err := startNB(sc.Kind)
	if err != nil {
		rep.Notes = append(rep.Notes, "cannot start server: "+err.Error())
		return
	}
	defer srv.stop()
	// registrations (over the wire for the standalone server, whose table is private)
	setup, err := dialNB(srv)
	if err != nil {
		rep.Notes = append(rep.Notes, "cannot reach server: "+err.Error())
		return
	}
	for c := 0; c < clients; c++ {
		for j := 0; j < namesPer; j++ {
			if srv.tbl != nil {
				srv.tbl.RegisterName(c18ClientName(c, j), nbtns.Unique, c18ClientIP(c, j), time.Hour)
				continue
			}
			ok := false
			for try := 0; try < 5 && !ok; try++ { // re-registering the same owner of a unique name conflicts: ask first
				setup.send(nbRequest(uint16(try), 0x2800, "", 0, 0, c18ClientName(c, j), 3600, c18ClientIP(c, j)))
				if b, err := setup.recv(3 * time.Second); err == nil {
					if r, err := parseNBResponse(b); err == nil && (r.flags&0xF == 0 || r.flags&0xF == 7) {
						ok = true
					}
				}
			}
			if !ok {
				rep.Notes = append(rep.Notes, "registration over the wire got no usable answer; scenario skipped")
				setup.conn.Close()
				return
			}
		}
	}
	setup.conn.Close()
	m := &repMu{rep: rep}
	deadline := sc.deadline()
	var wg sync.WaitGroup
	for c := 0; c < clients; c++ {
		wg.Add(1)
		go func(c int, seed uint64) {
			defer wg.Done()
			r := NewRng(seed)
			conn, err := dialNB(srv)
			if err != nil {
				m.add("dial_failed", 1)
				return
			}
			defer conn.conn.Close()
			// per request: which name was asked, and what became of it
			const (
				outstanding = iota
				givenUp     // nothing came within the wait; a late answer is still this client's
				answered
			)
			type reqState struct{ name, state int }
			reqs := map[uint16]*reqState{}
			nOut := 0
			var order []uint16 // TCP answers in order
			next := 0
			for ((next < per && time.Now().Before(deadline)) || nOut > 0) && !m.failed() {
				// keep a window of outstanding requests
				w := 1 + r.Intn(8)
				for next < per && nOut < w && time.Now().Before(deadline) {
					id := uint16(c*per + next)
					j := r.Intn(namesPer)
					if err := conn.send(nbRequest(id, 0x0100, c18ClientName(c, j), 0x20, 1, "", 0, nil)); err != nil {
						m.add("send_failed", 1)
						return
					}
					reqs[id] = &reqState{name: j}
					nOut++
					order = append(order, id)
					next++
					m.add("requests", 1)
				}
				if nOut == 0 {
					break
				}
				b, err := conn.recv(3 * time.Second)
				if err != nil {
					// nothing arrived: datagrams may be dropped under load — counted, never a verdict
					m.add("lost", nOut)
					if conn.tcp {
						return
					}
					for _, st := range reqs {
						if st.state == outstanding {
							st.state = givenUp
						}
					}
					nOut = 0
					order = nil
					continue
				}
				resp, perr := parseNBResponse(b)
				if perr != nil {
					m.violate("%s client %d: response that is no NBNS message (%v): %x", sc.Kind, c, perr, b)
					continue
				}
				st, mine := reqs[resp.id]
				if !mine {
					m.violate("%s client %d received a response with transaction id %d, but it only ever sent ids %d..%d", sc.Kind, c, resp.id, c*per, c*per+next-1)
					continue
				}
				if st.state == answered {
					m.violate("%s client %d: request %d was answered twice", sc.Kind, c, resp.id)
					continue
				}
				if conn.tcp && (len(order) == 0 || order[0] != resp.id) {
					m.violate("tcp client %d: response id %d out of order (expected %v)", c, resp.id, order)
				}
				for i, id := range order {
					if id == resp.id {
						order = append(order[:i], order[i+1:]...)
						break
					}
				}
				if st.state == outstanding {
					nOut--
				} else {
					m.add("late", 1)
				}
				st.state = answered
				m.add("responses", 1)
				want := c18ClientIP(c, st.name)
				if resp.flags&0xF != 0 || len(resp.answers) != 1 || resp.answers[0].name != c18ClientName(c, st.name) || !net.IP(resp.answers[0].rdata).Equal(want) {
					m.violate("%s client %d: response %d does not answer its request for %s=%v: flags %04x answers %v", sc.Kind, c, resp.id, c18ClientName(c, st.name), want, resp.flags, resp.answers)
				}
			}
		}(c, rng.U64())
	}
	wg.Wait()
}

// ---- LLMNR ----------------------------------------------------------------------------------------

func c18LLMNRName(c, j int) string { return fmt.Sprintf("c%dn%d.local", c, j) }

// answer A questions with an address computed from the name
func c18LLMNRHandler(server *llmnr.Server, remote net.Addr, w llmnr.ResponseWriter, msg *llmnr.Message) bool {
	resp := llmnr.CreateResponseFromMessage(msg)
	for _, q := range msg.Questions {
		var c, j int
		if _, err := fmt.Sscanf(q.Name, "c%dn%d.local", &c, &j); err == nil {
			resp.AddAnswerClassINTypeA(q.Name, c18ClientIP(c, j).String())
		}
	}
	w.WriteMessage(resp)
	return false // handled: the chain stops here (Server.processHandlers runs the handlers up to the first `false`)
}

// a catch-all responder registered BEHIND the answering handler: it must never run
func c18LLMNRCatchAll(server *llmnr.Server, remote net.Addr, w llmnr.ResponseWriter, msg *llmnr.Message) bool {
	resp := llmnr.CreateResponseFromMessage(msg)
	for _, q := range msg.Questions {
		resp.AddAnswerClassINTypeA(q.Name, "10.9.9.9")
	}
	w.WriteMessage(resp)
	return false
}

// describe: the library's own packet-describing handler (it logs under the logger's lock) runs ahead of the answering
// handler and the server is in debug mode, as in the library's examples
// the chain goes on to the answering handler whatever the describing handler returns
func c18Describe(server *llmnr.Server, remote net.Addr, w llmnr.ResponseWriter, msg *llmnr.Message) bool {
	llmnr.HandlerDescribePacket(server, remote, w, msg)
	return true
}

func startLLMNR(describe bool) (*llmnr.Server, *net.UDPAddr, chan error, error) {
	handlers := []llmnr.Handler{llmnr.HandlerFunc(c18LLMNRHandler), llmnr.HandlerFunc(c18LLMNRCatchAll)}
	if describe {
		handlers = append([]llmnr.Handler{llmnr.HandlerFunc(c18Describe)}, handlers...)
	}
	s, err := llmnr.NewServer("udp4", handlers)
	if err != nil {
		return nil, nil, nil, err
	}
	if describe {
		s.SetDebug(true)
	}
	conn, err := net.ListenUDP("udp4", &net.UDPAddr{IP: net.IPv4(127, 0, 0, 1)})
	if err != nil {
		return nil, nil, nil, err
	}
	s.Conn = conn
	done := make(chan error, 1)
	go func() { done <- s.Serve() }()
	return s, conn.LocalAddr().(*net.UDPAddr), done, nil
}

func c18IsolationLLMNR(sc c18Scenario, rng *Rng, rep *c18Report) {
	clients, per := c18Sizes(sc.Scale)
	const namesPer = 16
	s, addr, done, err := startLLMNR(sc.Seed%2 == 0)
	if err != nil {
		rep.Notes = append(rep.Notes, "cannot start LLMNR server: "+err.Error())
		return
	}
	defer func() {
		s.Close()
		select {
		case <-done:
		case <-time.After(60 * time.Second):
			rep.violate("llmnr Server.Serve did not return within 60s of Close")
		}
	}()
	m := &repMu{rep: rep}
	deadline := sc.deadline()
	var wg sync.WaitGroup
	for c := 0; c < clients; c++ {
		wg.Add(1)
		go func(c int, seed uint64) {
			defer wg.Done()
			r := NewRng(seed)
			conn, err := net.DialUDP("udp4", nil, addr)
			if err != nil {
				m.add("dial_failed", 1)
				return
			}
			defer conn.Close()
			const (
				outstanding = iota
				givenUp
				answered
			)
			type reqState struct{ name, state int }
			reqs := map[uint16]*reqState{}
			nOut := 0
			next := 0
			buf := make([]byte, 2048)
			for ((next < per && time.Now().Before(deadline)) || nOut > 0) && !m.failed() {
				w := 1 + r.Intn(8)
				for next < per && nOut < w && time.Now().Before(deadline) {
					msg := llmnr.NewMessage()
					msg.ID = uint16(c*per + next)
					msg.SetQuery()
					j := r.Intn(namesPer)
					msg.AddQuestion(c18LLMNRName(c, j), llmnr.TypeA, llmnr.ClassIN)
					enc, err := msg.Encode()
					if err != nil {
						panic("harness: cannot encode LLMNR query: " + err.Error())
					}
					if _, err := conn.Write(enc); err != nil {
						m.add("send_failed", 1)
						return
					}
					reqs[msg.ID] = &reqState{name: j}
					nOut++
					next++
					m.add("requests", 1)
				}
				if nOut == 0 {
					break
				}
				conn.SetReadDeadline(time.Now().Add(3 * time.Second))
				n, err := conn.Read(buf)
				if err != nil {
					m.add("lost", nOut)
					for _, st := range reqs {
						if st.state == outstanding {
							st.state = givenUp
						}
					}
					nOut = 0
					continue
				}
				resp, derr := llmnr.DecodeMessage(buf[:n])
				if derr != nil {
					m.violate("llmnr client %d: undecodable response (%v): %x", c, derr, buf[:n])
					continue
				}
				st, mine := reqs[resp.ID]
				if !mine {
					m.violate("llmnr client %d received a response with id %d, but it only ever sent ids %d..%d", c, resp.ID, c*per, c*per+next-1)
					continue
				}
				if st.state == answered {
					m.violate("llmnr client %d: query %d was answered twice", c, resp.ID)
					continue
				}
				if st.state == outstanding {
					nOut--
				} else {
					m.add("late", 1)
				}
				st.state = answered
				m.add("responses", 1)
				want := c18ClientIP(c, st.name).To4()
				if !resp.IsResponse() || len(resp.Answers) != 1 || resp.Answers[0].Name != c18LLMNRName(c, st.name) || !net.IP(resp.Answers[0].RData).Equal(want) {
					m.violate("llmnr client %d: response %d does not answer its query for %s: %+v", c, resp.ID, c18LLMNRName(c, st.name), resp.Answers)
				}
			}
		}(c, rng.U64())
	}
	wg.Wait()
}

// LLMNR client: responses are handed to the query whose id they carry
func c18ClientRouting(sc c18Scenario, rng *Rng, rep *c18Report) {
	rounds, waiters := 20, 16
	if sc.Scale > 0 {
		rounds, waiters = 200, 64
	}
	cl, err := llmnr.NewClient()
	if err != nil {
		rep.Notes = append(rep.Notes, "cannot create LLMNR client: "+err.Error())
		return
	}
	defer cl.Close()
	port := cl.Conn.LocalAddr().(*net.UDPAddr).Port
	responder, err := net.DialUDP("udp4", nil, &net.UDPAddr{IP: net.IPv4(127, 0, 0, 1), Port: port})
	if err != nil {
		rep.Notes = append(rep.Notes, "cannot reach LLMNR client socket: "+err.Error())
		return
	}
	defer responder.Close()
	mk := func(id uint16, response bool, name string) []byte {
		msg := llmnr.NewMessage()
		msg.ID = id
		if response {
			msg.SetResponse()
		}
		msg.AddAnswerClassINTypeA(name, "10.9.8.7")
		b, err := msg.Encode()
		if err != nil {
			panic("harness: cannot encode LLMNR response: " + err.Error())
		}
		return b
	}
	deadline := sc.deadline()
	for round := 0; round < rounds && time.Now().Before(deadline); round++ {
		// (a) the way Query registers: Store(id, chan) … Delete(id)
		ids := map[uint16]chan *llmnr.Message{}
		for len(ids) < waiters {
			id := uint16(rng.U64())
			if _, dup := ids[id]; !dup {
				ch := make(chan *llmnr.Message, 1)
				ids[id] = ch
				cl.Queries.Store(id, ch)
			}
		}
		var sends [][]byte
		for id := range ids {
			sends = append(sends, mk(id, true, fmt.Sprintf("id-%d.local", id)))
			if rng.Intn(4) == 0 {
				sends = append(sends, mk(id, false, "query-not-response.local")) // QR=0 with a waiting id: must be ignored
			}
			if rng.Intn(3) == 0 { // several responders answer the same query: the waiter takes one, the rest must not hold anything up
				for k := 1 + rng.Intn(3); k > 0; k-- {
					sends = append(sends, mk(id, true, fmt.Sprintf("id-%d.local", id)))
				}
			}
			if rng.Intn(4) == 0 {
				unknown := id + 1
				if _, used := ids[unknown]; !used {
					sends = append(sends, mk(unknown, true, "nobody-waits.local"))
				}
			}
		}
		for i := len(sends) - 1; i > 0; i-- {
			k := rng.Intn(i + 1)
			sends[i], sends[k] = sends[k], sends[i]
		}
		for _, b := range sends {
			responder.Write(b)
		}
		lostBefore := rep.Stats["lost"]
		for id, ch := range ids {
			select {
			case msg := <-ch:
				rep.Stats["delivered"]++
				if msg.ID != id || !msg.IsResponse() || len(msg.Answers) != 1 || msg.Answers[0].Name != fmt.Sprintf("id-%d.local", id) {
					rep.violate("llmnr client: the query with id %d was handed a message with id %d, QR=%v, answers %+v", id, msg.ID, msg.IsResponse(), msg.Answers)
				}
			case <-time.After(3 * time.Second):
				rep.Stats["lost"]++
			}
		}
		// the ids stay registered until the round is over (Query's deferred Delete may run arbitrarily late): a
		// further response to an id that has already been served must be dropped, not waited on
		for id := range ids {
			cl.Queries.Delete(id)
		}
		if rep.Stats["lost"] > lostBefore {
			// a lost datagram is possible on UDP; a read loop that no longer delivers anything is not
			alive := false
			for attempt := 0; attempt < 5 && !alive; attempt++ {
				id := uint16(rng.U64())
				if _, used := ids[id]; used {
					continue
				}
				ch := make(chan *llmnr.Message, 1)
				cl.Queries.Store(id, ch)
				responder.Write(mk(id, true, fmt.Sprintf("id-%d.local", id)))
				select {
				case <-ch:
					alive = true
				case <-time.After(2 * time.Second):
				}
				cl.Queries.Delete(id)
			}
			if !alive {
				rep.violate("llmnr client: after a round in which some ids were answered more than once, %d waiting queries got nothing and five further single responses to fresh ids were not delivered either: the read loop no longer hands out responses", rep.Stats["lost"]-lostBefore)
				return
			}
		}
	}
	// (b) through Client.Query itself (it sends to the LLMNR multicast group; that may be impossible here)
	var wg sync.WaitGroup
	var asked atomic.Int64
	stop := make(chan struct{})
	go func() { // answer whatever ids appear in the query table
		seen := map[uint16]bool{}
		for {
			select {
			case <-stop:
				return
			default:
			}
			cl.Queries.Range(func(k, v any) bool {
				id := k.(uint16)
				if !seen[id] {
					seen[id] = true
					responder.Write(mk(id, true, fmt.Sprintf("id-%d.local", id)))
				}
				return true
			})
			time.Sleep(time.Millisecond)
		}
	}()
	m := &repMu{rep: rep}
	for g := 0; g < 8; g++ {
		wg.Add(1)
		go func(g int) {
			defer wg.Done()
			for i := 0; i < 5; i++ {
				ctx, cancel := context.WithTimeout(context.Background(), 3*time.Second)
				resp, err := cl.Query(ctx, fmt.Sprintf("g%dq%d.local", g, i), llmnr.TypeA)
				cancel()
				asked.Add(1)
				if err != nil {
					m.add("query_errors", 1) // no multicast route, timeout, id collision: not a verdict
					continue
				}
				m.add("query_answers", 1)
				if !resp.IsResponse() || len(resp.Answers) != 1 || resp.Answers[0].Name != fmt.Sprintf("id-%d.local", resp.ID) {
					m.violate("llmnr Client.Query returned a message whose answer %+v does not belong to its id %d", resp.Answers, resp.ID)
				}
			}
		}(g)
	}
	wg.Wait()
	close(stop)
	// (c) one query after the other on the same client, each id answered by several responders at once: what is left
	// over from one query (responses that arrive after the first) must not be what the next query returns
	stop2 := make(chan struct{})
	go func() {
		seen := map[uint16]bool{}
		for {
			select {
			case <-stop2:
				return
			default:
			}
			cl.Queries.Range(func(k, v any) bool {
				id := k.(uint16)
				if !seen[id] {
					seen[id] = true
					b := mk(id, true, fmt.Sprintf("id-%d.local", id))
					for k := 0; k < 3; k++ {
						responder.Write(b)
					}
				}
				return true
			})
			time.Sleep(200 * time.Microsecond)
		}
	}()
	prev, havePrev, repeats := uint16(0), false, 0
	for i := 0; i < 40 && time.Now().Before(deadline); i++ {
		ctx, cancel := context.WithTimeout(context.Background(), 2*time.Second)
		resp, err := cl.Query(ctx, fmt.Sprintf("seq%d.local", i), llmnr.TypeA)
		cancel()
		if err != nil {
			rep.Stats["query_errors"]++
			havePrev = false
			continue
		}
		rep.Stats["sequential_query_answers"]++
		if havePrev && resp.ID == prev {
			// two random 16-bit ids in a row can be equal by chance (1 in 65536); twice in 40 queries they are not
			if repeats++; repeats >= 2 {
				rep.violate("llmnr Client.Query: consecutive queries on one client (each answered three times) returned a response with the id of the query before (%d; %d times in %d queries): a query was handed what was left over from the one before", prev, repeats, i+1)
				break
			}
		}
		prev, havePrev = resp.ID, true
		time.Sleep(2 * time.Millisecond) // the remaining copies of this answer arrive before the next query starts
	}
	close(stop2)
}

// ---- Stop / Close at random moments ------------------------------------------------------------------

var c18RepoFrame = regexp.MustCompile(`Manticore/network/[^\s(]+`)

func goroutinesSettle(base int, wait time.Duration) (int, string) {
	deadline := time.Now().Add(wait)
	for {
		n := runtime.NumGoroutine()
		if n <= base || time.Now().After(deadline) {
			if n <= base {
				return n, ""
			}
			buf := make([]byte, 1<<20)
			buf = buf[:runtime.Stack(buf, true)]
			fr := map[string]bool{}
			for _, f := range c18RepoFrame.FindAllString(string(buf), -1) {
				fr[f] = true
			}
			var l []string
			for f := range fr {
				l = append(l, f)
			}
			sort.Strings(l)
			return n, strings.Join(l, ", ")
		}
		time.Sleep(20 * time.Millisecond)
	}
}

func c18StopScenario(sc c18Scenario, rng *Rng, rep *c18Report) {
	points := 10
	if sc.Scale > 0 {
		points = 200
	}
	if sc.Kind != "llmnr-client" { // five kinds share the stop points of a tier
		points = (points + 4) / 5 * 2
	}
	deadline := sc.deadline()
	if sc.Kind == "llmnr" {
		c18CloseBeforeServe(rep)
		c18CloseDuringListenAndServe(rng, rep)
	}
	for p := 0; p < points && time.Now().Before(deadline); p++ {
		base := runtime.NumGoroutine()
		delay := time.Duration(rng.Intn(15000)) * time.Microsecond
		var stopFn func() // Stop / Close
		var serveDone chan error
		var traffic func(quit chan struct{}, wg *sync.WaitGroup)
		switch sc.Kind {
		case "server", "udp", "tcp":
			srv, err := startNB(sc.Kind)
			if err != nil {
				rep.Notes = append(rep.Notes, "cannot start server: "+err.Error())
				return
			}
			if srv.tbl != nil {
				srv.tbl.RegisterName("HOST", nbtns.Unique, net.IP{10, 0, 0, 1}, time.Hour)
			}
			stopFn = srv.stop
			traffic = func(quit chan struct{}, wg *sync.WaitGroup) {
				for g := 0; g < 3; g++ {
					wg.Add(1)
					go func(g int) {
						defer wg.Done()
						conn, err := dialNB(srv)
						if err != nil {
							return
						}
						defer conn.conn.Close()
						for i := 0; ; i++ {
							select {
							case <-quit:
								return
							default:
							}
							if conn.send(nbRequest(uint16(i), 0, "HOST", 0x20, 1, "", 0, nil)) != nil {
								return
							}
							if i%4 == 3 {
								conn.recv(20 * time.Millisecond)
							}
						}
					}(g)
				}
				if sc.Kind == "tcp" { // connections that are open and quiet between two requests when Stop comes
					for g := 0; g < 3; g++ {
						wg.Add(1)
						go func() {
							defer wg.Done()
							conn, err := dialNB(srv)
							if err != nil {
								return
							}
							defer conn.conn.Close()
							if conn.send(nbRequest(uint16(0x7000), 0, "HOST", 0x20, 1, "", 0, nil)) == nil {
								conn.recv(time.Second)
							}
							<-quit
						}()
					}
				}
			}
		case "llmnr":
			s, addr, done, err := startLLMNR(true)
			if err != nil {
				rep.Notes = append(rep.Notes, "cannot start LLMNR server: "+err.Error())
				return
			}
			stopFn = func() { s.Close() }
			serveDone = done
			traffic = func(quit chan struct{}, wg *sync.WaitGroup) {
				for g := 0; g < 3; g++ {
					wg.Add(1)
					go func(g int) {
						defer wg.Done()
						conn, err := net.DialUDP("udp4", nil, addr)
						if err != nil {
							return
						}
						defer conn.Close()
						msg := llmnr.NewMessage()
						msg.SetQuery()
						msg.AddQuestion(c18LLMNRName(g, 1), llmnr.TypeA, llmnr.ClassIN)
						enc, _ := msg.Encode()
						for {
							select {
							case <-quit:
								return
							default:
							}
							if _, err := conn.Write(enc); err != nil {
								return
							}
							time.Sleep(50 * time.Microsecond)
						}
					}(g)
				}
			}
		case "llmnr-client":
			cl, err := llmnr.NewClient()
			if err != nil {
				rep.Notes = append(rep.Notes, "cannot create LLMNR client: "+err.Error())
				return
			}
			port := cl.Conn.LocalAddr().(*net.UDPAddr).Port
			stopFn = func() { cl.Close() }
			traffic = func(quit chan struct{}, wg *sync.WaitGroup) {
				wg.Add(1)
				go func() {
					defer wg.Done()
					conn, err := net.DialUDP("udp4", nil, &net.UDPAddr{IP: net.IPv4(127, 0, 0, 1), Port: port})
					if err != nil {
						return
					}
					defer conn.Close()
					msg := llmnr.NewMessage()
					msg.SetResponse()
					msg.AddAnswerClassINTypeA("x.local", "10.1.1.1")
					for i := 0; ; i++ {
						select {
						case <-quit:
							return
						default:
						}
						msg.ID = uint16(i)
						if i%8 == 7 {
							msg.ID = 0xFFFF // a query that is answered again and again and never collects
						}
						enc, _ := msg.Encode()
						if _, err := conn.Write(enc); err != nil {
							return
						}
						time.Sleep(50 * time.Microsecond)
					}
				}()
				cl.Queries.Store(uint16(0xFFFF), make(chan *llmnr.Message, 1))
				wg.Add(1)
				go func() { // queries come and go while responses arrive
					defer wg.Done()
					for i := 0; ; i++ {
						if uint16(i) == 0xFFFF {
							continue
						}
						select {
						case <-quit:
							return
						default:
						}
						ch := make(chan *llmnr.Message, 1)
						cl.Queries.Store(uint16(i), ch)
						time.Sleep(100 * time.Microsecond)
						cl.Queries.Delete(uint16(i))
					}
				}()
			}
		default:
			rep.Notes = append(rep.Notes, "unknown kind "+sc.Kind)
			return
		}
		quit := make(chan struct{})
		var wg sync.WaitGroup
		traffic(quit, &wg)
		time.Sleep(delay)
		call := func(label string) bool {
			res := make(chan any, 1)
			t0 := time.Now()
			go func() {
				defer func() { res <- recover() }()
				stopFn()
			}()
			select {
			case r := <-res:
				if r != nil {
					rep.violate("%s: %s panicked: %v", sc.Kind, label, r)
				}
				us := int(time.Since(t0) / time.Microsecond)
				if us > rep.Stats["max_stop_us"] {
					rep.Stats["max_stop_us"] = us
				}
				// "promptly": far below the servers' own idle read deadlines (30 s on TCP connections), which must not
				// be what ends a stop; unloaded this takes milliseconds
				if us > 10_000_000 {
					rep.violate("%s: %s took %.1fs to return (called %v after start, with open connections/traffic): not a prompt stop", sc.Kind, label, float64(us)/1e6, delay)
				}
				return true
			case <-time.After(60 * time.Second):
				rep.violate("%s: %s did not return within 60s (called %v after start, under traffic)", sc.Kind, label, delay)
				return false
			}
		}
		okStop := call("Stop/Close")
		if okStop && serveDone != nil {
			select {
			case <-serveDone:
			case <-time.After(60 * time.Second):
				rep.violate("llmnr Server.Serve did not return within 60s of Close")
			}
		}
		if okStop {
			call("second Stop/Close")
		}
		close(quit)
		wg.Wait()
		rep.Stats["stop_points"]++
		if n, frames := goroutinesSettle(base, 30*time.Second); n > base {
			rep.violate("%s: %d goroutines before start, %d still alive 30s after Stop returned and all clients closed: %s", sc.Kind, base, n, frames)
			return
		}
	}
}

// The earliest stop point: Close arrives before the server has a socket and before Serve is entered (a shutdown racing
// the start-up goroutine).  The stop signal must not be lost: Serve, once entered, returns promptly and answers nothing.
func c18CloseBeforeServe(rep *c18Report) {
	base := runtime.NumGoroutine()
	s, err := llmnr.NewServer("udp4", []llmnr.Handler{llmnr.HandlerFunc(c18LLMNRHandler), llmnr.HandlerFunc(c18LLMNRCatchAll)})
	if err != nil {
		rep.Notes = append(rep.Notes, "cannot create LLMNR server: "+err.Error())
		return
	}
	s.Close()
	conn, err := net.ListenUDP("udp4", &net.UDPAddr{IP: net.IPv4(127, 0, 0, 1)})
	if err != nil {
		rep.Notes = append(rep.Notes, "cannot listen: "+err.Error())
		return
	}
	defer conn.Close()
	s.Conn = conn
	done := make(chan error, 1)
	go func() { done <- s.Serve() }()
	answered := false
	if c, err := net.DialUDP("udp4", nil, conn.LocalAddr().(*net.UDPAddr)); err == nil {
		msg := llmnr.NewMessage()
		msg.SetQuery()
		msg.AddQuestion(c18LLMNRName(0, 1), llmnr.TypeA, llmnr.ClassIN)
		enc, _ := msg.Encode()
		c.Write(enc)
		c.SetReadDeadline(time.Now().Add(300 * time.Millisecond))
		buf := make([]byte, 1500)
		if n, err := c.Read(buf); err == nil && n > 0 {
			answered = true
		}
		c.Close()
	}
	rep.Stats["stop_points"]++
	select {
	case <-done:
	case <-time.After(5 * time.Second):
		rep.violate("llmnr: Close() called before Serve was entered: Serve did not return within 5s (the stop signal was lost)")
		s.Close()
		conn.Close()
		select {
		case <-done:
		case <-time.After(5 * time.Second):
			rep.violate("llmnr: after a Close() that came before Serve, a second Close() does not stop the server either")
		}
		return
	}
	if answered {
		rep.violate("llmnr: a server closed before Serve was entered answered a query")
	}
	if n, frames := goroutinesSettle(base, 10*time.Second); n > base {
		rep.violate("llmnr: close-before-serve left %d goroutines (was %d): %s", n, base, frames)
	}
}

// Close while ListenAndServe is still starting (binding the multicast socket, storing it, entering Serve): a shutdown that
// races the start-up goroutine, at every offset from "before the socket exists" to "already serving".  ListenAndServe must
// return promptly each time; the race detector of the child judges the accesses to the server's fields.
func c18CloseDuringListenAndServe(rng *Rng, rep *c18Report) {
	for i := 0; i < 24; i++ {
		base := runtime.NumGoroutine()
		s, err := llmnr.NewIPv4ServerWithHandlers([]llmnr.Handler{llmnr.HandlerFunc(c18LLMNRHandler)})
		if err != nil {
			rep.Notes = append(rep.Notes, "cannot create LLMNR server: "+err.Error())
			return
		}
		done := make(chan error, 1)
		go func() { done <- s.ListenAndServe() }()
		time.Sleep(time.Duration(rng.Intn(400)) * time.Microsecond)
		s.Close()
		select {
		case err := <-done:
			if err != nil && i == 0 {
				rep.Notes = append(rep.Notes, "ListenAndServe: "+err.Error()) // no multicast here: nothing to judge
				return
			}
		case <-time.After(5 * time.Second):
			rep.violate("llmnr: Close() called %d times during start-up: ListenAndServe did not return within 5s", i+1)
			if s.Conn != nil {
				s.Conn.Close()
			}
			return
		}
		rep.Stats["stop_points"]++
		if n, frames := goroutinesSettle(base, 10*time.Second); n > base {
			rep.violate("llmnr: Close during ListenAndServe left %d goroutines (was %d): %s", n, base, frames)
			return
		}
	}
}

// ---- parent side ----------------------------------------------------------------------------------

func c18RunScenario(sc c18Scenario) string {
	in, _ := json.Marshal(sc)
	res := runChild("c18", in, 30*time.Minute)
	var rep c18Report
	if err := json.Unmarshal(res.Stdout, &rep); err != nil || !rep.Done {
		if f := fatalLine(res.Stderr); f != "" {
			return "fatal " + f
		}
		return fmt.Sprintf("child-failed %v %s", res.Err, truncS(res.Stderr))
	}
	c18LastStats.Store(sc.Name+"."+sc.Kind, map[string]any{"stats": rep.Stats, "notes": rep.Notes, "race_detector": res.Race})
	if strings.Contains(res.RaceLog, "DATA RACE") {
		c18LastRace.Store(sc.Name+"."+sc.Kind, truncRace(res.RaceLog))
		return "race " + raceSite(res.RaceLog)
	}
	if len(rep.Violations) > 0 {
		return "violation " + rep.Violations[0]
	}
	return "ok"
}

var c18LastStats, c18LastRace sync.Map

// `c18.sock <scenario> <kind> <seed> <scale>`: used when a socket finding is replayed; the engine gives an op
// 20 s, so the scenario is told to wind down after 12 s
func c18SockImpl(a []string) string {
	seed, _ := strconv.ParseUint(a[2], 10, 64)
	scale, _ := strconv.Atoi(a[3])
	return c18RunScenario(c18Scenario{Name: a[0], Kind: a[1], Seed: seed, Scale: scale, BudgetMs: 12000})
}

func extraC18(ctx *Ctx) {
	scale, budget := 0, 30000
	if ctx.Tier == "thorough" {
		scale, budget = 1, 240000
	}
	_, race, note := raceHarness()
	r := ctx.Rng.Fork("c18.sock")
	var scs []c18Scenario
	add := func(name, kind string) {
		scs = append(scs, c18Scenario{Name: name, Kind: kind, Seed: r.U64(), Scale: scale, BudgetMs: budget})
	}
	for _, k := range []string{"server", "udp", "tcp", "llmnr"} {
		add("isolation", k)
	}
	add("routing", "llmnr-client")
	for _, k := range []string{"server", "udp", "tcp", "llmnr", "llmnr-client"} {
		add("stop", k)
	}
	// run the scenarios here rather than through the engine (whose per-op limit of 20 s is meant for pure ops);
	// two children at a time: the scenarios themselves are concurrent
	outs := make([]string, len(scs))
	sem := make(chan struct{}, 2)
	var wg sync.WaitGroup
	for i := range scs {
		wg.Add(1)
		sem <- struct{}{}
		go func(i int) {
			defer wg.Done()
			defer func() { <-sem }()
			outs[i] = c18RunScenario(scs[i])
		}(i)
	}
	wg.Wait()
	for i, sc := range scs {
		args := []string{sc.Name, sc.Kind, strconv.FormatUint(sc.Seed, 10), strconv.Itoa(sc.Scale)}
		c := Case{Op: "c18.sock", MArgs: args, SArgs: args, Tag: "sock." + sc.Name + "." + sc.Kind, NoM: true}
		ctx.Res.Evaluations++
		ctx.Res.ByTag[c.Tag]++
		cls := outs[i]
		if j := strings.Index(cls, " "); j > 0 {
			cls = cls[:j]
		}
		ctx.Res.ByOutcome["c18.sock:"+cls]++
		if outs[i] != "ok" {
			stack := ""
			if v, ok := c18LastRace.Load(sc.Name + "." + sc.Kind); ok {
				stack = v.(string)
			}
			ctx.AddMismatch(Mismatch{Kind: "spec", Case: c, Impl: outs[i], Spec: "ok", Stack: stack, Size: caseSize(c)})
		}
	}
	stats := map[string]any{}
	c18LastStats.Range(func(k, v any) bool { stats[k.(string)] = v; return true })
	ctx.SetExtra("sockets", map[string]any{"race_detector": race, "race_build": note, "scenarios": stats})
}
