package main

// C19 — flag words and named constants.
//
// The tables are NOT written here: the harness reads the JSON twins of the generated Lean tables
// (`.build/gen_C19*.json`, written by tools/extract in the same run) to know which families,
// predicates, tables and constants exist, calls the REAL library for each of them (predicates through
// reflection, so a predicate added to /repo is exercised without touching this file) and lets the
// engine compare with the Lean interpretation of the generated tables (M ops: the tie, which is also
// what validates the extractor) and with the Lean spec (S ops: the property).

import (
	"encoding/binary"
	"encoding/json"
	"flag"
	"fmt"
	"os"
	"path/filepath"
	"reflect"
	"sort"
	"strconv"
	"strings"

	"github.com/TheManticoreProject/Manticore/network/ldap/ldap_attributes"
	"github.com/TheManticoreProject/Manticore/network/netbios"
	"github.com/TheManticoreProject/Manticore/network/smb/smb_v10/capabilities"
	"github.com/TheManticoreProject/Manticore/network/smb/smb_v10/message/commands/codes"
	"github.com/TheManticoreProject/Manticore/network/smb/smb_v10/message/header/flags"
	"github.com/TheManticoreProject/Manticore/network/smb/smb_v10/message/header/flags2"
	"github.com/TheManticoreProject/Manticore/network/smb/smb_v10/securitymode"
	"github.com/TheManticoreProject/Manticore/network/smb/smb_v10/subcommands"
	"github.com/TheManticoreProject/Manticore/windows/keycredential/key"
	"github.com/TheManticoreProject/Manticore/windows/nt_status"
)

// ---- JSON twins of Gen/C19*.lean ---------------------------------------------------------------

type c19Const struct {
	Ident string `json:"ident"`
	Value uint64 `json:"value"`
	Pos   string `json:"pos"`
}
type c19Test struct {
	Mask uint64 `json:"mask"`
}
type c19Row struct {
	Test c19Test `json:"test"`
	Name string  `json:"name"`
}
type c19Pred struct {
	Func string  `json:"func"`
	Test c19Test `json:"test"`
}
type c19Family struct {
	ID        string     `json:"id"`
	Bits      int        `json:"bits"`
	Consts    []c19Const `json:"consts"`
	Rows      []c19Row   `json:"rows"`
	EmptyMode string     `json:"empty_mode"`
	EmptyLit  string     `json:"empty_lit"`
	Sep       string     `json:"sep"`
	Preds     []c19Pred  `json:"preds"`
	Decomp    string     `json:"decomp"`
	GetFlags  bool       `json:"get_flags"`
}
type c19CodeRow struct {
	Key   string `json:"key"`
	Value uint64 `json:"value"`
	Name  string `json:"name"`
}
type c19Table struct {
	ID     string       `json:"id"`
	Bits   int          `json:"bits"`
	Consts []c19Const   `json:"consts"`
	Rows   []c19CodeRow `json:"rows"`
}

type c19Gen struct {
	Families []c19Family
	Tables   []c19Table
	Nt       c19Table
	ErrKeys  []c19CodeRow
}

func c19GenDir() string {
	if d := os.Getenv("VERIF_GEN_DIR"); d != "" {
		return d
	}
	if f := flag.Lookup("out"); f != nil && f.Value.String() != "" {
		return filepath.Dir(f.Value.String())
	}
	return "../.build"
}

func c19ReadJSON(name string, v any) {
	p := filepath.Join(c19GenDir(), "gen_"+name+".json")
	b, err := os.ReadFile(p)
	if err != nil {
		panic(fmt.Sprintf("harness C19: cannot read %s (run through ./check so that the extractor writes it): %v", p, err))
	}
	if err := json.Unmarshal(b, v); err != nil {
		panic(fmt.Sprintf("harness C19: %s: %v", p, err))
	}
}

func c19Load() *c19Gen {
	g := &c19Gen{}
	var a struct {
		Families []c19Family `json:"families"`
	}
	c19ReadJSON("C19Flags", &a)
	g.Families = a.Families
	var b struct {
		Tables []c19Table `json:"tables"`
	}
	c19ReadJSON("C19Codes", &b)
	g.Tables = b.Tables
	var c struct {
		Table c19Table `json:"table"`
	}
	c19ReadJSON("C19NtStatus", &c)
	g.Nt = c.Table
	var d struct {
		Rows []c19CodeRow `json:"rows"`
	}
	c19ReadJSON("C19NtErrors", &d)
	g.ErrKeys = d.Rows
	return g
}

// ---- bindings to the real library ---------------------------------------------------------------

type c19FamBind struct {
	mk       func(w uint64) reflect.Value // the typed flag word, for calling predicates by name
	str      func(w uint64) string        // String()
	names    func(w uint64) []string      // decomposition that yields a list
	getflags func(w uint64) []uint64
}

var c19Fams = map[string]c19FamBind{
	"Flags": {mk: func(w uint64) reflect.Value { return reflect.ValueOf(flags.Flags(w)) },
		str: func(w uint64) string { return flags.Flags(w).String() }},
	"Flags2": {mk: func(w uint64) reflect.Value { return reflect.ValueOf(flags2.Flags2(w)) },
		str: func(w uint64) string { return flags2.Flags2(w).String() }},
	"Capabilities": {mk: func(w uint64) reflect.Value { return reflect.ValueOf(capabilities.Capabilities(w)) },
		str: func(w uint64) string { return capabilities.Capabilities(w).String() }},
	"SecurityMode": {mk: func(w uint64) reflect.Value { return reflect.ValueOf(securitymode.SecurityMode(w)) }},
	"UserAccountControl": {mk: func(w uint64) reflect.Value { return reflect.ValueOf(ldap_attributes.UserAccountControl(w)) },
		str: func(w uint64) string {
			// the map is ranged over in random order: ask several times
			s := ldap_attributes.UserAccountControl(w).String()
			for i := 0; i < 3; i++ {
				if t := ldap_attributes.UserAccountControl(w).String(); t != s {
					return "\x00nondeterministic: " + s + " / " + t
				}
			}
			return s
		},
		getflags: func(w uint64) []uint64 {
			var out []uint64
			for _, f := range ldap_attributes.UserAccountControl(w).GetFlags() {
				out = append(out, uint64(f))
			}
			return out
		}},
	"KeyCredFlags": {mk: func(w uint64) reflect.Value { return reflect.ValueOf(uint8(w)) },
		names: func(w uint64) []string {
			var kf key.CustomKeyInformationFlags
			if w%3 == 1 { // a value that has decomposed another byte before
				kf.FromBytes(byte(^w))
			}
			kf.FromBytes(byte(w))
			if uint64(kf.Value) != w {
				return []string{"\x00Value not stored"}
			}
			return kf.Name
		}},
}

var c19Tables = map[string]func(v uint64) string{
	"CommandCode":                   func(v uint64) string { return codes.CommandCode(v).String() },
	"NtTransactSubcommand":          func(v uint64) string { return subcommands.NtTransactSubcommand(v).String() },
	"Transaction2Subcommand":        func(v uint64) string { return subcommands.Transaction2Subcommand(v).String() },
	"TransactionSubcommand":         func(v uint64) string { return subcommands.TransactionSubcommand(v).String() },
	"SessionMessageType":            func(v uint64) string { return netbios.SESSION_MESSAGE_TYPE(v).String() },
	"DomainFunctionalityLevel":      func(v uint64) string { return ldap_attributes.DomainFunctionalityLevel(v).String() },
	"MSPKIEnrollmentFlag":           func(v uint64) string { return ldap_attributes.MSPKIEnrollmentFlag(v).String() },
	"PasswordProperties":            func(v uint64) string { return ldap_attributes.PasswordProperties(v).String() },
	"PasswordPropertiesDescription": func(v uint64) string { return ldap_attributes.PasswordProperties(v).Description() },
	"SAMAccountType":                func(v uint64) string { return ldap_attributes.SAMAccountType(v).String() },
	"KeyCredVolumeType": func(v uint64) string {
		x := key.CustomKeyInformationVolumeType{}
		if v%3 == 1 {
			x.FromBytes(byte(^v))
		}
		x.FromBytes(byte(v))
		return x.String()
	},
	"KeyCredEntryType": func(v uint64) string {
		x := key.KeyCredentialEntryType{}
		if v%3 == 1 {
			x.FromBytes(byte(^v))
		}
		x.FromBytes(byte(v))
		return x.String()
	},
	"KeyCredVersion": func(v uint64) string {
		x := key.KeyCredentialVersion{}
		if v%3 == 1 {
			x.FromBytes(binary.LittleEndian.AppendUint32(nil, uint32(^v)))
		}
		x.FromBytes(binary.LittleEndian.AppendUint32(nil, uint32(v)))
		return x.String()
	},
	"KeySource": func(v uint64) string { return key.KeySource(v).String() },
	"KeyStrength": func(v uint64) string {
		x := key.KeyStrength{}
		if v%3 == 1 {
			x.FromBytes(binary.LittleEndian.AppendUint32(nil, uint32(^v)))
		}
		x.FromBytes(binary.LittleEndian.AppendUint32(nil, uint32(v)))
		return x.Name
	},
	"KeyUsage": func(v uint64) string {
		x := key.KeyUsage{}
		if v%3 == 1 {
			x.FromBytes(byte(^v))
		}
		x.FromBytes(byte(v))
		return x.String()
	},
	"NtStatus": func(v uint64) string { return nt_status.NT_STATUS(v).String() },
}

// the exported maps themselves (key -> text), to compare row by row with what the extractor read
var c19Maps = map[string]func() map[uint64]string{
	"CommandCode":                   func() map[uint64]string { return c19MapOf(codes.CommandCodeNames) },
	"NtTransactSubcommand":          func() map[uint64]string { return c19MapOf(subcommands.NtTransactSubcommandsToString) },
	"Transaction2Subcommand":        func() map[uint64]string { return c19MapOf(subcommands.Transaction2SubcommandsToString) },
	"TransactionSubcommand":         func() map[uint64]string { return c19MapOf(subcommands.TransactionSubcommandsToString) },
	"SessionMessageType":            func() map[uint64]string { return c19MapOf(netbios.SessionMessageTypeToString) },
	"DomainFunctionalityLevel":      func() map[uint64]string { return c19MapOf(ldap_attributes.DomainFunctionalityLevelToWindowsVersion) },
	"MSPKIEnrollmentFlag":           func() map[uint64]string { return c19MapOf(ldap_attributes.MSPKIEnrollmentFlagMap) },
	"PasswordProperties":            func() map[uint64]string { return c19MapOf(ldap_attributes.PasswordPropertiesMap) },
	"PasswordPropertiesDescription": func() map[uint64]string { return c19MapOf(ldap_attributes.PasswordPropertiesDescriptions) },
	"SAMAccountType":                func() map[uint64]string { return c19MapOf(ldap_attributes.SAMAccountTypeMap) },
	"NtStatus":                      func() map[uint64]string { return c19MapOf(nt_status.NTStatusToStringName) },
	"UserAccountControl":            func() map[uint64]string { return c19MapOf(ldap_attributes.UserAccountControlMap) },
	"NtErrors": func() map[uint64]string {
		out := map[uint64]string{}
		for k, v := range nt_status.NTStatusToGoErrorMap {
			if v == nil {
				out[uint64(k)] = "\x00nil error value"
			} else {
				out[uint64(k)] = v.Error()
			}
		}
		return out
	},
}

func c19MapOf[K ~uint8 | ~uint16 | ~uint32, V ~string](m map[K]V) map[uint64]string {
	out := make(map[uint64]string, len(m))
	for k, v := range m {
		out[uint64(k)] = string(v)
	}
	return out
}

func c19U(s string) uint64 {
	v, err := strconv.ParseUint(s, 10, 64)
	if err != nil {
		panic("harness: bad integer token " + s)
	}
	return v
}

func c19Norm(s string) string {
	var b []byte
	for i := 0; i < len(s); i++ {
		c := s[i]
		switch {
		case c >= 'A' && c <= 'Z':
			b = append(b, c+32)
		case c >= 'a' && c <= 'z', c >= '0' && c <= '9':
			b = append(b, c)
		}
	}
	return string(b)
}

func c19NtErr(v uint64) string {
	err := nt_status.NT_STATUS(v).Error()
	if err == nil {
		return "nil"
	}
	return hx([]byte(err.Error()))
}

var c19gen *c19Gen
var c19famByID = map[string]c19Family{}

func c19Init() {
	if c19gen != nil {
		return
	}
	c19gen = c19Load()
	for _, f := range c19gen.Families {
		c19famByID[f.ID] = f
		if _, ok := c19Fams[f.ID]; !ok {
			panic("harness C19: generated flag family " + f.ID + " has no binding to the real library in tools/harness/c19.go")
		}
	}
	for _, t := range c19gen.Tables {
		if _, ok := c19Tables[t.ID]; !ok {
			panic("harness C19: generated code table " + t.ID + " has no binding to the real library in tools/harness/c19.go")
		}
	}
}

// tokens: the names the real decomposition reports for w
func c19Tokens(id string, w uint64) []string {
	f := c19famByID[id]
	b := c19Fams[id]
	if b.names != nil {
		l := b.names(w)
		if f.EmptyMode == "append" && len(l) == 1 && l[0] == f.EmptyLit {
			return nil
		}
		return l
	}
	s := b.str(w)
	if s == "" || (f.EmptyMode == "return" && s == f.EmptyLit) {
		return nil
	}
	return strings.Split(s, f.Sep)
}

func init() {
	fam := func(id string) c19FamBind {
		c19Init()
		b, ok := c19Fams[id]
		if !ok {
			panic("harness C19: unknown family " + id)
		}
		return b
	}
	tbl := func(id string) func(uint64) string {
		c19Init()
		f, ok := c19Tables[id]
		if !ok {
			panic("harness C19: unknown table " + id)
		}
		return f
	}
	register(&Prop{
		ID: "C19",
		Ops: []OpDef{
			{Name: "c19.str", Impl: func(a []string) string { return okStr(fam(a[0]).str(c19U(a[1]))) }},
			{Name: "c19.names", Impl: func(a []string) string {
				l := fam(a[0]).names(c19U(a[1]))
				bs := make([][]byte, len(l))
				for i, s := range l {
					bs[i] = []byte(s)
				}
				return "ok " + hxList(bs, ",")
			}},
			{Name: "c19.getflags",
				// the specification looks at the list the implementation returned: reserved bits may or may not be in it
				ReadBack: func(a []string, out string) (m, s []string) {
					f := strings.Fields(out)
					if len(f) == 2 && f[0] == "ok" {
						return nil, []string{f[1]}
					}
					return nil, []string{"none"}
				},
				Impl: func(a []string) string {
				l := fam(a[0]).getflags(c19U(a[1]))
				if len(l) == 0 {
					return "ok ."
				}
				p := make([]string, len(l))
				for i, v := range l {
					p[i] = strconv.FormatUint(v, 10)
				}
				return "ok " + strings.Join(p, ",")
			}},
			// canonical set of reported names: normalised, reserved names dropped, sorted
			// the rendering of a word and of the same word with every undeclared bit cleared: bits no constant of the
			// family names have no say in the decomposition, the empty case included
			{Name: "c19.strmask",
				ReadBack: func(a []string, out string) (m, s []string) {
					f := strings.Fields(out)
					if len(f) == 3 && f[0] == "ok" {
						return nil, []string{f[1], f[2]}
					}
					return nil, []string{"none", "none"}
				},
				Impl: func(a []string) string {
					b := fam(a[0])
					w, mask := c19U(a[1]), c19U(a[2])
					return "ok " + hx([]byte(b.str(w))) + " " + hx([]byte(b.str(w&mask)))
				}},
			{Name: "c19.set", Impl: func(a []string) string {
				fam(a[0])
				var l []string
				for _, t := range c19Tokens(a[0], c19U(a[1])) {
					n := c19Norm(t)
					if strings.Contains(n, "reserved") {
						continue
					}
					l = append(l, n)
				}
				sort.Strings(l)
				bs := make([][]byte, len(l))
				for i, s := range l {
					bs[i] = []byte(s)
				}
				return "ok " + hxList(bs, ",")
			}},
			{Name: "c19.pred", Impl: func(a []string) string {
				m := fam(a[0]).mk(c19U(a[2])).MethodByName(a[1])
				if !m.IsValid() {
					panic("harness C19: the real type of family " + a[0] + " has no method " + a[1])
				}
				if m.Call(nil)[0].Bool() {
					return "ok 1"
				}
				return "ok 0"
			}},
			{Name: "c19.code", Impl: func(a []string) string { return okStr(tbl(a[0])(c19U(a[1]))) }},
			{Name: "c19.named", Impl: func(a []string) string { return okStr(tbl(a[0])(c19U(a[1]))) }},
			{Name: "c19.unique", Impl: func(a []string) string {
				f := tbl(a[0])
				return "ok " + hx([]byte(f(c19U(a[1])))) + " " + hx([]byte(f(c19U(a[2]))))
			}},
			// one entry of an exported map, read directly (not through String())
			{Name: "c19.maprow", Impl: func(a []string) string {
				c19Init()
				mk, ok := c19Maps[a[0]]
				if !ok {
					panic("harness C19: no map binding for " + a[0])
				}
				if v, ok := mk()[c19U(a[1])]; ok {
					return okStr(v)
				}
				return "ok absent"
			}},
			{Name: "c19.nterr", Impl: func(a []string) string { return "ok " + c19NtErr(c19U(a[0])) }},
			{Name: "c19.nterrprop", Impl: func(a []string) string { return "ok " + c19NtErr(c19U(a[0])) }},
		},
		Gen: genC19,
	})
}

func genC19(r *Rng, tier string) []Case {
	c19Init()
	g := c19gen
	thorough := tier == "thorough"
	var cs []Case
	u := func(v uint64) string { return strconv.FormatUint(v, 10) }

	// ---------------- flag words
	for _, f := range g.Families {
		b := c19Fams[f.ID]
		var named uint64
		for _, row := range f.Rows {
			named |= row.Test.Mask
		}
		var declared uint64 // every bit some declared constant of the family has (reserved ones included)
		for _, c := range f.Consts {
			declared |= c.Value
		}
		word := func(w uint64, tag string) {
			ws := u(w)
			if f.Decomp != "" {
				if b.str != nil {
					cs = append(cs, Case{Op: "c19.str", MArgs: []string{f.ID, ws}, Tag: f.ID + ".str." + tag})
				}
				if b.names != nil {
					cs = append(cs, Case{Op: "c19.names", MArgs: []string{f.ID, ws}, Tag: f.ID + ".names." + tag})
				}
				if f.GetFlags {
					cs = append(cs, Case{Op: "c19.getflags", MArgs: []string{f.ID, ws}, SArgs: []string{f.ID, ws}, Tag: f.ID + ".getflags." + tag})
				}
				cs = append(cs, Case{Op: "c19.set", MArgs: []string{f.ID, ws}, SArgs: []string{f.ID, ws}, NoM: true, Tag: f.ID + ".set." + tag})
				if b.str != nil && w&^declared != 0 {
					sa := []string{f.ID, ws, u(declared)}
					cs = append(cs, Case{Op: "c19.strmask", MArgs: sa, SArgs: sa, NoM: true, Tag: f.ID + ".strmask." + tag})
				}
			}
		}
		pred := func(w uint64, tag string) {
			for _, p := range f.Preds {
				a := []string{f.ID, p.Func, u(w)}
				cs = append(cs, Case{Op: "c19.pred", MArgs: a, SArgs: a, Tag: f.ID + ".pred." + tag})
			}
		}
		rf := r.Fork("fam." + f.ID)
		if f.Bits <= 16 {
			// every word of the type, exhaustively
			for w := uint64(0); w < 1<<uint(f.Bits); w++ {
				word(w, "exhaustive")
			}
			if f.Bits <= 8 || thorough {
				for w := uint64(0); w < 1<<uint(f.Bits); w++ {
					pred(w, "exhaustive")
				}
			} else {
				// quick tier, 16-bit: every word of the low byte and of the high byte, every pair of bits, random
				for w := uint64(0); w < 256; w++ {
					pred(w, "low-byte")
					pred(w<<8, "high-byte")
				}
				for i := 0; i < f.Bits; i++ {
					for j := i; j < f.Bits; j++ {
						pred(1<<uint(i)|1<<uint(j), "bit-pair")
					}
				}
				for i := 0; i < 2000; i++ {
					pred(rf.U64()&0xFFFF, "random")
				}
			}
		} else {
			mask := uint64(1)<<uint(f.Bits) - 1
			both := func(w uint64, tag string) { word(w, tag); pred(w, tag) }
			for _, w := range []uint64{0, mask, named, mask &^ named} {
				both(w, "boundary")
			}
			for i := 0; i < f.Bits; i++ {
				both(1<<uint(i), "single-bit")
				both(mask&^(1<<uint(i)), "all-but-one")
				for j := i + 1; j < f.Bits; j++ {
					both(1<<uint(i)|1<<uint(j), "bit-pair")
				}
			}
			n := 3000
			if thorough {
				n = 60000
			}
			for i := 0; i < n; i++ {
				w := rf.U64() & mask
				switch rf.Intn(4) {
				case 0:
					w &= rf.U64() // sparse
				case 1:
					w |= rf.U64() & mask // dense
				}
				both(w, "random")
			}
		}
	}

	// ---------------- named constants
	tables := append([]c19Table{}, g.Tables...)
	tables = append(tables, g.Nt)
	for _, t := range tables {
		real := c19Tables[t.ID]
		rt := r.Fork("tbl." + t.ID)
		mask := ^uint64(0)
		if t.Bits < 64 {
			mask = uint64(1)<<uint(t.Bits) - 1
		}
		if t.ID == "KeySource" {
			mask = 0xFFFF // FromBytes reads a uint16; negative ints are outside the table language
		}
		declared := map[uint64]bool{}
		code := func(v uint64, tag string) {
			cs = append(cs, Case{Op: "c19.code", MArgs: []string{t.ID, u(v)}, Tag: t.ID + ".code." + tag})
		}
		for _, c := range t.Consts {
			declared[c.Value] = true
			code(c.Value, "declared")
			name := real(c.Value)
			cs = append(cs, Case{Op: "c19.named", MArgs: []string{t.ID, u(c.Value), c.Ident}, SArgs: []string{t.ID, u(c.Value), hx([]byte(name))}, NoM: true, Tag: t.ID + ".named"})
		}
		for _, row := range t.Rows {
			if !declared[row.Value] {
				code(row.Value, "row-without-constant")
			}
		}
		// undeclared values
		if t.Bits <= 8 || (t.Bits <= 16 && thorough) {
			for v := uint64(0); v <= mask; v++ {
				if !declared[v] {
					code(v, "undeclared-exhaustive")
				}
			}
		} else {
			for _, c := range t.Consts {
				for _, v := range []uint64{c.Value + 1, c.Value - 1} {
					if v&mask == v && !declared[v] {
						code(v, "undeclared-neighbour")
					}
				}
			}
			n := 1500
			if thorough {
				n = 20000
			}
			for i := 0; i < n; i++ {
				v := rt.U64() & mask
				if rt.Intn(3) == 0 {
					v &= 0xFFFF
				}
				if !declared[v] {
					code(v, "undeclared-random")
				}
			}
		}
		// uniqueness: constants whose real names collide, every neighbouring pair, random pairs
		seenPair := map[[2]string]bool{}
		uniq := func(a, b c19Const, tag string) {
			if seenPair[[2]string{a.Ident, b.Ident}] || seenPair[[2]string{b.Ident, a.Ident}] || a.Ident == b.Ident {
				return
			}
			seenPair[[2]string{a.Ident, b.Ident}] = true
			na, nb := real(a.Value), real(b.Value)
			cs = append(cs, Case{Op: "c19.unique", MArgs: []string{t.ID, u(a.Value), u(b.Value), a.Ident, b.Ident},
				SArgs: []string{t.ID, u(a.Value), u(b.Value), hx([]byte(na)), hx([]byte(nb))}, NoM: true, Tag: t.ID + ".unique." + tag})
		}
		byName := map[string][]c19Const{}
		for _, c := range t.Consts {
			n := real(c.Value)
			byName[n] = append(byName[n], c)
		}
		var names []string
		for n := range byName {
			names = append(names, n)
		}
		sort.Strings(names)
		for _, n := range names {
			l := byName[n]
			for i := 1; i < len(l); i++ {
				uniq(l[0], l[i], "same-real-name")
			}
		}
		for i := 1; i < len(t.Consts); i++ {
			uniq(t.Consts[i-1], t.Consts[i], "neighbours")
		}
		n := 2 * len(t.Consts)
		if thorough {
			n = 20 * len(t.Consts)
		}
		for i := 0; i < n && len(t.Consts) > 1; i++ {
			uniq(t.Consts[rt.Intn(len(t.Consts))], t.Consts[rt.Intn(len(t.Consts))], "random-pair")
		}
	}

	// ---------------- the exported maps, entry by entry, in both directions
	{
		genKeys := map[string][]uint64{}
		for _, t := range tables {
			for _, row := range t.Rows {
				genKeys[t.ID] = append(genKeys[t.ID], row.Value)
			}
		}
		for _, row := range g.ErrKeys {
			genKeys["NtErrors"] = append(genKeys["NtErrors"], row.Value)
		}
		for _, f := range g.Families {
			if f.GetFlags {
				for _, row := range f.Rows {
					genKeys[f.ID] = append(genKeys[f.ID], row.Test.Mask)
				}
			}
		}
		var ids []string
		for id := range c19Maps {
			ids = append(ids, id)
		}
		sort.Strings(ids)
		for _, id := range ids {
			seen := map[uint64]bool{}
			var keys []uint64
			for k := range c19Maps[id]() {
				keys = append(keys, k)
			}
			sort.Slice(keys, func(i, j int) bool { return keys[i] < keys[j] })
			for _, k := range keys {
				seen[k] = true
				cs = append(cs, Case{Op: "c19.maprow", MArgs: []string{id, u(k)}, Tag: id + ".maprow.real-entry"})
			}
			for _, k := range genKeys[id] {
				if !seen[k] {
					cs = append(cs, Case{Op: "c19.maprow", MArgs: []string{id, u(k)}, Tag: id + ".maprow.extracted-only"})
				}
			}
		}
	}

	// ---------------- NT status -> error
	nterr := func(v uint64, ident, tag string) {
		cs = append(cs, Case{Op: "c19.nterr", MArgs: []string{u(v)}, Tag: "NtStatus.err." + tag})
		cs = append(cs, Case{Op: "c19.nterrprop", MArgs: []string{u(v), ident}, SArgs: []string{u(v), c19NtErr(v)}, NoM: true, Tag: "NtStatus.errprop." + tag})
	}
	declared := map[uint64]bool{}
	for _, c := range g.Nt.Consts {
		declared[c.Value] = true
		nterr(c.Value, c.Ident, "declared")
	}
	for _, row := range g.ErrKeys {
		if !declared[row.Value] {
			nterr(row.Value, row.Key, "row-without-constant")
		}
	}
	re := r.Fork("nterr")
	n := 1500
	if thorough {
		n = 30000
	}
	for _, c := range g.Nt.Consts {
		for _, v := range []uint64{c.Value + 1, c.Value - 1} {
			if v>>32 == 0 && !declared[v] {
				nterr(v, "-", "undeclared-neighbour")
			}
		}
	}
	for i := 0; i < n; i++ {
		v := uint64(re.U32Biased())
		if re.Intn(2) == 0 {
			v = v&0xFFFF | uint64([]uint32{0, 0x40000000, 0x80000000, 0xC0000000}[re.Intn(4)])
		}
		nterr(v, "-", "random")
	}
	return cs
}
