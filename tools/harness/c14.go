package main

// C14 — key-credential blobs: the real windows/keycredential code against the Lean model and the
// MS-ADTS grammar.  SHA-256 is a parameter of the Lean side: ops that hash carry a table
// `in=out;…` as their last argument, filled here with crypto/sha256 for exactly the inputs the
// driver asks for (`need <hex>`), before the cases are handed to the engine.

import (
	"crypto/sha256"
	"encoding/base64"
	"encoding/binary"
	"encoding/hex"
	"flag"
	"fmt"
	"math/big"
	"runtime"
	"strconv"
	"strings"

	"github.com/TheManticoreProject/Manticore/windows/guid"
	kcl "github.com/TheManticoreProject/Manticore/windows/keycredential"
	kcrypto "github.com/TheManticoreProject/Manticore/windows/keycredential/crypto"
	"github.com/TheManticoreProject/Manticore/windows/keycredential/key"
	kutils "github.com/TheManticoreProject/Manticore/windows/keycredential/utils"
)

func init() {
	register(&Prop{
		ID: "C14",
		Ops: []OpDef{
			{Name: "c14.id.frombin", Impl: func(a []string) string {
				return okStr(kutils.ConvertFromBinaryIdentifier(unhx(a[1]), c14ver(a[0])))
			}, Oracle: func(a []string) string {
				if v := c14u(a[0]); v == 0 || v == 0x100 {
					return okStr(hex.EncodeToString(unhx(a[1])))
				}
				return okStr(base64.StdEncoding.EncodeToString(unhx(a[1])))
			}},
			{Name: "c14.id.tobin", Impl: func(a []string) string {
				b, err := kutils.ConvertToBinaryIdentifier(string(unhx(a[1])), c14ver(a[0]))
				if err != nil {
					return "err"
				}
				return okHex(b)
			}, Oracle: func(a []string) string {
				var b []byte
				var err error
				if v := c14u(a[0]); v == 0 || v == 0x100 {
					b, err = hex.DecodeString(string(unhx(a[1])))
				} else {
					b, err = base64.RawStdEncoding.DecodeString(strings.TrimRight(string(unhx(a[1])), "="))
				}
				if err != nil {
					return "err"
				}
				return okHex(b)
			}},
			{Name: "c14.id.rt", Impl: func(a []string) string {
				v := c14ver(a[0])
				b, err := kutils.ConvertToBinaryIdentifier(kutils.ConvertFromBinaryIdentifier(unhx(a[1]), v), v)
				if err != nil {
					return "err"
				}
				return okHex(b)
			}},
			{Name: "c14.rsa.tobytes", Impl: func(a []string) string {
				rk := c14rsa(a)
				return okHex(rk.ToBytes())
			}, Oracle: func(a []string) string {
				// BCRYPT_RSAKEY_BLOB written directly with encoding/binary
				m, p, q := unhx(a[2]), unhx(a[3]), unhx(a[4])
				b := binary.LittleEndian.AppendUint32(nil, 0x31415352)
				b = binary.LittleEndian.AppendUint32(b, c14u(a[0]))
				b = binary.LittleEndian.AppendUint32(b, 4)
				b = binary.LittleEndian.AppendUint32(b, uint32(len(m)))
				b = binary.LittleEndian.AppendUint32(b, uint32(len(p)))
				b = binary.LittleEndian.AppendUint32(b, uint32(len(q)))
				b = binary.BigEndian.AppendUint32(b, c14u(a[1]))
				b = append(append(append(b, m...), p...), q...)
				return okHex(b)
			}},
			{Name: "c14.rsa.frombytes", Impl: func(a []string) string {
				rk := &kcrypto.RSAKeyMaterial{}
				if err := rk.FromBytes(c14exact(unhx(a[0]))); err != nil {
					return "err"
				}
				return "ok " + c14showRSA(rk)
			}},
			{Name: "c14.rsa.rt", Impl: func(a []string) string {
				in := c14rsa(a)
				rk := &kcrypto.RSAKeyMaterial{}
				if err := rk.FromBytes(c14exact(in.ToBytes())); err != nil {
					return "err"
				}
				return fmt.Sprintf("ok %d,%d,%s,%s,%s", rk.KeySize, rk.Exponent, hx(rk.Modulus), hx(rk.Prime1), hx(rk.Prime2))
			}},
			{Name: "c14.cki.frombytes", Impl: func(a []string) string {
				c := &key.CustomKeyInformation{}
				err := c.FromBytes(c14exact(unhx(a[0])), key.KeyCredentialVersion{Value: key.KeyCredentialVersion_2})
				return fmt.Sprintf("ok %s %s", c14b(err != nil), c14showCKI(c))
			}},
			{Name: "c14.cki.rt", Impl: func(a []string) string {
				c := &key.CustomKeyInformation{}
				c.FromBytes(c14exact(unhx(a[0])), key.KeyCredentialVersion{Value: key.KeyCredentialVersion_2})
				return okHex(c.ToBytes())
			}},
			{Name: "c14.ver", Impl: func(a []string) string {
				v := &key.KeyCredentialVersion{}
				v.FromBytes(c14exact(unhx(a[0])))
				return fmt.Sprintf("ok %d %s", v.Value, hx(v.ToBytes()))
			}},
			{Name: "c14.dn.fmt", Impl: func(a []string) string {
				d := &kcl.DNWithBinary{BinaryData: unhx(a[0]), DistinguishedName: string(unhx(a[1]))}
				return okStr(d.String())
			}},
			{Name: "c14.dn.parse", Impl: func(a []string) string {
				d := &kcl.DNWithBinary{}
				if err := d.Parse(c14exact(unhx(a[0]))); err != nil {
					return "err"
				}
				return "ok " + hx(d.BinaryData) + " " + hx([]byte(d.DistinguishedName))
			}},
			{Name: "c14.dn.rt", Impl: func(a []string) string {
				d := &kcl.DNWithBinary{BinaryData: unhx(a[0]), DistinguishedName: string(unhx(a[1]))}
				e := &kcl.DNWithBinary{}
				if err := e.Parse([]byte(d.ToString())); err != nil {
					return "err"
				}
				return "ok " + hx(e.BinaryData) + " " + hx([]byte(e.DistinguishedName))
			}},
			{Name: "c14.new", Impl: c14implNew},
			{Name: "c14.parse", Impl: func(a []string) string {
				k := &kcl.KeyCredential{}
				if err := k.FromBytes(c14exact(unhx(a[0]))); err != nil {
					return "err"
				}
				h := k.ComputeKeyHash()
				integ := k.CheckIntegrity()
				return fmt.Sprintf("ok %s rsa.full=%s cki.full=%s ch=%s integ=%s ser=%s", c14showFields(k),
					c14showRSA(&k.RawKeyMaterial), c14showCKI(&k.CustomKeyInfo), hx(h), c14b(integ), c14ser(k))
			}},
			{Name: "c14.flip", Impl: func(a []string) string {
				b := c14exact(unhx(a[0]))
				i, _ := strconv.Atoi(a[1])
				k := &kcl.KeyCredential{}
				if c13Used(a) { // the same parser object has just parsed and checked the genuine blob
					if err := k.FromBytes(c14exact(unhx(a[0]))); err == nil {
						k.ComputeKeyHash()
						k.CheckIntegrity()
					}
				}
				b[i/8] ^= 1 << uint(i%8)
				if err := k.FromBytes(b); err != nil {
					return "ok rejected"
				}
				if k.CheckIntegrity() {
					return "ok accepted"
				}
				return "ok rejected"
			}},
		},
		Gen: genC14,
	})
}

// ---- helpers -----------------------------------------------------------------------------

func c14u(s string) uint32 {
	n, err := strconv.ParseUint(s, 10, 32)
	if err != nil {
		panic("harness: bad uint32 token " + s)
	}
	return uint32(n)
}
func c14u64(s string) uint64 {
	n, err := strconv.ParseUint(s, 10, 64)
	if err != nil {
		panic("harness: bad uint64 token " + s)
	}
	return n
}
func c14ver(s string) key.KeyCredentialVersion { return key.KeyCredentialVersion{Value: c14u(s)} }
func c14b(b bool) string {
	if b {
		return "1"
	}
	return "0"
}

// a slice whose capacity equals its length (hex.DecodeString leaves spare capacity)
func c14exact(b []byte) []byte {
	c := make([]byte, len(b))
	copy(c, b)
	return c[:len(c):len(c)]
}

func c14rsa(a []string) kcrypto.RSAKeyMaterial {
	rk := kcrypto.RSAKeyMaterial{KeySize: c14u(a[0]), Exponent: c14u(a[1])}
	// the caller's natural zero values: nil for an absent prime
	if m := unhx(a[2]); len(m) > 0 {
		rk.Modulus = m
	}
	if p := unhx(a[3]); len(p) > 0 {
		rk.Prime1 = p
	}
	if q := unhx(a[4]); len(q) > 0 {
		rk.Prime2 = q
	}
	return rk
}

func c14showRSA(r *kcrypto.RSAKeyMaterial) string {
	return fmt.Sprintf("%d,%d,%s,%s,%s,%s", r.KeySize, r.Exponent, hx(r.Modulus), hx(r.Prime1), hx(r.Prime2), hx(r.RawBytes))
}
func c14showCKI(c *key.CustomKeyInformation) string {
	return fmt.Sprintf("%d,%d,%d,%s,%d,%d,%s,%s,%s,%d", c.Version, c.Flags.Value, c.VolumeType.Value, c14b(c.SupportsNotification),
		c.FekKeyVersion, c.Strength.Value, hx(c.Reserved), hx(c.EncodedExtendedCKI), hx(c.RawBytes), c.RawBytesSize)
}
func c14showFields(k *kcl.KeyCredential) string {
	m := &k.RawKeyMaterial
	return fmt.Sprintf("v=%d id=%s kh=%s rsa=%d,%d,%s,%s,%s us=%d lu=%s src=%d cki=%d,%d dev=%d,%d,%d,%d,%d t=%d,%d",
		k.Version.Value, hx([]byte(k.Identifier)), hx(k.KeyHash), m.KeySize, m.Exponent, hx(m.Modulus), hx(m.Prime1), hx(m.Prime2),
		k.Usage.Value, hx([]byte(k.LegacyUsage)), int(k.Source), k.CustomKeyInfo.Version, k.CustomKeyInfo.Flags.Value,
		k.DeviceId.A, k.DeviceId.B, k.DeviceId.C, k.DeviceId.D, k.DeviceId.E, k.LastLogonTime.Ticks, k.CreationTime.Ticks)
}
func c14ser(k *kcl.KeyCredential) string {
	b, err := k.ToBytes()
	if err != nil {
		return "err"
	}
	return hx(b)
}

// the timestamps are raw tick counts here; tick <-> time.Time is property C15
func c14time(t uint64) kutils.DateTime { return kutils.DateTime{Ticks: t} }

func c14build(a []string) *kcl.KeyCredential {
	g := guid.GUID{A: c14u(a[7]), B: uint16(c14u(a[8])), C: uint16(c14u(a[9])), D: uint16(c14u(a[10])), E: c14u64(a[11])}
	return kcl.NewKeyCredential(c14ver(a[0]), string(unhx(a[1])), c14rsa(a[2:7]), g, c14time(c14u64(a[12])), c14time(c14u64(a[13])))
}

// NewKeyCredential, ToBytes, CheckIntegrity, FromBytes into a zero value, CheckIntegrity, ToBytes
func c14implNew(a []string) string {
	k := c14build(a)
	b, err := k.ToBytes()
	if err != nil {
		return "err"
	}
	// what a caller holds must stay what it was: another credential of the same shape (other device id) is built
	// and serialised before the blob of this one is looked at again
	held := append([]byte{}, b...)
	a2 := append([]string{}, a...)
	a2[7] = "305419896"
	if k3 := c14build(a2); k3 != nil {
		k3.ToBytes()
	}
	if string(held) != string(b) {
		return "ok blob-changed-by-a-later-credential"
	}
	i1 := k.CheckIntegrity()
	k2 := &kcl.KeyCredential{}
	if err := k2.FromBytes(c14exact(b)); err != nil {
		return "err"
	}
	i2 := k2.CheckIntegrity()
	// the same blob handed over inside a DN-with-binary value
	k4 := &kcl.KeyCredential{}
	if err := k4.ParseDNWithBinary(kcl.DNWithBinary{BinaryData: c14exact(b), DistinguishedName: "CN=via,DC=dn"}); err != nil {
		return "ok dn-with-binary-parse-error"
	}
	if c14showFields(k4) != c14showFields(k2) || c14ser(k4) != c14ser(k2) {
		return "ok dn-with-binary-parse-differs"
	}
	return fmt.Sprintf("ok blob=%s kh=%s integ=%s || %s integ2=%s reser=%s", hx(b), hx(k.KeyHash), c14b(i1), c14showFields(k2), c14b(i2), c14ser(k2))
}

// ---- the SHA-256 table ---------------------------------------------------------------------

var c14hashOps = map[string]bool{"c14.new": true, "c14.parse": true, "c14.flip": true}

// c14Resolve runs the hashing lines through the driver until no line answers `need <hex>`, adding
// sha256(<hex>) to the table argument (last token) of the case each time.
func c14Resolve(cs []Case) {
	drv := flag.Lookup("driver").Value.String()
	type lineRef struct {
		idx  int
		spec bool
	}
	tables := map[int][]string{}
	has := map[int]map[string]bool{}
	pending := []int{}
	for i, c := range cs {
		if c14hashOps[c.Op] {
			pending = append(pending, i)
			has[i] = map[string]bool{}
		}
	}
	setTable := func(i int) {
		tok := "."
		if len(tables[i]) > 0 {
			tok = strings.Join(tables[i], ";")
		}
		if cs[i].MArgs != nil {
			cs[i].MArgs[len(cs[i].MArgs)-1] = tok
		}
		if cs[i].SArgs != nil {
			cs[i].SArgs[len(cs[i].SArgs)-1] = tok
		}
	}
	for round := 0; round < 8 && len(pending) > 0; round++ {
		var lines []string
		var refs []lineRef
		for _, i := range pending {
			if cs[i].MArgs != nil {
				lines = append(lines, "M "+cs[i].Op+" "+strings.Join(cs[i].MArgs, " "))
				refs = append(refs, lineRef{i, false})
			}
			if cs[i].SArgs != nil {
				lines = append(lines, "S "+cs[i].Op+" "+strings.Join(cs[i].SArgs, " "))
				refs = append(refs, lineRef{i, true})
			}
		}
		outs, err := runDriver(drv, lines, runtime.NumCPU())
		if err != nil {
			panic("harness: c14 table resolution: " + err.Error())
		}
		again := map[int]bool{}
		for k, o := range outs {
			if strings.HasPrefix(o, "need ") {
				i := refs[k].idx
				q := strings.TrimPrefix(o, "need ")
				if !has[i][q] {
					has[i][q] = true
					d := sha256.Sum256(unhx(q))
					tables[i] = append(tables[i], q+"="+hx(d[:]))
				}
				again[i] = true
			}
		}
		var next []int
		for _, i := range pending {
			if again[i] {
				setTable(i)
				next = append(next, i)
			}
		}
		pending = next
	}
}

// ---- generators ----------------------------------------------------------------------------

func c14entry(t byte, data []byte) []byte {
	b := binary.LittleEndian.AppendUint16(nil, uint16(len(data)))
	b = append(b, t)
	return append(b, data...)
}

// a deterministic "RSA key": two primes found from the Rng stream, and their product
func c14rsaKey(r *Rng, bits int) (n, p, q []byte) {
	prime := func(bits int) *big.Int {
		b := r.Bytes((bits + 7) / 8)
		x := new(big.Int).SetBytes(b)
		x.SetBit(x, bits-1, 1)
		x.SetBit(x, bits-2, 1)
		x.SetBit(x, 0, 1)
		for x.BitLen() > bits {
			x.SetBit(x, x.BitLen()-1, 0)
		}
		x.SetBit(x, bits-1, 1)
		for !x.ProbablyPrime(0) {
			x.Add(x, big.NewInt(2))
		}
		return x
	}
	P, Q := prime(bits/2), prime(bits-bits/2)
	N := new(big.Int).Mul(P, Q)
	return N.Bytes(), P.Bytes(), Q.Bytes()
}

type c14cred struct {
	v       uint32
	id      []byte // identifier string
	ksz, e  uint32
	m, p, q []byte
	ga      uint32
	gb, gc  uint16
	gd      uint16
	ge      uint64
	t1, t2  uint64
}

func (c *c14cred) args() []string {
	u := func(x uint64) string { return strconv.FormatUint(x, 10) }
	return []string{u(uint64(c.v)), hx(c.id), u(uint64(c.ksz)), u(uint64(c.e)), hx(c.m), hx(c.p), hx(c.q),
		u(uint64(c.ga)), u(uint64(c.gb)), u(uint64(c.gc)), u(uint64(c.gd)), u(c.ge), u(c.t1), u(c.t2)}
}

func (c *c14cred) blob() []byte {
	k := c14build(c.args())
	b, err := k.ToBytes()
	if err != nil {
		return nil
	}
	return b
}

func c14version(r *Rng) uint32 {
	switch r.Intn(10) {
	case 0:
		return r.U32Biased()
	default:
		return []uint32{0, 0x100, 0x200}[r.Intn(3)]
	}
}

func c14exponent(r *Rng) uint32 {
	switch r.Intn(6) {
	case 0:
		return 3
	case 1, 2:
		return 65537
	case 3:
		return 0xFFFFFFFF - uint32(r.Intn(3))
	case 4:
		return r.U32Biased()
	default:
		return uint32(r.U64()) | 0x80000001
	}
}

func c14ticks(r *Rng) uint64 {
	switch r.Intn(6) {
	case 0:
		return 0
	case 1:
		return 133500000000000000 + r.U64()%1000000000000000 // around 2024
	default:
		return r.U64Biased()
	}
}

func c14randCred(r *Rng, modLen int, withPrimes bool) *c14cred {
	c := &c14cred{v: c14version(r), e: c14exponent(r), ga: uint32(r.U64()), gb: r.U16Biased(), gc: r.U16Biased(), gd: r.U16Biased(),
		ge: r.U64Biased() & 0xFFFFFFFFFFFF, t1: c14ticks(r), t2: c14ticks(r)}
	c.m = r.Bytes(modLen)
	c.ksz = uint32(modLen * 8)
	if r.Intn(8) == 0 {
		c.ksz = r.U32Biased()
	}
	if withPrimes {
		c.p = r.Bytes((modLen + 1) / 2)
		c.q = r.Bytes(modLen / 2)
	}
	c.setID(r)
	return c
}

// identifier: usually the library's own ComputeKeyIdentifier over the key material, otherwise the
// canonical text of a random binary identifier of a boundary length
func (c *c14cred) setID(r *Rng) {
	ver := key.KeyCredentialVersion{Value: c.v}
	switch r.Intn(4) {
	case 0:
		n := []int{0, 1, 2, 3, 4, 16, 31, 32, 33, 48, 64}[r.Intn(11)]
		c.id = []byte(kutils.ConvertFromBinaryIdentifier(r.Bytes(n), ver))
	default:
		rk := kcrypto.RSAKeyMaterial{KeySize: c.ksz, Exponent: c.e, Modulus: c.m, Prime1: c.p, Prime2: c.q}
		c.id = []byte(kutils.ComputeKeyIdentifier(rk.ToBytes(), ver))
	}
}

func genC14(r *Rng, tier string) []Case {
	var cs []Case
	thorough := tier == "thorough"
	scale := 1
	if thorough {
		scale = 30
	}
	u := func(x uint64) string { return strconv.FormatUint(x, 10) }
	add := func(op string, m, s []string, tag string) {
		cs = append(cs, Case{Op: op, MArgs: m, SArgs: s, Tag: tag})
	}
	same := func(op string, a []string, tag string) { add(op, a, append([]string{}, a...), tag) }

	// ---- identifiers (and, through the oracle, Lean's hex / base64 against encoding/hex, encoding/base64)
	ri := r.Fork("id")
	versions := []uint32{0, 0x100, 0x200, 0x300, 1, 0xFFFFFFFF}
	for _, v := range versions {
		for n := 0; n <= 70; n++ {
			b := ri.Bytes(n)
			same("c14.id.frombin", []string{u(uint64(v)), hx(b)}, "id.encode")
			same("c14.id.rt", []string{u(uint64(v)), hx(b)}, "id.roundtrip")
		}
	}
	b64alpha := []byte("ABCDEFGHIJKLMNOPQRSTUVWXYZabcdefghijklmnopqrstuvwxyz0123456789+/")
	hexalpha := []byte("0123456789abcdefABCDEF")
	for i := 0; i < 1500*scale; i++ {
		v := versions[ri.Intn(len(versions))]
		hexv := v == 0 || v == 0x100
		var s []byte
		tag := "id.decode.wellformed"
		switch ri.Intn(8) {
		case 0, 1: // canonical text
			s = []byte(kutils.ConvertFromBinaryIdentifier(ri.Bytes(ri.Intn(40)), key.KeyCredentialVersion{Value: v}))
		case 2: // text of the right alphabet, any length (unpadded / upper-case / dangling sextets / odd hex)
			if hexv {
				s = ri.BytesFrom(ri.Intn(24), hexalpha)
			} else {
				s = ri.BytesFrom(ri.Intn(24), b64alpha)
			}
			tag = "id.decode.alphabet"
		case 3: // padding variants
			s = []byte(strings.TrimRight(base64.StdEncoding.EncodeToString(ri.Bytes(ri.Intn(12))), "="))
			s = append(s, []byte(strings.Repeat("=", ri.Intn(4)))...)
			tag = "id.decode.padding"
		case 4: // embedded CR / LF / '=' / blanks
			s = ri.BytesFrom(ri.Intn(16), []byte("QUJD\r\n= Zg09"))
			tag = "id.decode.whitespace"
		case 5: // the other version's alphabet
			s = []byte(kutils.ConvertFromBinaryIdentifier(ri.Bytes(ri.Intn(20)), key.KeyCredentialVersion{Value: v ^ 0x200}))
			tag = "id.decode.cross"
		default:
			s = ri.Bytes(ri.Intn(12))
			tag = "id.decode.random"
		}
		same("c14.id.tobin", []string{u(uint64(v)), hx(s)}, tag)
	}

	// ---- RSA key material
	rr := r.Fork("rsa")
	modLens := []int{0, 1, 2, 3, 4, 5, 8, 16, 31, 32, 33, 64, 128, 256, 384, 512}
	exps := []uint32{0, 1, 3, 17, 65537, 0x01000001, 0x80000000, 0xFFFFFFFF}
	for _, ml := range modLens {
		for _, e := range exps {
			for pr := 0; pr < 3; pr++ {
				m := rr.Bytes(ml)
				var p, q []byte
				if pr >= 1 {
					p = rr.Bytes((ml + 1) / 2)
				}
				if pr == 2 {
					q = rr.Bytes(ml / 2)
				}
				a := []string{u(uint64(ml * 8)), u(uint64(e)), hx(m), hx(p), hx(q)}
				same("c14.rsa.tobytes", a, "rsa.layout")
				same("c14.rsa.rt", a, "rsa.roundtrip")
			}
		}
	}
	for i := 0; i < 400*scale; i++ {
		ml := rr.Intn(40)
		rk := kcrypto.RSAKeyMaterial{KeySize: rr.U32Biased(), Exponent: c14exponent(rr), Modulus: rr.Bytes(ml), Prime1: rr.Bytes(rr.Intn(ml/2 + 1)), Prime2: rr.Bytes(rr.Intn(ml/2 + 1))}
		a := []string{u(uint64(rk.KeySize)), u(uint64(rk.Exponent)), hx(rk.Modulus), hx(rk.Prime1), hx(rk.Prime2)}
		same("c14.rsa.rt", a, "rsa.roundtrip")
		b := rk.ToBytes()
		switch rr.Intn(6) {
		case 0: // every truncation
			for n := 0; n <= len(b); n++ {
				add("c14.rsa.frombytes", []string{hx(b[:n])}, nil, "rsa.truncated")
			}
		case 1: // a size field driven to a boundary
			off := 8 + 4*rr.Intn(4)
			binary.LittleEndian.PutUint32(b[off:], []uint32{0, 1, 2, 3, 4, 5, uint32(len(b)), uint32(len(b)) - 24, 0x7FFFFFFF, 0xFFFFFFFF, uint32(rr.Intn(64))}[rr.Intn(11)])
			add("c14.rsa.frombytes", []string{hx(b)}, nil, "rsa.size-field")
		case 2: // wrong magic
			b[rr.Intn(4)] ^= byte(1 + rr.Intn(255))
			add("c14.rsa.frombytes", []string{hx(b)}, nil, "rsa.magic")
		case 3: // exponent of another width, as Windows writes it
			w := rr.Intn(7)
			x := []byte("RSA1")
			x = binary.LittleEndian.AppendUint32(x, rk.KeySize)
			x = binary.LittleEndian.AppendUint32(x, uint32(w))
			x = binary.LittleEndian.AppendUint32(x, uint32(len(rk.Modulus)))
			x = binary.LittleEndian.AppendUint32(x, 0)
			x = binary.LittleEndian.AppendUint32(x, 0)
			x = append(x, rr.Bytes(w)...)
			x = append(x, rk.Modulus...)
			add("c14.rsa.frombytes", []string{hx(x)}, nil, "rsa.exponent-width")
		case 4:
			add("c14.rsa.frombytes", []string{hx(rr.Bytes(rr.Intn(40)))}, nil, "rsa.random")
		default:
			add("c14.rsa.frombytes", []string{hx(append(b, rr.Bytes(rr.Intn(5))...))}, nil, "rsa.trailing")
		}
	}

	// ---- custom key information: every length 0..26, both version values
	rc := r.Fork("cki")
	for n := 0; n <= 26; n++ {
		for k := 0; k < 6*scale; k++ {
			b := rc.Bytes(n)
			if n > 0 && k%3 != 2 {
				b[0] = 1
			}
			if n > 3 && k%2 == 0 {
				b[3] = byte(rc.Intn(3))
			}
			add("c14.cki.frombytes", []string{hx(b)}, nil, "cki.parse")
			same("c14.cki.rt", []string{hx(b)}, "cki.roundtrip")
		}
	}
	for n := 0; n <= 8; n++ {
		same("c14.ver", []string{hx(rc.Bytes(n))}, "version")
	}
	for _, v := range []uint32{0, 0x100, 0x200, 0xFFFFFFFF} {
		same("c14.ver", []string{hx(binary.LittleEndian.AppendUint32(nil, v))}, "version")
	}

	// ---- DN-with-binary
	rd := r.Fork("dn")
	dnAlphabets := [][]byte{
		[]byte("CN=abc,DU:xyz 0"),
		[]byte("::,=:B0a"),
		[]byte("CN=Jérôme,OU=Büro:Ünïcode,DC=例え"),
		{0xff, 0xfe, ':', 0x80, 'a', ',', '=', 0x00, 0xc3},
		[]byte("CN=100%,OU=%s%d%v%%,DC=a%x\\n"), // characters that mean something to formatting and escaping layers
	}
	for i := 0; i < 700*scale; i++ {
		al := dnAlphabets[rd.Intn(len(dnAlphabets))]
		dn := rd.BytesFrom(rd.Intn(30), al)
		if rd.Intn(3) == 0 {
			dn = []byte("CN=svc:" + string(dn) + ",OU=a=b:c,DC=corp,DC=example")
		}
		bin := rd.Bytes(rd.Pick(0, 1, 2, 5, 16, 49, 50, 51, 128))
		same("c14.dn.fmt", []string{hx(bin), hx(dn)}, "dn.format")
		same("c14.dn.rt", []string{hx(bin), hx(dn)}, "dn.roundtrip")
		// parse: the well-formed string, then damaged
		d := &kcl.DNWithBinary{BinaryData: bin, DistinguishedName: string(dn)}
		s := []byte(d.ToString())
		add("c14.dn.parse", []string{hx(s)}, nil, "dn.parse.wellformed")
		t := append([]byte{}, s...)
		switch rd.Intn(7) {
		case 0:
			t = t[:rd.Intn(len(t)+1)]
		case 1:
			if len(t) > 0 {
				t[rd.Intn(len(t))] = al[rd.Intn(len(al))]
			}
		case 2: // size written differently: sign, leading zeros, off by one, huge
			sz := []string{"+" + u(uint64(2*len(bin))), "-" + u(uint64(2*len(bin))), "00" + u(uint64(2*len(bin))), u(uint64(2*len(bin) + 1)), u(uint64(len(bin))),
				"9223372036854775807", "9223372036854775808", "-9223372036854775808", "-9223372036854775809", "18446744073709551616", "", "+", "-", "1_0", "0x10", " 4"}[rd.Intn(16)]
			t = []byte("B:" + sz + ":" + hex.EncodeToString(bin) + ":" + string(dn))
		case 3: // upper-case / odd / invalid hex
			h := strings.ToUpper(hex.EncodeToString(bin))
			if rd.Bool() {
				h += string(rd.BytesFrom(1, []byte("0fgG:")))
			}
			t = []byte("B:" + u(uint64(len(h))) + ":" + h + ":" + string(dn))
		case 4: // another first part
			t = append(rd.BytesFrom(rd.Intn(3), []byte("BX:b")), s[1:]...)
		case 5:
			t = rd.BytesFrom(rd.Intn(20), []byte("B:0123456789abcdefABCDEFxyz+-"))
		}
		add("c14.dn.parse", []string{hx(t)}, nil, "dn.parse.damaged")
	}

	// ---- whole credentials
	rk := r.Fork("cred")
	var creds []*c14cred
	for _, ml := range []int{1, 2, 3, 4, 5, 8, 16, 32, 33, 64, 128, 256} {
		for k := 0; k < 4*scale; k++ {
			creds = append(creds, c14randCred(rk, ml, k%2 == 1))
		}
	}
	// large key material: everything a 16-bit entry length can carry is inside the property (a 16384-bit key with its
	// primes is 3100 octets; the largest entry is 65535)
	for _, ml := range []int{512, 1024, 2048, 2049, 4096} {
		creds = append(creds, c14randCred(rk, ml, true), c14randCred(rk, ml, false))
	}
	creds = append(creds, c14randCred(rk, 32753, true), c14randCred(rk, 65535-28, false))
	// all three versions x boundary ticks x GUID corners on one tiny key
	for _, v := range []uint32{0, 0x100, 0x200} {
		for _, t := range []uint64{0, 1, 0x7FFFFFFFFFFFFFFF, 0xFFFFFFFFFFFFFFFF} {
			for _, ge := range []uint64{0, 1, 0xFFFFFFFFFFFF} {
				c := c14randCred(rk, 4, false)
				c.v, c.t1, c.t2, c.ge = v, t, ^t, ge
				c.setID(rk)
				creds = append(creds, c)
			}
		}
	}
	// keys made of real primes
	keyBits := []int{64, 512, 1024}
	if thorough {
		keyBits = append(keyBits, 2048, 3072, 4096)
	}
	var realCreds []*c14cred
	for _, bits := range keyBits {
		n, p, q := c14rsaKey(rk, bits)
		for _, v := range []uint32{0, 0x100, 0x200} {
			c := c14randCred(rk, 4, false)
			c.v, c.m, c.p, c.q, c.ksz = v, n, p, q, uint32(bits)
			if v == 0x100 {
				c.p, c.q = nil, nil
			}
			c.e = []uint32{3, 65537, 0xFFFFFFFB}[int(v>>8)]
			c.setID(rk)
			creds = append(creds, c)
			realCreds = append(realCreds, c)
		}
	}
	for _, c := range creds {
		a := append(c.args(), ".")
		same("c14.new", a, "cred.new")
	}
	// outside the property's domain: identifiers that are not canonical text, E beyond 48 bits, an
	// entry too long for a uint16 length (model tie; the specification is silent)
	for i := 0; i < 40*scale; i++ {
		c := c14randCred(rk, 1+rk.Intn(8), rk.Bool())
		switch rk.Intn(4) {
		case 0:
			c.id = rk.BytesFrom(1+rk.Intn(9), []byte("ABab01=+/ gZ"))
		case 1:
			c.id = []byte(strings.ToUpper(string(c.id)))
		case 2:
			c.ge = rk.U64() | 1<<uint(48+rk.Intn(16))
		default:
			c.id = []byte(strings.TrimRight(string(c.id), "="))
		}
		same("c14.new", append(c.args(), "."), "cred.new.outside-domain")
	}
	{ // key material one byte too long for a 16-bit entry length
		c := c14randCred(rk, 65536-28+rk.Intn(3), false)
		same("c14.new", append(c.args(), "."), "cred.new.outside-domain")
	}

	// ---- parsing: serialised credentials, damaged ones, synthetic entry sequences
	rp := r.Fork("parse")
	parse := func(b []byte, tag string) { add("c14.parse", []string{hx(b), "."}, nil, tag) }
	var blobs [][]byte
	for _, c := range creds {
		if b := c.blob(); b != nil {
			blobs = append(blobs, b)
		}
	}
	for i, b := range blobs {
		if len(b) > 700 && !thorough {
			continue
		}
		parse(b, "parse.serialised")
		if i%7 == 0 && len(b) < 200 { // every truncation
			for n := 0; n < len(b); n++ {
				parse(b[:n], "parse.truncated")
			}
		}
		for k := 0; k < 6; k++ {
			t := append([]byte{}, b...)
			t[rp.Intn(len(t))] = []byte{0, 1, 2, 0x7f, 0x80, 0xff, rp.Byte()}[rp.Intn(7)]
			parse(t, "parse.byte-corrupted")
		}
	}
	for i := 0; i < 1500*scale; i++ {
		b := binary.LittleEndian.AppendUint32(nil, c14version(rp))
		ne := rp.Intn(8)
		for e := 0; e < ne; e++ {
			t := byte(rp.Intn(12))
			var d []byte
			switch t {
			case 3:
				m := kcrypto.RSAKeyMaterial{KeySize: 8, Exponent: c14exponent(rp), Modulus: rp.Bytes(rp.Intn(6)), Prime1: rp.Bytes(rp.Intn(3))}
				d = m.ToBytes()
				if rp.Intn(2) == 0 { // a size that reaches past the entry, into what follows in the blob
					off := 8 + 4*rp.Intn(4)
					binary.LittleEndian.PutUint32(d[off:], uint32(rp.Intn(40)))
				}
				if rp.Intn(5) == 0 {
					d = d[:rp.Intn(len(d)+1)]
				}
			case 4:
				d = rp.Bytes(rp.Pick(0, 1, 1, 2, 5))
			case 5:
				d = rp.Bytes(rp.Pick(0, 1, 1, 2))
			case 6:
				d = rp.Bytes(rp.Pick(16, 16, 16, 15, 17, 0))
			case 7:
				d = rp.Bytes(rp.Intn(24))
				if len(d) > 0 && rp.Intn(4) != 0 {
					d[0] = 1
				}
			case 8, 9:
				d = binary.LittleEndian.AppendUint64(nil, c14ticks(rp))
				if rp.Intn(6) == 0 {
					d = d[:rp.Intn(8)]
				}
				if rp.Intn(6) == 0 {
					d = append(d, rp.Bytes(1+rp.Intn(3))...)
				}
			case 2:
				d = rp.Bytes(rp.Pick(32, 32, 0, 1, 31, 33))
			default:
				d = rp.Bytes(rp.Intn(10))
			}
			en := c14entry(t, d)
			if rp.Intn(12) == 0 { // declared length differs from the data
				binary.LittleEndian.PutUint16(en, uint16(rp.Pick(0, 1, len(d)+1, len(d)+7, 0xFFFF, len(d)/2)))
			}
			b = append(b, en...)
		}
		b = append(b, rp.Bytes(rp.Pick(0, 0, 0, 1, 2, 3))...)
		parse(b, "parse.synthetic")
	}

	// ---- every single-bit corruption of serialised blobs
	rf := r.Fork("flip")
	var flipBlobs [][]byte
	nTiny := 6
	if thorough {
		nTiny = 48
	}
	for i := 0; i < nTiny; i++ {
		c := c14randCred(rf, []int{1, 4, 4, 8, 16, 3}[i%6], i%3 == 1)
		c.v = []uint32{0, 0x100, 0x200}[i%3]
		c.setID(rf)
		if i%4 == 3 {
			c.id = nil
		}
		flipBlobs = append(flipBlobs, c.blob())
	}
	for _, c := range realCreds {
		flipBlobs = append(flipBlobs, c.blob())
	}
	for _, b := range flipBlobs {
		if b == nil {
			continue
		}
		for i := 0; i < len(b)*8; i++ {
			a := []string{hx(b), strconv.Itoa(i), "."}
			same("c14.flip", a, "flip.bit")
		}
		// the same corruptions, observed field by field (model tie)
		for i := 0; i < len(b)*8; i += 1 + rf.Intn(5) {
			t := append([]byte{}, b...)
			t[i/8] ^= 1 << uint(i%8)
			parse(t, "parse.bit-flipped")
		}
	}
	c14Resolve(cs)
	return cs
}
