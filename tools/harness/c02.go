package main

import (
	"crypto/des"
	"crypto/hmac"
	"crypto/md5"
	"encoding/binary"
	"encoding/hex"
	"fmt"
	"strconv"
	"strings"

	"github.com/TheManticoreProject/Manticore/crypto/lm"
	"github.com/TheManticoreProject/Manticore/crypto/ntlmv1"
	"github.com/TheManticoreProject/Manticore/crypto/ntlmv2"
	"github.com/TheManticoreProject/Manticore/network/smb/smb_v10/spnego/ntlm"
	"golang.org/x/crypto/md4"
)

// ---- residual expressions (DESIGN §2): evaluated with the Go standard library / x/crypto ----------
//
//	expr := hex | "-" | name "(" expr {"," expr} ")"
//
// md4 = x/crypto/md4, hmac_md5 = crypto/hmac+md5, des = crypto/des (8-byte key), des7 = crypto/des under the
// textbook 56-bit -> 64-bit key spread (parity bits zero), upper = strings.ToUpper, utf16le = unicode/utf16,
// hex = encoding/hex.  This evaluator is the independent verifier's crypto; it contains no repo code.

type exprParser struct {
	s string
	i int
}

func (p *exprParser) expr() ([]byte, error) {
	start := p.i
	for p.i < len(p.s) && p.s[p.i] != '(' && p.s[p.i] != ',' && p.s[p.i] != ')' {
		p.i++
	}
	word := p.s[start:p.i]
	if p.i >= len(p.s) || p.s[p.i] != '(' {
		if word == "-" {
			return []byte{}, nil
		}
		return hex.DecodeString(word)
	}
	p.i++ // (
	var args [][]byte
	var nums []string
	for {
		as := p.i
		a, err := p.expr()
		if err != nil {
			// numeric first argument of take / drop
			if (word == "take" || word == "drop") && len(args) == 0 {
				a = nil
			} else {
				return nil, err
			}
		}
		nums = append(nums, p.s[as:p.i])
		args = append(args, a)
		if p.i >= len(p.s) {
			return nil, fmt.Errorf("unterminated expression")
		}
		if p.s[p.i] == ',' {
			p.i++
			continue
		}
		if p.s[p.i] == ')' {
			p.i++
			break
		}
		return nil, fmt.Errorf("bad expression at %d", p.i)
	}
	need := func(n int) error {
		if len(args) != n {
			return fmt.Errorf("%s: %d arguments", word, len(args))
		}
		return nil
	}
	switch word {
	case "cat":
		if err := need(2); err != nil {
			return nil, err
		}
		return append(append([]byte{}, args[0]...), args[1]...), nil
	case "take", "drop":
		if err := need(2); err != nil {
			return nil, err
		}
		n, err := strconv.Atoi(nums[0])
		if err != nil {
			return nil, err
		}
		if n > len(args[1]) {
			n = len(args[1])
		}
		if word == "take" {
			return args[1][:n], nil
		}
		return args[1][n:], nil
	case "md4":
		if err := need(1); err != nil {
			return nil, err
		}
		h := md4.New()
		h.Write(args[0])
		return h.Sum(nil), nil
	case "upper":
		if err := need(1); err != nil {
			return nil, err
		}
		return []byte(strings.ToUpper(string(args[0]))), nil
	case "utf16le":
		if err := need(1); err != nil {
			return nil, err
		}
		return stdUTF16LE(string(args[0])), nil
	case "hex":
		if err := need(1); err != nil {
			return nil, err
		}
		return []byte(hex.EncodeToString(args[0])), nil
	case "hmac_md5":
		if err := need(2); err != nil {
			return nil, err
		}
		h := hmac.New(md5.New, args[0])
		h.Write(args[1])
		return h.Sum(nil), nil
	case "des", "des7":
		if err := need(2); err != nil {
			return nil, err
		}
		key := args[0]
		if word == "des7" {
			if len(key) != 7 {
				return nil, fmt.Errorf("des7: key of %d bytes", len(key))
			}
			key = spread56(key)
		}
		c, err := des.NewCipher(key)
		if err != nil {
			return nil, err
		}
		if len(args[1]) != 8 {
			return nil, fmt.Errorf("des: block of %d bytes", len(args[1]))
		}
		out := make([]byte, 8)
		c.Encrypt(out, args[1])
		return out, nil
	}
	return nil, fmt.Errorf("unknown primitive %q", word)
}

// spread56: 56 key bits into the upper seven bits of eight octets (parity bits left zero; DES ignores them)
func spread56(k []byte) []byte {
	var v uint64
	for _, b := range k {
		v = v<<8 | uint64(b)
	}
	out := make([]byte, 8)
	for i := 0; i < 8; i++ {
		out[i] = byte((v>>(49-7*uint(i)))&0x7f) << 1
	}
	return out
}

func evalResidual(out string) string {
	if !strings.HasPrefix(out, "ok ") {
		return out
	}
	toks := strings.Fields(out)[1:]
	res := make([]string, len(toks))
	for i, t := range toks {
		if !strings.ContainsAny(t, "(") {
			res[i] = t
			continue
		}
		p := &exprParser{s: t}
		b, err := p.expr()
		if err != nil || p.i != len(t) {
			return "eval-error " + fmt.Sprint(err)
		}
		res[i] = hx(b)
	}
	return "ok " + strings.Join(res, " ")
}

// exact: a copy whose capacity equals its length (the model's slices have cap == len)
// hostile returns b as a sub-slice of a larger buffer whose spare capacity holds non-zero junk: code
// that re-slices its argument instead of copying (or appends into the caller's backing array and
// trusts what it finds there) then computes with the junk
func hostile(b []byte) []byte {
	c := make([]byte, len(b)+32)
	copy(c, b)
	for i := len(b); i < len(c); i++ {
		c[i] = 0xA5
	}
	return c[:len(b)]
}

func exact(b []byte) []byte {
	c := make([]byte, len(b))
	copy(c, b)
	return c[:len(b):len(b)]
}

func okFields(out string) ([]string, bool) {
	if !strings.HasPrefix(out, "ok ") {
		return nil, false
	}
	return strings.Fields(out)[1:], true
}

func ntHashOf(pw string) []byte {
	h := md4.New()
	h.Write(stdUTF16LE(pw))
	return h.Sum(nil)
}

const filetimeEpoch = 116444736000000000

// readV2: unixSecs / cc / lmcc / blob read back from an (lm, nt) pair produced by calculateNTLMv2Response
func readV2(lmR, ntR []byte) (m, s []string) {
	blob := cut(ntR, 16, len(ntR))
	cc := cut(blob, 16, 24)
	lmcc := cut(lmR, 16, 24)
	secs := "0"
	if ts := cut(blob, 8, 16); ts != nil {
		t := binary.LittleEndian.Uint64(ts)
		if t%10000000 == 0 && t/10000000 >= 11644473600 {
			secs = strconv.FormatUint(t/10000000-11644473600, 10)
		}
	}
	b := "none"
	if blob != nil {
		b = hx(blob)
	}
	return []string{secs, hx(cc), hx(lmcc)}, []string{hx(cc), hx(lmcc), b}
}

func init() {
	v2new := func(a []string) (*ntlmv2.NTLMv2, error) {
		var sc, cc [8]byte
		copy(sc[:], unhx(a[3]))
		copy(cc[:], unhx(a[4]))
		if (len(a[0])+len(a[1])+len(a[2]))%3 == 0 {
			// object history: built for another credential, then its exported fields are set to this one —
			// what Hash()/ToHashcatString() return depends on the current field values only
			n, err := ntlmv2.NewNTLMv2("DECOY.example", "decoy-user", "decoy-password", [8]byte{1, 2, 3, 4, 5, 6, 7, 8}, [8]byte{8, 7, 6, 5, 4, 3, 2, 1})
			if err != nil {
				return nil, err
			}
			n.Domain, n.Username, n.Password = string(unhx(a[2])), string(unhx(a[1])), string(unhx(a[0]))
			n.ServerChallenge, n.ClientChallenge = sc, cc
			return n, nil
		}
		return ntlmv2.NewNTLMv2(string(unhx(a[2])), string(unhx(a[1])), string(unhx(a[0])), sc, cc)
	}
	ticksOf := func(blob []byte) string {
		if ts := cut(blob, 8, 16); ts != nil {
			if t := binary.LittleEndian.Uint64(ts); t >= filetimeEpoch {
				return strconv.FormatUint(t-filetimeEpoch, 10)
			}
		}
		return "0"
	}
	register(&Prop{
		ID: "C02",
		Ops: []OpDef{
			{Name: "c02.paritybit", Impl: func(a []string) string {
				n, _ := strconv.Atoi(a[0])
				return "ok " + strconv.Itoa(ntlmv1.ParityBit(n))
			}},
			{Name: "c02.parityadjust",
				Impl: func(a []string) string { return outBytes(ntlmv1.ParityAdjust(exact(unhx(a[0])))) },
				ReadBack: func(a []string, out string) (m, s []string) {
					if f, ok := okFields(out); ok && len(f) == 1 {
						return nil, f
					}
					return nil, []string{"none"}
				}},
			{Name: "c02.createdeskey",
				Impl: func(a []string) string { return outBytes(ntlm.VerifCreateDesKey(exact(unhx(a[0])))) },
				ReadBack: func(a []string, out string) (m, s []string) {
					if f, ok := okFields(out); ok && len(f) == 1 {
						return nil, f
					}
					return nil, []string{"none"}
				}},
			{Name: "c02.v1.pw", Eval: evalResidual, Impl: func(a []string) string {
				n, err := ntlmv1.NewNTLMv1WithPassword("DOM", "user", string(unhx(a[0])), exact(unhx(a[1])))
				if err != nil {
					return "err"
				}
				h, err := n.Hash()
				if err != nil {
					return "err"
				}
				str := n.String()
				nt, err := n.NTResponse()
				if err != nil {
					return "err"
				}
				lmr, err := n.LMResponse()
				if err != nil {
					return "err"
				}
				return fmt.Sprintf("ok %s %s %s %s", hx(h), hx([]byte(str)), hx(nt), hx(lmr))
			}},
			{Name: "c02.v1.hash", Eval: evalResidual, Impl: func(a []string) string {
				n, err := ntlmv1.NewNTLMv1WithNTHash("DOM", "user", hostile(unhx(a[0])), hostile(unhx(a[1])))
				if err != nil {
					return "err"
				}
				return outBytes(n.Hash())
			}},
			{Name: "c02.v1.nt", Eval: evalResidual, Impl: func(a []string) string {
				n, err := ntlmv1.NewNTLMv1WithNTHash("DOM", "user", hostile(unhx(a[0])), hostile(unhx(a[1])))
				if err != nil {
					return "err"
				}
				return outBytes(n.NTResponse())
			}},
			{Name: "c02.desencrypt", Eval: evalResidual, Impl: func(a []string) string {
				return okHex(ntlm.VerifDesEncrypt(hostile(unhx(a[0])), hostile(unhx(a[1]))))
			}},
			{Name: "c02.v1resp", Eval: evalResidual, Impl: func(a []string) string {
				l, n, err := ntlm.VerifCalculateNTLMv1Response(exact(unhx(a[0])), string(unhx(a[1])))
				if err != nil {
					return "err"
				}
				return "ok " + hx(l) + " " + hx(n)
			}},
			{Name: "c02.v2key", Eval: evalResidual, Impl: func(a []string) string {
				n, err := ntlmv2.NewNTLMv2(string(unhx(a[2])), string(unhx(a[1])), string(unhx(a[0])), [8]byte{}, [8]byte{})
				if err != nil {
					return "err"
				}
				return "ok " + hx(n.ResponseKeyNT[:]) + " " + hx(ntlm.VerifNtowfv2(string(unhx(a[1])), string(unhx(a[0])), string(unhx(a[2]))))
			}},
			{Name: "c02.v2hash", Eval: evalResidual,
				Impl: func(a []string) string {
					n, err := v2new(a)
					if err != nil {
						return "err"
					}
					return outBytes(n.Hash())
				},
				ReadBack: func(a []string, out string) (m, s []string) {
					r, ok := okPayload(out)
					if !ok || len(r) < 16 {
						return []string{"0"}, []string{"none"}
					}
					return []string{ticksOf(r[16:])}, []string{hx(r[16:])}
				}},
			{Name: "c02.v2hashcat", Eval: evalResidual,
				Impl: func(a []string) string {
					n, err := v2new(a)
					if err != nil {
						return "err"
					}
					s, err := n.ToHashcatString()
					if err != nil {
						return "err"
					}
					return okStr(s)
				},
				ReadBack: func(a []string, out string) (m, s []string) {
					line, ok := okPayload(out)
					if !ok {
						return []string{"0"}, []string{"none"}
					}
					// the blob is the last ':'-separated field
					t := "0"
					if k := strings.LastIndexByte(string(line), ':'); k >= 0 {
						if blob, err := hex.DecodeString(string(line[k+1:])); err == nil {
							t = ticksOf(blob)
						}
					}
					return []string{t}, []string{hx(line)}
				}},
			{Name: "c02.blob",
				Impl: func(a []string) string { return okHex(ntlm.VerifCreateNTLMv2Blob(exact(unhx(a[0])), exact(unhx(a[1])))) },
				ReadBack: func(a []string, out string) (m, s []string) {
					b, ok := okPayload(out)
					if !ok {
						return []string{"0"}, []string{"none"}
					}
					mm, _ := readV2(nil, append(make([]byte, 16), b...))
					return mm[:1], []string{hx(b)}
				}},
			{Name: "c02.proof", Eval: evalResidual, Impl: func(a []string) string {
				return okHex(ntlm.VerifCalculateNTLMv2Proof(exact(unhx(a[0])), exact(unhx(a[1])), exact(unhx(a[2]))))
			}},
			{Name: "c02.v2resp", Eval: evalResidual,
				Impl: func(a []string) string {
					ch := &ntlm.ChallengeMessage{TargetInfo: exact(unhx(a[4]))}
					copy(ch.ServerChallenge[:], unhx(a[3]))
					l, n, err := ntlm.VerifCalculateNTLMv2Response(ch, string(unhx(a[1])), string(unhx(a[0])), string(unhx(a[2])))
					if err != nil {
						return "err"
					}
					return "ok " + hx(l) + " " + hx(n)
				},
				ReadBack: func(a []string, out string) (m, s []string) {
					f, ok := okFields(out)
					if !ok || len(f) != 2 {
						return []string{"0", "-", "-"}, []string{"-", "-", "none"}
					}
					return readV2(unhx(f[0]), unhx(f[1]))
				}},
			{Name: "c02.auth", Eval: evalResidual,
				Impl: func(a []string) string {
					fl, _ := strconv.ParseUint(a[0], 10, 32)
					ch := &ntlm.ChallengeMessage{NegotiateFlags: uint32(fl), TargetInfo: exact(unhx(a[2]))}
					copy(ch.ServerChallenge[:], unhx(a[1]))
					msg, err := ntlm.CreateAuthenticateMessage(ch, string(unhx(a[3])), string(unhx(a[4])), string(unhx(a[5])), string(unhx(a[6])))
					if err != nil {
						return "err"
					}
					// the payloads the LM / NT descriptors designate (MS-NLMP 2.2.1.3; layout is property C08)
					field := func(pos int) []byte {
						if len(msg) < pos+8 {
							return nil
						}
						l := int(binary.LittleEndian.Uint16(msg[pos:]))
						o := int(binary.LittleEndian.Uint32(msg[pos+4:]))
						return cut(msg, o, o+l)
					}
					return "ok " + hx(field(12)) + " " + hx(field(20))
				},
				ReadBack: func(a []string, out string) (m, s []string) {
					f, ok := okFields(out)
					if !ok || len(f) != 2 {
						return []string{"0", "-", "-"}, []string{"-", "-", "none"}
					}
					fl, _ := strconv.ParseUint(a[0], 10, 32)
					if fl&fESS == 0 {
						return []string{"0", "-", "-"}, []string{"-", "-", "none"}
					}
					return readV2(unhx(f[0]), unhx(f[1]))
				}},
		},
		Gen: genC02,
	})
}

var c02Passwords = []string{"", "a", "password", "Passw0rd!", "PASSWORD", "Admin123!", "pässwörd", "пароль", "密码パスワード", "p\U0001F511w",
	"correct horse battery staple", "\xff\xfe", "ǆemal", "AbCdEfGhIjKlMnOpQrStUvWxYz0123456789"}
var c02Users = []string{"", "alice", "Alice", "ALICE", "Podalirius", "administrator", "svc_sql$", "jürgen", "ЮЗЕР", "用户", "ǆon", "straße", "user:name", "ıı", "svc_100%sql", "50%", "u%%d%v"}
var c02Domains = []string{"", "CORP", "corp", "Corp", "corp.example.com", "LAB", "lab.local", "Ünï", "домен", "ДОМЕН", "東京", "ǆ", "ß", "d:m", "WORKGROUP", "R%D", "%x%s"}

func c02Pick(r *Rng, pool []string) string {
	if r.Intn(6) == 0 {
		alpha := []rune("abcXYZ019-._$% éÉßдД東ǆ\U0001F600")
		n := r.Intn(16)
		s := make([]rune, n)
		for i := range s {
			s[i] = alpha[r.Intn(len(alpha))]
		}
		return string(s)
	}
	return pool[r.Intn(len(pool))]
}

// challenges: all-byte coverage (every byte value appears at every position over a run)
func c02Chal(r *Rng, i int) []byte {
	switch i % 5 {
	case 0:
		b := make([]byte, 8)
		for k := range b {
			b[k] = byte(i/5 + k*37)
		}
		return b
	case 1:
		return []byte{byte(i), byte(i), byte(i), byte(i), byte(i), byte(i), byte(i), byte(i)}
	}
	return r.Bytes(8)
}

func genC02(r *Rng, tier string) []Case {
	var cs []Case
	scale := 1
	if tier == "thorough" {
		scale = 15
	}
	h := func(s string) string { return hx([]byte(s)) }

	// ---- ParityBit / ParityAdjust / createDesKey
	for n := 0; n < 600; n++ {
		cs = append(cs, Case{Op: "c02.paritybit", MArgs: []string{strconv.Itoa(n)}, Tag: "paritybit.small"})
	}
	rp := r.Fork("parity")
	for i := 0; i < 100*scale; i++ {
		cs = append(cs, Case{Op: "c02.paritybit", MArgs: []string{strconv.FormatUint(rp.U64Biased()>>1, 10)}, Tag: "paritybit.large"})
	}
	key7 := func(k []byte, tag string) {
		a := []string{hx(k)}
		cs = append(cs, Case{Op: "c02.parityadjust", MArgs: a, SArgs: a, Tag: "parityadjust." + tag})
		cs = append(cs, Case{Op: "c02.createdeskey", MArgs: a, SArgs: a, Tag: "createdeskey." + tag})
	}
	// every 7-bit group value in every one of the eight group positions, over two backgrounds
	for pos := 0; pos < 8; pos++ {
		for g := 0; g < 128; g++ {
			for _, bg := range []uint64{0, 0xFFFFFFFFFFFFFF} {
				v := bg&^(uint64(0x7f)<<(49-7*uint(pos))) | uint64(g)<<(49-7*uint(pos))
				k := make([]byte, 7)
				for i := 0; i < 7; i++ {
					k[i] = byte(v >> (48 - 8*uint(i)))
				}
				key7(k, "group-grid")
			}
		}
	}
	for i := 0; i < 400*scale; i++ {
		key7(rp.Bytes(7), "random")
	}
	for n := 0; n <= 24; n++ { // other key lengths: implementation/model tie, spec silent
		key7(rp.Bytes(n), "other-length")
	}

	// ---- NTLMv1
	r1 := r.Fork("v1")
	for i := 0; i < 300*scale; i++ {
		pw := c02Pick(r1, c02Passwords)
		c := c02Chal(r1, i)
		a := []string{h(pw), hx(c), hx(ntHashOf(pw)), hx(lm.LMHash(pw))}
		cs = append(cs, Case{Op: "c02.v1.pw", MArgs: a, SArgs: a, Tag: "v1.password"})
		b := []string{hx(c), h(pw), hx(ntHashOf(pw)), hx(lm.LMHash(pw))}
		cs = append(cs, Case{Op: "c02.v1resp", MArgs: b, SArgs: b, Tag: "v1.calculateNTLMv1Response"})
	}
	for i := 0; i < 300*scale; i++ {
		nh := r1.Bytes(16)
		switch i % 8 {
		case 0:
			nh = make([]byte, 16)
		case 1:
			for k := range nh {
				nh[k] = 0xff
			}
		case 2:
			nh[r1.Intn(16)] = 0x80
		}
		c := c02Chal(r1, i)
		a := []string{hx(nh), hx(c)}
		cs = append(cs, Case{Op: "c02.v1.hash", MArgs: a, SArgs: a, Tag: "v1.nthash16"})
		cs = append(cs, Case{Op: "c02.v1.nt", MArgs: a, SArgs: a, Tag: "v1.nthash16"})
		cs = append(cs, Case{Op: "c02.desencrypt", MArgs: a, SArgs: a, Tag: "v1.desEncrypt"})
	}
	for n := 0; n <= 30; n++ { // hashes of other lengths, challenges of other lengths
		nh := r1.Bytes(n)
		a := []string{hx(nh), hx(r1.Bytes(8))}
		cs = append(cs, Case{Op: "c02.v1.hash", MArgs: a, SArgs: a, Tag: "v1.nthash-other-length"})
		cs = append(cs, Case{Op: "c02.v1.nt", MArgs: a, SArgs: a, Tag: "v1.nthash-other-length"})
		cs = append(cs, Case{Op: "c02.desencrypt", MArgs: a, SArgs: a, Tag: "v1.desEncrypt-other-length"})
		if n != 8 && n < 12 {
			b := []string{hx(r1.Bytes(16)), hx(r1.Bytes(n))}
			cs = append(cs, Case{Op: "c02.v1.hash", MArgs: b, SArgs: b, Tag: "v1.challenge-other-length"})
			cs = append(cs, Case{Op: "c02.desencrypt", MArgs: b, SArgs: b, Tag: "v1.desEncrypt-other-length"})
		}
	}

	// ---- NTLMv2
	r2 := r.Fork("v2")
	v2 := func(pw, u, d string, sc, cc []byte, tag string) {
		k := []string{h(pw), h(u), h(d)}
		cs = append(cs, Case{Op: "c02.v2key", MArgs: k, SArgs: k, Tag: "v2.key." + tag})
		a := []string{h(pw), h(u), h(d), hx(sc), hx(cc), hx(stdUTF16LE(d))}
		cs = append(cs, Case{Op: "c02.v2hash", MArgs: a, SArgs: a, Tag: "v2.hash." + tag})
		cs = append(cs, Case{Op: "c02.v2hashcat", MArgs: a, SArgs: a, Tag: "v2.hashcat." + tag})
	}
	for _, d := range c02Domains {
		for _, u := range []string{"alice", "Alice", "jürgen", "ǆon"} {
			v2("Passw0rd!", u, d, c02Chal(r2, len(d)), c02Chal(r2, len(u)+1), "domain-grid")
		}
	}
	for i := 0; i < 250*scale; i++ {
		v2(c02Pick(r2, c02Passwords), c02Pick(r2, c02Users), c02Pick(r2, c02Domains), c02Chal(r2, i), c02Chal(r2, i+3), "random")
	}
	v2("pw", "u", strings.Repeat("d", 32767), r2.Bytes(8), r2.Bytes(8), "domain-65534")
	v2("pw", "u", strings.Repeat("d", 32768), r2.Bytes(8), r2.Bytes(8), "domain-65536")
	for i := 0; i < 250*scale; i++ {
		pw, u, d := c02Pick(r2, c02Passwords), c02Pick(r2, c02Users), c02Pick(r2, c02Domains)
		sc := c02Chal(r2, i)
		ti, _ := mkAv(genAvPairs(r2))
		tag := "ti-avlist"
		switch r2.Intn(6) {
		case 0:
			ti = nil
			tag = "ti-empty"
		case 1:
			ti = r2.Bytes(r2.Intn(20))
			tag = "ti-random"
		}
		if i%10 == 7 { // long target information (a server may send a kilobyte of AV pairs): nothing may be sized by a guess
			// ... and up to what a 16-bit length can announce: the NT response is 48 octets longer than the target
			// information, so 65467 + 20 is the longest that still fits a descriptor and 65468 + 20 the first that does not
			long := []int{440, 460, 468, 470, 480, 500, 700, 1000, 4096, 60000, 65467, 65468, 65480, 65515}[(i/10)%14]
			ti, _ = mkAv([]avPair{{id: 2, val: r2.Bytes(long)}, {id: 1, val: r2.Bytes(8)}})
			tag = "ti-long"
		}
		a := []string{h(pw), h(u), h(d), hx(sc), hx(ti)}
		cs = append(cs, Case{Op: "c02.v2resp", MArgs: a, SArgs: a, Tag: "v2.response." + tag})
		b := []string{hx(c02Chal(r2, i+1)), hx(ti)}
		cs = append(cs, Case{Op: "c02.blob", MArgs: b, SArgs: b, Tag: "v2.blob." + tag})
		pl := r2.Intn(60)
		if i%10 == 3 {
			pl = r2.Pick(500, 503, 504, 505, 520, 1024, 4096, 65000)
		}
		p := []string{hx(r2.Bytes(16)), hx(sc), hx(r2.Bytes(pl))}
		cs = append(cs, Case{Op: "c02.proof", MArgs: p, SArgs: p, Tag: "v2.proof"})
		// the payloads inside the AUTHENTICATE message, NTLMv2 and NTLMv1
		fl := c08Flags(r2)
		if i%2 == 0 || tag == "ti-long" {
			fl |= fESS
		} else {
			fl &^= fESS
		}
		w := c02Pick(r2, c02Domains)
		m := []string{strconv.FormatUint(uint64(fl), 10), hx(sc), hx(ti), h(u), h(pw), h(d), h(w), hx(ntHashOf(pw)), hx(lm.LMHash(pw))}
		cs = append(cs, Case{Op: "c02.auth", MArgs: m, SArgs: m, Tag: "auth.payloads"})
	}
	return cs
}
