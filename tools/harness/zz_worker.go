package main

// Isolation of operations whose real-code call can die with an *unrecoverable* fatal error
// (stack overflow from unbounded recursion, e.g. DNS pointer chasing without the "strictly
// backwards" guard) or spin for ever.  Such ops are registered through isolate(): the parent
// harness forwards them to a pool of worker child processes (this same executable with
// VERIF_HARNESS_WORKER=1).  A worker that dies is reported as a panic of that one op (with the
// tail of its stderr as the stack, so the innermost repo function is still extracted), a worker
// that does not answer within the per-op timeout is killed and the op reported as `timeout`;
// the run continues with a fresh worker.  Results travel over fd 3, never stdout (repo code prints).
//
// The file name sorts last so that its init runs after every cXX.go has registered its ops.

import (
	"bufio"
	"fmt"
	"io"
	"os"
	"os/exec"
	"runtime"
	"runtime/debug"
	"strings"
	"sync"
	"time"
)

var isolatedOps = map[string]ImplFunc{}

// ops that ran in a worker and allocated more than the audit's allowance for their input
type workerAlloc struct {
	op, args string
	bytes    uint64
}

var workerAllocEvents []workerAlloc

const workerOpTimeout = 10 * time.Second

// isolate registers the raw implementation under its op name and returns the forwarding stub.
func isolate(name string, f ImplFunc) ImplFunc {
	isolatedOps[name] = f
	return func(args []string) string { return workerCall(name, args) }
}

func init() {
	if os.Getenv("VERIF_HARNESS_WORKER") == "" {
		return
	}
	debug.SetMaxStack(64 << 20) // make runaway recursion die quickly instead of eating 1 GB first
	out := os.NewFile(3, "results")
	in := bufio.NewReaderSize(os.Stdin, 1<<20)
	w := bufio.NewWriter(out)
	for {
		line, err := in.ReadString('\n')
		if err != nil {
			os.Exit(0)
		}
		toks := strings.Split(strings.TrimRight(line, "\n"), " ")
		f, ok := isolatedOps[toks[0]]
		res := "bad-worker-op"
		if ok {
			// a worker runs one op at a time: what it allocates meanwhile is the op's (allocation audit, engine.go)
			var ms runtime.MemStats
			runtime.ReadMemStats(&ms)
			before := ms.TotalAlloc
			res = func() (r string) {
				defer func() {
					if e := recover(); e != nil {
						r = "panic\t" + strings.ReplaceAll(fmt.Sprintf("%v\n%s", e, debug.Stack()), "\n", "\x1e")
					}
				}()
				return f(toks[1:])
			}()
			runtime.ReadMemStats(&ms)
			// results held in this process (holdOutput) that a later call here has written over: reported to the parent
			heldMu.Lock()
			sweepHeld()
			for _, ev := range aliasEvents {
				res += "\talias=" + ev.hexv + ":" + hx(ev.b)
			}
			aliasEvents = nil
			heldMu.Unlock()
			res += fmt.Sprintf("\talloc=%d", ms.TotalAlloc-before)
		}
		w.WriteString(res)
		w.WriteByte('\n')
		w.Flush()
	}
}

type worker struct {
	cmd    *exec.Cmd
	stdin  io.WriteCloser
	res    *bufio.Reader
	stderr *tailBuf
}

type tailBuf struct {
	mu  sync.Mutex
	buf []byte
}

func (t *tailBuf) Write(p []byte) (int, error) {
	t.mu.Lock()
	defer t.mu.Unlock()
	// keep the head (the fatal message and the innermost frames come first)
	if len(t.buf) < 16<<10 {
		n := 16<<10 - len(t.buf)
		if n > len(p) {
			n = len(p)
		}
		t.buf = append(t.buf, p[:n]...)
	}
	return len(p), nil
}
func (t *tailBuf) String() string { t.mu.Lock(); defer t.mu.Unlock(); return string(t.buf) }

var (
	workerPool   = make(chan *worker, 256)
	workerDeaths int
	workerMu     sync.Mutex
)

func startWorker() (*worker, error) {
	exe, err := os.Executable()
	if err != nil {
		return nil, err
	}
	pr, pw, err := os.Pipe()
	if err != nil {
		return nil, err
	}
	cmd := exec.Command(exe)
	cmd.Env = append(os.Environ(), "VERIF_HARNESS_WORKER=1")
	cmd.ExtraFiles = []*os.File{pw}
	tb := &tailBuf{}
	cmd.Stderr = tb
	cmd.Stdout = io.Discard
	stdin, err := cmd.StdinPipe()
	if err != nil {
		return nil, err
	}
	if err := cmd.Start(); err != nil {
		return nil, err
	}
	pw.Close()
	return &worker{cmd: cmd, stdin: stdin, res: bufio.NewReaderSize(pr, 1<<20), stderr: tb}, nil
}

func (w *worker) kill() {
	w.stdin.Close()
	w.cmd.Process.Kill()
	w.cmd.Wait()
}

func workerCall(name string, args []string) string {
	var w *worker
	select {
	case w = <-workerPool:
	default:
		var err error
		w, err = startWorker()
		if err != nil {
			panic("harness: cannot start worker: " + err.Error())
		}
	}
	type reply struct {
		line string
		err  error
	}
	ch := make(chan reply, 1)
	go func() {
		if _, err := io.WriteString(w.stdin, name+" "+strings.Join(args, " ")+"\n"); err != nil {
			ch <- reply{"", err}
			return
		}
		line, err := w.res.ReadString('\n')
		ch <- reply{strings.TrimRight(line, "\n"), err}
	}()
	select {
	case r := <-ch:
		if r.err != nil {
			// the worker died under this op: fatal error in the real code
			w.cmd.Wait()
			workerMu.Lock()
			workerDeaths++
			workerMu.Unlock()
			msg := w.stderr.String()
			w.kill()
			panic("fatal error in worker process (unrecoverable in-process): " + msg)
		}
		workerPool <- w
		if i := strings.LastIndex(r.line, "\talloc="); i >= 0 {
			var n uint64
			fmt.Sscanf(r.line[i+7:], "%d", &n)
			r.line = r.line[:i]
			in := 0
			for _, x := range args {
				in += len(x)
			}
			for {
				k := strings.LastIndex(r.line, "\talias=")
				if k < 0 {
					break
				}
				if p := strings.SplitN(r.line[k+7:], ":", 2); len(p) == 2 {
					heldMu.Lock()
					aliasEvents = append(aliasEvents, heldOut{b: unhx(p[1]), hexv: p[0]})
					heldMu.Unlock()
				}
				r.line = r.line[:k]
			}
			if n > allocAllowance(uint64(in/2+1)) {
				workerMu.Lock()
				workerAllocEvents = append(workerAllocEvents, workerAlloc{name, strings.Join(args, " "), n})
				workerMu.Unlock()
			}
		}
		if strings.HasPrefix(r.line, "panic\t") {
			panic("panic in worker process: " + strings.ReplaceAll(r.line[6:], "\x1e", "\n"))
		}
		return r.line
	case <-time.After(workerOpTimeout):
		w.kill()
		return "timeout"
	}
}

func stopWorkers() {
	for {
		select {
		case w := <-workerPool:
			w.kill()
		default:
			return
		}
	}
}
