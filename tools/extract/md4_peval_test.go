package main

import (
	"os"
	"path/filepath"
	"strings"
	"testing"
)

// The partial evaluator behind fact Md4Kernel (md4_peval.go): every file under testdata/md4/harmless is a
// behaviour-preserving rewrite of crypto/md4/md4.go (the two seeded ones and further spellings; each passes
// the package's own tests) and must regenerate exactly the module of the unrolled original; every file under
// testdata/md4/breaking is a near miss in the same spellings (one shift, word index, bound, rotation,
// argument order, aliasing rule … changed, or something the evaluator must not accept) and must be refused or
// regenerate a different module.  B7 (a table another function writes), B9 (input-dependent shift), B11 (closure
// created in a loop) and B13 must be REFUSED.
func runMd4Fact(t *testing.T, src string) (string, error) {
	t.Helper()
	dir := t.TempDir()
	pkg := filepath.Join(dir, "crypto", "md4")
	if err := os.MkdirAll(pkg, 0o755); err != nil {
		t.Fatal(err)
	}
	data, err := os.ReadFile(src)
	if err != nil {
		t.Fatal(err)
	}
	if err := os.WriteFile(filepath.Join(pkg, "md4.go"), data, 0o644); err != nil {
		t.Fatal(err)
	}
	lean, _, err := md4Kernel(dir)
	return lean, err
}

func TestMd4KernelNormalisations(t *testing.T) {
	want, err := runMd4Fact(t, "testdata/md4/original.go.txt")
	if err != nil {
		t.Fatalf("original: %v", err)
	}
	if !strings.Contains(want, "def stepCount : Nat := 48") {
		t.Fatalf("original: unexpected module")
	}
	hs, _ := filepath.Glob("testdata/md4/harmless/*.go.txt")
	bs, _ := filepath.Glob("testdata/md4/breaking/*.go.txt")
	if len(hs) < 10 || len(bs) < 15 {
		t.Fatalf("test data missing: %d harmless, %d breaking", len(hs), len(bs))
	}
	for _, f := range hs {
		got, err := runMd4Fact(t, f)
		if err != nil {
			t.Errorf("%s: refused: %v", f, err)
		} else if got != want {
			t.Errorf("%s: regenerates a different module", f)
		}
	}
	mustRefuse := map[string]bool{"B7_table_mutated_elsewhere": true, "B9_data_dependent": true, "B11_closure_in_loop": true, "B13_constexpr_wordsize": true}
	for _, f := range bs {
		name := strings.TrimSuffix(filepath.Base(f), ".go.txt")
		got, err := runMd4Fact(t, f)
		if err == nil && got == want {
			t.Errorf("%s: accepted with the model of the original", f)
		}
		if mustRefuse[name] && err == nil {
			t.Errorf("%s: must be refused", f)
		}
	}
}
