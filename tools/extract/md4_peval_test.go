package main

import (
	"os"
	"path/filepath"
	"strings"
	"testing"
)

// The partial evaluator behind fact Md4Kernel (md4_peval.go): every file under testdata/md4/harmless is a
// behaviour-preserving rewrite of crypto/md4/md4.go (the two seeded ones and further spellings; each passes
// the package's own tests) and must regenerate exactly the module of the unrolled original; every file under
// testdata/md4/breaking is a near miss in the same spellings (one shift, word index, bound, rotation,
// argument order, aliasing rule … changed, or something the evaluator must not accept) and must be refused or
// regenerate a different module.  B7 (a table another function writes), B9 (input-dependent shift), B11 (closure
// created in a loop) and B13 must be REFUSED.
//
// The boolean part of ff/gg/hh (md4_bitfn.go, N9–N11): seeded_C01-h6 and Hj…Hm spell F, G, H in other equivalent ways
// (textbook forms, `&^`, XOR of products, De Morgan duals, one-line helpers calling helpers, named typed and untyped
// constants) and must regenerate the same truth-table names; B17…B25 are near misses (one `&` turned into `|`, the
// arguments of the helper in another order, a complement dropped, a named constant one off, `&` for `^`, a multiplexer
// the wrong way round) that must name another table, and B21 (a shift inside the boolean part), B22 (a table over five
// words), B24 (complement by XOR with 0xFFFFFFFE) must be REFUSED.  B26 is harmless (`|` of disjoint words written `+`)
// and not recognised: it regenerates another module.
func runMd4Fact(t *testing.T, src string) (string, error) {
	t.Helper()
	dir := t.TempDir()
	pkg := filepath.Join(dir, "crypto", "md4")
	if err := os.MkdirAll(pkg, 0o755); err != nil {
		t.Fatal(err)
	}
	data, err := os.ReadFile(src)
	if err != nil {
		t.Fatal(err)
	}
	if err := os.WriteFile(filepath.Join(pkg, "md4.go"), data, 0o644); err != nil {
		t.Fatal(err)
	}
	lean, _, err := md4Kernel(dir)
	return lean, err
}

func TestMd4KernelNormalisations(t *testing.T) {
	want, err := runMd4Fact(t, "testdata/md4/original.go.txt")
	if err != nil {
		t.Fatalf("original: %v", err)
	}
	if !strings.Contains(want, "def stepCount : Nat := 48") {
		t.Fatalf("original: unexpected module")
	}
	hs, _ := filepath.Glob("testdata/md4/harmless/*.go.txt")
	bs, _ := filepath.Glob("testdata/md4/breaking/*.go.txt")
	if len(hs) < 16 || len(bs) < 27 {
		t.Fatalf("test data missing: %d harmless, %d breaking", len(hs), len(bs))
	}
	for _, f := range hs {
		got, err := runMd4Fact(t, f)
		if err != nil {
			t.Errorf("%s: refused: %v", f, err)
		} else if got != want {
			t.Errorf("%s: regenerates a different module", f)
		}
	}
	mustRefuse := map[string]bool{"B7_table_mutated_elsewhere": true, "B9_data_dependent": true, "B11_closure_in_loop": true, "B13_constexpr_wordsize": true,
		"B21_shift_in_boolean_part": true, "B22_five_words": true, "B24_almost_all_ones": true}
	for _, f := range bs {
		name := strings.TrimSuffix(filepath.Base(f), ".go.txt")
		got, err := runMd4Fact(t, f)
		if err == nil && got == want {
			t.Errorf("%s: accepted with the model of the original", f)
		}
		if mustRefuse[name] && err == nil {
			t.Errorf("%s: must be refused", f)
		}
	}
}

// The algebraic normal form written for a truth table has that truth table (all 2+4+16+256 tables over 0..3 words), and
// different tables get different forms.
func TestBitfnANF(t *testing.T) {
	for k := 0; k <= 3; k++ {
		n := uint(1) << uint(k)
		seen := map[string]uint{}
		for tt := uint(0); tt < 1<<n; tt++ {
			masks := anfMasks(k, tt)
			for row := uint(0); row < n; row++ {
				var v uint
				for _, mk := range masks {
					if mk&row == mk {
						v ^= 1
					}
				}
				if v != (tt>>row)&1 {
					t.Fatalf("k=%d table %#x row %d: normal form gives %d", k, tt, row, v)
				}
			}
			if k > 0 {
				def := bitfnDef("f", k, tt)
				body := def[strings.LastIndex(def, ":= "):]
				if o, dup := seen[body]; dup {
					t.Fatalf("k=%d: tables %#x and %#x have the same text %s", k, o, tt, body)
				}
				seen[body] = tt
			}
		}
	}
}
