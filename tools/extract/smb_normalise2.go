package main

// Second group of normalisations in front of the SmbCommands recogniser (see smb_normalise.go for the contract: general
// program equivalences, side conditions checked syntactically, untouched when undecidable — the recogniser then refuses).
//
// Marshal side:
//
//	M7  statically false block.  `IsAndX()` is a constant of the structure (read off its one-line body).  In a structure
//	    whose IsAndX returns false the prologue's `if c.IsAndX() { … }` never runs: present or absent is the same, and the
//	    dialect's form (present) is restored.  For an AndX structure nothing is added: a missing block is a refusal.
//	M8  hoisted accessor.  `p := c.GetParameters()` / `d := c.GetData()` (pure getters of the embedded command), assigned
//	    once, with no `SetParameters(`/`SetData(` behind it, is the call itself wherever `p` / `d` stands.
//	M9  `c.F[0]|c.F[1]|…|c.F[n-1] != 0` over ALL n elements of a field declared `[n]T`, each exactly once, joined by `|`
//	    only, is `c.F != [n]T{0, …, 0}` (an integer OR is zero iff every operand is).  `&`, `+`, `^`, a missing or a
//	    repeated element are not touched (and so refused): an AND is not the same test, a sum can wrap to zero.
//	M10 head of a growing slice.  `x := make([]byte, N[, cap])` (N a positive constant, cap capacity-only) whose first N
//	    bytes are written at constant offsets (M6 tiles, exact tiling) and which is then grown by `x = append(x, …)` is the
//	    empty slice followed by the appends of the tiles in offset order, standing where the first append stands.
//	    Staleness is now judged per field: a tile is stale only if a statement that may change THE FIELD IT READS
//	    (`c.F = …`, `c.F.Marshal()`, `c.F.SetBufferFormat(…)`; any other unknown statement counts for every field) stands
//	    between its write and the use.
//	M11 a `range` loop over a field declared `[n]T` whose body only writes into an M6 buffer at offsets linear in the
//	    index is its unrolling (index replaced by 0…n-1, element by `c.F[k]`); `len(c.F)` of such a field is n.  When the
//	    tiles of a buffer contain the run `uintW(c.F[0]) … uintW(c.F[n-1])` of one width and byte order, in this order
//	    and contiguous, the run is emitted as the dialect's loop `for _, v := range c.F { … }` (same bytes, same order).
//	M12 explicit byte stores `b[i] = byte(c.F >> s)` (also through `uintW(c.F)`) into an M6 buffer: w contiguous bytes of
//	    one field with shifts 0,8,…,8(w-1) ascending are `binary.LittleEndian.PutUintW`, descending
//	    `binary.BigEndian.PutUintW`; w must be 2, 4 or 8 and the shifts exactly these.  Anything else is refused.
//
// Unmarshal side:
//
//	U1' `if err := f(…); err != nil { … }` defines only `err`: split like the assignment form (the recognised shapes never
//	    read a stale `err`).
//	U2' pointer parameters: an argument `&c.F` whose parameter the callee only ever dereferences is the field itself
//	    (`*p` becomes `c.F`); callees with the single result `error` are inlined like the others.
//	U8  shrinking slice.  `r := b` taken where the cursor is 0 (next to `offset := 0` / `offset = 0`), afterwards only
//	    re-sliced by `r = r[k:]` (constant k) directly beside `offset += k`, the cursor assigned nowhere else while `r`
//	    lives, keeps r == b[offset:].  Then `len(r)` is `len(b)-offset`, `r[i]` is `b[offset+i]`, `r[i:j]` is
//	    `b[offset+i : offset+j]`, and the re-slice itself does nothing more than the increment — PROVIDED it cannot panic:
//	    a guard `if len(r) < n { return … }` with n >= k must stand in front of it in the same list with no other re-slice
//	    in between.  A re-slice by another width than the increment, an unguarded re-slice, any other use of `r`: refused.
//	U9  byte assembly.  `T(b[offset]) | T(b[offset+1])<<8 | …` with w = 2, 4, 8 operands, every index offset+0…offset+w-1
//	    exactly once, T one integer type of exactly w bytes, joined by `|`, shifts 8·i (ascending) is
//	    `T(binary.LittleEndian.UintW(b[offset : offset+w]))`, shifts 8·(w-1-i) the BigEndian form; likewise
//	    `UintW(b[offset:])` is `UintW(b[offset : offset+w])`.  Both only directly behind a guard `len(b) < offset+n`,
//	    n >= w: without it the indexed / open-ended read panics at len(b) where the windowed read reaches into the capacity
//	    (which the model follows), so the two are the same only where the guard has excluded it.  Wrong shift, wrong
//	    order, `+` for `|`, a narrower T: refused.
//	U10 a closure whose body is one `return e` with e free of effects (arithmetic, comparisons, `len`, conversions), called
//	    with effect-free arguments, is e with the arguments in place of the parameters, evaluated where the call stands.
//	U11 an integer temporary `t := e` (e effect-free) defined once and used in the statements behind it, none of which
//	    assigns anything e reads before the last use, is e.

import (
	"fmt"
	"go/ast"
	"go/token"
	"os"
	"regexp"
	"strconv"
	"strings"
)

func onlyErrDefined(as *ast.AssignStmt) bool {
	if as.Tok != token.DEFINE {
		return false
	}
	for _, l := range as.Lhs {
		id, ok := l.(*ast.Ident)
		if !ok || (id.Name != "err" && id.Name != "_") {
			return false
		}
	}
	return true
}

// onlyDereferenced: every occurrence of p in n is the operand of a `*p`
func (nz *normaliser) onlyDereferenced(n ast.Node, p string) bool {
	stars := 0
	ast.Inspect(n, func(x ast.Node) bool {
		if st, ok := x.(*ast.StarExpr); ok {
			if id, ok := st.X.(*ast.Ident); ok && id.Name == p {
				stars++
			}
		}
		return true
	})
	return stars > 0 && countIdent(n, p) == stars && nz.assignCount(n, p) == 0
}

// pureExpr: arithmetic / comparison over literals, identifiers, field selections, len() and conversions
func (nz *normaliser) pureExpr(e ast.Expr) bool {
	switch t := e.(type) {
	case *ast.BasicLit, *ast.Ident:
		return true
	case *ast.ParenExpr:
		return nz.pureExpr(t.X)
	case *ast.SelectorExpr:
		return nz.pureExpr(t.X)
	case *ast.BinaryExpr:
		switch t.Op {
		case token.QUO, token.REM, token.SHL, token.SHR: // may panic
			return false
		}
		return nz.pureExpr(t.X) && nz.pureExpr(t.Y)
	case *ast.CallExpr:
		f := nz.s(t.Fun)
		if len(t.Args) != 1 || t.Ellipsis != token.NoPos {
			return false
		}
		if f == "len" || reConvName.MatchString(f) {
			return nz.pureExpr(t.Args[0])
		}
		// pure getters of the embedded command, as the dialect itself uses them
		return false
	}
	return false
}

// fixedArrayLen: n when c.F is declared [n]T
func fixedArrayLen(c *jCmd, f string) (int, string) {
	m := regexp.MustCompile(`^\[(\d+)\]([\w.]+)$`).FindStringSubmatch(fieldType(c, f))
	if m == nil {
		return 0, ""
	}
	n, _ := strconv.Atoi(m[1])
	return n, m[2]
}

// ---------------------------------------------------------------------------------------------
// Marshal

// marshalPrelude: M7 (dead AndX block restored), M8 (accessor aliases registered for substitution)
func (nz *normaliser) marshalPrelude(fd *ast.FuncDecl, list []ast.Stmt, c *jCmd, st *mstate) []ast.Stmt {
	// M8
	for i, s := range list {
		as, ok := s.(*ast.AssignStmt)
		if !ok || as.Tok != token.DEFINE || len(as.Lhs) != 1 || len(as.Rhs) != 1 {
			continue
		}
		id, isId := as.Lhs[0].(*ast.Ident)
		r := nz.s(as.Rhs[0])
		if !isId || (r != "c.GetParameters()" && r != "c.GetData()") || nz.assignCount(fd.Body, id.Name) != 1 {
			continue
		}
		ok = true
		for _, later := range list[i+1:] {
			t := nz.s(later)
			if strings.Contains(t, "SetParameters(") || strings.Contains(t, "SetData(") {
				ok = false
			}
		}
		if ok {
			st.alias[id.Name] = r
		}
	}
	// M7
	if !c.IsAndX {
		has, at := false, -1
		for i, s := range list {
			t := nz.s(s)
			if strings.HasPrefix(t, "if c.IsAndX() {") {
				has = true
			}
			if t == marshalPrologue[2] {
				at = i
			}
		}
		if !has && at >= 0 {
			nl := append([]ast.Stmt{}, list[:at+1]...)
			nl = append(nl, nz.parseStmts("if c.IsAndX() {\nif c.GetAndX() == nil {\nc.SetAndX(andx.NewAndX())\nc.GetAndX().AndXCommand = codes.SMB_COM_NO_ANDX_COMMAND\n}\nfor _, parameter := range c.GetAndX().GetParameters() {\nc.GetParameters().AddWord(parameter)\n}\n}", posOf(list[at]))...)
			nl = append(nl, list[at+1:]...)
			return nl
		}
	}
	return list
}

// orOfAllElements (M9): cond is `c.F[0]|…|c.F[n-1] != 0` over every element of a fixed array field, `|` only
func (nz *normaliser) orOfAllElements(cond ast.Expr, c *jCmd) (string, bool) {
	be, ok := cond.(*ast.BinaryExpr)
	if !ok || be.Op != token.NEQ || !regexp.MustCompile(`^(0|0x0+)$`).MatchString(nz.s(be.Y)) {
		return "", false
	}
	var terms []ast.Expr
	var collect func(e ast.Expr) bool
	collect = func(e ast.Expr) bool {
		switch t := e.(type) {
		case *ast.ParenExpr:
			return collect(t.X)
		case *ast.BinaryExpr:
			if t.Op != token.OR {
				return false
			}
			return collect(t.X) && collect(t.Y)
		}
		terms = append(terms, e)
		return true
	}
	if !collect(be.X) || len(terms) < 2 {
		return "", false
	}
	field := ""
	seen := map[int]bool{}
	for _, t := range terms {
		m := regexp.MustCompile(`^c\.(\w+)\[(\d+)\]$`).FindStringSubmatch(nz.s(t))
		if m == nil || (field != "" && field != m[1]) {
			return "", false
		}
		field = m[1]
		k, _ := strconv.Atoi(m[2])
		if seen[k] {
			return "", false
		}
		seen[k] = true
	}
	n, elt := fixedArrayLen(c, field)
	if n == 0 || len(seen) != n {
		return "", false
	}
	for k := 0; k < n; k++ {
		if !seen[k] {
			return "", false
		}
	}
	zeros := strings.TrimSuffix(strings.Repeat("0, ", n), ", ")
	return fmt.Sprintf("c.%s != [%d]%s{%s}", field, n, elt, zeros), true
}

// ---------------------------------------------------------------------------------------------
// Unmarshal

// U10
func (nz *normaliser) exprClosures(fd *ast.FuncDecl, list []ast.Stmt) []ast.Stmt {
	type ec struct {
		params []string
		expr   string
	}
	found := map[string]*ec{}
	var rest []ast.Stmt
	for _, s := range list {
		if as, ok := s.(*ast.AssignStmt); ok && as.Tok == token.DEFINE && len(as.Lhs) == 1 && len(as.Rhs) == 1 {
			if fl, ok := as.Rhs[0].(*ast.FuncLit); ok && len(fl.Body.List) == 1 && fl.Type.Results != nil && len(fl.Type.Results.List) == 1 {
				id := as.Lhs[0].(*ast.Ident)
				rs, isRet := fl.Body.List[0].(*ast.ReturnStmt)
				if isRet && len(rs.Results) == 1 && nz.pureExpr(rs.Results[0]) && nz.assignCount(fd.Body, id.Name) == 1 && nz.s(fl.Type.Results.List[0].Type) != "error" {
					e := &ec{expr: nz.printNode(rs.Results[0])}
					okP := true
					for _, f := range fl.Type.Params.List {
						if _, variadic := f.Type.(*ast.Ellipsis); variadic || len(f.Names) == 0 {
							okP = false
						}
						for _, n := range f.Names {
							e.params = append(e.params, n.Name)
						}
					}
					if okP {
						found[id.Name] = e
						continue
					}
				}
			}
		}
		rest = append(rest, s)
	}
	if len(found) == 0 {
		return list
	}
	out := make([]ast.Stmt, len(rest))
	for i, s := range rest {
		uses := false
		for n := range found {
			if countIdent(s, n) > 0 {
				uses = true
			}
		}
		if !uses {
			out[i] = s
			continue
		}
		cp := nz.clone(s)
		rewriteExprs(cp, func(e ast.Expr) (ast.Expr, bool) {
			ce, ok := e.(*ast.CallExpr)
			if !ok {
				return nil, false
			}
			id, ok := ce.Fun.(*ast.Ident)
			if !ok || found[id.Name] == nil {
				return nil, false
			}
			f := found[id.Name]
			if len(ce.Args) != len(f.params) || ce.Ellipsis != token.NoPos {
				fail(nz.fset, s, "call of the closure %s with the wrong number of arguments", id.Name)
			}
			m := map[string]string{}
			for k, a := range ce.Args {
				if !nz.pureExpr(a) {
					fail(nz.fset, s, "argument of the closure %s is not free of effects: %s", id.Name, nz.s(a))
				}
				m[f.params[k]] = nz.printNode(a)
			}
			body := nz.parseExprText(f.expr)
			holder := &ast.ParenExpr{X: body}
			nz.substIdents(holder, m)
			return holder, true
		})
		flatten(cp, posOf(s))
		stripParens(cp)
		for n := range found {
			if countIdent(cp, n) > 0 {
				fail(nz.fset, s, "closure %s is used other than by calling it", n)
			}
		}
		out[i] = cp
	}
	return out
}

// stripParens removes parentheses that change nothing: around a whole condition, an operand of a comparison or of `&&`/`||`
// when it is itself tighter, a slice bound, an assigned value
func stripParens(n ast.Node) {
	un := func(e ast.Expr) ast.Expr {
		for {
			p, ok := e.(*ast.ParenExpr)
			if !ok {
				return e
			}
			e = p.X
		}
	}
	cmp := map[token.Token]bool{token.LSS: true, token.GTR: true, token.LEQ: true, token.GEQ: true, token.EQL: true, token.NEQ: true}
	ast.Inspect(n, func(x ast.Node) bool {
		switch t := x.(type) {
		case *ast.IfStmt:
			t.Cond = un(t.Cond)
		case *ast.BinaryExpr:
			if cmp[t.Op] {
				for _, side := range []*ast.Expr{&t.X, &t.Y} {
					if inner, ok := un(*side).(*ast.BinaryExpr); !ok || (!cmp[inner.Op] && inner.Op != token.LAND && inner.Op != token.LOR) {
						*side = un(*side)
					}
				}
			}
			if t.Op == token.LAND || t.Op == token.LOR {
				for _, side := range []*ast.Expr{&t.X, &t.Y} {
					if inner, ok := un(*side).(*ast.BinaryExpr); !ok || (inner.Op != token.LOR && inner.Op != token.LAND) {
						*side = un(*side)
					}
				}
			}
		case *ast.SliceExpr:
			if t.Low != nil {
				t.Low = un(t.Low)
			}
			if t.High != nil {
				t.High = un(t.High)
			}
		case *ast.AssignStmt:
			for i := range t.Rhs {
				t.Rhs[i] = un(t.Rhs[i])
			}
		}
		return true
	})
}

// U11
func (nz *normaliser) intTemps(l []ast.Stmt) []ast.Stmt {
	out := append([]ast.Stmt{}, l...)
	changed := false
	for i := 0; i < len(out); i++ {
		as, ok := out[i].(*ast.AssignStmt)
		if !ok || as.Tok != token.DEFINE || len(as.Lhs) != 1 || len(as.Rhs) != 1 {
			continue
		}
		t, ok := as.Lhs[0].(*ast.Ident)
		if !ok || t.Name == "offset" || t.Name == "padLen" || !nz.pureExpr(as.Rhs[0]) {
			continue
		}
		if _, isBin := as.Rhs[0].(*ast.BinaryExpr); !isBin {
			continue // only arithmetic over the cursor and fields (`end := offset + int(c.N)`); plain copies are left alone
		}
		if countIdent(as.Rhs[0], "offset") == 0 {
			continue
		}
		last := -1
		for k := i + 1; k < len(out); k++ {
			if countIdent(out[k], t.Name) > 0 {
				last = k
			}
		}
		if last < 0 {
			continue
		}
		reads := identsOf(as.Rhs[0])
		var fields []string
		ast.Inspect(as.Rhs[0], func(x ast.Node) bool {
			if se, ok := x.(*ast.SelectorExpr); ok {
				fields = append(fields, nz.s(se))
				return false
			}
			return true
		})
		okUse := true
		for k := i + 1; k <= last; k++ {
			if nz.assignCount(out[k], t.Name) > 0 {
				okUse = false
			}
			if k < last || true {
				// nothing e reads may be assigned before the last use has been evaluated: the last statement may assign
				// only on its left side, which is evaluated after its right side
				storesLast := "" // U11': `x = …t…` / `x += …t…` as the last use: the right side is evaluated before x is stored
				if as2, ok := out[k].(*ast.AssignStmt); ok && k == last && (as2.Tok == token.ASSIGN || as2.Tok == token.ADD_ASSIGN) && len(as2.Lhs) == 1 && len(as2.Rhs) == 1 {
					if id, ok := as2.Lhs[0].(*ast.Ident); ok && nz.assignCount(as2.Rhs[0], id.Name) == 0 {
						storesLast = id.Name
					}
				}
				for n := range reads {
					if n != "c" && n != storesLast && nz.assignCount(out[k], n) > 0 {
						okUse = false
					}
				}
				for _, f := range fields {
					if regexp.MustCompile(regexp.QuoteMeta(f)+`\b[^.\w]* (=|\+=|-=)[^=]`).MatchString(nz.s(out[k])) && k < last {
						okUse = false
					}
				}
			}
			switch out[k].(type) {
			case *ast.ForStmt, *ast.RangeStmt:
				if countIdent(out[k], t.Name) > 0 {
					okUse = false
				}
			}
		}
		if !okUse {
			continue
		}
		expr := nz.printNode(as.Rhs[0])
		for k := i + 1; k <= last; k++ {
			if countIdent(out[k], t.Name) == 0 {
				continue
			}
			cp := nz.clone(out[k])
			nz.substIdents(cp, map[string]string{t.Name: expr})
			stripParens(cp)
			out[k] = cp
		}
		out = append(out[:i], out[i+1:]...)
		i--
		changed = true
	}
	if !changed {
		return l
	}
	return out
}

// U8
func (nz *normaliser) shrinkingSlice(list []ast.Stmt) []ast.Stmt {
	for i, s := range list {
		as, ok := s.(*ast.AssignStmt)
		if !ok || as.Tok != token.DEFINE || len(as.Lhs) != 1 || len(as.Rhs) != 1 {
			continue
		}
		r, ok1 := as.Lhs[0].(*ast.Ident)
		b, ok2 := as.Rhs[0].(*ast.Ident)
		if !ok1 || !ok2 || !regexp.MustCompile(`^raw(Parameters|Data)Content$`).MatchString(b.Name) {
			continue
		}
		// the cursor is 0 here
		zero := func(k int) bool {
			if k < 0 || k >= len(list) {
				return false
			}
			t := nz.s(list[k])
			return t == "offset := 0" || t == "offset = 0"
		}
		if !zero(i-1) && !zero(i+1) {
			continue
		}
		start := i + 1
		if zero(i + 1) {
			start = i + 2
		}
		rest := list[start:]
		// the view lives up to the last statement that mentions it; what follows is not concerned
		last := -1
		for k, x := range rest {
			if countIdent(x, r.Name) > 0 {
				last = k
			}
		}
		// … including the increment that belongs to a final re-slice
		if last >= 0 && last+1 < len(rest) && regexp.MustCompile(`^offset \+= \d+$`).MatchString(nz.s(rest[last+1])) && strings.HasPrefix(nz.s(rest[last]), r.Name+" = ") {
			last++
		}
		tail := rest[last+1:]
		rest = rest[:last+1]
		if res, ok := nz.shrinkRewrite(rest, r.Name, b.Name); ok {
			out := append([]ast.Stmt{}, list[:i]...)
			out = append(out, list[i+1:start]...)
			out = append(out, res...)
			out = append(out, tail...)
			return out
		}
		if os.Getenv("NORM_DEBUG") != "" {
			for _, x := range rest {
				fmt.Fprintln(os.Stderr, "  |", nz.s(x))
			}
		}
		fail(nz.fset, s, "Unmarshal: %s := %s is not used as a shrinking view of the block beside the cursor (U8 in smb_normalise2.go)", r.Name, b.Name)
	}
	return list
}

func (nz *normaliser) shrinkRewrite(rest []ast.Stmt, r, b string) ([]ast.Stmt, bool) {
	reRe := regexp.MustCompile(`^` + r + ` = ` + r + `\[(\d+):\]$`)
	reInc := regexp.MustCompile(`^offset \+= (\d+)$`)
	reGuard := regexp.MustCompile(`^if len\(` + r + `\) < (\d+) \{ return .* \}$`)
	ok := true
	pairs, incs := 0, 0
	var walk func(l []ast.Stmt) []ast.Stmt
	walk = func(l []ast.Stmt) []ast.Stmt {
		var out []ast.Stmt
		guard := 0 // the bound of the last guard on len(r) in this list since the last re-slice
		for i := 0; i < len(l); i++ {
			t := nz.s(l[i])
			if m := reGuard.FindStringSubmatch(t); m != nil {
				guard, _ = strconv.Atoi(m[1])
			}
			if m := reRe.FindStringSubmatch(t); m != nil {
				k, _ := strconv.Atoi(m[1])
				if guard < k {
					ok = false
				}
				guard = 0
				// the increment stands directly beside it
				if i+1 < len(l) && nz.s(l[i+1]) == "offset += "+m[1] {
					pairs++
					continue // the increment follows and is kept
				}
				if i > 0 && nz.s(l[i-1]) == "offset += "+m[1] && len(out) > 0 {
					pairs++
					continue
				}
				ok = false
				continue
			}
			if reInc.MatchString(t) {
				incs++
			}
			out = append(out, l[i])
		}
		// nested blocks
		for i, s := range out {
			var body *ast.BlockStmt
			switch t := s.(type) {
			case *ast.IfStmt:
				if t.Else != nil {
					if countIdent(t.Else, r) > 0 || nz.assignCount(t.Else, "offset") > 0 {
						ok = false
					}
				}
				body = t.Body
			case *ast.ForStmt:
				body = t.Body
				if countIdent(s, r) > 0 || nz.assignCount(s, "offset") > 0 {
					ok = false // a loop would need the invariant at its head: not attempted
				}
			case *ast.RangeStmt:
				body = t.Body
				if countIdent(s, r) > 0 || nz.assignCount(s, "offset") > 0 {
					ok = false
				}
			}
			if body != nil && (countIdent(body, r) > 0 || nz.assignCount(body, "offset") > 0) {
				nb := walk(body.List)
				cp := nz.clone(s)
				switch t := cp.(type) {
				case *ast.IfStmt:
					t.Body.List = nb
				}
				out[i] = cp
			}
		}
		return out
	}
	res := walk(rest)
	if !ok {
		return nil, false
	}
	// the cursor moves only with the view, the block is not replaced
	total := 0
	for _, s := range rest {
		total += nz.assignCount(s, "offset")
		if nz.assignCount(s, b) > 0 {
			return nil, false
		}
	}
	if total != pairs || incs != pairs {
		return nil, false
	}
	// uses of the view
	bad := false
	for i, s := range res {
		if countIdent(s, r) == 0 {
			continue
		}
		cp := nz.clone(s)
		rewriteExprs(cp, func(e ast.Expr) (ast.Expr, bool) {
			at := func(x ast.Expr) (string, bool) {
				if x == nil {
					return "offset", true
				}
				v, ok := nz.constInt(x, nil)
				if !ok || v < 0 {
					return "", false
				}
				if v == 0 {
					return "offset", true
				}
				return fmt.Sprintf("offset+%d", v), true
			}
			switch t := e.(type) {
			case *ast.CallExpr:
				if nz.s(t.Fun) == "len" && len(t.Args) == 1 && nz.s(t.Args[0]) == r {
					return &ast.ParenExpr{X: nz.parseExprText("len(" + b + ")-offset")}, true
				}
			case *ast.IndexExpr:
				if nz.s(t.X) == r {
					if p, ok := at(t.Index); ok {
						return nz.parseExprText(b + "[" + p + "]"), true
					}
					bad = true
				}
			case *ast.SliceExpr:
				if nz.s(t.X) == r && t.Max == nil {
					lo, ok1 := at(t.Low)
					if t.High == nil && ok1 {
						return nz.parseExprText(b + "[" + lo + ":]"), true
					}
					hi, ok2 := at(t.High)
					if ok1 && ok2 {
						return nz.parseExprText(b + "[" + lo + ":" + hi + "]"), true
					}
					bad = true
				}
			}
			return nil, false
		})
		if countIdent(cp, r) > 0 {
			bad = true
		}
		flatten(cp, posOf(s))
		stripParens(cp)
		res[i] = cp
	}
	if bad {
		return nil, false
	}
	return res, true
}

// U9
func (nz *normaliser) byteAssembly(l []ast.Stmt) []ast.Stmt {
	reG := regexp.MustCompile(`^if len\((\w+)\) < offset\+(\d+) \{ return .* \}$`)
	out := append([]ast.Stmt{}, l...)
	changed := false
	for i := 1; i < len(out); i++ {
		as, ok := out[i].(*ast.AssignStmt)
		if !ok || as.Tok != token.ASSIGN || len(as.Lhs) != 1 || len(as.Rhs) != 1 {
			continue
		}
		g := reG.FindStringSubmatch(nz.s(out[i-1]))
		if g == nil {
			continue
		}
		blk := g[1]
		bound, _ := strconv.Atoi(g[2])
		// open-ended read: T(binary.XEndian.UintW(b[offset:]))
		if m := regexp.MustCompile(`^([\w.]+)\(binary\.(Little|Big)Endian\.Uint(16|32|64)\(` + blk + `\[offset:\]\)\)$`).FindStringSubmatch(nz.s(as.Rhs[0])); m != nil {
			bits, _ := strconv.Atoi(m[3])
			if bound >= bits/8 {
				cp := nz.clone(out[i]).(*ast.AssignStmt)
				cp.Rhs[0] = nz.parseExprText(fmt.Sprintf("%s(binary.%sEndian.Uint%d(%s[offset : offset+%d]))", m[1], m[2], bits, blk, bits/8))
				flatten(cp, posOf(out[i]))
				out[i] = cp
				changed = true
			}
			continue
		}
		// OR of shifted bytes
		var terms []ast.Expr
		var collect func(e ast.Expr) bool
		collect = func(e ast.Expr) bool {
			switch t := e.(type) {
			case *ast.ParenExpr:
				return collect(t.X)
			case *ast.BinaryExpr:
				if t.Op == token.OR {
					return collect(t.X) && collect(t.Y)
				}
			}
			terms = append(terms, e)
			return true
		}
		// U9': an outer conversion around the assembly
		outer := ""
		asm := as.Rhs[0]
		if ce, ok := asm.(*ast.CallExpr); ok && len(ce.Args) == 1 && ce.Ellipsis == token.NoPos && reConvName.MatchString(nz.s(ce.Fun)) {
			inner := ce.Args[0]
			for {
				p, ok := inner.(*ast.ParenExpr)
				if !ok {
					break
				}
				inner = p.X
			}
			if be, ok := inner.(*ast.BinaryExpr); ok && be.Op == token.OR {
				outer, asm = nz.s(ce.Fun), inner
			}
		}
		if !collect(asm) {
			continue
		}
		w := len(terms)
		if w != 2 && w != 4 && w != 8 {
			continue
		}
		conv := ""
		shiftAt := map[int]int{}
		okT := true
		for _, t := range terms {
			sh := 0
			x := t
			if be, ok := x.(*ast.BinaryExpr); ok && be.Op == token.SHL {
				v, ok := nz.constInt(be.Y, nil)
				if !ok {
					okT = false
					break
				}
				sh, x = int(v), be.X
			}
			m := regexp.MustCompile(`^([\w.]+)\(` + blk + `\[offset(?:\+(\d+))?\]\)$`).FindStringSubmatch(nz.s(x))
			if m == nil || (conv != "" && conv != m[1]) {
				okT = false
				break
			}
			conv = m[1]
			idx := 0
			if m[2] != "" {
				idx, _ = strconv.Atoi(m[2])
			}
			if _, dup := shiftAt[idx]; dup || idx >= w {
				okT = false
				break
			}
			shiftAt[idx] = sh
		}
		if !okT || len(shiftAt) != w {
			continue
		}
		cw := typeWidth(strings.TrimPrefix(conv, "types."))
		switch conv {
		case "uint16":
			cw = 2
		case "uint32":
			cw = 4
		case "uint64":
			cw = 8
		}
		if cw != w || bound < w {
			continue
		}
		le, be := true, true
		for idx, sh := range shiftAt {
			if sh != 8*idx {
				le = false
			}
			if sh != 8*(w-1-idx) {
				be = false
			}
		}
		order := ""
		switch {
		case le:
			order = "Little"
		case be:
			order = "Big"
		default:
			continue
		}
		if outer != "" {
			// the inner conversion must be the identity on what UintW yields
			if conv != fmt.Sprintf("uint%d", 8*w) {
				continue
			}
			conv = outer
		}
		cp := nz.clone(out[i]).(*ast.AssignStmt)
		cp.Rhs[0] = nz.parseExprText(fmt.Sprintf("%s(binary.%sEndian.Uint%d(%s[offset : offset+%d]))", conv, order, 8*w, blk, w))
		flatten(cp, posOf(out[i]))
		out[i] = cp
		changed = true
	}
	if !changed {
		return l
	}
	return out
}
