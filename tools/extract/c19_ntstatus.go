// Facts C19NtStatus (constants, NTStatusToStringName, String) and C19NtErrors (the ERROR_* values,
// NTStatusToGoErrorMap, Error) of windows/nt_status/nt_status.go.
//
// Recognised shapes:
//
//	const ( NT_STATUS_X NT_STATUS = 0x… … )                       one block, every constant of type NT_STATUS
//	var ( ERROR_X = errors.New("text") … )                        one block
//	var NTStatusToGoErrorMap = map[NT_STATUS]error{ NT_STATUS_X: ERROR_X, … }
//	var NTStatusToStringName = map[NT_STATUS]string{ NT_STATUS_X: "X", … }
//	func (s NT_STATUS) String() string { if str, exists := NTStatusToStringName[s]; exists { return str }; return "LIT" }
//	func (s NT_STATUS) Error() error {
//	  if s == NT_STATUS_SUCCESS { return nil }
//	  if str, exists := NTStatusToGoErrorMap[s]; exists { return fmt.Errorf(FORMAT, uint32(s), str) }
//	  return nil
//	}
//	  — or any arrangement of these tests with the same truth table, and the code rendered by an
//	  expression or helper that means a %x / %0Nx / %X / %d verb: see c19NtErrorBody, c19CodeRender —
//	FORMAT: literal text with exactly one integer verb (%x %X %0Nx %0NX %d, first argument) followed by
//	exactly one of %s %v %w (second argument).
package main

import (
	"fmt"
	"go/ast"
	"go/token"
	"strings"
)

func init() {
	facts["C19NtStatus"] = c19NtStatusFact
	facts["C19NtErrors"] = c19NtErrorsFact
}

const c19NtDir, c19NtFile = "windows/nt_status", "nt_status.go"

type c19nt struct {
	p        *c19pkg
	f        *ast.File
	consts   []C19Const
	nameRows []C19CodeRow
	fallback C19Fallback
	errRows  []C19ErrRow
	success  C19Const
	format   []C19Seg
}

func c19NtLoad(repo string) (*c19nt, error) {
	p, err := c19load(repo, c19NtDir)
	if err != nil {
		return nil, err
	}
	if len(p.names) != 1 || p.names[0] != c19NtFile {
		return nil, fmt.Errorf("%s: expected the single file %s, found %v", c19NtDir, c19NtFile, p.names)
	}
	f := p.files[c19NtFile]
	nt := &c19nt{p: p, f: f}
	if nt.consts, err = p.tableConsts(f, "NT_STATUS", "NT status constants"); err != nil {
		return nil, err
	}
	seen := map[string]bool{}
	for _, c := range nt.consts {
		if seen[c.Ident] {
			return nil, fmt.Errorf("%s: constant %s declared twice", c.Pos, c.Ident)
		}
		seen[c.Ident] = true
		if c.Value>>32 != 0 {
			return nil, fmt.Errorf("%s: %s does not fit uint32", c.Pos, c.Ident)
		}
	}
	// name map + String
	ents, err := p.readMapLiteral(f, "NTStatusToStringName", "NT_STATUS", "string", "NT status name map")
	if err != nil {
		return nil, err
	}
	for _, e := range ents {
		name, err := p.stringLit(e.val)
		if err != nil {
			return nil, err
		}
		nt.nameRows = append(nt.nameRows, C19CodeRow{Key: e.keySrc, Value: e.key, Name: name, Pos: p.pos(e.node)})
	}
	fd, recv, err := p.method(f, "NT_STATUS", "String")
	if err != nil {
		return nil, err
	}
	tmp := &C19CodeTable{}
	if err := c19LookupFunc(p, fd, recv, codeCfg{fn: "String", mapVar: "NTStatusToStringName"}, tmp); err != nil {
		return nil, err
	}
	if tmp.WrapPre != "" || tmp.WrapPost != "" {
		return nil, p.errf(fd, "String: a formatted found branch is not expected here")
	}
	nt.fallback = tmp.Fallback
	p.claimed[fd] = "String"
	// error values
	errText := map[string]string{}
	var errDecl *ast.GenDecl
	for _, d := range f.Decls {
		g, ok := d.(*ast.GenDecl)
		if !ok || g.Tok != token.VAR || len(g.Specs) < 2 {
			continue
		}
		if errDecl != nil {
			return nil, p.errf(g, "second var block")
		}
		errDecl = g
		for _, s := range g.Specs {
			vs := s.(*ast.ValueSpec)
			if len(vs.Names) != 1 || len(vs.Values) != 1 || vs.Type != nil {
				return nil, p.errf(vs, "error value declaration not of the form NAME = errors.New(\"text\")")
			}
			call, ok := vs.Values[0].(*ast.CallExpr)
			if !ok || p.src(call.Fun) != "errors.New" || len(call.Args) != 1 {
				return nil, p.errf(vs, "`%s` is not errors.New(\"text\")", firstLine(p.src(vs.Values[0])))
			}
			txt, err := p.stringLit(call.Args[0])
			if err != nil {
				return nil, err
			}
			if _, dup := errText[vs.Names[0].Name]; dup {
				return nil, p.errf(vs, "%s declared twice", vs.Names[0].Name)
			}
			errText[vs.Names[0].Name] = txt
		}
		p.claimed[g] = "error values"
	}
	if errDecl == nil {
		return nil, fmt.Errorf("%s: block of error values not found", c19NtFile)
	}
	ents, err = p.readMapLiteral(f, "NTStatusToGoErrorMap", "NT_STATUS", "error", "NT status error map")
	if err != nil {
		return nil, err
	}
	for _, e := range ents {
		id, ok := e.val.(*ast.Ident)
		if !ok {
			return nil, p.errf(e.node, "error map value `%s` is not an identifier", p.src(e.val))
		}
		txt, ok := errText[id.Name]
		if !ok {
			// nil or an undeclared value would make Error() return a nil/invalid error: not a shape we model
			return nil, p.errf(e.node, "error map value %s is not one of the errors.New values of this file", id.Name)
		}
		nt.errRows = append(nt.errRows, C19ErrRow{Key: e.keySrc, Value: e.key, ErrVar: id.Name, Text: txt, Pos: p.pos(e.node)})
	}
	// Error()
	ed, recv, err := p.method(f, "NT_STATUS", "Error")
	if err != nil {
		return nil, err
	}
	if ed.Type.Params.NumFields() != 0 || ed.Type.Results.NumFields() != 1 || p.src(ed.Type.Results.List[0].Type) != "error" {
		return nil, p.errf(ed, "Error: expected signature () error")
	}
	if err := c19NtErrorBody(nt, ed, recv); err != nil {
		return nil, err
	}
	p.claimed[ed] = "Error"
	if err := p.leftovers([]string{c19NtFile}, nil, true); err != nil {
		return nil, err
	}
	return nt, nil
}

// ---- NT_STATUS.Error(): normalisations (DESIGN.md §7) ------------------------------------------------------
//
// Normalisation "truth table of the guards".  Canonical form of Error():
//
//	s == SUCCESS            -> nil
//	s in MAP (text v)       -> fmt.Errorf(FORMAT, code, v)
//	otherwise               -> nil
//
// The body may arrange this in any way built from: the comma-ok lookup `v, ok := MAP[s]` (as a statement
// or as the init of an `if`), `if` / `else` / `else if` whose conditions are Boolean combinations (`!`,
// `&&`, `||`, parentheses) of the two atoms `s == CONST` / `s != CONST` and `ok`, `return nil`, and one kind
// of `return fmt.Errorf(…)`.  The body is run symbolically on the four valuations of (s == CONST, ok); it is
// accepted iff (true, _) and (false, false) reach `return nil` and (false, true) reaches the Errorf after the
// lookup — i.e. iff it computes the canonical function.  Both atoms are pure (a comparison, a map read), so
// evaluating them in another order or more often changes nothing.  Any other statement or atom is refused.
type ntEnv struct {
	recv, val, ok string
	success       ast.Expr
}

type ntLeaf struct {
	call *ast.CallExpr // nil: `return nil`
	val  string        // the looked-up value variable in scope at the Errorf
}

func (nt *c19nt) cond(e ast.Expr, env *ntEnv, isSuccess, known bool) (bool, error) {
	p := nt.p
	switch x := unparen(e).(type) {
	case *ast.Ident:
		if env.ok != "" && x.Name == env.ok {
			return known, nil
		}
	case *ast.UnaryExpr:
		if x.Op == token.NOT {
			v, err := nt.cond(x.X, env, isSuccess, known)
			return !v, err
		}
	case *ast.BinaryExpr:
		switch x.Op {
		case token.LAND, token.LOR:
			l, err := nt.cond(x.X, env, isSuccess, known)
			if err != nil {
				return false, err
			}
			r, err := nt.cond(x.Y, env, isSuccess, known)
			if err != nil {
				return false, err
			}
			if x.Op == token.LAND {
				return l && r, nil
			}
			return l || r, nil
		case token.EQL, token.NEQ:
			c := x.Y
			if p.src(unparen(x.X)) != env.recv {
				if p.src(unparen(x.Y)) != env.recv {
					break
				}
				c = x.X
			}
			if _, err := p.constExpr(c); err != nil {
				return false, err
			}
			if env.success == nil {
				env.success = c
			} else if p.src(env.success) != p.src(c) {
				return false, p.errf(e, "Error: the status is compared with two different constants (%s, %s)", p.src(env.success), p.src(c))
			}
			return isSuccess == (x.Op == token.EQL), nil
		}
	}
	return false, p.errf(e, "Error: condition `%s` is not built from `%s == CONST` and the ok of the map lookup", p.src(e), env.recv)
}

func (nt *c19nt) lookupStmt(st ast.Stmt, env *ntEnv) bool {
	as, ok := st.(*ast.AssignStmt)
	if !ok || as.Tok != token.DEFINE || len(as.Lhs) != 2 || len(as.Rhs) != 1 || nt.p.src(as.Rhs[0]) != "NTStatusToGoErrorMap["+env.recv+"]" || env.ok != "" {
		return false
	}
	env.val, env.ok = nt.p.src(as.Lhs[0]), nt.p.src(as.Lhs[1])
	return env.ok != "_" && env.val != "_"
}

// run: the leaf the statements reach under the valuation, or nil if they fall through
func (nt *c19nt) run(stmts []ast.Stmt, env *ntEnv, isSuccess, known bool) (*ntLeaf, error) {
	p := nt.p
	for _, st := range stmts {
		switch x := st.(type) {
		case *ast.AssignStmt:
			if !nt.lookupStmt(x, env) {
				return nil, p.errf(st, "Error: `%s` is not the lookup `v, ok := NTStatusToGoErrorMap[%s]`", p.src(st), env.recv)
			}
		case *ast.ReturnStmt:
			if len(x.Results) != 1 {
				return nil, p.errf(st, "Error: return of %d values", len(x.Results))
			}
			if p.src(x.Results[0]) == "nil" {
				return &ntLeaf{}, nil
			}
			call, ok := x.Results[0].(*ast.CallExpr)
			if !ok || p.src(call.Fun) != "fmt.Errorf" {
				return nil, p.errf(st, "Error: `%s` is neither `return nil` nor `return fmt.Errorf(…)`", p.src(st))
			}
			return &ntLeaf{call: call, val: env.val}, nil
		case *ast.IfStmt:
			inner := *env
			if x.Init != nil && !nt.lookupStmt(x.Init, &inner) {
				return nil, p.errf(st, "Error: `%s` is not the lookup `v, ok := NTStatusToGoErrorMap[%s]`", p.src(x.Init), env.recv)
			}
			c, err := nt.cond(x.Cond, &inner, isSuccess, known)
			if err != nil {
				return nil, err
			}
			env.success = inner.success
			var leaf *ntLeaf
			if c {
				leaf, err = nt.run(x.Body.List, &inner, isSuccess, known)
			} else if x.Else != nil {
				switch e := x.Else.(type) {
				case *ast.BlockStmt:
					leaf, err = nt.run(e.List, &inner, isSuccess, known)
				default:
					leaf, err = nt.run([]ast.Stmt{e}, &inner, isSuccess, known)
				}
			}
			env.success = inner.success
			if err != nil || leaf != nil {
				return leaf, err
			}
		default:
			return nil, p.errf(st, "Error: statement `%s` is not understood", firstLine(p.src(st)))
		}
	}
	return nil, nil
}

func c19NtErrorBody(nt *c19nt, ed *ast.FuncDecl, recv string) error {
	p := nt.p
	var errorf *ntLeaf
	var success ast.Expr
	for _, v := range [][2]bool{{true, true}, {true, false}, {false, false}, {false, true}} {
		env := &ntEnv{recv: recv, success: success}
		leaf, err := nt.run(ed.Body.List, env, v[0], v[1])
		if err != nil {
			return err
		}
		success = env.success
		if leaf == nil {
			return p.errf(ed, "Error: the body can end without a return")
		}
		wantErrorf := !v[0] && v[1]
		if wantErrorf != (leaf.call != nil) {
			return p.errf(ed, "Error: for (status is the success constant: %v, status in NTStatusToGoErrorMap: %v) the body returns %s; expected nil for the success constant and for a status outside the map, the formatted error otherwise",
				v[0], v[1], map[bool]string{true: "the formatted error", false: "nil"}[leaf.call != nil])
		}
		if leaf.call != nil {
			errorf = leaf
		}
	}
	if success == nil {
		return p.errf(ed, "Error: no comparison of the status with a constant")
	}
	sv, err := p.constExpr(success)
	if err != nil {
		return err
	}
	nt.success = C19Const{Ident: p.src(success), Value: sv, Pos: p.pos(success), Type: "NT_STATUS"}
	call := errorf.call
	if errorf.val == "" || len(call.Args) != 3 || p.src(call.Args[2]) != errorf.val {
		return p.errf(call, "Error: `%s` is not fmt.Errorf(FORMAT, <code>, <looked-up error>)", p.src(call))
	}
	format, err := p.stringLit(call.Args[0])
	if err != nil {
		return err
	}
	code := "uint32(" + recv + ")"
	var rendered *C19Seg
	if p.src(call.Args[1]) != code {
		seg, err := p.codeRender(call.Args[1], code, 32, nil, 0)
		if err != nil {
			return fmt.Errorf("%w\n  (the first argument of fmt.Errorf is neither %s nor an expression that renders it as %%x / %%0Nx / %%X / %%d)", err, code)
		}
		rendered = seg
	}
	if nt.format, err = c19ParseFormat(format, rendered); err != nil {
		return p.errf(call, "Error: %v", err)
	}
	return nil
}

// Normalisation "rendered code".  Canonical form: the integer verb of the format (`%x`, `%0Nx`, `%X`, `%d`)
// applied to uint32(s).  Accepted instead: a `%s` / `%v` verb whose argument is a STRING that is provably
// that rendering, built from
//
//	fmt.Sprintf("%x" | "%0Nx" | "%X" | "%0NX" | "%d", X)         the same verb, applied earlier
//	strconv.FormatUint(uint64(X), 16 | 10)                        = %x / %d for an unsigned X
//	strings.ToUpper(E)                                            %x -> %X
//	PAD[len(D):] + D       PAD a literal of N zeros, D := E an unpadded hex rendering: = %0Nx, accepted only
//	                        when the widest value of X's type has at most N digits (otherwise Go panics
//	                        where the verb does not)
//	helper(X)              a function of this package with one integer parameter whose body is
//	                        `[D := E;] return E'` over its parameter
//
// where X is the code (`uint32(s)`, or the helper's parameter).  Everything else is refused.
func (p *c19pkg) codeRender(e ast.Expr, subject string, bits int, bound map[string]*C19Seg, depth int) (*C19Seg, error) {
	e = unparen(e)
	if id, ok := e.(*ast.Ident); ok && bound[id.Name] != nil {
		s := *bound[id.Name]
		return &s, nil
	}
	refuse := func() (*C19Seg, error) {
		return nil, p.errf(e, "`%s` is not a known rendering of `%s`", p.src(e), subject)
	}
	if be, ok := e.(*ast.BinaryExpr); ok && be.Op == token.ADD {
		// PAD[len(D):] + D
		sl, ok := unparen(be.X).(*ast.SliceExpr)
		d, ok2 := unparen(be.Y).(*ast.Ident)
		if !ok || !ok2 || sl.High != nil || sl.Slice3 || sl.Low == nil || p.src(sl.Low) != "len("+d.Name+")" || bound[d.Name] == nil {
			return refuse()
		}
		pad, err := p.stringLit(sl.X)
		if err != nil || pad == "" || strings.Trim(pad, "0") != "" {
			return refuse()
		}
		inner := bound[d.Name]
		if inner.Kind != "hex" || inner.Width != 0 {
			return refuse()
		}
		if maxDigits := (bits + 3) / 4; maxDigits > len(pad) {
			return nil, p.errf(e, "`%s`: a %d-bit value has up to %d hex digits, the pad has %d: the slice can panic", p.src(e), bits, maxDigits, len(pad))
		}
		return &C19Seg{Kind: "hex", Width: len(pad), Upper: inner.Upper}, nil
	}
	call, ok := e.(*ast.CallExpr)
	if !ok {
		return refuse()
	}
	isSubject := func(x ast.Expr) bool {
		s := p.src(unparen(x))
		return s == subject || s == "uint64("+subject+")"
	}
	switch fn := p.src(call.Fun); {
	case fn == "fmt.Sprintf" && len(call.Args) == 2 && p.src(unparen(call.Args[1])) == subject:
		format, err := p.stringLit(call.Args[0])
		if err != nil {
			return refuse()
		}
		segs, err := c19ParseFormat(format+"%s", nil)
		if err != nil || len(segs) != 2 {
			return refuse()
		}
		return &segs[0], nil
	case fn == "strconv.FormatUint" && len(call.Args) == 2 && p.src(unparen(call.Args[0])) == "uint64("+subject+")":
		switch p.src(call.Args[1]) {
		case "16":
			return &C19Seg{Kind: "hex"}, nil
		case "10":
			return &C19Seg{Kind: "dec"}, nil
		}
		return refuse()
	case fn == "strings.ToUpper" && len(call.Args) == 1:
		s, err := p.codeRender(call.Args[0], subject, bits, bound, depth)
		if err != nil || s.Kind != "hex" {
			return refuse()
		}
		s.Upper = true
		return s, nil
	case len(call.Args) == 1 && isSubject(call.Args[0]) && depth == 0:
		// helper of this package
		id, ok := call.Fun.(*ast.Ident)
		if !ok {
			return refuse()
		}
		for _, f := range p.files {
			for _, d := range f.Decls {
				fd, ok := d.(*ast.FuncDecl)
				if !ok || fd.Recv != nil || fd.Name.Name != id.Name {
					continue
				}
				if fd.Type.Params.NumFields() != 1 || len(fd.Type.Params.List[0].Names) != 1 || fd.Type.Results.NumFields() != 1 || p.src(fd.Type.Results.List[0].Type) != "string" {
					return refuse()
				}
				pbits := map[string]int{"uint8": 8, "byte": 8, "uint16": 16, "uint32": 32, "uint64": 64}[p.src(fd.Type.Params.List[0].Type)]
				if pbits == 0 || pbits < bits && p.src(unparen(call.Args[0])) != subject {
					return refuse()
				}
				if p.src(unparen(call.Args[0])) == "uint64("+subject+")" && pbits != 64 {
					return refuse()
				}
				param := fd.Type.Params.List[0].Names[0].Name
				local := map[string]*C19Seg{}
				body := fd.Body.List
				for len(body) > 1 {
					as, ok := body[0].(*ast.AssignStmt)
					if !ok || as.Tok != token.DEFINE || len(as.Lhs) != 1 || len(as.Rhs) != 1 {
						return nil, p.errf(body[0], "helper %s: `%s` is not `d := <rendering>`", id.Name, firstLine(p.src(body[0])))
					}
					seg, err := p.codeRender(as.Rhs[0], param, pbits, local, depth+1)
					if err != nil {
						return nil, err
					}
					local[p.src(as.Lhs[0])] = seg
					body = body[1:]
				}
				rs, ok := body[0].(*ast.ReturnStmt)
				if !ok || len(rs.Results) != 1 {
					return nil, p.errf(body[0], "helper %s: last statement is not a return", id.Name)
				}
				seg, err := p.codeRender(rs.Results[0], param, pbits, local, depth+1)
				if err != nil {
					return nil, err
				}
				p.claimed[fd] = "code rendering helper"
				return seg, nil
			}
		}
	}
	return refuse()
}

// c19ParseFormat: literal text, one integer verb for the code, then one of %s %v %w for the text.  With
// `rendered` (the code is passed as an already rendered string, see codeRender) the first verb must be %s or
// %v and stands for that rendering.
func c19ParseFormat(format string, rendered *C19Seg) ([]C19Seg, error) {
	var segs []C19Seg
	lit := ""
	flush := func() {
		if lit != "" {
			segs = append(segs, C19Seg{Kind: "lit", Lit: lit})
			lit = ""
		}
	}
	nCode, nText := 0, 0
	for i := 0; i < len(format); i++ {
		if format[i] != '%' {
			lit += string(format[i])
			continue
		}
		j := i + 1
		if j < len(format) && format[j] == '%' {
			lit += "%"
			i = j
			continue
		}
		width := 0
		zero := false
		if j < len(format) && format[j] == '0' {
			zero = true
			j++
		}
		for j < len(format) && format[j] >= '0' && format[j] <= '9' {
			width = width*10 + int(format[j]-'0')
			j++
		}
		if j >= len(format) {
			return nil, fmt.Errorf("format %q ends inside a verb", format)
		}
		if width != 0 && !zero {
			return nil, fmt.Errorf("format %q: space-padded width is not modelled", format)
		}
		flush()
		switch format[j] {
		case 'x', 'X':
			if nCode != 0 || nText != 0 || rendered != nil {
				return nil, fmt.Errorf("format %q: the code verb must come first and once", format)
			}
			segs = append(segs, C19Seg{Kind: "hex", Width: width, Upper: format[j] == 'X'})
			nCode++
		case 'd':
			if nCode != 0 || nText != 0 || width != 0 || rendered != nil {
				return nil, fmt.Errorf("format %q: the code verb must come first and once", format)
			}
			segs = append(segs, C19Seg{Kind: "dec"})
			nCode++
		case 's', 'v', 'w':
			if rendered != nil && nCode == 0 && nText == 0 && width == 0 && format[j] != 'w' {
				segs = append(segs, *rendered)
				nCode++
				break
			}
			if nCode != 1 || nText != 0 || width != 0 {
				return nil, fmt.Errorf("format %q: the text verb must follow the code verb, once", format)
			}
			segs = append(segs, C19Seg{Kind: "text"})
			nText++
		default:
			return nil, fmt.Errorf("format %q: verb %%%c is not modelled", format, format[j])
		}
		i = j
	}
	flush()
	if nCode != 1 || nText != 1 {
		return nil, fmt.Errorf("format %q must use both arguments exactly once (code, then text)", format)
	}
	return segs, nil
}

func c19NtStatusFact(repo string) (string, any, error) {
	nt, err := c19NtLoad(repo)
	if err != nil {
		return "", nil, err
	}
	var b strings.Builder
	b.WriteString("import Manticore.Model.C19\nnamespace Manticore.C19.Gen\nopen Manticore.C19\n\n")
	fmt.Fprintf(&b, "/-! windows/nt_status/nt_status.go: %d declared constants, %d rows of NTStatusToStringName -/\n\n", len(nt.consts), len(nt.nameRows))
	var cs, rows []string
	for _, c := range nt.consts {
		cs = append(cs, fmt.Sprintf("nat_lit 0x%08X", c.Value))
	}
	for _, r := range nt.nameRows {
		rows = append(rows, fmt.Sprintf("(nat_lit 0x%08X, %s)", r.Value, leanName(r.Name)))
	}
	leanChunked(&b, "ntConstValues", "Nat", cs)
	leanChunked(&b, "ntNameRows", "Nat × Name", rows)
	fmt.Fprintf(&b, "/-- NT_STATUS.String() -/\ndef tblNtStatus : CodeTable where\n  id := n!\"NtStatus\"\n  bits := 32\n  consts := ntConstValues\n  rows := ntNameRows\n  fallback := %s\n  wrapPre := []\n  wrapPost := []\n\nend Manticore.C19.Gen\n", leanFallback(nt.fallback))
	js := map[string]any{
		"table": C19CodeTable{ID: "NtStatus", File: c19NtDir + "/" + c19NtFile, GoType: "NT_STATUS", Func: "String", Shape: "map", Bits: 32,
			Consts: nt.consts, Rows: nt.nameRows, Fallback: nt.fallback},
	}
	return b.String(), js, nil
}

func c19NtErrorsFact(repo string) (string, any, error) {
	nt, err := c19NtLoad(repo)
	if err != nil {
		return "", nil, err
	}
	var b strings.Builder
	b.WriteString("import Manticore.Model.C19\nnamespace Manticore.C19.Gen\nopen Manticore.C19\n\n")
	fmt.Fprintf(&b, "/-! windows/nt_status/nt_status.go: %d rows of NTStatusToGoErrorMap; the texts are Lean Strings: no theorem looks inside them -/\n\n", len(nt.errRows))
	var rows []string
	for _, r := range nt.errRows {
		s, err := leanString(r.Text)
		if err != nil {
			return "", nil, fmt.Errorf("%s: %v", r.Pos, err)
		}
		rows = append(rows, fmt.Sprintf("(nat_lit 0x%08X, %s)", r.Value, s))
	}
	leanChunked(&b, "ntErrRows", "Nat × String", rows)
	fmt.Fprintf(&b, "/-- `if s == %s { return nil }` -/\ndef ntSuccess : Nat := 0x%X\n\n", nt.success.Ident, nt.success.Value)
	b.WriteString("/-- the fmt.Errorf format of NT_STATUS.Error(), arguments (uint32(s), mapped error) -/\ndef ntErrFormat : List Seg := [")
	for i, s := range nt.format {
		if i > 0 {
			b.WriteString(", ")
		}
		switch s.Kind {
		case "lit":
			b.WriteString(".lit " + leanName(s.Lit))
		case "hex":
			fmt.Fprintf(&b, ".codeHex %d %s", s.Width, leanBool(s.Upper))
		case "dec":
			b.WriteString(".codeDec")
		case "text":
			b.WriteString(".text")
		}
	}
	b.WriteString("]\n\nend Manticore.C19.Gen\n")
	js := map[string]any{"rows": nt.errRows, "success": nt.success, "format": nt.format, "consts": nt.consts}
	return b.String(), js, nil
}
