// Facts C19NtStatus (constants, NTStatusToStringName, String) and C19NtErrors (the ERROR_* values,
// NTStatusToGoErrorMap, Error) of windows/nt_status/nt_status.go.
//
// Recognised shapes:
//
//	const ( NT_STATUS_X NT_STATUS = 0x… … )                       one block, every constant of type NT_STATUS
//	var ( ERROR_X = errors.New("text") … )                        one block
//	var NTStatusToGoErrorMap = map[NT_STATUS]error{ NT_STATUS_X: ERROR_X, … }
//	var NTStatusToStringName = map[NT_STATUS]string{ NT_STATUS_X: "X", … }
//	func (s NT_STATUS) String() string { if str, exists := NTStatusToStringName[s]; exists { return str }; return "LIT" }
//	func (s NT_STATUS) Error() error {
//	  if s == NT_STATUS_SUCCESS { return nil }
//	  if str, exists := NTStatusToGoErrorMap[s]; exists { return fmt.Errorf(FORMAT, uint32(s), str) }
//	  return nil
//	}
//	FORMAT: literal text with exactly one integer verb (%x %X %0Nx %0NX %d, first argument) followed by
//	exactly one of %s %v %w (second argument).
package main

import (
	"fmt"
	"go/ast"
	"go/token"
	"strings"
)

func init() {
	facts["C19NtStatus"] = c19NtStatusFact
	facts["C19NtErrors"] = c19NtErrorsFact
}

const c19NtDir, c19NtFile = "windows/nt_status", "nt_status.go"

type c19nt struct {
	p        *c19pkg
	f        *ast.File
	consts   []C19Const
	nameRows []C19CodeRow
	fallback C19Fallback
	errRows  []C19ErrRow
	success  C19Const
	format   []C19Seg
}

func c19NtLoad(repo string) (*c19nt, error) {
	p, err := c19load(repo, c19NtDir)
	if err != nil {
		return nil, err
	}
	if len(p.names) != 1 || p.names[0] != c19NtFile {
		return nil, fmt.Errorf("%s: expected the single file %s, found %v", c19NtDir, c19NtFile, p.names)
	}
	f := p.files[c19NtFile]
	nt := &c19nt{p: p, f: f}
	blocks := constBlocks(f)
	if len(blocks) != 1 {
		return nil, fmt.Errorf("%s: %d const blocks, expected 1", c19NtFile, len(blocks))
	}
	if nt.consts, err = p.readConstBlock(blocks[0], "NT_STATUS", "NT status constants"); err != nil {
		return nil, err
	}
	seen := map[string]bool{}
	for _, c := range nt.consts {
		if seen[c.Ident] {
			return nil, fmt.Errorf("%s: constant %s declared twice", c.Pos, c.Ident)
		}
		seen[c.Ident] = true
		if c.Value>>32 != 0 {
			return nil, fmt.Errorf("%s: %s does not fit uint32", c.Pos, c.Ident)
		}
	}
	// name map + String
	ents, err := p.readMapLiteral(f, "NTStatusToStringName", "NT_STATUS", "string", "NT status name map")
	if err != nil {
		return nil, err
	}
	for _, e := range ents {
		name, err := p.stringLit(e.val)
		if err != nil {
			return nil, err
		}
		nt.nameRows = append(nt.nameRows, C19CodeRow{Key: e.keySrc, Value: e.key, Name: name, Pos: p.pos(e.node)})
	}
	fd, recv, err := p.method(f, "NT_STATUS", "String")
	if err != nil {
		return nil, err
	}
	tmp := &C19CodeTable{}
	if err := c19LookupFunc(p, fd, recv, codeCfg{fn: "String", mapVar: "NTStatusToStringName"}, tmp); err != nil {
		return nil, err
	}
	if tmp.WrapPre != "" || tmp.WrapPost != "" {
		return nil, p.errf(fd, "String: a formatted found branch is not expected here")
	}
	nt.fallback = tmp.Fallback
	p.claimed[fd] = "String"
	// error values
	errText := map[string]string{}
	var errDecl *ast.GenDecl
	for _, d := range f.Decls {
		g, ok := d.(*ast.GenDecl)
		if !ok || g.Tok != token.VAR || len(g.Specs) < 2 {
			continue
		}
		if errDecl != nil {
			return nil, p.errf(g, "second var block")
		}
		errDecl = g
		for _, s := range g.Specs {
			vs := s.(*ast.ValueSpec)
			if len(vs.Names) != 1 || len(vs.Values) != 1 || vs.Type != nil {
				return nil, p.errf(vs, "error value declaration not of the form NAME = errors.New(\"text\")")
			}
			call, ok := vs.Values[0].(*ast.CallExpr)
			if !ok || p.src(call.Fun) != "errors.New" || len(call.Args) != 1 {
				return nil, p.errf(vs, "`%s` is not errors.New(\"text\")", firstLine(p.src(vs.Values[0])))
			}
			txt, err := p.stringLit(call.Args[0])
			if err != nil {
				return nil, err
			}
			if _, dup := errText[vs.Names[0].Name]; dup {
				return nil, p.errf(vs, "%s declared twice", vs.Names[0].Name)
			}
			errText[vs.Names[0].Name] = txt
		}
		p.claimed[g] = "error values"
	}
	if errDecl == nil {
		return nil, fmt.Errorf("%s: block of error values not found", c19NtFile)
	}
	ents, err = p.readMapLiteral(f, "NTStatusToGoErrorMap", "NT_STATUS", "error", "NT status error map")
	if err != nil {
		return nil, err
	}
	for _, e := range ents {
		id, ok := e.val.(*ast.Ident)
		if !ok {
			return nil, p.errf(e.node, "error map value `%s` is not an identifier", p.src(e.val))
		}
		txt, ok := errText[id.Name]
		if !ok {
			// nil or an undeclared value would make Error() return a nil/invalid error: not a shape we model
			return nil, p.errf(e.node, "error map value %s is not one of the errors.New values of this file", id.Name)
		}
		nt.errRows = append(nt.errRows, C19ErrRow{Key: e.keySrc, Value: e.key, ErrVar: id.Name, Text: txt, Pos: p.pos(e.node)})
	}
	// Error()
	ed, recv, err := p.method(f, "NT_STATUS", "Error")
	if err != nil {
		return nil, err
	}
	if ed.Type.Params.NumFields() != 0 || ed.Type.Results.NumFields() != 1 || p.src(ed.Type.Results.List[0].Type) != "error" {
		return nil, p.errf(ed, "Error: expected signature () error")
	}
	b := ed.Body.List
	if len(b) != 3 {
		return nil, p.errf(ed, "Error: expected 3 statements, found %d", len(b))
	}
	if0, ok := b[0].(*ast.IfStmt)
	if !ok || if0.Init != nil || if0.Else != nil || len(if0.Body.List) != 1 || p.src(if0.Body.List[0]) != "return nil" {
		return nil, p.errf(b[0], "Error: first statement is not `if s == SUCCESS { return nil }`")
	}
	cmp, ok := if0.Cond.(*ast.BinaryExpr)
	if !ok || cmp.Op != token.EQL || p.src(cmp.X) != recv {
		return nil, p.errf(b[0], "Error: `%s` is not `%s == CONST`", p.src(if0.Cond), recv)
	}
	sv, err := p.constExpr(cmp.Y)
	if err != nil {
		return nil, err
	}
	nt.success = C19Const{Ident: p.src(cmp.Y), Value: sv, Pos: p.pos(cmp.Y), Type: "NT_STATUS"}
	if1, ok := b[1].(*ast.IfStmt)
	index := "NTStatusToGoErrorMap[" + recv + "]"
	if !ok || if1.Init == nil || if1.Else != nil || len(if1.Body.List) != 1 {
		return nil, p.errf(b[1], "Error: second statement is not a comma-ok lookup in NTStatusToGoErrorMap")
	}
	as, ok := if1.Init.(*ast.AssignStmt)
	if !ok || as.Tok != token.DEFINE || len(as.Lhs) != 2 || p.src(as.Rhs[0]) != index || p.src(if1.Cond) != p.src(as.Lhs[1]) {
		return nil, p.errf(b[1], "Error: `%s` is not `v, ok := %s; ok`", p.src(if1.Init), index)
	}
	v := p.src(as.Lhs[0])
	rs, ok := if1.Body.List[0].(*ast.ReturnStmt)
	if !ok || len(rs.Results) != 1 {
		return nil, p.errf(b[1], "Error: found branch is not a return")
	}
	call, ok := rs.Results[0].(*ast.CallExpr)
	if !ok || p.src(call.Fun) != "fmt.Errorf" || len(call.Args) != 3 || p.src(call.Args[1]) != "uint32("+recv+")" || p.src(call.Args[2]) != v {
		return nil, p.errf(b[1], "Error: `%s` is not fmt.Errorf(FORMAT, uint32(%s), %s)", p.src(rs.Results[0]), recv, v)
	}
	format, err := p.stringLit(call.Args[0])
	if err != nil {
		return nil, err
	}
	if nt.format, err = c19ParseFormat(format); err != nil {
		return nil, p.errf(call, "Error: %v", err)
	}
	if p.src(b[2]) != "return nil" {
		return nil, p.errf(b[2], "Error: last statement is not `return nil`")
	}
	p.claimed[ed] = "Error"
	if err := p.leftovers([]string{c19NtFile}, nil, true); err != nil {
		return nil, err
	}
	return nt, nil
}

// c19ParseFormat: literal text, one integer verb for the code, then one of %s %v %w for the text
func c19ParseFormat(format string) ([]C19Seg, error) {
	var segs []C19Seg
	lit := ""
	flush := func() {
		if lit != "" {
			segs = append(segs, C19Seg{Kind: "lit", Lit: lit})
			lit = ""
		}
	}
	nCode, nText := 0, 0
	for i := 0; i < len(format); i++ {
		if format[i] != '%' {
			lit += string(format[i])
			continue
		}
		j := i + 1
		if j < len(format) && format[j] == '%' {
			lit += "%"
			i = j
			continue
		}
		width := 0
		zero := false
		if j < len(format) && format[j] == '0' {
			zero = true
			j++
		}
		for j < len(format) && format[j] >= '0' && format[j] <= '9' {
			width = width*10 + int(format[j]-'0')
			j++
		}
		if j >= len(format) {
			return nil, fmt.Errorf("format %q ends inside a verb", format)
		}
		if width != 0 && !zero {
			return nil, fmt.Errorf("format %q: space-padded width is not modelled", format)
		}
		flush()
		switch format[j] {
		case 'x', 'X':
			if nCode != 0 || nText != 0 {
				return nil, fmt.Errorf("format %q: the code verb must come first and once", format)
			}
			segs = append(segs, C19Seg{Kind: "hex", Width: width, Upper: format[j] == 'X'})
			nCode++
		case 'd':
			if nCode != 0 || nText != 0 || width != 0 {
				return nil, fmt.Errorf("format %q: the code verb must come first and once", format)
			}
			segs = append(segs, C19Seg{Kind: "dec"})
			nCode++
		case 's', 'v', 'w':
			if nCode != 1 || nText != 0 || width != 0 {
				return nil, fmt.Errorf("format %q: the text verb must follow the code verb, once", format)
			}
			segs = append(segs, C19Seg{Kind: "text"})
			nText++
		default:
			return nil, fmt.Errorf("format %q: verb %%%c is not modelled", format, format[j])
		}
		i = j
	}
	flush()
	if nCode != 1 || nText != 1 {
		return nil, fmt.Errorf("format %q must use both arguments exactly once (code, then text)", format)
	}
	return segs, nil
}

func c19NtStatusFact(repo string) (string, any, error) {
	nt, err := c19NtLoad(repo)
	if err != nil {
		return "", nil, err
	}
	var b strings.Builder
	b.WriteString("import Manticore.Model.C19\nnamespace Manticore.C19.Gen\nopen Manticore.C19\n\n")
	fmt.Fprintf(&b, "/-! windows/nt_status/nt_status.go: %d declared constants, %d rows of NTStatusToStringName -/\n\n", len(nt.consts), len(nt.nameRows))
	var cs, rows []string
	for _, c := range nt.consts {
		cs = append(cs, fmt.Sprintf("nat_lit 0x%08X", c.Value))
	}
	for _, r := range nt.nameRows {
		rows = append(rows, fmt.Sprintf("(nat_lit 0x%08X, %s)", r.Value, leanName(r.Name)))
	}
	leanChunked(&b, "ntConstValues", "Nat", cs)
	leanChunked(&b, "ntNameRows", "Nat × Name", rows)
	fmt.Fprintf(&b, "/-- NT_STATUS.String() -/\ndef tblNtStatus : CodeTable where\n  id := n!\"NtStatus\"\n  bits := 32\n  consts := ntConstValues\n  rows := ntNameRows\n  fallback := %s\n  wrapPre := []\n  wrapPost := []\n\nend Manticore.C19.Gen\n", leanFallback(nt.fallback))
	js := map[string]any{
		"table": C19CodeTable{ID: "NtStatus", File: c19NtDir + "/" + c19NtFile, GoType: "NT_STATUS", Func: "String", Shape: "map", Bits: 32,
			Consts: nt.consts, Rows: nt.nameRows, Fallback: nt.fallback},
	}
	return b.String(), js, nil
}

func c19NtErrorsFact(repo string) (string, any, error) {
	nt, err := c19NtLoad(repo)
	if err != nil {
		return "", nil, err
	}
	var b strings.Builder
	b.WriteString("import Manticore.Model.C19\nnamespace Manticore.C19.Gen\nopen Manticore.C19\n\n")
	fmt.Fprintf(&b, "/-! windows/nt_status/nt_status.go: %d rows of NTStatusToGoErrorMap; the texts are Lean Strings: no theorem looks inside them -/\n\n", len(nt.errRows))
	var rows []string
	for _, r := range nt.errRows {
		s, err := leanString(r.Text)
		if err != nil {
			return "", nil, fmt.Errorf("%s: %v", r.Pos, err)
		}
		rows = append(rows, fmt.Sprintf("(nat_lit 0x%08X, %s)", r.Value, s))
	}
	leanChunked(&b, "ntErrRows", "Nat × String", rows)
	fmt.Fprintf(&b, "/-- `if s == %s { return nil }` -/\ndef ntSuccess : Nat := 0x%X\n\n", nt.success.Ident, nt.success.Value)
	b.WriteString("/-- the fmt.Errorf format of NT_STATUS.Error(), arguments (uint32(s), mapped error) -/\ndef ntErrFormat : List Seg := [")
	for i, s := range nt.format {
		if i > 0 {
			b.WriteString(", ")
		}
		switch s.Kind {
		case "lit":
			b.WriteString(".lit " + leanName(s.Lit))
		case "hex":
			fmt.Fprintf(&b, ".codeHex %d %s", s.Width, leanBool(s.Upper))
		case "dec":
			b.WriteString(".codeDec")
		case "text":
			b.WriteString(".text")
		}
	}
	b.WriteString("]\n\nend Manticore.C19.Gen\n")
	js := map[string]any{"rows": nt.errRows, "success": nt.success, "format": nt.format, "consts": nt.consts}
	return b.String(), js, nil
}
