package main

// Fourth group of normalisations in front of the SmbCommands recogniser (contract as in smb_normalise.go: general program
// equivalences, side conditions checked on the text, untouched when undecidable — the recogniser then refuses).
//
// Marshal side:
//
//	M13 emission helper.  `x = f(x, a1, …, an)` / `x = f(x, a…, t...)` / `x = f(x, a…, t[:]...)`, f a package-level plain
//	    function of package commands `func f(dst []byte, p1 T1, …[, vs ...T]) []byte` whose body is a list of emission
//	    statements on locals (make / PutUintN / append / AppendUintN, see emissionOnly) and of `for _, v := range vs { emission
//	    statements }` over a slice parameter, followed by the one `return dst`, is the body itself standing at the call
//	    (β-reduction): `dst` is x, a scalar parameter is its argument, `range vs` is `range []T{a…}` for explicit variadic
//	    arguments and `range t` for a spread local `t...` / `t[:]...` (ranging over the full slice of an array or slice
//	    visits the same elements in the same order).  Side conditions: the callee assigns no parameter except `dst`, and
//	    `dst` only as `dst = append(dst, …)` / `dst = binary.<Order>.AppendUintN(dst, …)`; a slice parameter occurs only as
//	    the operand of `range`; the arguments are side-effect-free operands (pureOperand: names, fields, literals,
//	    conversions) that do not mention x, so evaluating them where the parameter stood instead of once at the call reads
//	    the same values (the callee writes only x and its own locals, which are renamed apart); there is no other
//	    `return`.  What the helper emits — widths, byte order, element order — stands in the inlined text and is read there
//	    by the later rules (M3, M4, M14) and the recogniser exactly as from code written in place; mutation epochs of a
//	    spread table are judged by M4 at the inlined loop.
//	M4' (in onlyRanged) a table literal may also be mentioned as `len(t)`: the length of a literal nobody assigns is a
//	    constant and reading it has no effect.  Where that length then matters (anywhere but a capacity) it stays in the
//	    text and is refused there.
//	M14 byte-wise emission of an integer.  A run of w consecutive statements `x = append(x, byte(c.F >> s_k))` (conversion
//	    byte / uint8 / types.UCHAR; `byte(c.F)` is shift 0) on the same stream x and the same field F, F declared as an
//	    integer type of exactly w bytes (w = 2 or 4: USHORT/SHORT, ULONG/LONG), with s_k = 8k for k = 0…w-1 is
//	    `b := make([]byte, w); binary.LittleEndian.PutUintW(b, uintW(c.F)); x = append(x, b...)`, with s_k = 8(w-1-k)
//	    the BigEndian form: byte(v >> 8k) is by definition byte k of v, and PutUintW writes exactly these bytes in
//	    ascending (little-endian) or descending (big-endian) significance.  Nothing stands between the statements of the
//	    run, so all of them read the same value of the field.  A missing or repeated byte, another shift, mixed fields,
//	    a run shorter or longer than the field: not touched (and so refused by the recogniser).
//
// Unmarshal side:
//
//	U15 hoisted accessor (the mirror of M8).  `p := c.GetParameters()` / `d := c.GetData()` at the top level, assigned
//	    once, with no `SetParameters(` / `SetData(` anywhere behind it, is the call itself wherever `p` / `d` stands: the
//	    getters are pure and return the same block every time as long as no setter runs.
//	U16 constant cursor.  Behind the last mention of the cursor and in front of the closing `offset = 0; return offset,
//	    nil` the cursor is DEAD (it is overwritten before anything reads it, and every early `return` in between names
//	    what it hands back itself).  In that region a statement `t := K` (K a constant expression >= 0 over literals and
//	    package constants, t assigned nowhere else and used only up to the next such statement) may therefore be written
//	    `offset = K` with `offset` for `t` in its segment: a store to a dead variable followed by reads of a variable that
//	    holds the same number.  The first store is kept as `offset = K0`; a later one is `offset += Kj-Kj-1` when that
//	    difference is positive (the cursor still holds Kj-1: nothing in a segment assigns it), which is the dialect's
//	    advance between two fields.  The cursor must be reachable by name only (no closure mentions it, `&offset` occurs
//	    nowhere), otherwise "not mentioned" would not mean "not touched".  (When the segments carry different names U5 has not written the closing pair; a body
//	    that mentions `offset` nowhere and ends in `return 0, nil` gets it here.)  The offsets, and with them every bound and index of the segment, stand in the text
//	    as before: `2*i+1` for `2*i` gives `offset = 1`, another stride another advance.
//	U17 dead advance.  `offset += w` directly in front of `offset = 0` is a dead store: present or absent is the same.
//	    Behind a fixed-width integer read `c.F = T(binary.<Order>.UintW(raw…Content[offset : offset+w]))` that stands
//	    directly in front of `offset = 0` the dialect's form (present, by the width read) is restored.

import (
	"fmt"
	"go/ast"
	"go/token"
	"os"
	"regexp"
	"strings"
)

// debugDump: NORM_DEBUG=<structure name> prints the normalised body the recogniser is given (development aid only)
func (nz *normaliser) debugDump(what string, c *jCmd, stmts []ast.Stmt) {
	if os.Getenv("NORM_DEBUG") != c.Name {
		return
	}
	fmt.Fprintf(os.Stderr, "---- %s of %s after normalisation\n", what, c.Name)
	for _, s := range stmts {
		fmt.Fprintln(os.Stderr, "  |", nz.s(s))
	}
}

// emissionHelpers (M13) over a statement list and the blocks nested in it
func (nz *normaliser) emissionHelpers(list []ast.Stmt, used map[string]bool) []ast.Stmt {
	var out []ast.Stmt
	for _, s := range list {
		if in, ok := nz.inlineEmissionHelper(s, used); ok {
			out = append(out, in...)
			continue
		}
		switch t := s.(type) {
		case *ast.IfStmt:
			if t.Else == nil {
				nb := nz.emissionHelpers(t.Body.List, used)
				if !sameStmts(nb, t.Body.List) {
					cp := nz.clone(s).(*ast.IfStmt)
					cp.Body.List = nb
					s = cp
				}
			}
		case *ast.RangeStmt:
			nb := nz.emissionHelpers(t.Body.List, used)
			if !sameStmts(nb, t.Body.List) {
				cp := nz.clone(s).(*ast.RangeStmt)
				cp.Body.List = nb
				s = cp
			}
		}
		out = append(out, s)
	}
	return out
}

func (nz *normaliser) inlineEmissionHelper(s ast.Stmt, used map[string]bool) ([]ast.Stmt, bool) {
	as, ok := s.(*ast.AssignStmt)
	if !ok || as.Tok != token.ASSIGN || len(as.Lhs) != 1 || len(as.Rhs) != 1 {
		return nil, false
	}
	x, ok := as.Lhs[0].(*ast.Ident)
	if !ok {
		return nil, false
	}
	ce, ok := as.Rhs[0].(*ast.CallExpr)
	if !ok || len(ce.Args) < 1 {
		return nil, false
	}
	fn, ok := ce.Fun.(*ast.Ident)
	if !ok {
		return nil, false
	}
	fd := nz.helpers[fn.Name]
	if a0, ok := ce.Args[0].(*ast.Ident); !ok || a0.Name != x.Name || fd == nil || fd.Type.TypeParams != nil {
		return nil, false
	}
	// signature: (dst []byte, p T, …[, vs ...T]) []byte
	ft := fd.Type
	if ft.Results == nil || len(ft.Results.List) != 1 || len(ft.Results.List[0].Names) != 0 || nz.s(ft.Results.List[0].Type) != "[]byte" {
		return nil, false
	}
	type param struct {
		name     string
		variadic bool
		elem     string
	}
	var params []param
	for _, f := range ft.Params.List {
		if len(f.Names) == 0 {
			return nil, false
		}
		for _, n := range f.Names {
			p := param{name: n.Name}
			if el, ok := f.Type.(*ast.Ellipsis); ok {
				p.variadic, p.elem = true, nz.s(el.Elt)
			}
			params = append(params, p)
		}
	}
	if len(params) < 1 || params[0].variadic || nz.s(ft.Params.List[0].Type) != "[]byte" || params[0].name == "_" {
		return nil, false
	}
	dst := params[0].name
	// body: emission statements and emission loops over a slice parameter, then `return dst`
	body := fd.Body.List
	if len(body) < 1 {
		return nil, false
	}
	if rt, ok := body[len(body)-1].(*ast.ReturnStmt); !ok || len(rt.Results) != 1 || nz.s(rt.Results[0]) != dst {
		return nil, false
	}
	body = body[:len(body)-1]
	returns := 0
	ast.Inspect(fd.Body, func(n ast.Node) bool {
		if _, ok := n.(*ast.ReturnStmt); ok {
			returns++
		}
		return true
	})
	if returns != 1 {
		return nil, false
	}
	ranged := map[string]int{}
	for _, b := range body {
		if rs, ok := b.(*ast.RangeStmt); ok {
			id, isId := rs.X.(*ast.Ident)
			v, isV := rs.Value.(*ast.Ident)
			if !isId || !isV || rs.Tok != token.DEFINE || !(rs.Key == nil || nz.s(rs.Key) == "_") || v.Name == "_" {
				return nil, false
			}
			for _, bb := range rs.Body.List {
				if !nz.emissionOnly(bb) || nz.assignCount(bb, v.Name) > 0 {
					return nil, false
				}
			}
			ranged[id.Name]++
			continue
		}
		if !nz.emissionOnly(b) {
			return nil, false
		}
	}
	// dst is assigned only by appending to itself; no other parameter is assigned
	okDst := true
	ast.Inspect(fd.Body, func(n ast.Node) bool {
		a, ok := n.(*ast.AssignStmt)
		if !ok {
			return true
		}
		for _, l := range a.Lhs {
			if id, ok := l.(*ast.Ident); ok && id.Name == dst {
				good := false
				if a.Tok == token.ASSIGN && len(a.Lhs) == 1 && len(a.Rhs) == 1 {
					if c, ok := a.Rhs[0].(*ast.CallExpr); ok && len(c.Args) >= 1 && nz.s(c.Args[0]) == dst && countIdent(a.Rhs[0], dst) == 1 &&
						regexp.MustCompile(`^(append|binary\.(Little|Big)Endian\.AppendUint(16|32|64))$`).MatchString(nz.s(c.Fun)) {
						good = true
					}
				}
				if !good {
					okDst = false
				}
			}
		}
		return true
	})
	if !okDst {
		return nil, false
	}
	// arguments
	subst := map[string]string{dst: x.Name}
	nfixed := len(params) - 1
	last := params[len(params)-1]
	if last.variadic {
		nfixed--
	}
	if len(ce.Args)-1 < nfixed || (!last.variadic && (len(ce.Args)-1 != nfixed || ce.Ellipsis != token.NoPos)) {
		return nil, false
	}
	for i, a := range ce.Args[1:] {
		if !nz.pureOperand(a) || countIdent(a, x.Name) > 0 {
			return nil, false
		}
		if i < nfixed {
			p := params[1+i]
			if nz.assignCount(fd.Body, p.name) > 0 {
				return nil, false
			}
			if ranged[p.name] > 0 {
				return nil, false // a ranged non-variadic slice parameter: not handled
			}
			subst[p.name] = nz.printNode(a)
		}
	}
	if last.variadic {
		if nz.assignCount(fd.Body, last.name) > 0 || countIdent(fd.Body, last.name) != ranged[last.name] {
			return nil, false // the slice parameter occurs elsewhere than under `range`
		}
		rest := ce.Args[1+nfixed:]
		if ce.Ellipsis != token.NoPos {
			if len(rest) != 1 {
				return nil, false
			}
			a := rest[0]
			if se, ok := a.(*ast.SliceExpr); ok {
				a = se.X // pureOperand admits only the full slice t[:]
			}
			id, ok := a.(*ast.Ident)
			if !ok {
				return nil, false
			}
			subst[last.name] = id.Name
		} else {
			if len(rest) == 0 {
				return nil, false
			}
			var el []string
			for _, a := range rest {
				el = append(el, nz.printNode(a))
			}
			subst[last.name] = "[]" + last.elem + "{" + strings.Join(el, ", ") + "}"
		}
	}
	for n := range ranged {
		if n != last.name || !last.variadic {
			return nil, false
		}
	}
	// the callee's own names are renamed apart
	locals := map[string]bool{}
	declaredAnywhere(fd.Body, locals)
	for n := range locals {
		if n == "_" {
			continue
		}
		if _, isParam := subst[n]; isParam {
			return nil, false
		}
		f := nz.fresh(n, used)
		used[f] = true
		subst[n] = f
	}
	var out []ast.Stmt
	for _, b := range body {
		nb := nz.clone(b)
		nz.substIdents(nb, subst)
		// declared names (left sides of :=, range variables) are identifiers, which substIdents replaces like any other
		flatten(nb, posOf(s))
		originPos[nb] = posOf(s)
		out = append(out, nb)
	}
	return out, true
}

// byteRuns (M14) over one statement list
func (nz *normaliser) byteRuns(list []ast.Stmt, st *mstate) []ast.Stmt {
	type bytePush struct {
		stream, field string
		shift         int
	}
	read := func(s ast.Stmt) (bytePush, bool) {
		as, ok := s.(*ast.AssignStmt)
		if !ok || as.Tok != token.ASSIGN || len(as.Lhs) != 1 || len(as.Rhs) != 1 {
			return bytePush{}, false
		}
		x, ok := as.Lhs[0].(*ast.Ident)
		ce, ok2 := as.Rhs[0].(*ast.CallExpr)
		if !ok || !ok2 || nz.s(ce.Fun) != "append" || len(ce.Args) != 2 || ce.Ellipsis != token.NoPos || nz.s(ce.Args[0]) != x.Name {
			return bytePush{}, false
		}
		cv, ok := ce.Args[1].(*ast.CallExpr)
		if !ok || len(cv.Args) != 1 || !regexp.MustCompile(`^(byte|uint8|types\.UCHAR)$`).MatchString(nz.s(cv.Fun)) {
			return bytePush{}, false
		}
		e := cv.Args[0]
		for {
			p, ok := e.(*ast.ParenExpr)
			if !ok {
				break
			}
			e = p.X
		}
		sh := 0
		if be, ok := e.(*ast.BinaryExpr); ok {
			if be.Op != token.SHR {
				return bytePush{}, false
			}
			v, ok := nz.constInt(be.Y, nil)
			if !ok || v <= 0 || v%8 != 0 || v > 56 {
				return bytePush{}, false
			}
			sh, e = int(v), be.X
		}
		m := regexp.MustCompile(`^c\.(\w+)$`).FindStringSubmatch(nz.s(e))
		if m == nil {
			return bytePush{}, false
		}
		return bytePush{x.Name, m[1], sh}, true
	}
	var out []ast.Stmt
	for i := 0; i < len(list); i++ {
		p, ok := read(list[i])
		w := 0
		if ok && st.cmd != nil {
			w = typeWidth(strings.TrimPrefix(fieldType(st.cmd, p.field), "types."))
		}
		if !ok || (w != 2 && w != 4) || i+w > len(list) || (p.shift != 0 && p.shift != 8*(w-1)) {
			out = append(out, list[i])
			continue
		}
		order := "Little"
		if p.shift != 0 {
			order = "Big"
		}
		run := true
		for k := 1; k < w; k++ {
			q, ok := read(list[i+k])
			want := 8 * k
			if order == "Big" {
				want = 8 * (w - 1 - k)
			}
			if !ok || q.stream != p.stream || q.field != p.field || q.shift != want {
				run = false
			}
		}
		if !run {
			out = append(out, list[i])
			continue
		}
		nb := nz.fresh("buf", st.used)
		st.used[nb] = true
		out = append(out, nz.parseStmts(fmt.Sprintf("%s := make([]byte, %d)\nbinary.%sEndian.PutUint%d(%s, uint%d(c.%s))\n%s = append(%s, %s...)",
			nb, w, order, 8*w, nb, 8*w, p.field, p.stream, p.stream, nb), posOf(list[i]))...)
		i += w - 1
	}
	return out
}

// unmarshalAccessors (U15)
func (nz *normaliser) unmarshalAccessors(fd *ast.FuncDecl, list []ast.Stmt) []ast.Stmt {
	alias := map[string]string{}
	drop := map[int]bool{}
	for i, s := range list {
		as, ok := s.(*ast.AssignStmt)
		if !ok || as.Tok != token.DEFINE || len(as.Lhs) != 1 || len(as.Rhs) != 1 {
			continue
		}
		id, isId := as.Lhs[0].(*ast.Ident)
		r := nz.s(as.Rhs[0])
		if !isId || id.Name == "_" || (r != "c.GetParameters()" && r != "c.GetData()") || nz.assignCount(fd.Body, id.Name) != 1 {
			continue
		}
		ok = true
		for _, later := range list[i+1:] {
			t := nz.s(later)
			if strings.Contains(t, "SetParameters(") || strings.Contains(t, "SetData(") {
				ok = false
			}
		}
		if ok {
			alias[id.Name] = r
			drop[i] = true
		}
	}
	if len(alias) == 0 {
		return list
	}
	var out []ast.Stmt
	for i, s := range list {
		if drop[i] {
			continue
		}
		uses := false
		for a := range alias {
			if countIdent(s, a) > 0 {
				uses = true
			}
		}
		if uses {
			s = nz.clone(s)
			nz.substIdents(s, alias)
		}
		out = append(out, s)
	}
	return out
}

// constCursor (U16) on the top-level list
func (nz *normaliser) constCursor(list []ast.Stmt) []ast.Stmt {
	if out, ok := nz.constCursor1(list); ok {
		return out
	}
	return list
}

func (nz *normaliser) constCursor1(list []ast.Stmt) ([]ast.Stmt, bool) {
	if k := len(list); k >= 1 && nz.s(list[k-1]) == `return 0, nil` {
		// U5 leaves a body with several segment names alone; when the cursor's name occurs nowhere, the closing pair is
		// written here as U5 writes it (a final `return 0, nil` is `offset = 0; return offset, nil`)
		for _, s := range list {
			if countIdent(s, "offset") > 0 {
				return nil, false
			}
		}
		nl := append([]ast.Stmt{}, list[:k-1]...)
		list = append(nl, nz.parseStmts("offset = 0\nreturn offset, nil", posOf(list[k-1]))...)
	}
	n := len(list)
	if n < 3 || nz.s(list[n-1]) != `return offset, nil` || nz.s(list[n-2]) != `offset = 0` {
		return nil, false
	}
	// the cursor must not be reachable except by name: no closure captures it, its address is never taken
	for _, s := range list {
		hidden := false
		ast.Inspect(s, func(x ast.Node) bool {
			switch t := x.(type) {
			case *ast.FuncLit:
				if countIdent(t, "offset") > 0 {
					hidden = true
				}
			case *ast.UnaryExpr:
				if t.Op == token.AND && countIdent(t.X, "offset") > 0 {
					hidden = true
				}
			}
			return true
		})
		if hidden {
			return nil, false
		}
	}
	end := n - 2
	p := end
	for p > 0 && countIdent(list[p-1], "offset") == 0 {
		p--
	}
	type head struct {
		at   int
		name string
		k    int64
	}
	var heads []head
	for i := p; i < end; i++ {
		as, ok := list[i].(*ast.AssignStmt)
		if !ok || as.Tok != token.DEFINE || len(as.Lhs) != 1 || len(as.Rhs) != 1 {
			continue
		}
		id, ok := as.Lhs[0].(*ast.Ident)
		if !ok || id.Name == "_" {
			continue
		}
		k, ok := nz.constInt(as.Rhs[0], nil)
		if !ok || k < 0 {
			continue
		}
		heads = append(heads, head{i, id.Name, k})
	}
	// a head's name is assigned once and lives only in its segment (up to the next head)
	var good []head
	for hi, h := range heads {
		next := end
		if hi+1 < len(heads) {
			next = heads[hi+1].at
		}
		total, inside, assigns := 0, 0, 0
		for i, s := range list {
			c := countIdent(s, h.name)
			total += c
			assigns += nz.assignCount(s, h.name)
			if i > h.at && i < next {
				inside += c
			}
		}
		if assigns != 1 || total != inside+1 || inside == 0 {
			return nil, false // a constant that is not a segment cursor stands in the region: leave everything as it is
		}
		good = append(good, h)
	}
	if len(good) == 0 {
		return nil, false
	}
	var out []ast.Stmt
	if p == 0 {
		// no cursor at all in front of the closing pair (U5 wrote the pair for a function whose every top-level return
		// hands back 0): it is declared as U5 declares it
		out = append(out, nz.parseStmts("offset := 0", posOf(list[0]))...)
	}
	out = append(out, list[:p]...)
	hi := -1
	for i := p; i < n; i++ {
		if hi+1 < len(good) && good[hi+1].at == i {
			hi++
			h := good[hi]
			code := fmt.Sprintf("offset = %d", h.k)
			if hi > 0 && h.k > good[hi-1].k {
				code = fmt.Sprintf("offset += %d", h.k-good[hi-1].k)
			}
			out = append(out, nz.parseStmts(code, posOf(list[i]))...)
			continue
		}
		s := list[i]
		if hi >= 0 && countIdent(s, good[hi].name) > 0 {
			s = nz.clone(s)
			nz.substIdents(s, map[string]string{good[hi].name: "offset"})
		}
		out = append(out, s)
	}
	return out, true
}

// deadAdvance (U17) on the top-level list
func (nz *normaliser) deadAdvance(list []ast.Stmt) []ast.Stmt {
	var out []ast.Stmt
	changed := false
	for i, s := range list {
		out = append(out, s)
		if i+1 < len(list) && nz.s(list[i+1]) == `offset = 0` {
			if m := reReadInt.FindStringSubmatch(nz.s(s)); m != nil {
				out = append(out, nz.parseStmts("offset += "+m[6], posOf(s))...)
				changed = true
			}
		}
	}
	if !changed {
		return list
	}
	return out
}
