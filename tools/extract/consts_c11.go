package main

// Fact ConstsC11: header size, length mask/extension bit/shifts, maximum length and message type of the NetBIOS
// session transport (C11).

func init() {
	facts["ConstsC11"] = constsFact("ConstsC11", "header layout, 17-bit length arithmetic and limits of NBTTransport.Send/Receive (C11)", func(c *cx) {
		nb := c.pkg("network/netbios")
		c.constNat("sessionMessage", nb, "SESSION_MESSAGE")
		p := c.pkg("network/netbios/nbt")
		c.constNat("maxLen", p, "maxSessionMessageLength")
		s := p.fn("NBTTransport.Send")
		c.shapeOf("send_type_shape", s.assign("header", 1))
		c.int1Of("send_limit", s.cmp("length", tokGTR, -1))
		c.named("send_b1", s.assign("header", 2), "shift", "mask")
		c.named("send_b2", s.assign("header", 3), "shift", "mask")
		c.named("send_b3", s.assign("header", 4), "mask")
		c.shapeOf("send_b1_shape", s.assign("header", 2))
		c.shapeOf("send_b2_shape", s.assign("header", 3))
		c.shapeOf("send_b3_shape", s.assign("header", 4))
		c.shapeOf("send_packet_shape", s.assign("newPacket", -1))
		r := p.fn("NBTTransport.Receive")
		c.int1Of("recv_headerSize", r.assign("header", -1))
		c.int1Of("recv_typeIdx", r.assign("messageType", -1))
		l := r.assign("length", -1)
		c.named("recv_len", l, "i1", "mask", "shift1", "i2", "shift2", "i3")
		c.shapeOf("recv_len_shape", l)
		c.int1Of("recv_type", r.cmp("messageType", tokNEQ, -1))
	})
}
