package main

// Fact ConstsC13: nibble masks/shifts and byte positions of uuid.UUID Marshal/Unmarshal, field masks, shifts, positions
// and byte orders of UUIDv1/UUIDv2, byte positions and shifts of GUID.FromRawBytes/ToBytes (C13).

import "fmt"

func init() {
	facts["ConstsC13"] = constsFact("ConstsC13", "nibble layout of uuid.UUID, field layout of UUIDv1/v2, byte layout of guid.GUID (C13)", func(c *cx) {
		p := c.pkg("crypto/uuid")
		m := p.fn("UUID.Marshal")
		c.int1Of("m_size", m.assign("data", -1))
		c.named("m_copy0", m.call("copy", 0), "dstLo", "dstHi", "srcLo", "srcHi")
		c.named("m_copy1", m.call("copy", 1), "dstLo", "dstBase", "dstLen", "srcLo", "srcBase", "srcLen")
		c.named("m_d6hi", m.assign("data6high", -1), "idx", "mask", "shift")
		c.named("m_d6lo", m.assign("data6low", -1), "idx", "mask")
		c.named("m_d7hi", m.assign("data7high", -1), "idx", "mask", "shift")
		c.named("m_d7lo", m.assign("data7low", -1), "idx", "mask")
		for i := 0; i < 3; i++ {
			c.int1Of(fmt.Sprintf("m_b%d_idx", i), m.lhsLike("data[", i))
			c.named(fmt.Sprintf("m_b%d", i), m.assignLike("data[", i), "maskA", "shift", "maskB")
			c.shapeOf(fmt.Sprintf("m_b%d_shape", i), m.assignLike("data[", i))
		}
		u := p.fn("UUID.Unmarshal")
		c.int1Of("u_minLen", u.cmp("len(marshalledData)", tokLSS, -1))
		c.named("u_version", u.assign("u.Version", -1), "idx", "mask", "shift")
		c.named("u_variant", u.assign("u.Variant", -1), "idx", "mask", "shift")
		c.named("u_copy0", u.call("copy", 0), "dstLo", "dstHi", "srcLo", "srcHi")
		c.named("u_copy1", u.call("copy", 1), "dstLo", "dstBase", "dstLen", "srcLo", "srcBase", "srcLen")
		c.int1Of("u_d6_idx", u.lhsLike("u.Data[", 0))
		c.named("u_d6", u.assignLike("u.Data[", 0), "idxA", "maskA", "shiftA", "idxB", "maskB", "shiftB")
		c.shapeOf("u_d6_shape", u.assignLike("u.Data[", 0))
		c.int1Of("u_d7_idx", u.lhsLike("u.Data[", 1))
		c.named("u_d7", u.assignLike("u.Data[", 1), "idxA", "maskA", "shiftA", "idxB", "maskB")
		c.shapeOf("u_d7_shape", u.assignLike("u.Data[", 1))
		c.int1Of("u_consumed", u.ret(1, 0))

		for _, v := range []struct{ dir, typ, pre string }{{"crypto/uuid/uuid_v1", "UUIDv1", "v1"}, {"crypto/uuid/uuid_v2", "UUIDv2", "v2"}} {
			q := c.pkg(v.dir)
			mm := q.fn(v.typ + ".Marshal")
			if v.pre == "v1" {
				c.named("v1_timeLow", mm.assign("timeLow", -1), "mask")
			}
			c.named(v.pre+"_timeMid", mm.assign("timeMid", -1), "mask", "shift")
			c.named(v.pre+"_timeHigh", mm.assign("timeHigh", -1), "mask", "shift")
			put32 := mm.call("binary.BigEndian.PutUint32", -1)
			put16 := mm.call("binary.BigEndian.PutUint16", -1)
			c.named(v.pre+"_put32_dst", put32.arg(0), "lo", "hi")
			c.named(v.pre+"_put16_dst", put16.arg(0), "lo", "hi")
			c.texts(v.pre+"_put_what", mm, []string{put32.arg(1).text(), put16.arg(1).text()})
			c.int1Of(v.pre+"_b6_idx", mm.lhsLike("data[", 0))
			c.named(v.pre+"_b6", mm.assignLike("data[", 0), "shift", "mask")
			c.int1Of(v.pre+"_b7_idx", mm.lhsLike("data[", 1))
			if v.pre == "v1" {
				c.named("v1_b7", mm.assignLike("data[", 1), "maskA", "shiftA", "maskB", "shiftB")
				c.named("v1_b8", mm.assignLike("data[", 2), "mask")
			} else {
				c.named("v2_b7", mm.assignLike("data[", 1), "maskA", "shiftA", "maskB")
			}
			c.shapeOf(v.pre+"_b7_shape", mm.assignLike("data[", 1))
			c.int1Of(v.pre+"_b8_idx", mm.lhsLike("data[", 2))
			c.shapeOf(v.pre+"_b8_shape", mm.assignLike("data[", 2))
			c.named(v.pre+"_node_dst", mm.call("copy", -1).arg(0), "lo", "hi")
			c.int1Of(v.pre+"_version", mm.assign("u.UUID.Version", -1))

			uu := q.fn(v.typ + ".Unmarshal")
			c.int1Of(v.pre+"_u_minLen", uu.cmp("len(marshalledData)", tokLSS, -1))
			c.int1Of(v.pre+"_u_version", uu.cmp("u.UUID.Version", tokNEQ, -1))
			first := "timeLow"
			if v.pre == "v2" {
				first = "u.LocalDomainNumber"
			}
			c.named(v.pre+"_u_first", uu.assign(first, -1), "lo", "hi")
			c.boolean(v.pre+"_u_first_le", uu.assign(first, -1), uu.assign(first, -1).little())
			c.nat(v.pre+"_u_first_width", uu.assign(first, -1), bigInt(uu.assign(first, -1).width()))
			c.named(v.pre+"_u_timeMid", uu.assign("timeMid", -1), "lo", "hi")
			c.boolean(v.pre+"_u_timeMid_le", uu.assign("timeMid", -1), uu.assign("timeMid", -1).little())
			c.nat(v.pre+"_u_timeMid_width", uu.assign("timeMid", -1), bigInt(uu.assign("timeMid", -1).width()))
			c.named(v.pre+"_u_timeHigh", uu.assign("timeHigh", -1), "idxA", "shiftA", "idxB", "shiftB", "mask")
			c.shapeOf(v.pre+"_u_timeHigh_shape", uu.assign("timeHigh", -1))
			if v.pre == "v1" {
				c.named("v1_u_clockSeq", uu.assign("u.ClockSeq", -1), "idxA", "mask", "shift", "idxB")
				c.named("v1_u_time", uu.assign("u.Time", -1), "shiftHigh", "shiftMid")
			} else {
				c.named("v2_u_clock", uu.assign("u.Clock", -1), "idx", "mask")
				c.named("v2_u_localDomain", uu.assign("u.LocalDomain", -1), "idx")
				c.named("v2_u_time", uu.assign("u.Time", -1), "shiftHigh", "shiftMid")
			}
			c.shapeOf(v.pre+"_u_time_shape", uu.assign("u.Time", -1))
			c.named(v.pre+"_u_node_src", uu.call("copy", -1).arg(1), "lo", "hi")
		}

		g := c.pkg("windows/guid")
		f := g.fn("GUID.FromRawBytes")
		c.int1Of("g_minLen", f.cmp("len(data)", tokLSS, -1))
		c.named("g_A", f.assign("guid.A", -1), "i0", "i1", "s1", "i2", "s2", "i3", "s3")
		c.named("g_B", f.assign("guid.B", -1), "i0", "i1", "s1")
		c.named("g_C", f.assign("guid.C", -1), "i0", "i1", "s1")
		c.named("g_D", f.assign("guid.D", -1), "i0", "s0", "i1")
		for i := 0; i < 5; i++ {
			c.named(fmt.Sprintf("g_E%d", i), f.assign("guid.E", i), "idx", "shift")
		}
		c.named("g_E5", f.assign("guid.E", 5), "idx")
		c.shapeOf("g_A_shape", f.assign("guid.A", -1))
		c.shapeOf("g_D_shape", f.assign("guid.D", -1))
		t := g.fn("GUID.ToBytes")
		c.named("t_A", t.assign("data", 1), "s1", "s2", "s3")
		c.named("t_B", t.assign("data", 2), "s1")
		c.named("t_C", t.assign("data", 3), "s1")
		c.named("t_D", t.assign("data", 4), "s0")
		c.shapeOf("t_A_shape", t.assign("data", 1))
		c.shapeOf("t_B_shape", t.assign("data", 2))
		c.shapeOf("t_C_shape", t.assign("data", 3))
		c.shapeOf("t_D_shape", t.assign("data", 4))
		c.int1Of("t_E_size", t.assign("eBytes", -1))
		c.int1Of("t_E_count", t.cmp("i", tokLSS, -1))
		c.int1Of("t_E_last", t.lhsLike("eBytes[", -1))
		c.named("t_E", t.assignLike("eBytes[", -1), "bits", "mask")
		c.shapeOf("t_E_shape", t.assignLike("eBytes[", -1))
	})
}
