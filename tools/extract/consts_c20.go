package main

// Fact ConstsC20: separators, part counts, ParseUint bases and widths, mask width, shifts, port bounds, format strings
// and the two regular expressions of network/ip and ParseLMNTHashes (C20).

import "fmt"

func init() {
	facts["ConstsC20"] = constsFact("ConstsC20", "separators, counts, bases/widths, shifts, masks, port bounds, formats and regexps of network/ip and ParseLMNTHashes (C20)", func(c *cx) {
		p := c.pkg("network/ip")
		f := p.fn("NewIPv4FromString")
		c.str("v4_sepMask", f.call("strings.Split", 0).arg(1), f.call("strings.Split", 0).arg(1).str())
		c.int1Of("v4_parts", f.cmp("len(parts)", tokEQL, -1))
		c.named("v4_mask", f.call("strconv.ParseUint", 0), "idx", "base", "bits")
		c.int1Of("v4_maskMax", f.cmp("maskBits", tokGTR, -1))
		c.str("v4_sepOctets", f.call("strings.Split", 1).arg(1), f.call("strings.Split", 1).arg(1).str())
		c.named("v4_octetsFrom", f.call("strings.Split", 1).arg(0), "idx")
		c.int1Of("v4_octets", f.cmp("len(octets)", tokNEQ, -1))
		for i := 0; i < 4; i++ {
			c.named(fmt.Sprintf("v4_o%d", i), f.call("strconv.ParseUint", i+1), "idx", "base", "bits")
		}
		t := p.fn("IPv4.ToUInt32").ret(-1, 0)
		c.named("v4_toU32", t, "sa", "sb", "sc")
		c.shapeOf("v4_toU32_shape", t)
		cm := p.fn("IPv4.ComputeMask")
		c.named("v4_cm_mask", cm.assign("mask", -1), "ones", "width")
		c.shapeOf("v4_cm_mask_shape", cm.assign("mask", -1))
		c.named("v4_cm_a", cm.assign("a", -1), "shift", "mask")
		c.named("v4_cm_b", cm.assign("b", -1), "shift", "mask")
		c.named("v4_cm_c", cm.assign("c", -1), "shift", "mask")
		c.named("v4_cm_d", cm.assign("d", -1), "mask")
		c.shapeOf("v4_cm_masked_shape", cm.assign("masked", -1))
		is := p.fn("IPv4.IsInSubnet")
		c.named("v4_sub_mask", is.assign("mask", -1), "ones", "width")
		c.shapeOf("v4_sub_mask_shape", is.assign("mask", -1))
		c.shapeOf("v4_sub_shape", is.ret(-1, 0))
		c.shapeOf("v4_range_shape", p.fn("IPv4.IsInRange").ret(-1, 0))
		c.str("v4_format", p.fn("IPv4.String"), p.fn("IPv4.String").ret(-1, 0).strs()[0])
		c.str("v4_formatAddress", p.fn("IPv4.CIDRAddress"), p.fn("IPv4.CIDRAddress").ret(-1, 0).strs()[0])
		c.str("v4_formatMask", p.fn("IPv4.CIDRMask"), p.fn("IPv4.CIDRMask").ret(-1, 0).strs()[0])

		g := p.fn("NewIPv6FromString")
		c.str("v6_sep", g.call("strings.Split", -1).arg(1), g.call("strings.Split", -1).arg(1).str())
		c.int1Of("v6_parts", g.cmp("len(parts)", tokEQL, -1))
		for i := 0; i < 8; i++ {
			c.named(fmt.Sprintf("v6_g%d", i), g.call("strconv.ParseUint", i), "idx", "base", "bits")
		}
		u := p.fn("IPv6.ToUInt128")
		c.named("v6_high", u.assign("high", -1), "sa", "sb", "sc")
		c.named("v6_low", u.assign("low", -1), "sa", "sb", "sc")
		c.shapeOf("v6_high_shape", u.assign("high", -1))
		c.shapeOf("v6_low_shape", u.assign("low", -1))
		c.shapeOf("v6_range_shape", p.fn("IPv6.IsInRange").ret(-1, 0))

		r := p.fn("NewTCPPortRangeFromString")
		c.text("port_regexp", r.call("regexp.MustCompile", -1).arg(0), r.call("regexp.MustCompile", -1).arg(0).str())
		c.str("port_sep", r.call("strings.Split", -1).arg(1), r.call("strings.Split", -1).arg(1).str())
		c.int1Of("port_parts", r.cmp("len(parts)", tokEQL, -1))
		c.int1Of("port_startDefault", r.assign("start", 0))
		c.named("port_start", r.call("strconv.ParseUint", 0), "idx", "base", "bits")
		c.int1Of("port_startMax", r.cmp("start", tokGTR, -1))
		c.int1Of("port_endDefault", r.assign("end", 0))
		c.named("port_end", r.call("strconv.ParseUint", 1), "idx", "base", "bits")
		c.int1Of("port_endMax", r.cmp("end", tokGTR, -1))
		c.int1Of("port_trim0", r.lhsLike("parts[", 0))
		c.int1Of("port_trim1", r.lhsLike("parts[", 1))
		c.str("port_format", p.fn("TCPPortRange.String"), p.fn("TCPPortRange.String").ret(-1, 0).strs()[0])

		cr := c.pkg("windows/credentials")
		h := cr.fn("ParseLMNTHashes")
		c.str("lmnt_contains", h.call("strings.Contains", -1).arg(1), h.call("strings.Contains", -1).arg(1).str())
		c.str("lmnt_prepend", h.assign("authHashes", 1), h.assign("authHashes", 1).strs()[0])
		c.str("lmnt_sep", h.call("strings.Split", -1).arg(1), h.call("strings.Split", -1).arg(1).str())
		c.named("lmnt_parts", h.assign("lmHash", 0), "lm")
		c.named("lmnt_parts", h.assign("ntHash", 0), "nt")
		c.int1Of("lmnt_lmLen", h.cmp("len(lmHash)", tokNEQ, -1))
		c.int1Of("lmnt_ntLen", h.cmp("len(ntHash)", tokNEQ, -1))
		c.text("lmnt_regexp", h.call("regexp.MatchString", -1).arg(0), h.call("regexp.MatchString", -1).arg(0).str())
	})
}
