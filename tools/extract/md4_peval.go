// A small PARTIAL EVALUATOR over the Go AST of crypto/md4's processChunk (used by fact Md4Kernel).
//
// Why: the model of the compression function is the straight-line sequence of its steps
// (register written, round function, argument registers in order, message word, rotation amount) and
// the feed-forward.  The same sequence can be written in the source in many ways — 48 unrolled
// assignments, three loops over tables, one double loop over a table of rounds with the registers in an
// array.  Instead of recognising one spelling, the extractor now *runs* the body of processChunk on a
// symbolic input and reads the steps off what happened.  Everything that decides control flow or an index
// must reduce to a constant; everything else is refused.  What the evaluator accepts it has executed
// with Go's own rules (below), so the sequence it returns is the sequence the code performs.
//
// VALUES
//
//	cInt    an integer constant with a kind: untyped, signed (int, int32, int64) or unsigned (uint, uint32,
//	        uint64).  Arithmetic is done in int64 and REFUSED when a result leaves [-2^31, 2^31) (signed,
//	        untyped: up to 2^32-1) or [0, 2^32) (unsigned): inside these ranges 32- and 64-bit Go arithmetic,
//	        signed or unsigned, agree with int64 arithmetic, outside they may wrap.  8- and 16-bit integer
//	        types are refused for the same reason.  Mixing a signed and an unsigned constant is refused (Go
//	        would need a conversion; the evaluator does not type-check, so it does not guess).
//	cBool   the result of a comparison of constants; only this may be the condition of if/for/switch.
//	*term   a symbolic uint32: tInit k (md4.state[k] on entry), tWord k (the k-th little-endian 32-bit
//	        word of the chunk), tCall (one application of a uint32 helper to terms and constants — a STEP;
//	        numbered in the order in which Go evaluates the calls), tSum (tInit j + t, the feed-forward; legal
//	        only as a final value of md4.state[k]).  No other operation on terms is accepted: a data-
//	        dependent index, bound or condition has no value here and is refused.
//	*arrVal an array (value semantics: copied on assignment, `:=`, range, composite literal, like Go
//	        arrays) or a slice (reference semantics: shared; writes through a slice that comes from a package-
//	        level table are refused).
//	*ptrVal, tupleVal, *closureVal   see N7/N8.
//	*structVal, *funcVal   a struct value (copied like an array) / one of the file's uint32 helpers as a
//	        function value (`ff` stored in a table, `r.f(…)`); the callee is resolved to the helper's NAME and the
//	        helper's body is translated by the caller as before, so a changed round function still changes the model.
//
// NORMALISATIONS (each maps several source shapes to the one canonical step sequence)
//
//	N1 constant folding.  Integer expressions over literals, package/local constants, loop variables and
//	   table entries (+ - * / % & | ^ &^ << >>, comparisons, && || !, conversions between the accepted integer
//	   types, len of an array) are evaluated with Go's semantics inside the ranges above.  `x[i]`, `x[order2[i]]`,
//	   `shift1[i%4]`, `v[(16-i)&3]` thereby become `x[5]`, `7`, register 3.  Meaning is preserved because the
//	   operands are constants of the program, not inputs.
//	N2 loop unrolling.  `for init; cond; post`, `for i := range <array|slice|int>`, `for _, r := range table`
//	   whose conditions evaluate to cBool are executed iteration by iteration (with break/continue, a statement
//	   budget against non-termination); if/else and switch over constants take the branch Go would take.  A loop
//	   bound 15 instead of 16 therefore yields 15 steps, not 16: nothing is assumed about the count.
//	N3 tables.  Package-level `var t = <composite literal>` (arrays, slices, structs, nested, with elided
//	   inner types and `k: v` keys) and local ones are evaluated to values and indexed by constants.  A package-
//	   level table is only accepted when no function of the package other than processChunk mentions its name
//	   (all non-test files of the directory are scanned): otherwise some code could change it between calls and
//	   its literal would not be its value.  processChunk itself may not write to it either.
//	N4 registers.  The working registers may be four named locals, an array `v` indexed by constants, or be
//	   renamed by parallel assignments (`a, b, c, d = d, a, b, c`).  The evaluator tracks VALUES, not names: a
//	   step is a node of a data-flow graph whose arguments are earlier nodes, state words, message words or
//	   constants.  The graph is then written back as a `let` sequence over the four canonical names a, b, c, d
//	   (= md4.state[0..3] on entry): a new step takes the name of a register whose current value is not used by
//	   any later step or by the feed-forward (the first argument's register when that is such a one — the MD4
//	   pattern — else the lowest).  Every argument of every step must be the value currently bound to a name
//	   (or a state word on entry, written st.k); if no name is free the shape is refused.  The emitted sequence
//	   denotes the same graph by construction, so two sources with the same data flow regenerate the same text
//	   and any change of an argument, its order, a word index, a shift or a function changes the text.
//	N5 feed-forward.  `md4.state[k] += v`, `md4.state[k] = md4.state[k] + v`, `… = v + md4.state[k]`, a loop
//	   `for i := range md4.state { md4.state[i] += v[i] }` and an array literal assigned to md4.state all end in
//	   final values tSum(j, t) and are emitted as `st.j + t` (uint32 addition commutes).  md4.state may not be
//	   the target of anything else than such a final value ... more precisely: whatever the four cells hold at
//	   the end is emitted, a cell that is not a sum included (`md4.state[0] = a` is emitted as `a`).
//	N6 word loads.  `binary.LittleEndian.Uint32(chunk[c:])` and `…(chunk[c:d])` with constants c = 4k, k < 16,
//	   d >= c+4, d <= 64 are tWord k, and so is the byte assembly `uint32(chunk[c]) | uint32(chunk[c+1])<<8 |
//	   uint32(chunk[c+2])<<16 | uint32(chunk[c+3])<<24` (operands in any order, `|` or `+`: the four parts have
//	   disjoint bits).  The array the words are stored in is an ordinary array of the evaluator: a cell that was
//	   never loaded is the constant 0 it is in Go, a word stored in another cell is found where it was stored.
//	   `_ = chunk[c]` with c < 64 (a bounds-check hint) is a no-op: callers pass 64 bytes (hand model, tied by L2).
//
//	N7 function literals.  A `func(…) {…}` bound to a local of processChunk OUTSIDE every loop (so that it cannot
//	   capture a per-iteration variable) and called as `step(ff, 0, 3)` / `w := word(k)` is executed on the
//	   evaluated arguments in a scope whose parent is the scope of its creation — Go's closure semantics for
//	   captured variables, which the evaluator's scopes share by reference; parameters are copied like any
//	   assignment; at most one result; nesting deeper than 8 calls is refused (recursion).
//
//	N8 functions and array pointers.  A package-level function of the directory that is not one of the uint32 helpers
//	   (`func round1(a, b, c, d uint32, x [16]uint32) (uint32, uint32, uint32, uint32)`, `func load(x *[16]uint32, chunk
//	   []byte)`) is executed like a function literal, in a scope that sees package-level names only; several results are
//	   assigned as a tuple (`a, b, c, d = round1(…)`), named results and a bare return are understood.  `&arr` of a local
//	   array (or of md4.state) is a reference to that array: indexing, len and range go through it, so a callee that
//	   fills `x` or updates `v` through a pointer changes the caller's array exactly as in Go.  The address of a package-
//	   level table is refused (it could be written through), and so is handing on the receiver.  A function that
//	   assigns to a package-level variable is refused (only locals, parameters, array cells and md4.state are places).
//
// REFUSED (non-exhaustive): function literals created inside loops, methods, calls of anything but the above / len /
// conversions / binary.LittleEndian.Uint32, pointers to anything but arrays, slicing of anything but `chunk`, goto/labels/defer/go,
// fallthrough, strings, floats, any field of the receiver other than `state`, a condition or index that
// depends on the input, integer results outside the ranges above, more than 100000 executed statements.
package main

import (
	"fmt"
	"go/ast"
	"go/token"
	"os"
	"path/filepath"
	"strings"
)

type ckind int

const (
	kUntyped ckind = iota
	kSigned
	kUnsigned
)

type cInt struct {
	v int64
	k ckind
}
type cBool bool

type termKind int

const (
	tInit termKind = iota
	tWord
	tCall
	tSum
	tBytes // partial little-endian word assembly: set of (byte offset, shift) parts
)

type bytePart struct{ off, sh int64 }

type term struct {
	kind  termKind
	idx   int        // tInit / tWord / tSum: state word index j
	fn    string     // tCall
	args  []any      // tCall: *term | cInt
	at    ast.Node   // tCall: the call expression
	seq   int        // tCall: creation order
	of    *term      // tSum: the other operand
	parts []bytePart // tBytes
	wide  bool       // tBytes: already converted to uint32
}

type arrVal struct {
	cells    []any
	slice    bool
	readonly bool
}
type structVal struct {
	names  []string
	fields map[string]any
}
type funcVal struct{ name string }

// closureVal is a function literal together with the scope it was created in (N7).
type closureVal struct {
	typ  *ast.FuncType
	body *ast.BlockStmt
	env  *scope // nil: a package-level function (only package-level names are visible in its body)
	at   ast.Node
}

// opaque markers for the chunk parameter and the receiver (bound to their names in processChunk's scope only)
type chunkVal struct{}
type recvVal struct{}

// ptrVal is `&arr`: a reference to an array value (N8); indexing goes through it, so writes are seen by the owner.
type ptrVal struct{ arr *arrVal }

// tupleVal is the result of a function with several results.
type tupleVal []any

// ---- types ---------------------------------------------------------------------------------------

type gkind int

const (
	gInt gkind = iota
	gBool
	gArray
	gSlice
	gStruct
	gFunc
	gPtr   // pointer to an array
	gChunk // []byte: only the chunk parameter has this type
)

type gtype struct {
	kind   gkind
	ik     ckind // gInt
	n      int   // gArray
	elt    *gtype
	fnames []string
	ftypes []*gtype
}

var intKinds = map[string]ckind{"int": kSigned, "int32": kSigned, "int64": kSigned,
	"uint": kUnsigned, "uint32": kUnsigned, "uint64": kUnsigned}
var narrowInts = map[string]bool{"int8": true, "int16": true, "uint8": true, "uint16": true, "byte": true, "rune": false, "uintptr": true}

// ---- evaluator -----------------------------------------------------------------------------------

type scope struct {
	vars   map[string]*any
	parent *scope
}

func (s *scope) lookup(n string) *any {
	for c := s; c != nil; c = c.parent {
		if p, ok := c.vars[n]; ok {
			return p
		}
	}
	return nil
}

type peval struct {
	pkgFuncs  map[string]*ast.FuncDecl // package-level functions that are not uint32 helpers
	m         *md4x
	files     []*ast.File // all non-test files of the package
	pkgVars   map[string]*ast.ValueSpec
	pkgVarIx  map[string]int
	pkgTypes  map[string]ast.Expr
	pkgCache  map[string]any
	pkgBusy   map[string]bool
	pcFn      *ast.FuncDecl
	recv      string
	chunk     string
	state     *arrVal
	calls     []*term
	sc        *scope
	budget    int
	inPkgInit bool
	loopDepth int // > 0 while a loop body is being executed
	fnDepth   int // > 0 while the body of a function literal is being executed
	retVal    any
}

type ctl int

const (
	ctlNone ctl = iota
	ctlBreak
	ctlContinue
	ctlReturn
)

func (p *peval) errf(n ast.Node, format string, a ...any) error {
	return fmt.Errorf("%s: processChunk (partial evaluation): %s", p.m.fset.Position(n.Pos()), fmt.Sprintf(format, a...))
}

func copyVal(v any) any {
	switch x := v.(type) {
	case *arrVal:
		if x.slice {
			return x // reference semantics
		}
		n := &arrVal{cells: make([]any, len(x.cells))}
		for i, c := range x.cells {
			n.cells[i] = copyVal(c)
		}
		return n
	case *structVal:
		n := &structVal{names: x.names, fields: map[string]any{}}
		for k, f := range x.fields {
			n.fields[k] = copyVal(f)
		}
		return n
	}
	return v
}

func inRange(v int64, k ckind) bool {
	switch k {
	case kUnsigned:
		return v >= 0 && v < 1<<32
	case kSigned:
		return v >= -(1<<31) && v < 1<<31
	}
	return v >= -(1<<31) && v < 1<<32
}

// conv gives constant c the kind k (assignment of an untyped constant to a typed place, or a conversion).
func (p *peval) conv(c cInt, k ckind, at ast.Node) (cInt, error) {
	if k == kUntyped {
		return c, nil
	}
	if !inRange(c.v, k) {
		return c, p.errf(at, "constant %d does not fit the 32-bit range of its type: Go may wrap here, refused", c.v)
	}
	return cInt{c.v, k}, nil
}

func (p *peval) resolveType(e ast.Expr) (*gtype, error) {
	switch t := e.(type) {
	case *ast.ParenExpr:
		return p.resolveType(t.X)
	case *ast.Ident:
		if k, ok := intKinds[t.Name]; ok {
			return &gtype{kind: gInt, ik: k}, nil
		}
		if t.Name == "bool" {
			return &gtype{kind: gBool}, nil
		}
		if narrowInts[t.Name] {
			return nil, p.errf(e, "integer type %s is narrower than 32 bits: wrap-around is not modelled, refused", t.Name)
		}
		if te, ok := p.pkgTypes[t.Name]; ok {
			return p.resolveType(te)
		}
		return nil, p.errf(e, "type %s not understood", t.Name)
	case *ast.StarExpr:
		elt, err := p.resolveType(t.X)
		if err != nil {
			return nil, err
		}
		if elt.kind != gArray {
			return nil, p.errf(e, "pointer to something that is not an array")
		}
		return &gtype{kind: gPtr, elt: elt}, nil
	case *ast.ArrayType:
		if id, ok := t.Elt.(*ast.Ident); ok && t.Len == nil && id.Name == "byte" {
			return &gtype{kind: gChunk}, nil
		}
		elt, err := p.resolveType(t.Elt)
		if err != nil {
			return nil, err
		}
		if t.Len == nil {
			return &gtype{kind: gSlice, elt: elt}, nil
		}
		if _, ok := t.Len.(*ast.Ellipsis); ok {
			return &gtype{kind: gArray, n: -1, elt: elt}, nil
		}
		lv, err := p.eval(t.Len)
		if err != nil {
			return nil, err
		}
		c, ok := lv.(cInt)
		if !ok || c.v < 0 || c.v > 4096 {
			return nil, p.errf(t.Len, "array length is not a small constant")
		}
		return &gtype{kind: gArray, n: int(c.v), elt: elt}, nil
	case *ast.StructType:
		g := &gtype{kind: gStruct}
		for _, f := range t.Fields.List {
			ft, err := p.resolveType(f.Type)
			if err != nil {
				return nil, err
			}
			if len(f.Names) == 0 {
				return nil, p.errf(f, "embedded field not understood")
			}
			for _, n := range f.Names {
				g.fnames = append(g.fnames, n.Name)
				g.ftypes = append(g.ftypes, ft)
			}
		}
		return g, nil
	case *ast.FuncType:
		return &gtype{kind: gFunc}, nil
	}
	return nil, p.errf(e, "type expression %T not understood", e)
}

func (p *peval) zero(t *gtype, at ast.Node) (any, error) {
	switch t.kind {
	case gInt:
		return cInt{0, t.ik}, nil
	case gBool:
		return cBool(false), nil
	case gArray:
		if t.n < 0 {
			return nil, p.errf(at, "[...] array without a literal")
		}
		a := &arrVal{cells: make([]any, t.n)}
		for i := range a.cells {
			z, err := p.zero(t.elt, at)
			if err != nil {
				return nil, err
			}
			a.cells[i] = z
		}
		return a, nil
	case gStruct:
		s := &structVal{names: t.fnames, fields: map[string]any{}}
		for i, n := range t.fnames {
			z, err := p.zero(t.ftypes[i], at)
			if err != nil {
				return nil, err
			}
			s.fields[n] = z
		}
		return s, nil
	case gFunc:
		return (*funcVal)(nil), nil
	}
	return nil, p.errf(at, "zero value of a slice (nil) is not understood")
}

// coerce fits value v to the declared type t (kinds of constants; shapes are checked loosely).
func (p *peval) coerce(v any, t *gtype, at ast.Node) (any, error) {
	switch t.kind {
	case gInt:
		switch x := v.(type) {
		case cInt:
			if x.k != kUntyped && x.k != t.ik {
				return nil, p.errf(at, "signed/unsigned constant kinds do not match")
			}
			return p.conv(x, t.ik, at)
		case *term:
			if t.ik != kUnsigned || x.kind == tBytes {
				return nil, p.errf(at, "this value cannot be held in a place of this type")
			}
			return x, nil
		}
	case gBool:
		if _, ok := v.(cBool); ok {
			return v, nil
		}
	case gArray:
		if a, ok := v.(*arrVal); ok && !a.slice && (t.n < 0 || len(a.cells) == t.n) {
			return a, nil
		}
	case gSlice:
		if a, ok := v.(*arrVal); ok && a.slice {
			return a, nil
		}
	case gStruct:
		if _, ok := v.(*structVal); ok {
			return v, nil
		}
	case gFunc:
		if f, ok := v.(*funcVal); ok && f != nil {
			return v, nil
		}
		if _, ok := v.(*closureVal); ok {
			return v, nil
		}
	case gPtr:
		if q, ok := v.(*ptrVal); ok && (t.elt.n < 0 || len(q.arr.cells) == t.elt.n) {
			return v, nil
		}
	case gChunk:
		if _, ok := v.(chunkVal); ok {
			return v, nil
		}
	}
	return nil, p.errf(at, "value does not have the declared type")
}

func (p *peval) compositeLit(cl *ast.CompositeLit, t *gtype) (any, error) {
	switch t.kind {
	case gArray, gSlice:
		var cells []any
		next := 0
		set := map[int]bool{}
		for _, el := range cl.Elts {
			ve := el
			if kv, ok := el.(*ast.KeyValueExpr); ok {
				kvv, err := p.eval(kv.Key)
				if err != nil {
					return nil, err
				}
				kc, ok := kvv.(cInt)
				if !ok || kc.v < 0 || kc.v > 4096 {
					return nil, p.errf(kv.Key, "element key is not a small constant")
				}
				next = int(kc.v)
				ve = kv.Value
			}
			v, err := p.evalTyped(ve, t.elt)
			if err != nil {
				return nil, err
			}
			if set[next] {
				return nil, p.errf(el, "duplicate index in literal")
			}
			set[next] = true
			for len(cells) <= next {
				cells = append(cells, nil)
			}
			cells[next] = v
			next++
		}
		n := len(cells)
		if t.kind == gArray && t.n >= 0 {
			if n > t.n {
				return nil, p.errf(cl, "more elements than the array length")
			}
			n = t.n
		}
		for len(cells) < n {
			cells = append(cells, nil)
		}
		for i := range cells {
			if cells[i] == nil {
				z, err := p.zero(t.elt, cl)
				if err != nil {
					return nil, err
				}
				cells[i] = z
			}
		}
		return &arrVal{cells: cells, slice: t.kind == gSlice}, nil
	case gStruct:
		s := &structVal{names: t.fnames, fields: map[string]any{}}
		for i, el := range cl.Elts {
			if kv, ok := el.(*ast.KeyValueExpr); ok {
				id, ok := kv.Key.(*ast.Ident)
				if !ok {
					return nil, p.errf(kv.Key, "struct literal key is not a field name")
				}
				fi := -1
				for j, n := range t.fnames {
					if n == id.Name {
						fi = j
					}
				}
				if fi < 0 {
					return nil, p.errf(kv.Key, "no field %s", id.Name)
				}
				if _, dup := s.fields[id.Name]; dup {
					return nil, p.errf(kv.Key, "field %s given twice", id.Name)
				}
				v, err := p.evalTyped(kv.Value, t.ftypes[fi])
				if err != nil {
					return nil, err
				}
				s.fields[id.Name] = v
				continue
			}
			if i >= len(t.fnames) || len(cl.Elts) != len(t.fnames) {
				return nil, p.errf(cl, "positional struct literal does not give every field")
			}
			v, err := p.evalTyped(el, t.ftypes[i])
			if err != nil {
				return nil, err
			}
			s.fields[t.fnames[i]] = v
		}
		for i, n := range t.fnames {
			if _, ok := s.fields[n]; !ok {
				z, err := p.zero(t.ftypes[i], cl)
				if err != nil {
					return nil, err
				}
				s.fields[n] = z
			}
		}
		return s, nil
	}
	return nil, p.errf(cl, "composite literal of this type not understood")
}

// evalTyped evaluates e where a value of type t is expected (element of a literal, initialiser of a typed var).
func (p *peval) evalTyped(e ast.Expr, t *gtype) (any, error) {
	if cl, ok := e.(*ast.CompositeLit); ok && cl.Type == nil {
		return p.compositeLit(cl, t)
	}
	v, err := p.eval(e)
	if err != nil {
		return nil, err
	}
	return p.coerce(copyVal(v), t, e)
}

func (p *peval) binConst(op token.Token, a, b cInt, at ast.Node) (any, error) {
	k := a.k
	if op == token.SHL || op == token.SHR {
		if b.v < 0 || b.v > 31 {
			return nil, p.errf(at, "constant shift amount %d outside 0..31", b.v)
		}
	} else {
		if a.k == kUntyped {
			k = b.k
		} else if b.k != kUntyped && b.k != a.k {
			return nil, p.errf(at, "signed and unsigned constants mixed")
		}
	}
	switch op {
	case token.EQL:
		return cBool(a.v == b.v), nil
	case token.NEQ:
		return cBool(a.v != b.v), nil
	case token.LSS:
		return cBool(a.v < b.v), nil
	case token.LEQ:
		return cBool(a.v <= b.v), nil
	case token.GTR:
		return cBool(a.v > b.v), nil
	case token.GEQ:
		return cBool(a.v >= b.v), nil
	}
	var r int64
	switch op {
	case token.ADD:
		r = a.v + b.v
	case token.SUB:
		r = a.v - b.v
	case token.MUL:
		r = a.v * b.v
	case token.QUO:
		if b.v == 0 {
			return nil, p.errf(at, "division by zero")
		}
		r = a.v / b.v
	case token.REM:
		if b.v == 0 {
			return nil, p.errf(at, "division by zero")
		}
		r = a.v % b.v
	case token.AND:
		r = a.v & b.v
	case token.OR:
		r = a.v | b.v
	case token.XOR:
		r = a.v ^ b.v
	case token.AND_NOT:
		r = a.v &^ b.v
	case token.SHL:
		r = a.v << uint(b.v)
	case token.SHR:
		r = a.v >> uint(b.v)
	default:
		return nil, p.errf(at, "operator %s on constants not understood", op)
	}
	if !inRange(r, k) {
		return nil, p.errf(at, "constant result %d leaves the 32-bit range of its type: Go may wrap here, refused", r)
	}
	return cInt{r, k}, nil
}

// wordOfParts: four byte parts (4k,0) (4k+1,8) (4k+2,16) (4k+3,24) are the k-th little-endian word.
func wordOfParts(ps []bytePart) (int, bool) {
	if len(ps) != 4 {
		return 0, false
	}
	var base int64 = -1
	for _, q := range ps {
		if q.sh == 0 {
			base = q.off
		}
	}
	if base < 0 || base%4 != 0 || base/4 >= 16 {
		return 0, false
	}
	seen := [4]bool{}
	for _, q := range ps {
		d := q.off - base
		if d < 0 || d > 3 || q.sh != 8*d || seen[d] {
			return 0, false
		}
		seen[d] = true
	}
	return int(base / 4), true
}

func (p *peval) binTerm(op token.Token, l, r any, at ast.Node) (any, error) {
	lt, lok := l.(*term)
	rt, rok := r.(*term)
	// byte assembly of a word
	if lok && lt.kind == tBytes && lt.wide {
		if c, ok := r.(cInt); ok && op == token.SHL && len(lt.parts) == 1 && lt.parts[0].sh == 0 && (c.v == 8 || c.v == 16 || c.v == 24 || c.v == 0) {
			return &term{kind: tBytes, wide: true, parts: []bytePart{{lt.parts[0].off, c.v}}}, nil
		}
		if rok && rt.kind == tBytes && rt.wide && (op == token.OR || op == token.ADD) {
			ps := append(append([]bytePart{}, lt.parts...), rt.parts...)
			for i := range ps {
				for j := i + 1; j < len(ps); j++ {
					if ps[i].sh == ps[j].sh {
						return nil, p.errf(at, "byte assembly: two bytes at the same position of the word")
					}
				}
			}
			if len(ps) == 4 {
				k, ok := wordOfParts(ps)
				if !ok {
					return nil, p.errf(at, "byte assembly is not a little-endian 32-bit word at a multiple of 4 below 64")
				}
				return &term{kind: tWord, idx: k}, nil
			}
			if len(ps) > 4 {
				return nil, p.errf(at, "byte assembly of more than four bytes")
			}
			return &term{kind: tBytes, wide: true, parts: ps}, nil
		}
		return nil, p.errf(at, "operation on bytes of the chunk not understood")
	}
	if op == token.ADD && lok && rok {
		// feed-forward: state word on entry + a value (either order; uint32 addition commutes)
		switch {
		case lt.kind == tInit && (rt.kind == tCall || rt.kind == tInit):
			return &term{kind: tSum, idx: lt.idx, of: rt}, nil
		case rt.kind == tInit && lt.kind == tCall:
			return &term{kind: tSum, idx: rt.idx, of: lt}, nil
		}
	}
	return nil, p.errf(at, "operator %s on a value that depends on the input: only helper calls and the final `md4.state[k] += v` compute with such values", op)
}

func (p *peval) pkgVar(name string, at ast.Node) (any, error) {
	if v, ok := p.pkgCache[name]; ok {
		return copyValPkg(v), nil
	}
	vs := p.pkgVars[name]
	if p.pkgBusy[name] {
		return nil, p.errf(at, "initialisation cycle through %s", name)
	}
	if len(vs.Values) != len(vs.Names) {
		return nil, p.errf(vs, "package-level var %s has no initialiser of its own: its value is not a constant of the source", name)
	}
	if ast.IsExported(name) {
		return nil, p.errf(at, "package-level table %s is exported: another package could change it, refused", name)
	}
	if err := p.readOnlyOutside(name, at); err != nil {
		return nil, err
	}
	p.pkgBusy[name] = true
	saveSc, saveInit := p.sc, p.inPkgInit
	p.sc, p.inPkgInit = &scope{vars: map[string]*any{}}, true
	defer func() { p.sc, p.inPkgInit = saveSc, saveInit; p.pkgBusy[name] = false }()
	var v any
	var err error
	init := vs.Values[p.pkgVarIx[name]]
	if vs.Type != nil {
		t, e := p.resolveType(vs.Type)
		if e != nil {
			return nil, e
		}
		v, err = p.evalTyped(init, t)
	} else {
		v, err = p.eval(init)
		if c, ok := v.(cInt); ok && err == nil {
			v, err = p.conv(c, kSigned, init) // untyped constant initialiser: int
			_ = c
		}
	}
	if err != nil {
		return nil, err
	}
	markReadonly(v)
	p.pkgCache[name] = v
	return copyValPkg(v), nil
}

// A package-level table is handed out as it is (shared, read-only): reads copy on assignment anyway.
func copyValPkg(v any) any { return v }

func markReadonly(v any) {
	switch x := v.(type) {
	case *arrVal:
		x.readonly = true
		for _, c := range x.cells {
			markReadonly(c)
		}
	case *structVal:
		for _, f := range x.fields {
			markReadonly(f)
		}
	}
}

// readOnlyOutside: no function of the package other than processChunk, and no other package-level
// initialiser, mentions `name` (conservatively by identifier; selectors `.name` do not count).
func (p *peval) readOnlyOutside(name string, at ast.Node) error {
	var bad ast.Node
	check := func(root ast.Node) {
		ast.Inspect(root, func(n ast.Node) bool {
			if bad != nil {
				return false
			}
			switch v := n.(type) {
			case *ast.SelectorExpr:
				ast.Inspect(v.X, func(m ast.Node) bool {
					if id, ok := m.(*ast.Ident); ok && id.Name == name && bad == nil {
						bad = id
					}
					return true
				})
				return false
			case *ast.Ident:
				if v.Name == name {
					bad = v
				}
			}
			return true
		})
	}
	for _, f := range p.files {
		for _, d := range f.Decls {
			switch v := d.(type) {
			case *ast.FuncDecl:
				if v == p.pcFn || v.Body == nil {
					continue
				}
				check(v.Body)
			case *ast.GenDecl:
				if v.Tok != token.VAR {
					continue
				}
				for _, sp := range v.Specs {
					vs := sp.(*ast.ValueSpec)
					for i, val := range vs.Values {
						if i < len(vs.Names) && vs.Names[i].Name == name && len(vs.Names) == len(vs.Values) {
							continue
						}
						// conservatively also refused: a table built from this one (a slice or a pointer in it
						// would be a second way to reach the same cells)
						check(val)
					}
				}
			}
		}
	}
	if bad != nil {
		return fmt.Errorf("%s: processChunk (partial evaluation): package-level table %s (used at %s) is also mentioned here: cannot show that it is never changed, refused",
			p.m.fset.Position(bad.Pos()), name, p.m.fset.Position(at.Pos()))
	}
	return nil
}

func (p *peval) eval(e ast.Expr) (any, error) {
	switch v := e.(type) {
	case *ast.ParenExpr:
		return p.eval(v.X)
	case *ast.BasicLit:
		n, ok := intLit(v)
		if !ok || n > 0xFFFFFFFF {
			return nil, p.errf(e, "literal %s is not an integer below 2^32", v.Value)
		}
		return cInt{int64(n), kUntyped}, nil
	case *ast.Ident:
		if ptr := p.sc.lookup(v.Name); ptr != nil {
			if *ptr == nil {
				return nil, p.errf(e, "%s has no value here", v.Name)
			}
			return *ptr, nil
		}
		switch v.Name {
		case "true":
			return cBool(true), nil
		case "false":
			return cBool(false), nil
		}
		if c, ok := p.m.consts[v.Name]; ok {
			if c > 0xFFFFFFFF {
				return nil, p.errf(e, "constant %s does not fit 32 bits", v.Name)
			}
			return cInt{int64(c), kUntyped}, nil
		}
		if _, ok := p.pkgVars[v.Name]; ok {
			return p.pkgVar(v.Name, e)
		}
		if p.m.helpers[v.Name] != nil {
			return &funcVal{v.Name}, nil
		}
		if fd := p.pkgFuncs[v.Name]; fd != nil && !p.inPkgInit {
			return &closureVal{typ: fd.Type, body: fd.Body, env: nil, at: fd}, nil
		}
		return nil, p.errf(e, "identifier %s not understood", v.Name)
	case *ast.UnaryExpr:
		x, err := p.eval(v.X)
		if err != nil {
			return nil, err
		}
		switch v.Op {
		case token.AND:
			if a, ok := x.(*arrVal); ok && !a.slice {
				if a.readonly {
					return nil, p.errf(e, "address of a package-level table: it could be changed through the pointer, refused")
				}
				return &ptrVal{a}, nil
			}
			return nil, p.errf(e, "& of something that is not an array variable")
		case token.SUB:
			if c, ok := x.(cInt); ok && c.k != kUnsigned {
				return p.binConst(token.SUB, cInt{0, c.k}, c, e)
			}
		case token.ADD:
			if c, ok := x.(cInt); ok {
				return c, nil
			}
		case token.NOT:
			if b, ok := x.(cBool); ok {
				return !b, nil
			}
		}
		return nil, p.errf(e, "unary %s not understood here", v.Op)
	case *ast.BinaryExpr:
		if v.Op == token.LAND || v.Op == token.LOR {
			l, err := p.eval(v.X)
			if err != nil {
				return nil, err
			}
			lb, ok := l.(cBool)
			if !ok {
				return nil, p.errf(v.X, "operand of %s is not a constant condition", v.Op)
			}
			if (v.Op == token.LAND && !bool(lb)) || (v.Op == token.LOR && bool(lb)) {
				return lb, nil
			}
			r, err := p.eval(v.Y)
			if err != nil {
				return nil, err
			}
			rb, ok := r.(cBool)
			if !ok {
				return nil, p.errf(v.Y, "operand of %s is not a constant condition", v.Op)
			}
			return rb, nil
		}
		l, err := p.eval(v.X)
		if err != nil {
			return nil, err
		}
		r, err := p.eval(v.Y)
		if err != nil {
			return nil, err
		}
		lc, lok := l.(cInt)
		rc, rok := r.(cInt)
		if lok && rok {
			return p.binConst(v.Op, lc, rc, e)
		}
		if lb, ok := l.(cBool); ok {
			if rb, ok := r.(cBool); ok && (v.Op == token.EQL || v.Op == token.NEQ) {
				return cBool((lb == rb) == (v.Op == token.EQL)), nil
			}
		}
		return p.binTerm(v.Op, l, r, e)
	case *ast.IndexExpr:
		x, err := p.eval(v.X)
		if err != nil {
			return nil, err
		}
		iv, err := p.eval(v.Index)
		if err != nil {
			return nil, err
		}
		ic, ok := iv.(cInt)
		if !ok {
			return nil, p.errf(v.Index, "index is not a constant: it depends on the input")
		}
		if _, ok := x.(chunkVal); ok {
			if ic.v < 0 || ic.v >= 64 {
				return nil, p.errf(e, "byte %d of the chunk: callers pass 64 bytes, this would panic", ic.v)
			}
			return &term{kind: tBytes, parts: []bytePart{{ic.v, 0}}}, nil
		}
		if q, ok := x.(*ptrVal); ok {
			x = q.arr
		}
		a, ok := x.(*arrVal)
		if !ok {
			return nil, p.errf(e, "indexing something that is not an array, a slice or the chunk")
		}
		if ic.v < 0 || int(ic.v) >= len(a.cells) {
			return nil, p.errf(e, "index %d out of range [0,%d): Go would panic", ic.v, len(a.cells))
		}
		return a.cells[ic.v], nil
	case *ast.SelectorExpr:
		x, err := p.eval(v.X)
		if err != nil {
			return nil, err
		}
		if _, ok := x.(recvVal); ok {
			if v.Sel.Name != "state" {
				return nil, p.errf(e, "field %s.%s: processChunk may only touch %s.state", p.recv, v.Sel.Name, p.recv)
			}
			return p.state, nil
		}
		s, ok := x.(*structVal)
		if !ok {
			return nil, p.errf(e, "selector on something that is not a struct value")
		}
		f, ok := s.fields[v.Sel.Name]
		if !ok {
			return nil, p.errf(e, "no field %s", v.Sel.Name)
		}
		return f, nil
	case *ast.CompositeLit:
		if v.Type == nil {
			return nil, p.errf(e, "composite literal without a type")
		}
		t, err := p.resolveType(v.Type)
		if err != nil {
			return nil, err
		}
		return p.compositeLit(v, t)
	case *ast.CallExpr:
		return p.call(v)
	case *ast.StarExpr:
		x, err := p.eval(v.X)
		if err != nil {
			return nil, err
		}
		if q, ok := x.(*ptrVal); ok {
			return q.arr, nil
		}
		return nil, p.errf(e, "* of something that is not a pointer to an array")
	case *ast.FuncLit:
		if p.inPkgInit {
			return nil, p.errf(e, "function literal in a package-level initialiser")
		}
		if p.loopDepth > 0 {
			return nil, p.errf(e, "function literal created inside a loop: it would capture per-iteration variables, refused")
		}
		return &closureVal{typ: v.Type, body: v.Body, env: p.sc, at: v}, nil
	}
	return nil, p.errf(e, "expression shape %T is not in the evaluated fragment", e)
}

func (p *peval) call(c *ast.CallExpr) (any, error) {
	if c.Ellipsis != token.NoPos {
		return nil, p.errf(c, "variadic call not understood")
	}
	// conversions and len
	if id, ok := c.Fun.(*ast.Ident); ok && p.sc.lookup(id.Name) == nil {
		if k, isInt := intKinds[id.Name]; isInt && len(c.Args) == 1 {
			x, err := p.eval(c.Args[0])
			if err != nil {
				return nil, err
			}
			switch a := x.(type) {
			case cInt:
				return p.conv(cInt{a.v, kUntyped}, k, c)
			case *term:
				if id.Name == "uint32" {
					if a.kind == tBytes {
						if a.wide || len(a.parts) != 1 {
							return nil, p.errf(c, "conversion of assembled bytes")
						}
						return &term{kind: tBytes, wide: true, parts: a.parts}, nil
					}
					return a, nil // uint32(uint32 value)
				}
			}
			return nil, p.errf(c, "conversion %s(…) of this value not understood", id.Name)
		}
		if narrowInts[id.Name] {
			return nil, p.errf(c, "conversion to %s: narrower than 32 bits, wrap-around is not modelled", id.Name)
		}
		if id.Name == "len" && len(c.Args) == 1 {
			x, err := p.eval(c.Args[0])
			if err != nil {
				return nil, err
			}
			if q, ok := x.(*ptrVal); ok {
				x = q.arr
			}
			if a, ok := x.(*arrVal); ok {
				return cInt{int64(len(a.cells)), kSigned}, nil
			}
			return nil, p.errf(c, "len of something that is not an array or a literal slice")
		}
	}
	// binary.LittleEndian.Uint32(chunk[c:]) / (chunk[c:d])
	if s1, ok := c.Fun.(*ast.SelectorExpr); ok && s1.Sel.Name == "Uint32" && selIs(s1.X, "binary", "LittleEndian") && p.sc.lookup("binary") == nil {
		if len(c.Args) != 1 {
			return nil, p.errf(c, "Uint32: one argument expected")
		}
		sl, ok := c.Args[0].(*ast.SliceExpr)
		if !ok || sl.Max != nil || sl.Low == nil {
			return nil, p.errf(c, "Uint32: expected %s[c:] or %s[c:d]", p.chunk, p.chunk)
		}
		if xv, err := p.eval(sl.X); err != nil {
			return nil, err
		} else if _, ok := xv.(chunkVal); !ok {
			return nil, p.errf(c, "Uint32 of something other than a slice of the parameter %s", p.chunk)
		}
		lo, err := p.eval(sl.Low)
		if err != nil {
			return nil, err
		}
		lc, ok := lo.(cInt)
		if !ok || lc.v < 0 || lc.v%4 != 0 || lc.v/4 >= 16 {
			return nil, p.errf(sl.Low, "word offset is not a constant multiple of 4 below 64")
		}
		if sl.High != nil {
			hi, err := p.eval(sl.High)
			if err != nil {
				return nil, err
			}
			hc, ok := hi.(cInt)
			if !ok || hc.v < lc.v+4 || hc.v > 64 {
				return nil, p.errf(sl.High, "upper bound of the word slice is not a constant in [c+4, 64]")
			}
		}
		return &term{kind: tWord, idx: int(lc.v / 4)}, nil
	}
	// helper call (by name or through a function value held in a table)
	fv, err := p.eval(c.Fun)
	if err != nil {
		return nil, err
	}
	if cl, ok := fv.(*closureVal); ok {
		return p.callClosure(cl, c)
	}
	f, ok := fv.(*funcVal)
	if !ok || f == nil || p.m.helpers[f.name] == nil {
		return nil, p.errf(c, "call of something that is not one of the file's uint32 helpers")
	}
	if p.inPkgInit {
		return nil, p.errf(c, "helper call in a package-level initialiser")
	}
	ps, err := p.m.helperParams(p.m.helpers[f.name])
	if err != nil {
		return nil, err
	}
	if len(ps) != len(c.Args) {
		return nil, p.errf(c, "wrong number of arguments for %s", f.name)
	}
	t := &term{kind: tCall, fn: f.name, at: c}
	for _, a := range c.Args {
		x, err := p.eval(a)
		if err != nil {
			return nil, err
		}
		switch av := x.(type) {
		case cInt:
			cv, err := p.conv(cInt{av.v, kUntyped}, kUnsigned, a)
			if err != nil || av.k == kSigned {
				return nil, p.errf(a, "constant argument is not an (untyped or unsigned) uint32 constant")
			}
			t.args = append(t.args, cv)
		case *term:
			if av.kind != tInit && av.kind != tWord && av.kind != tCall {
				return nil, p.errf(a, "argument is neither a register, a state word, a message word nor a constant")
			}
			t.args = append(t.args, av)
		default:
			return nil, p.errf(a, "argument shape not understood")
		}
	}
	t.seq = len(p.calls)
	p.calls = append(p.calls, t)
	return t, nil
}

// callClosure executes the body of a function literal (N7) or of a package-level function that is not one
// of the uint32 helpers (N8) on the evaluated arguments.
func (p *peval) callClosure(cl *closureVal, c *ast.CallExpr) (any, error) {
	if p.fnDepth >= 8 {
		return nil, p.errf(c, "functions nested more than 8 calls deep (recursion?), refused")
	}
	if cl.body == nil {
		return nil, p.errf(c, "function without a body")
	}
	ft := cl.typ
	if ft.TypeParams != nil {
		return nil, p.errf(c, "generic function")
	}
	var pnames []string
	var ptypes []*gtype
	for _, f := range ft.Params.List {
		if _, ok := f.Type.(*ast.Ellipsis); ok || len(f.Names) == 0 {
			return nil, p.errf(f, "variadic or unnamed parameter")
		}
		t, err := p.resolveType(f.Type)
		if err != nil {
			return nil, err
		}
		for _, n := range f.Names {
			pnames = append(pnames, n.Name)
			ptypes = append(ptypes, t)
		}
	}
	if len(pnames) != len(c.Args) {
		return nil, p.errf(c, "wrong number of arguments")
	}
	var rtypes []*gtype
	var rnames []string
	if ft.Results != nil {
		for _, f := range ft.Results.List {
			t, err := p.resolveType(f.Type)
			if err != nil {
				return nil, err
			}
			if len(f.Names) == 0 {
				rtypes = append(rtypes, t)
				rnames = append(rnames, "")
			}
			for _, n := range f.Names {
				rtypes = append(rtypes, t)
				rnames = append(rnames, n.Name)
			}
		}
	}
	args := make([]any, len(c.Args))
	for i, a := range c.Args {
		x, err := p.eval(a)
		if err != nil {
			return nil, err
		}
		if args[i], err = p.coerce(copyVal(x), ptypes[i], a); err != nil {
			return nil, err
		}
	}
	saveSc, saveRet := p.sc, p.retVal
	p.sc = &scope{vars: map[string]*any{}, parent: cl.env}
	p.fnDepth++
	defer func() { p.sc, p.retVal = saveSc, saveRet; p.fnDepth-- }()
	fnScope := p.sc
	for i, n := range pnames {
		p.declare(n, args[i])
	}
	for i, n := range rnames {
		if n == "" {
			continue
		}
		z, err := p.zero(rtypes[i], ft.Results)
		if err != nil {
			return nil, err
		}
		p.declare(n, z)
	}
	p.retVal = nil
	ct, err := p.block(cl.body.List)
	if err != nil {
		return nil, err
	}
	if len(rtypes) == 0 {
		return nil, nil
	}
	if ct != ctlReturn {
		return nil, p.errf(cl.at, "function with a result ends without return")
	}
	var rvs []any
	if tv, ok := p.retVal.(tupleVal); ok {
		rvs = tv
	} else if p.retVal == nil { // bare return: the named results
		for _, n := range rnames {
			ptr, ok := fnScope.vars[n]
			if !ok {
				return nil, p.errf(cl.at, "bare return without named results")
			}
			rvs = append(rvs, *ptr)
		}
	}
	if len(rvs) != len(rtypes) {
		return nil, p.errf(cl.at, "number of returned values differs from the declared results")
	}
	out := make(tupleVal, len(rvs))
	for i, rv := range rvs {
		if out[i], err = p.coerce(copyVal(rv), rtypes[i], cl.at); err != nil {
			return nil, err
		}
	}
	if len(out) == 1 {
		return out[0], nil
	}
	return out, nil
}

// ---- places (assignable locations) -----------------------------------------------------------------

type place struct {
	ptr   *any    // variable
	arr   *arrVal // or array cell
	idx   int
	blank bool
	at    ast.Node
}

func (p *peval) placeOf(e ast.Expr) (*place, error) {
	switch v := e.(type) {
	case *ast.ParenExpr:
		return p.placeOf(v.X)
	case *ast.Ident:
		if v.Name == "_" {
			return &place{blank: true, at: e}, nil
		}
		ptr := p.sc.lookup(v.Name)
		if ptr == nil {
			return nil, p.errf(e, "assignment to %s, which is not a local variable of processChunk", v.Name)
		}
		return &place{ptr: ptr, at: e}, nil
	case *ast.IndexExpr:
		x, err := p.eval(v.X)
		if err != nil {
			return nil, err
		}
		if q, ok := x.(*ptrVal); ok {
			x = q.arr
		}
		a, ok := x.(*arrVal)
		if !ok {
			return nil, p.errf(e, "assignment to an element of something that is not an array")
		}
		if a.readonly {
			return nil, p.errf(e, "assignment to an element of a package-level table: the tables are read as constants, refused")
		}
		iv, err := p.eval(v.Index)
		if err != nil {
			return nil, err
		}
		ic, ok := iv.(cInt)
		if !ok {
			return nil, p.errf(v.Index, "index is not a constant: it depends on the input")
		}
		if ic.v < 0 || int(ic.v) >= len(a.cells) {
			return nil, p.errf(e, "index %d out of range [0,%d): Go would panic", ic.v, len(a.cells))
		}
		return &place{arr: a, idx: int(ic.v), at: e}, nil
	case *ast.SelectorExpr:
		if x, err := p.eval(v.X); err != nil {
			return nil, err
		} else if _, ok := x.(recvVal); ok && v.Sel.Name == "state" {
			// whole-array assignment md4.state = <array>: cell by cell
			return &place{arr: nil, idx: -1, at: e}, nil
		}
	}
	return nil, p.errf(e, "assignment target shape %T not understood", e)
}

func (pl *place) get() any {
	if pl.ptr != nil {
		return *pl.ptr
	}
	if pl.arr != nil {
		return pl.arr.cells[pl.idx]
	}
	return nil
}

// store puts v (already copied) into the place, keeping the kind of the constant that was there.
func (p *peval) store(pl *place, v any) error {
	if pl.blank {
		return nil
	}
	if pl.ptr == nil && pl.arr == nil { // md4.state = array
		a, ok := v.(*arrVal)
		if !ok || a.slice || len(a.cells) != 4 {
			return p.errf(pl.at, "%s.state assigned something that is not a [4]uint32", p.recv)
		}
		for i := range a.cells {
			if err := p.store(&place{arr: p.state, idx: i, at: pl.at}, a.cells[i]); err != nil {
				return err
			}
		}
		return nil
	}
	old := pl.get()
	switch ov := old.(type) {
	case cInt:
		switch nv := v.(type) {
		case cInt:
			if nv.k != kUntyped && nv.k != ov.k {
				return p.errf(pl.at, "signed/unsigned kinds of the stored constant and its place differ")
			}
			c, err := p.conv(nv, ov.k, pl.at)
			if err != nil {
				return err
			}
			v = c
		case *term:
			if ov.k != kUnsigned || nv.kind == tBytes {
				return p.errf(pl.at, "a uint32 value stored in a place of another type")
			}
		default:
			return p.errf(pl.at, "stored value does not have the type of its place")
		}
	case *term:
		switch nv := v.(type) {
		case cInt:
			c, err := p.conv(cInt{nv.v, kUntyped}, kUnsigned, pl.at)
			if err != nil || nv.k == kSigned {
				return p.errf(pl.at, "constant stored in a uint32 place is not a uint32 constant")
			}
			v = c
		case *term:
			if nv.kind == tBytes {
				return p.errf(pl.at, "unassembled bytes of the chunk stored in a variable")
			}
		default:
			return p.errf(pl.at, "stored value does not have the type of its place")
		}
	case cBool:
		if _, ok := v.(cBool); !ok {
			return p.errf(pl.at, "stored value does not have the type of its place")
		}
	case *arrVal:
		nv, ok := v.(*arrVal)
		if !ok || nv.slice != ov.slice || (!ov.slice && len(nv.cells) != len(ov.cells)) {
			return p.errf(pl.at, "stored value does not have the type of its place")
		}
	case *structVal:
		if _, ok := v.(*structVal); !ok {
			return p.errf(pl.at, "stored value does not have the type of its place")
		}
	case *funcVal:
		if f, ok := v.(*funcVal); !ok || f == nil {
			return p.errf(pl.at, "stored value does not have the type of its place")
		}
	default:
		return p.errf(pl.at, "place holds a value that is not understood")
	}
	if pl.arr == p.state {
		if t, ok := v.(*term); !ok || t.kind == tBytes || t.kind == tWord {
			return p.errf(pl.at, "%s.state[%d] is given something that is not a register value", p.recv, pl.idx)
		}
	} else if t, ok := v.(*term); ok && t.kind == tSum {
		return p.errf(pl.at, "a sum with a state word is only understood as the final value of %s.state[k]", p.recv)
	}
	if pl.ptr != nil {
		*pl.ptr = v
	} else {
		pl.arr.cells[pl.idx] = v
	}
	return nil
}

// ---- statements ----------------------------------------------------------------------------------

func (p *peval) push() { p.sc = &scope{vars: map[string]*any{}, parent: p.sc} }
func (p *peval) pop()  { p.sc = p.sc.parent }

func (p *peval) declare(name string, v any) {
	if name == "_" {
		return
	}
	vv := v
	p.sc.vars[name] = &vv
}

func (p *peval) block(list []ast.Stmt) (ctl, error) {
	p.push()
	defer p.pop()
	for _, s := range list {
		c, err := p.exec(s)
		if err != nil || c != ctlNone {
			return c, err
		}
	}
	return ctlNone, nil
}

// defaultKind: a value bound by `:=` / untyped `var` gets its default type (untyped constant -> int).
func (p *peval) defaultKind(v any, at ast.Node) (any, error) {
	if c, ok := v.(cInt); ok && c.k == kUntyped {
		return p.conv(c, kSigned, at)
	}
	if t, ok := v.(*term); ok && (t.kind == tBytes || t.kind == tSum) {
		return nil, p.errf(at, "this value cannot be held in a variable (unassembled chunk bytes / feed-forward sum)")
	}
	if f, ok := v.(*funcVal); ok && f == nil {
		return nil, p.errf(at, "nil function value")
	}
	if _, ok := v.(chunkVal); ok {
		return nil, p.errf(at, "the chunk parameter may only be read word by word")
	}
	if _, ok := v.(recvVal); ok {
		return nil, p.errf(at, "the receiver may not be copied or passed on")
	}
	if _, ok := v.(tupleVal); ok {
		return nil, p.errf(at, "several values where one is expected")
	}
	return v, nil
}

func (p *peval) exec(s ast.Stmt) (ctl, error) {
	p.budget--
	if p.budget < 0 {
		return ctlNone, p.errf(s, "more than 100000 statements executed: no constant bound found, refused")
	}
	switch v := s.(type) {
	case *ast.EmptyStmt:
		return ctlNone, nil
	case *ast.BlockStmt:
		return p.block(v.List)
	case *ast.DeclStmt:
		gd, ok := v.Decl.(*ast.GenDecl)
		if !ok || (gd.Tok != token.VAR && gd.Tok != token.CONST) {
			return ctlNone, p.errf(s, "local declaration not understood")
		}
		for _, sp := range gd.Specs {
			vs := sp.(*ast.ValueSpec)
			var t *gtype
			if vs.Type != nil {
				var err error
				if t, err = p.resolveType(vs.Type); err != nil {
					return ctlNone, err
				}
			}
			if len(vs.Values) == 0 {
				if t == nil || gd.Tok == token.CONST {
					return ctlNone, p.errf(vs, "declaration without type or value (iota / implicit repetition) not understood")
				}
				for _, n := range vs.Names {
					z, err := p.zero(t, vs)
					if err != nil {
						return ctlNone, err
					}
					p.declare(n.Name, z)
				}
				continue
			}
			if len(vs.Values) != len(vs.Names) {
				return ctlNone, p.errf(vs, "declaration with a multi-valued initialiser")
			}
			vals := make([]any, len(vs.Values))
			for i, e := range vs.Values {
				var x any
				var err error
				if t != nil {
					x, err = p.evalTyped(e, t)
				} else {
					x, err = p.eval(e)
					if err == nil && gd.Tok == token.VAR {
						x, err = p.defaultKind(copyVal(x), e)
					}
				}
				if err != nil {
					return ctlNone, err
				}
				if gd.Tok == token.CONST {
					if _, ok := x.(cInt); !ok {
						if _, ok := x.(cBool); !ok {
							return ctlNone, p.errf(e, "constant declaration is not an integer or boolean constant")
						}
					}
				}
				vals[i] = x
			}
			for i, n := range vs.Names {
				p.declare(n.Name, vals[i])
			}
		}
		return ctlNone, nil
	case *ast.AssignStmt:
		return ctlNone, p.assign(v)
	case *ast.IncDecStmt:
		pl, err := p.placeOf(v.X)
		if err != nil {
			return ctlNone, err
		}
		c, ok := pl.get().(cInt)
		if !ok {
			return ctlNone, p.errf(s, "++/-- on something that is not an integer constant")
		}
		op := token.ADD
		if v.Tok == token.DEC {
			op = token.SUB
		}
		r, err := p.binConst(op, c, cInt{1, kUntyped}, s)
		if err != nil {
			return ctlNone, err
		}
		return ctlNone, p.store(pl, r)
	case *ast.IfStmt:
		p.push()
		defer p.pop()
		if v.Init != nil {
			if _, err := p.exec(v.Init); err != nil {
				return ctlNone, err
			}
		}
		cv, err := p.eval(v.Cond)
		if err != nil {
			return ctlNone, err
		}
		b, ok := cv.(cBool)
		if !ok {
			return ctlNone, p.errf(v.Cond, "condition is not a constant: it depends on the input")
		}
		if b {
			return p.block(v.Body.List)
		}
		if v.Else != nil {
			return p.exec(v.Else)
		}
		return ctlNone, nil
	case *ast.ForStmt:
		p.push()
		defer p.pop()
		if v.Init != nil {
			if _, err := p.exec(v.Init); err != nil {
				return ctlNone, err
			}
		}
		for {
			p.budget--
			if p.budget < 0 {
				return ctlNone, p.errf(s, "more than 100000 statements executed: no constant bound found, refused")
			}
			if v.Cond != nil {
				cv, err := p.eval(v.Cond)
				if err != nil {
					return ctlNone, err
				}
				b, ok := cv.(cBool)
				if !ok {
					return ctlNone, p.errf(v.Cond, "loop condition is not a constant: the bound depends on the input")
				}
				if !b {
					break
				}
			}
			p.loopDepth++
			c, err := p.block(v.Body.List)
			p.loopDepth--
			if err != nil {
				return ctlNone, err
			}
			if c == ctlBreak {
				break
			}
			if c == ctlReturn {
				return c, nil
			}
			if v.Post != nil {
				if _, err := p.exec(v.Post); err != nil {
					return ctlNone, err
				}
			}
		}
		return ctlNone, nil
	case *ast.RangeStmt:
		if v.Tok != token.DEFINE && (v.Key != nil || v.Value != nil) {
			return ctlNone, p.errf(s, "range with `=` instead of `:=` not understood")
		}
		xv, err := p.eval(v.X)
		if err != nil {
			return ctlNone, err
		}
		n := 0
		var arr *arrVal
		switch x := xv.(type) {
		case cInt:
			if x.v < 0 || x.v > 4096 {
				return ctlNone, p.errf(v.X, "range over an integer outside 0..4096")
			}
			if v.Value != nil {
				return ctlNone, p.errf(s, "range over an integer with two variables")
			}
			n = int(x.v)
		case *ptrVal:
			n = len(x.arr.cells)
			arr = x.arr
		case *arrVal:
			n = len(x.cells)
			arr = x
			if v.Value != nil && !x.slice {
				arr = copyVal(x).(*arrVal) // Go ranges over a copy of an array when the element is used
			}
		default:
			return ctlNone, p.errf(v.X, "range over something that is not an array, a slice or an integer constant")
		}
		name := func(e ast.Expr) (string, error) {
			if e == nil {
				return "_", nil
			}
			id, ok := e.(*ast.Ident)
			if !ok {
				return "", p.errf(e, "range variable is not an identifier")
			}
			return id.Name, nil
		}
		kn, err := name(v.Key)
		if err != nil {
			return ctlNone, err
		}
		vn, err := name(v.Value)
		if err != nil {
			return ctlNone, err
		}
		for i := 0; i < n; i++ {
			p.push()
			p.declare(kn, cInt{int64(i), kSigned})
			if arr != nil && vn != "_" {
				ev, err := p.defaultKind(copyVal(arr.cells[i]), v.Value)
				if err != nil {
					p.pop()
					return ctlNone, err
				}
				p.declare(vn, ev)
			}
			p.loopDepth++
			c, err := p.block(v.Body.List)
			p.loopDepth--
			p.pop()
			if err != nil {
				return ctlNone, err
			}
			if c == ctlBreak {
				break
			}
			if c == ctlReturn {
				return c, nil
			}
		}
		return ctlNone, nil
	case *ast.SwitchStmt:
		p.push()
		defer p.pop()
		if v.Init != nil {
			if _, err := p.exec(v.Init); err != nil {
				return ctlNone, err
			}
		}
		var tag any = cBool(true)
		if v.Tag != nil {
			var err error
			if tag, err = p.eval(v.Tag); err != nil {
				return ctlNone, err
			}
			if c, ok := tag.(cInt); ok && c.k == kUntyped {
				tag = cInt{c.v, kSigned}
			}
		}
		switch tag.(type) {
		case cInt, cBool:
		default:
			return ctlNone, p.errf(s, "switch tag is not a constant: it depends on the input")
		}
		var chosen, deflt *ast.CaseClause
	clauses:
		for _, cs := range v.Body.List {
			cc := cs.(*ast.CaseClause)
			if cc.List == nil {
				deflt = cc
				continue
			}
			for _, ce := range cc.List {
				cv, err := p.eval(ce)
				if err != nil {
					return ctlNone, err
				}
				match := false
				switch t := tag.(type) {
				case cBool:
					b, ok := cv.(cBool)
					if !ok {
						return ctlNone, p.errf(ce, "case is not a constant condition")
					}
					match = b == t
				case cInt:
					c, ok := cv.(cInt)
					if !ok || (c.k != kUntyped && c.k != t.k) {
						return ctlNone, p.errf(ce, "case is not a constant of the tag's type")
					}
					match = c.v == t.v
				}
				if match {
					chosen = cc
					break clauses
				}
			}
		}
		if chosen == nil {
			chosen = deflt
		}
		if chosen == nil {
			return ctlNone, nil
		}
		for _, st := range chosen.Body {
			if b, ok := st.(*ast.BranchStmt); ok && b.Tok == token.FALLTHROUGH {
				return ctlNone, p.errf(st, "fallthrough not understood")
			}
		}
		c, err := p.block(chosen.Body)
		if c == ctlBreak {
			c = ctlNone
		}
		return c, err
	case *ast.BranchStmt:
		if v.Label != nil {
			return ctlNone, p.errf(s, "labelled %s not understood", v.Tok)
		}
		switch v.Tok {
		case token.BREAK:
			return ctlBreak, nil
		case token.CONTINUE:
			return ctlContinue, nil
		}
		return ctlNone, p.errf(s, "%s not understood", v.Tok)
	case *ast.ReturnStmt:
		if p.fnDepth > 0 {
			p.retVal = nil
			var tv tupleVal
			for _, r := range v.Results {
				x, err := p.eval(r)
				if err != nil {
					return ctlNone, err
				}
				if x == nil {
					return ctlNone, p.errf(s, "return of a call without a value")
				}
				if _, ok := x.(tupleVal); ok {
					return ctlNone, p.errf(s, "return of a call with several values")
				}
				tv = append(tv, copyVal(x))
			}
			if len(tv) > 0 {
				p.retVal = tv
			}
			return ctlReturn, nil
		}
		if len(v.Results) != 0 {
			return ctlNone, p.errf(s, "processChunk returns a value")
		}
		return ctlReturn, nil
	case *ast.ExprStmt:
		// only a call of a function literal may stand as a statement
		ce, ok := v.X.(*ast.CallExpr)
		if !ok {
			return ctlNone, p.errf(s, "expression statement that is not a call")
		}
		fv, err := p.eval(ce.Fun)
		if err != nil {
			return ctlNone, err
		}
		if _, ok := fv.(*closureVal); !ok {
			return ctlNone, p.errf(s, "call statement of something that is not a function literal of processChunk")
		}
		_, err = p.call(ce)
		return ctlNone, err
	}
	return ctlNone, p.errf(s, "statement shape %T is not in the evaluated fragment", s)
}

func (p *peval) assign(s *ast.AssignStmt) error {
	switch s.Tok {
	case token.DEFINE, token.ASSIGN:
		var tuple tupleVal
		if len(s.Lhs) > 1 && len(s.Rhs) == 1 {
			// a, b, c, d = f(…): a function literal or package-level function with several results
			if _, ok := s.Rhs[0].(*ast.CallExpr); !ok {
				return p.errf(s, "assignment from a multi-valued expression that is not a call")
			}
		} else if len(s.Lhs) != len(s.Rhs) {
			return p.errf(s, "assignment from a multi-valued expression")
		}
		// Go: index operands on the left and all operands on the right are evaluated first, then the
		// assignments happen left to right.
		places := make([]*place, len(s.Lhs))
		fresh := make([]string, len(s.Lhs))
		for i, l := range s.Lhs {
			if s.Tok == token.DEFINE {
				id, ok := l.(*ast.Ident)
				if !ok {
					return p.errf(l, ":= to something that is not an identifier")
				}
				if _, here := p.sc.vars[id.Name]; !here || id.Name == "_" {
					fresh[i] = id.Name
					continue
				}
			}
			pl, err := p.placeOf(l)
			if err != nil {
				return err
			}
			places[i] = pl
		}
		vals := make([]any, len(s.Lhs))
		if len(s.Lhs) > 1 && len(s.Rhs) == 1 {
			x, err := p.eval(s.Rhs[0])
			if err != nil {
				return err
			}
			tv, ok := x.(tupleVal)
			if !ok || len(tv) != len(s.Lhs) {
				return p.errf(s, "call does not give as many values as are assigned")
			}
			tuple = tv
		}
		for i := range s.Lhs {
			// `_ = chunk[c]`: bounds-check hint
			var x any
			var r ast.Expr = s.Rhs[0]
			var err error
			if tuple != nil {
				x = tuple[i]
			} else {
				r = s.Rhs[i]
				if x, err = p.eval(r); err != nil {
					return err
				}
			}
			if places[i] != nil && places[i].blank {
				vals[i] = nil
				continue
			}
			if fresh[i] != "" {
				if fresh[i] == "_" {
					continue
				}
				if x, err = p.defaultKind(copyVal(x), r); err != nil {
					return err
				}
			} else {
				x = copyVal(x)
			}
			vals[i] = x
		}
		for i := range s.Lhs {
			if fresh[i] != "" {
				p.declare(fresh[i], vals[i])
				continue
			}
			if err := p.store(places[i], vals[i]); err != nil {
				return err
			}
		}
		return nil
	}
	ops := map[token.Token]token.Token{token.ADD_ASSIGN: token.ADD, token.SUB_ASSIGN: token.SUB, token.MUL_ASSIGN: token.MUL,
		token.QUO_ASSIGN: token.QUO, token.REM_ASSIGN: token.REM, token.AND_ASSIGN: token.AND, token.OR_ASSIGN: token.OR,
		token.XOR_ASSIGN: token.XOR, token.SHL_ASSIGN: token.SHL, token.SHR_ASSIGN: token.SHR, token.AND_NOT_ASSIGN: token.AND_NOT}
	op, ok := ops[s.Tok]
	if !ok || len(s.Lhs) != 1 || len(s.Rhs) != 1 {
		return p.errf(s, "assignment operator %s not understood", s.Tok)
	}
	pl, err := p.placeOf(s.Lhs[0])
	if err != nil {
		return err
	}
	if pl.blank || (pl.ptr == nil && pl.arr == nil) {
		return p.errf(s, "operator assignment to this target not understood")
	}
	r, err := p.eval(s.Rhs[0])
	if err != nil {
		return err
	}
	var res any
	lc, lok := pl.get().(cInt)
	rc, rok := r.(cInt)
	if lok && rok {
		res, err = p.binConst(op, lc, rc, s)
	} else {
		res, err = p.binTerm(op, pl.get(), r, s)
	}
	if err != nil {
		return err
	}
	return p.store(pl, res)
}

// ---- driver --------------------------------------------------------------------------------------

// kernelStep is one step of the canonical sequence.
type kernelStep struct {
	reg  int // canonical register written (0..3 = a..d)
	fn   string
	args []string // Lean spelling of each argument
	word int      // message word index or -1
	lit  int64    // last constant argument or -1
	call *term
}

type kernelResult struct {
	steps  []kernelStep
	finals [4]string // Lean expression of the final md4.state[k]
}

var regNames = [4]string{"a", "b", "c", "d"}
var stPaths = [4]string{"st.1", "st.2.1", "st.2.2.1", "st.2.2.2"}

// evalProcessChunk runs the body of processChunk symbolically and writes the data-flow graph back as the
// canonical `let` sequence (normalisation N4).
func (m *md4x) evalProcessChunk(dir string, file *ast.File, pcFn *ast.FuncDecl) (*kernelResult, error) {
	p := &peval{m: m, pkgFuncs: map[string]*ast.FuncDecl{}, pkgVars: map[string]*ast.ValueSpec{}, pkgVarIx: map[string]int{}, pkgTypes: map[string]ast.Expr{},
		pkgCache: map[string]any{}, pkgBusy: map[string]bool{}, pcFn: pcFn, budget: 100000}
	// every non-test file of the package (the tables may live in another file; so may code that changes them)
	ents, err := os.ReadDir(dir)
	if err != nil {
		return nil, err
	}
	for _, e := range ents {
		n := e.Name()
		if e.IsDir() || !strings.HasSuffix(n, ".go") || strings.HasSuffix(n, "_test.go") {
			continue
		}
		if filepath.Join(dir, n) == m.fset.Position(file.Pos()).Filename {
			p.files = append(p.files, file)
			continue
		}
		f, err := parseGoFile(m.fset, filepath.Join(dir, n))
		if err != nil {
			return nil, err
		}
		p.files = append(p.files, f)
	}
	for _, f := range p.files {
		for _, d := range f.Decls {
			if fd, ok := d.(*ast.FuncDecl); ok && fd.Recv == nil && m.helpers[fd.Name.Name] == nil && fd.Name.Name != "init" {
				p.pkgFuncs[fd.Name.Name] = fd
			}
			gd, ok := d.(*ast.GenDecl)
			if !ok {
				continue
			}
			for _, sp := range gd.Specs {
				switch v := sp.(type) {
				case *ast.ValueSpec:
					if gd.Tok == token.VAR {
						for i, n := range v.Names {
							p.pkgVars[n.Name] = v
							p.pkgVarIx[n.Name] = i
						}
					}
				case *ast.TypeSpec:
					if v.Assign == token.NoPos && v.TypeParams == nil {
						p.pkgTypes[v.Name.Name] = v.Type
					}
				}
			}
		}
	}
	// the evaluator gives `binary`, the basic integer types, len, true and false their usual meaning: refuse a
	// package that gives one of these names another one
	okImport := false
	for _, im := range file.Imports {
		if im.Path.Value == `"encoding/binary"` && (im.Name == nil || im.Name.Name == "binary") {
			okImport = true
		} else if im.Name != nil && im.Name.Name == "binary" {
			return nil, m.errf(im, "the name binary is not encoding/binary")
		}
	}
	_ = okImport // a file without the import cannot mention binary.LittleEndian at all
	reserved := []string{"len", "true", "false", "bool", "binary"}
	for n := range intKinds {
		reserved = append(reserved, n)
	}
	for n := range narrowInts {
		reserved = append(reserved, n)
	}
	for _, f := range p.files {
		for _, d := range f.Decls {
			var names []*ast.Ident
			switch v := d.(type) {
			case *ast.FuncDecl:
				if v.Recv == nil {
					names = append(names, v.Name)
				}
			case *ast.GenDecl:
				for _, sp := range v.Specs {
					switch s := sp.(type) {
					case *ast.ValueSpec:
						names = append(names, s.Names...)
					case *ast.TypeSpec:
						names = append(names, s.Name)
					}
				}
			}
			for _, id := range names {
				for _, r := range reserved {
					if id.Name == r {
						return nil, m.errf(id, "the package declares %s: the evaluator would misread it, refused", r)
					}
				}
			}
		}
	}
	if pcFn.Recv == nil || len(pcFn.Recv.List) != 1 || len(pcFn.Recv.List[0].Names) != 1 {
		return nil, m.errf(pcFn, "processChunk: receiver shape not understood")
	}
	if _, ok := pcFn.Recv.List[0].Type.(*ast.StarExpr); !ok {
		return nil, m.errf(pcFn, "processChunk: value receiver — the state it updates would be a copy")
	}
	p.recv = pcFn.Recv.List[0].Names[0].Name
	if len(pcFn.Type.Params.List) != 1 || len(pcFn.Type.Params.List[0].Names) != 1 {
		return nil, m.errf(pcFn, "processChunk: expected one parameter")
	}
	if at, ok := pcFn.Type.Params.List[0].Type.(*ast.ArrayType); !ok || at.Len != nil {
		return nil, m.errf(pcFn, "processChunk: parameter is not a []byte")
	} else if id, ok := at.Elt.(*ast.Ident); !ok || id.Name != "byte" {
		return nil, m.errf(pcFn, "processChunk: parameter is not a []byte")
	}
	if pcFn.Type.Results != nil && len(pcFn.Type.Results.List) > 0 {
		return nil, m.errf(pcFn, "processChunk: returns a value")
	}
	p.chunk = pcFn.Type.Params.List[0].Names[0].Name
	p.state = &arrVal{cells: []any{&term{kind: tInit, idx: 0}, &term{kind: tInit, idx: 1}, &term{kind: tInit, idx: 2}, &term{kind: tInit, idx: 3}}}
	inits := [4]*term{}
	for i := range inits {
		inits[i] = p.state.cells[i].(*term)
	}
	p.sc = &scope{vars: map[string]*any{}}
	p.declare(p.recv, recvVal{})
	p.declare(p.chunk, chunkVal{})
	if _, err := p.block(pcFn.Body.List); err != nil {
		return nil, err
	}

	// ---- the graph back to a let sequence
	n := len(p.calls)
	lastUse := map[*term]int{}
	for i, c := range p.calls {
		for _, a := range c.args {
			if t, ok := a.(*term); ok && (t.kind == tCall || t.kind == tInit) {
				lastUse[t] = i
			}
		}
	}
	var finalTerms [4]*term
	for k := 0; k < 4; k++ {
		t, ok := p.state.cells[k].(*term)
		if !ok {
			return nil, m.errf(pcFn, "processChunk: final %s.state[%d] is not a register value", p.recv, k)
		}
		finalTerms[k] = t
		u := t
		if t.kind == tSum {
			u = t.of
		}
		if u.kind == tCall || u.kind == tInit {
			lastUse[u] = n
		}
	}
	cur := [4]*term{inits[0], inits[1], inits[2], inits[3]}
	nameOf := func(t *term, at ast.Node) (string, error) {
		for r := 0; r < 4; r++ {
			if cur[r] == t {
				return regNames[r], nil
			}
		}
		if t.kind == tInit {
			return stPaths[t.idx], nil
		}
		return "", m.errf(at, "processChunk: a step uses a value that is no longer held in one of the four registers")
	}
	res := &kernelResult{}
	for i, c := range p.calls {
		st := kernelStep{fn: c.fn, word: -1, lit: -1, call: c}
		first := -1
		for ai, a := range c.args {
			switch av := a.(type) {
			case cInt:
				st.args = append(st.args, fmt.Sprintf("%d", av.v))
				st.lit = av.v
			case *term:
				if av.kind == tWord {
					st.args = append(st.args, fmt.Sprintf("(x %d)", av.idx))
					st.word = av.idx
					continue
				}
				nm, err := nameOf(av, c.at)
				if err != nil {
					return nil, err
				}
				st.args = append(st.args, nm)
				if ai == 0 {
					for r := 0; r < 4; r++ {
						if cur[r] == av {
							first = r
						}
					}
				}
			}
		}
		free := func(r int) bool {
			lu, used := lastUse[cur[r]]
			return !used || lu <= i
		}
		reg := -1
		if first >= 0 && free(first) {
			reg = first
		} else {
			for r := 0; r < 4; r++ {
				if free(r) {
					reg = r
					break
				}
			}
		}
		if reg < 0 {
			return nil, m.errf(c.at, "processChunk: more than four values are alive at this step: not expressible over the registers a, b, c, d")
		}
		cur[reg] = c
		st.reg = reg
		res.steps = append(res.steps, st)
	}
	for k := 0; k < 4; k++ {
		t := finalTerms[k]
		if t.kind == tSum {
			nm, err := nameOf(t.of, pcFn)
			if err != nil {
				return nil, err
			}
			res.finals[k] = stPaths[t.idx] + " + " + nm
			continue
		}
		nm, err := nameOf(t, pcFn)
		if err != nil {
			return nil, err
		}
		res.finals[k] = nm
	}
	return res, nil
}
