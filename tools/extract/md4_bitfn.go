// Bitwise functions in the uint32 helpers of crypto/md4/md4.go (fact Md4Kernel): canonical form by truth table.
//
// N9 — the boolean part of a helper.  A sub-expression built from `&`, `|`, `^`, `&^` and the unary complement `^x`
// whose leaves are parameters of the helper being translated (uint32 words; helperParams has checked the types), the
// literals/constants 0 and 0xFFFFFFFF, or calls of one-line helpers that are themselves such expressions of their
// parameters (N10) computes every result bit from the bits in the SAME position of its leaves: it is one function
// {0,1}^n -> {0,1} applied 32 times.  Two such expressions over the same leaves are equal as uint32 functions iff their
// truth tables are equal, so the maximal sub-expression of this kind is not translated operator by operator: it is
// evaluated on all rows (a 64-row vector over the at most six parameters of the helper), reduced to the parameters it
// really depends on — listed in the order of the helper's parameter list —, and replaced by the NAME of its table:
//
//	d ^ (b & (c ^ d)),  (b & c) | (^b & d),  (b & c) | (d &^ b),  selectF(b, c, d)      ->  (bitfn3_ca b c d)
//	(b & c) | (d & (b | c)),  (b & c) | (b & d) | (c & d),  (b&c) ^ (b&d) ^ (c&d)        ->  (bitfn3_e8 b c d)
//	b ^ c ^ d,  d ^ (c ^ b),  parityH(b, c, d)                                           ->  (bitfn3_96 b c d)
//
// `bitfn<n>_<tt>`: n = number of words it depends on (1..3), tt = the table in hex, bit (4p+2q+r) of it = the value
// where the bits of the first, second, third argument are p, q, r (so RFC 1320's F is 0xca, G 0xe8, H 0x96).  The Lean
// definition of the name is emitted beside its first use as the algebraic normal form of the table (XOR of ANDs of
// the arguments, constant term 0xffffffff): that form is unique per table, so the text of the module is a function of
// the tables alone.  A function of no word is the constant 0x0 / 0xffffffff, the identity on one word is that word.
// What changes the table changes the name, and the theorems that say `bitfn3_ca = F` etc. (Props/C01.lean) no longer
// find it: majority with one `&` turned into `|` is 0xf8/0xfa/0xee/0xfe, the arguments of selectF in another order
// are 0xac/0xd8/…, a complement dropped 0xf8….
//
// Refused (never guessed): a table that depends on more than three words; a bitwise operator with one operand of the
// kind above and one that is not — a shift, a sum, a call that is not inlinable, a literal other than 0 / 0xFFFFFFFF —
// ("mixed": the operand is not a function of one bit position, so no table exists; nothing of the unchanged tree or of
// the test data has this shape).  A bitwise operator all of whose operands are of the other kind (`(x << s) | (x >>
// (32 - s))` in rol) is translated operator by operator as before, `^e` as `~~~e`, `e &^ f` as `e &&& ~~~f`.
//
// N10 — inlining.  A call `h(e1, …, en)` of a uint32 helper (all parameters uint32, body one `return`) whose body is a
// bitwise function of its parameters in the sense of N9, with arguments that are such functions in the caller, IS such
// a function in the caller (substitution of the arguments for the parameters; Go evaluates arguments first and the
// callee has no effects, no panics and no loops, so call and substituted body agree).  Such a helper gets no Lean
// definition of its own; it counts as used.  Any other call is emitted as a call of the translated helper as before.
//
// N11 — named constants.  An identifier that is a package-level constant of the file (constExpr has evaluated it
// inside [0, 2^32)) stands for its value in a helper body, typed or untyped: in a uint32 expression Go converts the
// constant to uint32, and a value in that range is unchanged by the conversion (a constant that does not fit does not
// compile).  It is emitted exactly as the literal would be.  Parameters shadow constants.
package main

import (
	"fmt"
	"go/ast"
	"go/token"
	"math/bits"
	"sort"
	"strings"
)

// bitCtx: the helper being translated.  vec values are truth tables over its parameters: bit r of a vector is the
// value in the row in which parameter j has bit (r>>j)&1.
type bitCtx struct {
	ps   []string          // parameters of the helper being emitted, in order
	env  map[string]uint64 // identifier in scope -> vector (the helper's own parameters, or an inlined callee's)
	rows uint              // 1 << len(ps)
}

func (m *md4x) newBitCtx(ps []string) *bitCtx {
	if len(ps) > 6 {
		return nil // vectors are 64 rows; such a helper is translated operator by operator
	}
	c := &bitCtx{ps: ps, env: map[string]uint64{}, rows: 1 << uint(len(ps))}
	for j, p := range ps {
		var v uint64
		for r := uint(0); r < c.rows; r++ {
			if (r>>uint(j))&1 == 1 {
				v |= 1 << r
			}
		}
		c.env[p] = v
	}
	return c
}

func (c *bitCtx) mask() uint64 {
	if c.rows == 64 {
		return ^uint64(0)
	}
	return (uint64(1) << c.rows) - 1
}

func isBitwiseOp(t token.Token) bool {
	return t == token.AND || t == token.OR || t == token.XOR || t == token.AND_NOT
}

// pureBits: is e a bitwise function (N9) of the identifiers in env, and which?  `used` collects the helpers inlined.
func (m *md4x) pureBits(e ast.Expr, c *bitCtx, env map[string]uint64, depth int, used map[string]bool) (uint64, bool) {
	if c == nil || depth > 16 {
		return 0, false
	}
	uniform := func(n uint64) (uint64, bool) {
		switch n {
		case 0:
			return 0, true
		case 0xFFFFFFFF:
			return c.mask(), true
		}
		return 0, false
	}
	switch v := e.(type) {
	case *ast.ParenExpr:
		return m.pureBits(v.X, c, env, depth, used)
	case *ast.Ident:
		if vec, ok := env[v.Name]; ok {
			return vec, true
		}
		if n, ok := m.consts[v.Name]; ok {
			return uniform(n)
		}
		return 0, false
	case *ast.BasicLit:
		if n, ok := intLit(v); ok {
			return uniform(n)
		}
		return 0, false
	case *ast.UnaryExpr:
		if v.Op != token.XOR {
			return 0, false
		}
		x, ok := m.pureBits(v.X, c, env, depth, used)
		return ^x & c.mask(), ok
	case *ast.BinaryExpr:
		if !isBitwiseOp(v.Op) {
			return 0, false
		}
		x, ok1 := m.pureBits(v.X, c, env, depth, used)
		y, ok2 := m.pureBits(v.Y, c, env, depth, used)
		if !ok1 || !ok2 {
			return 0, false
		}
		switch v.Op {
		case token.AND:
			return x & y, true
		case token.OR:
			return x | y, true
		case token.XOR:
			return x ^ y, true
		default:
			return x &^ y, true
		}
	case *ast.CallExpr:
		id, ok := v.Fun.(*ast.Ident)
		if !ok {
			return 0, false
		}
		if _, shadowed := env[id.Name]; shadowed {
			return 0, false
		}
		fd := m.helpers[id.Name]
		if fd == nil {
			return 0, false
		}
		ps, err := m.helperParams(fd)
		if err != nil || len(ps) != len(v.Args) || len(fd.Body.List) != 1 {
			return 0, false
		}
		rs, ok := fd.Body.List[0].(*ast.ReturnStmt)
		if !ok || len(rs.Results) != 1 {
			return 0, false
		}
		inner := map[string]uint64{}
		for i, a := range v.Args {
			av, ok := m.pureBits(a, c, env, depth, used)
			if !ok {
				return 0, false
			}
			inner[ps[i]] = av
		}
		if len(inner) != len(ps) {
			return 0, false // a parameter name twice
		}
		r, ok := m.pureBits(rs.Results[0], c, inner, depth+1, used)
		if ok && used != nil {
			used[id.Name] = true
		}
		return r, ok
	}
	return 0, false
}

// canonBits writes the function `vec` of the helper's parameters in canonical form (N9).
func (m *md4x) canonBits(vec uint64, c *bitCtx, at ast.Node) (string, error) {
	var ess []int
	for j := range c.ps {
		for r := uint(0); r < c.rows; r++ {
			if (r>>uint(j))&1 == 0 && (vec>>r)&1 != (vec>>(r|1<<uint(j)))&1 {
				ess = append(ess, j)
				break
			}
		}
	}
	k := len(ess)
	if k > 3 {
		return "", m.errf(at, "bitwise function of %d word arguments: only tables over at most three words are named", k)
	}
	// table over the essential parameters, first one = most significant index bit; the others are set to 0
	var tt uint
	for idx := uint(0); idx < 1<<uint(k); idx++ {
		var r uint
		for i, j := range ess {
			if (idx>>uint(k-1-i))&1 == 1 {
				r |= 1 << uint(j)
			}
		}
		if (vec>>r)&1 == 1 {
			tt |= 1 << idx
		}
	}
	if k == 0 {
		if tt == 0 {
			return "0x0", nil
		}
		return "0xffffffff", nil
	}
	var args []string
	for _, j := range ess {
		args = append(args, c.ps[j])
	}
	if k == 1 && tt == 2 {
		return args[0], nil
	}
	name := fmt.Sprintf("bitfn%d_%0*x", k, (1<<uint(k)+3)/4, tt)
	if _, ok := m.bitfns[name]; !ok {
		m.bitfns[name] = bitfnDef(name, k, tt)
		m.bitfnPending = append(m.bitfnPending, name)
	}
	return "(" + name + " " + strings.Join(args, " ") + ")", nil
}

// anfMasks: the monomials (sets of arguments, as row masks) of the algebraic normal form of table tt over k words.
func anfMasks(k int, tt uint) []uint {
	n := uint(1) << uint(k)
	a := make([]uint, n)
	for i := uint(0); i < n; i++ {
		a[i] = (tt >> i) & 1
	}
	for j := uint(0); j < uint(k); j++ {
		for i := uint(0); i < n; i++ {
			if (i>>j)&1 == 1 {
				a[i] ^= a[i^(1<<j)]
			}
		}
	}
	var masks []uint
	for i := uint(0); i < n; i++ {
		if a[i] == 1 {
			masks = append(masks, i)
		}
	}
	sort.Slice(masks, func(p, q int) bool {
		dp, dq := bits.OnesCount(masks[p]), bits.OnesCount(masks[q])
		if dp != dq {
			return dp < dq
		}
		return masks[p] > masks[q]
	})
	return masks
}

// bitfnDef: the Lean definition of table tt over k words as its algebraic normal form.  Coefficients by the Möbius
// transform of the table; monomials in the order constant, then by degree, then lexicographically by argument.
func bitfnDef(name string, k int, tt uint) string {
	vars := []string{"x", "y", "z"}[:k]
	n := uint(1) << uint(k)
	masks := anfMasks(k, tt)
	var terms []string
	for _, mk := range masks {
		if mk == 0 {
			terms = append(terms, "0xffffffff")
			continue
		}
		t := ""
		for i := 0; i < k; i++ {
			if (mk>>uint(k-1-i))&1 == 1 {
				if t == "" {
					t = vars[i]
				} else {
					t = "(" + t + " &&& " + vars[i] + ")"
				}
			}
		}
		terms = append(terms, t)
	}
	body := "0x0"
	if len(terms) > 0 {
		body = terms[0]
		for _, t := range terms[1:] {
			body = "(" + body + " ^^^ " + t + ")"
		}
	}
	var rows []string
	for i := uint(0); i < n; i++ {
		rows = append(rows, fmt.Sprintf("%0*b↦%d", k, i, (tt>>i)&1))
	}
	return fmt.Sprintf("/-- the bitwise function of %d word(s) with truth table 0x%x (%s, argument bits in the order %s), written as its\n    algebraic normal form; every expression of the source over `& | ^ &^` and complement with this table is this function -/\ndef %s (%s : UInt32) : UInt32 := %s\n",
		k, tt, strings.Join(rows, " "), strings.Join(vars, ""), name, strings.Join(vars, " "), body)
}
