package main

import (
	"os"
	"path/filepath"
	"regexp"
	"strings"
	"testing"
)

// The table shapes of the two SMB factories (smb_dispatch_table.go, D1–D5).  Every file under
// testdata/smbdispatch/harmless is a behaviour-preserving rewrite of commands/0.command_casting.go (the seeded C03-h6:
// two map literals of closures and a lookup helper; map literals in reverse order looked up inside the factories with
// `if v, ok := …; ok`; maps made empty and filled in init(), some entries through named functions, lookup helper with a
// nil test and the arguments the other way round; [256]arrays with `== nil` / `!= nil`) and must regenerate exactly
// the module of the two switch statements.  Every file under breaking is a near miss: b-N1 two codes exchanged, b-N2 a
// response entry that returns the request structure, b-N5 the response factory reading the request table, b-N7 an
// entry dropped must regenerate ANOTHER module; b-N3 (a function of the package writes the table), b-N4 (array of
// 255), b-N6 (test inverted), b-N8 (a key assigned twice in init), b-N9 (exported table) must be REFUSED.
// The rest of package commands is taken from the repository the tools module is built against.
func dispatchRepo(t *testing.T) string {
	if r := os.Getenv("VERIF_REPO"); r != "" {
		return r
	}
	mod, err := os.ReadFile("../go.mod")
	if err == nil {
		if m := regexp.MustCompile(`replace github.com/TheManticoreProject/Manticore => (\S+)`).FindSubmatch(mod); m != nil {
			return string(m[1])
		}
	}
	return "/repo"
}

func TestSmbDispatchTables(t *testing.T) {
	repo := dispatchRepo(t)
	rel := "network/smb/smb_v10/message/commands"
	if _, err := os.Stat(filepath.Join(repo, rel, "0.command_casting.go")); err != nil {
		t.Skipf("repository not found at %s", repo)
	}
	want, _, err := smbDispatch(repo)
	if err != nil {
		t.Fatalf("repository as it is: %v", err)
	}
	run := func(casting string) (string, error) {
		dir := t.TempDir()
		dst := filepath.Join(dir, rel)
		if err := os.CopyFS(dst, os.DirFS(filepath.Join(repo, rel))); err != nil {
			t.Fatal(err)
		}
		data, err := os.ReadFile(casting)
		if err != nil {
			t.Fatal(err)
		}
		if err := os.WriteFile(filepath.Join(dst, "0.command_casting.go"), data, 0o644); err != nil {
			t.Fatal(err)
		}
		lean, _, err := smbDispatch(dir)
		return lean, err
	}
	hs, _ := filepath.Glob("testdata/smbdispatch/harmless/*.go.txt")
	bs, _ := filepath.Glob("testdata/smbdispatch/breaking/*.go.txt")
	if len(hs) < 4 || len(bs) < 9 {
		t.Fatalf("test data missing: %d harmless, %d breaking", len(hs), len(bs))
	}
	for _, f := range hs {
		got, err := run(f)
		if err != nil {
			t.Errorf("%s: refused: %v", f, err)
		} else if got != want {
			t.Errorf("%s: regenerates a different module", f)
		}
	}
	mustRefuse := map[string]bool{"b-N3-table-written-elsewhere": true, "b-N4-array255": true, "b-N6-test-inverted": true,
		"b-N8-init-key-twice": true, "b-N9-exported-table": true}
	for _, f := range bs {
		name := strings.TrimSuffix(filepath.Base(f), ".go.txt")
		got, err := run(f)
		if err == nil && got == want {
			t.Errorf("%s: accepted with the model of the original", f)
		}
		if mustRefuse[name] && err == nil {
			t.Errorf("%s: must be refused", f)
		}
		if !mustRefuse[name] && err != nil {
			t.Errorf("%s: expected another module, was refused: %v", f, err)
		}
	}
}
