package main

// Fact ConstsC15: the epoch constants, tick scales and masks of the time conversions (C15).

func init() {
	facts["ConstsC15"] = constsFact("ConstsC15", "epoch constants, tick scales, masks and shifts of the time conversions (C15)", func(c *cx) {
		ds := c.pkg("windows/ms_dtyp/common/data_structures")
		c.constNat("ft_epoch", ds, "UnixTimestampIn100NsIntervals")
		f := ds.fn("NewFILETIMEFromTime")
		c.named("ftNew", f.assign("value", -1), "mul", "div", "epoch")
		c.named("ftNew_lo", f.assign("DwLowDateTime", -1), "mask")
		c.named("ftNew_hi", f.assign("DwHighDateTime", -1), "shift", "mask")
		r := ds.fn("FILETIME.ToInt64").ret(-1, 0)
		c.named("ftToInt64", r, "himask", "shift", "lomask")
		c.shapeOf("ftToInt64_shape", r)
		g := ds.fn("FILETIME.GetTime").call("time.Unix", -1)
		c.named("ftGetTime", g, "div", "epoch", "epochdiv", "mod", "mul")
		c.shapeOf("ftGetTime_shape", g)

		ld := c.pkg("network/ldap")
		c.constNat("ldap_epoch", ld, "UnixTimestampStart")
		l := ld.fn("ConvertLDAPTimeStampToUnixTimeStamp")
		c.int1Of("ldapToUnix_clampBelow", l.cmp("valueInt", tokLSS, -1))
		c.named("ldapToUnix", l.assign("convertedValue", 2), "epoch", "div")
		c.shapeOf("ldapToUnix_shape", l.assign("convertedValue", 2))
		c.named("ldapParse", l.call("strconv.ParseInt", -1), "base", "bits")
		c.named("unixToLdap", ld.fn("ConvertUnixTimeStampToLDAPTimeStamp").assign("ldapvalue", 0), "mul")
		c.named("unixToLdap_add", ld.fn("ConvertUnixTimeStampToLDAPTimeStamp").assign("ldapvalue", 1), "epoch")
		c.named("ldapDuration", ld.fn("ConvertLDAPDurationToSeconds").assign("convertedValue", 1), "div")
		c.named("secToLdapDuration", ld.fn("ConvertSecondsToLDAPDuration").assign("convertedValue", -1), "mul")

		ku := c.pkg("windows/keycredential/utils")
		n := ku.fn("NewDateTime")
		c.intsOf("kc_epoch1601_date", n.assign("epoch1601", -1))
		c.intsOf("kc_unixEpoch_date", n.assign("unixEpoch", -1))
		c.named("kc_secondsBetween", n.assign("secondsBetween1601AndEpoch", -1), "nsPerSec")
		c.named("kc_newDateTime", n.call("time.Unix", -1), "div", "mod", "mul")
		c.named("kc_now", n.assign("dt.Ticks", 0), "nsPerTick")
		b := ku.fn("ConvertToBinaryTime").assign("timeStamp", -1)
		c.named("kc_toBinary", b, "sec1601", "mul", "div")
		c.shapeOf("kc_toBinary_shape", b)
		fb := ku.fn("ConvertFromBinaryTime")
		c.boolean("kc_fromBinary_le", fb.assign("timeStamp", -1), fb.assign("timeStamp", -1).little())
		c.nat("kc_fromBinary_width", fb.assign("timeStamp", -1), bigInt(fb.assign("timeStamp", -1).width()))
		c.intsOf("kc_fromBinary_zeroDate", fb.then("timeStamp == 0", -1))

		for _, v := range []struct{ dir, typ, epoch, pre string }{
			{"crypto/uuid/uuid_v1", "UUIDv1", "UUIDv1Epoch", "uuid1"},
			{"crypto/uuid/uuid_v2", "UUIDv2", "UUIDv2Epoch", "uuid2"},
		} {
			p := c.pkg(v.dir)
			c.constNat(v.pre+"_epoch", p, v.epoch)
			gt := p.fn(v.typ+".GetTime").call("time.Unix", -1)
			c.named(v.pre+"_getTime", gt, "div", "epoch", "epochdiv", "mod", "mul")
			c.shapeOf(v.pre+"_getTime_shape", gt)
			st := p.fn(v.typ+".SetTime").assign("timestamp", -1)
			c.named(v.pre+"_setTime", st, "epoch", "epochdiv", "mul", "div")
			c.shapeOf(v.pre+"_setTime_shape", st)
		}
	})
}
