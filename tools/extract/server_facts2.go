package main

// Fact ServerFacts2 (C18): the concurrency mechanisms of the LLMNR / NBNS servers and of the LLMNR client that the
// stop / isolation theorems of C18 rest on, read off the source of network/llmnr, network/netbios/nbtns and logger.
//
//  1. hand-offs: every channel send statement `ch <- v` of the two packages.  It is NON-BLOCKING exactly when it is the
//     communication of a `case` of a `select` statement that also has a `default:` clause.  A send anywhere else
//     (a statement of its own, a select without default) is blocking.
//  2. registries: every `<x>.<m>.Store(key, value)` on a struct field `m` of type sync.Map.  Recorded: the key
//     expression (text and S-expression), whether a `defer <x>.<m>.Delete(key')` follows in the same block and whether
//     key' is the same text, and the KIND of the key.  The only syntactic form accepted as "unique per accepted
//     connection" is `<v>.RemoteAddr().String()` where <v> is the stored value and a parameter of the function of type
//     net.Conn (kind peerAddr: a TCP connection is identified by its two endpoints; every connection accepted from one
//     listener has the listener's endpoint as its local one, so live connections differ in the remote one).
//     `<v>.LocalAddr().String()` is kind localAddr, `<m>.ID` is kind messageId, anything else kind other.  For a
//     channel value made in the same function by make(chan T, n) the capacity n is recorded.  For the function that
//     stores a connection: does every `if … io.ReadFull(<v>, …); err != nil` body end in `return`?
//     For the Stop method that ranges over the registry: is the body of the Range callback
//     `if c, ok := value.(net.Conn); ok { c.Close() }; return true` (every value closed, iteration never cut short)?
//  3. spawns: every `go` statement of the two packages with its enclosing block: is there an expression statement
//     `<x>.<wg>.Add(n)` (wg a struct field of type sync.WaitGroup) BEFORE the go statement in the same block, one AFTER
//     it, one anywhere inside the goroutine's body; how the goroutine's body calls `<x>.<wg>.Done()`: deferredFirst (its
//     first statement is `defer <x>.<wg>.Done()` or `defer func() { …; <x>.<wg>.Done() }()` and there is no other Done),
//     none, or other; whether the function containing the go statement itself holds a count for its whole body
//     (its own Done is deferredFirst); and, inside a receive loop that reuses a buffer made before the loop, where the
//     goroutine's private bytes come from: beforeGo (`v := make([]byte, n); copy(v, buf[:n])` in the loop body before the
//     go statement, v passed or captured), decodedBeforeGo (a value returned by a package function called on the buffer
//     before the go statement), insideGoroutine (the func literal's body mentions the buffer as source of a copy),
//     sharedView (the buffer or a window of it is passed / mentioned otherwise), noBuffer (no reused buffer).
//  4. stops: for every Stop/Close method that closes a channel, the order of its top-level statements: the
//     `<once>.Do(func() { close(quit) … })`, the Range over a registry, `<wg>.Wait()`.
//  5. logger: the functions of package logger that acquire LoggerLock directly; the call graph of the package; and for
//     every function of the two packages that calls logger.Lock(): the logger functions called while the lock is held
//     (from the Lock() statement to the matching top-level Unlock(), or to the end of the function when the Unlock is
//     deferred), directly or through functions of the same package, each with "does it (transitively) acquire
//     LoggerLock".
//
// Unknown shapes are errors naming file and line.
//
// Normalisations of the hand-offs (DESIGN.md §7):
//
//   - "send in a method the loop calls".  A send statement in an unexported method `m` of T whose only mention in the
//     whole package is ONE call `r.m(…)` on the receiver `r` of another method F of T, standing inside a `for` statement
//     of F and not inside a `go` statement, a `defer` or a function literal, is executed by F's goroutine at that call:
//     it is listed under F (the loop), as if the body of `m` stood there.  Whether it blocks is read off `m`'s own
//     `select`, exactly as before.  Any other use of `m` (second caller, method value, `go r.m(…)`) leaves it listed
//     under `m`, which `handoff_is_nonblocking` does not accept.
//   - "the channel by where it comes from".  The `ch` column is the channel expression with local names unfolded at the
//     head: an identifier defined exactly once in the function (`x := E` or `x, ok := E`, never assigned again, never
//     `&x`) is replaced by E, through type assertions and parentheses, so `responseChan` with `responseChan :=
//     ch.(chan *Message)` and `ch, ok := c.Queries.Load(msg.ID)` and the inline `waiting.(chan *Message)` both read
//     `c.Queries.Load(msg.ID).(chan *Message)`.  Arguments are not unfolded (the key stays as written).

import (
	"fmt"
	"go/ast"
	"go/parser"
	"go/token"
	"os"
	"path/filepath"
	"sort"
	"strconv"
	"strings"
)

func init() { facts["ServerFacts2"] = serverFacts2 }

type sf2Func struct {
	fd      *ast.FuncDecl
	file    string
	display string // Type.method or function
}

type sf2Pkg struct {
	label    string
	fset     *token.FileSet
	funcs    []*sf2Func
	byName   map[string]*sf2Func
	wgNames  map[string]bool // struct fields of type sync.WaitGroup
	mapNames map[string]bool // struct fields of type sync.Map
	imports  map[string]bool // local names of imported packages (union over files)
}

func (p *sf2Pkg) pos(n ast.Node) string {
	ps := p.fset.Position(n.Pos())
	return fmt.Sprintf("%s:%d", filepath.Base(ps.Filename), ps.Line)
}

func sf2Load(repo, dir, label string) (*sf2Pkg, error) {
	p := &sf2Pkg{label: label, fset: token.NewFileSet(), byName: map[string]*sf2Func{}, wgNames: map[string]bool{}, mapNames: map[string]bool{}, imports: map[string]bool{}}
	full := filepath.Join(repo, dir)
	entries, err := os.ReadDir(full)
	if err != nil {
		return nil, err
	}
	for _, ent := range entries {
		fn := ent.Name()
		if !strings.HasSuffix(fn, ".go") || strings.HasSuffix(fn, "_test.go") || fn == "verif_hooks.go" {
			continue
		}
		f, err := parser.ParseFile(p.fset, filepath.Join(full, fn), nil, 0)
		if err != nil {
			return nil, err
		}
		for _, im := range f.Imports {
			path, _ := strconv.Unquote(im.Path.Value)
			name := path[strings.LastIndex(path, "/")+1:]
			if im.Name != nil {
				name = im.Name.Name
			}
			p.imports[name] = true
		}
		for _, d := range f.Decls {
			switch x := d.(type) {
			case *ast.FuncDecl:
				if x.Body != nil {
					sf := &sf2Func{fd: x, file: fn, display: funcDisplayName(x)}
					p.funcs = append(p.funcs, sf)
					p.byName[sf.display] = sf
				}
			case *ast.GenDecl:
				if x.Tok != token.TYPE {
					continue
				}
				for _, sp := range x.Specs {
					ts := sp.(*ast.TypeSpec)
					st, ok := ts.Type.(*ast.StructType)
					if !ok {
						continue
					}
					for _, fl := range st.Fields.List {
						sel, ok := fl.Type.(*ast.SelectorExpr)
						if !ok {
							continue
						}
						pk, ok := sel.X.(*ast.Ident)
						if !ok || pk.Name != "sync" {
							continue
						}
						for _, n := range fl.Names {
							switch sel.Sel.Name {
							case "WaitGroup":
								p.wgNames[n.Name] = true
							case "Map":
								p.mapNames[n.Name] = true
							}
						}
					}
				}
			}
		}
	}
	return p, nil
}

// `<x>.<field>.<method>(args…)` with field in `fields`: returns field, method, args
func sf2FieldCall(e ast.Expr, fields map[string]bool) (string, string, []ast.Expr, bool) {
	c, ok := e.(*ast.CallExpr)
	if !ok {
		return "", "", nil, false
	}
	sel, ok := c.Fun.(*ast.SelectorExpr)
	if !ok {
		return "", "", nil, false
	}
	in, ok := sel.X.(*ast.SelectorExpr)
	if !ok || !fields[in.Sel.Name] {
		return "", "", nil, false
	}
	if _, ok := in.X.(*ast.Ident); !ok {
		return "", "", nil, false
	}
	return in.Sel.Name, sel.Sel.Name, c.Args, true
}

func sf2StmtFieldCall(s ast.Stmt, fields map[string]bool) (string, string, []ast.Expr, bool) {
	es, ok := s.(*ast.ExprStmt)
	if !ok {
		return "", "", nil, false
	}
	return sf2FieldCall(es.X, fields)
}

// S-expression of a key expression: identifiers, selectors, calls, literals only
func sf2Sexp(p *sf2Pkg, e ast.Expr) (string, error) {
	switch x := e.(type) {
	case *ast.Ident:
		return x.Name, nil
	case *ast.BasicLit:
		return x.Value, nil
	case *ast.ParenExpr:
		return sf2Sexp(p, x.X)
	case *ast.SelectorExpr:
		a, err := sf2Sexp(p, x.X)
		if err != nil {
			return "", err
		}
		return "(sel " + a + " " + x.Sel.Name + ")", nil
	case *ast.CallExpr:
		s, err := sf2Sexp(p, x.Fun)
		if err != nil {
			return "", err
		}
		s = "(call " + s
		for _, a := range x.Args {
			t, err := sf2Sexp(p, a)
			if err != nil {
				return "", err
			}
			s += " " + t
		}
		return s + ")", nil
	}
	return "", fmt.Errorf("%s: key expression of unknown form %T", p.pos(e), e)
}

// ---- 1. hand-offs ------------------------------------------------------------------------------------

type sf2Handoff struct {
	Func        string `json:"func"`
	Chan        string `json:"chan"`
	InSelect    bool   `json:"inSelect"`
	HasDefault  bool   `json:"hasDefault"`
	NonBlocking bool   `json:"nonBlocking"`
	Line        int    `json:"line"`
}

func sf2Handoffs(p *sf2Pkg) []sf2Handoff {
	var out []sf2Handoff
	for _, f := range p.funcs {
		var stack []ast.Node
		ast.Inspect(f.fd.Body, func(n ast.Node) bool {
			if n == nil {
				stack = stack[:len(stack)-1]
				return true
			}
			stack = append(stack, n)
			ss, ok := n.(*ast.SendStmt)
			if !ok {
				return true
			}
			owner := f
			if lf := sf2LoopCaller(p, f); lf != nil {
				owner = lf
			}
			h := sf2Handoff{Func: p.label + "." + owner.display, Chan: sf2ChanOrigin(f.fd, ss.Chan, 0), Line: p.fset.Position(ss.Pos()).Line}
			// parent CommClause whose Comm is this send, grandparent (BlockStmt of a) SelectStmt
			if len(stack) >= 4 {
				if cc, ok := stack[len(stack)-2].(*ast.CommClause); ok && cc.Comm == ast.Stmt(ss) {
					if sel, ok := stack[len(stack)-4].(*ast.SelectStmt); ok {
						h.InSelect = true
						for _, c := range sel.Body.List {
							if c.(*ast.CommClause).Comm == nil {
								h.HasDefault = true
							}
						}
					}
				}
			}
			h.NonBlocking = h.InSelect && h.HasDefault
			out = append(out, h)
			return true
		})
	}
	return out
}

// sf2LoopCaller: normalisation "send in a method the loop calls" (file comment): the method whose `for` loop is the
// only user of f, or nil
func sf2LoopCaller(p *sf2Pkg, f *sf2Func) *sf2Func {
	typ, _ := sfRecv(f.fd)
	name := f.fd.Name.Name
	if typ == "" || f.fd.Name.IsExported() {
		return nil
	}
	var caller *sf2Func
	total := 0
	for _, g := range p.funcs {
		gtyp, grecv := sfRecv(g.fd)
		uses, good := 0, 0
		var stack []ast.Node
		ast.Inspect(g.fd.Body, func(n ast.Node) bool {
			if n == nil {
				stack = stack[:len(stack)-1]
				return true
			}
			stack = append(stack, n)
			switch x := n.(type) {
			case *ast.Ident:
				if x.Name == name {
					uses++
				}
			case *ast.CallExpr:
				sel, ok := x.Fun.(*ast.SelectorExpr)
				if !ok || sel.Sel.Name != name {
					return true
				}
				id, ok := sel.X.(*ast.Ident)
				if !ok || gtyp != typ || id.Name != grecv {
					return true
				}
				inFor := false
				for _, a := range stack[:len(stack)-1] {
					switch a.(type) {
					case *ast.ForStmt:
						inFor = true
					case *ast.GoStmt, *ast.DeferStmt, *ast.FuncLit:
						return true
					}
				}
				if inFor {
					good++
				}
			}
			return true
		})
		if uses != good {
			return nil // some mention that is not such a call
		}
		if good > 0 {
			caller = g
			total += good
		}
	}
	if total != 1 || caller == nil || caller == f {
		return nil
	}
	return caller
}

// sf2ChanOrigin: normalisation "the channel by where it comes from" (file comment)
func sf2ChanOrigin(fd *ast.FuncDecl, e ast.Expr, depth int) string {
	switch x := e.(type) {
	case *ast.ParenExpr:
		return sf2ChanOrigin(fd, x.X, depth)
	case *ast.TypeAssertExpr:
		if x.Type != nil {
			return sf2ChanOrigin(fd, x.X, depth) + ".(" + render(x.Type) + ")"
		}
	case *ast.Ident:
		if depth >= 4 {
			break
		}
		var def ast.Expr
		defs, bad := 0, false
		ast.Inspect(fd.Body, func(n ast.Node) bool {
			switch y := n.(type) {
			case *ast.AssignStmt:
				for i, l := range y.Lhs {
					if id, ok := l.(*ast.Ident); ok && id.Name == x.Name {
						defs++
						switch {
						case y.Tok != token.DEFINE:
							bad = true
						case len(y.Lhs) == len(y.Rhs):
							def = y.Rhs[i]
						case len(y.Rhs) == 1 && len(y.Lhs) == 2 && i == 0:
							def = y.Rhs[0] // comma-ok form: the first value is the expression's value
						default:
							bad = true
						}
					}
				}
			case *ast.IncDecStmt:
				if id, ok := y.X.(*ast.Ident); ok && id.Name == x.Name {
					bad = true
				}
			case *ast.UnaryExpr:
				if id, ok := y.X.(*ast.Ident); ok && y.Op == token.AND && id.Name == x.Name {
					bad = true
				}
			case *ast.RangeStmt:
				for _, l := range []ast.Expr{y.Key, y.Value} {
					if id, ok := l.(*ast.Ident); ok && id.Name == x.Name {
						bad = true
					}
				}
			}
			return true
		})
		if defs == 1 && !bad && def != nil {
			return sf2ChanOrigin(fd, def, depth+1)
		}
	}
	return render(e)
}

// ---- 2. registries -----------------------------------------------------------------------------------

type sf2Registry struct {
	Func             string `json:"func"`
	Map              string `json:"map"`
	Key              string `json:"key"`
	KeySexp          string `json:"keySexp"`
	Value            string `json:"value"`
	KeyKind          string `json:"keyKind"` // peerAddr | localAddr | messageId | other
	DeleteDeferred   bool   `json:"deleteDeferred"`
	DeleteKey        string `json:"deleteKey"`
	SameKey          bool   `json:"sameKey"`
	ChanCap          int    `json:"chanCap"`          // capacity of a channel value made in the same function; -1 if the value is no such channel
	Reads            int    `json:"reads"`            // io.ReadFull(<value>, …) calls in the function
	ReadErrorReturns bool   `json:"readErrorReturns"` // each of them is the init of an `if …; err != nil { …; return }`
	StopRanges       bool   `json:"stopRanges"`       // a Stop method ranges over this map …
	RangeClosesEvery bool   `json:"rangeClosesEvery"` // … closing every value, never cutting the iteration short
	Line             int    `json:"line"`
}

func sf2ParamType(fd *ast.FuncDecl, name string) string {
	for _, f := range fd.Type.Params.List {
		for _, n := range f.Names {
			if n.Name == name {
				return render(f.Type)
			}
		}
	}
	return ""
}

func sf2KeyKind(fd *ast.FuncDecl, key ast.Expr, value ast.Expr) string {
	// <v>.RemoteAddr().String() / <v>.LocalAddr().String()
	if c, ok := key.(*ast.CallExpr); ok && len(c.Args) == 0 {
		if s, ok := c.Fun.(*ast.SelectorExpr); ok && s.Sel.Name == "String" {
			if c2, ok := s.X.(*ast.CallExpr); ok && len(c2.Args) == 0 {
				if s2, ok := c2.Fun.(*ast.SelectorExpr); ok {
					v, ok1 := s2.X.(*ast.Ident)
					val, ok2 := value.(*ast.Ident)
					if ok1 && ok2 && v.Name == val.Name && sf2ParamType(fd, v.Name) == "net.Conn" {
						switch s2.Sel.Name {
						case "RemoteAddr":
							return "peerAddr"
						case "LocalAddr":
							return "localAddr"
						}
					}
				}
			}
		}
	}
	if s, ok := key.(*ast.SelectorExpr); ok && s.Sel.Name == "ID" {
		if _, ok := s.X.(*ast.Ident); ok {
			return "messageId"
		}
	}
	return "other"
}

// statement lists of a body, recursively (blocks, if/else, for, range, select, switch, labeled; not func literals)
func sf2Blocks(list []ast.Stmt, visit func(list []ast.Stmt)) {
	visit(list)
	var rec func(s ast.Stmt)
	rec = func(s ast.Stmt) {
		switch x := s.(type) {
		case *ast.BlockStmt:
			sf2Blocks(x.List, visit)
		case *ast.IfStmt:
			sf2Blocks(x.Body.List, visit)
			if x.Else != nil {
				rec(x.Else)
			}
		case *ast.ForStmt:
			sf2Blocks(x.Body.List, visit)
		case *ast.RangeStmt:
			sf2Blocks(x.Body.List, visit)
		case *ast.SelectStmt:
			for _, c := range x.Body.List {
				sf2Blocks(c.(*ast.CommClause).Body, visit)
			}
		case *ast.SwitchStmt:
			for _, c := range x.Body.List {
				sf2Blocks(c.(*ast.CaseClause).Body, visit)
			}
		case *ast.TypeSwitchStmt:
			for _, c := range x.Body.List {
				sf2Blocks(c.(*ast.CaseClause).Body, visit)
			}
		case *ast.LabeledStmt:
			rec(x.Stmt)
		}
	}
	for _, s := range list {
		rec(s)
	}
}

// sf2ReadsOf counts the io.ReadFull(<conn>, …) calls of a body and says whether each of them is the init of an
// `if …; err != nil { …; return … }`.  failKind "" = any return; "bool": the return's last value must be `false`;
// "error": it must not be `nil`.
func sf2ReadsOf(body *ast.BlockStmt, conn, failKind string) (int, bool) {
	reads, allGood := 0, true
	var stack []ast.Node
	ast.Inspect(body, func(n ast.Node) bool {
		if n == nil {
			stack = stack[:len(stack)-1]
			return true
		}
		stack = append(stack, n)
		c, ok := n.(*ast.CallExpr)
		if !ok {
			return true
		}
		sel, ok := c.Fun.(*ast.SelectorExpr)
		if !ok || sel.Sel.Name != "ReadFull" || len(c.Args) < 1 {
			return true
		}
		if a, ok := c.Args[0].(*ast.Ident); !ok || a.Name != conn {
			return true
		}
		reads++
		good := false
		// CallExpr <- AssignStmt (init) <- IfStmt
		if len(stack) >= 3 {
			if as, ok := stack[len(stack)-2].(*ast.AssignStmt); ok {
				if is, ok := stack[len(stack)-3].(*ast.IfStmt); ok && is.Init == ast.Stmt(as) {
					if be, ok := is.Cond.(*ast.BinaryExpr); ok && be.Op == token.NEQ && render(be.X) == "err" && render(be.Y) == "nil" {
						if k := len(is.Body.List); k > 0 {
							if rs, ok := is.Body.List[k-1].(*ast.ReturnStmt); ok {
								switch failKind {
								case "":
									good = true
								case "bool":
									good = len(rs.Results) > 0 && render(rs.Results[len(rs.Results)-1]) == "false"
								case "error":
									good = len(rs.Results) > 0 && render(rs.Results[len(rs.Results)-1]) != "nil"
								}
							}
						}
					}
				}
			}
		}
		if !good {
			allGood = false
		}
		return true
	})
	return reads, allGood
}

// sf2HelperCallWith: the statement calls a package-level function with the identifier `conn` among its arguments:
//
//	…, v := helper(…conn…)  |  …, v = helper(…conn…)       -> (call, "v", false)   v = the last target
//	if !helper(…conn…) { … }                                -> (call, "", true)
//	if v := helper(…conn…); … { … }                         -> (call, "v", true)
func sf2HelperCallWith(p *sf2Pkg, st ast.Stmt, conn string) (*ast.CallExpr, string, bool) {
	isHelper := func(e ast.Expr) *ast.CallExpr {
		c, ok := e.(*ast.CallExpr)
		if !ok {
			return nil
		}
		id, ok := c.Fun.(*ast.Ident)
		if !ok || p.byName[id.Name] == nil || p.byName[id.Name].fd.Recv != nil {
			return nil
		}
		for _, a := range c.Args {
			if ai, ok := a.(*ast.Ident); ok && ai.Name == conn {
				return c
			}
		}
		return nil
	}
	switch x := st.(type) {
	case *ast.AssignStmt:
		if len(x.Rhs) == 1 {
			if c := isHelper(x.Rhs[0]); c != nil {
				return c, render(x.Lhs[len(x.Lhs)-1]), false
			}
		}
	case *ast.IfStmt:
		if x.Init != nil {
			if as, ok := x.Init.(*ast.AssignStmt); ok && len(as.Rhs) == 1 {
				if c := isHelper(as.Rhs[0]); c != nil {
					return c, render(as.Lhs[len(as.Lhs)-1]), true
				}
			}
			return nil, "", false
		}
		if u, ok := x.Cond.(*ast.UnaryExpr); ok && u.Op == token.NOT {
			if c := isHelper(u.X); c != nil {
				return c, "", true
			}
		}
	}
	return nil, "", false
}

func sf2Registries(p *sf2Pkg) ([]sf2Registry, error) {
	var out []sf2Registry
	var ferr error
	for _, f := range p.funcs {
		nStores := 0
		ast.Inspect(f.fd.Body, func(n ast.Node) bool {
			if c, ok := n.(*ast.CallExpr); ok {
				if _, m, _, ok := sf2FieldCall(c, p.mapNames); ok && m == "Store" {
					nStores++
				}
			}
			return true
		})
		found := 0
		sf2Blocks(f.fd.Body.List, func(list []ast.Stmt) {
			for i, s := range list {
				field, m, args, ok := sf2StmtFieldCall(s, p.mapNames)
				if !ok || m != "Store" || ferr != nil {
					continue
				}
				found++
				if len(args) != 2 {
					ferr = fmt.Errorf("%s: Store with %d arguments", p.pos(s), len(args))
					return
				}
				sx, err := sf2Sexp(p, args[0])
				if err != nil {
					ferr = err
					return
				}
				r := sf2Registry{Func: p.label + "." + f.display, Map: field, Key: render(args[0]), KeySexp: sx, Value: render(args[1]),
					KeyKind: sf2KeyKind(f.fd, args[0], args[1]), ChanCap: -1, Line: p.fset.Position(s.Pos()).Line}
				for _, t := range list[i+1:] {
					if d, ok := t.(*ast.DeferStmt); ok {
						if fl, dm, dargs, ok := sf2FieldCall(d.Call, p.mapNames); ok && fl == field && dm == "Delete" && len(dargs) == 1 {
							r.DeleteDeferred = true
							r.DeleteKey = render(dargs[0])
							r.SameKey = r.DeleteKey == r.Key
						}
					}
				}
				// channel value made in the same function
				if vid, ok := args[1].(*ast.Ident); ok {
					ast.Inspect(f.fd.Body, func(n ast.Node) bool {
						as, ok := n.(*ast.AssignStmt)
						if !ok || len(as.Lhs) != 1 || len(as.Rhs) != 1 {
							return true
						}
						if id, ok := as.Lhs[0].(*ast.Ident); !ok || id.Name != vid.Name {
							return true
						}
						if c, ok := as.Rhs[0].(*ast.CallExpr); ok {
							if fn, ok := c.Fun.(*ast.Ident); ok && fn.Name == "make" && len(c.Args) >= 1 {
								if _, ok := c.Args[0].(*ast.ChanType); ok {
									r.ChanCap = 0
									if len(c.Args) == 2 {
										if bl, ok := c.Args[1].(*ast.BasicLit); ok && bl.Kind == token.INT {
											v, _ := strconv.Atoi(bl.Value)
											r.ChanCap = v
										} else {
											ferr = fmt.Errorf("%s: channel capacity is not an integer literal", p.pos(c))
										}
									}
								}
							}
						}
						return true
					})
					// reads of the stored connection
					r.Reads, r.ReadErrorReturns = sf2ReadsOf(f.fd.Body, vid.Name, "")
					// Normalisation "read through a helper" (DESIGN.md §7): the handler may hand the connection to a
					// package-level function that does the reads.  Its io.ReadFull calls on that parameter count as the
					// handler's, and "a failed read makes the handler return" is then two links: in the helper every
					// failed read ends in `return …, false` (helper whose last result is a bool) or `return …, <non-nil
					// error>` (last result an error); in the handler the call is followed at once by
					// `if !ok { …; return }` / `if err != nil { …; return }` on that result (or is the condition / init of such
					// an `if`).  Either link missing: readErrorReturns = false.
					sf2Blocks(f.fd.Body.List, func(list []ast.Stmt) {
						for i, st := range list {
							call, failVar, direct := sf2HelperCallWith(p, st, vid.Name)
							if call == nil {
								continue
							}
							hf := p.byName[render(call.Fun)]
							idx := -1
							for ai, a := range call.Args {
								if id, ok := a.(*ast.Ident); ok && id.Name == vid.Name {
									idx = ai
								}
							}
							var params []string
							for _, fl := range hf.fd.Type.Params.List {
								for _, nm := range fl.Names {
									params = append(params, nm.Name)
								}
							}
							if idx < 0 || idx >= len(params) {
								continue
							}
							kind := ""
							if res := hf.fd.Type.Results; res != nil && len(res.List) > 0 {
								kind = render(res.List[len(res.List)-1].Type)
							}
							n, good := sf2ReadsOf(hf.fd.Body, params[idx], kind)
							if n == 0 {
								continue
							}
							r.Reads += n
							if !good || (kind != "bool" && kind != "error") {
								r.ReadErrorReturns = false
								continue
							}
							// the handler returns when the helper reports the failure
							var test *ast.IfStmt
							if direct {
								test, _ = st.(*ast.IfStmt)
							} else if i+1 < len(list) {
								test, _ = list[i+1].(*ast.IfStmt)
								if test != nil && test.Init != nil {
									test = nil
								}
							}
							ok := false
							if test != nil {
								want := "!" + failVar
								if kind == "error" {
									want = failVar + " != nil"
								}
								if direct && kind == "bool" && failVar == "" {
									want = "!" + render(call)
								}
								if k := len(test.Body.List); render(test.Cond) == want && k > 0 {
									_, ok = test.Body.List[k-1].(*ast.ReturnStmt)
								}
							}
							if !ok {
								r.ReadErrorReturns = false
							}
						}
					})
				}
				out = append(out, r)
			}
		})
		if ferr != nil {
			return nil, ferr
		}
		if found != nStores {
			return nil, fmt.Errorf("%s: %s: a sync.Map Store is not a statement of its own in a recognised block (%d of %d found)", f.file, f.display, found, nStores)
		}
	}
	// Stop methods ranging over a registry
	for _, f := range p.funcs {
		if f.fd.Recv == nil || (f.fd.Name.Name != "Stop" && f.fd.Name.Name != "Close") {
			continue
		}
		for _, s := range f.fd.Body.List {
			field, m, args, ok := sf2StmtFieldCall(s, p.mapNames)
			if !ok || m != "Range" {
				continue
			}
			closes, err := sf2RangeCloses(p, args)
			if err != nil {
				return nil, err
			}
			for i := range out {
				if out[i].Map == field {
					out[i].StopRanges = true
					out[i].RangeClosesEvery = closes
				}
			}
		}
	}
	return out, nil
}

// func(key, value interface{}) bool { if c, ok := value.(T); ok { c.Close() }; return true }
func sf2RangeCloses(p *sf2Pkg, args []ast.Expr) (bool, error) {
	if len(args) != 1 {
		return false, fmt.Errorf("Range with %d arguments", len(args))
	}
	fl, ok := args[0].(*ast.FuncLit)
	if !ok {
		return false, fmt.Errorf("%s: Range callback is not a func literal", p.pos(args[0]))
	}
	var params []string
	for _, f := range fl.Type.Params.List {
		for _, n := range f.Names {
			params = append(params, n.Name)
		}
	}
	if len(params) != 2 || len(fl.Body.List) != 2 {
		return false, fmt.Errorf("%s: Range callback of unknown shape", p.pos(fl))
	}
	is, ok := fl.Body.List[0].(*ast.IfStmt)
	rs, ok2 := fl.Body.List[1].(*ast.ReturnStmt)
	if !ok || !ok2 || is.Else != nil || is.Init == nil {
		return false, fmt.Errorf("%s: Range callback of unknown shape", p.pos(fl))
	}
	as, ok := is.Init.(*ast.AssignStmt)
	if !ok || len(as.Lhs) != 2 || len(as.Rhs) != 1 {
		return false, fmt.Errorf("%s: Range callback of unknown shape", p.pos(is))
	}
	ta, ok := as.Rhs[0].(*ast.TypeAssertExpr)
	if !ok || render(ta.X) != params[1] || render(is.Cond) != render(as.Lhs[1]) {
		return false, fmt.Errorf("%s: Range callback of unknown shape", p.pos(is))
	}
	closes := false
	if len(is.Body.List) == 1 {
		if es, ok := is.Body.List[0].(*ast.ExprStmt); ok {
			if c, ok := es.X.(*ast.CallExpr); ok && len(c.Args) == 0 {
				if sel, ok := c.Fun.(*ast.SelectorExpr); ok && sel.Sel.Name == "Close" && render(sel.X) == render(as.Lhs[0]) {
					closes = true
				}
			}
		}
	}
	goesOn := len(rs.Results) == 1 && render(rs.Results[0]) == "true"
	return closes && goesOn, nil
}

// ---- 3. spawns ---------------------------------------------------------------------------------------

type sf2Spawn struct {
	Site           string `json:"site"`
	Callee         string `json:"callee"`
	InReceiveLoop  bool   `json:"inReceiveLoop"`
	AddBeforeGo    bool   `json:"addBeforeGo"`
	AddN           int    `json:"addN"`
	AddAfterGo     bool   `json:"addAfterGo"`
	AddInGoroutine bool   `json:"addInGoroutine"`
	Done           string `json:"done"` // deferredFirst | absent | other
	SiteHoldsCount bool   `json:"siteHoldsCount"`
	CopyPlace      string `json:"copyPlace"` // beforeGo | decodedBeforeGo | insideGoroutine | sharedView | noBuffer
	Line           int    `json:"line"`
}

func (p *sf2Pkg) isWgCall(e ast.Expr, method string) bool {
	_, m, _, ok := sf2FieldCall(e, p.wgNames)
	return ok && m == method
}

func (p *sf2Pkg) countWg(n ast.Node, method string) int {
	k := 0
	ast.Inspect(n, func(m ast.Node) bool {
		if c, ok := m.(*ast.CallExpr); ok && p.isWgCall(c, method) {
			k++
		}
		return true
	})
	return k
}

func (p *sf2Pkg) doneShape(body *ast.BlockStmt) string {
	n := p.countWg(body, "Done")
	if n == 0 {
		return "absent"
	}
	if n == 1 && len(body.List) > 0 {
		if d, ok := body.List[0].(*ast.DeferStmt); ok {
			if p.isWgCall(d.Call, "Done") {
				return "deferredFirst"
			}
			if fl, ok := d.Call.Fun.(*ast.FuncLit); ok && len(d.Call.Args) == 0 {
				for _, s := range fl.Body.List {
					if es, ok := s.(*ast.ExprStmt); ok && p.isWgCall(es.X, "Done") {
						return "deferredFirst"
					}
				}
			}
		}
	}
	return "other"
}

// sf2ReadsSocket: the body reads a socket itself, or calls by plain name a package-level function that does
// (normalisation "socket read through a helper", see server_facts.go)
// sf2OwnMethod: `r.m(…)` with r the receiver of `in` and m a method of the same base type (the normalisation "loop body
// split into methods of the same receiver" of server_facts.go, applied to the spawn facts: such a method reading the
// socket makes the loop a receive loop, and a value it returns from the loop buffer is a decoded value — that it does
// not retain the buffer is checked by ServerFacts, which refuses the source otherwise)
func sf2OwnMethod(p *sf2Pkg, c *ast.CallExpr, in *ast.FuncDecl) *sf2Func {
	typ, recv := sfRecv(in)
	sel, ok := c.Fun.(*ast.SelectorExpr)
	if !ok || typ == "" {
		return nil
	}
	id, ok := sel.X.(*ast.Ident)
	if !ok || id.Name != recv {
		return nil
	}
	h := p.byName[typ+"."+sel.Sel.Name]
	if h == nil || h.fd.Recv == nil {
		return nil
	}
	return h
}

func sf2ReadsSocket(p *sf2Pkg, body ast.Node, depth int, in *ast.FuncDecl) bool {
	reads := false
	ast.Inspect(body, func(n ast.Node) bool {
		if c, ok := n.(*ast.CallExpr); ok {
			switch f := c.Fun.(type) {
			case *ast.SelectorExpr:
				switch f.Sel.Name {
				case "ReadFromUDP", "Accept", "ReadFull":
					reads = true
				default:
					if h := sf2OwnMethod(p, c, in); h != nil && depth < 4 && sf2ReadsSocket(p, h.fd.Body, depth+1, h.fd) {
						reads = true
					}
				}
			case *ast.Ident:
				if h := p.byName[f.Name]; h != nil && h.fd.Recv == nil && depth < 4 && sf2ReadsSocket(p, h.fd.Body, depth+1, h.fd) {
					reads = true
				}
			}
		}
		return true
	})
	return reads
}

type sf2GoCtx struct {
	fn     *sf2Func
	outer  map[string]bool // []byte buffers made at the top level of the function before the receive loop
	inLoop bool
	// per variable of the loop body, in statement order up to the go statement
	made    map[string]bool   // v := make([]byte, …)
	copied  map[string]bool   // copy(v, <outer>[…]) after that
	decoded map[string]string // v, … := f(<outer>[…]) with f a function of the package
}

func (c *sf2GoCtx) clone() *sf2GoCtx {
	d := &sf2GoCtx{fn: c.fn, outer: c.outer, inLoop: c.inLoop, made: map[string]bool{}, copied: map[string]bool{}, decoded: map[string]string{}}
	for k, v := range c.made {
		d.made[k] = v
	}
	for k, v := range c.copied {
		d.copied[k] = v
	}
	for k, v := range c.decoded {
		d.decoded[k] = v
	}
	return d
}

func (p *sf2Pkg) calleeBody(site *sf2Func, g *ast.GoStmt) (string, *ast.BlockStmt, error) {
	switch f := g.Call.Fun.(type) {
	case *ast.FuncLit:
		return "func literal", f.Body, nil
	case *ast.Ident:
		if t, ok := p.byName[f.Name]; ok {
			return f.Name, t.fd.Body, nil
		}
		return "", nil, fmt.Errorf("%s: go %s: function not found in the package", p.pos(g), f.Name)
	case *ast.SelectorExpr:
		var hits []*sf2Func
		for _, t := range p.funcs {
			if t.fd.Recv != nil && t.fd.Name.Name == f.Sel.Name {
				hits = append(hits, t)
			}
		}
		// prefer the method of the spawning function's own receiver type
		if site.fd.Recv != nil {
			own := strings.SplitN(site.display, ".", 2)[0] + "." + f.Sel.Name
			if t, ok := p.byName[own]; ok {
				return t.display, t.fd.Body, nil
			}
		}
		if len(hits) == 1 {
			return hits[0].display, hits[0].fd.Body, nil
		}
		return "", nil, fmt.Errorf("%s: go %s: %d candidate methods", p.pos(g), render(f), len(hits))
	}
	return "", nil, fmt.Errorf("%s: go statement with an unknown callee shape", p.pos(g))
}

func (p *sf2Pkg) spawnAt(ctx *sf2GoCtx, list []ast.Stmt, i int) (sf2Spawn, error) {
	g := list[i].(*ast.GoStmt)
	name, body, err := p.calleeBody(ctx.fn, g)
	if err != nil {
		return sf2Spawn{}, err
	}
	sp := sf2Spawn{Site: p.label + "." + ctx.fn.display, Callee: name, InReceiveLoop: ctx.inLoop, Line: p.fset.Position(g.Pos()).Line}
	for j := i - 1; j >= 0; j-- {
		if _, ok := list[j].(*ast.GoStmt); ok {
			break
		}
		if _, m, args, ok := sf2StmtFieldCall(list[j], p.wgNames); ok && m == "Add" {
			bl, ok := args[0].(*ast.BasicLit)
			if !ok || bl.Kind != token.INT {
				return sp, fmt.Errorf("%s: WaitGroup.Add of a non-literal", p.pos(list[j]))
			}
			sp.AddBeforeGo = true
			v, _ := strconv.Atoi(bl.Value)
			sp.AddN += v
		}
	}
	for j := i + 1; j < len(list); j++ {
		if _, ok := list[j].(*ast.GoStmt); ok {
			break
		}
		if _, m, _, ok := sf2StmtFieldCall(list[j], p.wgNames); ok && m == "Add" {
			sp.AddAfterGo = true
		}
	}
	// an Add in the goroutine's body that is not itself the Add-before-go of a go statement of that body
	attached := 0
	sf2Blocks(body.List, func(l []ast.Stmt) {
		for j, s := range l {
			if _, m, _, ok := sf2StmtFieldCall(s, p.wgNames); ok && m == "Add" {
				for _, t := range l[j+1:] {
					if _, ok := t.(*ast.GoStmt); ok {
						attached++
						break
					}
				}
			}
		}
	})
	sp.AddInGoroutine = p.countWg(body, "Add") > attached
	sp.Done = p.doneShape(body)
	sp.SiteHoldsCount = p.doneShape(ctx.fn.fd.Body) == "deferredFirst"
	// where do the goroutine's bytes come from
	switch {
	case !ctx.inLoop || len(ctx.outer) == 0:
		sp.CopyPlace = "noBuffer"
	default:
		mentions := func(n ast.Node, set func(string) bool) bool {
			hit := false
			ast.Inspect(n, func(m ast.Node) bool {
				if id, ok := m.(*ast.Ident); ok && set(id.Name) {
					hit = true
				}
				return true
			})
			return hit
		}
		isOuter := func(s string) bool { return ctx.outer[s] }
		var given []ast.Node // what the goroutine is given: its arguments, and for a func literal its body (captures)
		for _, a := range g.Call.Args {
			given = append(given, a)
		}
		if fl, ok := g.Call.Fun.(*ast.FuncLit); ok {
			given = append(given, fl.Body)
			// the buffer as the source of a copy() inside the goroutine
			ast.Inspect(fl.Body, func(m ast.Node) bool {
				if c, ok := m.(*ast.CallExpr); ok {
					if id, ok := c.Fun.(*ast.Ident); ok && id.Name == "copy" && len(c.Args) == 2 && ctx.outer[rootIdentOf(c.Args[1])] {
						sp.CopyPlace = "insideGoroutine"
					}
				}
				return true
			})
		}
		if sp.CopyPlace == "" {
			for _, n := range given {
				if mentions(n, isOuter) {
					sp.CopyPlace = "sharedView"
				}
			}
		}
		if sp.CopyPlace == "" {
			for _, n := range given {
				if mentions(n, func(s string) bool { return ctx.made[s] && ctx.copied[s] }) {
					sp.CopyPlace = "beforeGo"
				}
			}
		}
		if sp.CopyPlace == "" {
			for _, n := range given {
				if mentions(n, func(s string) bool { return ctx.decoded[s] != "" }) {
					sp.CopyPlace = "decodedBeforeGo"
				}
			}
		}
		if sp.CopyPlace == "" {
			return sp, fmt.Errorf("%s: goroutine started in a receive loop with a reused buffer is given nothing derived from it in a recognised way", p.pos(g))
		}
	}
	return sp, nil
}

// note assignments of the loop body that establish a private copy / a decoded value
func (p *sf2Pkg) noteStmt(ctx *sf2GoCtx, s ast.Stmt) {
	switch x := s.(type) {
	case *ast.AssignStmt:
		if len(x.Rhs) != 1 {
			return
		}
		id, ok := x.Lhs[0].(*ast.Ident)
		if !ok {
			return
		}
		delete(ctx.made, id.Name)
		delete(ctx.copied, id.Name)
		delete(ctx.decoded, id.Name)
		if isMakeBytes(x.Rhs[0]) {
			ctx.made[id.Name] = true
			return
		}
		if c, ok := x.Rhs[0].(*ast.CallExpr); ok {
			if fn, ok := c.Fun.(*ast.Ident); ok {
				if _, isPkgFunc := p.byName[fn.Name]; isPkgFunc {
					for _, a := range c.Args {
						if ctx.outer[rootIdentOf(a)] {
							ctx.decoded[id.Name] = fn.Name
						}
					}
				}
			}
			if h := sf2OwnMethod(p, c, ctx.fn.fd); h != nil {
				for _, a := range c.Args {
					if ctx.outer[rootIdentOf(a)] {
						ctx.decoded[id.Name] = h.display
					}
				}
			}
		}
	case *ast.ExprStmt:
		if c, ok := x.X.(*ast.CallExpr); ok {
			if fn, ok := c.Fun.(*ast.Ident); ok && fn.Name == "copy" && len(c.Args) == 2 {
				if d, ok := c.Args[0].(*ast.Ident); ok && ctx.made[d.Name] && ctx.outer[rootIdentOf(c.Args[1])] {
					ctx.copied[d.Name] = true
				}
			}
		}
	}
}

func (p *sf2Pkg) walkGo(ctx *sf2GoCtx, list []ast.Stmt, out *[]sf2Spawn) error {
	for i, s := range list {
		p.noteStmt(ctx, s)
		var rec func(s ast.Stmt, ctx *sf2GoCtx) error
		rec = func(s ast.Stmt, ctx *sf2GoCtx) error {
			switch x := s.(type) {
			case *ast.BlockStmt:
				return p.walkGo(ctx, x.List, out)
			case *ast.IfStmt:
				if err := p.walkGo(ctx.clone(), x.Body.List, out); err != nil {
					return err
				}
				if x.Else != nil {
					return rec(x.Else, ctx.clone())
				}
			case *ast.ForStmt:
				c := ctx.clone()
				if sf2ReadsSocket(p, x.Body, 0, ctx.fn.fd) {
					c.inLoop = true
				}
				return p.walkGo(c, x.Body.List, out)
			case *ast.RangeStmt:
				return p.walkGo(ctx.clone(), x.Body.List, out)
			case *ast.SelectStmt:
				for _, c := range x.Body.List {
					// the default clause of the leading select continues the loop body: same context
					if err := p.walkGo(ctx, c.(*ast.CommClause).Body, out); err != nil {
						return err
					}
				}
			case *ast.SwitchStmt:
				for _, c := range x.Body.List {
					if err := p.walkGo(ctx.clone(), c.(*ast.CaseClause).Body, out); err != nil {
						return err
					}
				}
			case *ast.TypeSwitchStmt:
				for _, c := range x.Body.List {
					if err := p.walkGo(ctx.clone(), c.(*ast.CaseClause).Body, out); err != nil {
						return err
					}
				}
			case *ast.LabeledStmt:
				return rec(x.Stmt, ctx)
			}
			return nil
		}
		if _, ok := s.(*ast.GoStmt); ok {
			sp, err := p.spawnAt(ctx, list, i)
			if err != nil {
				return err
			}
			*out = append(*out, sp)
			continue
		}
		if err := rec(s, ctx); err != nil {
			return err
		}
	}
	return nil
}

func sf2Spawns(p *sf2Pkg) ([]sf2Spawn, error) {
	var out []sf2Spawn
	for _, f := range p.funcs {
		total := 0
		ast.Inspect(f.fd.Body, func(n ast.Node) bool {
			if _, ok := n.(*ast.GoStmt); ok {
				total++
			}
			return true
		})
		if total == 0 {
			continue
		}
		ctx := &sf2GoCtx{fn: f, outer: map[string]bool{}, made: map[string]bool{}, copied: map[string]bool{}, decoded: map[string]string{}}
		for _, st := range f.fd.Body.List {
			if as, ok := st.(*ast.AssignStmt); ok && len(as.Lhs) == 1 && len(as.Rhs) == 1 && isMakeBytes(as.Rhs[0]) {
				if id, ok := as.Lhs[0].(*ast.Ident); ok {
					ctx.outer[id.Name] = true
				}
			}
		}
		before := len(out)
		if err := p.walkGo(ctx, f.fd.Body.List, &out); err != nil {
			return nil, err
		}
		if len(out)-before != total {
			return nil, fmt.Errorf("%s: %s: %d go statements, %d in recognised positions (a go statement inside a func literal or an expression?)", f.file, f.display, total, len(out)-before)
		}
	}
	return out, nil
}

// ---- 4. stops ----------------------------------------------------------------------------------------

type sf2Stop struct {
	Name            string   `json:"name"`
	Steps           []string `json:"steps"`
	Waits           bool     `json:"waits"`
	CloseBeforeWait bool     `json:"closeBeforeWait"`
	WaitLast        bool     `json:"waitLast"`
	Ranges          bool     `json:"ranges"`
	RangeAfterClose bool     `json:"rangeAfterClose"`
	RangeBeforeWait bool     `json:"rangeBeforeWait"`
}

func sf2Stops(p *sf2Pkg) ([]sf2Stop, error) {
	var out []sf2Stop
	for _, f := range p.funcs {
		if f.fd.Recv == nil || (f.fd.Name.Name != "Stop" && f.fd.Name.Name != "Close") {
			continue
		}
		closes := false
		ast.Inspect(f.fd.Body, func(n ast.Node) bool {
			if c, ok := n.(*ast.CallExpr); ok {
				if id, ok := c.Fun.(*ast.Ident); ok && id.Name == "close" {
					closes = true
				}
			}
			return true
		})
		if !closes {
			continue
		}
		st := sf2Stop{Name: p.label + "." + f.display}
		iClose, iRange, iWait := -1, -1, -1
		for i, s := range f.fd.Body.List {
			kind := ""
			switch x := s.(type) {
			case *ast.ReturnStmt:
				kind = "return"
			case *ast.ExprStmt:
				if _, m, _, ok := sf2FieldCall(x.X, p.wgNames); ok && m == "Wait" {
					kind, iWait = "wait", i
				} else if _, m, _, ok := sf2FieldCall(x.X, p.mapNames); ok && m == "Range" {
					kind, iRange = "rangeClose", i
				} else if c, ok := x.X.(*ast.CallExpr); ok {
					if sel, ok := c.Fun.(*ast.SelectorExpr); ok && sel.Sel.Name == "Do" && len(c.Args) == 1 {
						if fl, ok := c.Args[0].(*ast.FuncLit); ok {
							hasClose := false
							ast.Inspect(fl.Body, func(n ast.Node) bool {
								if cc, ok := n.(*ast.CallExpr); ok {
									if id, ok := cc.Fun.(*ast.Ident); ok && id.Name == "close" {
										hasClose = true
									}
								}
								return true
							})
							if hasClose {
								kind, iClose = "onceCloseQuit", i
							}
						}
					}
				}
			}
			if kind == "" {
				return nil, fmt.Errorf("%s: %s: top-level statement of unknown kind in a shutdown method", p.pos(s), f.display)
			}
			st.Steps = append(st.Steps, kind)
		}
		if iClose < 0 {
			return nil, fmt.Errorf("%s: %s closes a channel outside a top-level <once>.Do(func() {…})", f.file, f.display)
		}
		st.Waits = iWait >= 0
		st.Ranges = iRange >= 0
		st.CloseBeforeWait = st.Waits && iClose < iWait
		st.WaitLast = st.Waits && iWait == len(f.fd.Body.List)-1
		st.RangeAfterClose = st.Ranges && iClose < iRange
		st.RangeBeforeWait = st.Ranges && st.Waits && iRange < iWait
		out = append(out, st)
	}
	return out, nil
}

// ---- 5. logger ---------------------------------------------------------------------------------------

type sf2HeldCall struct {
	Callee   string `json:"callee"`
	Acquires bool   `json:"acquires"` // the callee acquires LoggerLock, directly or through functions of package logger
}
type sf2Held struct {
	Func       string        `json:"func"`
	Calls      []sf2HeldCall `json:"calls"` // distinct logger functions called while the lock is held, in order of first call
	Reacquires bool          `json:"reacquires"`
}
type sf2Logger struct {
	Acquirers  []string            `json:"acquirers"`  // functions of package logger that call LoggerLock.Lock() themselves
	Transitive []string            `json:"transitive"` // … or reach one that does
	CallGraph  map[string][]string `json:"callGraph"`
	Held       []sf2Held           `json:"held"`
}

func sf2LoggerFacts(repo string, users []*sf2Pkg) (*sf2Logger, error) {
	lp, err := sf2Load(repo, "logger", "logger")
	if err != nil {
		return nil, err
	}
	lg := &sf2Logger{CallGraph: map[string][]string{}}
	direct := map[string]bool{}
	for _, f := range lp.funcs {
		if f.fd.Recv != nil {
			return nil, fmt.Errorf("logger/%s: method %s: package logger is expected to consist of plain functions", f.file, f.display)
		}
		callees := map[string]bool{}
		var ferr error
		ast.Inspect(f.fd.Body, func(n ast.Node) bool {
			if fl, ok := n.(*ast.FuncLit); ok {
				ferr = fmt.Errorf("logger/%s: func literal in package logger", lp.pos(fl))
				return false
			}
			c, ok := n.(*ast.CallExpr)
			if !ok {
				return true
			}
			switch fn := c.Fun.(type) {
			case *ast.Ident:
				if _, ok := lp.byName[fn.Name]; ok {
					callees[fn.Name] = true
				}
			case *ast.SelectorExpr:
				root := fn.X
				for {
					switch r := root.(type) {
					case *ast.SelectorExpr:
						root = r.X
						continue
					case *ast.CallExpr:
						root = r.Fun
						continue
					}
					break
				}
				rid, ok := root.(*ast.Ident)
				if !ok {
					ferr = fmt.Errorf("logger/%s: call of unknown shape", lp.pos(c))
					return false
				}
				switch {
				case rid.Name == "LoggerLock":
					if fn.Sel.Name == "Lock" {
						direct[f.display] = true
					}
				case lp.imports[rid.Name]:
				default:
					ferr = fmt.Errorf("logger/%s: method call on %s: cannot tell what it calls", lp.pos(c), rid.Name)
					return false
				}
			case *ast.ArrayType, *ast.ParenExpr, *ast.InterfaceType: // a conversion
			default:
				ferr = fmt.Errorf("logger/%s: call of unknown shape %T", lp.pos(c), c.Fun)
				return false
			}
			return true
		})
		if ferr != nil {
			return nil, ferr
		}
		var cs []string
		for k := range callees {
			cs = append(cs, k)
		}
		sort.Strings(cs)
		lg.CallGraph[f.display] = cs
	}
	// transitive acquirers
	trans := map[string]bool{}
	for k := range direct {
		trans[k] = true
	}
	for changed := true; changed; {
		changed = false
		for fn, cs := range lg.CallGraph {
			if trans[fn] {
				continue
			}
			for _, c := range cs {
				if trans[c] {
					trans[fn] = true
					changed = true
				}
			}
		}
	}
	for k := range direct {
		lg.Acquirers = append(lg.Acquirers, k)
	}
	for k := range trans {
		lg.Transitive = append(lg.Transitive, k)
	}
	sort.Strings(lg.Acquirers)
	sort.Strings(lg.Transitive)

	isLoggerCall := func(e ast.Expr, name string) bool {
		c, ok := e.(*ast.CallExpr)
		if !ok {
			return false
		}
		sel, ok := c.Fun.(*ast.SelectorExpr)
		if !ok || sel.Sel.Name != name {
			return false
		}
		id, ok := sel.X.(*ast.Ident)
		return ok && id.Name == "logger"
	}
	for _, p := range users {
		for _, f := range p.funcs {
			n := 0
			ast.Inspect(f.fd.Body, func(m ast.Node) bool {
				if c, ok := m.(*ast.CallExpr); ok && isLoggerCall(c, "Lock") {
					n++
				}
				return true
			})
			if n == 0 {
				continue
			}
			// the held region: top-level statements after `logger.Lock()`
			var region []ast.Stmt
			found := 0
			for i, s := range f.fd.Body.List {
				es, ok := s.(*ast.ExprStmt)
				if !ok || !isLoggerCall(es.X, "Lock") {
					continue
				}
				found++
				rest := f.fd.Body.List[i+1:]
				if len(rest) > 0 {
					if d, ok := rest[0].(*ast.DeferStmt); ok && isLoggerCall(d.Call, "Unlock") {
						region = append(region, rest[1:]...)
						continue
					}
				}
				end := -1
				for j, t := range rest {
					if es, ok := t.(*ast.ExprStmt); ok && isLoggerCall(es.X, "Unlock") {
						end = j
						break
					}
				}
				if end < 0 {
					return nil, fmt.Errorf("%s: %s: logger.Lock() without a deferred or top-level logger.Unlock()", p.pos(s), f.display)
				}
				region = append(region, rest[:end]...)
			}
			if found != n {
				return nil, fmt.Errorf("%s: %s: logger.Lock() is not a top-level statement of the function", f.file, f.display)
			}
			h := sf2Held{Func: p.label + "." + f.display, Calls: []sf2HeldCall{}}
			seen := map[string]bool{}
			visited := map[string]bool{}
			var ferr error
			var scan func(n ast.Node, fd *ast.FuncDecl)
			scan = func(n ast.Node, fd *ast.FuncDecl) {
				ast.Inspect(n, func(m ast.Node) bool {
					if ferr != nil {
						return false
					}
					c, ok := m.(*ast.CallExpr)
					if !ok {
						return true
					}
					switch fn := c.Fun.(type) {
					case *ast.Ident:
						if t, ok := p.byName[fn.Name]; ok && !visited[fn.Name] {
							visited[fn.Name] = true
							scan(t.fd.Body, t.fd) // a function of the same package: what it calls is called under the lock too
						}
					case *ast.SelectorExpr:
						rid, ok := fn.X.(*ast.Ident)
						if !ok {
							ferr = fmt.Errorf("%s: %s: call of unknown shape %s while logger.Lock() is held", p.pos(c), f.display, render(fn))
							return false
						}
						switch {
						case rid.Name == "logger":
							if !seen[fn.Sel.Name] {
								seen[fn.Sel.Name] = true
								if _, ok := lp.byName[fn.Sel.Name]; !ok {
									ferr = fmt.Errorf("%s: logger.%s not found in package logger", p.pos(c), fn.Sel.Name)
									return false
								}
								h.Calls = append(h.Calls, sf2HeldCall{Callee: fn.Sel.Name, Acquires: trans[fn.Sel.Name]})
							}
						case p.imports[rid.Name]:
							// another package: the standard library cannot call back into logger
							if rid.Name != "fmt" && rid.Name != "net" && rid.Name != "strings" && rid.Name != "time" && rid.Name != "binary" && rid.Name != "errors" {
								ferr = fmt.Errorf("%s: %s: call into package %s while logger.Lock() is held: not known to stay out of logger", p.pos(c), f.display, rid.Name)
								return false
							}
						default:
							// a method call: accepted on a parameter whose declared type comes from the standard library
							t := sf2ParamType(fd, rid.Name)
							if !strings.HasPrefix(t, "net.") {
								ferr = fmt.Errorf("%s: %s: method call %s while logger.Lock() is held: cannot tell what it calls", p.pos(c), f.display, render(fn))
								return false
							}
						}
					case *ast.ArrayType, *ast.ParenExpr, *ast.InterfaceType: // a conversion
					default:
						ferr = fmt.Errorf("%s: %s: call of unknown shape %T while logger.Lock() is held", p.pos(c), f.display, c.Fun)
						return false
					}
					return true
				})
			}
			for _, s := range region {
				scan(s, f.fd)
			}
			if ferr != nil {
				return nil, ferr
			}
			for _, c := range h.Calls {
				if c.Acquires {
					h.Reacquires = true
				}
			}
			lg.Held = append(lg.Held, h)
		}
	}
	sort.Slice(lg.Held, func(i, j int) bool { return lg.Held[i].Func < lg.Held[j].Func })
	return lg, nil
}

// ---- output ------------------------------------------------------------------------------------------

func serverFacts2(repo string) (string, any, error) {
	type pkgSpec struct{ dir, label string }
	var pkgs []*sf2Pkg
	for _, ps := range []pkgSpec{{"network/llmnr", "llmnr"}, {"network/netbios/nbtns", "nbtns"}} {
		p, err := sf2Load(repo, ps.dir, ps.label)
		if err != nil {
			return "", nil, err
		}
		pkgs = append(pkgs, p)
	}
	var handoffs []sf2Handoff
	var regs []sf2Registry
	var spawns []sf2Spawn
	var stops []sf2Stop
	for _, p := range pkgs {
		handoffs = append(handoffs, sf2Handoffs(p)...)
		r, err := sf2Registries(p)
		if err != nil {
			return "", nil, err
		}
		regs = append(regs, r...)
		s, err := sf2Spawns(p)
		if err != nil {
			return "", nil, err
		}
		spawns = append(spawns, s...)
		st, err := sf2Stops(p)
		if err != nil {
			return "", nil, err
		}
		stops = append(stops, st...)
	}
	lg, err := sf2LoggerFacts(repo, pkgs)
	if err != nil {
		return "", nil, err
	}
	sort.SliceStable(handoffs, func(i, j int) bool { return handoffs[i].Func < handoffs[j].Func })
	sort.SliceStable(regs, func(i, j int) bool { return regs[i].Func < regs[j].Func })
	sort.SliceStable(spawns, func(i, j int) bool { return spawns[i].Site < spawns[j].Site })
	sort.SliceStable(stops, func(i, j int) bool { return stops[i].Name < stops[j].Name })

	var b strings.Builder
	b.WriteString("-- Fact ServerFacts2: hand-offs, connection registries, WaitGroup discipline, copy placement and logger lock use\n")
	b.WriteString("-- of network/llmnr, network/netbios/nbtns and logger (tools/extract/server_facts2.go says which shapes are accepted)\n")
	b.WriteString("namespace Manticore.Gen.ServerFacts2\n\n")
	b.WriteString("/-- a channel send `ch <- v`: non-blocking iff it is a `case` of a `select` that has a `default:` -/\n")
	b.WriteString("structure Handoff where\n  fn : String\n  ch : String\n  inSelect : Bool\n  hasDefault : Bool\n  nonBlocking : Bool\n  deriving DecidableEq, Repr\n\n")
	b.WriteString("/-- what a `sync.Map` registry is keyed by: `peerAddr` = `<v>.RemoteAddr().String()` of the stored net.Conn parameter -/\n")
	b.WriteString("inductive KeyKind | peerAddr | localAddr | messageId | other\n  deriving DecidableEq, Repr\n\n")
	b.WriteString("structure Registry where\n  fn : String\n  field : String\n  key : String\n  keySexp : String\n  keyKind : KeyKind\n  deleteDeferred : Bool\n  sameKey : Bool\n  chanCap : Option Nat\n  reads : Nat\n  readErrorReturns : Bool\n  stopRanges : Bool\n  rangeClosesEvery : Bool\n  deriving DecidableEq, Repr\n\n")
	b.WriteString("inductive DoneShape | deferredFirst | absent | other\n  deriving DecidableEq, Repr\n\n")
	b.WriteString("inductive CopyPlace | beforeGo | decodedBeforeGo | insideGoroutine | sharedView | noBuffer\n  deriving DecidableEq, Repr\n\n")
	b.WriteString("/-- one `go` statement -/\n")
	b.WriteString("structure Spawn where\n  site : String\n  callee : String\n  inReceiveLoop : Bool\n  addBeforeGo : Bool\n  addN : Nat\n  addAfterGo : Bool\n  addInGoroutine : Bool\n  done : DoneShape\n  siteHoldsCount : Bool\n  copyPlace : CopyPlace\n  deriving DecidableEq, Repr\n\n")
	b.WriteString("structure Stop where\n  name : String\n  waits : Bool\n  closeBeforeWait : Bool\n  waitLast : Bool\n  ranges : Bool\n  rangeAfterClose : Bool\n  rangeBeforeWait : Bool\n  deriving DecidableEq, Repr\n\n")
	b.WriteString("/-- a function that calls `logger.Lock()`: the logger functions it calls while holding the lock, each with\n    \"acquires LoggerLock (transitively)\" -/\n")
	b.WriteString("structure Held where\n  fn : String\n  calls : List (String × Bool)\n  reacquires : Bool\n  deriving DecidableEq, Repr\n\n")
	bs := func(v bool) string { return fmt.Sprint(v) }
	item := func(i, n int) string {
		if i == n-1 {
			return "\n"
		}
		return ",\n"
	}
	b.WriteString("def handoffs : List Handoff := [\n")
	for i, h := range handoffs {
		fmt.Fprintf(&b, "  ⟨%q, %q, %s, %s, %s⟩%s", h.Func, h.Chan, bs(h.InSelect), bs(h.HasDefault), bs(h.NonBlocking), item(i, len(handoffs)))
	}
	b.WriteString("]\n\ndef registries : List Registry := [\n")
	for i, r := range regs {
		cc := "none"
		if r.ChanCap >= 0 {
			cc = fmt.Sprintf("some %d", r.ChanCap)
		}
		fmt.Fprintf(&b, "  ⟨%q, %q, %q, %q, .%s, %s, %s, %s, %d, %s, %s, %s⟩%s", r.Func, r.Map, r.Key, r.KeySexp, r.KeyKind, bs(r.DeleteDeferred), bs(r.SameKey), cc, r.Reads, bs(r.ReadErrorReturns), bs(r.StopRanges), bs(r.RangeClosesEvery), item(i, len(regs)))
	}
	b.WriteString("]\n\ndef spawns : List Spawn := [\n")
	for i, s := range spawns {
		fmt.Fprintf(&b, "  ⟨%q, %q, %s, %s, %d, %s, %s, .%s, %s, .%s⟩%s", s.Site, s.Callee, bs(s.InReceiveLoop), bs(s.AddBeforeGo), s.AddN, bs(s.AddAfterGo), bs(s.AddInGoroutine), s.Done, bs(s.SiteHoldsCount), s.CopyPlace, item(i, len(spawns)))
	}
	b.WriteString("]\n\ndef stops : List Stop := [\n")
	for i, s := range stops {
		fmt.Fprintf(&b, "  ⟨%q, %s, %s, %s, %s, %s, %s⟩%s", s.Name, bs(s.Waits), bs(s.CloseBeforeWait), bs(s.WaitLast), bs(s.Ranges), bs(s.RangeAfterClose), bs(s.RangeBeforeWait), item(i, len(stops)))
	}
	b.WriteString("]\n\n/-- functions of package logger that call `LoggerLock.Lock()` themselves -/\ndef lockAcquirers : List String := [")
	for i, a := range lg.Acquirers {
		if i > 0 {
			b.WriteString(", ")
		}
		fmt.Fprintf(&b, "%q", a)
	}
	b.WriteString("]\n\ndef held : List Held := [\n")
	for i, h := range lg.Held {
		fmt.Fprintf(&b, "  ⟨%q, [", h.Func)
		for j, c := range h.Calls {
			if j > 0 {
				b.WriteString(", ")
			}
			fmt.Fprintf(&b, "(%q, %s)", c.Callee, bs(c.Acquires))
		}
		fmt.Fprintf(&b, "], %s⟩%s", bs(h.Reacquires), item(i, len(lg.Held)))
	}
	b.WriteString("]\n\nend Manticore.Gen.ServerFacts2\n")
	return b.String(), map[string]any{"handoffs": handoffs, "registries": regs, "spawns": spawns, "stops": stops, "logger": lg}, nil
}
