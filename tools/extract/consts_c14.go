package main

// Fact ConstsC14: entry type codes, version constants, the RSA blob magic and header layout, the CustomKeyInformation
// length ladder and the entry framing of key credentials (C14).

import "fmt"

func init() {
	facts["ConstsC14"] = constsFact("ConstsC14", "entry types, versions, RSA blob header, CustomKeyInformation ladder and entry framing of key credentials (C14)", func(c *cx) {
		k := c.pkg("windows/keycredential/key")
		types := []string{"KeyID", "KeyHash", "KeyMaterial", "KeyUsage", "KeySource", "DeviceId", "CustomKeyInformation", "KeyApproximateLastLogonTimeStamp", "KeyCreationTime"}
		for i, t := range types {
			c.constNat(fmt.Sprintf("entry%d", i+1), k, "KeyCredentialEntryType_"+t)
		}
		c.constNat("version0", k, "KeyCredentialVersion_0")
		c.constNat("version1", k, "KeyCredentialVersion_1")
		c.constNat("version2", k, "KeyCredentialVersion_2")

		r := c.pkg("windows/keycredential/crypto")
		f := r.fn("RSAKeyMaterial.FromBytes")
		c.int1Of("rsa_minLen", f.cmp("len(value)", tokLSS, -1))
		c.named("rsa_blobType", f.assign("blobType", -1), "hi")
		c.str("rsa_magic", f.cmp("string(blobType)", tokNEQ, -1), f.cmp("string(blobType)", tokNEQ, -1).str())
		for _, x := range []struct{ lhs, name string }{{"rk.KeySize", "rsa_keySize"}, {"exponentSize", "rsa_eSize"}, {"modulusSize", "rsa_mSize"}, {"prime1Size", "rsa_p1Size"}, {"prime2Size", "rsa_p2Size"}} {
			a := f.assign(x.lhs, -1)
			c.named(x.name, a, "lo", "hi")
			if !a.little() || a.width() != 32 {
				c.failf("RSAKeyMaterial.FromBytes: %s is not read as a little-endian uint32", x.lhs)
			}
		}
		c.named("rsa_fits", f.cond("exponentSize", 0), "header")
		c.shapeOf("rsa_fits_shape", f.cond("exponentSize", 0))
		c.int1Of("rsa_bodyOffset", f.assign("offset", 0))
		c.named("rsa_exponent", f.assign("rk.Exponent", 1), "shift")
		c.shapeOf("rsa_exponent_shape", f.assign("rk.Exponent", 1))
		t := r.fn("RSAKeyMaterial.ToBytes")
		c.str("rsa_magicOut", t.assign("b_blobType", -1), t.assign("b_blobType", -1).arg(0).str())
		c.int1Of("rsa_exponentBytes", t.assign("b_exponent", -1))
		c.putOrder("rsa_encode", t)
		var parts []string
		for _, a := range t.callsWith(func(s string) bool { return s == "append" }) {
			parts = append(parts, a.arg(0).text()+"+"+a.arg(1).text())
		}
		c.texts("rsa_appends", t, parts)

		ci := k.fn("CustomKeyInformation.FromBytes")
		c.int1Of("cki_minLen", ci.cmp("len(blob)", tokLSS, -1))
		c.int1Of("cki_versionIdx", ci.assign("cki.Version", -1))
		c.int1Of("cki_version", ci.cmp("cki.Version", tokNEQ, -1))
		c.int1Of("cki_flagsIdx", ci.call("cki.Flags.FromBytes", -1))
		for i, nm := range []string{"volume", "notify", "fek", "strength", "reserved"} {
			c.named("cki_"+nm, ci.cond("cki.RawBytesSize", i), "above", "atLeast")
		}
		c.named("cki_extended", ci.cond("cki.RawBytesSize", 5), "above")
		c.int1Of("cki_volumeIdx", ci.call("cki.VolumeType.FromBytes", -1))
		c.named("cki_notifyIdx", ci.assign("cki.SupportsNotification", -1), "idx", "zero")
		c.int1Of("cki_fekIdx", ci.assign("cki.FekKeyVersion", -1))
		c.named("cki_strengthAt", ci.call("cki.Strength.FromBytes", -1), "lo", "hi")
		c.int1Of("cki_reservedLen", ci.assign("cki.Reserved", -1))
		c.named("cki_reservedAt", ci.call("copy", 0).arg(1), "lo", "hi")
		c.named("cki_extendedLen", ci.assign("cki.EncodedExtendedCKI", -1), "minus")
		c.named("cki_extendedAt", ci.call("copy", 1).arg(1), "lo")

		p := c.pkg("windows/keycredential")
		fb := p.fn("KeyCredential.FromBytes")
		c.int1Of("kc_minLen", fb.cmp("len(rawBytes)", tokLSS, -1))
		c.int1Of("kc_loopAbove", fb.cmp("len(remainder)", tokGTR, -1))
		c.named("kc_length", fb.assign("length", -1), "hi")
		c.boolean("kc_length_le", fb.assign("length", -1), fb.assign("length", -1).little())
		c.int1Of("kc_typeIdx", fb.call("entryType.FromBytes", -1))
		c.named("kc_header", fb.assign("remainder", 2), "size")
		var order []string
		for _, cs := range fb.cases("entryType.Value", -1) {
			order = append(order, cs.text())
		}
		c.texts("kc_caseOrder", fb, order)
		c.int1Of("kc_usageLen", fb.caseBody("entryType.Value", "key.KeyCredentialEntryType_KeyUsage").cmp("len(entryData)", tokEQL, -1))
		c.int1Of("kc_sourceMin", fb.caseBody("entryType.Value", "key.KeyCredentialEntryType_KeySource").cmp("len(entryData)", tokLSS, -1))
		c.int1Of("kc_deviceMin", fb.caseBody("entryType.Value", "key.KeyCredentialEntryType_DeviceId").cmp("len(entryData)", tokLSS, -1))
		c.int1Of("kc_lastLogonMin", fb.caseBody("entryType.Value", "key.KeyCredentialEntryType_KeyApproximateLastLogonTimeStamp").cmp("len(entryData)", tokLSS, -1))
		c.int1Of("kc_creationMin", fb.caseBody("entryType.Value", "key.KeyCredentialEntryType_KeyCreationTime").cmp("len(entryData)", tokLSS, -1))
		w := p.fn("writeEntry")
		c.shapeOf("kc_write_shape", w.call("binary.Write", 0))

		u := c.pkg("windows/keycredential/utils")
		var idCases []string
		for _, cs := range u.fn("ConvertFromBinaryIdentifier").cases("version.Value", -1) {
			idCases = append(idCases, cs.text())
		}
		c.texts("id_fromCases", u.fn("ConvertFromBinaryIdentifier"), idCases)
		c.texts("id_hexCase", u.fn("ConvertFromBinaryIdentifier"), []string{u.fn("ConvertFromBinaryIdentifier").caseBody("version.Value", "key.KeyCredentialVersion_0").ret(-1, 0).text()})
	})
}
