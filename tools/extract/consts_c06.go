package main

// Fact ConstsC06: bit layout of SMB_DATE, format codes and per-format constants of SMB_STRING, sizes and offsets of
// SMB_RESUME_KEY, SMB_DIRECTORY_INFORMATION, LOCKING_ANDX_RANGE32, SMB_FILE_ATTRIBUTES and the FILETIME passthrough (C06).

import "fmt"

func init() {
	facts["ConstsC06"] = constsFact("ConstsC06", "SMB_DATE bit layout, SMB_STRING format codes and offsets, sizes and offsets of the fixed SMB types (C06)", func(c *cx) {
		p := c.pkg("network/smb/smb_v10/types")
		dm := p.fn("SMB_DATE.Marshal")
		c.named("date_year", dm.assign("valueYear", -1), "base", "shift")
		c.named("date_month", dm.assign("valueMonth", -1), "shift")
		c.shapeOf("date_value_shape", dm.assign("value", 1))
		c.boolean("date_put_le", dm.call("binary.LittleEndian.PutUint16", -1), true)
		du := p.fn("SMB_DATE.Unmarshal")
		c.int1Of("date_minLen", du.cmp("len(data)", tokLSS, -1))
		c.named("date_read", du.assign("value", -1), "hi")
		c.boolean("date_read_le", du.assign("value", -1), du.assign("value", -1).little())
		c.named("date_uyear", du.assign("yearValue", -1), "mask", "shift")
		c.named("date_umonth", du.assign("monthValue", -1), "mask", "shift")
		c.named("date_uday", du.assign("dayValue", -1), "mask")
		c.named("date_ubase", du.assign("d.Year", -1), "base")
		c.int1Of("date_consumed", du.ret(1, 0))

		names := []string{"SMB_STRING_BUFFER_FORMAT_VARIABLE_BLOCK_16BIT", "SMB_STRING_BUFFER_FORMAT_NULL_TERMINATED_OEM_STRING",
			"SMB_STRING_BUFFER_FORMAT_NULL_TERMINATED_OEM_STRING_16BIT", "SMB_STRING_BUFFER_FORMAT_NULL_TERMINATED_ASCII_STRING",
			"SMB_STRING_BUFFER_FORMAT_VARIABLE_BLOCK"}
		c.constTable("str_formats", p, names)
		for i, nm := range names {
			c.constNat(fmt.Sprintf("str_fmt%d", i+1), p, nm)
		}
		su := p.fn("SMB_STRING.Unmarshal")
		c.int1Of("str_minLen", su.cmp("len(buffer)", tokLSS, 0))
		c.int1Of("str_formatIdx", su.assign("s.BufferFormat", -1))
		var order []string
		for _, k := range su.cases("s.BufferFormat", -1) {
			order = append(order, k.text())
		}
		c.texts("str_caseOrder", su, order)
		for _, i := range []int{0, 2, 4} { // the counted formats
			b := su.caseBody("s.BufferFormat", names[i])
			pre := fmt.Sprintf("str_f%d", i+1)
			c.int1Of(pre+"_minLen", b.cmp("len(buffer)", tokLSS, 0))
			c.named(pre+"_len", b.assign("s.Length", -1), "lo", "hi")
			c.boolean(pre+"_len_le", b.assign("s.Length", -1), b.assign("s.Length", -1).little())
			if i == 2 {
				c.named(pre+"_need", b.cond("int(s.Length)", 0), "base", "extra")
			} else {
				c.named(pre+"_need", b.cond("int(s.Length)", 0), "base")
			}
			c.named(pre+"_copy", b.call("copy", -1).arg(1), "lo", "base")
			last := b.ret(2, 0)
			if i == 2 {
				last = b.assign("bytesRead", -1)
			}
			if i == 2 {
				c.named(pre+"_consumed", last, "base", "extra")
			} else {
				c.named(pre+"_consumed", last, "base")
			}
		}
		for _, i := range []int{1, 3} { // the NUL-terminated formats
			b := su.caseBody("s.BufferFormat", names[i])
			pre := fmt.Sprintf("str_f%d", i+1)
			c.int1Of(pre+"_scanFrom", b.assign("i", -1))
			c.int1Of(pre+"_terminator", b.cmp("buffer[i]", tokEQL, -1))
			c.named(pre+"_copy", b.call("copy", -1).arg(1), "lo")
			c.named(pre+"_consumed", b.ret(1, 0), "plus")
			c.named(pre+"_make", b.assign("s.Buffer", -1), "minus")
		}
		sm := p.fn("SMB_STRING.Marshal")
		for i, nm := range names {
			b := sm.caseBody("s.BufferFormat", nm)
			var parts []string
			for _, a := range b.callsWith(func(s string) bool { return s == "append" }) {
				parts = append(parts, a.arg(1).text())
			}
			c.texts(fmt.Sprintf("str_m%d_appends", i+1), b, parts)
		}
		c.shapeOf("str_tooLong_shape", sm.caseBody("s.BufferFormat", names[0]).cond("len(s.Buffer)", 0))

		ru := p.fn("SMB_RESUME_KEY.Unmarshal")
		c.int1Of("rk_minBuffer", ru.cmp("len(r.SMB_STRING.Buffer)", tokLSS, -1))
		c.int1Of("rk_reservedIdx", ru.assign("r.Reserved", -1))
		c.named("rk_server", ru.call("copy", 0).arg(1), "lo", "hi")
		c.named("rk_client", ru.call("copy", 1).arg(1), "lo", "hi")

		d := p.fn("SMB_DIRECTORY_INFORMATION.Unmarshal")
		c.int1Of("dir_timeNeeds", d.cond("> len(data)", 0))
		c.int1Of("dir_dateNeeds", d.cond("> len(data)", 1))
		c.named("dir_dateSlice", d.assign("bytesRead", 2), "len")
		c.int1Of("dir_sizeNeeds", d.cond("> len(data)", 2))
		c.named("dir_size", d.assign("d.FileSize", -1), "len")
		c.boolean("dir_size_le", d.assign("d.FileSize", -1), d.assign("d.FileSize", -1).little())
		c.int1Of("dir_nameNeeds", d.cond("> len(data)", 3))
		c.named("dir_nameSlice", d.assign("bytesRead", 3), "len")
		dmm := p.fn("SMB_DIRECTORY_INFORMATION.Marshal")
		c.int1Of("dir_nameMax", dmm.cmp("len(fileName)", tokGTR, -1))
		c.int1Of("dir_namePadBelow", dmm.cmp("len(fileName)", tokLSS, -1))
		c.named("dir_namePad", dmm.assign("fileName", 1), "to")
		c.str("dir_namePadWith", dmm.assign("fileName", 1), dmm.assign("fileName", 1).strs()[0])

		r := p.fn("LOCKING_ANDX_RANGE32.Unmarshal")
		c.int1Of("r32_minLen", r.cmp("len(data)", tokLSS, -1))
		c.named("r32_pid", r.assign("l.PID", -1), "lo", "hi")
		c.named("r32_offset", r.assign("l.ByteOffset", -1), "lo", "hi")
		c.named("r32_length", r.assign("l.LengthInBytes", -1), "lo", "hi")
		c.boolean("r32_anyBig", r, !r.assign("l.PID", -1).little() || !r.assign("l.ByteOffset", -1).little() || !r.assign("l.LengthInBytes", -1).little())
		c.putOrder("r32_encode", p.fn("LOCKING_ANDX_RANGE32.Marshal"))

		fa := p.fn("SMB_FILE_ATTRIBUTES.Unmarshal")
		c.int1Of("fa_minLen", fa.cmp("len(data)", tokLSS, -1))
		c.boolean("fa_le", fa.assign("s.Attributes", -1), fa.assign("s.Attributes", -1).little())
		c.putOrder("fa_encode", p.fn("SMB_FILE_ATTRIBUTES.Marshal"))

		ds := c.pkg("windows/ms_dtyp/common/data_structures")
		u := ds.fn("FILETIME.Unmarshal")
		c.int1Of("ft_minLen", u.cmp("len(data)", tokLSS, -1))
		c.named("ft_lo", u.assign("ft.DwLowDateTime", -1), "from", "to")
		c.named("ft_hi", u.assign("ft.DwHighDateTime", -1), "from", "to")
		c.boolean("ft_anyBig", u, !u.assign("ft.DwLowDateTime", -1).little() || !u.assign("ft.DwHighDateTime", -1).little())
		c.int1Of("ft_consumed", u.ret(1, 0))
		c.putOrder("ft_encode", ds.fn("FILETIME.Marshal"))
	})
}
