package main

// Fact NbtnsLocks (C17): the lock discipline of NetBIOSNameServer, read off the source.
//
// For every function of package network/netbios/nbtns (non-test files) that mentions the
// selector `<x>.names`: is its first statement `<recv>.mu.Lock()` / `<recv>.mu.RLock()`, is its
// second statement the matching `defer <recv>.mu.Unlock()` / `RUnlock()`, is there any other
// (early) unlock, does it write to the map or to a record reached through it.  Plus the shape of
// QueryName's result: a fresh `make` + `copy` of record.Owners, or the internal slice.
//
// Unknown shapes are errors, never defaults.
//
// Normalisations (DESIGN.md §7):
//
//   - "helper under the caller's lock".  An unexported method of NetBIOSNameServer that mentions `.names`,
//     contains no call on `.mu` at all, is never used as a method value or inside a `go` statement or function
//     literal, and is called ONLY from methods that
//     hold the mutex for their whole body (first statement Lock/RLock, second the matching deferred unlock, no
//     other unlock) or from other such helpers, is not a method of the discipline: its statements run inside
//     its callers' critical sections.  It is not listed; instead every caller is treated as if the helper's body
//     stood at the call: the caller touches `.names`, writes if the helper writes, and a value the caller binds
//     from a helper that returns a record of the map (`record, err := n.find(name)`) is a record reached through
//     the map, so `record.Status = …` in the caller is a write.  A helper with any caller that does not hold
//     the lock is listed like every other function (and fails the discipline).
//   - "fresh copy of the owners".  Canonical form: `owners := make([]net.IP, len(record.Owners));
//     copy(owners, record.Owners); return owners, …`.  Accepted as the same: `append(E, S...)` — returned
//     directly or through one variable — where E is a new empty slice (`make([]T, 0[, n])`, `[]T{}`,
//     `[]T(nil)`) and S is `record.Owners`, `record.Owners[:]` or `record.Owners[:n]` / `[:n:n]` with n =
//     `len(record.Owners)` (written out, or a variable defined once as that).  Appending to an empty slice
//     that nobody else holds never shares S's array and yields exactly S's elements.  Any other bound is refused.

import (
	"fmt"
	"go/ast"
	"go/parser"
	"go/token"
	"os"
	"path/filepath"
	"sort"
	"strings"
)

type lockMethod struct {
	Name          string `json:"name"`
	File          string `json:"file"`
	IsMethod      bool   `json:"isMethod"`      // declared on (*)NetBIOSNameServer
	TouchesNames  bool   `json:"touchesNames"`  // mentions <x>.names
	WritesNames   bool   `json:"writesNames"`   // assigns into the map / deletes / assigns a field of a record taken from it
	LockKind      string `json:"lockKind"`      // "Lock", "RLock" or "" (first statement)
	LocksFirst    bool   `json:"locksFirst"`    // first statement is <recv>.mu.Lock() or RLock()
	DefersUnlock  bool   `json:"defersUnlock"`  // second statement is the matching deferred unlock
	NoEarlyUnlock bool   `json:"noEarlyUnlock"` // no other Unlock/RUnlock call in the body
}

func init() { facts["NbtnsLocks"] = nbtnsLocks }

func isSel(e ast.Expr, name string) (ast.Expr, bool) {
	s, ok := e.(*ast.SelectorExpr)
	if !ok || s.Sel.Name != name {
		return nil, false
	}
	return s.X, true
}

// <recv>.mu.<which>()
func muCall(e ast.Expr, recv string) string {
	c, ok := e.(*ast.CallExpr)
	if !ok || len(c.Args) != 0 {
		return ""
	}
	s, ok := c.Fun.(*ast.SelectorExpr)
	if !ok {
		return ""
	}
	x, ok := isSel(s.X, "mu")
	if !ok {
		return ""
	}
	id, ok := x.(*ast.Ident)
	if !ok || id.Name != recv {
		return ""
	}
	return s.Sel.Name
}

func nbtnsLocks(repo string) (string, any, error) {
	dir := filepath.Join(repo, "network/netbios/nbtns")
	fset := token.NewFileSet()
	entries, err := os.ReadDir(dir)
	if err != nil {
		return "", nil, err
	}
	var methods []lockMethod
	var decls []nbtnsDecl
	queryCopies := -1 // -1 unknown, 0 internal slice, 1 make+copy
	for _, ent := range entries {
		fn := ent.Name()
		if !strings.HasSuffix(fn, ".go") || strings.HasSuffix(fn, "_test.go") || fn == "verif_hooks.go" {
			continue
		}
		f, err := parser.ParseFile(fset, filepath.Join(dir, fn), nil, 0)
		if err != nil {
			return "", nil, err
		}
		for _, d := range f.Decls {
			if fd, ok := d.(*ast.FuncDecl); ok && fd.Body != nil {
				decls = append(decls, nbtnsDecl{fn, fd})
			}
		}
	}
	helpers := nbtnsHelpers(decls)
	{
		for _, dcl := range decls {
			fn, fd := dcl.file, dcl.fd
			if _, inlined := helpers[fd.Name.Name]; inlined && nbtnsIsServerMethod(fd) != "" {
				continue
			}
			m := lockMethod{Name: fd.Name.Name, File: fn}
			recv := ""
			if fd.Recv != nil && len(fd.Recv.List) == 1 {
				t := fd.Recv.List[0].Type
				if st, ok := t.(*ast.StarExpr); ok {
					t = st.X
				}
				if id, ok := t.(*ast.Ident); ok && id.Name == "NetBIOSNameServer" {
					m.IsMethod = true
					if len(fd.Recv.List[0].Names) == 1 {
						recv = fd.Recv.List[0].Names[0].Name
					}
				}
			}
			// does the body mention <x>.names ?  which identifiers are bound to records of the map?
			recIdents := map[string]bool{}
			fromNames := func(e ast.Expr) bool { // n.names[...] or n.names
				if ix, ok := e.(*ast.IndexExpr); ok {
					e = ix.X
				}
				_, ok := isSel(e, "names")
				return ok
			}
			ast.Inspect(fd.Body, func(n ast.Node) bool {
				switch x := n.(type) {
				case *ast.SelectorExpr:
					if x.Sel.Name == "names" {
						m.TouchesNames = true
					}
				case *ast.AssignStmt:
					if len(x.Rhs) == 1 && fromNames(x.Rhs[0]) {
						if id, ok := x.Lhs[0].(*ast.Ident); ok {
							recIdents[id.Name] = true
						}
					}
					if len(x.Rhs) == 1 {
						if h := nbtnsHelperCall(x.Rhs[0], helpers); h != nil && h.returnsRecord {
							if id, ok := x.Lhs[0].(*ast.Ident); ok {
								recIdents[id.Name] = true
							}
						}
					}
				case *ast.CallExpr:
					if h := nbtnsHelperCall(x, helpers); h != nil {
						m.TouchesNames = true
						if h.writes {
							m.WritesNames = true
						}
					}
				case *ast.RangeStmt:
					if fromNames(x.X) && x.Value != nil {
						if id, ok := x.Value.(*ast.Ident); ok {
							recIdents[id.Name] = true
						}
					}
				}
				return true
			})
			if !m.TouchesNames {
				continue
			}
			rootIdent := func(e ast.Expr) string {
				for {
					switch x := e.(type) {
					case *ast.SelectorExpr:
						e = x.X
					case *ast.IndexExpr:
						e = x.X
					case *ast.SliceExpr:
						e = x.X
					case *ast.Ident:
						return x.Name
					default:
						return ""
					}
				}
			}
			unlocks := 0
			ast.Inspect(fd.Body, func(n ast.Node) bool {
				switch x := n.(type) {
				case *ast.AssignStmt:
					for _, l := range x.Lhs {
						if ix, ok := l.(*ast.IndexExpr); ok {
							if _, ok := isSel(ix.X, "names"); ok {
								m.WritesNames = true
							}
						}
						if _, isIdent := l.(*ast.Ident); !isIdent && recIdents[rootIdent(l)] {
							m.WritesNames = true
						}
					}
				case *ast.IncDecStmt:
					if recIdents[rootIdent(x.X)] {
						m.WritesNames = true
					}
				case *ast.CallExpr:
					if id, ok := x.Fun.(*ast.Ident); ok && id.Name == "delete" && len(x.Args) == 2 {
						if _, ok := isSel(x.Args[0], "names"); ok {
							m.WritesNames = true
						}
					}
					if s, ok := x.Fun.(*ast.SelectorExpr); ok && (s.Sel.Name == "Unlock" || s.Sel.Name == "RUnlock") {
						if _, ok := isSel(s.X, "mu"); ok {
							unlocks++
						}
					}
				}
				return true
			})
			if m.IsMethod && recv != "" && len(fd.Body.List) >= 2 {
				if es, ok := fd.Body.List[0].(*ast.ExprStmt); ok {
					switch muCall(es.X, recv) {
					case "Lock":
						m.LockKind, m.LocksFirst = "Lock", true
					case "RLock":
						m.LockKind, m.LocksFirst = "RLock", true
					}
				}
				if ds, ok := fd.Body.List[1].(*ast.DeferStmt); ok && m.LocksFirst {
					want := map[string]string{"Lock": "Unlock", "RLock": "RUnlock"}[m.LockKind]
					if muCall(ds.Call, recv) == want {
						m.DefersUnlock = true
					}
				}
			}
			m.NoEarlyUnlock = (m.DefersUnlock && unlocks == 1) || (!m.DefersUnlock && unlocks == 0)
			methods = append(methods, m)

			// result shape of QueryName
			if m.IsMethod && m.Name == "QueryName" {
				var last *ast.ReturnStmt
				for _, st := range fd.Body.List {
					if r, ok := st.(*ast.ReturnStmt); ok {
						last = r
					}
				}
				if last == nil || len(last.Results) != 3 {
					return "", nil, fmt.Errorf("%s: QueryName: final `return owners, type, nil` not found", fn)
				}
				switch res := last.Results[0].(type) {
				case *ast.CallExpr:
					if !nbtnsFreshCopy(res, fd.Body) {
						return "", nil, fmt.Errorf("%s: QueryName: result call is not append(<new empty slice>, record.Owners...)", fn)
					}
					queryCopies = 1
				case *ast.SelectorExpr:
					if res.Sel.Name == "Owners" {
						queryCopies = 0
					} else {
						return "", nil, fmt.Errorf("%s: QueryName returns an unknown selector %s", fn, res.Sel.Name)
					}
				case *ast.Ident:
					made, copied := false, false
					ast.Inspect(fd.Body, func(n ast.Node) bool {
						switch x := n.(type) {
						case *ast.AssignStmt:
							if len(x.Lhs) == 1 && len(x.Rhs) == 1 {
								if id, ok := x.Lhs[0].(*ast.Ident); ok && id.Name == res.Name {
									if c, ok := x.Rhs[0].(*ast.CallExpr); ok {
										if f, ok := c.Fun.(*ast.Ident); ok && f.Name == "make" && len(c.Args) >= 2 {
											if l, ok := c.Args[1].(*ast.CallExpr); ok {
												if lf, ok := l.Fun.(*ast.Ident); ok && lf.Name == "len" && len(l.Args) == 1 {
													if _, ok := isSel(l.Args[0], "Owners"); ok {
														made = true
													}
												}
											}
										}
									}
									if c, ok := x.Rhs[0].(*ast.CallExpr); ok && !made && nbtnsFreshCopy(c, fd.Body) {
										made, copied = true, true
									}
									if !made {
										// any other definition of the result (e.g. `owners := record.Owners`)
										if _, ok := isSel(x.Rhs[0], "Owners"); ok {
											queryCopies = 0
										}
									}
								}
							}
						case *ast.CallExpr:
							if f, ok := x.Fun.(*ast.Ident); ok && f.Name == "copy" && len(x.Args) == 2 {
								if id, ok := x.Args[0].(*ast.Ident); ok && id.Name == res.Name {
									if _, ok := isSel(x.Args[1], "Owners"); ok {
										copied = true
									}
								}
							}
						}
						return true
					})
					if made && copied {
						queryCopies = 1
					} else if queryCopies != 0 {
						return "", nil, fmt.Errorf("%s: QueryName: result %q is neither make(len(record.Owners))+copy nor record.Owners", fn, res.Name)
					}
				default:
					return "", nil, fmt.Errorf("%s: QueryName: unknown result expression", fn)
				}
			}
		}
	}
	if len(methods) == 0 {
		return "", nil, fmt.Errorf("no function touching NetBIOSNameServer.names found in %s", dir)
	}
	if queryCopies < 0 {
		return "", nil, fmt.Errorf("method QueryName of NetBIOSNameServer not found among the functions that reach `.names` (directly, or through a helper that only runs under its callers' lock)")
	}
	sort.Slice(methods, func(i, j int) bool { return methods[i].Name < methods[j].Name })
	var b strings.Builder
	b.WriteString("-- Fact NbtnsLocks: lock discipline of NetBIOSNameServer (network/netbios/nbtns/*.go)\n")
	b.WriteString("namespace Manticore.Gen.NbtnsLocks\n\n")
	b.WriteString("inductive LockKind | none | lock | rlock\n  deriving DecidableEq, Repr\n\n")
	b.WriteString("structure Method where\n  name : String\n  isMethod : Bool\n  touchesNames : Bool\n  writesNames : Bool\n  lockKind : LockKind\n  locksFirst : Bool\n  defersUnlock : Bool\n  noEarlyUnlock : Bool\n  deriving DecidableEq, Repr\n\n")
	b.WriteString("/-- every function of the package that mentions `.names` -/\n")
	b.WriteString("def methods : List Method := [\n")
	for i, m := range methods {
		kind := map[string]string{"": ".none", "Lock": ".lock", "RLock": ".rlock"}[m.LockKind]
		sep := ","
		if i == len(methods)-1 {
			sep = ""
		}
		fmt.Fprintf(&b, "  ⟨%q, %v, %v, %v, %s, %v, %v, %v⟩%s\n", m.Name, m.IsMethod, m.TouchesNames, m.WritesNames, kind, m.LocksFirst, m.DefersUnlock, m.NoEarlyUnlock, sep)
	}
	b.WriteString("]\n\n")
	b.WriteString("/-- `QueryName` returns `make([]net.IP, len(record.Owners))` filled by `copy` (true) or `record.Owners` itself (false) -/\n")
	fmt.Fprintf(&b, "def queryCopies : Bool := %v\n\n", queryCopies == 1)
	b.WriteString("end Manticore.Gen.NbtnsLocks\n")
	return b.String(), map[string]any{"methods": methods, "queryCopies": queryCopies == 1}, nil
}

type nbtnsDecl struct {
	file string
	fd   *ast.FuncDecl
}

type nbtnsHelper struct {
	writes, returnsRecord bool
}

// receiver name if fd is declared on (*)NetBIOSNameServer with a named receiver, else ""
func nbtnsIsServerMethod(fd *ast.FuncDecl) string {
	if fd.Recv == nil || len(fd.Recv.List) != 1 || len(fd.Recv.List[0].Names) != 1 {
		return ""
	}
	t := fd.Recv.List[0].Type
	if st, ok := t.(*ast.StarExpr); ok {
		t = st.X
	}
	if id, ok := t.(*ast.Ident); ok && id.Name == "NetBIOSNameServer" {
		return fd.Recv.List[0].Names[0].Name
	}
	return ""
}

// nbtnsHelperCall: e is `<x>.<helper>(…)` for an inlined helper
func nbtnsHelperCall(e ast.Expr, helpers map[string]*nbtnsHelper) *nbtnsHelper {
	c, ok := e.(*ast.CallExpr)
	if !ok {
		return nil
	}
	s, ok := c.Fun.(*ast.SelectorExpr)
	if !ok {
		return nil
	}
	return helpers[s.Sel.Name]
}

// nbtnsHelpers finds the helpers of the normalisation "helper under the caller's lock" (see the file comment).
func nbtnsHelpers(decls []nbtnsDecl) map[string]*nbtnsHelper {
	mentions := func(n ast.Node, sel string) bool {
		found := false
		ast.Inspect(n, func(x ast.Node) bool {
			if s, ok := x.(*ast.SelectorExpr); ok && s.Sel.Name == sel {
				found = true
			}
			return true
		})
		return found
	}
	holdsLock := func(fd *ast.FuncDecl) bool {
		recv := nbtnsIsServerMethod(fd)
		if recv == "" || len(fd.Body.List) < 2 {
			return false
		}
		es, ok := fd.Body.List[0].(*ast.ExprStmt)
		if !ok {
			return false
		}
		kind := muCall(es.X, recv)
		want := map[string]string{"Lock": "Unlock", "RLock": "RUnlock"}[kind]
		ds, ok := fd.Body.List[1].(*ast.DeferStmt)
		if want == "" || !ok || muCall(ds.Call, recv) != want {
			return false
		}
		unlocks := 0
		ast.Inspect(fd.Body, func(x ast.Node) bool {
			if c, ok := x.(*ast.CallExpr); ok {
				if s, ok := c.Fun.(*ast.SelectorExpr); ok && (s.Sel.Name == "Unlock" || s.Sel.Name == "RUnlock") {
					if _, ok := isSel(s.X, "mu"); ok {
						unlocks++
					}
				}
			}
			return true
		})
		return unlocks == 1
	}
	cand := map[string]*ast.FuncDecl{}
	count := map[string]int{}
	for _, d := range decls {
		count[d.fd.Name.Name]++
		if nbtnsIsServerMethod(d.fd) != "" && !d.fd.Name.IsExported() && mentions(d.fd.Body, "names") && !mentions(d.fd.Body, "mu") {
			cand[d.fd.Name.Name] = d.fd
		}
	}
	for name := range cand {
		if count[name] != 1 {
			delete(cand, name) // the name is not unique in the package: calls cannot be attributed
		}
	}
	// every use of the name must be a call inside a lock-holding method or another candidate; iterate to a fixpoint
	for changed := true; changed; {
		changed = false
		for name := range cand {
			ok := true
			for _, d := range decls {
				calls, uses := 0, 0
				ast.Inspect(d.fd.Body, func(x ast.Node) bool {
					switch y := x.(type) {
					case *ast.CallExpr:
						if s, isSel := y.Fun.(*ast.SelectorExpr); isSel && s.Sel.Name == name {
							calls++
						}
					case *ast.SelectorExpr:
						if y.Sel.Name == name {
							uses++
						}
					case *ast.Ident:
						if y.Name == name {
							uses++ // a bare reference (method expression, shadowing): not understood
						}
					}
					return true
				})
				if uses != 2*calls { // each call contributes its SelectorExpr and its Sel identifier
					ok = false
				}
				// a call in a `go` statement or inside a function literal does not run under the caller's lock
				ast.Inspect(d.fd.Body, func(x ast.Node) bool {
					switch y := x.(type) {
					case *ast.GoStmt, *ast.FuncLit:
						ast.Inspect(y, func(z ast.Node) bool {
							if id, isId := z.(*ast.Ident); isId && id.Name == name {
								ok = false
							}
							return true
						})
					}
					return true
				})
				if calls > 0 && !holdsLock(d.fd) && cand[d.fd.Name.Name] == nil {
					ok = false
				}
			}
			if !ok {
				delete(cand, name)
				changed = true
			}
		}
	}
	out := map[string]*nbtnsHelper{}
	for name, fd := range cand {
		h := &nbtnsHelper{}
		rec := map[string]bool{}
		fromNames := func(e ast.Expr) bool {
			if ix, ok := e.(*ast.IndexExpr); ok {
				e = ix.X
			}
			_, ok := isSel(e, "names")
			return ok
		}
		ast.Inspect(fd.Body, func(x ast.Node) bool {
			switch y := x.(type) {
			case *ast.AssignStmt:
				if len(y.Rhs) == 1 && fromNames(y.Rhs[0]) {
					if id, ok := y.Lhs[0].(*ast.Ident); ok {
						rec[id.Name] = true
					}
				}
				for _, l := range y.Lhs {
					if _, isIdent := l.(*ast.Ident); !isIdent {
						h.writes = true // any assignment through a selector or index inside a helper counts as a write
					}
				}
			case *ast.RangeStmt:
				if fromNames(y.X) && y.Value != nil {
					if id, ok := y.Value.(*ast.Ident); ok {
						rec[id.Name] = true
					}
				}
			case *ast.IncDecStmt:
				if _, isIdent := y.X.(*ast.Ident); !isIdent {
					h.writes = true
				}
			case *ast.CallExpr:
				if id, ok := y.Fun.(*ast.Ident); ok && id.Name == "delete" {
					h.writes = true
				}
			}
			return true
		})
		ast.Inspect(fd.Body, func(x ast.Node) bool {
			if r, ok := x.(*ast.ReturnStmt); ok {
				for _, res := range r.Results {
					if id, ok := res.(*ast.Ident); ok && rec[id.Name] || fromNames(res) {
						h.returnsRecord = true
					}
				}
			}
			return true
		})
		out[name] = h
	}
	// a helper that calls a writing helper writes
	for changed := true; changed; {
		changed = false
		for name, fd := range cand {
			ast.Inspect(fd.Body, func(x ast.Node) bool {
				if c, ok := x.(*ast.CallExpr); ok {
					if h := nbtnsHelperCall(c, out); h != nil && h.writes && !out[name].writes {
						out[name].writes = true
						changed = true
					}
				}
				return true
			})
		}
	}
	return out
}

// nbtnsFreshCopy: `append(E, S...)` with E a new empty slice and S all of <x>.Owners (see the file comment)
func nbtnsFreshCopy(c *ast.CallExpr, body *ast.BlockStmt) bool {
	f, ok := c.Fun.(*ast.Ident)
	if !ok || f.Name != "append" || len(c.Args) != 2 || !c.Ellipsis.IsValid() {
		return false
	}
	empty := false
	switch e := c.Args[0].(type) {
	case *ast.CallExpr:
		if id, ok := e.Fun.(*ast.Ident); ok && id.Name == "make" && len(e.Args) >= 2 {
			if _, isSlice := e.Args[0].(*ast.ArrayType); isSlice {
				if bl, ok := e.Args[1].(*ast.BasicLit); ok && bl.Value == "0" {
					empty = true
				}
			}
		}
		if at, ok := e.Fun.(*ast.ArrayType); ok && at.Len == nil && len(e.Args) == 1 {
			if id, ok := e.Args[0].(*ast.Ident); ok && id.Name == "nil" {
				empty = true
			}
		}
	case *ast.CompositeLit:
		if at, ok := e.Type.(*ast.ArrayType); ok && at.Len == nil && len(e.Elts) == 0 {
			empty = true
		}
	}
	if !empty {
		return false
	}
	isLenOwners := func(e ast.Expr) bool {
		l, ok := e.(*ast.CallExpr)
		if !ok || len(l.Args) != 1 {
			return false
		}
		lf, ok := l.Fun.(*ast.Ident)
		if !ok || lf.Name != "len" {
			return false
		}
		_, ok = isSel(l.Args[0], "Owners")
		return ok
	}
	lenVar := func(e ast.Expr) bool { // a variable assigned exactly once in the body, as len(<x>.Owners)
		id, ok := e.(*ast.Ident)
		if !ok {
			return false
		}
		defs, good := 0, 0
		ast.Inspect(body, func(x ast.Node) bool {
			switch y := x.(type) {
			case *ast.AssignStmt:
				for i, l := range y.Lhs {
					if li, ok := l.(*ast.Ident); ok && li.Name == id.Name {
						defs++
						if y.Tok == token.DEFINE && len(y.Lhs) == len(y.Rhs) && isLenOwners(y.Rhs[i]) {
							good++
						}
					}
				}
			case *ast.IncDecStmt:
				if li, ok := y.X.(*ast.Ident); ok && li.Name == id.Name {
					defs++
				}
			case *ast.UnaryExpr:
				if li, ok := y.X.(*ast.Ident); ok && y.Op == token.AND && li.Name == id.Name {
					defs++
				}
			}
			return true
		})
		return defs == 1 && good == 1
	}
	full := func(e ast.Expr) bool { return e == nil || isLenOwners(e) || lenVar(e) }
	switch s := c.Args[1].(type) {
	case *ast.SelectorExpr:
		return s.Sel.Name == "Owners"
	case *ast.SliceExpr:
		if _, ok := isSel(s.X, "Owners"); !ok {
			return false
		}
		if s.Low != nil {
			if bl, ok := s.Low.(*ast.BasicLit); !ok || bl.Value != "0" {
				return false
			}
		}
		return full(s.High) && full(s.Max)
	}
	return false
}
