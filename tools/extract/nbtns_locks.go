package main

// Fact NbtnsLocks (C17): the lock discipline of NetBIOSNameServer, read off the source.
//
// For every function of package network/netbios/nbtns (non-test files) that mentions the
// selector `<x>.names`: is its first statement `<recv>.mu.Lock()` / `<recv>.mu.RLock()`, is its
// second statement the matching `defer <recv>.mu.Unlock()` / `RUnlock()`, is there any other
// (early) unlock, does it write to the map or to a record reached through it.  Plus the shape of
// QueryName's result: a fresh `make` + `copy` of record.Owners, or the internal slice.
//
// Unknown shapes are errors, never defaults.

import (
	"fmt"
	"go/ast"
	"go/parser"
	"go/token"
	"os"
	"path/filepath"
	"sort"
	"strings"
)

type lockMethod struct {
	Name          string `json:"name"`
	File          string `json:"file"`
	IsMethod      bool   `json:"isMethod"`      // declared on (*)NetBIOSNameServer
	TouchesNames  bool   `json:"touchesNames"`  // mentions <x>.names
	WritesNames   bool   `json:"writesNames"`   // assigns into the map / deletes / assigns a field of a record taken from it
	LockKind      string `json:"lockKind"`      // "Lock", "RLock" or "" (first statement)
	LocksFirst    bool   `json:"locksFirst"`    // first statement is <recv>.mu.Lock() or RLock()
	DefersUnlock  bool   `json:"defersUnlock"`  // second statement is the matching deferred unlock
	NoEarlyUnlock bool   `json:"noEarlyUnlock"` // no other Unlock/RUnlock call in the body
}

func init() { facts["NbtnsLocks"] = nbtnsLocks }

func isSel(e ast.Expr, name string) (ast.Expr, bool) {
	s, ok := e.(*ast.SelectorExpr)
	if !ok || s.Sel.Name != name {
		return nil, false
	}
	return s.X, true
}

// <recv>.mu.<which>()
func muCall(e ast.Expr, recv string) string {
	c, ok := e.(*ast.CallExpr)
	if !ok || len(c.Args) != 0 {
		return ""
	}
	s, ok := c.Fun.(*ast.SelectorExpr)
	if !ok {
		return ""
	}
	x, ok := isSel(s.X, "mu")
	if !ok {
		return ""
	}
	id, ok := x.(*ast.Ident)
	if !ok || id.Name != recv {
		return ""
	}
	return s.Sel.Name
}

func nbtnsLocks(repo string) (string, any, error) {
	dir := filepath.Join(repo, "network/netbios/nbtns")
	fset := token.NewFileSet()
	entries, err := os.ReadDir(dir)
	if err != nil {
		return "", nil, err
	}
	var methods []lockMethod
	queryCopies := -1 // -1 unknown, 0 internal slice, 1 make+copy
	for _, ent := range entries {
		fn := ent.Name()
		if !strings.HasSuffix(fn, ".go") || strings.HasSuffix(fn, "_test.go") || fn == "verif_hooks.go" {
			continue
		}
		f, err := parser.ParseFile(fset, filepath.Join(dir, fn), nil, 0)
		if err != nil {
			return "", nil, err
		}
		for _, d := range f.Decls {
			fd, ok := d.(*ast.FuncDecl)
			if !ok || fd.Body == nil {
				continue
			}
			m := lockMethod{Name: fd.Name.Name, File: fn}
			recv := ""
			if fd.Recv != nil && len(fd.Recv.List) == 1 {
				t := fd.Recv.List[0].Type
				if st, ok := t.(*ast.StarExpr); ok {
					t = st.X
				}
				if id, ok := t.(*ast.Ident); ok && id.Name == "NetBIOSNameServer" {
					m.IsMethod = true
					if len(fd.Recv.List[0].Names) == 1 {
						recv = fd.Recv.List[0].Names[0].Name
					}
				}
			}
			// does the body mention <x>.names ?  which identifiers are bound to records of the map?
			recIdents := map[string]bool{}
			fromNames := func(e ast.Expr) bool { // n.names[...] or n.names
				if ix, ok := e.(*ast.IndexExpr); ok {
					e = ix.X
				}
				_, ok := isSel(e, "names")
				return ok
			}
			ast.Inspect(fd.Body, func(n ast.Node) bool {
				switch x := n.(type) {
				case *ast.SelectorExpr:
					if x.Sel.Name == "names" {
						m.TouchesNames = true
					}
				case *ast.AssignStmt:
					if len(x.Rhs) == 1 && fromNames(x.Rhs[0]) {
						if id, ok := x.Lhs[0].(*ast.Ident); ok {
							recIdents[id.Name] = true
						}
					}
				case *ast.RangeStmt:
					if fromNames(x.X) && x.Value != nil {
						if id, ok := x.Value.(*ast.Ident); ok {
							recIdents[id.Name] = true
						}
					}
				}
				return true
			})
			if !m.TouchesNames {
				continue
			}
			rootIdent := func(e ast.Expr) string {
				for {
					switch x := e.(type) {
					case *ast.SelectorExpr:
						e = x.X
					case *ast.IndexExpr:
						e = x.X
					case *ast.SliceExpr:
						e = x.X
					case *ast.Ident:
						return x.Name
					default:
						return ""
					}
				}
			}
			unlocks := 0
			ast.Inspect(fd.Body, func(n ast.Node) bool {
				switch x := n.(type) {
				case *ast.AssignStmt:
					for _, l := range x.Lhs {
						if ix, ok := l.(*ast.IndexExpr); ok {
							if _, ok := isSel(ix.X, "names"); ok {
								m.WritesNames = true
							}
						}
						if _, isIdent := l.(*ast.Ident); !isIdent && recIdents[rootIdent(l)] {
							m.WritesNames = true
						}
					}
				case *ast.IncDecStmt:
					if recIdents[rootIdent(x.X)] {
						m.WritesNames = true
					}
				case *ast.CallExpr:
					if id, ok := x.Fun.(*ast.Ident); ok && id.Name == "delete" && len(x.Args) == 2 {
						if _, ok := isSel(x.Args[0], "names"); ok {
							m.WritesNames = true
						}
					}
					if s, ok := x.Fun.(*ast.SelectorExpr); ok && (s.Sel.Name == "Unlock" || s.Sel.Name == "RUnlock") {
						if _, ok := isSel(s.X, "mu"); ok {
							unlocks++
						}
					}
				}
				return true
			})
			if m.IsMethod && recv != "" && len(fd.Body.List) >= 2 {
				if es, ok := fd.Body.List[0].(*ast.ExprStmt); ok {
					switch muCall(es.X, recv) {
					case "Lock":
						m.LockKind, m.LocksFirst = "Lock", true
					case "RLock":
						m.LockKind, m.LocksFirst = "RLock", true
					}
				}
				if ds, ok := fd.Body.List[1].(*ast.DeferStmt); ok && m.LocksFirst {
					want := map[string]string{"Lock": "Unlock", "RLock": "RUnlock"}[m.LockKind]
					if muCall(ds.Call, recv) == want {
						m.DefersUnlock = true
					}
				}
			}
			m.NoEarlyUnlock = (m.DefersUnlock && unlocks == 1) || (!m.DefersUnlock && unlocks == 0)
			methods = append(methods, m)

			// result shape of QueryName
			if m.IsMethod && m.Name == "QueryName" {
				var last *ast.ReturnStmt
				for _, st := range fd.Body.List {
					if r, ok := st.(*ast.ReturnStmt); ok {
						last = r
					}
				}
				if last == nil || len(last.Results) != 3 {
					return "", nil, fmt.Errorf("%s: QueryName: final `return owners, type, nil` not found", fn)
				}
				switch res := last.Results[0].(type) {
				case *ast.SelectorExpr:
					if res.Sel.Name == "Owners" {
						queryCopies = 0
					} else {
						return "", nil, fmt.Errorf("%s: QueryName returns an unknown selector %s", fn, res.Sel.Name)
					}
				case *ast.Ident:
					made, copied := false, false
					ast.Inspect(fd.Body, func(n ast.Node) bool {
						switch x := n.(type) {
						case *ast.AssignStmt:
							if len(x.Lhs) == 1 && len(x.Rhs) == 1 {
								if id, ok := x.Lhs[0].(*ast.Ident); ok && id.Name == res.Name {
									if c, ok := x.Rhs[0].(*ast.CallExpr); ok {
										if f, ok := c.Fun.(*ast.Ident); ok && f.Name == "make" && len(c.Args) >= 2 {
											if l, ok := c.Args[1].(*ast.CallExpr); ok {
												if lf, ok := l.Fun.(*ast.Ident); ok && lf.Name == "len" && len(l.Args) == 1 {
													if _, ok := isSel(l.Args[0], "Owners"); ok {
														made = true
													}
												}
											}
										}
									}
									if !made {
										// any other definition of the result (e.g. `owners := record.Owners`)
										if _, ok := isSel(x.Rhs[0], "Owners"); ok {
											queryCopies = 0
										}
									}
								}
							}
						case *ast.CallExpr:
							if f, ok := x.Fun.(*ast.Ident); ok && f.Name == "copy" && len(x.Args) == 2 {
								if id, ok := x.Args[0].(*ast.Ident); ok && id.Name == res.Name {
									if _, ok := isSel(x.Args[1], "Owners"); ok {
										copied = true
									}
								}
							}
						}
						return true
					})
					if made && copied {
						queryCopies = 1
					} else if queryCopies != 0 {
						return "", nil, fmt.Errorf("%s: QueryName: result %q is neither make(len(record.Owners))+copy nor record.Owners", fn, res.Name)
					}
				default:
					return "", nil, fmt.Errorf("%s: QueryName: unknown result expression", fn)
				}
			}
		}
	}
	if len(methods) == 0 {
		return "", nil, fmt.Errorf("no function touching NetBIOSNameServer.names found in %s", dir)
	}
	if queryCopies < 0 {
		return "", nil, fmt.Errorf("method QueryName of NetBIOSNameServer not found")
	}
	sort.Slice(methods, func(i, j int) bool { return methods[i].Name < methods[j].Name })
	var b strings.Builder
	b.WriteString("-- Fact NbtnsLocks: lock discipline of NetBIOSNameServer (network/netbios/nbtns/*.go)\n")
	b.WriteString("namespace Manticore.Gen.NbtnsLocks\n\n")
	b.WriteString("inductive LockKind | none | lock | rlock\n  deriving DecidableEq, Repr\n\n")
	b.WriteString("structure Method where\n  name : String\n  isMethod : Bool\n  touchesNames : Bool\n  writesNames : Bool\n  lockKind : LockKind\n  locksFirst : Bool\n  defersUnlock : Bool\n  noEarlyUnlock : Bool\n  deriving DecidableEq, Repr\n\n")
	b.WriteString("/-- every function of the package that mentions `.names` -/\n")
	b.WriteString("def methods : List Method := [\n")
	for i, m := range methods {
		kind := map[string]string{"": ".none", "Lock": ".lock", "RLock": ".rlock"}[m.LockKind]
		sep := ","
		if i == len(methods)-1 {
			sep = ""
		}
		fmt.Fprintf(&b, "  ⟨%q, %v, %v, %v, %s, %v, %v, %v⟩%s\n", m.Name, m.IsMethod, m.TouchesNames, m.WritesNames, kind, m.LocksFirst, m.DefersUnlock, m.NoEarlyUnlock, sep)
	}
	b.WriteString("]\n\n")
	b.WriteString("/-- `QueryName` returns `make([]net.IP, len(record.Owners))` filled by `copy` (true) or `record.Owners` itself (false) -/\n")
	fmt.Fprintf(&b, "def queryCopies : Bool := %v\n\n", queryCopies == 1)
	b.WriteString("end Manticore.Gen.NbtnsLocks\n")
	return b.String(), map[string]any{"methods": methods, "queryCopies": queryCopies == 1}, nil
}
