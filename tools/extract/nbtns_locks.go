package main

// Fact NbtnsLocks (C17): the lock discipline of NetBIOSNameServer, read off the source.
//
// For every function of package network/netbios/nbtns (non-test files) that mentions the
// selector `<x>.names`: is its first statement `<recv>.mu.Lock()` / `<recv>.mu.RLock()`, is its
// second statement the matching `defer <recv>.mu.Unlock()` / `RUnlock()`, is there any other
// (early) unlock, does it write to the map or to a record reached through it.  Plus the shape of
// QueryName's result: a fresh `make` + `copy` of record.Owners, or the internal slice.
//
// Unknown shapes are errors, never defaults.
//
// Normalisations (DESIGN.md §7):
//
//   - "helper under the caller's lock".  An unexported method of NetBIOSNameServer that mentions `.names`,
//     contains no call on `.mu` at all, is never used as a method value or inside a `go` statement or function
//     literal, and is called ONLY from methods that
//     hold the mutex for their whole body (first statement Lock/RLock, second the matching deferred unlock, no
//     other unlock) or from other such helpers, is not a method of the discipline: its statements run inside
//     its callers' critical sections.  It is not listed; instead every caller is treated as if the helper's body
//     stood at the call: the caller touches `.names`, writes if the helper writes, and a value the caller binds
//     from a helper that returns a record of the map (`record, err := n.find(name)`) is a record reached through
//     the map, so `record.Status = …` in the caller is a write.  A helper with any caller that does not hold
//     the lock is listed like every other function (and fails the discipline).
//   - "fresh copy of the owners".  Canonical form: `owners := make([]net.IP, len(record.Owners));
//     copy(owners, record.Owners); return owners, …`.  Accepted as the same: `append(E, S...)` — returned
//     directly or through one variable — where E is a new empty slice (`make([]T, 0[, n])`, `[]T{}`,
//     `[]T(nil)`) and S is `record.Owners`, `record.Owners[:]` or `record.Owners[:n]` / `[:n:n]` with n =
//     `len(record.Owners)` (written out, or a variable defined once as that).  Appending to an empty slice
//     that nobody else holds never shares S's array and yields exactly S's elements.  Any other bound is refused.
//     E may also be a variable: `e := <new empty slice>` defined once and mentioned nowhere but in this append, or the
//     result variable itself in `owners := <new empty slice>; owners = append(owners, S...); return owners, …` (four
//     mentions, no more) — in both nobody else can hold E between its creation and the append.
//   - "the answering return, wherever it stands".  The guard of QueryName may be written either way round
//     (`if !exists || … { return nil, …, err }; …; return owners, …` or, by De Morgan, `if exists && … { …; return
//     owners, … }; return nil, …, err`).  Every `return` of the method with three results is read: one whose first
//     result is the identifier `nil` hands out no slice and says nothing about aliasing; every other one must be a
//     fresh copy in one of the forms above (queryCopies = true only if all are) or `record.Owners` itself (false).
//     Control flow (`if`, tagless `switch`, `else`) around the returns is not interpreted at all by this fact — the
//     lock discipline does not depend on it, and what the branches compute is tied by L2.
//   - "record handed to a pure helper".  A package-level function (no receiver) called by plain name from a listed
//     function with an argument rooted at a record of the map (`record`, `record.Owners`, `n.names[k]`) runs inside
//     the caller's critical section on that record: `hasOwner(record.Owners, owner)`, `appendOwner(record, owner)`.
//     The callee must be what the discipline takes it for: no `go` statement, no mention of `.mu`, never used as a
//     function value (else: error).  The caller WRITES if the callee may write through that parameter: an assignment
//     or ++/-- whose target is rooted at the parameter, `delete`, `append`/`copy` with it as first argument, its
//     address taken, a function literal that mentions it together with any assignment, or the parameter handed on to
//     another package function that may (two levels) or to any call outside the read-only list below.  Read-only
//     calls: len, cap, the methods Equal/String/After/Before/IsZero, slices.Contains/ContainsFunc/Index/IndexFunc/Equal,
//     bytes.Equal, fmt.*.  Over-approximating "writes" is the safe direction: under RLock it breaks the discipline.
//     The same holds for a method of the package declared on another type and called on a record (`record.touch()`):
//     its receiver is the parameter.  Methods from other packages on a record's fields (net.IP, time.Time) only read.
//     A constructor that receives no record (`newNameRecord(name, …)`) needs nothing: storing its result is the
//     caller's `n.names[k] = …`, a write as before.
//   - "the map handed to a library function".  `maps.DeleteFunc(n.names, …)` is the delete loop of CleanExpiredNames
//     in one call.  A call that receives `<x>.names` itself is a WRITE unless it is one of the read-only ones (len,
//     maps.Keys/Values/All/Clone/Equal/EqualFunc, fmt.*): maps.DeleteFunc, maps.Copy, maps.Insert, `clear` and
//     anything unknown count as writing (before, such a call was not seen as a write at all — a miss, not only a
//     refused shape; over-approximating is the safe direction, see above).
//   - "no lock taken inside".  A listed method that holds the mutex and calls, on its own receiver, another listed
//     method that takes it (`n.QueryName(…)` inside RegisterName) would deadlock (sync.RWMutex is not re-entrant):
//     refused with an error rather than described by facts that cannot express it.

import (
	"fmt"
	"go/ast"
	"go/parser"
	"go/token"
	"os"
	"path/filepath"
	"sort"
	"strings"
)

type lockMethod struct {
	Name          string `json:"name"`
	File          string `json:"file"`
	IsMethod      bool   `json:"isMethod"`      // declared on (*)NetBIOSNameServer
	TouchesNames  bool   `json:"touchesNames"`  // mentions <x>.names
	WritesNames   bool   `json:"writesNames"`   // assigns into the map / deletes / assigns a field of a record taken from it
	LockKind      string `json:"lockKind"`      // "Lock", "RLock" or "" (first statement)
	LocksFirst    bool   `json:"locksFirst"`    // first statement is <recv>.mu.Lock() or RLock()
	DefersUnlock  bool   `json:"defersUnlock"`  // second statement is the matching deferred unlock
	NoEarlyUnlock bool   `json:"noEarlyUnlock"` // no other Unlock/RUnlock call in the body
}

func init() { facts["NbtnsLocks"] = nbtnsLocks }

func isSel(e ast.Expr, name string) (ast.Expr, bool) {
	s, ok := e.(*ast.SelectorExpr)
	if !ok || s.Sel.Name != name {
		return nil, false
	}
	return s.X, true
}

// <recv>.mu.<which>()
func muCall(e ast.Expr, recv string) string {
	c, ok := e.(*ast.CallExpr)
	if !ok || len(c.Args) != 0 {
		return ""
	}
	s, ok := c.Fun.(*ast.SelectorExpr)
	if !ok {
		return ""
	}
	x, ok := isSel(s.X, "mu")
	if !ok {
		return ""
	}
	id, ok := x.(*ast.Ident)
	if !ok || id.Name != recv {
		return ""
	}
	return s.Sel.Name
}

func nbtnsLocks(repo string) (string, any, error) {
	dir := filepath.Join(repo, "network/netbios/nbtns")
	fset := token.NewFileSet()
	entries, err := os.ReadDir(dir)
	if err != nil {
		return "", nil, err
	}
	var methods []lockMethod
	var decls []nbtnsDecl
	queryCopies := -1 // -1 unknown, 0 internal slice, 1 make+copy
	for _, ent := range entries {
		fn := ent.Name()
		if !strings.HasSuffix(fn, ".go") || strings.HasSuffix(fn, "_test.go") || fn == "verif_hooks.go" {
			continue
		}
		f, err := parser.ParseFile(fset, filepath.Join(dir, fn), nil, 0)
		if err != nil {
			return "", nil, err
		}
		for _, d := range f.Decls {
			if fd, ok := d.(*ast.FuncDecl); ok && fd.Body != nil {
				decls = append(decls, nbtnsDecl{fn, fd})
			}
		}
	}
	helpers := nbtnsHelpers(decls)
	{
		for _, dcl := range decls {
			fn, fd := dcl.file, dcl.fd
			if _, inlined := helpers[fd.Name.Name]; inlined && nbtnsIsServerMethod(fd) != "" {
				continue
			}
			m := lockMethod{Name: fd.Name.Name, File: fn}
			recv := ""
			if fd.Recv != nil && len(fd.Recv.List) == 1 {
				t := fd.Recv.List[0].Type
				if st, ok := t.(*ast.StarExpr); ok {
					t = st.X
				}
				if id, ok := t.(*ast.Ident); ok && id.Name == "NetBIOSNameServer" {
					m.IsMethod = true
					if len(fd.Recv.List[0].Names) == 1 {
						recv = fd.Recv.List[0].Names[0].Name
					}
				}
			}
			// does the body mention <x>.names ?  which identifiers are bound to records of the map?
			recIdents := map[string]bool{}
			fromNames := func(e ast.Expr) bool { // n.names[...] or n.names
				if ix, ok := e.(*ast.IndexExpr); ok {
					e = ix.X
				}
				_, ok := isSel(e, "names")
				return ok
			}
			ast.Inspect(fd.Body, func(n ast.Node) bool {
				switch x := n.(type) {
				case *ast.SelectorExpr:
					if x.Sel.Name == "names" {
						m.TouchesNames = true
					}
				case *ast.AssignStmt:
					if len(x.Rhs) == 1 && fromNames(x.Rhs[0]) {
						if id, ok := x.Lhs[0].(*ast.Ident); ok {
							recIdents[id.Name] = true
						}
					}
					if len(x.Rhs) == 1 {
						if h := nbtnsHelperCall(x.Rhs[0], helpers); h != nil && h.returnsRecord {
							if id, ok := x.Lhs[0].(*ast.Ident); ok {
								recIdents[id.Name] = true
							}
						}
					}
				case *ast.CallExpr:
					if h := nbtnsHelperCall(x, helpers); h != nil {
						m.TouchesNames = true
						if h.writes {
							m.WritesNames = true
						}
					}
				case *ast.RangeStmt:
					if fromNames(x.X) && x.Value != nil {
						if id, ok := x.Value.(*ast.Ident); ok {
							recIdents[id.Name] = true
						}
					}
				}
				return true
			})
			if !m.TouchesNames {
				continue
			}
			rootIdent := func(e ast.Expr) string {
				for {
					switch x := e.(type) {
					case *ast.SelectorExpr:
						e = x.X
					case *ast.IndexExpr:
						e = x.X
					case *ast.SliceExpr:
						e = x.X
					case *ast.Ident:
						return x.Name
					default:
						return ""
					}
				}
			}
			unlocks := 0
			ast.Inspect(fd.Body, func(n ast.Node) bool {
				switch x := n.(type) {
				case *ast.AssignStmt:
					for _, l := range x.Lhs {
						if ix, ok := l.(*ast.IndexExpr); ok {
							if _, ok := isSel(ix.X, "names"); ok {
								m.WritesNames = true
							}
						}
						if _, isIdent := l.(*ast.Ident); !isIdent && recIdents[rootIdent(l)] {
							m.WritesNames = true
						}
					}
				case *ast.IncDecStmt:
					if recIdents[rootIdent(x.X)] {
						m.WritesNames = true
					}
				case *ast.CallExpr:
					if id, ok := x.Fun.(*ast.Ident); ok && id.Name == "delete" && len(x.Args) == 2 {
						if _, ok := isSel(x.Args[0], "names"); ok {
							m.WritesNames = true
						}
					}
					if s, ok := x.Fun.(*ast.SelectorExpr); ok && (s.Sel.Name == "Unlock" || s.Sel.Name == "RUnlock") {
						if _, ok := isSel(s.X, "mu"); ok {
							unlocks++
						}
					}
					// "the map handed to a library function"
					for _, a := range x.Args {
						if _, isMap := isSel(a, "names"); !isMap {
							continue
						}
						switch f := x.Fun.(type) {
						case *ast.Ident:
							if f.Name == "clear" {
								m.WritesNames = true
							}
						case *ast.SelectorExpr:
							q := ""
							if pk, ok := f.X.(*ast.Ident); ok {
								q = pk.Name + "." + f.Sel.Name
							}
							switch {
							case q == "maps.Keys", q == "maps.Values", q == "maps.All", q == "maps.Clone", q == "maps.Equal", q == "maps.EqualFunc", strings.HasPrefix(q, "fmt."):
							default:
								m.WritesNames = true
							}
						default:
							m.WritesNames = true
						}
					}
				}
				return true
			})
			// "record handed to a pure helper"
			{
				var herr error
				ast.Inspect(fd.Body, func(n ast.Node) bool {
					c, ok := n.(*ast.CallExpr)
					if !ok || herr != nil {
						return true
					}
					if sel, isSel := c.Fun.(*ast.SelectorExpr); isSel && (recIdents[rootIdent(sel.X)] || fromNames(sel.X)) {
						// a method of the package called on a record (`record.touch()`): the receiver is the parameter
						if callee := nbtnsMethod(decls, sel.Sel.Name); callee != nil {
							w, err := nbtnsParamWritten(decls, callee, -1, 0)
							if err != nil {
								herr = fmt.Errorf("%s: %s calls %s on a record of the map: %v", fn, fd.Name.Name, sel.Sel.Name, err)
								return true
							}
							if w {
								m.WritesNames = true
							}
						}
					}
					id, ok := c.Fun.(*ast.Ident)
					if !ok {
						return true
					}
					callee := nbtnsPkgFunc(decls, id.Name)
					if callee == nil {
						return true
					}
					for ai, a := range c.Args {
						if recIdents[rootIdent(a)] || fromNames(a) {
							w, err := nbtnsParamWritten(decls, callee, ai, 0)
							if err != nil {
								herr = fmt.Errorf("%s: %s hands a record of the map to %s: %v", fn, fd.Name.Name, id.Name, err)
								return true
							}
							if w {
								m.WritesNames = true
							}
						}
					}
					return true
				})
				if herr != nil {
					return "", nil, herr
				}
			}
			if m.IsMethod && recv != "" && len(fd.Body.List) >= 2 {
				if es, ok := fd.Body.List[0].(*ast.ExprStmt); ok {
					switch muCall(es.X, recv) {
					case "Lock":
						m.LockKind, m.LocksFirst = "Lock", true
					case "RLock":
						m.LockKind, m.LocksFirst = "RLock", true
					}
				}
				if ds, ok := fd.Body.List[1].(*ast.DeferStmt); ok && m.LocksFirst {
					want := map[string]string{"Lock": "Unlock", "RLock": "RUnlock"}[m.LockKind]
					if muCall(ds.Call, recv) == want {
						m.DefersUnlock = true
					}
				}
			}
			m.NoEarlyUnlock = (m.DefersUnlock && unlocks == 1) || (!m.DefersUnlock && unlocks == 0)
			methods = append(methods, m)

			// result shape of QueryName ("the answering return, wherever it stands": see the file comment)
			if m.IsMethod && m.Name == "QueryName" {
				var rets []*ast.ReturnStmt
				ast.Inspect(fd.Body, func(n ast.Node) bool {
					switch x := n.(type) {
					case *ast.FuncLit:
						return false
					case *ast.ReturnStmt:
						rets = append(rets, x)
					}
					return true
				})
				answers := 0
				for _, r := range rets {
					if len(r.Results) != 3 {
						return "", nil, fmt.Errorf("%s: QueryName: a return without three results (named results are not understood)", fn)
					}
					if id, ok := r.Results[0].(*ast.Ident); ok && id.Name == "nil" {
						continue // hands out no slice at all
					}
					k, err := nbtnsOwnersResult(r.Results[0], fd.Body)
					if err != nil {
						return "", nil, fmt.Errorf("%s: QueryName: %v", fn, err)
					}
					answers++
					if k == 0 || queryCopies < 0 {
						queryCopies = k
					}
				}
				if answers == 0 {
					return "", nil, fmt.Errorf("%s: QueryName: no `return owners, type, nil` found", fn)
				}
			}
		}
	}
	// "no lock taken inside"
	{
		takes := map[string]bool{}
		for _, m := range methods {
			if m.IsMethod && m.LocksFirst {
				takes[m.Name] = true
			}
		}
		for _, dcl := range decls {
			recv := nbtnsIsServerMethod(dcl.fd)
			if recv == "" || !takes[dcl.fd.Name.Name] {
				continue
			}
			var rerr error
			ast.Inspect(dcl.fd.Body, func(n ast.Node) bool {
				if c, ok := n.(*ast.CallExpr); ok {
					if sel, ok := c.Fun.(*ast.SelectorExpr); ok && takes[sel.Sel.Name] {
						if id, ok := sel.X.(*ast.Ident); ok && id.Name == recv {
							rerr = fmt.Errorf("%s: %s calls %s.%s while holding the mutex that method takes (sync.RWMutex is not re-entrant)", dcl.file, dcl.fd.Name.Name, recv, sel.Sel.Name)
						}
					}
				}
				return true
			})
			if rerr != nil {
				return "", nil, rerr
			}
		}
	}
	if len(methods) == 0 {
		return "", nil, fmt.Errorf("no function touching NetBIOSNameServer.names found in %s", dir)
	}
	if queryCopies < 0 {
		return "", nil, fmt.Errorf("method QueryName of NetBIOSNameServer not found among the functions that reach `.names` (directly, or through a helper that only runs under its callers' lock)")
	}
	sort.Slice(methods, func(i, j int) bool { return methods[i].Name < methods[j].Name })
	var b strings.Builder
	b.WriteString("-- Fact NbtnsLocks: lock discipline of NetBIOSNameServer (network/netbios/nbtns/*.go)\n")
	b.WriteString("namespace Manticore.Gen.NbtnsLocks\n\n")
	b.WriteString("inductive LockKind | none | lock | rlock\n  deriving DecidableEq, Repr\n\n")
	b.WriteString("structure Method where\n  name : String\n  isMethod : Bool\n  touchesNames : Bool\n  writesNames : Bool\n  lockKind : LockKind\n  locksFirst : Bool\n  defersUnlock : Bool\n  noEarlyUnlock : Bool\n  deriving DecidableEq, Repr\n\n")
	b.WriteString("/-- every function of the package that mentions `.names` -/\n")
	b.WriteString("def methods : List Method := [\n")
	for i, m := range methods {
		kind := map[string]string{"": ".none", "Lock": ".lock", "RLock": ".rlock"}[m.LockKind]
		sep := ","
		if i == len(methods)-1 {
			sep = ""
		}
		fmt.Fprintf(&b, "  ⟨%q, %v, %v, %v, %s, %v, %v, %v⟩%s\n", m.Name, m.IsMethod, m.TouchesNames, m.WritesNames, kind, m.LocksFirst, m.DefersUnlock, m.NoEarlyUnlock, sep)
	}
	b.WriteString("]\n\n")
	b.WriteString("/-- `QueryName` returns `make([]net.IP, len(record.Owners))` filled by `copy` (true) or `record.Owners` itself (false) -/\n")
	fmt.Fprintf(&b, "def queryCopies : Bool := %v\n\n", queryCopies == 1)
	b.WriteString("end Manticore.Gen.NbtnsLocks\n")
	return b.String(), map[string]any{"methods": methods, "queryCopies": queryCopies == 1}, nil
}

type nbtnsDecl struct {
	file string
	fd   *ast.FuncDecl
}

type nbtnsHelper struct {
	writes, returnsRecord bool
}

// receiver name if fd is declared on (*)NetBIOSNameServer with a named receiver, else ""
func nbtnsIsServerMethod(fd *ast.FuncDecl) string {
	if fd.Recv == nil || len(fd.Recv.List) != 1 || len(fd.Recv.List[0].Names) != 1 {
		return ""
	}
	t := fd.Recv.List[0].Type
	if st, ok := t.(*ast.StarExpr); ok {
		t = st.X
	}
	if id, ok := t.(*ast.Ident); ok && id.Name == "NetBIOSNameServer" {
		return fd.Recv.List[0].Names[0].Name
	}
	return ""
}

// nbtnsHelperCall: e is `<x>.<helper>(…)` for an inlined helper
func nbtnsHelperCall(e ast.Expr, helpers map[string]*nbtnsHelper) *nbtnsHelper {
	c, ok := e.(*ast.CallExpr)
	if !ok {
		return nil
	}
	s, ok := c.Fun.(*ast.SelectorExpr)
	if !ok {
		return nil
	}
	return helpers[s.Sel.Name]
}

// nbtnsHelpers finds the helpers of the normalisation "helper under the caller's lock" (see the file comment).
func nbtnsHelpers(decls []nbtnsDecl) map[string]*nbtnsHelper {
	mentions := func(n ast.Node, sel string) bool {
		found := false
		ast.Inspect(n, func(x ast.Node) bool {
			if s, ok := x.(*ast.SelectorExpr); ok && s.Sel.Name == sel {
				found = true
			}
			return true
		})
		return found
	}
	holdsLock := func(fd *ast.FuncDecl) bool {
		recv := nbtnsIsServerMethod(fd)
		if recv == "" || len(fd.Body.List) < 2 {
			return false
		}
		es, ok := fd.Body.List[0].(*ast.ExprStmt)
		if !ok {
			return false
		}
		kind := muCall(es.X, recv)
		want := map[string]string{"Lock": "Unlock", "RLock": "RUnlock"}[kind]
		ds, ok := fd.Body.List[1].(*ast.DeferStmt)
		if want == "" || !ok || muCall(ds.Call, recv) != want {
			return false
		}
		unlocks := 0
		ast.Inspect(fd.Body, func(x ast.Node) bool {
			if c, ok := x.(*ast.CallExpr); ok {
				if s, ok := c.Fun.(*ast.SelectorExpr); ok && (s.Sel.Name == "Unlock" || s.Sel.Name == "RUnlock") {
					if _, ok := isSel(s.X, "mu"); ok {
						unlocks++
					}
				}
			}
			return true
		})
		return unlocks == 1
	}
	cand := map[string]*ast.FuncDecl{}
	count := map[string]int{}
	for _, d := range decls {
		count[d.fd.Name.Name]++
		if nbtnsIsServerMethod(d.fd) != "" && !d.fd.Name.IsExported() && mentions(d.fd.Body, "names") && !mentions(d.fd.Body, "mu") {
			cand[d.fd.Name.Name] = d.fd
		}
	}
	for name := range cand {
		if count[name] != 1 {
			delete(cand, name) // the name is not unique in the package: calls cannot be attributed
		}
	}
	// every use of the name must be a call inside a lock-holding method or another candidate; iterate to a fixpoint
	for changed := true; changed; {
		changed = false
		for name := range cand {
			ok := true
			for _, d := range decls {
				calls, uses := 0, 0
				ast.Inspect(d.fd.Body, func(x ast.Node) bool {
					switch y := x.(type) {
					case *ast.CallExpr:
						if s, isSel := y.Fun.(*ast.SelectorExpr); isSel && s.Sel.Name == name {
							calls++
						}
					case *ast.SelectorExpr:
						if y.Sel.Name == name {
							uses++
						}
					case *ast.Ident:
						if y.Name == name {
							uses++ // a bare reference (method expression, shadowing): not understood
						}
					}
					return true
				})
				if uses != 2*calls { // each call contributes its SelectorExpr and its Sel identifier
					ok = false
				}
				// a call in a `go` statement or inside a function literal does not run under the caller's lock
				ast.Inspect(d.fd.Body, func(x ast.Node) bool {
					switch y := x.(type) {
					case *ast.GoStmt, *ast.FuncLit:
						ast.Inspect(y, func(z ast.Node) bool {
							if id, isId := z.(*ast.Ident); isId && id.Name == name {
								ok = false
							}
							return true
						})
					}
					return true
				})
				if calls > 0 && !holdsLock(d.fd) && cand[d.fd.Name.Name] == nil {
					ok = false
				}
			}
			if !ok {
				delete(cand, name)
				changed = true
			}
		}
	}
	out := map[string]*nbtnsHelper{}
	for name, fd := range cand {
		h := &nbtnsHelper{}
		rec := map[string]bool{}
		fromNames := func(e ast.Expr) bool {
			if ix, ok := e.(*ast.IndexExpr); ok {
				e = ix.X
			}
			_, ok := isSel(e, "names")
			return ok
		}
		ast.Inspect(fd.Body, func(x ast.Node) bool {
			switch y := x.(type) {
			case *ast.AssignStmt:
				if len(y.Rhs) == 1 && fromNames(y.Rhs[0]) {
					if id, ok := y.Lhs[0].(*ast.Ident); ok {
						rec[id.Name] = true
					}
				}
				for _, l := range y.Lhs {
					if _, isIdent := l.(*ast.Ident); !isIdent {
						h.writes = true // any assignment through a selector or index inside a helper counts as a write
					}
				}
			case *ast.RangeStmt:
				if fromNames(y.X) && y.Value != nil {
					if id, ok := y.Value.(*ast.Ident); ok {
						rec[id.Name] = true
					}
				}
			case *ast.IncDecStmt:
				if _, isIdent := y.X.(*ast.Ident); !isIdent {
					h.writes = true
				}
			case *ast.CallExpr:
				if id, ok := y.Fun.(*ast.Ident); ok && id.Name == "delete" {
					h.writes = true
				}
			}
			return true
		})
		ast.Inspect(fd.Body, func(x ast.Node) bool {
			if r, ok := x.(*ast.ReturnStmt); ok {
				for _, res := range r.Results {
					if id, ok := res.(*ast.Ident); ok && rec[id.Name] || fromNames(res) {
						h.returnsRecord = true
					}
				}
			}
			return true
		})
		out[name] = h
	}
	// a helper that calls a writing helper writes
	for changed := true; changed; {
		changed = false
		for name, fd := range cand {
			ast.Inspect(fd.Body, func(x ast.Node) bool {
				if c, ok := x.(*ast.CallExpr); ok {
					if h := nbtnsHelperCall(c, out); h != nil && h.writes && !out[name].writes {
						out[name].writes = true
						changed = true
					}
				}
				return true
			})
		}
	}
	return out
}

// nbtnsFreshCopy: `append(E, S...)` with E a new empty slice and S all of <x>.Owners (see the file comment)
func nbtnsFreshCopy(c *ast.CallExpr, body *ast.BlockStmt) bool {
	return nbtnsAppendAll(c, body, func(x ast.Expr) bool {
		if nbtnsEmptyNew(x) {
			return true
		}
		// a variable defined once (`e := <new empty slice>`) whose only other occurrence is this argument
		id, ok := x.(*ast.Ident)
		if !ok || nbtnsCountIdent(body, id.Name) != 2 {
			return false
		}
		found := false
		ast.Inspect(body, func(n ast.Node) bool {
			if a, ok := n.(*ast.AssignStmt); ok && a.Tok == token.DEFINE && len(a.Lhs) == 1 && len(a.Rhs) == 1 {
				if l, ok := a.Lhs[0].(*ast.Ident); ok && l.Name == id.Name && nbtnsEmptyNew(a.Rhs[0]) {
					found = true
				}
			}
			return true
		})
		return found
	})
}

// nbtnsAppendAll: `append(E, S...)` with emptyOK(E) and S all of <x>.Owners
func nbtnsAppendAll(c *ast.CallExpr, body *ast.BlockStmt, emptyOK func(ast.Expr) bool) bool {
	f, ok := c.Fun.(*ast.Ident)
	if !ok || f.Name != "append" || len(c.Args) != 2 || !c.Ellipsis.IsValid() {
		return false
	}
	if !emptyOK(c.Args[0]) {
		return false
	}
	isLenOwners := func(e ast.Expr) bool {
		l, ok := e.(*ast.CallExpr)
		if !ok || len(l.Args) != 1 {
			return false
		}
		lf, ok := l.Fun.(*ast.Ident)
		if !ok || lf.Name != "len" {
			return false
		}
		_, ok = isSel(l.Args[0], "Owners")
		return ok
	}
	lenVar := func(e ast.Expr) bool { // a variable assigned exactly once in the body, as len(<x>.Owners)
		id, ok := e.(*ast.Ident)
		if !ok {
			return false
		}
		defs, good := 0, 0
		ast.Inspect(body, func(x ast.Node) bool {
			switch y := x.(type) {
			case *ast.AssignStmt:
				for i, l := range y.Lhs {
					if li, ok := l.(*ast.Ident); ok && li.Name == id.Name {
						defs++
						if y.Tok == token.DEFINE && len(y.Lhs) == len(y.Rhs) && isLenOwners(y.Rhs[i]) {
							good++
						}
					}
				}
			case *ast.IncDecStmt:
				if li, ok := y.X.(*ast.Ident); ok && li.Name == id.Name {
					defs++
				}
			case *ast.UnaryExpr:
				if li, ok := y.X.(*ast.Ident); ok && y.Op == token.AND && li.Name == id.Name {
					defs++
				}
			}
			return true
		})
		return defs == 1 && good == 1
	}
	full := func(e ast.Expr) bool { return e == nil || isLenOwners(e) || lenVar(e) }
	switch s := c.Args[1].(type) {
	case *ast.SelectorExpr:
		return s.Sel.Name == "Owners"
	case *ast.SliceExpr:
		if _, ok := isSel(s.X, "Owners"); !ok {
			return false
		}
		if s.Low != nil {
			if bl, ok := s.Low.(*ast.BasicLit); !ok || bl.Value != "0" {
				return false
			}
		}
		return full(s.High) && full(s.Max)
	}
	return false
}

// nbtnsOwnersResult classifies the first result of an answering return of QueryName: 1 = a fresh copy of
// <x>.Owners, 0 = <x>.Owners itself (directly or through a variable), error = anything else.
func nbtnsOwnersResult(e ast.Expr, body *ast.BlockStmt) (int, error) {
	switch res := e.(type) {
	case *ast.CallExpr:
		if !nbtnsFreshCopy(res, body) {
			return 0, fmt.Errorf("result call is not append(<new empty slice>, record.Owners...)")
		}
		return 1, nil
	case *ast.SelectorExpr:
		if res.Sel.Name == "Owners" {
			return 0, nil
		}
		return 0, fmt.Errorf("returns an unknown selector %s", res.Sel.Name)
	case *ast.Ident:
		// every assignment to the variable, in source order
		var defs []*ast.AssignStmt
		copied, internal, other := false, false, false
		ast.Inspect(body, func(n ast.Node) bool {
			switch x := n.(type) {
			case *ast.AssignStmt:
				for _, l := range x.Lhs {
					if id, ok := l.(*ast.Ident); ok && id.Name == res.Name {
						if len(x.Lhs) == 1 && len(x.Rhs) == 1 {
							defs = append(defs, x)
						} else {
							other = true
						}
					}
				}
			case *ast.CallExpr:
				if f, ok := x.Fun.(*ast.Ident); ok && f.Name == "copy" && len(x.Args) == 2 {
					if id, ok := x.Args[0].(*ast.Ident); ok && id.Name == res.Name {
						if _, ok := isSel(x.Args[1], "Owners"); ok {
							copied = true
						}
					}
				}
			}
			return true
		})
		if other || len(defs) == 0 {
			return 0, fmt.Errorf("result %q is defined in a way that is not understood", res.Name)
		}
		isMakeLen := func(e ast.Expr) bool { // make([]T, len(<x>.Owners)[, …])
			c, ok := e.(*ast.CallExpr)
			if !ok {
				return false
			}
			f, ok := c.Fun.(*ast.Ident)
			if !ok || f.Name != "make" || len(c.Args) < 2 {
				return false
			}
			l, ok := c.Args[1].(*ast.CallExpr)
			if !ok || len(l.Args) != 1 {
				return false
			}
			lf, ok := l.Fun.(*ast.Ident)
			if !ok || lf.Name != "len" {
				return false
			}
			_, ok = isSel(l.Args[0], "Owners")
			return ok
		}
		for _, d := range defs {
			if _, ok := isSel(d.Rhs[0], "Owners"); ok {
				internal = true
			}
		}
		switch {
		case internal:
			return 0, nil
		case len(defs) == 1 && isMakeLen(defs[0].Rhs[0]) && copied:
			return 1, nil
		case len(defs) == 1:
			if c, ok := defs[0].Rhs[0].(*ast.CallExpr); ok && nbtnsFreshCopy(c, body) {
				return 1, nil
			}
		case len(defs) == 2 && defs[0].Tok == token.DEFINE && defs[1].Tok == token.ASSIGN && nbtnsEmptyNew(defs[0].Rhs[0]):
			// owners := <new empty slice>; owners = append(owners, record.Owners...); return owners, …
			// (the variable occurs nowhere else: definition, both sides of the append, the return)
			if c, ok := defs[1].Rhs[0].(*ast.CallExpr); ok && nbtnsCountIdent(body, res.Name) == 4 && nbtnsAppendAll(c, body, func(e ast.Expr) bool {
				id, ok := e.(*ast.Ident)
				return ok && id.Name == res.Name
			}) {
				return 1, nil
			}
		}
		return 0, fmt.Errorf("result %q is neither a fresh copy of record.Owners (make(len)+copy, append to a new empty slice) nor record.Owners", res.Name)
	}
	return 0, fmt.Errorf("unknown result expression")
}

func nbtnsCountIdent(n ast.Node, name string) int {
	c := 0
	ast.Inspect(n, func(x ast.Node) bool {
		if id, ok := x.(*ast.Ident); ok && id.Name == name {
			c++
		}
		return true
	})
	return c
}

// nbtnsEmptyNew: an expression whose value is a new slice of length 0 that nobody else holds:
// make([]T, 0[, n]), []T{}, []T(nil)
func nbtnsEmptyNew(x ast.Expr) bool {
	switch e := x.(type) {
	case *ast.CallExpr:
		if id, ok := e.Fun.(*ast.Ident); ok && id.Name == "make" && len(e.Args) >= 2 {
			if at, isSlice := e.Args[0].(*ast.ArrayType); isSlice && at.Len == nil {
				if bl, ok := e.Args[1].(*ast.BasicLit); ok && bl.Value == "0" {
					return true
				}
			}
		}
		if at, ok := e.Fun.(*ast.ArrayType); ok && at.Len == nil && len(e.Args) == 1 {
			if id, ok := e.Args[0].(*ast.Ident); ok && id.Name == "nil" {
				return true
			}
		}
	case *ast.CompositeLit:
		if at, ok := e.Type.(*ast.ArrayType); ok && at.Len == nil && len(e.Elts) == 0 {
			return true
		}
	}
	return false
}

// nbtnsPkgFunc: the package-level function (no receiver) of that name, if there is exactly one declaration of the name
func nbtnsPkgFunc(decls []nbtnsDecl, name string) *ast.FuncDecl {
	var out *ast.FuncDecl
	n := 0
	for _, d := range decls {
		if d.fd.Name.Name == name {
			n++
			if d.fd.Recv == nil {
				out = d.fd
			}
		}
	}
	if n != 1 {
		return nil
	}
	return out
}

func calledName(c *ast.CallExpr) string {
	switch f := c.Fun.(type) {
	case *ast.Ident:
		return f.Name
	case *ast.SelectorExpr:
		return f.Sel.Name
	}
	return ""
}

// nbtnsMethod: the method (any receiver type other than the server's) of that name, if the name is declared once
func nbtnsMethod(decls []nbtnsDecl, name string) *ast.FuncDecl {
	var out *ast.FuncDecl
	n := 0
	for _, d := range decls {
		if d.fd.Name.Name == name {
			n++
			if d.fd.Recv != nil && nbtnsIsServerMethod(d.fd) == "" {
				out = d.fd
			}
		}
	}
	if n != 1 {
		return nil
	}
	return out
}

// nbtnsParamWritten: may the package function fd write through its parameter number idx?  (normalisation "record
// handed to a pure helper" of the file comment).  Errors: the callee is not a plain helper of a critical section.
func nbtnsParamWritten(decls []nbtnsDecl, fd *ast.FuncDecl, idx, depth int) (bool, error) {
	name := fd.Name.Name
	var params []string
	for _, f := range fd.Type.Params.List {
		if _, variadic := f.Type.(*ast.Ellipsis); variadic {
			return false, fmt.Errorf("%s is variadic", name)
		}
		for _, n := range f.Names {
			params = append(params, n.Name)
		}
	}
	p := ""
	switch {
	case idx == -1: // the receiver
		if fd.Recv == nil || len(fd.Recv.List) != 1 || len(fd.Recv.List[0].Names) != 1 {
			return false, fmt.Errorf("%s has no named receiver", name)
		}
		p = fd.Recv.List[0].Names[0].Name
	case idx >= len(params):
		return false, fmt.Errorf("%s has no named parameter %d", name, idx)
	default:
		p = params[idx]
	}
	// the helper itself: no goroutine, no mutex; never a function value anywhere in the package
	var err error
	ast.Inspect(fd.Body, func(n ast.Node) bool {
		switch x := n.(type) {
		case *ast.GoStmt:
			err = fmt.Errorf("%s starts a goroutine", name)
		case *ast.SelectorExpr:
			if x.Sel.Name == "mu" {
				err = fmt.Errorf("%s touches a mutex", name)
			}
		}
		return true
	})
	if err != nil {
		return false, err
	}
	for _, d := range decls {
		calls, uses := 0, 0
		ast.Inspect(d.fd.Body, func(n ast.Node) bool {
			switch x := n.(type) {
			case *ast.CallExpr:
				if id, ok := x.Fun.(*ast.Ident); ok && id.Name == name {
					calls++
				}
				if sel, ok := x.Fun.(*ast.SelectorExpr); ok && sel.Sel.Name == name && idx == -1 {
					calls++
				}
			case *ast.Ident:
				if x.Name == name {
					uses++
				}
			case *ast.GoStmt:
				if calledName(x.Call) == name {
					err = fmt.Errorf("%s is started as a goroutine in %s", name, d.fd.Name.Name)
				}
			case *ast.DeferStmt:
				if calledName(x.Call) == name {
					err = fmt.Errorf("%s is deferred in %s", name, d.fd.Name.Name)
				}
			}
			return true
		})
		if uses != calls {
			err = fmt.Errorf("%s is used as a function value (or shadowed) in %s", name, d.fd.Name.Name)
		}
	}
	if err != nil {
		return false, err
	}
	root := func(e ast.Expr) string {
		for {
			switch x := e.(type) {
			case *ast.SelectorExpr:
				e = x.X
			case *ast.IndexExpr:
				e = x.X
			case *ast.SliceExpr:
				e = x.X
			case *ast.ParenExpr:
				e = x.X
			case *ast.StarExpr:
				e = x.X
			case *ast.Ident:
				return x.Name
			default:
				return ""
			}
		}
	}
	// local aliases of the parameter (`o := p.Owners`, `for _, r := range p`) are the parameter
	alias := map[string]bool{p: true}
	for changed := true; changed; {
		changed = false
		ast.Inspect(fd.Body, func(n ast.Node) bool {
			switch x := n.(type) {
			case *ast.AssignStmt:
				if len(x.Lhs) == len(x.Rhs) {
					for i, l := range x.Lhs {
						if id, ok := l.(*ast.Ident); ok && alias[root(x.Rhs[i])] && !alias[id.Name] {
							alias[id.Name], changed = true, true
						}
					}
				}
			case *ast.RangeStmt:
				if alias[root(x.X)] && x.Value != nil {
					if id, ok := x.Value.(*ast.Ident); ok && !alias[id.Name] {
						alias[id.Name], changed = true, true
					}
				}
			}
			return true
		})
	}
	readOnlyMethod := map[string]bool{"Equal": true, "String": true, "After": true, "Before": true, "IsZero": true}
	readOnlyPkg := map[string]bool{"slices.Contains": true, "slices.ContainsFunc": true, "slices.Index": true, "slices.IndexFunc": true,
		"slices.Equal": true, "bytes.Equal": true}
	writes := false
	ast.Inspect(fd.Body, func(n ast.Node) bool {
		switch x := n.(type) {
		case *ast.AssignStmt:
			for _, l := range x.Lhs {
				if _, isIdent := l.(*ast.Ident); !isIdent && alias[root(l)] {
					writes = true
				}
			}
		case *ast.IncDecStmt:
			if _, isIdent := x.X.(*ast.Ident); !isIdent && alias[root(x.X)] {
				writes = true
			}
		case *ast.UnaryExpr:
			if x.Op == token.AND && alias[root(x.X)] {
				writes = true
			}
		case *ast.FuncLit:
			mentions, assigns := false, false
			ast.Inspect(x.Body, func(m ast.Node) bool {
				switch y := m.(type) {
				case *ast.Ident:
					if alias[y.Name] {
						mentions = true
					}
				case *ast.AssignStmt, *ast.IncDecStmt:
					assigns = true
				}
				return true
			})
			if mentions && assigns {
				writes = true
			}
		case *ast.CallExpr:
			passes := -1
			for ai, a := range x.Args {
				if alias[root(a)] {
					passes = ai
				}
			}
			recvIsParam := false
			if sel, ok := x.Fun.(*ast.SelectorExpr); ok && alias[root(sel.X)] {
				recvIsParam = true
				if !readOnlyMethod[sel.Sel.Name] {
					writes = true
				}
			}
			if passes < 0 || recvIsParam {
				return true
			}
			switch f := x.Fun.(type) {
			case *ast.Ident:
				switch f.Name {
				case "len", "cap":
				case "append", "copy":
					if alias[root(x.Args[0])] {
						writes = true
					}
				case "delete":
					writes = true
				default:
					callee := nbtnsPkgFunc(decls, f.Name)
					if callee == nil || depth >= 2 {
						writes = true
						return true
					}
					for ai, a := range x.Args {
						if alias[root(a)] {
							w, e := nbtnsParamWritten(decls, callee, ai, depth+1)
							if e != nil {
								err = e
							}
							if w {
								writes = true
							}
						}
					}
				}
			case *ast.SelectorExpr:
				q := ""
				if pk, ok := f.X.(*ast.Ident); ok {
					q = pk.Name + "." + f.Sel.Name
				}
				if !(readOnlyPkg[q] || strings.HasPrefix(q, "fmt.") || readOnlyMethod[f.Sel.Name]) {
					writes = true
				}
			default:
				writes = true
			}
		}
		return true
	})
	return writes, err
}
