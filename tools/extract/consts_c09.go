package main

// Fact ConstsC09: length limits, pointer masks, header size and field offsets of the LLMNR codec (C09).

import "fmt"

func init() {
	facts["ConstsC09"] = constsFact("ConstsC09", "limits, compression-pointer masks, header size and field offsets of the LLMNR codec (C09)", func(c *cx) {
		p := c.pkg("network/llmnr")
		c.constNat("maxLabelLength", p, "MaxLabelLength")
		c.constNat("maxDomainLength", p, "MaxDomainLength")
		c.constNat("headerSize", p, "HeaderSize")
		c.constNat("labelPointer", p, "labelPointer")

		v := p.fn("ValidateDomainName")
		c.int1Of("validate_nameMax", v.cmp("len(name)", tokGTR, -1))
		c.int1Of("validate_labelMax", v.cmp("len(label)", tokGTR, -1))

		e := p.fn("EncodeDomainName")
		c.texts("encode_rootNames", e.cond("name ==", 0), e.cond("name ==", 0).strs())
		c.bytes("encode_rootBytes", e.ret(0, 0), e.ret(0, 0).byteLit())
		c.int1Of("encode_emptyLabel", e.cmp("len(label)", tokEQL, -1))
		c.int1Of("encode_labelMax", e.cmp("len(label)", tokGTR, -1))
		c.named("encode_total", e.cond("len(buf)", 0), "plus", "max")
		c.shapeOf("encode_total_shape", e.cond("len(buf)", 0))
		c.shapeOf("encode_lengthByte_shape", e.assign("buf", 0))
		c.named("encode_terminator", e.call("append", 2), "zero")

		d := p.fn("DecodeDomainName")
		c.int1Of("decode_endLabel", d.cmp("length", tokEQL, -1))
		c.named("decode_isPointer", d.cond("labelPointer", 0), "mask", "value")
		c.shapeOf("decode_isPointer_shape", d.cond("labelPointer", 0))
		c.int1Of("decode_pointerNeeds", d.then("labelPointer", 0).cond("len(data)", 0))
		c.shapeOf("decode_pointerNeeds_shape", d.then("labelPointer", 0).cond("len(data)", 0))
		ptr := d.assign("pointer", -1)
		c.int1Of("decode_pointerMask", ptr)
		c.boolean("decode_pointer_le", ptr, ptr.little())
		c.nat("decode_pointer_width", ptr, bigInt(ptr.width()))
		c.shapeOf("decode_pointer_shape", ptr)
		c.shapeOf("decode_pointerGuard_shape", d.cond("pointer", 0))
		c.int1Of("decode_afterPointer", d.then("len(labels) > 0", 0).ret(0, 1))
		c.shapeOf("decode_labelFits_shape", d.cond("curr + length", 0))

		q := p.fn("DecodeQuestion")
		c.int1Of("question_needs", q.cond("> len(data)", 0))
		c.int1Of("question_step0", q.assign("offset", 1))
		c.int1Of("question_step1", q.assign("offset", 2))
		c.boolean("question_type_le", q.assign("q.Type", -1), q.assign("q.Type", -1).little())
		c.boolean("question_class_le", q.assign("q.Class", -1), q.assign("q.Class", -1).little())
		c.nats("question_widths", q.assign("q.Type", -1), ints(q.assign("q.Type", -1).width(), q.assign("q.Class", -1).width()))
		c.putOrder("question_encode", p.fn("EncodeQuestion"))

		r := p.fn("DecodeResourceRecord")
		c.int1Of("rr_needs", r.cond("> len(data)", 0))
		for i := 0; i < 4; i++ {
			c.int1Of(fmt.Sprintf("rr_step%d", i), r.assign("offset", i+1))
		}
		var les []bool
		var ws []int
		for _, f := range []string{"rr.Type", "rr.Class", "rr.TTL", "rr.RDLength"} {
			les = append(les, r.assign(f, -1).little())
			ws = append(ws, r.assign(f, -1).width())
		}
		c.nats("rr_widths", r.assign("rr.Type", -1), ints(ws...))
		c.boolean("rr_anyLittle", r.assign("rr.Type", -1), les[0] || les[1] || les[2] || les[3])
		c.shapeOf("rr_rdataFits_shape", r.cond("> len(data)", 1))
		c.putOrder("rr_encode", p.fn("EncodeResourceRecord"))

		m := p.fn("DecodeMessage")
		c.int1Of("message_minLen", m.cmp("len(data)", tokLSS, -1))
		var offs []*bigT
		anyLE := false
		for _, f := range []string{"msg.ID", "msg.Flags", "msg.QDCount", "msg.ANCount", "msg.NSCount", "msg.ARCount"} {
			a := m.assign(f, -1)
			offs = append(offs, a.int1())
			anyLE = anyLE || a.little()
			if a.width() != 16 {
				c.failf("DecodeMessage: %s is not read with Uint16", f)
			}
		}
		for i, o := range offs {
			c.nat(fmt.Sprintf("message_off%d", i), m, o)
		}
		c.boolean("message_anyLittle", m.assign("msg.ID", -1), anyLE)
		c.int1Of("message_firstOffset", m.assign("offset", 0))
		c.putOrder("message_encode", p.fn("Message.Encode"))
	})
}
