package main

// Fact "SmbCommands": every Marshal/Unmarshal body of network/smb/smb_v10/message/commands/*.go as a
// program of the command IR (lean/Manticore/Model/SmbIR.lean).  A statement-by-statement abstract
// interpreter over go/ast; any statement shape it does not know aborts the extraction.

import (
	"bytes"
	"fmt"
	"go/ast"
	"go/parser"
	"go/printer"
	"go/token"
	"path/filepath"
	"regexp"
	"sort"
	"strconv"
	"strings"
)

func init() { facts["SmbCommands"] = smbCommands }

type jExpr struct {
	K string `json:"k"`
	N int    `json:"n,omitempty"`
	F string `json:"f,omitempty"`
	I int    `json:"i,omitempty"`
	A *jExpr `json:"a,omitempty"`
	B *jExpr `json:"b,omitempty"`
}

type jStmt struct {
	Op      string  `json:"op"`
	Blk     string  `json:"blk,omitempty"`
	W       int     `json:"w,omitempty"`
	End     string  `json:"end,omitempty"`
	F       string  `json:"f,omitempty"`
	G       string  `json:"g,omitempty"`
	Typ     string  `json:"typ,omitempty"`
	K       int     `json:"k,omitempty"`
	E       *jExpr  `json:"e,omitempty"`
	Win     int     `json:"win,omitempty"` // -1 none
	Whole   bool    `json:"whole,omitempty"`
	Checked bool    `json:"checked,omitempty"`
	PEmpty  bool    `json:"p,omitempty"`
	DEmpty  bool    `json:"d,omitempty"`
	Body    []jStmt `json:"body,omitempty"`
	Line    int     `json:"line,omitempty"`
}

type jField struct {
	Name string `json:"name"`
	Type string `json:"type"`
}

type jCmd struct {
	Name      string   `json:"name"`
	File      string   `json:"file"`
	Code      string   `json:"code"`
	IsAndX    bool     `json:"isAndX"`
	Fields    []jField `json:"fields"`
	Marshal   []jStmt  `json:"marshal"`
	Unmarshal []jStmt  `json:"unmarshal"`
}

type xerr struct{ msg string }

func fail(fset *token.FileSet, n ast.Node, format string, a ...any) {
	pos := fset.Position(posOf(n))
	panic(xerr{fmt.Sprintf("%s:%d: %s", pos.Filename, pos.Line, fmt.Sprintf(format, a...))})
}

func src(fset *token.FileSet, n ast.Node) string {
	var b bytes.Buffer
	printer.Fprint(&b, fset, n)
	return strings.Join(strings.Fields(b.String()), " ")
}

var bufFormats = map[string]int{
	"SMB_STRING_BUFFER_FORMAT_DATA_BUFFER":                  1,
	"SMB_STRING_BUFFER_FORMAT_DIALECT_STRING":               2,
	"SMB_STRING_BUFFER_FORMAT_PATHNAME":                     3,
	"SMB_STRING_BUFFER_FORMAT_NULL_TERMINATED_ASCII_STRING": 4,
	"SMB_STRING_BUFFER_FORMAT_SMB_STRING":                   4,
	"SMB_STRING_BUFFER_FORMAT_VARIABLE_BLOCK":               5,
}

func smbCommands(repo string) (string, any, error) {
	dir := filepath.Join(repo, "network/smb/smb_v10/message/commands")
	files, _ := filepath.Glob(dir + "/*.go")
	sort.Strings(files)
	fset := token.NewFileSet()
	var cmds []jCmd
	var err error
	var parsed []*ast.File
	var bases []string
	func() {
		defer func() {
			if r := recover(); r != nil {
				if xe, ok := r.(xerr); ok {
					err = fmt.Errorf("%s", xe.msg)
					return
				}
				panic(r)
			}
		}()
		// buffer-format constants from the source, not from memory
		readBufFormats(fset, filepath.Join(repo, "network/smb/smb_v10/types/SMB_STRING.go"))
		for _, f := range files {
			base := filepath.Base(f)
			if strings.HasSuffix(base, "_test.go") || base == "0.command_casting.go" {
				continue
			}
			af, perr := parser.ParseFile(fset, f, nil, 0)
			if perr != nil {
				panic(xerr{perr.Error()})
			}
			parsed = append(parsed, af)
			bases = append(bases, base)
		}
		// source normalisation (smb_normalise.go) needs the package-level constants and helpers of every file
		theNormaliser = newNormaliser(fset, repo, parsed)
		for i, af := range parsed {
			cmds = append(cmds, extractFile(fset, af, bases[i])...)
		}
	}()
	if err != nil {
		return "", nil, err
	}
	if len(cmds) < 100 {
		return "", nil, fmt.Errorf("only %d command structures found under %s", len(cmds), dir)
	}
	return renderLean(cmds), map[string]any{"commands": cmds}, nil
}

func readBufFormats(fset *token.FileSet, path string) {
	af, err := parser.ParseFile(fset, path, nil, 0)
	if err != nil {
		panic(xerr{err.Error()})
	}
	found := 0
	for _, d := range af.Decls {
		gd, ok := d.(*ast.GenDecl)
		if !ok || gd.Tok != token.CONST {
			continue
		}
		for _, sp := range gd.Specs {
			vs := sp.(*ast.ValueSpec)
			for i, n := range vs.Names {
				if strings.HasPrefix(n.Name, "SMB_STRING_BUFFER_FORMAT_") && i < len(vs.Values) {
					s := src(fset, vs.Values[i])
					if m := regexp.MustCompile(`(0x[0-9a-fA-F]+|\d+)`).FindString(s); m != "" {
						v, _ := strconv.ParseInt(m, 0, 64)
						bufFormats[n.Name] = int(v)
						found++
					}
				}
			}
		}
	}
	if found == 0 {
		panic(xerr{path + ": no SMB_STRING_BUFFER_FORMAT_ constants found"})
	}
}

func extractFile(fset *token.FileSet, af *ast.File, base string) []jCmd {
	structs := map[string]*jCmd{}
	var order []string
	for _, d := range af.Decls {
		gd, ok := d.(*ast.GenDecl)
		if !ok || gd.Tok != token.TYPE {
			continue
		}
		for _, sp := range gd.Specs {
			ts := sp.(*ast.TypeSpec)
			st, ok := ts.Type.(*ast.StructType)
			if !ok {
				continue
			}
			c := &jCmd{Name: ts.Name.Name, File: base}
			embedded := false
			for _, fl := range st.Fields.List {
				t := src(fset, fl.Type)
				if len(fl.Names) == 0 {
					if t == "command_interface.Command" {
						embedded = true
					}
					continue
				}
				for _, n := range fl.Names {
					if n.Name == "AndX" {
						// would shadow the promoted Command.AndX the model keeps under this name
						fail(fset, fl, "%s declares a field named AndX", ts.Name.Name)
					}
					c.Fields = append(c.Fields, jField{n.Name, t})
				}
			}
			if embedded {
				structs[c.Name] = c
				order = append(order, c.Name)
			}
		}
	}
	// IsAndX first: the translation of `if c.IsAndX() { … }` in Unmarshal depends on it
	for _, d := range af.Decls {
		fd, ok := d.(*ast.FuncDecl)
		if !ok || fd.Recv == nil || fd.Name.Name != "IsAndX" {
			continue
		}
		c, ok := structs[strings.TrimPrefix(src(fset, fd.Recv.List[0].Type), "*")]
		if !ok {
			continue
		}
		s := src(fset, fd.Body)
		if s == "{ return true }" {
			c.IsAndX = true
		} else if s != "{ return false }" {
			fail(fset, fd, "IsAndX body not understood: %s", s)
		}
	}
	for _, d := range af.Decls {
		fd, ok := d.(*ast.FuncDecl)
		if !ok {
			continue
		}
		if fd.Recv == nil {
			// constructor: New<Name>() sets the command code
			if strings.HasPrefix(fd.Name.Name, "New") {
				if c, ok := structs[strings.TrimPrefix(fd.Name.Name, "New")]; ok {
					s := src(fset, fd.Body)
					if m := regexp.MustCompile(`SetCommandCode\(codes\.(\w+)\)`).FindStringSubmatch(s); m != nil {
						c.Code = m[1]
					}
				}
			}
			continue
		}
		recv := src(fset, fd.Recv.List[0].Type)
		c, ok := structs[strings.TrimPrefix(recv, "*")]
		if !ok {
			continue
		}
		switch fd.Name.Name {
		case "Marshal":
			c.Marshal = append([]jStmt{}, extractMarshal(fset, fd, c)...)
		case "Unmarshal":
			c.Unmarshal = append([]jStmt{}, extractUnmarshal(fset, fd, c)...)
		}
	}
	var out []jCmd
	for _, n := range order {
		c := structs[n]
		if c.Marshal == nil || c.Unmarshal == nil {
			panic(xerr{fmt.Sprintf("%s: %s lacks Marshal or Unmarshal", base, n)})
		}
		if c.Code == "" {
			panic(xerr{fmt.Sprintf("%s: %s: constructor does not set a command code", base, n)})
		}
		out = append(out, *c)
	}
	return out
}

// ---------------------------------------------------------------------------------------------
// Marshal

var marshalPrologue = []string{
	`marshalledCommand := []byte{}`,
	`if c.GetParameters() == nil { c.SetParameters(parameters.NewParameters()) }`,
	`if c.GetData() == nil { c.SetData(data.NewData()) }`,
	`if c.IsAndX() { if c.GetAndX() == nil { c.SetAndX(andx.NewAndX()) c.GetAndX().AndXCommand = codes.SMB_COM_NO_ANDX_COMMAND } for _, parameter := range c.GetAndX().GetParameters() { c.GetParameters().AddWord(parameter) } }`,
}

var errCheckM = `if err != nil { return nil, err }`

type mvar struct {
	kind string // "buf" (int buffer), "sub" (marshalled nested value)
	size int
	w    int
	end  string
	f    string
	quad bool
	typ  string
	set  bool
}

var (
	reMake      = regexp.MustCompile(`^(\w+) :?= make\(\[\]byte, (\d+)\)$`)
	rePut       = regexp.MustCompile(`^binary\.(Little|Big)Endian\.PutUint(16|32|64)\((\w+), uint(16|32|64)\(([\w.\[\]]+)\)\)$`)
	reAppendVar = regexp.MustCompile(`^raw(Parameters|Data)Content = append\(raw(Parameters|Data)Content, (\w+)\.\.\.\)$`)
	reAppendFld = regexp.MustCompile(`^raw(Parameters|Data)Content = append\(raw(Parameters|Data)Content, c\.(\w+)\.\.\.\)$`)
	reAppendArr = regexp.MustCompile(`^raw(Parameters|Data)Content = append\(raw(Parameters|Data)Content, c\.(\w+)\[:\]\.\.\.\)$`)
	reAppendU8  = regexp.MustCompile(`^raw(Parameters|Data)Content = append\(raw(Parameters|Data)Content, types\.UCHAR\(c\.(\w+)\)\)$`)
	reSubM      = regexp.MustCompile(`^(\w+), err :?= c\.(\w+)\.Marshal\(\)$`)
	reSetFmt    = regexp.MustCompile(`^c\.(\w+)\.SetBufferFormat\(types\.(\w+)\)$`)
	reAssignLen = regexp.MustCompile(`^c\.(\w+) = types\.(\w+)\(len\(c\.(\w+)\)\)$`)
)

func blkOf(a, b string, fset *token.FileSet, n ast.Node) string {
	if a != b {
		fail(fset, n, "append to a different slice than the one assigned")
	}
	if a == "Parameters" {
		return "P"
	}
	return "D"
}

func typeWidth(t string) int {
	switch t {
	case "UCHAR", "CHAR":
		return 1
	case "USHORT", "SHORT":
		return 2
	case "ULONG", "LONG":
		return 4
	}
	return 0
}

func fieldType(c *jCmd, f string) string {
	for _, fl := range c.Fields {
		if fl.Name == f {
			return fl.Type
		}
	}
	return ""
}

func subTypeName(t string) string {
	t = strings.TrimPrefix(t, "[]")
	if i := strings.LastIndex(t, "."); i >= 0 {
		t = t[i+1:]
	}
	return t
}

var theNormaliser *normaliser

func extractMarshal(fset *token.FileSet, fd *ast.FuncDecl, c *jCmd) []jStmt {
	stmts := theNormaliser.normMarshal(fd, c)
	theNormaliser.debugDump("Marshal", c, stmts)
	i := 0
	expect := func(want string) {
		if i >= len(stmts) {
			fail(fset, fd, "Marshal of %s ends before `%s`", c.Name, want)
		}
		if got := src(fset, stmts[i]); got != want {
			fail(fset, stmts[i], "Marshal of %s: expected `%s`, found `%s`", c.Name, want, got)
		}
		i++
	}
	for _, p := range marshalPrologue {
		expect(p)
	}
	// epilogue
	epi := []string{
		`c.GetParameters().AddWordsFromBytesStream(rawParametersContent)`,
		`marshalledParameters, err := c.GetParameters().Marshal()`,
		errCheckM,
		`marshalledCommand = append(marshalledCommand, marshalledParameters...)`,
		`c.GetData().Add(rawDataContent)`,
		`marshalledData, err := c.GetData().Marshal()`,
		errCheckM,
		`marshalledCommand = append(marshalledCommand, marshalledData...)`,
	}
	// find the epilogue start
	end := -1
	for k := i; k < len(stmts); k++ {
		if src(fset, stmts[k]) == epi[0] {
			end = k
			break
		}
	}
	if end < 0 {
		fail(fset, fd, "Marshal of %s: epilogue not found", c.Name)
	}
	vars := map[string]*mvar{}
	body := marshalBody(fset, stmts[i:end], c, vars)
	i = end
	for _, e := range epi {
		expect(e)
	}
	expect(`return marshalledCommand, nil`)
	return body
}

func marshalBody(fset *token.FileSet, stmts []ast.Stmt, c *jCmd, vars map[string]*mvar) []jStmt {
	var out []jStmt
	for i := 0; i < len(stmts); i++ {
		st := stmts[i]
		s := src(fset, st)
		line := fset.Position(posOf(st)).Line
		if s == `rawDataContent := []byte{}` || s == `rawParametersContent := []byte{}` {
			// declaration of a raw stream (the compiler guarantees it precedes every use and is unique)
			continue
		}
		if m := reMake.FindStringSubmatch(s); m != nil {
			n, _ := strconv.Atoi(m[2])
			vars[m[1]] = &mvar{kind: "buf", size: n}
			continue
		}
		if m := rePut.FindStringSubmatch(s); m != nil {
			v, ok := vars[m[3]]
			if !ok || v.kind != "buf" {
				fail(fset, st, "PutUint into unknown buffer %s", m[3])
			}
			bits, _ := strconv.Atoi(m[2])
			if m[2] != m[4] {
				fail(fset, st, "PutUint%s of a uint%s conversion", m[2], m[4])
			}
			if v.size != bits/8 {
				fail(fset, st, "PutUint%d into a %d-byte buffer", bits, v.size)
			}
			e := "le"
			if m[1] == "Big" {
				e = "be"
			}
			fe := m[5]
			nv := &mvar{kind: "buf", size: v.size, w: bits / 8, end: e, set: true}
			switch {
			case regexp.MustCompile(`^c\.\w+$`).MatchString(fe):
				nv.f = fe[2:]
			case regexp.MustCompile(`^c\.\w+\.QuadPart$`).MatchString(fe):
				nv.f = strings.TrimSuffix(fe[2:], ".QuadPart")
				nv.quad = true
			default:
				nv.f = "$" + fe // loop variable; resolved by the loop pattern
			}
			vars[m[3]] = nv
			continue
		}
		if m := reAppendVar.FindStringSubmatch(s); m != nil {
			b := blkOf(m[1], m[2], fset, st)
			v, ok := vars[m[3]]
			if !ok {
				fail(fset, st, "append of unknown variable %s", m[3])
			}
			switch v.kind {
			case "buf":
				if !v.set {
					fail(fset, st, "append of a buffer that was not filled")
				}
				if strings.HasPrefix(v.f, "$") {
					fail(fset, st, "append of a loop value outside a recognised loop")
				}
				op := "int"
				if v.quad {
					op = "quad"
				}
				out = append(out, jStmt{Op: op, Blk: b, W: v.w, End: v.end, F: v.f, Line: line})
			case "sub":
				out = append(out, jStmt{Op: "sub", Blk: b, F: v.f, Typ: v.typ, Line: line})
			}
			continue
		}
		if m := regexp.MustCompile(`^marshalledCommand = append\(marshalledCommand, (\w+)\.\.\.\)$`).FindStringSubmatch(s); m != nil {
			// WriteRequest: a marshalled field goes straight into the command bytes, ahead of the parameter block
			v, ok := vars[m[1]]
			if !ok || v.kind != "sub" {
				fail(fset, st, "append of %s to marshalledCommand", m[1])
			}
			out = append(out, jStmt{Op: "subHead", F: v.f, Typ: v.typ, Line: line})
			continue
		}
		if m := reAppendArr.FindStringSubmatch(s); m != nil {
			out = append(out, jStmt{Op: "arr", Blk: blkOf(m[1], m[2], fset, st), F: m[3], Line: line})
			continue
		}
		if m := reAppendFld.FindStringSubmatch(s); m != nil {
			out = append(out, jStmt{Op: "bytes", Blk: blkOf(m[1], m[2], fset, st), F: m[3], Line: line})
			continue
		}
		if m := reAppendU8.FindStringSubmatch(s); m != nil {
			out = append(out, jStmt{Op: "u8", Blk: blkOf(m[1], m[2], fset, st), F: m[3], Line: line})
			continue
		}
		// raw = append(raw, 0x00, 0x00): literal zero bytes (the terminator of a null-terminated string)
		if m := regexp.MustCompile(`^raw(Parameters|Data)Content = append\(raw(Parameters|Data)Content, ((?:0x00|0)(?:, (?:0x00|0))*)\)$`).FindStringSubmatch(s); m != nil {
			out = append(out, jStmt{Op: "zeros", Blk: blkOf(m[1], m[2], fset, st), K: len(strings.Split(m[3], ", ")), Line: line})
			continue
		}
		if m := reSubM.FindStringSubmatch(s); m != nil {
			if i+1 >= len(stmts) || src(fset, stmts[i+1]) != errCheckM {
				fail(fset, st, "result of %s.Marshal() is not followed by the error check", m[2])
			}
			i++
			vars[m[1]] = &mvar{kind: "sub", f: m[2], typ: subTypeName(fieldType(c, m[2]))}
			continue
		}
		if m := reSetFmt.FindStringSubmatch(s); m != nil {
			k, ok := bufFormats[m[2]]
			if !ok {
				fail(fset, st, "unknown buffer format %s", m[2])
			}
			out = append(out, jStmt{Op: "setFmt", F: m[1], K: k, Line: line})
			continue
		}
		if m := reAssignLen.FindStringSubmatch(s); m != nil {
			w := typeWidth(m[2])
			if w == 0 {
				fail(fset, st, "assignLen with unknown type %s", m[2])
			}
			out = append(out, jStmt{Op: "assignLen", F: m[1], G: m[3], W: w, Line: line})
			continue
		}
		switch n := st.(type) {
		case *ast.RangeStmt:
			out = append(out, marshalRange(fset, n, c, vars))
			continue
		case *ast.IfStmt:
			out = append(out, marshalIf(fset, n, c, vars))
			continue
		}
		fail(fset, st, "Marshal of %s: statement not understood: %s", c.Name, s)
	}
	return out
}

func marshalRange(fset *token.FileSet, n *ast.RangeStmt, c *jCmd, vars map[string]*mvar) jStmt {
	line := fset.Position(posOf(n)).Line
	x := src(fset, n.X)
	if !strings.HasPrefix(x, "c.") {
		fail(fset, n, "range over %s", x)
	}
	f := x[2:]
	body := n.Body.List
	key, val := "", ""
	if n.Key != nil {
		key = src(fset, n.Key)
	}
	if n.Value != nil {
		val = src(fset, n.Value)
	}
	strs := make([]string, len(body))
	for i, b := range body {
		strs[i] = src(fset, b)
	}
	// for _, x := range c.F { bs, err := x.Marshal(); if err != nil {return nil, …}; raw = append(raw, bs...) }
	if len(body) == 3 && val != "" {
		m1 := regexp.MustCompile(`^(\w+), err := ` + regexp.QuoteMeta(val) + `\.Marshal\(\)$`).FindStringSubmatch(strs[0])
		okErr := strs[1] == errCheckM || regexp.MustCompile(`^if err != nil \{ return nil, fmt\.Errorf\(".*", err\) \}$`).MatchString(strs[1])
		m3 := reAppendVar.FindStringSubmatch(strs[2])
		if m1 != nil && okErr && m3 != nil && m3[3] == m1[1] {
			return jStmt{Op: "forSub", Blk: blkOf(m3[1], m3[2], fset, n), F: f, Typ: subTypeName(fieldType(c, f)), Line: line}
		}
	}
	// for _, x := range c.F { buf = make(..); PutUint(buf, uint(x)); raw = append(raw, buf...) }   (make optional)
	var puts, apps string
	switch len(body) {
	case 3:
		if reMake.MatchString(strs[0]) {
			mm := reMake.FindStringSubmatch(strs[0])
			nn, _ := strconv.Atoi(mm[2])
			vars[mm[1]] = &mvar{kind: "buf", size: nn}
			puts, apps = strs[1], strs[2]
		}
	case 2:
		puts, apps = strs[0], strs[1]
	}
	if puts != "" {
		m := rePut.FindStringSubmatch(puts)
		ma := reAppendVar.FindStringSubmatch(apps)
		if m != nil && ma != nil && ma[3] == m[3] {
			elem := m[5]
			okElem := (val != "" && elem == val) || (val == "" && key != "" && elem == fmt.Sprintf("c.%s[%s]", f, key))
			bits, _ := strconv.Atoi(m[2])
			v := vars[m[3]]
			if okElem && v != nil && v.size == bits/8 && m[2] == m[4] {
				e := "le"
				if m[1] == "Big" {
					e = "be"
				}
				return jStmt{Op: "forInt", Blk: blkOf(ma[1], ma[2], fset, n), W: bits / 8, End: e, F: f, Line: line}
			}
		}
	}
	fail(fset, n, "Marshal of %s: range loop not understood: %s", c.Name, src(fset, n))
	return jStmt{}
}

func marshalIf(fset *token.FileSet, n *ast.IfStmt, c *jCmd, vars map[string]*mvar) jStmt {
	line := fset.Position(posOf(n)).Line
	if n.Else != nil || n.Init != nil {
		fail(fset, n, "if with else/init in Marshal")
	}
	cond := src(fset, n.Cond)
	if m := regexp.MustCompile(`^c\.(\w+) != (0|0x0+)$`).FindStringSubmatch(cond); m != nil {
		return jStmt{Op: "ifNonZero", F: m[1], Body: marshalBody(fset, n.Body.List, c, vars), Line: line}
	}
	if m := regexp.MustCompile(`^c\.(\w+) != \[\d+\]types\.\w+\{(0(, 0)*)\}$`).FindStringSubmatch(cond); m != nil {
		return jStmt{Op: "ifNonZeroArr", F: m[1], Body: marshalBody(fset, n.Body.List, c, vars), Line: line}
	}
	if m := regexp.MustCompile(`^c\.GetParameters\(\)\.WordCount == (0x[0-9A-Fa-f]+|\d+)$`).FindStringSubmatch(cond); m != nil {
		k, _ := strconv.ParseInt(m[1], 0, 64)
		return jStmt{Op: "ifWordCount", K: int(k), Body: marshalBody(fset, n.Body.List, c, vars), Line: line}
	}
	fail(fset, n, "Marshal of %s: condition not understood: %s", c.Name, cond)
	return jStmt{}
}

// ---------------------------------------------------------------------------------------------
// Unmarshal

func extractUnmarshal(fset *token.FileSet, fd *ast.FuncDecl, c *jCmd) []jStmt {
	stmts := theNormaliser.normUnmarshal(fd, c)
	theNormaliser.debugDump("Unmarshal", c, stmts)
	if len(fd.Type.Params.List) != 1 || len(fd.Type.Params.List[0].Names) != 1 {
		fail(fset, fd, "Unmarshal signature")
	}
	arg := fd.Type.Params.List[0].Names[0].Name
	i := 0
	cur := func() string {
		if i >= len(stmts) {
			fail(fset, fd, "Unmarshal of %s ends early", c.Name)
		}
		return src(fset, stmts[i])
	}
	expect := func(want string) {
		if got := cur(); got != want {
			fail(fset, stmts[i], "Unmarshal of %s: expected `%s`, found `%s`", c.Name, want, got)
		}
		i++
	}
	errCheck0 := `if err != nil { return 0, err }`
	expect(`offset := 0`)
	// optional nil checks (NegotiateResponse)
	if cur() == marshalPrologue[1] {
		i++
		expect(marshalPrologue[2])
	}
	expect(fmt.Sprintf(`bytesRead, err := c.GetParameters().Unmarshal(%s)`, arg))
	expect(errCheck0)
	hasP, hasD := false, false
	switch cur() {
	case `rawParametersContent := c.GetParameters().GetBytes()`:
		hasP = true
	case `_ = c.GetParameters().GetBytes()`:
	default:
		fail(fset, stmts[i], "Unmarshal of %s: parameter stream binding not understood: %s", c.Name, cur())
	}
	i++
	expect(fmt.Sprintf(`_, err = c.GetData().Unmarshal(%s[bytesRead:])`, arg))
	expect(errCheck0)
	switch cur() {
	case `rawDataContent := c.GetData().GetBytes()`:
		hasD = true
	case `_ = c.GetData().GetBytes()`:
	default:
		fail(fset, stmts[i], "Unmarshal of %s: data stream binding not understood: %s", c.Name, cur())
	}
	i++
	_ = hasP
	_ = hasD
	last := len(stmts) - 1
	if src(fset, stmts[last]) != `return offset, nil` {
		fail(fset, stmts[last], "Unmarshal of %s: final statement is not `return offset, nil`", c.Name)
	}
	return unmarshalBody(fset, stmts[i:last], c)
}

var (
	reGuard    = regexp.MustCompile(`^if len\(raw(Parameters|Data)Content\) < offset\+(.+) \{ return offset, fmt\.Errorf\((.*)\) \}$`)
	reReadInt  = regexp.MustCompile(`^c\.(\w+) = ([\w.]+)\(binary\.(Little|Big)Endian\.Uint(16|32|64)\(raw(Parameters|Data)Content\[offset : offset\+(\d+)\]\)\)$`)
	reReadQuad = regexp.MustCompile(`^c\.(\w+)\.QuadPart = uint64\(binary\.(Little|Big)Endian\.Uint64\(raw(Parameters|Data)Content\[offset : offset\+8\]\)\)$`)
	reReadU8   = regexp.MustCompile(`^c\.(\w+) = ([\w.]+)\(raw(Parameters|Data)Content\[offset\]\)$`)
	reReadByt  = regexp.MustCompile(`^c\.(\w+) = raw(Parameters|Data)Content\[offset : offset\+(.+)\]$`)
	reReadRest = regexp.MustCompile(`^c\.(\w+) = raw(Parameters|Data)Content\[offset:\]$`)
	reCopyArr  = regexp.MustCompile(`^copy\(c\.(\w+)\[:\], raw(Parameters|Data)Content\[offset:offset\+(\d+)\]\)$`)
	reSubU     = regexp.MustCompile(`^(bytesRead, err =|_, err =|)\s*c\.(\w+)\.Unmarshal\(raw(Parameters|Data)Content(\[offset:\]|\[offset : offset\+(\d+)\]|)\)$`)
	reAdvance  = regexp.MustCompile(`^offset \+= (.+)$`)
)

func pblk(s string) string {
	if s == "Parameters" {
		return "P"
	}
	return "D"
}

func parseExpr(fset *token.FileSet, n ast.Node, s string) *jExpr {
	s = strings.TrimSpace(s)
	if v, err := strconv.ParseInt(s, 0, 64); err == nil {
		return &jExpr{K: "lit", N: int(v)}
	}
	if m := regexp.MustCompile(`^int\(c\.(\w+)\)$`).FindStringSubmatch(s); m != nil {
		return &jExpr{K: "fint", F: m[1]}
	}
	if m := regexp.MustCompile(`^len\(c\.(\w+)\)$`).FindStringSubmatch(s); m != nil {
		return &jExpr{K: "flen", F: m[1]}
	}
	if m := regexp.MustCompile(`^int\(c\.(\w+)\.Length\)$`).FindStringSubmatch(s); m != nil {
		return &jExpr{K: "fsub", F: m[1], I: 1}
	}
	if s == "padLen" {
		return &jExpr{K: "pad"}
	}
	if m := regexp.MustCompile(`^(\d+)\*(int\(c\.\w+\))$`).FindStringSubmatch(s); m != nil {
		k, _ := strconv.Atoi(m[1])
		return &jExpr{K: "mul", N: k, A: parseExpr(fset, n, m[2])}
	}
	if m := regexp.MustCompile(`^(\d+)\*(len\(c\.\w+\))$`).FindStringSubmatch(s); m != nil {
		k, _ := strconv.Atoi(m[1])
		return &jExpr{K: "mul", N: k, A: parseExpr(fset, n, m[2])}
	}
	fail(fset, n, "integer expression not understood: %s", s)
	return nil
}

func unmarshalBody(fset *token.FileSet, stmts []ast.Stmt, c *jCmd) []jStmt {
	var out []jStmt
	errCheckOff := `if err != nil { return offset, err }`
	for i := 0; i < len(stmts); i++ {
		st := stmts[i]
		s := src(fset, st)
		line := fset.Position(posOf(st)).Line
		add := func(j jStmt) { j.Line = line; out = append(out, j) }
		switch s {
		case `offset = 0`:
			add(jStmt{Op: "resetOffset"})
			continue
		case `if len(rawParametersContent) == 0 && len(rawDataContent) == 0 { return 0, nil }`:
			add(jStmt{Op: "retIfEmpty", PEmpty: true, DEmpty: true})
			continue
		case `if len(rawParametersContent) == 0 { return 0, nil }`:
			add(jStmt{Op: "retIfEmpty", PEmpty: true})
			continue
		case `if len(rawDataContent) == 0 { return 0, nil }`:
			add(jStmt{Op: "retIfEmpty", DEmpty: true})
			continue
		case `offset++`:
			add(jStmt{Op: "advance", E: &jExpr{K: "lit", N: 1}})
			continue
		case `offset += bytesRead`:
			add(jStmt{Op: "advanceRead"})
			continue
		case `padLen := 0`:
			add(jStmt{Op: "setPad", E: &jExpr{K: "lit", N: 0}})
			continue
		case `if padLen%2 == 1 { padLen++ }`:
			add(jStmt{Op: "padRoundUp"})
			continue
		case `if (len(rawParametersContent)+3)%2 == 1 { padLen = 1 }`:
			add(jStmt{Op: "padIfPOdd"})
			continue
		case `rawDataContent = rawDataContent[offset:]`:
			add(jStmt{Op: "resliceD"})
			continue
		}
		if m := regexp.MustCompile(`^padLen := (.+)$`).FindStringSubmatch(s); m != nil {
			add(jStmt{Op: "setPad", E: parseExpr(fset, st, m[1])})
			continue
		}
		if m := reGuard.FindStringSubmatch(s); m != nil {
			add(jStmt{Op: "guard", Blk: pblk(m[1]), E: parseExpr(fset, st, m[2])})
			continue
		}
		if m := reReadInt.FindStringSubmatch(s); m != nil {
			bits, _ := strconv.Atoi(m[4])
			w, _ := strconv.Atoi(m[6])
			if w != bits/8 {
				fail(fset, st, "Uint%d of a %d-byte slice", bits, w)
			}
			e := "le"
			if m[3] == "Big" {
				e = "be"
			}
			add(jStmt{Op: "readInt", Blk: pblk(m[5]), W: w, End: e, F: m[1]})
			continue
		}
		if m := reReadQuad.FindStringSubmatch(s); m != nil {
			e := "le"
			if m[2] == "Big" {
				e = "be"
			}
			add(jStmt{Op: "readQuad", Blk: pblk(m[3]), W: 8, End: e, F: m[1]})
			continue
		}
		if m := reReadU8.FindStringSubmatch(s); m != nil {
			add(jStmt{Op: "readU8", Blk: pblk(m[3]), F: m[1]})
			continue
		}
		if m := reReadRest.FindStringSubmatch(s); m != nil {
			add(jStmt{Op: "readRest", Blk: pblk(m[2]), F: m[1]})
			continue
		}
		if m := reReadByt.FindStringSubmatch(s); m != nil {
			add(jStmt{Op: "readBytes", Blk: pblk(m[2]), F: m[1], E: parseExpr(fset, st, m[3])})
			continue
		}
		if m := reCopyArr.FindStringSubmatch(s); m != nil {
			n, _ := strconv.Atoi(m[3])
			add(jStmt{Op: "readArr", Blk: pblk(m[2]), F: m[1], K: n})
			continue
		}
		if m := reSubU.FindStringSubmatch(s); m != nil {
			j := jStmt{Op: "readSub", Blk: pblk(m[3]), F: m[2], Typ: subTypeName(fieldType(c, m[2])), Win: -1}
			switch {
			case m[4] == "":
				j.Whole = true
			case m[5] != "":
				j.Win, _ = strconv.Atoi(m[5])
			}
			if strings.HasPrefix(m[1], "bytesRead") || strings.HasPrefix(m[1], "_, err") {
				if i+1 < len(stmts) && (src(fset, stmts[i+1]) == errCheckOff || src(fset, stmts[i+1]) == `if err != nil { return 0, err }`) {
					j.Checked = true
					i++
				}
			}
			if strings.HasPrefix(m[1], "_, err") || m[1] == "" {
				// the byte count is not stored in bytesRead: model as a read whose count is discarded
				j.Op = "readSubNoCount"
			}
			add(j)
			continue
		}
		if m := reAdvance.FindStringSubmatch(s); m != nil {
			add(jStmt{Op: "advance", E: parseExpr(fset, st, m[1])})
			continue
		}
		if m := regexp.MustCompile(`^c\.(\w+) = \[\]types\.\w+\{\}$`).FindStringSubmatch(s); m != nil {
			add(jStmt{Op: "clear", F: m[1]})
			continue
		}
		// c.F = 0 / c.F = [n]types.T{0, …, 0}: an optional field is reset before the word-count test that reads it
		if m := regexp.MustCompile(`^c\.(\w+) = (0|0x0+)$`).FindStringSubmatch(s); m != nil {
			if typeWidth(strings.TrimPrefix(fieldType(c, m[1]), "types.")) == 0 {
				fail(fset, st, "Unmarshal of %s: %s is reset to 0 but is not declared as an integer", c.Name, m[1])
			}
			add(jStmt{Op: "zeroInt", F: m[1]})
			continue
		}
		if m := regexp.MustCompile(`^c\.(\w+) = \[(\d+)\](types\.\w+)\{(0(?:, 0)*)\}$`).FindStringSubmatch(s); m != nil {
			n, _ := strconv.Atoi(m[2])
			if fieldType(c, m[1]) != fmt.Sprintf("[%d]%s", n, m[3]) || len(strings.Split(m[4], ", ")) != n {
				fail(fset, st, "Unmarshal of %s: reset of %s does not match its declared type %s", c.Name, m[1], fieldType(c, m[1]))
			}
			add(jStmt{Op: "zeroInts", F: m[1], K: n})
			continue
		}
		if m := regexp.MustCompile(`^c\.(\w+) = make\(\[\]types\.\w+, c\.(\w+)\)$`).FindStringSubmatch(s); m != nil {
			add(jStmt{Op: "makeInts", F: m[1], G: m[2]})
			continue
		}
		if m := regexp.MustCompile(`^(\w+), offset := utils\.GetNullTerminatedUnicodeString\(rawDataContent\)$`).FindStringSubmatch(s); m != nil {
			if i+1 < len(stmts) {
				if m2 := regexp.MustCompile(`^c\.(\w+) = \[\]types\.UCHAR\(` + m[1] + `\)$`).FindStringSubmatch(src(fset, stmts[i+1])); m2 != nil {
					add(jStmt{Op: "cstrUnicode", F: m2[1]})
					i++
					continue
				}
			}
			fail(fset, st, "GetNullTerminatedUnicodeString result is not assigned to a field next")
		}
		if s == `const entrySize = 43` {
			continue // used by the whileFitsSub pattern below
		}
		switch n := st.(type) {
		case *ast.IfStmt:
			cond := src(fset, n.Cond)
			if cond == `c.IsAndX()` && n.Else == nil && n.Init == nil {
				// the AndX stanza: IsAndX is a constant of the structure, so the body is either dead or unconditional
				if !c.IsAndX {
					fail(fset, st, "Unmarshal of %s: `if c.IsAndX()` in a structure whose IsAndX returns false", c.Name)
				}
				out = append(out, unmarshalAndX(fset, n.Body.List, c)...)
				continue
			}
			if m := regexp.MustCompile(`^c\.GetParameters\(\)\.WordCount == (0x[0-9A-Fa-f]+|\d+)$`).FindStringSubmatch(cond); m != nil && n.Else == nil {
				k, _ := strconv.ParseInt(m[1], 0, 64)
				body := n.Body.List
				// WriteAndClose: c.F = [3]types.ULONG{ Uint32(P[offset:offset+4]), … }
				if len(body) >= 2 {
					if m3 := regexp.MustCompile(`^c\.(\w+) = \[3\]types\.ULONG\{ ?types\.ULONG\(binary\.LittleEndian\.Uint32\(rawParametersContent\[offset : offset\+4\]\)\), types\.ULONG\(binary\.LittleEndian\.Uint32\(rawParametersContent\[offset\+4 : offset\+8\]\)\), types\.ULONG\(binary\.LittleEndian\.Uint32\(rawParametersContent\[offset\+8 : offset\+12\]\)\),? ?\}$`).FindStringSubmatch(src(fset, body[1])); m3 != nil {
						g := reGuard.FindStringSubmatch(src(fset, body[0]))
						if g != nil && len(body) == 3 && src(fset, body[2]) == `offset += 12` {
							add(jStmt{Op: "ifWordCount", K: int(k), Body: []jStmt{
								{Op: "guard", Blk: pblk(g[1]), E: parseExpr(fset, body[0], g[2])},
								{Op: "readArr3", Blk: "P", F: m3[1]},
								{Op: "advance", E: &jExpr{K: "lit", N: 12}}}})
							continue
						}
					}
				}
				add(jStmt{Op: "ifWordCount", K: int(k), Body: unmarshalBody(fset, body, c)})
				continue
			}
		case *ast.ForStmt:
			if j, ok := unmarshalFor(fset, n, c); ok {
				add(j)
				continue
			}
		case *ast.RangeStmt:
			// for i := range c.F { c.F[i] = T(Uint16(P[offset:offset+2])); offset += 2 }
			x := src(fset, n.X)
			if strings.HasPrefix(x, "c.") && n.Key != nil && n.Value == nil && len(n.Body.List) == 2 {
				f := x[2:]
				k := src(fset, n.Key)
				m := regexp.MustCompile(`^c\.` + f + `\[` + k + `\] = [\w.]+\(binary\.(Little|Big)Endian\.Uint(16|32)\(raw(Parameters|Data)Content\[offset : offset\+(\d+)\]\)\)$`).FindStringSubmatch(src(fset, n.Body.List[0]))
				if m != nil {
					bits, _ := strconv.Atoi(m[2])
					w, _ := strconv.Atoi(m[4])
					if w == bits/8 && src(fset, n.Body.List[1]) == fmt.Sprintf("offset += %d", w) {
						e := "le"
						if m[1] == "Big" {
							e = "be"
						}
						add(jStmt{Op: "forRangeInt", Blk: pblk(m[3]), W: w, End: e, F: f})
						continue
					}
				}
			}
		}
		fail(fset, st, "Unmarshal of %s: statement not understood: %s", c.Name, s)
	}
	return out
}

// body of `if c.IsAndX() { … }` in an Unmarshal:
//
//	if c.GetAndX() == nil { c.SetAndX(andx.NewAndX()) }; _, err = c.GetAndX().Unmarshal(rawParametersContent); if err != nil { return 0, err }
//	  -> readAndX   (the nil check is part of the shape: Init() leaves c.AndX nil)
//	rawParametersContent = rawParametersContent[N:]
//	  -> resliceP N
func unmarshalAndX(fset *token.FileSet, stmts []ast.Stmt, c *jCmd) []jStmt {
	var out []jStmt
	for i := 0; i < len(stmts); i++ {
		st := stmts[i]
		s := src(fset, st)
		line := fset.Position(posOf(st)).Line
		if s == `if c.GetAndX() == nil { c.SetAndX(andx.NewAndX()) }` {
			if i+2 < len(stmts) && src(fset, stmts[i+1]) == `_, err = c.GetAndX().Unmarshal(rawParametersContent)` &&
				(src(fset, stmts[i+2]) == `if err != nil { return 0, err }` || src(fset, stmts[i+2]) == `if err != nil { return offset, err }`) {
				out = append(out, jStmt{Op: "readAndX", Line: line})
				i += 2
				continue
			}
			fail(fset, st, "Unmarshal of %s: the AndX block is created but not unmarshalled from rawParametersContent with its error checked", c.Name)
		}
		if m := regexp.MustCompile(`^rawParametersContent = rawParametersContent\[(\d+):\]$`).FindStringSubmatch(s); m != nil {
			k, _ := strconv.Atoi(m[1])
			out = append(out, jStmt{Op: "resliceP", K: k, Line: line})
			continue
		}
		fail(fset, st, "Unmarshal of %s: statement of the AndX stanza not understood: %s", c.Name, s)
	}
	return out
}

func unmarshalFor(fset *token.FileSet, n *ast.ForStmt, c *jCmd) (jStmt, bool) {
	body := n.Body.List
	strs := make([]string, len(body))
	for i, b := range body {
		strs[i] = src(fset, b)
	}
	cond := ""
	if n.Cond != nil {
		cond = src(fset, n.Cond)
	}
	// for offset+entrySize <= len(rawDataContent) { x := types.NewT(); bytesRead, err := x.Unmarshal(D[offset : offset+entrySize]); if err …; c.F = append(c.F, *x); offset += bytesRead }
	if n.Init == nil && n.Post == nil && cond == `offset+entrySize <= len(rawDataContent)` && len(body) == 5 {
		m1 := regexp.MustCompile(`^(\w+) := types\.New(\w+)\(\)$`).FindStringSubmatch(strs[0])
		if m1 != nil && strs[1] == fmt.Sprintf(`bytesRead, err := %s.Unmarshal(rawDataContent[offset : offset+entrySize])`, m1[1]) &&
			strs[2] == `if err != nil { return offset, err }` && strs[4] == `offset += bytesRead` {
			if m4 := regexp.MustCompile(`^c\.(\w+) = append\(c\.(\w+), \*` + m1[1] + `\)$`).FindStringSubmatch(strs[3]); m4 != nil && m4[1] == m4[2] {
				return jStmt{Op: "whileFitsSub", Blk: "D", F: m4[1], Typ: m1[2], K: 43}, true
			}
		}
	}
	init, post := "", ""
	if n.Init != nil {
		init = src(fset, n.Init)
	}
	if n.Post != nil {
		post = src(fset, n.Post)
	}
	mc := regexp.MustCompile(`^i < int\(c\.(\w+)\)$`).FindStringSubmatch(cond)
	if init == `i := 0` && post == `i++` && mc != nil {
		g := mc[1]
		// counted loop of ints
		if len(body) == 2 {
			m := regexp.MustCompile(`^c\.(\w+)\[i\] = [\w.]+\(binary\.(Little|Big)Endian\.Uint(16|32)\(raw(Parameters|Data)Content\[offset : offset\+(\d+)\]\)\)$`).FindStringSubmatch(strs[0])
			if m != nil {
				bits, _ := strconv.Atoi(m[3])
				w, _ := strconv.Atoi(m[5])
				if w == bits/8 && strs[1] == fmt.Sprintf("offset += %d", w) {
					e := "le"
					if m[2] == "Big" {
						e = "be"
					}
					return jStmt{Op: "forCountInt", Blk: pblk(m[4]), W: w, End: e, F: m[1], G: g}, true
				}
			}
		}
		// counted loop of nested values with an inner guard
		if len(body) == 6 {
			mg := regexp.MustCompile(`^if len\(raw(Parameters|Data)Content\) < offset\+(\d+) \{ return offset, fmt\.Errorf\(.*\) \}$`).FindStringSubmatch(strs[0])
			m1 := regexp.MustCompile(`^(\w+) := types\.(\w+)\{\}$`).FindStringSubmatch(strs[1])
			if mg != nil && m1 != nil {
				size, _ := strconv.Atoi(mg[2])
				okU := strs[2] == fmt.Sprintf(`bytesRead, err := %s.Unmarshal(raw%sContent[offset : offset+%d])`, m1[1], mg[1], size)
				okE := regexp.MustCompile(`^if err != nil \{ return offset, fmt\.Errorf\(".*", err\) \}$`).MatchString(strs[3])
				m4 := regexp.MustCompile(`^c\.(\w+) = append\(c\.(\w+), ` + m1[1] + `\)$`).FindStringSubmatch(strs[4])
				if okU && okE && m4 != nil && m4[1] == m4[2] && strs[5] == `offset += bytesRead` {
					return jStmt{Op: "forCountSub", Blk: pblk(mg[1]), F: m4[1], G: g, Typ: m1[2], K: size}, true
				}
			}
		}
	}
	return jStmt{}, false
}

// ---------------------------------------------------------------------------------------------
// Lean rendering

func leanStr(s string) string { return strconv.Quote(s) }

func leanExpr(e *jExpr) string {
	switch e.K {
	case "lit":
		return fmt.Sprintf("(.lit %d)", e.N)
	case "fint":
		return fmt.Sprintf("(.fint %s)", leanStr(e.F))
	case "flen":
		return fmt.Sprintf("(.flen %s)", leanStr(e.F))
	case "fsub":
		return fmt.Sprintf("(.fsub %s %d)", leanStr(e.F), e.I)
	case "pad":
		return ".pad"
	case "mul":
		return fmt.Sprintf("(.mul %d %s)", e.N, leanExpr(e.A))
	case "add":
		return fmt.Sprintf("(.add %s %s)", leanExpr(e.A), leanExpr(e.B))
	}
	panic("leanExpr: " + e.K)
}

func smbLeanBool(b bool) string {
	if b {
		return "true"
	}
	return "false"
}

func leanStmts(ss []jStmt, m bool) string {
	parts := make([]string, len(ss))
	for i, s := range ss {
		parts[i] = leanStmt(s, m)
	}
	return "[" + strings.Join(parts, ",\n      ") + "]"
}

func leanStmt(s jStmt, marshal bool) string {
	q := leanStr
	switch s.Op {
	// marshal
	case "int", "quad", "forInt":
		return fmt.Sprintf(".%s .%s %d .%s %s", s.Op, s.Blk, s.W, s.End, q(s.F))
	case "u8", "bytes", "arr":
		return fmt.Sprintf(".%s .%s %s", s.Op, s.Blk, q(s.F))
	case "sub", "forSub":
		return fmt.Sprintf(".%s .%s %s %s", s.Op, s.Blk, q(s.F), q(s.Typ))
	case "zeros":
		return fmt.Sprintf(".zeros .%s %d", s.Blk, s.K)
	case "setFmt":
		return fmt.Sprintf(".setFmt %s %d", q(s.F), s.K)
	case "assignLen":
		return fmt.Sprintf(".assignLen %s %s %d", q(s.F), q(s.G), s.W)
	case "ifNonZero", "ifNonZeroArr":
		return fmt.Sprintf(".%s %s %s", s.Op, q(s.F), leanStmts(s.Body, true))
	case "ifWordCount":
		return fmt.Sprintf(".ifWordCount %d %s", s.K, leanStmts(s.Body, marshal))
	case "subHead":
		return fmt.Sprintf(".subHead %s %s", q(s.F), q(s.Typ))
	// unmarshal
	case "retIfEmpty":
		return fmt.Sprintf(".retIfEmpty %s %s", smbLeanBool(s.PEmpty), smbLeanBool(s.DEmpty))
	case "resetOffset", "advanceRead", "padRoundUp", "padIfPOdd", "resliceD", "readAndX":
		return "." + s.Op
	case "resliceP":
		return fmt.Sprintf(".resliceP %d", s.K)
	case "guard":
		return fmt.Sprintf(".guard .%s %s", s.Blk, leanExpr(s.E))
	case "readInt", "readQuad", "forRangeInt":
		return fmt.Sprintf(".%s .%s %d .%s %s", s.Op, s.Blk, s.W, s.End, q(s.F))
	case "readU8", "readRest", "readArr3":
		return fmt.Sprintf(".%s .%s %s", s.Op, s.Blk, q(s.F))
	case "readBytes":
		return fmt.Sprintf(".readBytes .%s %s %s", s.Blk, q(s.F), leanExpr(s.E))
	case "readArr":
		return fmt.Sprintf(".readArr .%s %s %d", s.Blk, q(s.F), s.K)
	case "readSub", "readSubNoCount":
		win := "none"
		if s.Win >= 0 {
			win = fmt.Sprintf("(some %d)", s.Win)
		}
		return fmt.Sprintf(".readSub .%s %s %s %s %s %s %s", s.Blk, q(s.F), q(s.Typ), win, smbLeanBool(s.Whole), smbLeanBool(s.Checked), smbLeanBool(s.Op == "readSub"))
	case "advance", "setPad":
		return fmt.Sprintf(".%s %s", s.Op, leanExpr(s.E))
	case "clear":
		return fmt.Sprintf(".clear %s", q(s.F))
	case "zeroInt":
		return fmt.Sprintf(".zeroInt %s", q(s.F))
	case "zeroInts":
		return fmt.Sprintf(".zeroInts %s %d", q(s.F), s.K)
	case "makeInts":
		return fmt.Sprintf(".makeInts %s %s", q(s.F), q(s.G))
	case "forCountInt":
		return fmt.Sprintf(".forCountInt .%s %d .%s %s %s", s.Blk, s.W, s.End, q(s.F), q(s.G))
	case "forCountSub":
		return fmt.Sprintf(".forCountSub .%s %s %s %s %d", s.Blk, q(s.F), q(s.G), q(s.Typ), s.K)
	case "whileFitsSub":
		return fmt.Sprintf(".whileFitsSub .%s %s %s %d", s.Blk, q(s.F), q(s.Typ), s.K)
	case "cstrUnicode":
		return fmt.Sprintf(".cstrUnicode %s", q(s.F))
	}
	panic("leanStmt: " + s.Op)
}

func renderLean(cmds []jCmd) string {
	var b strings.Builder
	b.WriteString("import Manticore.Model.SmbIR\nnamespace Manticore.Gen.SmbCommands\nopen Manticore.SmbIR\n\n")
	for _, c := range cmds {
		fmt.Fprintf(&b, "/-- %s -/\ndef cmd_%s : Cmd where\n  name := %s\n  code := %s\n  isAndX := %s\n", c.File, c.Name, leanStr(c.Name), leanStr(c.Code), smbLeanBool(c.IsAndX))
		fs := make([]string, len(c.Fields))
		for i, f := range c.Fields {
			fs[i] = fmt.Sprintf("(%s, %s)", leanStr(f.Name), leanStr(f.Type))
		}
		fmt.Fprintf(&b, "  fields := [%s]\n", strings.Join(fs, ", "))
		fmt.Fprintf(&b, "  marshal := %s\n", leanStmts(c.Marshal, true))
		fmt.Fprintf(&b, "  unmarshal := %s\n\n", leanStmts(c.Unmarshal, false))
	}
	// chunks of 16 to keep elaboration shallow
	var chunks []string
	for i := 0; i < len(cmds); i += 16 {
		j := i + 16
		if j > len(cmds) {
			j = len(cmds)
		}
		names := make([]string, 0, 16)
		for _, c := range cmds[i:j] {
			names = append(names, "cmd_"+c.Name)
		}
		fmt.Fprintf(&b, "def chunk%d : List Cmd := [%s]\n", i/16, strings.Join(names, ", "))
		chunks = append(chunks, fmt.Sprintf("chunk%d", i/16))
	}
	fmt.Fprintf(&b, "\ndef commands : List Cmd := %s\n", strings.Join(chunks, " ++ "))
	b.WriteString("\nend Manticore.Gen.SmbCommands\n")
	return b.String()
}
