// C19 extractor, translation by EVALUATION (DESIGN.md §7 "Normalisations", §6 trusted base).
//
// The syntactic readers of c19_flags.go / c19_codes.go translate a naming function by the shape of its
// statements.  A function over a SMALL finite domain — a method of an 8- or 16-bit flag word or code —
// has a second, shape-independent translation: run the real method on EVERY value of its domain and
// emit the table that reproduces exactly those answers.  It is used only when the syntactic reader
// refuses the function, and works in three steps:
//
//  1. a tiny Go program is generated into a scratch module whose `replace` points at the repository
//     worktree under extraction; it calls the exported method on all 2^8 / 2^16 receiver values, twice
//     (ascending and descending order, for a pointer receiver also on a receiver that has decoded the
//     complement before) and prints the answers; answers that depend on the order or on the receiver's
//     history are refused (the table language has no state);
//  2. a candidate table in the CANONICAL form the Lean theorems consume is synthesised from a few of the
//     answers (single-bit words give the row names, two-bit words the separator and the row order; the
//     values outside a name map give the fall-back text);
//  3. the candidate is interpreted — by a Go transliteration of `Family.string` / `Family.names` /
//     `Test.eval` / `CodeTable.string` of Model/C19.lean — on EVERY value of the domain and must give
//     the method's answer everywhere.  Only then is it emitted; any difference is a refusal that names
//     the first differing word.
//
// Because step 3 is exhaustive, whatever heuristics step 2 uses cannot produce a wrong model: a wrong
// guess is a refusal.  Canonical forms (chosen to coincide with what the syntactic reader emits for the
// repository's own shapes, so that a behaviour-preserving rewrite regenerates a byte-identical module):
//
//	decomposition row      ⟨M, M, false⟩   `w&M == M`, M a single bit      (same function as `w&M != 0`)
//	positive predicate     ⟨M, 0, true⟩    `w&M != 0`, M a single bit      (same function as `w&M == M`, `w|M == w`)
//	negative predicate     ⟨M, 0, false⟩   `w&M == 0`                      (same function as `!(w&M != 0)`)
//	code table             rows of the name map (still read from the source) + fall-back literal or PRE%dPOST
//
// What this cannot express is refused as before: a multi-bit mask, a test on a shifted word, a name that
// depends on two bits, a rendering that depends on undeclared bits (C19-7, C19-9 stay violations).
// 32-bit and wider words (Capabilities, UserAccountControl, NT_STATUS, …) are never evaluated: their
// domains are not enumerable in a check, they keep the syntactic readers only.
package main

import (
	"encoding/json"
	"fmt"
	"os"
	"os/exec"
	"path/filepath"
	"sort"
	"strconv"
	"strings"
)

// evalReq asks for one exported method on the whole domain of its receiver.
type evalReq struct {
	ID     string // key of the answer
	Kind   string // "string": T(w).M() string | "bool": T(w).M() bool | "names": (&T{}).M(byte(w)); read .Name
	Type   string // receiver type name
	Method string
	Struct bool // the receiver is a struct with an integer field `Value` (pointer receiver): (&T{Value: w}).M()
}

type evalAns struct {
	Strings []string   `json:"strings,omitempty"`
	Bools   string     `json:"bools,omitempty"` // '0' / '1' per word
	Names   [][]string `json:"names,omitempty"`
	Err     string     `json:"err,omitempty"`
}

// c19Evaluate runs the requests against package `dir` of the repository worktree `repo`; bits is the
// width of the receiver's word (8 or 16).
func c19Evaluate(repo, dir string, bits int, reqs []evalReq) (map[string]evalAns, error) {
	if bits != 8 && bits != 16 {
		return nil, fmt.Errorf("evaluation is only defined for 8- and 16-bit words, not %d bits", bits)
	}
	gomod, err := os.ReadFile(filepath.Join(repo, "go.mod"))
	if err != nil {
		return nil, err
	}
	module := ""
	for _, l := range strings.Split(string(gomod), "\n") {
		if strings.HasPrefix(l, "module ") {
			module = strings.TrimSpace(strings.TrimPrefix(l, "module "))
		}
	}
	if module == "" {
		return nil, fmt.Errorf("%s/go.mod: no module line", repo)
	}
	goLine := "go 1.24.0"
	for _, l := range strings.Split(string(gomod), "\n") {
		if strings.HasPrefix(l, "go ") {
			goLine = strings.TrimSpace(l)
		}
	}
	base := os.Getenv("VERIF_GEN_DIR")
	if base == "" {
		base = os.TempDir()
	}
	tmp, err := os.MkdirTemp(base, "c19eval-")
	if err != nil {
		return nil, err
	}
	defer os.RemoveAll(tmp)
	absRepo, err := filepath.Abs(repo)
	if err != nil {
		return nil, err
	}
	mod := fmt.Sprintf("module c19eval\n\n%s\n\nrequire %s v0.0.0\n\nreplace %s => %s\n", goLine, module, module, absRepo)
	if err := os.WriteFile(filepath.Join(tmp, "go.mod"), []byte(mod), 0o644); err != nil {
		return nil, err
	}
	if sum, err := os.ReadFile(filepath.Join(repo, "go.sum")); err == nil {
		if err := os.WriteFile(filepath.Join(tmp, "go.sum"), sum, 0o644); err != nil {
			return nil, err
		}
	}
	var b strings.Builder
	fmt.Fprintf(&b, "package main\n\nimport (\n\t\"encoding/json\"\n\t\"fmt\"\n\t\"os\"\n\t\"reflect\"\n\tpkg %q\n)\n\n", module+"/"+dir)
	fmt.Fprintf(&b, "const n = 1 << %d\n\ntype word = uint%d\n\n", bits, bits)
	b.WriteString(`type ans struct {
	Strings []string   ` + "`json:\"strings,omitempty\"`" + `
	Bools   string     ` + "`json:\"bools,omitempty\"`" + `
	Names   [][]string ` + "`json:\"names,omitempty\"`" + `
	Err     string     ` + "`json:\"err,omitempty\"`" + `
}

var _ = reflect.DeepEqual

func guard(a *ans) {
	if r := recover(); r != nil {
		*a = ans{Err: fmt.Sprint("panic: ", r)}
	}
}

`)
	for i, r := range reqs {
		recv := fmt.Sprintf("pkg.%s(word(w))", r.Type)
		if r.Struct {
			recv = fmt.Sprintf("(&pkg.%s{Value: word(w)})", r.Type)
		}
		fmt.Fprintf(&b, "func eval%d() (a ans) {\n\tdefer guard(&a)\n", i)
		switch r.Kind {
		case "string":
			fmt.Fprintf(&b, "\tup, down := make([]string, n), make([]string, n)\n")
			fmt.Fprintf(&b, "\tfor w := 0; w < n; w++ {\n\t\tup[w] = %s.%s()\n\t}\n", recv, r.Method)
			fmt.Fprintf(&b, "\tfor w := n - 1; w >= 0; w-- {\n\t\tdown[w] = %s.%s()\n\t}\n", recv, r.Method)
			b.WriteString("\tif !reflect.DeepEqual(up, down) {\n\t\treturn ans{Err: \"the answer depends on the order of the calls\"}\n\t}\n\treturn ans{Strings: up}\n}\n\n")
		case "bool":
			fmt.Fprintf(&b, "\tup, down := make([]byte, n), make([]byte, n)\n")
			fmt.Fprintf(&b, "\tfor w := 0; w < n; w++ {\n\t\tup[w] = '0'\n\t\tif %s.%s() {\n\t\t\tup[w] = '1'\n\t\t}\n\t}\n", recv, r.Method)
			fmt.Fprintf(&b, "\tfor w := n - 1; w >= 0; w-- {\n\t\tdown[w] = '0'\n\t\tif %s.%s() {\n\t\t\tdown[w] = '1'\n\t\t}\n\t}\n", recv, r.Method)
			b.WriteString("\tif string(up) != string(down) {\n\t\treturn ans{Err: \"the answer depends on the order of the calls\"}\n\t}\n\treturn ans{Bools: string(up)}\n}\n\n")
		case "names":
			// fresh receiver; receiver that decoded the complement before; one receiver reused for all words
			fmt.Fprintf(&b, "\tfresh, used, same := make([][]string, n), make([][]string, n), make([][]string, n)\n\tcp := func(l []string) []string { return append([]string{}, l...) }\n")
			fmt.Fprintf(&b, "\tvar one pkg.%s\n", r.Type)
			fmt.Fprintf(&b, "\tfor w := 0; w < n; w++ {\n\t\tvar k pkg.%s\n\t\tk.%s(word(w))\n\t\tfresh[w] = cp(k.Name)\n\t\tif k.Value != word(w) {\n\t\t\treturn ans{Err: fmt.Sprintf(\"Value = %%#x after decoding %%#x\", k.Value, w)}\n\t\t}\n", r.Type, r.Method)
			fmt.Fprintf(&b, "\t\tvar u pkg.%s\n\t\tu.%s(^word(w))\n\t\tu.%s(word(w))\n\t\tused[w] = cp(u.Name)\n\t\tone.%s(word(w))\n\t\tsame[w] = cp(one.Name)\n\t}\n", r.Type, r.Method, r.Method, r.Method)
			b.WriteString("\tif !reflect.DeepEqual(fresh, used) || !reflect.DeepEqual(fresh, same) {\n\t\treturn ans{Err: \"the answer depends on what the receiver decoded before\"}\n\t}\n\treturn ans{Names: fresh}\n}\n\n")
		default:
			return nil, fmt.Errorf("unknown evaluation kind %q", r.Kind)
		}
	}
	b.WriteString("func main() {\n\tout := map[string]ans{}\n")
	for i, r := range reqs {
		fmt.Fprintf(&b, "\tout[%q] = eval%d()\n", r.ID, i)
	}
	b.WriteString("\tif err := json.NewEncoder(os.Stdout).Encode(out); err != nil {\n\t\tpanic(err)\n\t}\n}\n")
	if err := os.WriteFile(filepath.Join(tmp, "main.go"), []byte(b.String()), 0o644); err != nil {
		return nil, err
	}
	cmd := exec.Command("go", "run", ".")
	cmd.Dir = tmp
	var env []string
	for _, kv := range os.Environ() {
		k := strings.SplitN(kv, "=", 2)[0]
		switch k {
		case "GOSUMDB", "GOTOOLCHAIN", "GOPROXY", "GOFLAGS", "GOWORK": // as ./check sets them
			continue
		}
		env = append(env, kv)
	}
	cmd.Env = append(env, "GOPROXY=off", "GOFLAGS=-mod=mod", "GOWORK=off")
	var stderr strings.Builder
	cmd.Stderr = &stderr
	outb, err := cmd.Output()
	if err != nil {
		return nil, fmt.Errorf("evaluation program for %s does not build or run: %v\n%s", dir, err, lastLines(stderr.String(), 12))
	}
	res := map[string]evalAns{}
	if err := json.Unmarshal(outb, &res); err != nil {
		return nil, fmt.Errorf("evaluation program for %s: unreadable output: %v", dir, err)
	}
	n := 1 << uint(bits)
	for _, r := range reqs {
		a, ok := res[r.ID]
		if !ok {
			return nil, fmt.Errorf("evaluation program for %s: no answer for %s", dir, r.ID)
		}
		if a.Err != "" {
			return nil, fmt.Errorf("%s.%s evaluated on all %d words: %s", r.Type, r.Method, n, a.Err)
		}
		got := len(a.Strings)
		switch r.Kind {
		case "bool":
			got = len(a.Bools)
		case "names":
			got = len(a.Names)
		}
		if got != n {
			return nil, fmt.Errorf("%s.%s: %d answers for %d words", r.Type, r.Method, got, n)
		}
	}
	return res, nil
}

func lastLines(s string, k int) string {
	ls := strings.Split(strings.TrimRight(s, "\n"), "\n")
	if len(ls) > k {
		ls = ls[len(ls)-k:]
	}
	return strings.Join(ls, "\n")
}

// ---- the table language of Model/C19.lean, transliterated (used to VERIFY a candidate on the whole domain) ----

func c19TestEval(t C19Test, w uint64) bool { return ((w & t.Mask) == t.Rhs) != t.Neg }

// c19Names = Family.names (unsorted families): the rows that fire, in row order; the append-literal when none does
func c19Names(rows []C19Row, emptyMode, emptyLit string, w uint64) []string {
	l := []string{}
	for _, r := range rows {
		if c19TestEval(r.Test, w) {
			l = append(l, r.Name)
		}
	}
	if len(l) == 0 && emptyMode == "append" {
		l = append(l, emptyLit)
	}
	return l
}

// c19String = Family.string
func c19String(rows []C19Row, emptyMode, emptyLit, sep string, w uint64) string {
	l := c19Names(rows, emptyMode, emptyLit, w)
	if len(l) == 0 && emptyMode == "return" {
		return emptyLit
	}
	return strings.Join(l, sep)
}

// c19CodeString = CodeTable.string: first row with the key, wrapped; else the fall-back
func c19CodeString(t *C19CodeTable, v uint64) string {
	for _, r := range t.Rows {
		if r.Value == v {
			return t.WrapPre + r.Name + t.WrapPost
		}
	}
	if t.Fallback.Kind == "lit" {
		return t.Fallback.Lit
	}
	return t.Fallback.Pre + strconv.FormatUint(v, 10) + t.Fallback.Post
}

// ---- synthesis + exhaustive verification -----------------------------------------------------------------

// c19SynthDecomp reconstructs the decomposition table of a String() (asNames = false: answers are
// strings) or of a FromBytes (asNames = true: answers are name lists) from the answers on the whole
// domain.  See the file comment: rows are single-bit tests `w&M == M` in the order in which the method
// lists them; the result is emitted only if it reproduces EVERY answer.
func c19SynthDecomp(bits int, strs []string, lists [][]string, asNames bool, what string) (rows []C19Row, emptyMode, emptyLit, sep string, err error) {
	n := uint64(1) << uint(bits)
	render := func(w uint64) string {
		if asNames {
			return strings.Join(lists[w], "\x00")
		}
		return strs[w]
	}
	// what the method says when no named bit is set
	if asNames {
		switch len(lists[0]) {
		case 0:
		case 1:
			emptyMode, emptyLit = "append", lists[0][0]
		default:
			return nil, "", "", "", fmt.Errorf("%s: the zero word decodes to %d names", what, len(lists[0]))
		}
	} else if strs[0] != "" {
		emptyMode, emptyLit = "return", strs[0]
	}
	// named bits and their names
	type nb struct {
		mask uint64
		name string
	}
	var named []nb
	for b := 0; b < bits; b++ {
		m := uint64(1) << uint(b)
		if render(m) == render(0) {
			continue // this bit has no name (verified below on every word)
		}
		name := strs2(asNames, strs, lists, m)
		if name == nil {
			return nil, "", "", "", fmt.Errorf("%s: the single-bit word %#x decodes to %d names, not to one", what, m, len(lists[m]))
		}
		named = append(named, nb{m, *name})
	}
	if len(named) == 0 {
		return nil, "", "", "", fmt.Errorf("%s: no single-bit word has a name of its own", what)
	}
	// separator: from the first two named bits
	if !asNames && len(named) >= 2 {
		a, c := named[0], named[1]
		r := strs[a.mask|c.mask]
		switch {
		case len(r) >= len(a.name)+len(c.name) && strings.HasPrefix(r, a.name) && strings.HasSuffix(r, c.name):
			sep = r[len(a.name) : len(r)-len(c.name)]
		case len(r) >= len(a.name)+len(c.name) && strings.HasPrefix(r, c.name) && strings.HasSuffix(r, a.name):
			sep = r[len(c.name) : len(r)-len(a.name)]
		default:
			return nil, "", "", "", fmt.Errorf("%s: the rendering %q of %#x is not the two names %q, %q around a separator", what, r, a.mask|c.mask, a.name, c.name)
		}
	}
	// order of the rows: from the two-bit words
	before := func(a, c nb) bool {
		if asNames {
			l := lists[a.mask|c.mask]
			return len(l) == 2 && l[0] == a.name && l[1] == c.name
		}
		return strs[a.mask|c.mask] == a.name+sep+c.name
	}
	sort.SliceStable(named, func(i, j int) bool { return before(named[i], named[j]) && !before(named[j], named[i]) })
	for _, x := range named {
		rows = append(rows, C19Row{Test: C19Test{Mask: x.mask, Rhs: x.mask, Neg: false, Src: fmt.Sprintf("w&%#x == %#x (evaluated on all %d words)", x.mask, x.mask, n)}, Name: x.name, Pos: what})
	}
	// the candidate must give the method's answer on every word
	for w := uint64(0); w < n; w++ {
		if asNames {
			want := c19Names(rows, emptyMode, emptyLit, w)
			if strings.Join(want, "\x00") != render(w) || len(want) != len(lists[w]) {
				return nil, "", "", "", fmt.Errorf("%s is not a decomposition by single-bit rows: it decodes %#x to %q, the table read off the single-bit words gives %q", what, w, lists[w], want)
			}
		} else if want := c19String(rows, emptyMode, emptyLit, sep, w); want != strs[w] {
			return nil, "", "", "", fmt.Errorf("%s is not a decomposition by single-bit rows: it renders %#x as %q, the table read off the single-bit words gives %q", what, w, strs[w], want)
		}
	}
	return rows, emptyMode, emptyLit, sep, nil
}

func strs2(asNames bool, strs []string, lists [][]string, w uint64) *string {
	if !asNames {
		return &strs[w]
	}
	if len(lists[w]) != 1 {
		return nil
	}
	return &lists[w][0]
}

// c19SynthPred finds the single bit a `() bool` method tests: `w&M != 0` on every word, or `w&M == 0`
// on every word.  Anything else (two bits, a shifted word, a constant) is refused.
func c19SynthPred(bits int, bools string, what string) (C19Test, error) {
	n := uint64(1) << uint(bits)
	for b := 0; b < bits; b++ {
		m := uint64(1) << uint(b)
		pos, neg := true, true
		for w := uint64(0); w < n && (pos || neg); w++ {
			set := w&m != 0
			got := bools[w] == '1'
			if got != set {
				pos = false
			}
			if got == set {
				neg = false
			}
		}
		if pos {
			return C19Test{Mask: m, Rhs: 0, Neg: true, Src: fmt.Sprintf("w&%#x != 0 (evaluated on all %d words)", m, n)}, nil
		}
		if neg {
			return C19Test{Mask: m, Rhs: 0, Neg: false, Src: fmt.Sprintf("w&%#x == 0 (evaluated on all %d words)", m, n)}, nil
		}
	}
	return C19Test{}, fmt.Errorf("%s evaluated on all %d words is not the test of one bit (w&M != 0 or w&M == 0)", what, n)
}

// c19SynthLookup completes a code table whose ROWS were read from the source (the name map) with the
// wrapping of a found name and the fall-back of the naming function, and verifies the whole table on
// every value of the domain.
func c19SynthLookup(t *C19CodeTable, strs []string, what string) error {
	n := uint64(1) << uint(t.Bits)
	inRows := map[uint64]bool{}
	for _, r := range t.Rows {
		inRows[r.Value] = true
	}
	if len(t.Rows) == 0 {
		return fmt.Errorf("%s: no rows", what)
	}
	// wrapping: the first row's answer around its name
	r0 := t.Rows[0]
	i := strings.Index(strs[r0.Value], r0.Name)
	if i < 0 {
		return fmt.Errorf("%s answers %q for %s, which does not contain its name %q", what, strs[r0.Value], r0.Key, r0.Name)
	}
	t.WrapPre, t.WrapPost = strs[r0.Value][:i], strs[r0.Value][i+len(r0.Name):]
	// fall-back: a literal, or PRE<decimal>POST
	var outside []uint64
	for v := uint64(0); v < n; v++ {
		if !inRows[v] {
			outside = append(outside, v)
		}
	}
	if len(outside) < 2 {
		return fmt.Errorf("%s: fewer than two values of the domain are outside the name table; the fall-back cannot be read off the answers", what)
	}
	var cands []C19Fallback
	lit := true
	for _, v := range outside {
		if strs[v] != strs[outside[0]] {
			lit = false
		}
	}
	if lit {
		cands = append(cands, C19Fallback{Kind: "lit", Lit: strs[outside[0]]})
	}
	v0 := outside[len(outside)-1]
	d, s := strconv.FormatUint(v0, 10), strs[v0]
	for j := 0; j+len(d) <= len(s); j++ {
		if s[j:j+len(d)] == d {
			cands = append(cands, C19Fallback{Kind: "fmt", Pre: s[:j], Post: s[j+len(d):]})
		}
	}
	var firstErr error
	for _, fb := range cands {
		t.Fallback = fb
		ok := true
		for v := uint64(0); v < n; v++ {
			if want := c19CodeString(t, v); want != strs[v] {
				ok = false
				if firstErr == nil {
					firstErr = fmt.Errorf("%s answers %q for %#x; the name table with fall-back %+v gives %q", what, strs[v], v, fb, want)
				}
				break
			}
		}
		if ok {
			return nil
		}
	}
	if firstErr == nil {
		firstErr = fmt.Errorf("%s: the answers outside the name table are neither one literal nor PRE<decimal value>POST (%#x gives %q)", what, v0, s)
	}
	return firstErr
}

// c19SynthRows builds a code table from the answers alone (no name map in the source): the fall-back is read off
// the largest value of the domain (a literal, or PRE<decimal>POST), every value that answers something else is a
// row.  Among the readings of the fall-back the one with the fewest rows is taken; all of them reproduce the
// method exactly, they differ only in what they call a row.
func c19SynthRows(t *C19CodeTable, strs []string, what string) error {
	n := uint64(1) << uint(t.Bits)
	v0 := n - 1
	d, s := strconv.FormatUint(v0, 10), strs[v0]
	cands := []C19Fallback{{Kind: "lit", Lit: s}}
	for j := 0; j+len(d) <= len(s); j++ {
		if s[j:j+len(d)] == d {
			cands = append(cands, C19Fallback{Kind: "fmt", Pre: s[:j], Post: s[j+len(d):]})
		}
	}
	best := -1
	for _, fb := range cands {
		tmp := C19CodeTable{Fallback: fb}
		var rows []C19CodeRow
		for v := uint64(0); v < n; v++ {
			if c19CodeString(&tmp, v) != strs[v] {
				rows = append(rows, C19CodeRow{Key: fmt.Sprintf("%#x", v), Value: v, Name: strs[v], Pos: what})
			}
		}
		if best < 0 || len(rows) < best || (len(rows) == best && fb.Kind == "fmt") {
			best, t.Rows, t.Fallback = len(rows), rows, fb
		}
	}
	if len(t.Rows) == 0 || uint64(len(t.Rows)) > n/2 {
		return fmt.Errorf("%s: the answers on the %d values are not a name table with a fall-back (%d values would be rows)", what, n, len(t.Rows))
	}
	for v := uint64(0); v < n; v++ {
		if c19CodeString(t, v) != strs[v] {
			return fmt.Errorf("%s: internal: synthesised table differs at %#x", what, v)
		}
	}
	return nil
}
