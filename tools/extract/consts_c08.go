package main

import "go/ast"

// Fact ConstsC08: NTLMSSP signature, message types, negotiate flags, AV ids, field-descriptor offsets of the three
// messages, the target-info framing and the SPNEGO object identifiers (C08).

func init() {
	facts["ConstsC08"] = constsFact("ConstsC08", "NTLMSSP signature, message types, flags, AV ids, message layouts, target-info framing, SPNEGO OIDs (C08)", func(c *cx) {
		p := c.pkg("network/smb/smb_v10/spnego/ntlm")
		c.bytes("signature", p.pvar("NTLM_SIGNATURE"), p.pvar("NTLM_SIGNATURE").byteLit())
		c.constNat("msgNegotiate", p, "NTLM_NEGOTIATE")
		c.constNat("msgChallenge", p, "NTLM_CHALLENGE")
		c.constNat("msgAuthenticate", p, "NTLM_AUTHENTICATE")
		c.constTable("avIds", p, []string{"MsvAvEOL", "MsvAvNbComputerName", "MsvAvNbDomainName", "MsvAvDnsComputerName", "MsvAvDnsDomainName",
			"MsvAvDnsTreeName", "MsvAvFlags", "MsvAvTimestamp", "MsvAvSingleHost", "MsvAvTargetName", "MsvAvChannelBindings"})
		c.constNat("avEOL", p, "MsvAvEOL")
		for _, f := range [][2]string{{"flagUnicode", "NTLMSSP_NEGOTIATE_UNICODE"}, {"flagOem", "NTLMSSP_NEGOTIATE_OEM"}, {"flagRequestTarget", "NTLMSSP_REQUEST_TARGET"},
			{"flagNtlm", "NTLMSSP_NEGOTIATE_NTLM"}, {"flagDomainSupplied", "NTLMSSP_NEGOTIATE_OEM_DOMAIN_SUPPLIED"},
			{"flagWorkstationSupplied", "NTLMSSP_NEGOTIATE_OEM_WORKSTATION_SUPPLIED"}, {"flagAlwaysSign", "NTLMSSP_NEGOTIATE_ALWAYS_SIGN"},
			{"flagEss", "NTLMSSP_NEGOTIATE_EXTENDED_SESSIONSECURITY"}, {"flagTargetInfo", "NTLMSSP_NEGOTIATE_TARGET_INFO"},
			{"flagVersion", "NTLMSSP_NEGOTIATE_VERSION"}, {"flag128", "NTLMSSP_NEGOTIATE_128"}, {"flag56", "NTLMSSP_NEGOTIATE_56"}} {
			c.constNat(f[0], p, f[1])
		}
		n := p.fn("CreateNegotiateMessage")
		c.int1Of("neg_headerSize", n.assign("headerSize", -1))
		c.intsOf("neg_baseFlags", n.assign("flags", 0))
		c.named("neg_unicode", n.assign("flags", 1), "flag")
		c.named("neg_oem", n.assign("flags", 2), "flag")
		c.named("neg_domain", n.assign("flags", 3), "flag")
		c.named("neg_workstation", n.assign("flags", 4), "flag")
		c.shapeOf("neg_domainOffset_shape", n.assign("domainOffset", -1))
		c.shapeOf("neg_workstationOffset_shape", n.assign("workstationOffset", -1))
		c.putOrder("neg_puts", n)
		// the length guard in front of the writes: `len(domainBytes) > 0xFFFF || len(workstationBytes) > 0xFFFF`
		c.int1Of("neg_maxDomain", n.cmp("len(domainBytes)", tokGTR, -1))
		c.int1Of("neg_maxWorkstation", n.cmp("len(workstationBytes)", tokGTR, -1))
		c.shapeOf("neg_lengthGuard_shape", n.cond("len(domainBytes) >", -1))

		a := p.fn("CreateAuthenticateMessage")
		c.int1Of("auth_headerSize", a.assign("headerSize", -1))
		var offs []string
		for _, v := range []string{"lmResponseOffset", "ntResponseOffset", "domainOffset", "usernameOffset", "workstationOffset", "sessionKeyOffset"} {
			offs = append(offs, a.assign(v, -1).shape())
		}
		c.texts("auth_offset_shapes", a, offs)
		c.putOrder("auth_puts", a)
		// the length guard: `for _, field := range [][]byte{…} { if len(field) > 0xFFFF { return nil, … } }`
		c.int1Of("auth_maxField", a.cmp("len(field)", tokGTR, -1))
		gf := a.rangeOver("field")
		lit, ok := gf.n.(*ast.CompositeLit)
		if !ok {
			c.failf("CreateAuthenticateMessage: the length guard does not range over a composite literal")
		}
		var guarded []string
		for _, e := range lit.Elts {
			guarded = append(guarded, render(e))
		}
		c.texts("auth_guardedFields", gf, guarded)
		c.shapeOf("auth_version_shape", a.cond("NTLMSSP_NEGOTIATE_VERSION", 0))
		mk := a.callsWith(func(s string) bool { return s == "make" })
		if len(mk) < 2 {
			c.failf("CreateAuthenticateMessage: fewer than two make calls")
		}
		c.int1Of("auth_zeroVersion", mk[len(mk)-2].arg(1))
		c.int1Of("auth_mic", mk[len(mk)-1].arg(1))

		ch := p.fn("ParseChallengeMessage")
		c.int1Of("ch_minLen", ch.cmp("len(data)", tokLSS, -1))
		c.named("ch_signature", ch.call("bytes.Equal", -1).arg(0), "lo", "hi")
		c.named("ch_type", ch.assign("messageType", -1), "lo", "hi")
		c.int1Of("ch_typeWant", ch.cmp("messageType", tokNEQ, -1))
		c.named("ch_tnLen", ch.assign("targetNameLen", -1), "lo", "hi")
		c.named("ch_tnOff", ch.assign("targetNameOffset", -1), "lo", "hi")
		c.named("ch_flags", ch.assign("challenge.NegotiateFlags", -1), "lo", "hi")
		c.named("ch_serverChallenge", ch.call("copy", 1).arg(1), "lo", "hi")
		c.named("ch_reserved", ch.call("copy", 2).arg(1), "lo", "hi")
		c.named("ch_tiLen", ch.assign("targetInfoLen", -1), "lo", "hi")
		c.named("ch_tiOff", ch.assign("targetInfoOffset", -1), "lo", "hi")
		c.shapeOf("ch_tnGuard_shape", ch.cond("targetNameLen", 0))
		c.shapeOf("ch_tiGuard_shape", ch.cond("targetInfoLen", 0))
		c.named("ch_versionGuard", ch.cond("NTLMSSP_NEGOTIATE_VERSION", 0), "flag", "zero", "minLen")
		c.named("ch_version", ch.call("challenge.Version.Unmarshal", -1).arg(0), "lo", "hi")
		c.int1Of("ch_versionLen", ch.cmp("bytesRead", tokNEQ, -1))
		anyBig := false
		for _, v := range []string{"messageType", "targetNameLen", "targetNameOffset", "challenge.NegotiateFlags", "targetInfoLen", "targetInfoOffset"} {
			anyBig = anyBig || !ch.assign(v, -1).little()
		}
		c.boolean("ch_anyBig", ch, anyBig)

		t := p.fn("ParseTargetInfo")
		c.int1Of("ti_need", t.cond("> len(targetInfo)", 0))
		c.named("ti_id", t.assign("avId", -1), "hi")
		c.named("ti_len", t.assign("avLen", -1), "lo", "hi")
		c.int1Of("ti_advance", t.assign("offset", 1))
		c.shapeOf("ti_store_shape", t.cond("avId !=", 0))
		c.shapeOf("ti_stop_shape", t.cond("avId ==", 0))
		c.boolean("ti_anyBig", t, !t.assign("avId", -1).little() || !t.assign("avLen", -1).little())

		s := c.pkg("network/smb/smb_v10/spnego")
		c.intsOf("spnegoOid", s.pvar("SpnegoOID"))
		c.intsOf("ntlmOid", s.pvar("NtlmOID"))
	})
}
