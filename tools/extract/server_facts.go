package main

// Fact ServerFacts (C18): what the receive loops of the LLMNR / NBNS servers and of the LLMNR client hand
// to the goroutines they start, and how their Stop/Close methods signal shutdown.
//
// For every function that contains a `for` loop around a socket read (ReadFromUDP / Accept / io.ReadFull):
//   * which []byte buffers are allocated with make() *before* the loop (they are reused by every iteration);
//   * for every `go f(args…)` inside the loop: is some argument a slice of (or the same slice as) such a
//     buffer — directly, or through a variable assigned from one inside the loop?  A variable assigned from
//     make() inside the loop is the goroutine's own.  For `go func() { … }()` the same question is asked of
//     every identifier the literal's body mentions (what it captures): a loop buffer mentioned there — also as
//     the source of a copy() taken inside the goroutine — is read when the goroutine runs, i.e. shared.
//     (Where the private copy is taken is the fact `copyPlace` of ServerFacts2.)
//   * a call inside the loop that receives the buffer and returns a value which is then passed on
//     (llmnr.DecodeMessage) is accepted only if the callee demonstrably does not retain its argument: every
//     use of the parameter in its body is len(p), p[i], string(p[a:b]), binary.BigEndian.UintN(p[a:]),
//     the source of copy(dst, p[a:b]), or passing p on to another function checked the same way.
// For every Stop/Close method of those types: is close(<quit channel>) executed inside a sync.Once.Do ?
//
// Unknown shapes are errors.
//
// Normalisations (DESIGN.md §7):
//
//   - "socket read through a helper".  A `for` loop is a receive loop if its body reads a socket itself or calls
//     — by plain name — a package-level function of the package that does (directly or through further such
//     functions): `msg, ok := readTCPFrame(conn, prefix[:])` is the loop's read moved into a function.  The
//     loop is listed under the function that contains the `for`, as before.
//   - "array as loop buffer".  `var b [N]byte` declared before the loop is a buffer every iteration reuses exactly
//     like `b := make([]byte, N)`: it counts as an outer buffer (and a slice of it handed to a goroutine as
//     sharing).  This one is a strengthening: such a loop was read as not reusing anything.
//   - a package function that receives the loop buffer must not retain it (nonRetaining); besides the uses
//     listed above it may hand the parameter to the standard-library calls the loop itself may make with it
//     (io.ReadFull / Read / ReadFromUDP fill it, Write / WriteToUDP / binary.*.UintN / PutUintN read or fill it;
//     none keeps the slice: io.Reader and io.Writer forbid it).

//   - "loop body split into methods of the same receiver".  `for … { … r.m(args) … }` inside a method with receiver
//     `r` of type T, where `m` is a method declared on T or *T in the package, is read as if the body of `m` stood at
//     the call, one question at a time: (a) the loop is a receive loop if such a method reads a socket (followed like
//     package functions, at most four deep); (b) a method that receives the loop buffer must not retain it — the same
//     nonRetaining test as for package functions, on the method's parameter (a window `p[a:b]` of the parameter handed
//     to a package function is tested like the parameter itself); its result is then a value decoded from the buffer;
//     (c) a method called from the loop body must not contain a `go` statement (the spawn count and the sharing
//     question are asked of the loop's own `go` statements only): refused with an error.
//   - "quit test as a method".  `func (r *T) closed() bool { select { case <-r.quit: return true; default: return false } }`
//     is the non-blocking test of the canonical first statement `select { case <-quit: return; default: … }`.  Accepted
//     as checksQuit: `for !r.closed() { … }` when the `for` is the last statement of the function (leaving the loop is
//     returning; one `return …` may follow it) and `if r.closed() { return … }` as the first statement of the loop body.  The method must have exactly
//     that body: a receive without `default` would block, other results would invert the test.

import (
	"fmt"
	"go/ast"
	"go/parser"
	"go/token"
	"os"
	"path/filepath"
	"sort"
	"strings"
)

func init() { facts["ServerFacts"] = serverFacts }

// sfRecv: base type name and receiver name of a method declaration ("" for functions / unnamed receivers)
func sfRecv(fd *ast.FuncDecl) (string, string) {
	if fd.Recv == nil || len(fd.Recv.List) != 1 || len(fd.Recv.List[0].Names) != 1 {
		return "", ""
	}
	t := fd.Recv.List[0].Type
	if st, ok := t.(*ast.StarExpr); ok {
		t = st.X
	}
	id, ok := t.(*ast.Ident)
	if !ok {
		return "", ""
	}
	return id.Name, fd.Recv.List[0].Names[0].Name
}

// sfOwnMethod: `r.m(…)` with r the receiver of `in` and m a method of the same base type; returns its key in pkgFuncs
func sfOwnMethod(c *ast.CallExpr, in *ast.FuncDecl, fs pkgFuncs) (string, bool) {
	typ, recv := sfRecv(in)
	sel, ok := c.Fun.(*ast.SelectorExpr)
	if !ok || typ == "" {
		return "", false
	}
	id, ok := sel.X.(*ast.Ident)
	if !ok || id.Name != recv {
		return "", false
	}
	key := typ + "." + sel.Sel.Name
	_, ok = fs[key]
	return key, ok
}

// sfStartsGoroutine: the body contains a `go` statement, or calls (by plain name, or on its own receiver) a function of
// the package that does, at most four deep
func sfStartsGoroutine(fd *ast.FuncDecl, fs pkgFuncs, depth int) bool {
	found := false
	ast.Inspect(fd.Body, func(m ast.Node) bool {
		switch x := m.(type) {
		case *ast.GoStmt:
			found = true
		case *ast.CallExpr:
			if depth >= 4 {
				return true
			}
			if key, ok := sfOwnMethod(x, fd, fs); ok && sfStartsGoroutine(fs[key], fs, depth+1) {
				found = true
			}
			if id, ok := x.Fun.(*ast.Ident); ok {
				if g, ok := fs[id.Name]; ok && g != fd && sfStartsGoroutine(g, fs, depth+1) {
					found = true
				}
			}
		}
		return !found
	})
	return found
}

// sfLoopIsTail: the `for` is the last statement of the function, or only one `return …` follows it: leaving the loop
// is returning from the function
func sfLoopIsTail(fd *ast.FuncDecl, x *ast.ForStmt) bool {
	l := fd.Body.List
	for i, st := range l {
		if st == ast.Stmt(x) {
			if i == len(l)-1 {
				return true
			}
			_, isRet := l[i+1].(*ast.ReturnStmt)
			return i == len(l)-2 && isRet
		}
	}
	return false
}

// sfClosedTest: the body is exactly `select { case <-X: return true; default: return false }` (normalisation "quit test
// as a method")
func sfClosedTest(fd *ast.FuncDecl) bool {
	if fd.Type.Params.NumFields() != 0 || len(fd.Body.List) != 1 {
		return false
	}
	sel, ok := fd.Body.List[0].(*ast.SelectStmt)
	if !ok || len(sel.Body.List) != 2 {
		return false
	}
	retIs := func(body []ast.Stmt, want string) bool {
		if len(body) != 1 {
			return false
		}
		r, ok := body[0].(*ast.ReturnStmt)
		if !ok || len(r.Results) != 1 {
			return false
		}
		id, ok := r.Results[0].(*ast.Ident)
		return ok && id.Name == want
	}
	recvOK, defOK := false, false
	for _, c := range sel.Body.List {
		cc := c.(*ast.CommClause)
		if cc.Comm == nil {
			defOK = retIs(cc.Body, "false")
			continue
		}
		if es, ok := cc.Comm.(*ast.ExprStmt); ok {
			if ue, ok := es.X.(*ast.UnaryExpr); ok && ue.Op == token.ARROW {
				recvOK = retIs(cc.Body, "true")
			}
		}
	}
	return recvOK && defOK
}

type goSpawn struct {
	Callee           string `json:"callee"`
	SharesLoopBuffer bool   `json:"sharesLoopBuffer"`
	ViaDecoder       string `json:"viaDecoder,omitempty"` // value decoded from the buffer by a non-retaining function
}
type serveLoop struct {
	Name         string    `json:"name"`
	File         string    `json:"file"`
	OuterBuffers []string  `json:"outerBuffers"`
	Spawns       []goSpawn `json:"spawns"`
	SharesBuffer bool      `json:"sharesBuffer"` // some spawn shares a loop buffer
	ChecksQuit   bool      `json:"checksQuit"`   // the loop body starts with select { case <-quit: return … default: … }
}
type stopMethod struct {
	Name           string `json:"name"`
	File           string `json:"file"`
	ClosesChannel  bool   `json:"closesChannel"`
	CloseUnderOnce bool   `json:"closeUnderOnce"`
	ClosesSocket   bool   `json:"closesSocket"`
	WaitsForLoops  bool   `json:"waitsForLoops"` // calls wg.Wait()
}

type pkgFuncs map[string]*ast.FuncDecl // by plain function name (package-level functions only)

func rootIdentOf(e ast.Expr) string {
	for {
		switch x := e.(type) {
		case *ast.SliceExpr:
			e = x.X
		case *ast.ParenExpr:
			e = x.X
		case *ast.Ident:
			return x.Name
		default:
			return ""
		}
	}
}

func isMakeBytes(e ast.Expr) bool {
	c, ok := e.(*ast.CallExpr)
	if !ok {
		return false
	}
	id, ok := c.Fun.(*ast.Ident)
	if !ok || id.Name != "make" || len(c.Args) < 2 {
		return false
	}
	at, ok := c.Args[0].(*ast.ArrayType)
	if !ok || at.Len != nil {
		return false
	}
	el, ok := at.Elt.(*ast.Ident)
	return ok && el.Name == "byte"
}

// nonRetaining: does function `name` of the package only read its parameter number `idx`?
func nonRetaining(fs pkgFuncs, name string, idx int, visiting map[string]bool) error {
	key := fmt.Sprintf("%s#%d", name, idx)
	if visiting[key] {
		return nil // recursion on the same parameter: judged by the other uses
	}
	visiting[key] = true
	fd, ok := fs[name]
	if !ok {
		return fmt.Errorf("function %s not found in the package", name)
	}
	var params []string
	for _, f := range fd.Type.Params.List {
		for _, n := range f.Names {
			params = append(params, n.Name)
		}
	}
	if idx >= len(params) {
		return fmt.Errorf("%s has no parameter %d", name, idx)
	}
	p := params[idx]
	var stack []ast.Node
	var err error
	ast.Inspect(fd.Body, func(n ast.Node) bool {
		if n == nil {
			stack = stack[:len(stack)-1]
			return true
		}
		stack = append(stack, n)
		if err != nil {
			return true
		}
		id, ok := n.(*ast.Ident)
		if !ok || id.Name != p {
			return true
		}
		// climb: the ident, possibly wrapped in a slice expression
		i := len(stack) - 2
		var cur ast.Node = id
		sliced := false
		if i >= 0 {
			if se, ok := stack[i].(*ast.SliceExpr); ok && se.X == cur {
				cur, sliced = se, true
				i--
			}
		}
		if i < 0 {
			err = fmt.Errorf("%s: parameter %s used at top level", name, p)
			return true
		}
		switch par := stack[i].(type) {
		case *ast.IndexExpr:
			if par.X == cur && !sliced {
				return true // p[i]
			}
		case *ast.BinaryExpr:
			// inside an index/slice bound such as len(p) handled below; a bare p in a comparison is not expected
		case *ast.CallExpr:
			if fid, ok := par.Fun.(*ast.Ident); ok {
				switch fid.Name {
				case "len":
					return true
				case "string":
					return true // conversion copies
				case "copy":
					if len(par.Args) == 2 && par.Args[1] == cur {
						return true
					}
				default:
					{ // passing p itself, or a window of it, to a function of the package
						for ai, a := range par.Args {
							if a == cur {
								if e := nonRetaining(fs, fid.Name, ai, visiting); e != nil {
									err = e
								}
								return true
							}
						}
					}
				}
			}
			if sel, ok := par.Fun.(*ast.SelectorExpr); ok {
				// binary.BigEndian.Uint16/32/64(p[a:]), PutUint16/32/64(p[a:], v)
				if strings.HasPrefix(sel.Sel.Name, "Uint") || strings.HasPrefix(sel.Sel.Name, "PutUint") {
					if inner, ok := sel.X.(*ast.SelectorExpr); ok && (inner.Sel.Name == "BigEndian" || inner.Sel.Name == "LittleEndian") {
						return true
					}
				}
				// the standard-library calls a receive loop itself may make with its buffer (same list as below)
				switch sel.Sel.Name {
				case "ReadFromUDP", "Read", "ReadFull", "Write", "WriteToUDP":
					for _, a := range par.Args {
						if a == cur {
							return true
						}
					}
				}
			}
		}
		err = fmt.Errorf("%s: parameter %s is used in a way that may retain it (%T)", name, p, stack[i])
		return true
	})
	return err
}

func serverFacts(repo string) (string, any, error) {
	type pkgSpec struct{ dir, label string }
	pkgs := []pkgSpec{{"network/netbios/nbtns", "nbtns"}, {"network/llmnr", "llmnr"}}
	var loops []serveLoop
	var stops []stopMethod
	for _, ps := range pkgs {
		dir := filepath.Join(repo, ps.dir)
		fset := token.NewFileSet()
		entries, err := os.ReadDir(dir)
		if err != nil {
			return "", nil, err
		}
		fs := pkgFuncs{}
		type fileDecl struct {
			fd   *ast.FuncDecl
			file string
		}
		var decls []fileDecl
		for _, ent := range entries {
			fn := ent.Name()
			if !strings.HasSuffix(fn, ".go") || strings.HasSuffix(fn, "_test.go") || fn == "verif_hooks.go" {
				continue
			}
			f, err := parser.ParseFile(fset, filepath.Join(dir, fn), nil, 0)
			if err != nil {
				return "", nil, err
			}
			for _, d := range f.Decls {
				if fd, ok := d.(*ast.FuncDecl); ok && fd.Body != nil {
					decls = append(decls, fileDecl{fd, fn})
					if fd.Recv == nil {
						fs[fd.Name.Name] = fd
					} else if typ, _ := sfRecv(fd); typ != "" {
						fs[typ+"."+fd.Name.Name] = fd // methods: a dotted key cannot collide with a function name
					}
				}
			}
		}
		for _, d := range decls {
			fd := d.fd
			// ---- receive loops
			outer := map[string]bool{}
			var outerList []string
			for _, st := range fd.Body.List {
				switch x := st.(type) {
				case *ast.AssignStmt:
					if len(x.Lhs) == 1 && len(x.Rhs) == 1 && isMakeBytes(x.Rhs[0]) {
						if id, ok := x.Lhs[0].(*ast.Ident); ok {
							outer[id.Name] = true
							outerList = append(outerList, id.Name)
						}
					}
				case *ast.DeclStmt:
					// var b [N]byte
					if g, ok := x.Decl.(*ast.GenDecl); ok && g.Tok == token.VAR {
						for _, sp := range g.Specs {
							vs := sp.(*ast.ValueSpec)
							if at, ok := vs.Type.(*ast.ArrayType); ok && at.Len != nil && len(vs.Values) == 0 {
								if el, ok := at.Elt.(*ast.Ident); ok && el.Name == "byte" {
									for _, id := range vs.Names {
										outer[id.Name] = true
										outerList = append(outerList, id.Name)
									}
								}
							}
						}
					}
				case *ast.ForStmt:
					reads := readsSocket(x.Body, fs, 0, fd)
					if !reads {
						continue
					}
					lp := serveLoop{Name: ps.label + "." + funcDisplayName(fd), File: d.file, OuterBuffers: append([]string{}, outerList...)}
					if lp.OuterBuffers == nil {
						lp.OuterBuffers = []string{}
					}
					// select { case <-quit: return … default: … } as first statement of the body
					if len(x.Body.List) > 0 {
						if sel, ok := x.Body.List[0].(*ast.SelectStmt); ok {
							for _, c := range sel.Body.List {
								cc := c.(*ast.CommClause)
								if es, ok := cc.Comm.(*ast.ExprStmt); ok {
									if ue, ok := es.X.(*ast.UnaryExpr); ok && ue.Op == token.ARROW {
										for _, b := range cc.Body {
											if _, ok := b.(*ast.ReturnStmt); ok {
												lp.ChecksQuit = true
											}
										}
									}
								}
							}
						}
					}
					// "quit test as a method"
					isClosedCall := func(e ast.Expr) bool {
						c, ok := e.(*ast.CallExpr)
						if !ok || len(c.Args) != 0 {
							return false
						}
						key, ok := sfOwnMethod(c, fd, fs)
						return ok && sfClosedTest(fs[key])
					}
					if ue, ok := x.Cond.(*ast.UnaryExpr); ok && ue.Op == token.NOT && x.Init == nil && x.Post == nil &&
						isClosedCall(ue.X) && sfLoopIsTail(fd, x) {
						lp.ChecksQuit = true
					}
					if len(x.Body.List) > 0 {
						if is, ok := x.Body.List[0].(*ast.IfStmt); ok && is.Init == nil && is.Else == nil && isClosedCall(is.Cond) && len(is.Body.List) == 1 {
							if _, ok := is.Body.List[0].(*ast.ReturnStmt); ok {
								lp.ChecksQuit = true
							}
						}
					}
					tainted := map[string]bool{}
					for k := range outer {
						tainted[k] = true
					}
					decoded := map[string]string{} // variable -> non-retaining decoder it came from
					var ferr error
					aliases := func(e ast.Expr) bool { return tainted[rootIdentOf(e)] }
					var walk func(n ast.Node) bool
					walk = func(n ast.Node) bool {
						if ferr != nil {
							return false
						}
						switch s := n.(type) {
						case *ast.AssignStmt:
							if len(s.Rhs) == 1 {
								rhs := s.Rhs[0]
								var target *ast.Ident
								if id, ok := s.Lhs[0].(*ast.Ident); ok {
									target = id
								}
								if target != nil {
									switch {
									case aliases(rhs):
										tainted[target.Name] = true
									case isMakeBytes(rhs):
										delete(tainted, target.Name)
									default:
										if call, ok := rhs.(*ast.CallExpr); ok {
											passes := false
											for _, a := range call.Args {
												if aliases(a) {
													passes = true
												}
											}
											if passes {
												switch f := call.Fun.(type) {
												case *ast.Ident: // package function: must not retain
													for ai, a := range call.Args {
														if aliases(a) {
															if e := nonRetaining(fs, f.Name, ai, map[string]bool{}); e != nil {
																ferr = fmt.Errorf("%s: %s receives the loop buffer: %v", fset.Position(call.Pos()), f.Name, e)
																return false
															}
														}
													}
													decoded[target.Name] = f.Name
													delete(tainted, target.Name)
												case *ast.SelectorExpr:
													if key, ok := sfOwnMethod(call, fd, fs); ok {
														// a method of the loop's receiver: must not retain, like a package function
														for ai, a := range call.Args {
															if aliases(a) {
																if e := nonRetaining(fs, key, ai, map[string]bool{}); e != nil {
																	ferr = fmt.Errorf("%s: %s receives the loop buffer: %v", fset.Position(call.Pos()), key, e)
																	return false
																}
															}
														}
														decoded[target.Name] = key
														delete(tainted, target.Name)
														break
													}
													switch f.Sel.Name {
													case "ReadFromUDP", "Read", "ReadFull", "Uint16", "Uint32", "Write", "WriteToUDP":
														delete(tainted, target.Name) // stdlib: fills / reads the buffer, returns scalars
													default:
														ferr = fmt.Errorf("%s: unknown call %s with the loop buffer as argument", fset.Position(call.Pos()), f.Sel.Name)
														return false
													}
												}
											} else {
												delete(tainted, target.Name)
											}
										}
									}
								}
							}
						case *ast.CallExpr:
							if key, ok := sfOwnMethod(s, fd, fs); ok {
								hasGo := sfStartsGoroutine(fs[key], fs, 0)
								if hasGo {
									ferr = fmt.Errorf("%s: %s, called from the receive loop, starts a goroutine: spawns inside a helper of the loop are not followed", fset.Position(s.Pos()), key)
									return false
								}
							}
						case *ast.GoStmt:
							sp := goSpawn{}
							switch f := s.Call.Fun.(type) {
							case *ast.SelectorExpr:
								sp.Callee = f.Sel.Name
							case *ast.Ident:
								sp.Callee = f.Name
							case *ast.FuncLit:
								// `go func() { … }()`: the goroutine sees every variable its body mentions.  A loop buffer
								// (or a window of it) mentioned there is read when the goroutine runs, not when the datagram
								// arrived — also when the mention is the source of a copy() taken inside the goroutine.
								sp.Callee = "func literal"
								ast.Inspect(f.Body, func(m ast.Node) bool {
									if id, ok := m.(*ast.Ident); ok && tainted[id.Name] {
										sp.SharesLoopBuffer = true
									}
									return true
								})
							default:
								ferr = fmt.Errorf("%s: go statement with an unknown callee shape", fset.Position(s.Pos()))
								return false
							}
							for _, a := range s.Call.Args {
								switch ax := a.(type) {
								case *ast.Ident, *ast.SliceExpr:
									if aliases(a) {
										sp.SharesLoopBuffer = true
									}
									if id, ok := ax.(*ast.Ident); ok && decoded[id.Name] != "" {
										sp.ViaDecoder = decoded[id.Name]
									}
								case *ast.UnaryExpr, *ast.BasicLit, *ast.SelectorExpr:
								default:
									ferr = fmt.Errorf("%s: go statement argument of unknown shape %T", fset.Position(a.Pos()), a)
									return false
								}
							}
							lp.Spawns = append(lp.Spawns, sp)
							if sp.SharesLoopBuffer {
								lp.SharesBuffer = true
							}
							return false
						}
						return true
					}
					ast.Inspect(x.Body, walk)
					if ferr != nil {
						return "", nil, ferr
					}
					if lp.Spawns == nil {
						lp.Spawns = []goSpawn{}
					}
					loops = append(loops, lp)
				}
			}
			// ---- Stop / Close methods of the server / client types
			if fd.Recv != nil && (fd.Name.Name == "Stop" || fd.Name.Name == "Close") {
				sm := stopMethod{Name: ps.label + "." + funcDisplayName(fd), File: d.file}
				var stack []ast.Node
				ast.Inspect(fd.Body, func(n ast.Node) bool {
					if n == nil {
						stack = stack[:len(stack)-1]
						return true
					}
					stack = append(stack, n)
					c, ok := n.(*ast.CallExpr)
					if !ok {
						return true
					}
					if id, ok := c.Fun.(*ast.Ident); ok && id.Name == "close" && len(c.Args) == 1 {
						sm.ClosesChannel = true
						// inside a func literal that is the argument of <x>.Do(...)?
						for i := len(stack) - 1; i > 0; i-- {
							if _, ok := stack[i].(*ast.FuncLit); ok {
								if pc, ok := stack[i-1].(*ast.CallExpr); ok {
									if sel, ok := pc.Fun.(*ast.SelectorExpr); ok && sel.Sel.Name == "Do" {
										sm.CloseUnderOnce = true
									}
								}
							}
						}
					}
					if sel, ok := c.Fun.(*ast.SelectorExpr); ok {
						switch sel.Sel.Name {
						case "Close":
							sm.ClosesSocket = true
						case "Wait":
							sm.WaitsForLoops = true
						}
					}
					return true
				})
				if sm.ClosesChannel {
					stops = append(stops, sm)
				}
			}
		}
	}
	if len(loops) == 0 {
		return "", nil, fmt.Errorf("no receive loop found")
	}
	sort.Slice(loops, func(i, j int) bool { return loops[i].Name < loops[j].Name })
	sort.Slice(stops, func(i, j int) bool { return stops[i].Name < stops[j].Name })
	var b strings.Builder
	b.WriteString("-- Fact ServerFacts: receive loops and shutdown methods of network/netbios/nbtns and network/llmnr\n")
	b.WriteString("namespace Manticore.Gen.ServerFacts\n\n")
	b.WriteString("/-- a receive loop: does it reuse a buffer allocated outside the loop, does it start goroutines, and does\n    some goroutine receive a slice of that buffer (rather than a copy / a decoded value of its own)? -/\n")
	b.WriteString("structure Loop where\n  name : String\n  reusesBuffer : Bool\n  spawns : Nat\n  sharesBuffer : Bool\n  checksQuit : Bool\n  deriving DecidableEq, Repr\n\n")
	b.WriteString("structure Stop where\n  name : String\n  closeUnderOnce : Bool\n  closesSocket : Bool\n  waitsForLoops : Bool\n  deriving DecidableEq, Repr\n\n")
	b.WriteString("def loops : List Loop := [\n")
	for i, l := range loops {
		sep := ","
		if i == len(loops)-1 {
			sep = ""
		}
		fmt.Fprintf(&b, "  ⟨%q, %v, %d, %v, %v⟩%s\n", l.Name, len(l.OuterBuffers) > 0, len(l.Spawns), l.SharesBuffer, l.ChecksQuit, sep)
	}
	b.WriteString("]\n\ndef stops : List Stop := [\n")
	for i, s := range stops {
		sep := ","
		if i == len(stops)-1 {
			sep = ""
		}
		fmt.Fprintf(&b, "  ⟨%q, %v, %v, %v⟩%s\n", s.Name, s.CloseUnderOnce, s.ClosesSocket, s.WaitsForLoops, sep)
	}
	b.WriteString("]\n\nend Manticore.Gen.ServerFacts\n")
	return b.String(), map[string]any{"loops": loops, "stops": stops}, nil
}

// readsSocket: the node contains a socket read, or a call by plain name of a package-level function that does, or a
// call `r.m(…)` of a method of the receiver of `in` (the function the node belongs to) that does
func readsSocket(n ast.Node, fs pkgFuncs, depth int, in *ast.FuncDecl) bool {
	reads := false
	ast.Inspect(n, func(m ast.Node) bool {
		c, ok := m.(*ast.CallExpr)
		if !ok || reads {
			return !reads
		}
		switch f := c.Fun.(type) {
		case *ast.SelectorExpr:
			switch f.Sel.Name {
			case "ReadFromUDP", "Accept", "ReadFull":
				reads = true
			default:
				if key, ok := sfOwnMethod(c, in, fs); ok && depth < 4 && readsSocket(fs[key].Body, fs, depth+1, fs[key]) {
					reads = true
				}
			}
		case *ast.Ident:
			if fd, ok := fs[f.Name]; ok && depth < 4 && readsSocket(fd.Body, fs, depth+1, fd) {
				reads = true
			}
		}
		return !reads
	})
	return reads
}
