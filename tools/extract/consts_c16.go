package main

// Fact ConstsC16: byte positions, shifts, bounds and separators of ParseSIDFromBytes and of the DN → domain
// conversion (C16).

import "fmt"

func init() {
	facts["ConstsC16"] = constsFact("ConstsC16", "byte positions, shifts and bounds of ParseSIDFromBytes; separators of the DN functions (C16)", func(c *cx) {
		ld := c.pkg("network/ldap")
		f := ld.fn("ParseSIDFromBytes")
		g := f.cond("len(sidBytes)", 0)
		c.named("sid_guard", g, "minLen", "revIdx", "revision")
		c.shapeOf("sid_guard_shape", g)
		c.int1Of("sid_revIdx", f.assign("revisionLevel", -1))
		c.int1Of("sid_countIdx", f.assign("subAuthorityCount", -1))
		for i := 0; i < 5; i++ {
			c.named(fmt.Sprintf("sid_auth%d", i), f.assign("identifierAuthority", i), "base", "off", "shift")
		}
		c.named("sid_auth5", f.assign("identifierAuthority", 5), "base", "off")
		for i := 0; i < 6; i++ {
			c.shapeOf(fmt.Sprintf("sid_auth%d_shape", i), f.assign("identifierAuthority", i))
		}
		c.named("sid_fits", f.cond("len(sidBytes)", 1), "base", "stride")
		c.shapeOf("sid_fits_shape", f.cond("len(sidBytes)", 1))
		s := f.assign("subAuthority", -1)
		c.named("sid_sub", s, "base", "stride")
		c.boolean("sid_sub_le", s, s.little())
		c.nat("sid_sub_width", s, bigInt(s.width()))
		c.shapeOf("sid_sub_shape", s)
		c.str("sid_headFormat", f.assign("parts", 0), f.assign("parts", 0).strs()[0])
		c.str("sid_subFormat", f.assign("parts", 1), f.assign("parts", 1).strs()[0])
		c.str("sid_joiner", f.call("strings.Join", -1).arg(1), f.call("strings.Join", -1).arg(1).str())

		sp := ld.fn("splitDistinguishedName")
		c.int1Of("dn_escape", sp.cmp("distinguishedName[i]", tokEQL, 0))
		c.int1Of("dn_separator", sp.cmp("distinguishedName[i]", tokEQL, 1))
		d := ld.fn("GetDomainFromDistinguishedName")
		c.str("dn_prefix", d.call("strings.HasPrefix", -1).arg(1), d.call("strings.HasPrefix", -1).arg(1).str())
		c.str("dn_trimPrefix", d.call("strings.TrimPrefix", -1).arg(1), d.call("strings.TrimPrefix", -1).arg(1).str())
		// the label separator: written behind every label into the strings.Builder (`domain.WriteByte('.')`)
		dd := d.call("domain.WriteByte", -1).arg(0)
		c.str("dn_joiner", dd, string([]byte{byte(dd.int1().Uint64())}))
		c.str("dn_trimSuffix", d.call("strings.TrimSuffix", -1).arg(1), d.call("strings.TrimSuffix", -1).arg(1).str())
	})
}
