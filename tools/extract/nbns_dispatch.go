package main

// Fact NbnsDispatch (C18): the opcode dispatch of the three NBNS servers and the two "only name queries"
// guards, read off the source of package network/netbios/nbtns.
//
//   switch packet.Header.Flags & <MASK> { case <Op…>: <x>.handle…(&packet, response) … default: … }
//   if <p>.Header.Flags&<MASK> != <Op…> { return … }
//
// MASK and the case constants are constant expressions over the package's own integer constants; they
// are evaluated here (hex/decimal literals, identifiers, | & ^ << >> + parentheses).  Anything else is
// an error.

import (
	"fmt"
	"go/ast"
	"go/parser"
	"go/token"
	"os"
	"path/filepath"
	"sort"
	"strconv"
	"strings"
)

func init() { facts["NbnsDispatch"] = nbnsDispatch }

type constEnv map[string]ast.Expr

func evalConst(env constEnv, e ast.Expr, depth int) (uint64, error) {
	if depth > 20 {
		return 0, fmt.Errorf("constant expression too deep")
	}
	switch x := e.(type) {
	case *ast.BasicLit:
		if x.Kind != token.INT {
			return 0, fmt.Errorf("non-integer literal %s", x.Value)
		}
		return strconv.ParseUint(strings.ReplaceAll(x.Value, "_", ""), 0, 64)
	case *ast.ParenExpr:
		return evalConst(env, x.X, depth+1)
	case *ast.Ident:
		d, ok := env[x.Name]
		if !ok {
			return 0, fmt.Errorf("unknown constant %s", x.Name)
		}
		return evalConst(env, d, depth+1)
	case *ast.CallExpr: // uint16(x)
		if id, ok := x.Fun.(*ast.Ident); ok && len(x.Args) == 1 && (id.Name == "uint16" || id.Name == "uint32" || id.Name == "int") {
			return evalConst(env, x.Args[0], depth+1)
		}
	case *ast.BinaryExpr:
		a, err := evalConst(env, x.X, depth+1)
		if err != nil {
			return 0, err
		}
		b, err := evalConst(env, x.Y, depth+1)
		if err != nil {
			return 0, err
		}
		switch x.Op {
		case token.OR:
			return a | b, nil
		case token.AND:
			return a & b, nil
		case token.XOR:
			return a ^ b, nil
		case token.SHL:
			return a << b, nil
		case token.SHR:
			return a >> b, nil
		case token.ADD:
			return a + b, nil
		}
	}
	return 0, fmt.Errorf("unsupported constant expression")
}

// <anything>.Header.Flags
func isHeaderFlags(e ast.Expr) bool {
	s, ok := e.(*ast.SelectorExpr)
	if !ok || s.Sel.Name != "Flags" {
		return false
	}
	h, ok := s.X.(*ast.SelectorExpr)
	return ok && h.Sel.Name == "Header"
}

func funcDisplayName(fd *ast.FuncDecl) string {
	if fd.Recv != nil && len(fd.Recv.List) == 1 {
		t := fd.Recv.List[0].Type
		if st, ok := t.(*ast.StarExpr); ok {
			t = st.X
		}
		if id, ok := t.(*ast.Ident); ok {
			return id.Name + "." + fd.Name.Name
		}
	}
	return fd.Name.Name
}

type dispatchCase struct {
	Value   uint64 `json:"value"`
	Const   string `json:"const"`
	Handler string `json:"handler"`
}
type dispatchSite struct {
	Name    string         `json:"name"`
	File    string         `json:"file"`
	Mask    uint64         `json:"mask"`
	Cases   []dispatchCase `json:"cases"`
	Default string         `json:"default"`
}
type guardSite struct {
	Name  string `json:"name"`
	File  string `json:"file"`
	Mask  uint64 `json:"mask"`
	Const uint64 `json:"const"`
}

// OpNameQuery, OpRegistration, … (but not OpcodeMask)
func isOpConst(n string) bool {
	return strings.HasPrefix(n, "Op") && len(n) > 2 && n[2] >= 'A' && n[2] <= 'Z'
}

var handlerLean = map[string]string{
	"handleNameQuery":    ".query",
	"handleRegistration": ".registration",
	"handleRelease":      ".release",
	"handleRefresh":      ".refresh",
}

func nbnsDispatch(repo string) (string, any, error) {
	dir := filepath.Join(repo, "network/netbios/nbtns")
	fset := token.NewFileSet()
	entries, err := os.ReadDir(dir)
	if err != nil {
		return "", nil, err
	}
	var files []*ast.File
	var names []string
	env := constEnv{}
	for _, ent := range entries {
		fn := ent.Name()
		if !strings.HasSuffix(fn, ".go") || strings.HasSuffix(fn, "_test.go") {
			continue
		}
		f, err := parser.ParseFile(fset, filepath.Join(dir, fn), nil, 0)
		if err != nil {
			return "", nil, err
		}
		files = append(files, f)
		names = append(names, fn)
		for _, d := range f.Decls {
			gd, ok := d.(*ast.GenDecl)
			if !ok || gd.Tok != token.CONST {
				continue
			}
			for _, sp := range gd.Specs {
				vs := sp.(*ast.ValueSpec)
				if len(vs.Values) == len(vs.Names) {
					for i, n := range vs.Names {
						env[n.Name] = vs.Values[i]
					}
				}
			}
		}
	}
	var sites []dispatchSite
	var guards []guardSite
	for fi, f := range files {
		for _, d := range f.Decls {
			fd, ok := d.(*ast.FuncDecl)
			if !ok || fd.Body == nil {
				continue
			}
			var ferr error
			ast.Inspect(fd.Body, func(n ast.Node) bool {
				if ferr != nil {
					return false
				}
				pos := func(p token.Pos) string { return fset.Position(p).String() }
				switch x := n.(type) {
				case *ast.SwitchStmt:
					be, ok := x.Tag.(*ast.BinaryExpr)
					if !ok || be.Op != token.AND || !isHeaderFlags(be.X) {
						return true
					}
					mask, err := evalConst(env, be.Y, 0)
					if err != nil {
						ferr = fmt.Errorf("%s: switch mask: %v", pos(be.Y.Pos()), err)
						return false
					}
					site := dispatchSite{Name: funcDisplayName(fd), File: names[fi], Mask: mask}
					for _, st := range x.Body.List {
						cc := st.(*ast.CaseClause)
						if cc.List == nil { // default
							if len(cc.Body) == 1 {
								if as, ok := cc.Body[0].(*ast.AssignStmt); ok && as.Tok == token.OR_ASSIGN && len(as.Lhs) == 1 && isHeaderFlags(as.Lhs[0]) {
									if id, ok := as.Rhs[0].(*ast.Ident); ok && id.Name == "RcodeNotImpl" {
										site.Default = "notImpl"
										continue
									}
								}
							}
							ferr = fmt.Errorf("%s: default clause is not `response.Header.Flags |= RcodeNotImpl`", pos(cc.Pos()))
							return false
						}
						if len(cc.Body) != 1 {
							ferr = fmt.Errorf("%s: case body is not a single handler call", pos(cc.Pos()))
							return false
						}
						es, ok := cc.Body[0].(*ast.ExprStmt)
						var hname string
						if ok {
							if call, ok := es.X.(*ast.CallExpr); ok {
								if sel, ok := call.Fun.(*ast.SelectorExpr); ok {
									hname = sel.Sel.Name
								}
							}
						}
						if _, known := handlerLean[hname]; !known {
							ferr = fmt.Errorf("%s: unknown handler %q", pos(cc.Pos()), hname)
							return false
						}
						for _, ce := range cc.List {
							v, err := evalConst(env, ce, 0)
							if err != nil {
								ferr = fmt.Errorf("%s: case constant: %v", pos(ce.Pos()), err)
								return false
							}
							cname := "?"
							if id, ok := ce.(*ast.Ident); ok {
								cname = id.Name
							}
							site.Cases = append(site.Cases, dispatchCase{Value: v, Const: cname, Handler: hname})
						}
					}
					if site.Default == "" {
						ferr = fmt.Errorf("%s: dispatch switch without default clause", pos(x.Pos()))
						return false
					}
					sites = append(sites, site)
				case *ast.IfStmt:
					ce, ok := x.Cond.(*ast.BinaryExpr)
					if !ok || ce.Op != token.NEQ {
						return true
					}
					be, ok := ce.X.(*ast.BinaryExpr)
					if !ok || be.Op != token.AND || !isHeaderFlags(be.X) {
						return true
					}
					// an *opcode* guard compares with one of the Op… constants (tests of rcode / flag bits are not dispatch)
					if id, ok := ce.Y.(*ast.Ident); !ok || !isOpConst(id.Name) {
						return true
					}
					mask, err := evalConst(env, be.Y, 0)
					if err != nil {
						ferr = fmt.Errorf("%s: guard mask: %v", pos(be.Y.Pos()), err)
						return false
					}
					c, err := evalConst(env, ce.Y, 0)
					if err != nil {
						ferr = fmt.Errorf("%s: guard constant: %v", pos(ce.Y.Pos()), err)
						return false
					}
					returns := false
					for _, st := range x.Body.List {
						if _, ok := st.(*ast.ReturnStmt); ok {
							returns = true
						}
					}
					if !returns {
						// a flag test such as `Flags&0x0080 != 0 { nameType = Group }`: not a dispatch decision
						return true
					}
					guards = append(guards, guardSite{Name: funcDisplayName(fd), File: names[fi], Mask: mask, Const: c})
				}
				return true
			})
			if ferr != nil {
				return "", nil, ferr
			}
		}
	}
	if len(sites) == 0 {
		return "", nil, fmt.Errorf("no `switch ….Header.Flags & MASK` dispatch found in %s", dir)
	}
	sort.Slice(sites, func(i, j int) bool { return sites[i].Name < sites[j].Name })
	sort.Slice(guards, func(i, j int) bool { return guards[i].Name < guards[j].Name })
	opNames := []string{}
	for n := range env {
		if isOpConst(n) {
			opNames = append(opNames, n)
		}
	}
	sort.Strings(opNames)
	var b strings.Builder
	b.WriteString("-- Fact NbnsDispatch: opcode dispatch of the NBNS servers (network/netbios/nbtns/*.go)\n")
	b.WriteString("namespace Manticore.Gen.NbnsDispatch\n\n")
	b.WriteString("inductive Handler | query | registration | release | refresh | notImpl\n  deriving DecidableEq, Repr\n\n")
	b.WriteString("/-- one `switch packet.Header.Flags & mask`: the mask and, in source order, (case constant, handler) -/\n")
	b.WriteString("structure Site where\n  name : String\n  mask : Nat\n  cases : List (Nat × Handler)\n  deriving Repr\n\n")
	b.WriteString("/-- one `if p.Header.Flags&mask != const { return }` -/\n")
	b.WriteString("structure Guard where\n  name : String\n  mask : Nat\n  const : Nat\n  deriving Repr\n\n")
	b.WriteString("def sites : List Site := [\n")
	for i, s := range sites {
		var cs []string
		for _, c := range s.Cases {
			cs = append(cs, fmt.Sprintf("(0x%04X, %s)", c.Value, handlerLean[c.Handler]))
		}
		sep := ","
		if i == len(sites)-1 {
			sep = ""
		}
		fmt.Fprintf(&b, "  ⟨%q, 0x%04X, [%s]⟩%s\n", s.Name, s.Mask, strings.Join(cs, ", "), sep)
	}
	b.WriteString("]\n\ndef guards : List Guard := [\n")
	for i, g := range guards {
		sep := ","
		if i == len(guards)-1 {
			sep = ""
		}
		fmt.Fprintf(&b, "  ⟨%q, 0x%04X, 0x%04X⟩%s\n", g.Name, g.Mask, g.Const, sep)
	}
	b.WriteString("]\n\n/-- the package's `Op*` constants -/\ndef opConsts : List (String × Nat) := [\n")
	for i, n := range opNames {
		v, err := evalConst(env, env[n], 0)
		if err != nil {
			return "", nil, fmt.Errorf("constant %s: %v", n, err)
		}
		sep := ","
		if i == len(opNames)-1 {
			sep = ""
		}
		fmt.Fprintf(&b, "  (%q, 0x%04X)%s\n", n, v, sep)
	}
	b.WriteString("]\n\nend Manticore.Gen.NbnsDispatch\n")
	return b.String(), map[string]any{"sites": sites, "guards": guards}, nil
}
